/-
  C08 — updating problem data in place is equivalent to rebuilding the solver.
  Property theorems only (about `ClarabelModel/Update.lean`); helper lemmas live in
  `ClarabelProofs/Lemmas/Update*.lean`.

  Reading guide.  `Update.step` is one `update_P / update_q / update_A / update_b /
  update_data / solve` on the part of the solver state data updating touches.
  * `refines_spec` [F]: on user-level data (`State.abs`, the equilibration divided out) every
    operation is plain overwrite (`specStep`) — for single operations and whole histories.
  * `kkt_in_sync` [S]: the KKT matrix and QDLDL's permuted copy hold the internal `P`, `A`
    values after every accepted or whole-form operation (and after `solve`).
  * `norm_cache` [S]: a cached norm is absent or is the norm of the current vector.
  * `rejects_when_guarded`, `rejects_leave_untouched`, `rejected_pairs_apply_prefix`,
    `empty_update_identity` [S].
  The two `…_counterexample` facts record what the code does after a REJECTED partial
  update (allowed by the property, reported as an observation): the KKT copy / the cache
  are left behind the data.
-/
import ClarabelProofs.Lemmas.Update
import ClarabelProofs.Lemmas.UpdateAbs
import ClarabelProofs.Lemmas.UpdateDense
import ClarabelProofs.Props.C01
import Mathlib.Tactic.IntervalCases

namespace Clarabel.C08
open Clarabel Clarabel.Update

variable {α : Type}

/-- every argument of the operation is in a whole-vector / whole-matrix form -/
def isWholeOp : Op α → Bool
  | .updateP a => a.isWhole
  | .updateA a => a.isWhole
  | .updateQ a => a.isWhole
  | .updateB a => a.isWhole
  | .updateData p q a b => p.isWhole && q.isWhole && a.isWhole && b.isWhole
  | .solve _ => true
  | .norms => true

section structural
variable [Mul α] [Div α] [OfNat α 0] [OfNat α 1] [LT α] [DecidableLT α] [Add α] [Sub α] [FloatLike α]

/-- [S] while presolve or chordal decomposition is active every update form of every
operation is refused with the corresponding error and the state is unchanged. -/
theorem rejects_when_guarded (st : State α) (h : st.presolved = true ∨ st.decomposed = true)
    (pa : MatArg α) (va : VecArg α) (pa' : MatArg α) (va' : VecArg α) :
    let e : DataUpdateError := if st.presolved then .presolveIsActive else .chordalDecompositionIsActive
    updateP st pa = (st, .error e) ∧ updateA st pa = (st, .error e) ∧
    updateQ st va = (st, .error e) ∧ updateB st va = (st, .error e) ∧
    updateData st pa va pa' va' = (st, .error e) := by
  have hg : checkDataUpdateAllowed st =
      .error (if st.presolved then .presolveIsActive else .chordalDecompositionIsActive) := by
    unfold checkDataUpdateAllowed
    rcases h with h | h
    · simp [h]
    · cases hp : st.presolved <;> simp [h]
  simp [updateP, updateA, updateQ, updateB, updateData, hg]

/-- [S] a rejected update in a whole-vector or matrix form (wrong length, pattern mismatch,
guard active) leaves the whole state — data, caches, KKT copies — untouched. -/
theorem rejects_leave_untouched (st : State α) (e : DataUpdateError) :
    (∀ a : MatArg α, a.isWhole = true → (updateP st a).2 = .error e → (updateP st a).1 = st) ∧
    (∀ a : MatArg α, a.isWhole = true → (updateA st a).2 = .error e → (updateA st a).1 = st) ∧
    (∀ a : VecArg α, a.isWhole = true → (updateQ st a).2 = .error e → (updateQ st a).1 = st) ∧
    (∀ a : VecArg α, a.isWhole = true → (updateB st a).2 = .error e → (updateB st a).1 = st) := by
  refine ⟨?_, ?_, ?_, ?_⟩
  · intro a hw h
    unfold updateP at h ⊢
    cases hg : checkDataUpdateAllowed st with
    | error e' => rfl
    | ok u =>
      simp only [hg] at h ⊢
      generalize hres : updateMatrix a st.P st.d st.d (some st.c) = res at h
      obtain ⟨P', r⟩ := res
      cases r with
      | ok u => cases h
      | error e' =>
        have := updateMatrix_whole_err a hw st.P st.d st.d (some st.c) e' (by rw [hres])
        rw [hres] at this
        simp only at this ⊢
        rw [this]
  · intro a hw h
    unfold updateA at h ⊢
    cases hg : checkDataUpdateAllowed st with
    | error e' => rfl
    | ok u =>
      simp only [hg] at h ⊢
      generalize hres : updateMatrix a st.A st.e st.d none = res at h
      obtain ⟨A', r⟩ := res
      cases r with
      | ok u => cases h
      | error e' =>
        have := updateMatrix_whole_err a hw st.A st.e st.d none e' (by rw [hres])
        rw [hres] at this
        simp only at this ⊢
        rw [this]
  · intro a hw h
    unfold updateQ at h ⊢
    cases hg : checkDataUpdateAllowed st with
    | error e' => rfl
    | ok u =>
      simp only [hg] at h ⊢
      generalize hres : updateVector a st.q st.d (some st.c) = res at h
      obtain ⟨q', r⟩ := res
      cases r with
      | ok u => cases h
      | error e' =>
        have := updateVector_whole_err a hw st.q st.d (some st.c) e' (by rw [hres])
        rw [hres] at this
        simp only at this ⊢
        rw [this]
  · intro a hw h
    unfold updateB at h ⊢
    cases hg : checkDataUpdateAllowed st with
    | error e' => rfl
    | ok u =>
      simp only [hg] at h ⊢
      generalize hres : updateVector a st.b st.e none = res at h
      obtain ⟨b', r⟩ := res
      cases r with
      | ok u => cases h
      | error e' =>
        have := updateVector_whole_err a hw st.b st.e none e' (by rw [hres])
        rw [hres] at this
        simp only at this ⊢
        rw [this]

/-- [S] an `(index,value)` update stops at the first index that is out of range, returns
`IncompatibleDimension`, and has applied exactly the pairs before it (in order; a repeated
index keeps the last value).  Stated for the loop shared by all four partial forms. -/
theorem rejected_pairs_apply_prefix (f : Nat → α → α) (idx : Array Nat) (vals : Array α) (v : Array α) :
    let ps := idx.toList.zip vals.toList
    let good := ps.takeWhile (fun p => decide (p.1 < v.size))
    applyPairs f ps v = (good.foldl (fun a p => a.setIfInBounds p.1 (f p.1 p.2)) v,
                         ps.all (fun p => decide (p.1 < v.size))) :=
  applyPairs_eq_takeWhile f _ v

/-- [S] empty updates (`[T;0]`, an empty slice / `Vec`, an empty pair list) are accepted and
change neither the data nor — when the KKT copy is in sync — the KKT values; the LDL copy is
unchanged too unless a `solve` left the regularised diagonal in it (which `update_P` then
overwrites with the unshifted values again).  `update_q / update_b` drop the cached norm,
which is recomputed from the same data on demand. -/
theorem empty_update_identity (st : State α) (hg : checkDataUpdateAllowed st = .ok ())
    (hs : st.KktSync) (hm : st.MapsOK) (a : MatArg α) (v : VecArg α)
    (ha : a = .empty0 ∨ a = .slice #[] ∨ a = .pairs #[] #[])
    (hv : v = .empty0 ∨ v = .slice #[] ∨ v = .pairs #[] #[]) :
    ((updateP st a).2 = .ok () ∧ (updateP st a).1.P = st.P ∧ (updateP st a).1.kkt = st.kkt ∧
      (st.ldlDiagShifted = false → (updateP st a).1.ldl = st.ldl)) ∧
    ((updateA st a).2 = .ok () ∧ (updateA st a).1.A = st.A ∧ (updateA st a).1.kkt = st.kkt ∧
      (updateA st a).1.ldl = st.ldl) ∧
    (updateQ st v = ({ st with normq := none }, .ok ())) ∧
    (updateB st v = ({ st with normb := none }, .ok ())) := by
  have hP : updateMatrix a st.P st.d st.d (some st.c) = (st.P, .ok ()) := by
    rcases ha with rfl | rfl | rfl
    · exact (updateMatrix_empty _ _ _ _).1
    · exact (updateMatrix_empty _ _ _ _).2.1
    · exact (updateMatrix_empty _ _ _ _).2.2
  have hA : updateMatrix a st.A st.e st.d none = (st.A, .ok ()) := by
    rcases ha with rfl | rfl | rfl
    · exact (updateMatrix_empty _ _ _ _).1
    · exact (updateMatrix_empty _ _ _ _).2.1
    · exact (updateMatrix_empty _ _ _ _).2.2
  have hQ : updateVector v st.q st.d (some st.c) = (st.q, .ok ()) := by
    rcases hv with rfl | rfl | rfl
    · exact (updateVector_empty _ _ _).1
    · exact (updateVector_empty _ _ _).2.1
    · exact (updateVector_empty _ _ _).2.2
  have hB : updateVector v st.b st.e none = (st.b, .ok ()) := by
    rcases hv with rfl | rfl | rfl
    · exact (updateVector_empty _ _ _).1
    · exact (updateVector_empty _ _ _).2.1
    · exact (updateVector_empty _ _ _).2.2
  refine ⟨?_, ?_, ?_, ?_⟩
  · simp only [updateP, hg, hP, true_and]
    refine ⟨?_, ?_⟩
    · apply updateValuesKKT_id
      intro k _ hk
      exact hs.kktP k hk
    · intro hsh
      rw [ldlUpdateValues_eq]
      apply updateValuesKKT_id
      intro k hk1 hk
      have hk' : k < st.mapP.size := by simpa using hk1
      have := hs.ldlP k hk (Or.inl hsh)
      simpa [Array.getD, hk'] using this
  · simp only [updateA, hg, hA, true_and]
    refine ⟨?_, ?_⟩
    · apply updateValuesKKT_id
      intro k _ hk
      exact hs.kktA k hk
    · rw [ldlUpdateValues_eq]
      apply updateValuesKKT_id
      intro k hk1 hk
      have hk' : k < st.mapA.size := by simpa using hk1
      have := hs.ldlA k hk
      simpa [Array.getD, hk'] using this
  · simp only [updateQ, hg, hQ]
  · simp only [updateB, hg, hB]

/-- [S] **KKT synchronisation.**  If the data maps are well formed (`MapsOK`) and the KKT
matrix and the LDL copy hold the internal `P̂`, `Â` values (`KktSync`), then so they do after
any operation that is accepted *or* whose arguments are all in whole forms — `solve`
included (it leaves the regularised diagonal in the LDL copy, which `KktSync` exempts until
the next `update_P`). -/
theorem kkt_in_sync (st : State α) (hs : st.KktSync) (hm : st.MapsOK) (op : Op α)
    (h : (step st op).2 = .ok () ∨ isWholeOp op = true) :
    (step st op).1.KktSync ∧ (step st op).1.MapsOK := by
  have hi : st.Inv := ⟨hs, hm⟩
  cases op with
  | updateP a => exact updateP_inv st hi a h
  | updateA a => exact updateA_inv st hi a h
  | updateQ a => exact updateQ_inv st hi a
  | updateB a => exact updateB_inv st hi a
  | updateData p q a b =>
    apply updateData_inv st hi p q a b
    rcases h with h | h
    · exact Or.inl h
    · simp only [isWholeOp, Bool.and_eq_true] at h
      exact Or.inr ⟨h.1.1.1, h.1.2⟩
  | solve sr =>
    refine ⟨⟨hs.kktP, hs.kktA, ?_, hs.ldlA⟩, ⟨hm.sizeP, hm.sizeA, hm.nodup, hm.bound, hm.atopSize, hm.atopBound, hm.atopInj⟩⟩
    intro k hk hc
    apply hs.ldlP k hk
    rcases hc with hc | hc
    · left
      have : (st.ldlDiagShifted || sr) = false := hc
      exact (Bool.or_eq_false_iff.mp this).1
    · exact Or.inr hc
  | norms => exact ⟨⟨hs.kktP, hs.kktA, hs.ldlP, hs.ldlA⟩, ⟨hm.sizeP, hm.sizeA, hm.nodup, hm.bound, hm.atopSize, hm.atopBound, hm.atopInj⟩⟩

/-- [S] `kkt_in_sync` along every finite history of whole-form operations and solves. -/
theorem kkt_in_sync_run (ops : List (Op α)) (st : State α) (hs : st.KktSync) (hm : st.MapsOK)
    (h : ∀ op ∈ ops, isWholeOp op = true) :
    (run st ops).1.KktSync ∧ (run st ops).1.MapsOK := by
  induction ops generalizing st with
  | nil => exact ⟨hs, hm⟩
  | cons op rest ih =>
    have h1 := kkt_in_sync st hs hm op (Or.inr (h op (List.mem_cons_self ..)))
    simp only [run]
    exact ih (step st op).1 h1.1 h1.2 (fun o ho => h o (List.mem_cons_of_mem _ ho))

/-- [S] **Norm caches.**  A cached `normq` / `normb` is either absent or equal to what
`get_normq` / `get_normb` would recompute from the *current* internal data; this is
preserved by every accepted or whole-form operation, and after `solve` both caches hold
exactly the recomputed values. -/
theorem norm_cache (st : State α) (hn : st.NormCacheOK) (op : Op α)
    (h : (step st op).2 = .ok () ∨ isWholeOp op = true) :
    (step st op).1.NormCacheOK := by
  cases op with
  | updateP a => exact updateP_norm st a hn
  | updateA a => exact updateA_norm st a hn
  | updateQ a => exact updateQ_norm st a hn h
  | updateB a => exact updateB_norm st a hn h
  | updateData p q a b =>
    apply updateData_preserves State.NormCacheOK
      (fun s a hs _ => updateP_norm s a hs) (fun s a hs hc => updateQ_norm s a hs hc)
      (fun s a hs _ => updateA_norm s a hs) (fun s a hs hc => updateB_norm s a hs hc) st hn
    rcases h with h | h
    · exact Or.inl h
    · simp only [isWholeOp, Bool.and_eq_true] at h
      exact Or.inr ⟨h.1.1.1, h.1.1.2, h.1.2, h.2⟩
  | solve sr =>
    have := fillNorms_norm st hn
    exact ⟨Or.inr this.1, Or.inr this.2⟩
  | norms =>
    have := fillNorms_norm st hn
    exact ⟨Or.inr this.1, Or.inr this.2⟩

end structural

section field
variable [Field α] [FloatLike α]

/-- [F] **Refinement of plain overwrite.**  Let `abs st` be the user-level data
`(P̂/(c·d·dᵀ), q̂/(c·d), Â/(e·dᵀ), b̂/e)` of a state whose scalings are nonzero (`ScaleOK`).
Every operation — accepted or not, in every argument form — returns the same `Result` as,
and acts on `abs st` exactly like, the specification `specStep`: plain overwrite of the
addressed values with the same acceptance rules (a rejected pair list keeps the pairs
before the bad index; `solve` changes nothing).  (`Lemmas/UpdateAbs.lean`.) -/
theorem refines_spec (st : State α) (h : st.ScaleOK) (op : Op α) :
    ((step st op).1.abs, (step st op).2) =
      specStep (checkDataUpdateAllowed st) st.P st.A st.abs op ∧ (step st op).1.ScaleOK :=
  ⟨abs_step_eq_spec st h op, scaleOK_step st h op⟩

/-- [F] `refines_spec` for every finite history, by induction: the user-level data after
`ops` and the list of `Result`s are those of the plain-overwrite specification run from
`abs st`.  In particular the internal state after the history is a (positive-diagonal, when
`d e c > 0`) equilibration of the FINAL user-level data with the ORIGINAL scalings — which
is what the next `solve` works on. -/
theorem refines_spec_run (st : State α) (h : st.ScaleOK) (ops : List (Op α)) :
    ((run st ops).1.abs, (run st ops).2) =
      specRun (checkDataUpdateAllowed st) st.P st.A st.abs ops :=
  abs_run_eq_spec st h ops

/-- non-vacuity of `refines_spec`: a concrete equilibrated 1×1 state over `ℚ` (`d = 2`,
`e = 3`, `c = 2`, `P̂ = 8`); overwriting `P` by `5` stores `40` and reads back as `5`. -/
example : exStateQ.ScaleOK ∧ (updateP exStateQ (.slice #[5])).1.P.nzval = #[40] ∧
    (updateP exStateQ (.slice #[5])).1.abs.P = #[5] := by
  refine ⟨exStateQ_scaleOK, ?_, ?_⟩
  · simp [updateP, checkDataUpdateAllowed, updateMatrix, updateMatrixSlice, exStateQ, scaleFull,
      rowOf, colOf]
    norm_num
  · have := congrArg (fun x => x.1.P) (abs_updateP_eq_spec exStateQ exStateQ_scaleOK (.slice #[5]))
    simp only at this
    rw [this]
    rfl

end field

section certified
open Clarabel.Dense
variable [Field α] [LinearOrder α] [IsStrictOrderedRing α] [FloatLike α]

/-- [F] **The next solve is certified for the final data** (corollary of `refines_spec_run`
and the imported `C01.residual_unscale`).  After any finite history `ops` from a state with
positive scalings,
1. the user-level data is the plain-overwrite result `u'` of the specification;
2. the internal data the next `solve` works on is exactly `Problem.scaled` (`P̂ = cDPD,
   q̂ = cDq, Â = EAD, b̂ = Eb`) of `u'` with the ORIGINAL positive scalings `d, e, c`
   (dense reading `denseOf` through `index_to_coord`); hence
3. C01's residual identities hold verbatim: for every internal iterate `(x̂, ŝ, ẑ, τ)` the
   user-space residuals of the returned point against the FINAL data are the internal
   residuals divided by `E τ` resp. `D c τ` — so the termination test of the next solve
   (C01–C03) certifies the final data, not the data the solver was constructed with.
Not carried: that the stale equilibration is still a *good* one (known finding
`KF-C08-stale-equilibration`). -/
theorem next_solve_certified (st : State α) (h : st.ScaleOK) (ops : List (Op α)) (n m : ℕ)
    (hn : n = st.q.size) (hm : m = st.b.size)
    (hd : ∀ i, i < n → 0 < st.d.getD i 0) (he : ∀ i, i < m → 0 < st.e.getD i 0) (hc : 0 < st.c) :
    let st' := (run st ops).1
    let sc := st.scaling n m
    st'.abs = (specRun (checkDataUpdateAllowed st) st.P st.A st.abs ops).1 ∧
    st'.denseInternal n m = (st'.denseUser n m).scaled sc ∧
    ∀ (xh : Fin n → α) (sh zh : Fin m → α) (τ : α), 0 < τ →
      (∀ i, mulV (st'.denseUser n m).A (unX sc τ xh) i + unS sc τ sh i - (st'.denseUser n m).b i
              = rz (st'.denseInternal n m) xh sh τ i * (1 / sc.e i) * (1 / τ)) ∧
      (∀ j, mulV (st'.denseUser n m).P (unX sc τ xh) j + mulVT (st'.denseUser n m).A (unZ sc τ zh) j
              + (st'.denseUser n m).q j
              = -(rx (st'.denseInternal n m) xh zh τ j * (1 / sc.d j) * (1 / τ) * (1 / sc.c))) := by
  intro st' sc
  have hf : SameFrame st st' := run_frame st ops
  have hsc : st'.scaling n m = sc := by
    simp only [State.scaling, sc, hf.d, hf.e, hf.c]
  have hint : st'.denseInternal n m = (st'.denseUser n m).scaled sc := by
    rw [← hsc]
    apply denseInternal_eq_scaled st' n m (by rw [hf.q]; exact hn) (by rw [hf.b]; exact hm)
    · intro i hi; rw [hf.d]; exact (hd i hi).ne'
    · intro i hi; rw [hf.e]; exact (he i hi).ne'
    · rw [hf.c]; exact hc.ne'
  refine ⟨congrArg Prod.fst (abs_run_eq_spec st h ops), hint, ?_⟩
  intro xh sh zh τ hτ
  rw [hint]
  exact C01.residual_unscale (st'.denseUser n m) sc xh sh zh τ
    (fun j => hd j j.2) (fun i => he i i.2) hc hτ

end certified

/-! ### non-vacuity and the recorded behaviour after a rejected partial update -/

section examples

/-- a carrier for concrete examples (`ℕ` with the obvious `FloatLike` structure) -/
local instance : FloatLike Nat :=
  ⟨id, id, id, fun a _ => a, max, min, id, fun _ => false, fun _ => true, 0, id⟩

/-- a 1-variable, 1-constraint solver state: `P = [5]`, `A = [7]`, KKT upper triangle
`[5, 7, h]`, LDL copy stored in reverse order (`AtoPAPt = [2,1,0]`) -/
def exState : State Nat :=
  { P := ⟨1, 1, #[0, 1], #[0], #[5]⟩, q := #[3], A := ⟨1, 1, #[0, 1], #[0], #[7]⟩, b := #[2],
    d := #[1], dinv := #[1], e := #[1], einv := #[1], c := 1,
    normq := none, normb := none, presolved := false, decomposed := false,
    kkt := #[5, 7, 0], mapP := #[0], mapA := #[1], diagFull := #[0, 2],
    ldl := #[0, 7, 5], atoPAPt := #[2, 1, 0], ldlDiagShifted := false }

theorem exState_mapsOK : exState.MapsOK := by
  refine ⟨rfl, rfl, by decide, by decide, rfl, by decide, ?_⟩
  intro i j hi hj h
  have hi' : i < 3 := hi
  have hj' : j < 3 := hj
  interval_cases i <;> interval_cases j <;> first | rfl | (exfalso; revert h; decide)

theorem exState_sync : exState.KktSync := by
  refine ⟨?_, ?_, ?_, ?_⟩ <;> intro k hk <;> (have : k = 0 := by (have : k < 1 := hk); omega) <;> subst this
  · rfl
  · rfl
  · intro _; rfl
  · rfl

/-- the hypotheses of `kkt_in_sync`, `norm_cache`, `empty_update_identity` are satisfiable,
and an accepted update really changes the copies -/
example : exState.KktSync ∧ exState.MapsOK ∧ exState.NormCacheOK ∧
    (updateP exState (.slice #[9])).2 = .ok () ∧
    (updateP exState (.slice #[9])).1.kkt = #[9, 7, 0] ∧ (updateP exState (.slice #[9])).1.ldl = #[0, 7, 9] :=
  ⟨exState_sync, exState_mapsOK, ⟨Or.inl rfl, Or.inl rfl⟩, by decide, by decide, by decide⟩

/-- [S] what the code does after a REJECTED partial `update_P` (noted, not a violation: the
property constrains accepted updates): the pair before the bad index is applied to `P̂`, the
call returns `IncompatibleDimension` before `kktsystem.update_P`, so the KKT matrix keeps
the old value — `KktSync` does not survive a rejected partial update. -/
theorem rejected_partial_update_desyncs_kkt :
    (updateP exState (.pairs #[0, 9] #[6, 6])).2 = .error (.badFormat .incompatibleDimension) ∧
    (updateP exState (.pairs #[0, 9] #[6, 6])).1.P.nzval = #[6] ∧
    (updateP exState (.pairs #[0, 9] #[6, 6])).1.kkt = #[5, 7, 0] ∧
    ¬ (updateP exState (.pairs #[0, 9] #[6, 6])).1.KktSync := by
  refine ⟨by decide, by decide, by decide, ?_⟩
  intro h
  have := h.kktP 0 (by decide)
  revert this
  decide

/-- [S] likewise a REJECTED partial `update_q` changes `q̂` but keeps the cached norm. -/
theorem rejected_partial_update_keeps_stale_norm :
    let st := (step exState (.solve true)).1
    st.normq = some 3 ∧
    (updateQ st (.pairs #[0, 9] #[8, 8])).2 = .error (.badFormat .incompatibleDimension) ∧
    (updateQ st (.pairs #[0, 9] #[8, 8])).1.q = #[8] ∧
    (updateQ st (.pairs #[0, 9] #[8, 8])).1.normq = some 3 := by
  refine ⟨by decide, by decide, by decide, by decide⟩

end examples

end Clarabel.C08
