/-
  C08 — updating problem data in place is equivalent to rebuilding the solver.
  Property theorems only (about `ClarabelModel/Update.lean`); helper lemmas live in
  `ClarabelProofs/Lemmas/Update*.lean`.

  Reading guide.  `Update.step` is one `update_P / update_q / update_A / update_b /
  update_data / solve` on the part of the solver state data updating touches.
  * `refines_spec` [F]: on user-level data (`State.abs`, the equilibration divided out) every
    operation is plain overwrite (`specStep`) — for single operations and whole histories.
  * `kkt_in_sync` [S]: the KKT matrix and QDLDL's permuted copy hold the internal `P`, `A`
    values after every accepted or whole-form operation (and after `solve`).
  * `norm_cache` [S]: a cached norm is absent or is the norm of the current vector.
  * `rejects_when_guarded`, `rejects_leave_untouched`, `rejected_pairs_apply_prefix`,
    `empty_update_identity` [S].
  The two `…_counterexample` facts record what the code does after a REJECTED partial
  update (allowed by the property, reported as an observation): the KKT copy / the cache
  are left behind the data.
  * round 7 (`full_*`, at the end): the same operations on the solver object of the WHOLE-SOLVER
    model (`ClarabelModel/SolverUpdate.lean`), hypotheses on the user's input only
    (`full_kkt_inputs_from_user_input`), the refinement of the state model above
    (`full_update_refines_state_model`), and the property itself modulo the frozen equilibration:
    `full_update_then_solve_eq_rebuilt`; rejected updates: `full_rejected_update_post_state`.
-/
import ClarabelProofs.Lemmas.Update
import ClarabelProofs.Lemmas.UpdateAbs
import ClarabelProofs.Lemmas.UpdateDense
import ClarabelProofs.Props.C01
import ClarabelProofs.Lemmas.UpdateOwnMaps
import ClarabelProofs.Lemmas.UpdateFreshEquiv
import ClarabelProofs.Lemmas.UpdateGuard
import ClarabelProofs.Lemmas.UpdateReject
import ClarabelProofs.Lemmas.UpdateSolverFinal
import ClarabelProofs.Lemmas.UpdateSolverTotal
import Mathlib.Tactic.IntervalCases

namespace Clarabel.C08
open Clarabel Clarabel.Update

variable {α : Type}

/-- every argument of the operation is in a whole-vector / whole-matrix form -/
def isWholeOp : Op α → Bool
  | .updateP a => a.isWhole
  | .updateA a => a.isWhole
  | .updateQ a => a.isWhole
  | .updateB a => a.isWhole
  | .updateData p q a b => p.isWhole && q.isWhole && a.isWhole && b.isWhole
  | .solve _ => true
  | .norms => true

section structural
variable [Mul α] [Div α] [OfNat α 0] [OfNat α 1] [LT α] [DecidableLT α] [Add α] [Sub α] [FloatLike α]

/-- [S] while presolve or chordal decomposition is active every update form of every
operation is refused with the corresponding error and the state is unchanged. -/
theorem rejects_when_guarded (st : State α) (h : st.presolved = true ∨ st.decomposed = true)
    (pa : MatArg α) (va : VecArg α) (pa' : MatArg α) (va' : VecArg α) :
    let e : DataUpdateError := if st.presolved then .presolveIsActive else .chordalDecompositionIsActive
    updateP st pa = (st, .error e) ∧ updateA st pa = (st, .error e) ∧
    updateQ st va = (st, .error e) ∧ updateB st va = (st, .error e) ∧
    updateData st pa va pa' va' = (st, .error e) := by
  have hg : checkDataUpdateAllowed st =
      .error (if st.presolved then .presolveIsActive else .chordalDecompositionIsActive) := by
    unfold checkDataUpdateAllowed
    rcases h with h | h
    · simp [h]
    · cases hp : st.presolved <;> simp [h]
  simp [updateP, updateA, updateQ, updateB, updateData, hg]

/-- [S] a rejected update in a whole-vector or matrix form (wrong length, pattern mismatch,
guard active) leaves the whole state — data, caches, KKT copies — untouched. -/
theorem rejects_leave_untouched (st : State α) (e : DataUpdateError) :
    (∀ a : MatArg α, a.isWhole = true → (updateP st a).2 = .error e → (updateP st a).1 = st) ∧
    (∀ a : MatArg α, a.isWhole = true → (updateA st a).2 = .error e → (updateA st a).1 = st) ∧
    (∀ a : VecArg α, a.isWhole = true → (updateQ st a).2 = .error e → (updateQ st a).1 = st) ∧
    (∀ a : VecArg α, a.isWhole = true → (updateB st a).2 = .error e → (updateB st a).1 = st) := by
  refine ⟨?_, ?_, ?_, ?_⟩
  · intro a hw h
    unfold updateP at h ⊢
    cases hg : checkDataUpdateAllowed st with
    | error e' => rfl
    | ok u =>
      simp only [hg] at h ⊢
      generalize hres : updateMatrix a st.P st.d st.d (some st.c) = res at h
      obtain ⟨P', r⟩ := res
      cases r with
      | ok u => cases h
      | error e' =>
        have := updateMatrix_whole_err a hw st.P st.d st.d (some st.c) e' (by rw [hres])
        rw [hres] at this
        simp only at this ⊢
        rw [this]
  · intro a hw h
    unfold updateA at h ⊢
    cases hg : checkDataUpdateAllowed st with
    | error e' => rfl
    | ok u =>
      simp only [hg] at h ⊢
      generalize hres : updateMatrix a st.A st.e st.d none = res at h
      obtain ⟨A', r⟩ := res
      cases r with
      | ok u => cases h
      | error e' =>
        have := updateMatrix_whole_err a hw st.A st.e st.d none e' (by rw [hres])
        rw [hres] at this
        simp only at this ⊢
        rw [this]
  · intro a hw h
    unfold updateQ at h ⊢
    cases hg : checkDataUpdateAllowed st with
    | error e' => rfl
    | ok u =>
      simp only [hg] at h ⊢
      generalize hres : updateVector a st.q st.d (some st.c) = res at h
      obtain ⟨q', r⟩ := res
      cases r with
      | ok u => cases h
      | error e' =>
        have := updateVector_whole_err a hw st.q st.d (some st.c) e' (by rw [hres])
        rw [hres] at this
        simp only at this ⊢
        rw [this]
  · intro a hw h
    unfold updateB at h ⊢
    cases hg : checkDataUpdateAllowed st with
    | error e' => rfl
    | ok u =>
      simp only [hg] at h ⊢
      generalize hres : updateVector a st.b st.e none = res at h
      obtain ⟨b', r⟩ := res
      cases r with
      | ok u => cases h
      | error e' =>
        have := updateVector_whole_err a hw st.b st.e none e' (by rw [hres])
        rw [hres] at this
        simp only at this ⊢
        rw [this]

/-- [S] an `(index,value)` update stops at the first index that is out of range, returns
`IncompatibleDimension`, and has applied exactly the pairs before it (in order; a repeated
index keeps the last value).  Stated for the loop shared by all four partial forms. -/
theorem rejected_pairs_apply_prefix (f : Nat → α → α) (idx : Array Nat) (vals : Array α) (v : Array α) :
    let ps := idx.toList.zip vals.toList
    let good := ps.takeWhile (fun p => decide (p.1 < v.size))
    applyPairs f ps v = (good.foldl (fun a p => a.setIfInBounds p.1 (f p.1 p.2)) v,
                         ps.all (fun p => decide (p.1 < v.size))) :=
  applyPairs_eq_takeWhile f _ v

/-- [S] empty updates (`[T;0]`, an empty slice / `Vec`, an empty pair list) are accepted and
change neither the data nor — when the KKT copy is in sync — the KKT values; the LDL copy is
unchanged too unless a `solve` left the regularised diagonal in it (which `update_P` then
overwrites with the unshifted values again).  `update_q / update_b` drop the cached norm,
which is recomputed from the same data on demand. -/
theorem empty_update_identity (st : State α) (hg : checkDataUpdateAllowed st = .ok ())
    (hs : st.KktSync) (hm : st.MapsOK) (a : MatArg α) (v : VecArg α)
    (ha : a = .empty0 ∨ a = .slice #[] ∨ a = .pairs #[] #[])
    (hv : v = .empty0 ∨ v = .slice #[] ∨ v = .pairs #[] #[]) :
    ((updateP st a).2 = .ok () ∧ (updateP st a).1.P = st.P ∧ (updateP st a).1.kkt = st.kkt ∧
      (st.ldlDiagShifted = false → (updateP st a).1.ldl = st.ldl)) ∧
    ((updateA st a).2 = .ok () ∧ (updateA st a).1.A = st.A ∧ (updateA st a).1.kkt = st.kkt ∧
      (updateA st a).1.ldl = st.ldl) ∧
    (updateQ st v = ({ st with normq := none }, .ok ())) ∧
    (updateB st v = ({ st with normb := none }, .ok ())) := by
  have hP : updateMatrix a st.P st.d st.d (some st.c) = (st.P, .ok ()) := by
    rcases ha with rfl | rfl | rfl
    · exact (updateMatrix_empty _ _ _ _).1
    · exact (updateMatrix_empty _ _ _ _).2.1
    · exact (updateMatrix_empty _ _ _ _).2.2
  have hA : updateMatrix a st.A st.e st.d none = (st.A, .ok ()) := by
    rcases ha with rfl | rfl | rfl
    · exact (updateMatrix_empty _ _ _ _).1
    · exact (updateMatrix_empty _ _ _ _).2.1
    · exact (updateMatrix_empty _ _ _ _).2.2
  have hQ : updateVector v st.q st.d (some st.c) = (st.q, .ok ()) := by
    rcases hv with rfl | rfl | rfl
    · exact (updateVector_empty _ _ _).1
    · exact (updateVector_empty _ _ _).2.1
    · exact (updateVector_empty _ _ _).2.2
  have hB : updateVector v st.b st.e none = (st.b, .ok ()) := by
    rcases hv with rfl | rfl | rfl
    · exact (updateVector_empty _ _ _).1
    · exact (updateVector_empty _ _ _).2.1
    · exact (updateVector_empty _ _ _).2.2
  refine ⟨?_, ?_, ?_, ?_⟩
  · simp only [updateP, hg, hP, true_and]
    refine ⟨?_, ?_⟩
    · apply updateValuesKKT_id
      intro k _ hk
      exact hs.kktP k hk
    · intro hsh
      rw [ldlUpdateValues_eq]
      apply updateValuesKKT_id
      intro k hk1 hk
      have hk' : k < st.mapP.size := by simpa using hk1
      have := hs.ldlP k hk (Or.inl hsh)
      simpa [Array.getD, hk'] using this
  · simp only [updateA, hg, hA, true_and]
    refine ⟨?_, ?_⟩
    · apply updateValuesKKT_id
      intro k _ hk
      exact hs.kktA k hk
    · rw [ldlUpdateValues_eq]
      apply updateValuesKKT_id
      intro k hk1 hk
      have hk' : k < st.mapA.size := by simpa using hk1
      have := hs.ldlA k hk
      simpa [Array.getD, hk'] using this
  · simp only [updateQ, hg, hQ]
  · simp only [updateB, hg, hB]

/-- [S] **KKT synchronisation.**  If the data maps are well formed (`MapsOK`) and the KKT
matrix and the LDL copy hold the internal `P̂`, `Â` values (`KktSync`), then so they do after
any operation that is accepted *or* whose arguments are all in whole forms — `solve`
included (it leaves the regularised diagonal in the LDL copy, which `KktSync` exempts until
the next `update_P`). -/
theorem kkt_in_sync (st : State α) (hs : st.KktSync) (hm : st.MapsOK) (op : Op α)
    (h : (step st op).2 = .ok () ∨ isWholeOp op = true) :
    (step st op).1.KktSync ∧ (step st op).1.MapsOK := by
  have hi : st.Inv := ⟨hs, hm⟩
  cases op with
  | updateP a => exact updateP_inv st hi a h
  | updateA a => exact updateA_inv st hi a h
  | updateQ a => exact updateQ_inv st hi a
  | updateB a => exact updateB_inv st hi a
  | updateData p q a b =>
    apply updateData_inv st hi p q a b
    rcases h with h | h
    · exact Or.inl h
    · simp only [isWholeOp, Bool.and_eq_true] at h
      exact Or.inr ⟨h.1.1.1, h.1.2⟩
  | solve sr =>
    refine ⟨⟨hs.kktP, hs.kktA, ?_, hs.ldlA⟩, ⟨hm.sizeP, hm.sizeA, hm.nodup, hm.bound, hm.atopSize, hm.atopBound, hm.atopInj⟩⟩
    intro k hk hc
    apply hs.ldlP k hk
    rcases hc with hc | hc
    · left
      have : (st.ldlDiagShifted || sr) = false := hc
      exact (Bool.or_eq_false_iff.mp this).1
    · exact Or.inr hc
  | norms => exact ⟨⟨hs.kktP, hs.kktA, hs.ldlP, hs.ldlA⟩, ⟨hm.sizeP, hm.sizeA, hm.nodup, hm.bound, hm.atopSize, hm.atopBound, hm.atopInj⟩⟩

/-- [S] `kkt_in_sync` along every finite history of whole-form operations and solves. -/
theorem kkt_in_sync_run (ops : List (Op α)) (st : State α) (hs : st.KktSync) (hm : st.MapsOK)
    (h : ∀ op ∈ ops, isWholeOp op = true) :
    (run st ops).1.KktSync ∧ (run st ops).1.MapsOK := by
  induction ops generalizing st with
  | nil => exact ⟨hs, hm⟩
  | cons op rest ih =>
    have h1 := kkt_in_sync st hs hm op (Or.inr (h op (List.mem_cons_self ..)))
    simp only [run]
    exact ih (step st op).1 h1.1 h1.2 (fun o ho => h o (List.mem_cons_of_mem _ ho))

/-- [S] **Norm caches.**  A cached `normq` / `normb` is either absent or equal to what
`get_normq` / `get_normb` would recompute from the *current* internal data; this is
preserved by every accepted or whole-form operation, and after `solve` both caches hold
exactly the recomputed values. -/
theorem norm_cache (st : State α) (hn : st.NormCacheOK) (op : Op α)
    (h : (step st op).2 = .ok () ∨ isWholeOp op = true) :
    (step st op).1.NormCacheOK := by
  cases op with
  | updateP a => exact updateP_norm st a hn
  | updateA a => exact updateA_norm st a hn
  | updateQ a => exact updateQ_norm st a hn h
  | updateB a => exact updateB_norm st a hn h
  | updateData p q a b =>
    apply updateData_preserves State.NormCacheOK
      (fun s a hs _ => updateP_norm s a hs) (fun s a hs hc => updateQ_norm s a hs hc)
      (fun s a hs _ => updateA_norm s a hs) (fun s a hs hc => updateB_norm s a hs hc) st hn
    rcases h with h | h
    · exact Or.inl h
    · simp only [isWholeOp, Bool.and_eq_true] at h
      exact Or.inr ⟨h.1.1.1, h.1.1.2, h.1.2, h.2⟩
  | solve sr =>
    have := fillNorms_norm st hn
    exact ⟨Or.inr this.1, Or.inr this.2⟩
  | norms =>
    have := fillNorms_norm st hn
    exact ⟨Or.inr this.1, Or.inr this.2⟩

end structural

section field
variable [Field α] [FloatLike α]

/-- [F] **Refinement of plain overwrite.**  Let `abs st` be the user-level data
`(P̂/(c·d·dᵀ), q̂/(c·d), Â/(e·dᵀ), b̂/e)` of a state whose scalings are nonzero (`ScaleOK`).
Every operation — accepted or not, in every argument form — returns the same `Result` as,
and acts on `abs st` exactly like, the specification `specStep`: plain overwrite of the
addressed values with the same acceptance rules (a rejected pair list keeps the pairs
before the bad index; `solve` changes nothing).  (`Lemmas/UpdateAbs.lean`.) -/
theorem refines_spec (st : State α) (h : st.ScaleOK) (op : Op α) :
    ((step st op).1.abs, (step st op).2) =
      specStep (checkDataUpdateAllowed st) st.P st.A st.abs op ∧ (step st op).1.ScaleOK :=
  ⟨abs_step_eq_spec st h op, scaleOK_step st h op⟩

/-- [F] `refines_spec` for every finite history, by induction: the user-level data after
`ops` and the list of `Result`s are those of the plain-overwrite specification run from
`abs st`.  In particular the internal state after the history is a (positive-diagonal, when
`d e c > 0`) equilibration of the FINAL user-level data with the ORIGINAL scalings — which
is what the next `solve` works on. -/
theorem refines_spec_run (st : State α) (h : st.ScaleOK) (ops : List (Op α)) :
    ((run st ops).1.abs, (run st ops).2) =
      specRun (checkDataUpdateAllowed st) st.P st.A st.abs ops :=
  abs_run_eq_spec st h ops

/-- non-vacuity of `refines_spec`: a concrete equilibrated 1×1 state over `ℚ` (`d = 2`,
`e = 3`, `c = 2`, `P̂ = 8`); overwriting `P` by `5` stores `40` and reads back as `5`. -/
example : exStateQ.ScaleOK ∧ (updateP exStateQ (.slice #[5])).1.P.nzval = #[40] ∧
    (updateP exStateQ (.slice #[5])).1.abs.P = #[5] := by
  refine ⟨exStateQ_scaleOK, ?_, ?_⟩
  · simp [updateP, checkDataUpdateAllowed, updateMatrix, updateMatrixSlice, exStateQ, scaleFull,
      rowOf, colOf]
    norm_num
  · have := congrArg (fun x => x.1.P) (abs_updateP_eq_spec exStateQ exStateQ_scaleOK (.slice #[5]))
    simp only at this
    rw [this]
    rfl

end field

section certified
open Clarabel.Dense
variable [Field α] [LinearOrder α] [IsStrictOrderedRing α] [FloatLike α]

/-- [F] **The next solve is certified for the final data** (corollary of `refines_spec_run`
and the imported `C01.residual_unscale`).  After any finite history `ops` from a state with
positive scalings,
1. the user-level data is the plain-overwrite result `u'` of the specification;
2. the internal data the next `solve` works on is exactly `Problem.scaled` (`P̂ = cDPD,
   q̂ = cDq, Â = EAD, b̂ = Eb`) of `u'` with the ORIGINAL positive scalings `d, e, c`
   (dense reading `denseOf` through `index_to_coord`); hence
3. C01's residual identities hold verbatim: for every internal iterate `(x̂, ŝ, ẑ, τ)` the
   user-space residuals of the returned point against the FINAL data are the internal
   residuals divided by `E τ` resp. `D c τ` — so the termination test of the next solve
   (C01–C03) certifies the final data, not the data the solver was constructed with.
Not carried: that the stale equilibration is still a *good* one (known finding
`KF-C08-stale-equilibration`). -/
theorem next_solve_certified (st : State α) (h : st.ScaleOK) (ops : List (Op α)) (n m : ℕ)
    (hn : n = st.q.size) (hm : m = st.b.size)
    (hd : ∀ i, i < n → 0 < st.d.getD i 0) (he : ∀ i, i < m → 0 < st.e.getD i 0) (hc : 0 < st.c) :
    let st' := (run st ops).1
    let sc := st.scaling n m
    st'.abs = (specRun (checkDataUpdateAllowed st) st.P st.A st.abs ops).1 ∧
    st'.denseInternal n m = (st'.denseUser n m).scaled sc ∧
    ∀ (xh : Fin n → α) (sh zh : Fin m → α) (τ : α), 0 < τ →
      (∀ i, mulV (st'.denseUser n m).A (unX sc τ xh) i + unS sc τ sh i - (st'.denseUser n m).b i
              = rz (st'.denseInternal n m) xh sh τ i * (1 / sc.e i) * (1 / τ)) ∧
      (∀ j, mulV (st'.denseUser n m).P (unX sc τ xh) j + mulVT (st'.denseUser n m).A (unZ sc τ zh) j
              + (st'.denseUser n m).q j
              = -(rx (st'.denseInternal n m) xh zh τ j * (1 / sc.d j) * (1 / τ) * (1 / sc.c))) := by
  intro st' sc
  have hf : SameFrame st st' := run_frame st ops
  have hsc : st'.scaling n m = sc := by
    simp only [State.scaling, sc, hf.d, hf.e, hf.c]
  have hint : st'.denseInternal n m = (st'.denseUser n m).scaled sc := by
    rw [← hsc]
    apply denseInternal_eq_scaled st' n m (by rw [hf.q]; exact hn) (by rw [hf.b]; exact hm)
    · intro i hi; rw [hf.d]; exact (hd i hi).ne'
    · intro i hi; rw [hf.e]; exact (he i hi).ne'
    · rw [hf.c]; exact hc.ne'
  refine ⟨congrArg Prod.fst (abs_run_eq_spec st h ops), hint, ?_⟩
  intro xh sh zh τ hτ
  rw [hint]
  exact C01.residual_unscale (st'.denseUser n m) sc xh sh zh τ
    (fun j => hd j j.2) (fun i => he i i.2) hc hτ

end certified

/-! ### round 3: the solver's OWN maps — `MapsOK` discharged (C11, C12) -/

section ownmaps
open Clarabel.Lemmas.KktSpec (KktInputs)
variable [OfNat α 0]

/-- [S] **`MapsOK` and `KktSync` hold for the maps the solver builds itself.**  Let `K` be the
`DirectLDLKKTSolver` the whole-solver model constructs from the internal data `d`
(`Solver.KktSolver.new` = `assemble_kkt_matrix` (triu) + `QDLDLFactorisation::new` =
`permute_symmetric`), for inputs satisfying C11's `KktInputs` (canonical upper-triangular square
`P`, canonical `A`, `Σ numel = m`).  Then the C08 state read off `(d, K)` (`State.ofSolver`)
satisfies `MapsOK` — `map.P`, `map.A` have one slot per stored value, point into `KKT.nzval`
and are jointly injective (imported `C11.assembly_maps` coordinates + `AsmRun` slot
distinctness); `AtoPAPt` is an injective map onto `triuA.nzval` (imported
`C12.permute_symmetric`) — and `KktSync`: both copies hold the values of `P̂`, `Â`. -/
theorem own_maps_ok [Add α] [Sub α] [Mul α] [Div α] [Neg α] [OfNat α 1] [LT α] [DecidableLT α]
    [BEq α] [FloatLike α] (d : ProblemData α) (cones : List (Solver.ConeSt α))
    (lin : Solver.LinSettings α) (perm : Array Nat) (K : Solver.KktSolver α) (dec : Bool)
    (h : Solver.KktSolver.new d.P d.A cones d.m d.n lin perm = .ok K)
    (hin : KktInputs d.P d.A (cones.map Solver.ConeSt.kktSpec)) :
    (State.ofSolver d K dec).MapsOK ∧ (State.ofSolver d K dec).KktSync :=
  kktSolver_new_inv_own d cones lin perm K dec h hin

/-- [S] the same from the two component equations (any state whose maps ARE the outputs of
`assemble_kkt_matrix` and `permute_symmetric`). -/
theorem own_maps_ok_of_assembly {P A : Csc α} {cones : List Kkt.ConeSpec} {K T : Csc α}
    {map : Kkt.LDLDataMap} {iperm atop : Array Nat} (st : State α) (hin : KktInputs P A cones)
    (hasm : Kkt.assembleKktMatrix P A cones .triu = .ok (K, map))
    (hperm : Qdldl.permuteSymmetric K iperm = .ok (T, atop))
    (hP : st.P = P) (hA : st.A = A) (hmP : st.mapP = map.P) (hmA : st.mapA = map.A)
    (hk : st.kkt = K.nzval) (hat : st.atoPAPt = atop) (hl : st.ldl = T.nzval) :
    st.MapsOK ∧ st.KktSync :=
  inv_of_assembly_own st hin hasm hperm hP hA hmP hmA hk hat hl

/-- [S] **`kkt_in_sync` with no `MapsOK` / `KktSync` hypothesis**: starting from the state of a
freshly constructed solver (its own maps), after every finite history of whole-form operations
and solves the KKT matrix and QDLDL's permuted copy hold the internal `P̂`, `Â` values. -/
theorem kkt_in_sync_own [Add α] [Sub α] [Mul α] [Div α] [Neg α] [OfNat α 1] [LT α] [DecidableLT α]
    [BEq α] [FloatLike α] (d : ProblemData α) (cones : List (Solver.ConeSt α))
    (lin : Solver.LinSettings α) (perm : Array Nat) (K : Solver.KktSolver α) (dec : Bool)
    (h : Solver.KktSolver.new d.P d.A cones d.m d.n lin perm = .ok K)
    (hin : KktInputs d.P d.A (cones.map Solver.ConeSt.kktSpec))
    (ops : List (Op α)) (hw : ∀ op ∈ ops, isWholeOp op = true) :
    (run (State.ofSolver d K dec) ops).1.KktSync ∧ (run (State.ofSolver d K dec) ops).1.MapsOK := by
  obtain ⟨hm, hs⟩ := own_maps_ok d cones lin perm K dec h hin
  exact kkt_in_sync_run ops _ hs hm hw

/-- [S] … and for histories with partial `(index,value)` forms as long as each operation is
accepted or in whole form (`AcceptedRun`): the three invariants `KktSync`, `MapsOK`,
`NormCacheOK` hold after the history. -/
theorem invariants_own [Add α] [Sub α] [Mul α] [Div α] [Neg α] [OfNat α 1] [LT α] [DecidableLT α]
    [BEq α] [FloatLike α] (d : ProblemData α) (cones : List (Solver.ConeSt α))
    (lin : Solver.LinSettings α) (perm : Array Nat) (K : Solver.KktSolver α) (dec : Bool)
    (h : Solver.KktSolver.new d.P d.A cones d.m d.n lin perm = .ok K)
    (hin : KktInputs d.P d.A (cones.map Solver.ConeSt.kktSpec))
    (hn : (State.ofSolver d K dec).NormCacheOK)
    (ops : List (Op α)) (ha : AcceptedRun (State.ofSolver d K dec) ops) :
    (run (State.ofSolver d K dec) ops).1.KktSync ∧ (run (State.ofSolver d K dec) ops).1.MapsOK ∧
      (run (State.ofSolver d K dec) ops).1.NormCacheOK := by
  obtain ⟨hm, hs⟩ := own_maps_ok d cones lin perm K dec h hin
  exact fe_run_inv ops _ ⟨hs, hm, hn⟩ ha

end ownmaps

/-! ### round 3: state equivalence with a rebuilt solver -/

section rebuilt

/-- `AcceptedRun` for whole-form histories -/
theorem acceptedRun_of_isWhole (ops : List (Op α)) [Mul α] [Div α] [OfNat α 0] [OfNat α 1] [LT α]
    [DecidableLT α] [Add α] [Sub α] [FloatLike α]
    (h : ∀ op ∈ ops, isWholeOp op = true) (st : State α) : AcceptedRun st ops :=
  acceptedRun_of_whole ops (fun op ho => by
    have := h op ho
    cases op <;> exact this) st

variable [Field α] [FloatLike α]

/-- [F] **state equivalence.**  After any history in which every operation is accepted or in
whole form, the updated solver's state `st'` equals, component by component, the state
`st.rebuilt u'` that construction would leave from the FINAL user data `u' = abs st'` on the same
patterns and maps with the equilibration FROZEN at the original `(d, e, c)`
(`EquivRebuilt`): the internal `P̂ = c·D·P'·D`, `q̂ = c·D·q'`, `Â = E·A'·D`, `b̂ = E·b'` (full `Csc`
equality), all of `d, dinv, e, einv, c`, flags and maps unchanged, both value copies equal at
every data position (the LDL copy except diagonal positions while a regularised diagonal is
pending), norm caches absent or valid.  The equilibration vectors are the ONLY thing that
distinguishes it from `new(final data)`: by `fresh_data_same_form` a freshly equilibrated
solver's data have exactly this form with its own `(d, e, c)`. -/
theorem state_equiv_rebuilt (st : State α) (h : st.ScaleOK) (hm : st.MapsOK) (hs : st.KktSync)
    (hn : st.NormCacheOK) (ops : List (Op α)) (ha : AcceptedRun st ops) :
    EquivRebuilt st (run st ops).1 :=
  run_equiv_rebuilt st h hm hs hn ops ha

/-- [F] the data part for EVERY history (rejected partial updates included): the internal data
are the original equilibration re-applied to the plain-overwrite result of the specification. -/
theorem data_eq_scaled_spec (st : State α) (h : st.ScaleOK) (ops : List (Op α)) :
    let u' := (specRun (checkDataUpdateAllowed st) st.P st.A st.abs ops).1
    let st' := (run st ops).1
    st'.abs = u' ∧ st'.P = { st.P with nzval := (st.scaledValues u').P } ∧
    st'.q = (st.scaledValues u').q ∧
    st'.A = { st.A with nzval := (st.scaledValues u').A } ∧ st'.b = (st.scaledValues u').b :=
  run_data_eq_scaled_spec st h ops

/-- [F] **the fresh side**: the data of a freshly constructed, equilibrated solver are
`scaledValues` of the user data with ITS OWN accumulated `(d, e, c)` (imported `C10.scaled_data`)
— the same closed form as `state_equiv_rebuilt`, with different positive diagonal scalings. -/
theorem fresh_data_same_form [LinearOrder α] [IsStrictOrderedRing α] (dt dt' : ProblemData α)
    (cones : List (ConeT α)) (s : Equil.Settings α) (hen : s.enable = true)
    (hfresh : dt.equilibration = EquilData.new dt.n dt.m)
    (h : Equil.equilibrate dt cones s = .ok dt') (rest : State α) :
    (rest.withData dt').scaledValues ⟨dt.P.nzval, dt.q, dt.A.nzval, dt.b⟩ =
      ⟨dt'.P.nzval, dt'.q, dt'.A.nzval, dt'.b⟩ :=
  fresh_solver_data_eq_scaledValues dt dt' cones s hen hfresh h rest

/-- [F] norm caches after an accepted history: whatever a cache holds, and whatever
`get_normq / get_normb` recompute, is the ∞-norm of the FINAL user-level `q`, `b`. -/
theorem norms_are_final_user_norms [LinearOrder α] [IsStrictOrderedRing α] [LawfulFloatLike α]
    {st0 st' : State α} (h : EquivRebuilt st0 st')
    (hszd : st0.dinv.size = st0.q.size) (hsze : st0.einv.size = st0.b.size)
    (hdinv : ∀ i, i < st0.q.size → st0.dinv.getD i 0 = 1 / st0.d.getD i 0)
    (heinv : ∀ i, i < st0.b.size → st0.einv.getD i 0 = 1 / st0.e.getD i 0) (hc : 0 < st0.c) :
    getNormq st' = Vec.normInf st'.abs.q ∧ getNormb st' = Vec.normInf st'.abs.b ∧
    (∀ v, st'.normq = some v → v = Vec.normInf st'.abs.q) ∧
    (∀ v, st'.normb = some v → v = Vec.normInf st'.abs.b) :=
  h.norms_final_user hszd hsze hdinv heinv hc

/-- [F] cone uniformity of the equilibration survives data updating (`e` is never changed), so
C01's cone-membership transfer applies to the updated solver with the ORIGINAL scalings. -/
theorem cone_uniformity_kept (st : State α) (ops : List (Op α)) (n m lo len : ℕ) (e₀ : α)
    (hu : ∀ k, k < len → st.e.getD (lo + k) 0 = e₀) :
    let st' := (run st ops).1
    let sc : Dense.Scaling α n m := st'.scaling n m
    (∀ k, k < len → st'.e.getD (lo + k) 0 = e₀) ∧ sc = st.scaling n m ∧
    ∀ (sh zh : Fin m → α) (τ : α) (i : Fin m), lo ≤ i.val → i.val < lo + len →
      Dense.unS sc τ sh i = sh i * (1 / e₀ * (1 / τ)) ∧
      Dense.unZ sc τ zh i = zh i * (e₀ * (1 / τ * (1 / sc.c))) :=
  frame_keeps_cone_uniformity st ops n m lo len e₀ hu

end rebuilt

section certified_verdict
open Clarabel.Dense Clarabel.Info
variable {n m : ℕ}

/-- [F] **a `Solved` verdict of the updated solver certifies the FINAL user problem** (over `ℝ`;
`state_equiv_rebuilt` + imported `C01.certificate`).  After any accepted history from a live
state with positive scalings and `dinv = 1/d`, `einv = 1/e`: the norms the next solve uses
(`get_normb`, `get_normq`, cached or recomputed) are `‖b'‖∞`, `‖q'‖∞` of the final user data; the
internal problem it iterates on is `p.scaled sc` for the FINAL user problem `p` and the ORIGINAL
scalings `sc`; hence if `info` carries the values `Info.update` assigns for an internal iterate
and `check_convergence_full` turns a non-`Solved` status into `Solved`, the un-scaled point meets
the documented termination test (primal residual, dual residual, gap) for `p` to the documented
tolerances.  What remains EMPIRICAL in "behaves as a fresh solver": that the updated and the fresh
solver reach the same verdict class along their (different) iteration paths — both verdicts are
certificates for the same final data, but the stale equilibration may be a poor one (known
finding `KF-C08-stale-equilibration`). -/
theorem solved_certifies_final_problem (st : State ℝ) (h : st.ScaleOK) (hmaps : st.MapsOK)
    (hs : st.KktSync) (hnc : st.NormCacheOK) (ops : List (Op ℝ)) (ha : AcceptedRun st ops)
    (hn : n = st.q.size) (hm : m = st.b.size)
    (hd : ∀ i, i < n → 0 < st.d.getD i 0) (he : ∀ i, i < m → 0 < st.e.getD i 0)
    (hc : 0 < st.c)
    (hszd : st.dinv.size = st.q.size) (hsze : st.einv.size = st.b.size)
    (hdinv : ∀ i, i < st.q.size → st.dinv.getD i 0 = 1 / st.d.getD i 0)
    (heinv : ∀ i, i < st.b.size → st.einv.getD i 0 = 1 / st.e.getD i 0) :
    let st' := (run st ops).1
    let p : Problem ℝ n m := st'.denseUser n m
    let sc : Scaling ℝ n m := st.scaling n m
    let normb := Vec.normInf st'.abs.b
    let normq := Vec.normInf st'.abs.q
    getNormb st' = normb ∧ getNormq st' = normq ∧
    ∀ (xh : Fin n → ℝ) (sh zh : Fin m → ℝ) (τ : ℝ), 0 < τ →
    ∀ (i : InfoS ℝ) (bz qx : ℝ) (s : Settings ℝ),
      i.res_primal = intResPrimal (st'.denseInternal n m) sc xh sh τ (getNormb st') →
      i.res_dual = intResDual (st'.denseInternal n m) sc xh zh τ (getNormq st') →
      i.cost_primal = intCostPrimal (st'.denseInternal n m) sc xh τ →
      i.cost_dual = intCostDual (st'.denseInternal n m) sc xh zh τ →
      i.gap_abs = |i.cost_primal - i.cost_dual| →
      i.gap_rel = i.gap_abs / max 1 (min |i.cost_primal| |i.cost_dual|) →
      i.status ≠ .solved →
      (checkConvergenceFull i bz qx s).status = .solved →
      let x := unX sc τ xh
      let sv := unS sc τ sh
      let z := unZ sc τ zh
      let pobj := dot x (mulV p.P x) / 2 + dot p.q x
      let dobj := -dot p.b z - dot x (mulV p.P x) / 2
      nrm (fun i => mulV p.A x i + sv i - p.b i) / max 1 (normb + nrm x + nrm sv) < s.full.feas
      ∧ nrm (fun j => mulV p.P x j + mulVT p.A z j + p.q j) / max 1 (normq + nrm x + nrm z)
          < s.full.feas
      ∧ (|pobj - dobj| < s.full.gap_abs
          ∨ |pobj - dobj| / max 1 (min |pobj| |dobj|) < s.full.gap_rel) :=
  solved_certifies_final_data_cached st h hmaps hs hnc ops ha hn hm hd he hc hszd hsze hdinv heinv

end certified_verdict

/-! ### round 3: the complete rejection table (every error kind as an exact iff-condition) -/

section rejection
variable [Mul α] [OfNat α 0]

/-- [S] **rejection table of `update_vector`**, every argument form -/
theorem rejection_table_vector (arg : VecArg α) (v vscale : Array α) (cs : Option α) :
    match arg with
    | .empty0 => updateVector .empty0 v vscale cs = (v, .ok ())
    | .slice data =>
      (∀ e, (updateVector (.slice data) v vscale cs).2 = .error e ↔
          (data.size ≠ 0 ∧ data.size ≠ v.size ∧ e = .incompatibleDimension)) ∧
      ((updateVector (.slice data) v vscale cs).2 = .ok () ↔
          (data.size = 0 ∨ data.size = v.size)) ∧
      ((∃ e, (updateVector (.slice data) v vscale cs).2 = .error e) →
          (updateVector (.slice data) v vscale cs).1 = v) ∧
      (data.size = 0 → (updateVector (.slice data) v vscale cs).1 = v)
    | .pairs idx vals =>
      (∀ e, (updateVector (.pairs idx vals) v vscale cs).2 = .error e ↔
          (e = .incompatibleDimension ∧
            ∃ k, k < idx.size ∧ k < vals.size ∧ v.size ≤ idx.getD k 0)) ∧
      ((updateVector (.pairs idx vals) v vscale cs).2 = .ok () ↔
          ∀ k, k < idx.size → k < vals.size → idx.getD k 0 < v.size) ∧
      (updateVector (.pairs idx vals) v vscale cs).1 =
        ((idx.toList.zip vals.toList).takeWhile (fun p => decide (p.1 < v.size))).foldl
          (fun a p => a.setIfInBounds p.1 (vscaleFull vscale cs p.1 p.2)) v :=
  updateVector_result_table arg v vscale cs

/-- [S] **rejection table of `update_matrix`**, every argument form -/
theorem rejection_table_matrix (arg : MatArg α) (M : Csc α) (l r : Array α) (cs : Option α) :
    (match arg with
    | .empty0 => updateMatrix .empty0 M l r cs = (M, .ok ())
    | .slice data =>
      (∀ e, (updateMatrix (.slice data) M l r cs).2 = .error e ↔
          (data.size ≠ 0 ∧ data.size ≠ M.nzval.size ∧ e = .incompatibleDimension)) ∧
      ((updateMatrix (.slice data) M l r cs).2 = .ok () ↔
          (data.size = 0 ∨ data.size = M.nzval.size)) ∧
      (data.size = 0 → (updateMatrix (.slice data) M l r cs).1 = M)
    | .matrix U =>
      ((updateMatrix (.matrix U) M l r cs).2 = .error .incompatibleDimension ↔
        ((U.m ≠ M.m ∨ U.n ≠ M.n) ∨
          (U.m = M.m ∧ U.n = M.n ∧ U.colptr = M.colptr ∧ U.rowval = M.rowval ∧
            U.nzval.size ≠ 0 ∧ U.nzval.size ≠ M.nzval.size))) ∧
      ((updateMatrix (.matrix U) M l r cs).2 = .error .sparsityMismatch ↔
        (U.m = M.m ∧ U.n = M.n ∧ (U.colptr ≠ M.colptr ∨ U.rowval ≠ M.rowval))) ∧
      ((updateMatrix (.matrix U) M l r cs).2 = .ok () ↔
        (U.m = M.m ∧ U.n = M.n ∧ U.colptr = M.colptr ∧ U.rowval = M.rowval ∧
          (U.nzval.size = 0 ∨ U.nzval.size = M.nzval.size)))
    | .pairs idx vals =>
      (∀ e, (updateMatrix (.pairs idx vals) M l r cs).2 = .error e ↔
          (e = .incompatibleDimension ∧
            ∃ k, k < idx.size ∧ k < vals.size ∧ M.nzval.size ≤ idx.getD k 0)) ∧
      ((updateMatrix (.pairs idx vals) M l r cs).2 = .ok () ↔
          ∀ k, k < idx.size → k < vals.size → idx.getD k 0 < M.nzval.size) ∧
      (updateMatrix (.pairs idx vals) M l r cs).1 =
        { M with
          nzval :=
            ((idx.toList.zip vals.toList).takeWhile (fun p => decide (p.1 < M.nzval.size))).foldl
              (fun a p => a.setIfInBounds p.1 (scalePair M l r cs p.1 p.2)) M.nzval }) ∧
    -- no other error kind, for every form
    (∀ e, (updateMatrix arg M l r cs).2 = .error e →
      e = .incompatibleDimension ∨ (e = .sparsityMismatch ∧ ∃ U, arg = .matrix U)) ∧
    -- a rejected whole form returns `M` unchanged
    (arg.isWhole = true → ∀ e, (updateMatrix arg M l r cs).2 = .error e →
      (updateMatrix arg M l r cs).1 = M) :=
  updateMatrix_result_table arg M l r cs

/-- [S] **zip truncation**: the pair forms see `index` and `values` only through
`zip(index, values)` — i.e. through their prefixes of length `min index.len() values.len()`.
A bad index beyond the shorter length is never examined, surplus values are ignored: result
AND written data are those of the truncated arguments. -/
theorem pairs_zip_truncation (idx : Array Nat) (vals : Array α) :
    let k := min idx.size vals.size
    (∀ (v vscale : Array α) (cs : Option α),
      updateVector (.pairs idx vals) v vscale cs
        = updateVector (.pairs (idx.extract 0 k) (vals.extract 0 k)) v vscale cs) ∧
    (∀ (M : Csc α) (l r : Array α) (cs : Option α),
      updateMatrix (.pairs idx vals) M l r cs
        = updateMatrix (.pairs (idx.extract 0 k) (vals.extract 0 k)) M l r cs) :=
  pairs_truncation idx vals

/-- [S] **rejection table of `update_P`**: `PresolveIsActive` first, then
`ChordalDecompositionIsActive`, then the format error of `update_matrix` on `(P̂, d, d, c)`;
`Ok` iff none of these; the only possible `BadFormat` payloads are `IncompatibleDimension`
and `SparsityMismatch` (the latter only for a `CscMatrix` argument).  Since
`DataUpdateError` has exactly the three constructors named, no other value can occur. -/
theorem rejection_table_update_P (st : State α) (arg : MatArg α) :
    ((updateP st arg).2 = .error .presolveIsActive ↔ st.presolved = true) ∧
    ((updateP st arg).2 = .error .chordalDecompositionIsActive ↔
      (st.presolved = false ∧ st.decomposed = true)) ∧
    (∀ e, (updateP st arg).2 = .error (.badFormat e) ↔
      (st.presolved = false ∧ st.decomposed = false ∧
        (updateMatrix arg st.P st.d st.d (some st.c)).2 = .error e)) ∧
    ((updateP st arg).2 = .ok () ↔
      (st.presolved = false ∧ st.decomposed = false ∧
        (updateMatrix arg st.P st.d st.d (some st.c)).2 = .ok ())) ∧
    (∀ e, (updateP st arg).2 = .error (.badFormat e) →
      e = .incompatibleDimension ∨ (e = .sparsityMismatch ∧ ∃ U, arg = .matrix U)) :=
  updateP_result_table st arg

/-- [S] **rejection table of `update_A`** (`update_matrix` on `(Â, e, d, None)`) -/
theorem rejection_table_update_A (st : State α) (arg : MatArg α) :
    ((updateA st arg).2 = .error .presolveIsActive ↔ st.presolved = true) ∧
    ((updateA st arg).2 = .error .chordalDecompositionIsActive ↔
      (st.presolved = false ∧ st.decomposed = true)) ∧
    (∀ e, (updateA st arg).2 = .error (.badFormat e) ↔
      (st.presolved = false ∧ st.decomposed = false ∧
        (updateMatrix arg st.A st.e st.d none).2 = .error e)) ∧
    ((updateA st arg).2 = .ok () ↔
      (st.presolved = false ∧ st.decomposed = false ∧
        (updateMatrix arg st.A st.e st.d none).2 = .ok ())) ∧
    (∀ e, (updateA st arg).2 = .error (.badFormat e) →
      e = .incompatibleDimension ∨ (e = .sparsityMismatch ∧ ∃ U, arg = .matrix U)) :=
  updateA_result_table st arg

/-- [S] **rejection table of `update_q`** (`update_vector` on `(q̂, d, c)`); the only
`BadFormat` payload is `IncompatibleDimension` -/
theorem rejection_table_update_q (st : State α) (arg : VecArg α) :
    ((updateQ st arg).2 = .error .presolveIsActive ↔ st.presolved = true) ∧
    ((updateQ st arg).2 = .error .chordalDecompositionIsActive ↔
      (st.presolved = false ∧ st.decomposed = true)) ∧
    (∀ e, (updateQ st arg).2 = .error (.badFormat e) ↔
      (st.presolved = false ∧ st.decomposed = false ∧
        (updateVector arg st.q st.d (some st.c)).2 = .error e)) ∧
    ((updateQ st arg).2 = .ok () ↔
      (st.presolved = false ∧ st.decomposed = false ∧
        (updateVector arg st.q st.d (some st.c)).2 = .ok ())) ∧
    (∀ e, (updateQ st arg).2 = .error (.badFormat e) → e = .incompatibleDimension) :=
  updateQ_result_table st arg

/-- [S] **rejection table of `update_b`** (`update_vector` on `(b̂, e, None)`) -/
theorem rejection_table_update_b (st : State α) (arg : VecArg α) :
    ((updateB st arg).2 = .error .presolveIsActive ↔ st.presolved = true) ∧
    ((updateB st arg).2 = .error .chordalDecompositionIsActive ↔
      (st.presolved = false ∧ st.decomposed = true)) ∧
    (∀ e, (updateB st arg).2 = .error (.badFormat e) ↔
      (st.presolved = false ∧ st.decomposed = false ∧
        (updateVector arg st.b st.e none).2 = .error e)) ∧
    ((updateB st arg).2 = .ok () ↔
      (st.presolved = false ∧ st.decomposed = false ∧
        (updateVector arg st.b st.e none).2 = .ok ())) ∧
    (∀ e, (updateB st arg).2 = .error (.badFormat e) → e = .incompatibleDimension) :=
  updateB_result_table st arg

/-- [S] every possible `Result` of the four operations, as a finite list -/
theorem rejection_result_values (st : State α) (pa : MatArg α) (va : VecArg α) :
    (∀ r, r = (updateP st pa).2 ∨ r = (updateA st pa).2 →
      r = .ok () ∨ r = .error .presolveIsActive ∨ r = .error .chordalDecompositionIsActive ∨
      r = .error (.badFormat .incompatibleDimension) ∨ r = .error (.badFormat .sparsityMismatch)) ∧
    (∀ r, r = (updateQ st va).2 ∨ r = (updateB st va).2 →
      r = .ok () ∨ r = .error .presolveIsActive ∨ r = .error .chordalDecompositionIsActive ∨
      r = .error (.badFormat .incompatibleDimension)) :=
  update_result_values_table st pa va

/-- [S] **rejection table of `update_data`, mixed argument forms.**
With `accP st p = (update_matrix p on (P̂,d,d,c)).2`, `accQ`, `accA`, `accB` evaluated on the
ORIGINAL state:
* a guard is active ⇒ the guard error, state unchanged;
* otherwise `BadFormat e` iff `e` is the error of the FIRST rejecting component in the order
  `P, q, A, b`; `Ok` iff all four are accepted;
* the state returned on an error at component `i` is the state after the single updates of the
  components `< i` followed by the (possibly partial, for the pair forms) effect of component
  `i`: `update_data` is the composition `update_P; update_q; update_A; update_b` cut after the
  first error. -/
theorem rejection_table_update_data (st : State α) (p : MatArg α) (q : VecArg α) (a : MatArg α)
    (b : VecArg α) :
    let s1 := (updateP st p).1
    let s2 := (updateQ s1 q).1
    let s3 := (updateA s2 a).1
    -- the result
    ((updateData st p q a b).2 = .error .presolveIsActive ↔ st.presolved = true) ∧
    ((updateData st p q a b).2 = .error .chordalDecompositionIsActive ↔
      (st.presolved = false ∧ st.decomposed = true)) ∧
    (∀ e, (updateData st p q a b).2 = .error (.badFormat e) ↔
      (st.presolved = false ∧ st.decomposed = false ∧
        (accP st p = .error e ∨
         (accP st p = .ok () ∧ accQ st q = .error e) ∨
         (accP st p = .ok () ∧ accQ st q = .ok () ∧ accA st a = .error e) ∨
         (accP st p = .ok () ∧ accQ st q = .ok () ∧ accA st a = .ok () ∧ accB st b = .error e)))) ∧
    ((updateData st p q a b).2 = .ok () ↔
      (st.presolved = false ∧ st.decomposed = false ∧
        accP st p = .ok () ∧ accQ st q = .ok () ∧ accA st a = .ok () ∧ accB st b = .ok ())) ∧
    (∀ e, (updateData st p q a b).2 = .error (.badFormat e) →
      e = .incompatibleDimension ∨
      (e = .sparsityMismatch ∧ ((∃ U, p = .matrix U) ∨ (∃ U, a = .matrix U)))) ∧
    -- the state
    (∀ g, checkDataUpdateAllowed st = .error g → updateData st p q a b = (st, .error g)) ∧
    (checkDataUpdateAllowed st = .ok () →
      (∀ e, accP st p = .error e → updateData st p q a b = (s1, .error (.badFormat e))) ∧
      (∀ e, accP st p = .ok () → accQ st q = .error e →
        updateData st p q a b = (s2, .error (.badFormat e))) ∧
      (∀ e, accP st p = .ok () → accQ st q = .ok () → accA st a = .error e →
        updateData st p q a b = (s3, .error (.badFormat e))) ∧
      (accP st p = .ok () → accQ st q = .ok () → accA st a = .ok () →
        updateData st p q a b = ((updateB s3 b).1, fmtToRes (accB st b)))) :=
  updateData_result_table st p q a b

/-- [S] **`update_data` is not atomic.**  All four arguments in whole forms (`[T;0]`, `[T]`,
`Vec<T>`, `CscMatrix`), no guard active.  If the call is rejected at component `i`, the
rejected component itself changes nothing, but the components before it HAVE been applied:
the returned state is the one after the accepted single updates `< i` (data, KKT copies and
norm-cache flush included), not the original one. -/
theorem update_data_not_atomic (st : State α) (p : MatArg α) (q : VecArg α) (a : MatArg α)
    (b : VecArg α) (hg : checkDataUpdateAllowed st = .ok ())
    (hp : p.isWhole = true) (hq : q.isWhole = true) (ha : a.isWhole = true) (hb : b.isWhole = true) :
    let s1 := (updateP st p).1
    let s2 := (updateQ s1 q).1
    let s3 := (updateA s2 a).1
    (∀ e, accP st p = .error e → updateData st p q a b = (st, .error (.badFormat e))) ∧
    (∀ e, accP st p = .ok () → accQ st q = .error e →
      updateData st p q a b = (s1, .error (.badFormat e)) ∧ (updateP st p).2 = .ok ()) ∧
    (∀ e, accP st p = .ok () → accQ st q = .ok () → accA st a = .error e →
      updateData st p q a b = (s2, .error (.badFormat e)) ∧
      (updateP st p).2 = .ok () ∧ (updateQ s1 q).2 = .ok ()) ∧
    (∀ e, accP st p = .ok () → accQ st q = .ok () → accA st a = .ok () → accB st b = .error e →
      updateData st p q a b = (s3, .error (.badFormat e)) ∧
      (updateP st p).2 = .ok () ∧ (updateQ s1 q).2 = .ok () ∧ (updateA s2 a).2 = .ok ()) :=
  updateData_not_atomic st p q a b hg hp hq ha hb

end rejection

/-! ### round 3: the presolve guard as a condition on the user's data (with C09) -/

/-- [S] **when is `PresolveIsActive` returned?**  For a well-formed problem the constructed data
records a presolver — and then (`rejects_when_guarded`) EVERY update form of every operation is
refused with `PresolveIsActive` and the state is unchanged — iff presolve is enabled and some
row of a nonnegative cone of the collapsed cone list has `b[i] > (1 − 10ε)·infbound` (imported
`C09.problemdata_new_spec`).  In particular with `presolve_enable = false`, or with all such
`b[i]` below the bound, updates are never refused for this reason. -/
theorem presolve_guard_iff [Add α] [Sub α] [Mul α] [Div α] [OfNat α 0] [OfNat α 1] [LT α]
    [DecidableLT α] [FloatLike α] (P : Csc α) (q : Array α) (A : Csc α) (b : Array α)
    (cones : List (ConeT α)) (presolve : Bool) (inf : α) (d : ProblemData α)
    (hA : C16.Canonical A) (hAm : A.m = b.size) (hnum : Cones.numel cones = b.size) (hPsq : P.m = P.n)
    (h : ProblemData.new P q A b cones presolve false inf = .ok d) :
    d.presolver.isSome = true ↔
      (presolve = true ∧ ∃ i, ∃ hi : i < b.size,
        Cones.inNonneg (Cones.newCollapsed cones) i = true ∧ Presolve.threshold inf < b[i]) :=
  presolver_recorded_iff P q A b cones presolve inf d hA hAm hnum hPsq h

/-! ### non-vacuity and the recorded behaviour after a rejected partial update -/

section examples

/-- a carrier for concrete examples (`ℕ` with the obvious `FloatLike` structure) -/
local instance : FloatLike Nat :=
  ⟨id, id, id, fun a _ => a, max, min, id, fun _ => false, fun _ => true, 0, id⟩

/-- a 1-variable, 1-constraint solver state: `P = [5]`, `A = [7]`, KKT upper triangle
`[5, 7, h]`, LDL copy stored in reverse order (`AtoPAPt = [2,1,0]`) -/
def exState : State Nat :=
  { P := ⟨1, 1, #[0, 1], #[0], #[5]⟩, q := #[3], A := ⟨1, 1, #[0, 1], #[0], #[7]⟩, b := #[2],
    d := #[1], dinv := #[1], e := #[1], einv := #[1], c := 1,
    normq := none, normb := none, presolved := false, decomposed := false,
    kkt := #[5, 7, 0], mapP := #[0], mapA := #[1], diagFull := #[0, 2],
    ldl := #[0, 7, 5], atoPAPt := #[2, 1, 0], ldlDiagShifted := false }

theorem exState_mapsOK : exState.MapsOK := by
  refine ⟨rfl, rfl, by decide, by decide, rfl, by decide, ?_⟩
  intro i j hi hj h
  have hi' : i < 3 := hi
  have hj' : j < 3 := hj
  interval_cases i <;> interval_cases j <;> first | rfl | (exfalso; revert h; decide)

theorem exState_sync : exState.KktSync := by
  refine ⟨?_, ?_, ?_, ?_⟩ <;> intro k hk <;> (have : k = 0 := by (have : k < 1 := hk); omega) <;> subst this
  · rfl
  · rfl
  · intro _; rfl
  · rfl

/-- the hypotheses of `kkt_in_sync`, `norm_cache`, `empty_update_identity` are satisfiable,
and an accepted update really changes the copies -/
example : exState.KktSync ∧ exState.MapsOK ∧ exState.NormCacheOK ∧
    (updateP exState (.slice #[9])).2 = .ok () ∧
    (updateP exState (.slice #[9])).1.kkt = #[9, 7, 0] ∧ (updateP exState (.slice #[9])).1.ldl = #[0, 7, 9] :=
  ⟨exState_sync, exState_mapsOK, ⟨Or.inl rfl, Or.inl rfl⟩, by decide, by decide, by decide⟩

/-- [S] what the code does after a REJECTED partial `update_P` (noted, not a violation: the
property constrains accepted updates): the pair before the bad index is applied to `P̂`, the
call returns `IncompatibleDimension` before `kktsystem.update_P`, so the KKT matrix keeps
the old value — `KktSync` does not survive a rejected partial update. -/
theorem rejected_partial_update_desyncs_kkt :
    (updateP exState (.pairs #[0, 9] #[6, 6])).2 = .error (.badFormat .incompatibleDimension) ∧
    (updateP exState (.pairs #[0, 9] #[6, 6])).1.P.nzval = #[6] ∧
    (updateP exState (.pairs #[0, 9] #[6, 6])).1.kkt = #[5, 7, 0] ∧
    ¬ (updateP exState (.pairs #[0, 9] #[6, 6])).1.KktSync := by
  refine ⟨by decide, by decide, by decide, ?_⟩
  intro h
  have := h.kktP 0 (by decide)
  revert this
  decide

/-- [S] likewise a REJECTED partial `update_q` changes `q̂` but keeps the cached norm. -/
theorem rejected_partial_update_keeps_stale_norm :
    let st := (step exState (.solve true)).1
    st.normq = some 3 ∧
    (updateQ st (.pairs #[0, 9] #[8, 8])).2 = .error (.badFormat .incompatibleDimension) ∧
    (updateQ st (.pairs #[0, 9] #[8, 8])).1.q = #[8] ∧
    (updateQ st (.pairs #[0, 9] #[8, 8])).1.normq = some 3 := by
  refine ⟨by decide, by decide, by decide, by decide⟩

end examples

/-! ### non-vacuity of the round-3 theorems (witnesses live in the lemma files) -/

section examples_round3
open Clarabel.Lemmas.KktSpec (KktInputs)

/-- `update_data_not_atomic`: a rejected whole-form `update_data` that returns a state different
from the one it was called on (`P̂` and the KKT copy already rewritten) -/
example : ∃ (st : State Nat) (p : MatArg Nat) (q : VecArg Nat) (a : MatArg Nat) (b : VecArg Nat),
    p.isWhole = true ∧ q.isWhole = true ∧ a.isWhole = true ∧ b.isWhole = true ∧
    (∃ e, (updateData st p q a b).2 = .error e) ∧ (updateData st p q a b).1.P ≠ st.P :=
  updateData_not_atomic_witness

attribute [local instance] intFloatLikeOwn in
/-- `own_maps_ok` / `kkt_in_sync_own`: the hypotheses hold for a concrete 1×1 problem over `ℤ`
(`KktSolver.new` succeeds: `Lemmas/UpdateOwnMaps.exDataOwn_new`, KKT values `[5,7,0]`, LDL copy
`[0,5,7]`, `AtoPAPt = [1,2,0]`) -/
example : KktInputs exDataOwn.P exDataOwn.A
    ([Solver.ConeSt.zero (α := Int) 1].map Solver.ConeSt.kktSpec) ∧
    ((Solver.KktSolver.new exDataOwn.P exDataOwn.A [Solver.ConeSt.zero 1] exDataOwn.m exDataOwn.n
        exLinOwn #[1, 0]).toOption.map (fun K => K.ldl.AtoPAPt.toList)) = some [1, 2, 0] := by
  refine ⟨exDataOwn_inputs, ?_⟩
  have := exDataOwn_new
  revert this
  cases Solver.KktSolver.new exDataOwn.P exDataOwn.A [Solver.ConeSt.zero 1] exDataOwn.m exDataOwn.n
      exLinOwn #[1, 0] with
  | error e => intro h; cases h
  | ok K =>
    intro h
    simp only [Except.toOption, Option.map_some, Option.some.injEq, Prod.mk.injEq] at h ⊢
    exact h.2.2.2.2

attribute [local instance] feFloatLikeRat in
/-- `state_equiv_rebuilt` / `norms_are_final_user_norms`: a live equilibrated state over `ℚ`
(`d = 2, e = 3, c = 2`) and a history with an accepted partial update, whole updates, a solve and
an `update_data` satisfy every hypothesis -/
example : feStateQ.ScaleOK ∧ feStateQ.MapsOK ∧ feStateQ.KktSync ∧ feStateQ.NormCacheOK ∧
    AcceptedRun feStateQ feOpsQ :=
  ⟨feMk_scaleOK _ _ _ _ _ _ _ _ _ (by norm_num) (by norm_num) (by norm_num), feMk_mapsOK _ _ _ _ _ _ _ _ _,
   feMk_sync _ _ _ _ _ _ _ _ _, ⟨Or.inl rfl, Or.inl rfl⟩, feOpsQ_accepted⟩

/-- `solved_certifies_final_problem`: the same over `ℝ` (the joint satisfiability of the `info`
hypotheses is shown in `Lemmas/UpdateFreshEquiv.lean`, `fe_info_exists`) -/
example : feStateR.ScaleOK ∧ feStateR.MapsOK ∧ feStateR.KktSync ∧ AcceptedRun feStateR feOpsR :=
  ⟨feMk_scaleOK _ _ _ _ _ _ _ _ _ (by norm_num) (by norm_num) (by norm_num), feMk_mapsOK _ _ _ _ _ _ _ _ _,
   feMk_sync _ _ _ _ _ _ _ _ _, feOpsR_accepted⟩

/-- `presolve_guard_iff`: the hypotheses hold for the 2×1 problem of `C09` (one row above the
bound, so the guard is active) -/
example : ∃ d, ProblemData.new (⟨1, 1, #[0, 0], #[], #[]⟩ : Csc ℝ) #[1] ⟨2, 1, #[0, 2], #[0, 1], #[1, 2]⟩
    #[1, 1e30] [ConeT.nonneg 2] true false 1e20 = .ok d := by
  have hA : C16.Canonical (⟨2, 1, #[0, 2], #[0, 1], #[1, 2]⟩ : Csc ℝ) := C16.check_format_canonical _ (by rfl)
  obtain ⟨_, _, d, _, _, _, _, hnew, _⟩ :=
    C09.problemdata_new_spec (⟨1, 1, #[0, 0], #[], #[]⟩ : Csc ℝ) #[1] ⟨2, 1, #[0, 2], #[0, 1], #[1, 2]⟩
      #[1, 1e30] [ConeT.nonneg 2] true 1e20 hA rfl rfl rfl
  exact ⟨d, hnew⟩

end examples_round3

/-! ### round 7: the hypotheses on the user's input only, and the composition on the WHOLE-SOLVER model

  `ClarabelModel/SolverUpdate.lean` models `update_P / update_q / update_A / update_b / update_data` on
  the solver object of the whole-solver model (`Solver α`: internal data with equilibration and norm
  caches, `DirectLDLKKTSolver` with its KKT matrix, maps and QDLDL's permuted copy, iterate, work
  vectors, `info`, `solution`) and histories `Solver.runU` of updates interleaved with `solve()`; channel
  `upd.solve` compares it with a real `DefaultSolver` bit for bit (every `Result`, the whole trajectory
  of every solve, the final internal state).  Lemmas: `Lemmas/UpdateSolver*.lean`, `UpdateAsmValues`,
  `UpdateQdldlValues`, `UpdateNormTransparent`. -/

section whole_solver
open Clarabel.Solver
open Clarabel.Lemmas.KktSpec (KktInputs)
variable [Add α] [Sub α] [Mul α] [Div α] [Neg α] [OfNat α 0] [OfNat α 1] [OfNat α 2]
  [OfNat α 100] [OfNat α 1000] [LT α] [DecidableLT α] [LE α] [DecidableLE α] [BEq α] [FloatLike α]

/-- [S] **`KktInputs` follows from what `DefaultSolver::new` establishes.**  For well-formed USER input
(`InputOK`: `P`, `A` canonical CSC — `check_format` passes —, `P` square, fitting dimensions, `Σ nvars =
m`) the internal `P̂` (upper triangle after `to_triu`), `Â` (after presolve) and the cone objects of the
solver object `DefaultSolver::new` returns satisfy C11's `KktInputs`, and its linear-solver object IS
`DirectLDLKKTSolver::new` of them: the hypotheses of `own_maps_ok`, `kkt_in_sync_own`,
`invariants_own`. -/
theorem full_kkt_inputs_from_user_input {P : Csc α} {q : Array α} {A : Csc α} {b : Array α}
    {cones : List (ConeT α)} {st : Solver.Settings α} {perm : Array Nat} (hin : InputOK P q A b cones)
    {S : Solver α} (h : Solver.new P q A b cones st perm = .ok S) :
    KktInputs S.st.data.P S.st.data.A (S.st.cones.map ConeSt.kktSpec) ∧
      KktSolver.new S.st.data.P S.st.data.A S.st.cones S.st.data.m S.st.data.n st.lin perm
        = .ok S.st.kktsystem.kktsolver :=
  ⟨(solverNew_kktInputs hin h).1, (solverNew_kktInputs hin h).2.1⟩

/-- [S] **`own_maps_ok` / `invariants_own` with hypotheses on the user's input only**: for the object
`DefaultSolver::new` returns on well-formed input, `MapsOK` and `KktSync` hold for its own maps, and
after every history of the C08 state model in which each operation is accepted or in whole form the
three invariants `KktSync`, `MapsOK`, `NormCacheOK` hold (given valid norm caches at the start). -/
theorem full_invariants_from_user_input {P : Csc α} {q : Array α} {A : Csc α} {b : Array α}
    {cones : List (ConeT α)} {st : Solver.Settings α} {perm : Array Nat} (hin : InputOK P q A b cones)
    {S : Solver α} (h : Solver.new P q A b cones st perm = .ok S) (dec : Bool) :
    ((State.ofSolver S.st.data S.st.kktsystem.kktsolver dec).MapsOK ∧
      (State.ofSolver S.st.data S.st.kktsystem.kktsolver dec).KktSync) ∧
    ∀ (ops : List (Op α)), (State.ofSolver S.st.data S.st.kktsystem.kktsolver dec).NormCacheOK →
      AcceptedRun (State.ofSolver S.st.data S.st.kktsystem.kktsolver dec) ops →
      (run (State.ofSolver S.st.data S.st.kktsystem.kktsolver dec) ops).1.KktSync ∧
      (run (State.ofSolver S.st.data S.st.kktsystem.kktsolver dec) ops).1.MapsOK ∧
      (run (State.ofSolver S.st.data S.st.kktsystem.kktsolver dec) ops).1.NormCacheOK := by
  obtain ⟨hki, hKs⟩ := full_kkt_inputs_from_user_input hin h
  exact ⟨solverNew_own_maps hin h dec, fun ops hn ha =>
    invariants_own S.st.data S.st.cones st.lin perm S.st.kktsystem.kktsolver dec hKs hki hn ops ha⟩

/-- [S] **the whole-solver update model refines the C08 state model.**  For a history of update
operations (every argument form, accepted or rejected; no `solve()`) on ANY solver object that
returned, the C08 state model (`Update.run`, the subject of the theorems above) run from the view of the
object (`Solver.view`: internal data, norm caches, guard, KKT matrix, maps, QDLDL's permuted copy) ends
in the view of the final object, with the same list of `Result`s.  Hence the rejection tables,
`refines_spec`, `data_eq_scaled_spec`, `state_equiv_rebuilt` apply to histories on the solver object. -/
theorem full_update_refines_state_model {st : Solver.Settings α} (ops : List (UOp α)) (S S' : Solver α)
    (outs : List (UOut α)) (hu : ∀ op ∈ ops, op.isUpdate = true)
    (hrun : Solver.runU st S ops = .ok (S', outs)) :
    run S.view (ops.map UOp.toOp) = (S'.view, outs.map UOut.toRes) :=
  runU_refines ops S S' outs hu hrun

/-- [S] **the invariant of a solver object along EVERY history** of updates (accepted or rejected, every
argument form) and `solve()` calls from an object `DefaultSolver::new` built on well-formed input: the
internal data differs from the constructed one in the VALUES of `P̂, q̂, Â, b̂` and the norm caches only —
patterns, dimensions, cones, presolver record and the equilibration `(d, d⁻¹, e, e⁻¹, c)` are FROZEN
(`DFrame`) —, every vector keeps its length and every cone object its shape (`Sh`), the linear-solver
object keeps its structure and C12's history invariant, and both of its value copies hold, at the `P`
and `A` positions, the matrices `pk`, `ak` of the last ACCEPTED `update_P` / `update_A` (`KSync`); if
every update was accepted or in whole form these ARE the current `P̂`, `Â` (`Consistent`). -/
theorem full_update_invariant {P : Csc α} {q : Array α} {A : Csc α} {b : Array α}
    {cones : List (ConeT α)} {st : Solver.Settings α} {perm : Array Nat} (hin : InputOK P q A b cones)
    (hn : 0 < P.n) (hperm : PermForU P q A b cones st perm) {S0 : Solver α}
    (h : Solver.new P q A b cones st perm = .ok S0) {ops : List (UOp α)} {S' : Solver α}
    {outs : List (UOut α)} (hrun : Solver.runU st S0 ops = .ok (S', outs)) :
    ∃ pk ak, UInv st S0 S' pk ak ∧ (RunFine ops outs → Consistent S' pk ak) := by
  have hb := base_of_new hin hn hperm h
  obtain ⟨h0, c0⟩ := UInv.init hb
  obtain ⟨pk, ak, h1, hc⟩ := runU_uinv hb ops S0 _ _ h0 S' outs hrun
  exact ⟨pk, ak, h1, fun hf => hc hf c0⟩

/-- [S] **the update operations never panic** on an object reached from `DefaultSolver::new` (well-formed
input) by any history: each of `update_P / q / A / b / update_data`, in every argument form, returns
(`Ok` or a `DataUpdateError`), so a history can only fail inside a `solve()`. -/
theorem full_update_total {P : Csc α} {q : Array α} {A : Csc α} {b : Array α}
    {cones : List (ConeT α)} {st : Solver.Settings α} {perm : Array Nat} (hin : InputOK P q A b cones)
    (hn : 0 < P.n) (hperm : PermForU P q A b cones st perm) {S0 : Solver α}
    (h : Solver.new P q A b cones st perm = .ok S0) {ops : List (UOp α)} {S : Solver α}
    {outs : List (UOut α)} (hrun : Solver.runU st S0 ops = .ok (S, outs))
    (pa : MatArg α) (va : VecArg α) (pa' : MatArg α) (va' : VecArg α) :
    (∃ r, S.updateP pa = .ok r) ∧ (∃ r, S.updateQ va = .ok r) ∧ (∃ r, S.updateA pa = .ok r) ∧
      (∃ r, S.updateB va = .ok r) ∧ (∃ r, S.updateData pa va pa' va' = .ok r) := by
  have hb := base_of_new hin hn hperm h
  obtain ⟨pk, ak, hI, _⟩ := full_update_invariant hin hn hperm h hrun
  obtain ⟨S1, r1, _, e1, _⟩ := updateP_step hb hI pa
  obtain ⟨S2, r2, e2, _⟩ := updateQ_step hb hI va
  obtain ⟨S3, r3, _, e3, _⟩ := updateA_step hb hI pa
  obtain ⟨S4, r4, e4, _⟩ := updateB_step hb hI va
  obtain ⟨S5, r5, _, _, e5, _⟩ := updateData_step hb hI pa va pa' va'
  exact ⟨⟨_, e1⟩, ⟨_, e2⟩, ⟨_, e3⟩, ⟨_, e4⟩, ⟨_, e5⟩⟩

/-- [S] **update, then solve = solve of the rebuilt solver** (the property's statement on the
whole-solver model, modulo the known finding `KF-C08-stale-equilibration`).  `S0` the object
`DefaultSolver::new` builds on well-formed user input, no presolver recorded (otherwise every update is
refused: `rejects_when_guarded`, `presolve_guard_iff`).  `ops` ANY finite history of `update_P / update_q
/ update_A / update_b / update_data` — whole vectors, matrices with matching pattern, `(index,value)`
partial updates — interleaved with `solve()` calls, that returned, in which every update was ACCEPTED or
had all its arguments in whole forms (`RunFine`: a rejected whole-form update changes nothing).  Let `S'`
be the updated object.  Then
 * `S'.data` differs from the constructed data in the values of `P̂, q̂, Â, b̂` and the norm caches only:
   the equilibration is the one `S0` computed — FROZEN (`DFrame`);
 * the object `R` that `DefaultSolver::new` builds when handed this internal data as it is (cone
   objects, `assemble_kkt_matrix`, `QDLDLFactorisation::new`, fresh variables / residuals / work vectors
   / `info` / `solution` — NO new equilibration pass) exists, and `R.data = S'.data`;
 * the next `solve()` on `S'` and `solve()` on `R` fail with the same error, or return the same
   observable result (`SolveObs`): the same `solution` (status, `x, s, z`, objectives, iterations,
   residuals), the same trajectory pass by pass (iterate, `μ, σ, α`, the nine `info` figures, verdicts,
   `α_aff`), the same final iterate and `info` block.  For `Float` this is bit for bit.
What distinguishes `R` from `DefaultSolver::new(final user data)` is ONLY the equilibration: by
`data_eq_scaled_spec` / `fresh_data_same_form` (through `full_update_refines_state_model`) the internal
data of both are `c·D·P·D, c·D·q, E·A·D, E·b` of the same final user data, `R` with the scalings computed
for the ORIGINAL data, a fresh solver with scalings computed for the final data.  That the two reach the
same verdict class along their different trajectories remains empirical (`KF-C08-stale-equilibration`).
The norm caches: `full_rebuilt_norms_refreshed`. -/
theorem full_update_then_solve_eq_rebuilt (hbeq : ((0 : α) == 0) = true) {P : Csc α} {q : Array α}
    {A : Csc α} {b : Array α} {cones : List (ConeT α)} {st : Solver.Settings α} {perm : Array Nat}
    (hin : InputOK P q A b cones) (hn : 0 < P.n) (hperm : PermForU P q A b cones st perm) {S0 : Solver α}
    (h : Solver.new P q A b cones st perm = .ok S0) (hnp : S0.st.data.presolver = none)
    {ops : List (UOp α)} {S' : Solver α} {outs : List (UOut α)}
    (hrun : Solver.runU st S0 ops = .ok (S', outs)) (hfine : RunFine ops outs) :
    DFrame S0.st.data S'.st.data ∧
    ∃ R, Solver.rebuilt S'.st.data st perm (Unscale.Solution.new S'.st.data.n S'.st.data.m) = .ok R ∧
      R.st.data = S'.st.data ∧ RelM SolveObs (S'.solve st) (R.solve st) :=
  run_then_solve_eq_rebuilt hbeq (base_of_new hin hn hperm h) hnp hrun hfine

/-- [S] **`full_update_then_solve_eq_rebuilt` without the construction hypothesis** (C08 ∘ C04): on
well-formed user input with zero / nonnegative / second-order cones, `n ≥ 1`, `PermForU` (= C04's
`PermFor`: the ordering is a permutation of the KKT dimension) and `PivotOK`, `DefaultSolver::new` RETURNS
a solver object `S0` (`Solver.solverNew_ok_of_modelled`), and — if no presolver is recorded — for every
history of updates and solves that returned with every update accepted or in whole form, the next
`solve()` on the updated object is the `solve()` of the object rebuilt from its data. -/
theorem full_update_then_solve_total (hbeq : ((0 : α) == 0) = true) {P : Csc α} {q : Array α}
    {A : Csc α} {b : Array α} {cones : List (ConeT α)} {st : Solver.Settings α} {perm : Array Nat}
    (hin : InputOK P q A b cones) (hm : ∀ c ∈ cones, Solver.ConeT.modelled c) (hn : 0 < P.n)
    (hperm : PermForU P q A b cones st perm) (hpiv : Solver.PivotOK st.lin) :
    ∃ S0, Solver.new P q A b cones st perm = .ok S0 ∧
      (S0.st.data.presolver = none →
        ∀ {ops : List (UOp α)} {S' : Solver α} {outs : List (UOut α)},
          Solver.runU st S0 ops = .ok (S', outs) → RunFine ops outs →
          DFrame S0.st.data S'.st.data ∧
          ∃ R, Solver.rebuilt S'.st.data st perm (Unscale.Solution.new S'.st.data.n S'.st.data.m) = .ok R ∧
            R.st.data = S'.st.data ∧ RelM SolveObs (S'.solve st) (R.solve st)) := by
  obtain ⟨S0, h, _⟩ := Solver.solverNew_ok_of_modelled hin hm hn hperm hpiv
  exact ⟨S0, h, fun hnp _ _ _ hrun hfine =>
    full_update_then_solve_eq_rebuilt hbeq hin hn hperm h hnp hrun hfine⟩

/-- [S] **every history — rejected partial updates included.**  Without `RunFine`: the next `solve()` on
the updated object is the solve of the object built from the FINAL data whose KKT system is assembled
from the matrices `pk`, `ak` that the KKT copy was last synchronised with (`Solver.rebuiltWith`): the
current `P̂`, `Â`, unless a REJECTED `(index,value)` update of `P` / `A` came after the last accepted
one — then residuals, objective and the `τ`-direction use the new matrix, the factorisation the old. -/
theorem full_update_then_solve_eq_rebuilt_any (hbeq : ((0 : α) == 0) = true) {P : Csc α} {q : Array α}
    {A : Csc α} {b : Array α} {cones : List (ConeT α)} {st : Solver.Settings α} {perm : Array Nat}
    (hin : InputOK P q A b cones) (hn : 0 < P.n) (hperm : PermForU P q A b cones st perm) {S0 : Solver α}
    (h : Solver.new P q A b cones st perm = .ok S0) (hnp : S0.st.data.presolver = none)
    {ops : List (UOp α)} {S' : Solver α} {outs : List (UOut α)}
    (hrun : Solver.runU st S0 ops = .ok (S', outs)) :
    ∃ pk ak, UInv st S0 S' pk ak ∧ (RunFine ops outs → Consistent S' pk ak) ∧
      ∃ R, Solver.rebuiltWith S'.st.data (dataWith S'.st.data pk ak) st perm
          (Unscale.Solution.new S'.st.data.n S'.st.data.m) = .ok R ∧
        R.st.data = S'.st.data ∧ RelM SolveObs (S'.solve st) (R.solve st) :=
  run_then_solve_eq_rebuiltWith hbeq (base_of_new hin hn hperm h) hnp hrun

/-- [S] **every history returns** (`Solver.runU_total`, C08 ∘ C04).  On well-formed user input with zero /
nonnegative / second-order cones, `n ≥ 1`, `PermForU` (the ordering is a permutation of the KKT
dimension), `PivotOK` and `FmaxOK` — exactly the hypotheses of C04's `Solver.run_total`, nothing about
the update ARGUMENTS: the model panics on ill-formed problem DATA only (`dataWf`, the index guard of
`updGuard`), and `dataWf` holds on every object of a history (`DFrame`); ill-formed arguments are answered
with a `DataUpdateError` — `DefaultSolver::new` returns an object `S0`, and for EVERY finite list `ops` of
`update_P / update_q / update_A / update_b / update_data` (whole vectors, matrices, `(index,value)` pairs;
ACCEPTED or REJECTED) and `solve()` calls, the history returns: `Solver.runU st S0 ops = .ok (S', outs)`.
The object `S'` it ends in satisfies C04's invariant `SolverInvQ` — so the next `solve()` returns too —
and C08's `UInv` (frozen shapes, `KSync`).  The invariant of `solve()` is kept by every update because it
constrains patterns, dimensions, lengths and the structure of the linear-solver object only
(`SolverInvQ.of_uframe`), and an update — also a rejected partial one — changes VALUES only
(`updateP_uframe` … `updateB_uframe`). -/
theorem full_history_total {P : Csc α} {q : Array α} {A : Csc α} {b : Array α}
    {cones : List (ConeT α)} {st : Solver.Settings α} {perm : Array Nat} (hin : InputOK P q A b cones)
    (hm : ∀ c ∈ cones, Solver.ConeT.modelled c) (hn : 0 < P.n) (hperm : PermForU P q A b cones st perm)
    (hpiv : Solver.PivotOK st.lin) (hf : Solver.FmaxOK α) :
    ∃ S0, Solver.new P q A b cones st perm = .ok S0 ∧
      ∀ ops : List (UOp α), ∃ S' outs, Solver.runU st S0 ops = .ok (S', outs) ∧
        (∃ r, S'.solve st = .ok r) ∧ Solver.SolverInvQ S' ∧ ∃ pk ak, UInv st S0 S' pk ak := by
  obtain ⟨S0, h, hall⟩ := Solver.runU_total hin hm hn hperm hpiv hf
  refine ⟨S0, h, fun ops => ?_⟩
  obtain ⟨S', outs, e, hI, hU⟩ := hall ops
  obtain ⟨r, hr, _⟩ := Solver.solve_ok_qdldl hf st hI
  exact ⟨S', outs, e, ⟨r, hr⟩, hI, hU⟩

/-- [S] **one more operation after any history returns**: `full_update_total` without the hypothesis
that the history returned, and with `solve()` included. -/
theorem full_update_total' {P : Csc α} {q : Array α} {A : Csc α} {b : Array α}
    {cones : List (ConeT α)} {st : Solver.Settings α} {perm : Array Nat} (hin : InputOK P q A b cones)
    (hm : ∀ c ∈ cones, Solver.ConeT.modelled c) (hn : 0 < P.n) (hperm : PermForU P q A b cones st perm)
    (hpiv : Solver.PivotOK st.lin) (hf : Solver.FmaxOK α) :
    ∃ S0, Solver.new P q A b cones st perm = .ok S0 ∧
      ∀ (ops : List (UOp α)) (op : UOp α), ∃ S outs, Solver.runU st S0 ops = .ok (S, outs) ∧
        ∃ S' o, S.stepU st op = .ok (S', o) := by
  obtain ⟨S0, h, hI⟩ := Solver.solverNew_ok_of_modelled hin hm hn hperm hpiv
  have hb := base_of_new hin hn hperm h
  refine ⟨S0, h, fun ops op => ?_⟩
  obtain ⟨S, outs, e, hS⟩ := Solver.runU_total_of_inv hf hb ops S0 ⟨⟨_, _, (UInv.init hb).1⟩, hI⟩
  obtain ⟨S', o, e', _⟩ := Solver.stepU_total hf hb hS op
  exact ⟨S, outs, e, S', o, e'⟩

/-- [S] **`full_update_then_solve_total` without the hypothesis that the history returned.**  Under the
hypotheses of `full_history_total`: `new` returns `S0`, and for EVERY history `ops` there ARE the updated
object `S'` and the outputs `outs` with `Solver.runU st S0 ops = .ok (S', outs)`; if no presolver is
recorded and every update of the history was accepted or in whole form (`RunFine ops outs` — a statement
about the outputs that were produced, no longer about whether they were), the data of `S'` is in the frame
of the constructed data, the rebuilt object `R` exists with `R.data = S'.data`, BOTH `S'.solve` and
`R.solve` return, and their results are observably equal (`SolveObs`). -/
theorem full_update_then_solve_total' (hbeq : ((0 : α) == 0) = true) {P : Csc α} {q : Array α}
    {A : Csc α} {b : Array α} {cones : List (ConeT α)} {st : Solver.Settings α} {perm : Array Nat}
    (hin : InputOK P q A b cones) (hm : ∀ c ∈ cones, Solver.ConeT.modelled c) (hn : 0 < P.n)
    (hperm : PermForU P q A b cones st perm) (hpiv : Solver.PivotOK st.lin) (hf : Solver.FmaxOK α) :
    ∃ S0, Solver.new P q A b cones st perm = .ok S0 ∧
      ∀ ops : List (UOp α), ∃ S' outs, Solver.runU st S0 ops = .ok (S', outs) ∧
        (S0.st.data.presolver = none → RunFine ops outs →
          DFrame S0.st.data S'.st.data ∧
          ∃ R, Solver.rebuilt S'.st.data st perm (Unscale.Solution.new S'.st.data.n S'.st.data.m) = .ok R ∧
            R.st.data = S'.st.data ∧
            ∃ r r', S'.solve st = .ok r ∧ R.solve st = .ok r' ∧ SolveObs r r') := by
  obtain ⟨S0, h, hall⟩ := full_history_total hin hm hn hperm hpiv hf
  refine ⟨S0, h, fun ops => ?_⟩
  obtain ⟨S', outs, e, ⟨r, hr⟩, _, _⟩ := hall ops
  refine ⟨S', outs, e, fun hnp hfine => ?_⟩
  obtain ⟨hD, R, hR, hRd, hrel⟩ := full_update_then_solve_eq_rebuilt hbeq hin hn hperm h hnp e hfine
  refine ⟨hD, R, hR, hRd, r, ?_⟩
  rw [hr] at hrel
  cases hR' : R.solve st with
  | error e' => rw [hR'] at hrel; exact hrel.elim
  | ok r' => rw [hR'] at hrel; exact ⟨r', hr, rfl, hrel⟩

/-- [S] **any history, rejected partial updates included, with no hypothesis that anything returned.**
For EVERY history `ops` on the object `new` returns (hypotheses of `full_history_total`, no presolver
recorded) the history returns, and the next `solve()` on the updated object RETURNS and is observably the
`solve()` — which returns as well — of the object built from the final data with the KKT system assembled
from the matrices `pk`, `ak` the KKT copy was last synchronised with (`Solver.rebuiltWith`; `pk`, `ak` are
the current `P̂`, `Â` when `RunFine`, the matrices of the last ACCEPTED `update_P` / `update_A` after a
rejected `(index,value)` update). -/
theorem full_update_then_solve_any_history (hbeq : ((0 : α) == 0) = true) {P : Csc α} {q : Array α}
    {A : Csc α} {b : Array α} {cones : List (ConeT α)} {st : Solver.Settings α} {perm : Array Nat}
    (hin : InputOK P q A b cones) (hm : ∀ c ∈ cones, Solver.ConeT.modelled c) (hn : 0 < P.n)
    (hperm : PermForU P q A b cones st perm) (hpiv : Solver.PivotOK st.lin) (hf : Solver.FmaxOK α) :
    ∃ S0, Solver.new P q A b cones st perm = .ok S0 ∧
      (S0.st.data.presolver = none →
        ∀ ops : List (UOp α), ∃ S' outs, Solver.runU st S0 ops = .ok (S', outs) ∧
          ∃ pk ak, UInv st S0 S' pk ak ∧ (RunFine ops outs → Consistent S' pk ak) ∧
            ∃ R, Solver.rebuiltWith S'.st.data (dataWith S'.st.data pk ak) st perm
                (Unscale.Solution.new S'.st.data.n S'.st.data.m) = .ok R ∧
              R.st.data = S'.st.data ∧
              ∃ r r', S'.solve st = .ok r ∧ R.solve st = .ok r' ∧ SolveObs r r') := by
  obtain ⟨S0, h, hall⟩ := full_history_total hin hm hn hperm hpiv hf
  refine ⟨S0, h, fun hnp ops => ?_⟩
  obtain ⟨S', outs, e, ⟨r, hr⟩, _, _⟩ := hall ops
  obtain ⟨pk, ak, hU, hc, R, hR, hRd, hrel⟩ :=
    full_update_then_solve_eq_rebuilt_any hbeq hin hn hperm h hnp e
  refine ⟨S', outs, e, pk, ak, hU, hc, R, hR, hRd, r, ?_⟩
  rw [hr] at hrel
  cases hR' : R.solve st with
  | error e' => rw [hR'] at hrel; exact hrel.elim
  | ok r' => rw [hR'] at hrel; exact ⟨r', hr, rfl, hrel⟩

/-- [S] **`solve()` as an operation of a history is `solve()`.**  Until round 8 the shared model
`Solver.solve` left the norm caches of the data unchanged — the real `DefaultInfo::update` fills them at
every pass — and the history model used `solveU := solve; fillNorms`.  Now `Solver.solve` itself returns
the object with the caches filled (`C05.full_solve_fills_norm_caches`; stored in the pass or at the end:
`C05.full_solve_stores_caches_as_the_code`) and the detour is gone. -/
theorem history_solve_is_solve (S : Solver α) (st : Solver.Settings α) : S.solveU st = S.solve st :=
  solveU_eq_solve S st

/-- [S] **the cached norms are refreshed.**  If each norm cache of the data `d` of the updated object is
absent (every accepted `update_q` / `update_b` clears its cache) or holds what `get_normq` / `get_normb`
recompute from `d`, then the rebuilt object may be taken WITHOUT caches — `solve()` then recomputes
`‖q‖, ‖b‖` from the final `q̂, b̂` and the frozen `D⁻¹, E⁻¹, c` (over an ordered field these are the
∞-norms of the final USER `q`, `b`: `norms_are_final_user_norms`) —: its `solve()` IS the `solve()` of
the object rebuilt with the caches (same error, or same result INCLUDING the caches of the final state:
both solves leave them `Some` of the common answers of `get_normq` / `get_normb` — since round 8 the
model's `solve()` stores the caches it fills; before, the statement held only up to those caches). -/
theorem full_rebuilt_norms_refreshed (d : ProblemData α) (st : Solver.Settings α) (perm : Array Nat)
    (sol : Unscale.Solution α) {R : Solver α} (hR : Solver.rebuilt d st perm sol = .ok R)
    (hq : d.normq = none ∨ ∃ v, Info.getNormq none d.q d.equilibration.dinv d.equilibration.c = .ok v ∧
      d.normq = some v)
    (hb : d.normb = none ∨ ∃ v, Info.getNormb none d.b d.equilibration.einv = .ok v ∧ d.normb = some v) :
    ∃ R', Solver.rebuilt (d.setNorms none none) st perm sol = .ok R' ∧
      R = R'.setNorms d.normq d.normb ∧
      R.solve st = R'.solve st :=
  rebuilt_norms_refreshed d st perm sol hR (normsAgree_drop d hq hb)

/-- [S] **the exact post-state of a REJECTED `update_P` / `update_A`, and the solve after it.**  `S`
reached from `DefaultSolver::new` by a history whose updates were accepted or in whole form (so its KKT
copy is synchronised); `update_P(arg)` (resp. `update_A`) returns `Err(BadFormat(e))`.  Then
 * exactly `data.P` (resp. `data.A`) has changed, to what `update_matrix` left — unchanged for the
   whole-matrix forms (`S' = S`), the pairs before the bad index applied for the `(index,value)` forms;
 * NOTHING else has: `q, b`, the other matrix, equilibration, both norm caches, the KKT matrix, QDLDL's
   permuted copy, iterate, work vectors — the KKT copy is STALE;
 * the following `solve()` is the solve of the object built from the NEW data with the KKT system
   assembled from the OLD data (`Solver.rebuiltWith S'.data S.data`): consistent with `data` in the
   residuals, objective, `τ`-direction and termination test, with the stale copy in every factorisation.
`update_data` is `update_P?; update_q?; update_A?; update_b?` (`rejection_table_update_data` through
`full_update_refines_state_model`): the components before the rejected one are applied COMPLETELY
(data, KKT copy, norm-cache flush), so after a rejected later component the KKT copy is stale only if
that component itself is a rejected `(index,value)` matrix update — `full_update_invariant`. -/
theorem full_rejected_update_post_state (hbeq : ((0 : α) == 0) = true) {P : Csc α} {q : Array α}
    {A : Csc α} {b : Array α} {cones : List (ConeT α)} {st : Solver.Settings α} {perm : Array Nat}
    (hin : InputOK P q A b cones) (hn : 0 < P.n) (hperm : PermForU P q A b cones st perm) {S0 : Solver α}
    (h : Solver.new P q A b cones st perm = .ok S0) (hnp : S0.st.data.presolver = none)
    {ops : List (UOp α)} {S : Solver α} {outs : List (UOut α)}
    (hrun : Solver.runU st S0 ops = .ok (S, outs)) (hfine : RunFine ops outs) (arg : MatArg α)
    (e : Csc.FormatError) :
    (∀ S', S.updateP arg = .ok (S', .error (.badFormat e)) →
      S' = S.setData { S.st.data with P := (updateMatrix arg S.st.data.P S.st.data.equilibration.d
          S.st.data.equilibration.d (some S.st.data.equilibration.c)).1 } ∧
      (arg.isWhole = true → S' = S) ∧
      ∃ R, Solver.rebuiltWith S'.st.data S.st.data st perm
          (Unscale.Solution.new S'.st.data.n S'.st.data.m) = .ok R ∧
        R.st.data = S'.st.data ∧ RelM SolveObs (S'.solve st) (R.solve st)) ∧
    (∀ S', S.updateA arg = .ok (S', .error (.badFormat e)) →
      S' = S.setData { S.st.data with A := (updateMatrix arg S.st.data.A S.st.data.equilibration.e
          S.st.data.equilibration.d none).1 } ∧
      (arg.isWhole = true → S' = S) ∧
      ∃ R, Solver.rebuiltWith S'.st.data S.st.data st perm
          (Unscale.Solution.new S'.st.data.n S'.st.data.m) = .ok R ∧
        R.st.data = S'.st.data ∧ RelM SolveObs (S'.solve st) (R.solve st)) := by
  have hb := base_of_new hin hn hperm h
  obtain ⟨pk, ak, hI, hc⟩ := full_update_invariant hin hn hperm h hrun
  have hcons := hc hfine
  refine ⟨fun S' hu => ?_, fun S' hu => ?_⟩
  · obtain ⟨e1, e2, _, hR⟩ := rejected_updateP_then_solve hbeq hb hnp hI hcons hu
    exact ⟨e1, e2, hR⟩
  · obtain ⟨e1, e2, _, hR⟩ := rejected_updateA_then_solve hbeq hb hnp hI hcons hu
    exact ⟨e1, e2, hR⟩

end whole_solver

section whole_solver_field
open Clarabel.Solver
variable [Field α] [LinearOrder α] [IsStrictOrderedRing α] [FloatLike α]

/-- [F] **the data the rebuilt solver is built from is the frozen equilibration applied to the FINAL user
data.**  For a block of update operations (every argument form, accepted or rejected) on any solver
object whose scalings are nonzero, with `u'` the plain-overwrite result of the specification on the
user-level data (`specRun`, the equilibration divided out): the internal data of the updated object are
`P̂ = c·D·P'·D`, `q̂ = c·D·q'`, `Â = E·A'·D`, `b̂ = E·b'` of `u'` with the ORIGINAL `d, e, c` — entry for
entry, same patterns (`data_eq_scaled_spec` through `full_update_refines_state_model`).  Together with
`full_update_then_solve_eq_rebuilt`: the next `solve()` is the solve of `DefaultSolver::new` on the final
user data in which the Ruiz pass is replaced by the stored scalings. -/
theorem full_updated_data_is_frozen_scaling_of_final_user_data {st : Solver.Settings α}
    (ops : List (UOp α)) (S S' : Solver α) (outs : List (UOut α)) (hu : ∀ op ∈ ops, op.isUpdate = true)
    (hrun : Solver.runU st S ops = .ok (S', outs)) (hs : S.view.ScaleOK) :
    let u' := (specRun (checkDataUpdateAllowed S.view) S.st.data.P S.st.data.A S.view.abs
      (ops.map UOp.toOp)).1
    S'.view.abs = u' ∧
    S'.st.data.P = { S.st.data.P with nzval := (S.view.scaledValues u').P } ∧
    S'.st.data.q = (S.view.scaledValues u').q ∧
    S'.st.data.A = { S.st.data.A with nzval := (S.view.scaledValues u').A } ∧
    S'.st.data.b = (S.view.scaledValues u').b ∧
    S'.st.data.equilibration = S.st.data.equilibration := by
  have href := runU_refines ops S S' outs hu hrun
  have hd := data_eq_scaled_spec S.view hs (ops.map UOp.toOp)
  have hf := run_frame S.view (ops.map UOp.toOp)
  have e1 : (run S.view (ops.map UOp.toOp)).1 = S'.view := by rw [href]
  rw [e1] at hd hf
  obtain ⟨h1, h2, h3, h4, h5⟩ := hd
  refine ⟨h1, h2, h3, h4, h5, ?_⟩
  have hd' : S'.view.d = S.view.d := hf.d
  have he' : S'.view.e = S.view.e := hf.e
  have hc' : S'.view.c = S.view.c := hf.c
  have hdi : S'.view.dinv = S.view.dinv := hf.dinv
  have hei : S'.view.einv = S.view.einv := hf.einv
  cases hq : S'.st.data.equilibration
  cases hq0 : S.st.data.equilibration
  simp only [Solver.view, State.ofSolver, hq, hq0] at hd' he' hc' hdi hei
  subst hd' he' hc' hdi hei
  rfl

end whole_solver_field

/-! non-vacuity of the round-7 theorems: the example problem of `Lemmas/SolverModelExample.lean`
(`P = 0` 1×1, `A = [1]`, `b = [1]`, one nonnegative cone, scalar type `Int`) -/
section examples_round7
open Clarabel.Solver Clarabel.Solver.Example
attribute [local instance] intFloatLike

/-- the hypotheses of `full_kkt_inputs_from_user_input`, `full_invariants_from_user_input`,
`full_update_invariant`, `full_update_total`, `full_update_then_solve_eq_rebuilt(_any)`,
`full_rejected_update_post_state` hold jointly: well-formed input on which `new` succeeds, no presolver,
and a history (`update_q`, an empty `update_P`, an `update_data` whose LAST component is rejected — all
in whole forms) that returns and satisfies `RunFine` -/
example : InputOK P #[1] A #[1] ([.nonneg 1] : List (ConeT Int)) ∧ 0 < P.n ∧
    PermForU P #[1] A #[1] ([.nonneg 1] : List (ConeT Int)) (st 3) #[0, 1] ∧ (((0 : Int) == 0) = true) ∧
    ∃ S0, newSolver 3 = .ok S0 ∧ S0.st.data.presolver = none ∧
      ∃ S' outs, Solver.runU (st 3) S0 exOps = .ok (S', outs) ∧ RunFine exOps outs ∧
        ∀ op ∈ exOps, op.isUpdate = true := by
  obtain ⟨S0, hS0⟩ := uxNew_ok
  obtain ⟨S', outs, hrun, hfine⟩ := exRun_ok hS0
  refine ⟨uxInputOK, by decide, uxPermFor, by decide, S0, hS0, exNoPresolver hS0, S', outs, hrun, hfine, ?_⟩
  intro op hop
  simp only [exOps, List.mem_cons, List.mem_nil_iff, or_false] at hop
  rcases hop with rfl | rfl | rfl <;> rfl

/-- the two further hypotheses of `full_update_then_solve_total` (cone kinds of the model, `PivotOK`) hold
on the same instance, and the theorem applies: `new` returns the solver object -/
example : (∀ c ∈ ([.nonneg 1] : List (ConeT Int)), Solver.ConeT.modelled c) ∧ Solver.PivotOK (st 3).lin
    ∧ ∃ S0, newSolver 3 = .ok S0 := by
  have hm : ∀ c ∈ ([.nonneg 1] : List (ConeT Int)), Solver.ConeT.modelled c := by
    intro c hc
    simp only [List.mem_cons, List.not_mem_nil, or_false] at hc
    subst hc; trivial
  obtain ⟨S0, h, _⟩ := full_update_then_solve_total (by decide) uxInputOK hm (by decide) uxPermFor
    (exPivotOK 3)
  exact ⟨hm, exPivotOK 3, S0, h⟩

/-- a solver object over `ℚ` for the field-level example: `P̂ = [8]`, `Â = [6]`, `q̂ = [4]`, `b̂ = [3]`,
`d = 2`, `e = 3`, `c = 2` (every other component arbitrary) -/
def exSolverQ : Solver ℚ :=
  { st := ⟨{ P := ⟨1, 1, #[0, 1], #[0], #[8]⟩, q := #[4], A := ⟨1, 1, #[0, 1], #[0], #[6]⟩, b := #[3],
             cones := [.nonneg 1], n := 1, m := 1,
             equilibration := { d := #[2], dinv := #[1/2], e := #[3], einv := #[1/3], c := 2 },
             normq := none, normb := none, presolver := none },
           default, default,
           ⟨⟨1, 1, 0, #[], #[], #[], #[], default, #[], #[], default,
              { perm := #[], iperm := #[], L := default, D := #[], Dinv := #[], etree := #[], Lnz := #[],
                triuA := default, AtoPAPt := #[], rp := { Dsigns := #[], enable := false, eps := 0, delta := 0 },
                positiveInertia := 0, regularizeCount := 0, isSymbolic := false }, 0⟩,
             #[], #[], #[], #[], #[], #[], #[]⟩, [], default, default, default, default, 0, 0, 0⟩,
    solution := default }

attribute [local instance] feFloatLikeRat in
/-- `full_updated_data_is_frozen_scaling_of_final_user_data`: the hypotheses hold for `exSolverQ` and the
block `[update_q([7])]` (the update operations that do not touch the KKT copy are total on data that
passes the index guard); the conclusion says `q̂' = c·d·7 = 28` -/
example : exSolverQ.view.ScaleOK ∧ ∃ S' outs st,
    Solver.runU st exSolverQ [.updateQ (.slice #[7])] = .ok (S', outs) ∧
    ∀ op ∈ ([.updateQ (.slice #[7])] : List (UOp ℚ)), op.isUpdate = true := by
  refine ⟨⟨by show (2 : ℚ) ≠ 0; norm_num, ?_, ?_, ?_, ?_⟩, ?_⟩
  · intro k hk
    have : k = 0 := by have : k < 1 := hk; omega
    subst this
    exact ⟨by show (2 : ℚ) ≠ 0; norm_num, by show (2 : ℚ) ≠ 0; norm_num⟩
  · intro k hk
    have : k = 0 := by have : k < 1 := hk; omega
    subst this
    exact ⟨by show (3 : ℚ) ≠ 0; norm_num, by show (2 : ℚ) ≠ 0; norm_num⟩
  · intro k hk
    have : k = 0 := by have : k < 1 := hk; omega
    subst this
    show (2 : ℚ) ≠ 0; norm_num
  · intro k hk
    have : k = 0 := by have : k < 1 := hk; omega
    subst this
    show (3 : ℚ) ≠ 0; norm_num
  · have hwf : dataWf exSolverQ.st.data = true := by decide +kernel
    obtain ⟨S', r, h⟩ := updateQ_total hwf (.slice #[7])
    refine ⟨S', [.res r], default, ?_, ?_⟩
    · exact runU_cons_ok (by rw [stepU_updateQ, h]; rfl) rfl
    · intro op hop
      simp only [List.mem_cons, List.mem_nil_iff, or_false] at hop
      subst hop
      rfl

/-- `full_rebuilt_norms_refreshed`: after an accepted `update_q` and `update_b` both caches are absent;
in general the hypothesis is the whole-solver form of `NormCacheOK` -/
example (d : ProblemData Int) (hq : d.normq = none) (hb : d.normb = none) :
    (d.normq = none ∨ ∃ v, Info.getNormq none d.q d.equilibration.dinv d.equilibration.c = .ok v ∧
      d.normq = some v) ∧
    (d.normb = none ∨ ∃ v, Info.getNormb none d.b d.equilibration.einv = .ok v ∧ d.normb = some v) :=
  ⟨Or.inl hq, Or.inl hb⟩

end examples_round7


/-! non-vacuity of the round-9 totality theorems (`full_history_total`, `full_update_total'`,
`full_update_then_solve_total'`, `full_update_then_solve_any_history`) -/
section examples_round9
open Clarabel.Solver

/-- the history of the `ℝ` example: `solve()`, a whole-vector `update_q([2])`, a partial
`update_A([(0, 3), (5, 4)])` whose second index is out of range, `solve()` -/
noncomputable def exHistoryR : List (UOp ℝ) :=
  [.solve, .updateQ (.slice #[2]), .updateA (.pairs #[0, 5] #[3, 4]), .solve]

/-- over `ℝ`, on `min x s.t. x + s = 1, s ≥ 0` with the DEFAULT settings (equilibration, static and
dynamic regularisation, iterative refinement on), every hypothesis of the four theorems holds
(`FullExample.inputOK`, `modelled`, `permFor`, `stR_pivotOK`, `fmaxOK_real`, `0 == 0`), and the conclusion
at `exHistoryR`: `new` returns, the history — two solves and two updates — returns, the next `solve()`
returns, every further operation returns -/
example : (((0 : ℝ) == 0) = true) ∧
    ∃ S0 S' outs r, Solver.new FullExample.P #[1] FullExample.A #[1] ([.nonneg 1] : List (ConeT ℝ))
      FullExample.stR #[0, 1] = .ok S0 ∧
    Solver.runU FullExample.stR S0 exHistoryR = .ok (S', outs) ∧ S'.solve FullExample.stR = .ok r ∧
    ∃ S'' o, S'.stepU FullExample.stR (.updateP (.pairs #[7] #[1])) = .ok (S'', o) := by
  refine ⟨by simp, ?_⟩
  obtain ⟨S0, h, hall⟩ := full_history_total FullExample.inputOK FullExample.modelled
    (by decide) (FullExample.permFor FullExample.stR rfl) FullExample.stR_pivotOK fmaxOK_real
  obtain ⟨S0', h', hall'⟩ := full_update_total' FullExample.inputOK FullExample.modelled
    (by decide) (FullExample.permFor FullExample.stR rfl) FullExample.stR_pivotOK fmaxOK_real
  rw [h] at h'
  cases h'
  obtain ⟨S', outs, e, ⟨r, hr⟩, _, _⟩ := hall exHistoryR
  obtain ⟨S1, outs1, e1, S'', o, e2⟩ := hall' exHistoryR (.updateP (.pairs #[7] #[1]))
  rw [e] at e1
  cases e1
  exact ⟨S0, S', outs, r, h, e, hr, S'', o, e2⟩

attribute [local instance] Example.intFloatLike in
/-- at `Int` the same history is RUN by the kernel (`Example.histRun_codes`): on the object `new` builds
for the example problem — the hypotheses of `full_update_then_solve_any_history` hold: `uxInputOK`,
`uxPermFor`, `exPivotOK`, `exFmaxOK`, no presolver — the history `solve(); update_q([2]);
update_A([(0,3),(5,4)]); solve()` returns with outputs: solved in 2 passes, ACCEPTED, REJECTED (`data.A =
[3]`, KKT copy still `1`: `RunFine` fails), solved in 3 passes; and by the theorem the NEXT `solve()`
returns and is observably the solve of the object rebuilt with the stale KKT matrices `pk`, `ak` -/
example : ∃ S0 S' outs, Example.newSolver 3 = .ok S0 ∧
    Solver.runU (Example.st 3) S0 Example.histOps = .ok (S', outs) ∧
    outs.map Example.outCode = [4, 0, 1, 5] ∧ S'.st.data.A.nzval = #[3] ∧
    S'.st.kktsystem.kktsolver.KKT.nzval = #[0, 1, 0] ∧
    ∃ pk ak R r r', UInv (Example.st 3) S0 S' pk ak ∧
      Solver.rebuiltWith S'.st.data (dataWith S'.st.data pk ak) (Example.st 3) #[0, 1]
        (Unscale.Solution.new S'.st.data.n S'.st.data.m) = .ok R ∧
      S'.solve (Example.st 3) = .ok r ∧ R.solve (Example.st 3) = .ok r' ∧ SolveObs r r' := by
  have hm : ∀ c ∈ ([.nonneg 1] : List (ConeT Int)), Solver.ConeT.modelled c := by
    intro c hc
    simp only [List.mem_cons, List.not_mem_nil, or_false] at hc
    subst hc; trivial
  obtain ⟨S0, h, hall⟩ := full_update_then_solve_any_history (by decide) Example.uxInputOK hm (by decide)
    Example.uxPermFor (Example.exPivotOK 3) Example.exFmaxOK
  obtain ⟨S', outs, e, pk, ak, hU, _, R, hR, _, r, r', hr, hr', hobs⟩ :=
    hall (Example.exNoPresolver h) Example.histOps
  have hk := Example.histRun_codes
  rw [Example.histRun_eq h e] at hk
  simp only [Except.toOption, Option.map_some, Option.some.injEq, Prod.mk.injEq] at hk
  exact ⟨S0, S', outs, h, e, hk.1, hk.2.1, hk.2.2.2, pk, ak, R, r, r', hU, hR, hr, hr', hobs⟩

end examples_round9

end Clarabel.C08
