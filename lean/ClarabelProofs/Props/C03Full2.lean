/-
  C03 — the solver's report is truthful, END TO END on the whole-solver model (round 4,
  composition).  One theorem from the user's input `(P, q, A, b, cones, settings)` to the four
  reported numbers; no hypothesis about internal objects is left.

  Pieces composed (each tied to the code by its own correspondence channel):
  `C03.full_report_figures_of_returned_iterate` (whose record is reported) ∘ the size part of the
  state invariant of `solve()` (`SizedSt`: C04's `Shapes` without the linear solver object, obtained
  from C05's shape frame) ∘ `C03.report_on_user_data` (the chain equilibrate → `Residuals.update` →
  `Info.update` → `unscale` over ℝ) ∘ `UserData` DERIVED from `InputOK` (`userData_of_new`) ∘ C07's
  interior-point invariant carried over to the whole-solver model's own `calc_step_length` /
  `add_step` (`Lemmas/StepKBridge.lean`), which supplies `τ > 0` for every recorded iterate.

  A file of its own (imported by `Props/C03.lean`) because of its import chain.  It cannot import
  C04's no-panic files (`SolverModelNoPanicPass.lean` and `SolverReport.lean` both declare
  `Clarabel.Solver.PInv`); the two hypotheses `Solver.new … = .ok S`, `S.solve st = .ok r` are
  literally the conclusions of `C04.full_no_panic`.
-/
import ClarabelProofs.Lemmas.SolverFullCompose
import ClarabelProofs.Lemmas.StepKBridge
import ClarabelProofs.Lemmas.SolverFullExample
import ClarabelProofs.Lemmas.SolverFullPresolved

namespace Clarabel.C03
open Clarabel Clarabel.Solver Clarabel.InfoUser Clarabel.Dense

/-- **[R] `C03.full_report_on_user_data`** — the report of the whole solver on the USER's data.

Let `DefaultSolver::new(P, q, A, b, cones, settings)` succeed on well-formed input (`InputOK`: `P`,
`A` canonical CSC, `P` square `n×n`, `A` `m×n`, `|q| = n`, `|b| = m`, the cones cover the `m`
rows), presolve off — or on without dropping a row (`hpre`: all flags of `make_reduction_map`'s
keep vector are `true`) —, with positive equilibration bounds, `0 < max_step_fraction < 1` and
`T::max_value() > 0`; let `solve()` return with a status that is not an infeasibility status
(`Solved`, `AlmostSolved`, `MaxIterations`, `MaxTime`, `NumericalError`, `InsufficientProgress`).
Then for the RETURNED `x, s, z` (`solution.x/s/z`) and the user's data — `P` standing for the
symmetric matrix whose triangle `P.to_triu()` holds (`Pn = P` for a triangular `P`), `b` capped at
the infinity bound as `DefaultProblemData::new` does —, in exact arithmetic:
`obj_val = ½xᵀPx + qᵀx`, `obj_val_dual = −bᵀz − ½xᵀPx`,
`r_prim = ‖Ax+s−b‖₂ / max(1, ‖b‖∞+‖x‖₂+‖s‖₂)`, `r_dual = ‖Px+Aᵀz+q‖₂ / max(1, ‖q‖∞+‖x‖₂+‖z‖₂)`,
`info.gap_abs = |obj_val − obj_val_dual|`, `info.gap_rel = gap_abs / max(1, min(|obj_val|,
|obj_val_dual|))`, and `|x| = n`, `|s| = |z| = m`.  Also after an insufficient-progress rollback
(the figures and the point are then those of the restored iterate).

Hypotheses: about the user's input and settings, plus `new … = .ok S` and `solve = .ok r` (both
follow from `C04.full_no_panic` for supported cones under its side conditions `0 < n`, `PermFor`,
`PivotOK`, `FmaxOK`).  `τ > 0` of the reported iterate is no longer a hypothesis. -/
theorem full_report_on_user_data {P : Csc ℝ} {q : Array ℝ} {A : Csc ℝ} {b : Array ℝ}
    {cones : List (ConeT ℝ)} {st : Solver.Settings ℝ} {perm : Array Nat} {S : Solver ℝ}
    {r : SolveResult ℝ}
    (hin : InputOK P q A b cones)
    (hpre : st.presolveEnable = false ∨ ∃ keep,
      Presolve.keepFlags (Presolve.threshold st.infbound) (Cones.newCollapsed cones) b.toList = .ok keep
        ∧ keep.count true = b.size)
    (hlo : 0 < st.equil.minScaling) (hhi : 0 < st.equil.maxScaling)
    (hf0 : 0 < st.maxStepFraction) (hf1 : st.maxStepFraction < 1) (hmv : 0 < st.maxValue)
    (hnew : Solver.new P q A b cones st perm = .ok S) (hr : S.solve st = .ok r)
    (hst : r.S.solution.status.isInfeasible = false) :
    ∃ Pn, ProblemData.triuStep P = .ok Pn ∧
      let bc := ProblemData.capB b st.infbound
      let p := problemOf Pn q A bc A.n A.m
      let x := vecFn r.S.solution.x A.n
      let sv := vecFn r.S.solution.s A.m
      let z := vecFn r.S.solution.z A.m
      let pobj := dot x (mulV p.P x) / 2 + dot p.q x
      let dobj := -dot p.b z - dot x (mulV p.P x) / 2
      r.S.solution.obj_val = some pobj
      ∧ r.S.solution.obj_val_dual = some dobj
      ∧ r.S.solution.r_prim
          = some (nrm (fun k => mulV p.A x k + sv k - p.b k) / max 1 (Vec.normInf bc + nrm x + nrm sv))
      ∧ r.S.solution.r_dual
          = some (nrm (fun j => mulV p.P x j + mulVT p.A z j + p.q j) / max 1 (Vec.normInf q + nrm x + nrm z))
      ∧ r.S.st.info.gap_abs = |pobj - dobj|
      ∧ r.S.st.info.gap_rel = |pobj - dobj| / max 1 (min |pobj| |dobj|)
      ∧ r.S.solution.x.size = A.n ∧ r.S.solution.s.size = A.m ∧ r.S.solution.z.size = A.m :=
  full_report_chain (interior_stepHyp st hf0 hf1 hmv) (interior_initHyp st)
    (fun _ _ h => h.pos.1) ⟨hin, hpre, hlo, hhi⟩ hnew hr hst

/-- **[R] `C03.full_report_on_user_data_presolved`** — the same, when PRESOLVE DROPS ROWS.
Presolve enabled, `keep` the keep vector of `make_reduction_map` on the collapsed cone list, at
least one row dropped; `new` succeeds and `solve()` returns a non-infeasibility status.  Then, for
the full-length `x, s, z` the user receives (`reverse_presolve`) and the user's FULL `P`
(`P.to_triu()`), `q`, `A`, `b` (capped): `obj_val = ½xᵀPx + qᵀx`, `obj_val_dual = −bᵀz − ½xᵀPx`
(dropped rows have `z = 0`), `r_dual = ‖Px+Aᵀz+q‖₂ / max(1, ‖q‖∞+‖x‖₂+‖z‖₂)` verbatim, and
`r_prim = ‖Ax+s−b‖ / max(1, normb+‖x‖₂+‖s‖)` with the residual norm and `‖s‖` taken over the KEPT rows
(`nrmKept`) and `normb = ‖b[keep]‖∞` (capped) — the dropped rows carry `(s, z) = (infbound, 0)`.
Composition of `C09.presolve_transparent_full` (the presolve-on solve equals the solve of the
hand-reduced problem built with presolve off), `full_report_on_user_data` on the hand-reduced
problem, and `C03.report_on_user_data_presolved`. -/
theorem full_report_on_user_data_presolved {P : Csc ℝ} {q : Array ℝ} {A : Csc ℝ} {b : Array ℝ}
    {cones : List (ConeT ℝ)} {st : Solver.Settings ℝ} {perm : Array Nat} {S : Solver ℝ}
    {r : SolveResult ℝ} {keep : List Bool}
    (hin : InputOK P q A b cones) (hpe : st.presolveEnable = true)
    (hk : Presolve.keepFlags (Presolve.threshold st.infbound) (Cones.newCollapsed cones) b.toList = .ok keep)
    (hc : keep.count true < b.size)
    (hlo : 0 < st.equil.minScaling) (hhi : 0 < st.equil.maxScaling)
    (hf0 : 0 < st.maxStepFraction) (hf1 : st.maxStepFraction < 1) (hmv : 0 < st.maxValue)
    (hnew : Solver.new P q A b cones st perm = .ok S) (hr : S.solve st = .ok r)
    (hst : r.S.solution.status.isInfeasible = false) :
    ∃ Pn, ProblemData.triuStep P = .ok Pn ∧
      let n := A.n
      let m := A.m
      let bc := ProblemData.capB b st.infbound
      let Pd := symFn Pn n
      let qd := vecFn q n
      let x := vecFn r.S.solution.x n
      let s := vecFn r.S.solution.s m
      let z := vecFn r.S.solution.z m
      let kp := InfoPresolve.keepFn keep m
      let normb := Vec.normInf (ProblemData.capB (Vec.select b keep.toArray) st.infbound)
      let pobj := dot x (mulV Pd x) / 2 + dot qd x
      let dobj := -dot (vecFn bc m) z - dot x (mulV Pd x) / 2
      r.S.solution.obj_val = some pobj
      ∧ r.S.solution.obj_val_dual = some dobj
      ∧ r.S.solution.r_prim = some (InfoPresolve.nrmKept kp (fun i => mulV (matFn A m n) x i + s i - vecFn bc m i)
            / max 1 (normb + nrm x + InfoPresolve.nrmKept kp s))
      ∧ r.S.solution.r_dual = some (nrm (fun j => mulV Pd x j + mulVT (matFn A m n) z j + qd j)
            / max 1 (Vec.normInf q + nrm x + nrm z))
      ∧ (∀ i, kp i = false → s i = st.infbound ∧ z i = 0) :=
  full_report_presolved_chain hin hpe hk hc hlo hhi hf0 hf1 hmv hnew hr hst

/-- [S] a triangular `P` is stored as it is (`Pn = P` in `full_report_on_user_data`) -/
theorem full_triu_is_user_P {P Pn : Csc ℝ} (h : ProblemData.triuStep P = .ok Pn)
    (ht : P.isTriu = true) : Pn = P :=
  triuStep_of_isTriu h ht

/-! ### non-vacuity -/

/-- the input hypotheses of `full_report_on_user_data` hold on `min x s.t. x + s = 1, s ≥ 0`
(real data) with the default-like settings below -/
example : InputOK FullExample.P #[1] FullExample.A #[1] ([.nonneg 1] : List (ConeT ℝ)) :=
  FullExample.inputOK
example : FullExample.P.isTriu = true := by rfl
example : (0:ℝ) < 1e-4 ∧ (0:ℝ) < 1e4 ∧ (0:ℝ) < 0.99 ∧ (0.99:ℝ) < 1 := by norm_num

/-- the presolve hypothesis `hpre` holds for every problem when presolve is off -/
example (b : Array ℝ) (cones : List (ConeT ℝ)) (inf : ℝ) : (false = false) ∨ ∃ keep,
    Presolve.keepFlags (Presolve.threshold inf) (Cones.newCollapsed cones) b.toList = .ok keep
      ∧ keep.count true = b.size := Or.inl rfl

section
open Clarabel.Solver.Example
attribute [local instance] intFloatLike
/-- the run hypotheses (`new` succeeds, `solve()` returns, the status is not an infeasibility
status) hold on the same instance with integer data, evaluated by the kernel (the real-valued
model cannot be evaluated) -/
example : ∃ S r, newSolver 3 = .ok S ∧ S.solve (Example.st 3) = .ok r
    ∧ r.S.solution.status.isInfeasible = false := by
  obtain ⟨S, r, h1, h2, h3⟩ := FullExample.run3_hyps
  exact ⟨S, r, h1, h2, by rw [h3]; rfl⟩
end

end Clarabel.C03
