/-
  C01 — `Solved` certifies the USER's problem, END TO END on the whole-solver model WITH NONSYMMETRIC
  CONES (`ClarabelModel/SolverNS/*.lean`: zero / nonnegative / second-order / exponential / power /
  generalised power cones, the `PrimalDual → Dual` strategy switch, barrier backtracking; tied bit for
  bit to `DefaultSolver::new` + `solve()` on whole trajectories by the channels `solvens.*`).

  The composition theorems of `Props/C01Full.lean` lifted to that model.  What is SHARED with the first
  model is reused by import (the chain `equilibrate → Residuals.update → Info.update →
  check_convergence → unscale` on the user's data, `UserData` from `InputOK`, cone membership under
  un-equilibration for all seven cone kinds, presolve with no dropped row): `Residuals.update`,
  `Info.*`, `Unscale.*`, `Equil.equilibrate`, `ProblemData.new` are the same functions in both
  models.  What DIFFERS is proved for the NS model's own functions:
  * the loop (`Lemmas/SolverNSFullTraj.lean`, `SolverNSFullRet.lean`): ten ways through a pass; the
    strategy checkpoints `continue` without `save_prev_iterate`, so after the insufficient-progress
    rollback the returned iterate is the one recorded by the LAST PASS THAT REACHED `add_step`, which
    may be two records before the discarded last one;
  * `τ, κ > 0` and `z ∈ int K*`, `s ∈ int K` of EVERY recorded iterate are PROVED
    (`ns_full_interior_invariant`): C07's StepK theorems (`interior_stepG`, `unit_init_interiorG`,
    `symmetric_init_interior`) bridged to the model's own `get_step_length` (`calc_step_length` with the
    nonsymmetric cones' backtracking line search, then `backtrack_step_to_barrier`), `add_step`,
    `unit_initialization` / `symmetric_initialization`
    (`Lemmas/SolverNSBridge{Defs,Step,Init,Mem}.lean`), and `s = 0` on the zero-cone rows
    (`Lemmas/SolverNSFullZero.lean`).

  A file of its own (imported by `Props/C01.lean`) because of its import chain.
-/
import ClarabelProofs.Lemmas.SolverNSFullCompose
import ClarabelProofs.Lemmas.SolverNSBridgeStep
import ClarabelProofs.Lemmas.SolverNSBridgeInit
import ClarabelProofs.Lemmas.SolverNSBridgeMem
import ClarabelProofs.Lemmas.SolverNSFullZero
import ClarabelProofs.Lemmas.SolverNSFullExample
import ClarabelProofs.Lemmas.SolverNSFullPresolvedCert

namespace Clarabel.C01
open Clarabel Clarabel.InfoUser Clarabel.Dense

/-- **[R] `C01.ns_full_interior_invariant`** — on the whole-solver model with nonsymmetric cones, with
`0 < max_step_fraction < 1`, `T::max_value() > 0`, `0 ≤ linesearch_backtrack_step ≤ 1` and admissible
cone parameters (`ValidCones`: power cone `0 < α < 1`, generalised power cone `αᵢ > 0`, `Σ αᵢ = 1`),
EVERY iterate recorded during a `solve()` on a solver object built by `DefaultSolver::new` has `τ > 0`,
`κ > 0`, `(z, s)` strictly inside `K* × K` on the rows of every nonnegative / second-order /
exponential / power / generalised power cone (`InteriorN`: C07's `Blk.InteriorG` on the blocks the
model's own `rng_cones` cut), and `s = 0` on the zero-cone rows — whatever the KKT solves return,
whichever strategy switches and rollbacks happen.  The step length is the model's own
`get_step_length` (incl. `backtrack_step_to_barrier`), the update its own `add_step`, the start its own
`default_start` (`unit_initialization` with a nonsymmetric cone, else `symmetric_initialization`). -/
theorem ns_full_interior_invariant {P : Csc ℝ} {q : Array ℝ} {A : Csc ℝ} {b : Array ℝ}
    {cones : List (ConeT ℝ)} {st0 st : SolverNS.Settings ℝ} {perm : Array Nat} {S : SolverNS.Solver ℝ}
    {r : SolverNS.SolveResult ℝ}
    (hf0 : 0 < st.maxStepFraction) (hf1 : st.maxStepFraction < 1) (hmv : 0 < st.maxValue)
    (hb0 : 0 ≤ st.linesearchBacktrackStep) (hb1 : st.linesearchBacktrackStep ≤ 1)
    (hv : Equil.ValidCones (SolverNS.layoutN S.st))
    (hnew : SolverNS.Solver.new P q A b cones st0 perm = .ok S) (hr : S.solve st = .ok r) :
    ∀ p ∈ r.traj, SolverNS.InteriorN (SolverNS.layoutN S.st) p.vars
      ∧ SolverNS.ZeroSN (SolverNS.layoutN S.st) p.vars :=
  have hS := SolverNS.SizedN.of_new hnew
  fun p hp =>
    (SolverNS.solve_traj_invN
      ((SolverNS.interiorN_stepHyp st hf0 hf1 hmv hb0 hb1).and (SolverNS.zeroSN_stepHyp st))
      ((SolverNS.interiorN_initHyp st _ hS.resetInfo (by rw [SolverNS.layoutN_resetInfo]; exact hv)).and
        (SolverNS.zeroSN_initHyp st _ hS.resetInfo)) hS hr p hp).1

/-- **[R] `C01.ns_full_solved_certifies`** — status `Solved` of the whole solver certifies the USER's
problem, for problems with zero / nonnegative / second-order / exponential / power / generalised power
cones.

Let `DefaultSolver::new(P, q, A, b, cones, settings)` succeed on well-formed input (`InputOK`: `P`, `A`
canonical CSC, `P` square `n×n`, `A` `m×n`, `|q| = n`, `|b| = m`, the cones cover the `m` rows;
`ValidCones`: admissible cone parameters), presolve off or dropping no row (`hpre`), positive
equilibration bounds, `0 < max_step_fraction < 1`, `T::max_value() > 0`,
`0 ≤ linesearch_backtrack_step ≤ 1`, and let `solve()` return with status `Solved`.  Then the RETURNED
`x, s, z` satisfy, on the user's `P` (the symmetric matrix whose triangle `P.to_triu()` holds), `q`, `A`,
`b` (capped at the infinity bound), in exact arithmetic, the documented termination test
`‖Ax+s−b‖₂ / max(1, ‖b‖∞+‖x‖₂+‖s‖₂) < tol_feas`, `‖Px+Aᵀz+q‖₂ / max(1, ‖q‖∞+‖x‖₂+‖z‖₂) < tol_feas`,
`|p−d| < tol_gap_abs ∨ |p−d| / max(1, min(|p|,|d|)) < tol_gap_rel`, AND `s ∈ K`, `z ∈ K*` for the product
cone of the collapsed cone list (`Equil.ConeMem` / `ConeMemDual`: entrywise for zero / nonnegative cones,
`‖v‖ ≤ t` for second-order cones, the cones' own `is_primal_feasible` / `is_dual_feasible` for
exponential, power and generalised power cones), and `|x| = n`, `|s| = |z| = m`.

No hypothesis about an internal iterate is left: `τ > 0` and the cone membership of the internal iterate
come from `ns_full_interior_invariant`, the sizes from the state invariant, `UserData` from `InputOK`;
the verdict `Solved` is always judged on the LAST recorded iterate, which is the one returned
(`SolverNS.Returned.full_verdict`).  `new = .ok`, `solve = .ok` are what `C04.ns_no_panic*` conclude
(up to the two numerical-domain sites). -/
theorem ns_full_solved_certifies {P : Csc ℝ} {q : Array ℝ} {A : Csc ℝ} {b : Array ℝ}
    {cones : List (ConeT ℝ)} {st : SolverNS.Settings ℝ} {perm : Array Nat} {S : SolverNS.Solver ℝ}
    {r : SolverNS.SolveResult ℝ}
    (hin : Solver.InputOK P q A b cones) (hvc : Equil.ValidCones cones)
    (hpre : st.presolveEnable = false ∨ ∃ keep,
      Presolve.keepFlags (Presolve.threshold st.infbound) (Cones.newCollapsed cones) b.toList = .ok keep
        ∧ keep.count true = b.size)
    (hlo : 0 < st.equil.minScaling) (hhi : 0 < st.equil.maxScaling)
    (hf0 : 0 < st.maxStepFraction) (hf1 : st.maxStepFraction < 1) (hmv : 0 < st.maxValue)
    (hb0 : 0 ≤ st.linesearchBacktrackStep) (hb1 : st.linesearchBacktrackStep ≤ 1)
    (hnew : SolverNS.Solver.new P q A b cones st perm = .ok S) (hr : S.solve st = .ok r)
    (hst : r.S.solution.status = .solved) :
    ∃ Pn, ProblemData.triuStep P = .ok Pn ∧
      let bc := ProblemData.capB b st.infbound
      let p := problemOf Pn q A bc A.n A.m
      let x := vecFn r.S.solution.x A.n
      let sv := vecFn r.S.solution.s A.m
      let z := vecFn r.S.solution.z A.m
      let pobj := dot x (mulV p.P x) / 2 + dot p.q x
      let dobj := -dot p.b z - dot x (mulV p.P x) / 2
      nrm (fun k => mulV p.A x k + sv k - p.b k) / max 1 (Vec.normInf bc + nrm x + nrm sv) < st.info.full.feas
      ∧ nrm (fun j => mulV p.P x j + mulVT p.A z j + p.q j) / max 1 (Vec.normInf q + nrm x + nrm z)
          < st.info.full.feas
      ∧ (|pobj - dobj| < st.info.full.gap_abs
          ∨ |pobj - dobj| / max 1 (min |pobj| |dobj|) < st.info.full.gap_rel)
      ∧ Equil.CompositeMem Equil.ConeMem (Cones.newCollapsed cones) r.S.solution.s.toList
      ∧ Equil.CompositeMem Equil.ConeMemDual (Cones.newCollapsed cones) r.S.solution.z.toList
      ∧ r.S.solution.x.size = A.n ∧ r.S.solution.s.size = A.m ∧ r.S.solution.z.size = A.m :=
  SolverNS.full_solved_chainN
    ((SolverNS.interiorN_stepHyp st hf0 hf1 hmv hb0 hb1).and (SolverNS.zeroSN_stepHyp st))
    (fun S0 hS hv => (SolverNS.interiorN_initHyp st S0 hS hv).and (SolverNS.zeroSN_initHyp st S0 hS))
    (fun _ _ h => h.1.pos.1) (fun _ _ h => ⟨h.1.mem_primal h.2, h.1.mem_dual⟩)
    ⟨hin, hvc, hpre, hlo, hhi⟩ hnew hr hst

/-- **[R] `C01.ns_full_almost_solved_certifies`** — status `AlmostSolved` of the whole solver with
nonsymmetric cones (assigned by `Info::post_process` after `MaxIterations`, `MaxTime`, `NumericalError`
or `InsufficientProgress`): under the hypotheses of `ns_full_solved_certifies`, the RETURNED `x, s, z`
pass the documented termination test with the REDUCED tolerances on the user's data, `s ∈ K`, `z ∈ K*`,
and the lengths are `n, m, m` — also after an insufficient-progress rollback.  The returned point and the
six figures judged are then those of the iterate `save_prev_iterate` stored last: the record of the last
pass that reached `add_step`, which — because a strategy checkpoint may `continue` without saving — can
be TWO records before the discarded last one (`SolverNS.Returned.final`: `r.traj = pre ++ p :: post ++
[l]`, `|post| ≤ 1`, no pass of `post` reached `add_step`). -/
theorem ns_full_almost_solved_certifies {P : Csc ℝ} {q : Array ℝ} {A : Csc ℝ} {b : Array ℝ}
    {cones : List (ConeT ℝ)} {st : SolverNS.Settings ℝ} {perm : Array Nat} {S : SolverNS.Solver ℝ}
    {r : SolverNS.SolveResult ℝ}
    (hin : Solver.InputOK P q A b cones) (hvc : Equil.ValidCones cones)
    (hpre : st.presolveEnable = false ∨ ∃ keep,
      Presolve.keepFlags (Presolve.threshold st.infbound) (Cones.newCollapsed cones) b.toList = .ok keep
        ∧ keep.count true = b.size)
    (hlo : 0 < st.equil.minScaling) (hhi : 0 < st.equil.maxScaling)
    (hf0 : 0 < st.maxStepFraction) (hf1 : st.maxStepFraction < 1) (hmv : 0 < st.maxValue)
    (hb0 : 0 ≤ st.linesearchBacktrackStep) (hb1 : st.linesearchBacktrackStep ≤ 1)
    (hnew : SolverNS.Solver.new P q A b cones st perm = .ok S) (hr : S.solve st = .ok r)
    (hst : r.S.solution.status = .almostSolved) :
    ∃ Pn, ProblemData.triuStep P = .ok Pn ∧
      let bc := ProblemData.capB b st.infbound
      let p := problemOf Pn q A bc A.n A.m
      let x := vecFn r.S.solution.x A.n
      let sv := vecFn r.S.solution.s A.m
      let z := vecFn r.S.solution.z A.m
      let pobj := dot x (mulV p.P x) / 2 + dot p.q x
      let dobj := -dot p.b z - dot x (mulV p.P x) / 2
      nrm (fun k => mulV p.A x k + sv k - p.b k) / max 1 (Vec.normInf bc + nrm x + nrm sv)
          < st.info.reduced.feas
      ∧ nrm (fun j => mulV p.P x j + mulVT p.A z j + p.q j) / max 1 (Vec.normInf q + nrm x + nrm z)
          < st.info.reduced.feas
      ∧ (|pobj - dobj| < st.info.reduced.gap_abs
          ∨ |pobj - dobj| / max 1 (min |pobj| |dobj|) < st.info.reduced.gap_rel)
      ∧ Equil.CompositeMem Equil.ConeMem (Cones.newCollapsed cones) r.S.solution.s.toList
      ∧ Equil.CompositeMem Equil.ConeMemDual (Cones.newCollapsed cones) r.S.solution.z.toList
      ∧ r.S.solution.x.size = A.n ∧ r.S.solution.s.size = A.m ∧ r.S.solution.z.size = A.m :=
  SolverNS.full_almost_solved_chainN
    ((SolverNS.interiorN_stepHyp st hf0 hf1 hmv hb0 hb1).and (SolverNS.zeroSN_stepHyp st))
    (fun S0 hS hv => (SolverNS.interiorN_initHyp st S0 hS hv).and (SolverNS.zeroSN_initHyp st S0 hS))
    (fun _ _ h => h.1.pos.1) (fun _ _ h => ⟨h.1.mem_primal h.2, h.1.mem_dual⟩)
    ⟨hin, hvc, hpre, hlo, hhi⟩ hnew hr hst

/-! ### non-vacuity -/

section nsExamples
open Clarabel.SolverNS

/-- the input hypotheses hold on a real-valued instance WITH an exponential cone AND a power cone
(`cones = [nonneg 1, exp, pow ½]`, 7 rows, one variable) and the `DefaultSettings` defaults -/
example : Solver.InputOK FullExample.P FullExample.q FullExample.A FullExample.b FullExample.cones :=
  FullExample.inputOK
example : Equil.ValidCones FullExample.cones := FullExample.validCones
example : FullExample.stR.presolveEnable = false ∧ 0 < FullExample.stR.equil.minScaling
    ∧ 0 < FullExample.stR.equil.maxScaling ∧ 0 < FullExample.stR.maxStepFraction
    ∧ FullExample.stR.maxStepFraction < 1 ∧ 0 < FullExample.stR.maxValue
    ∧ 0 ≤ FullExample.stR.linesearchBacktrackStep ∧ FullExample.stR.linesearchBacktrackStep ≤ 1 :=
  FullExample.stR_ok

/-- `ns_full_solved_certifies` applied to that instance: every hypothesis about the input and the
settings is discharged; what remains are the run hypotheses -/
example {perm : Array Nat} {S : Solver ℝ} {r : SolveResult ℝ}
    (hnew : Solver.new FullExample.P FullExample.q FullExample.A FullExample.b FullExample.cones
      FullExample.stR perm = .ok S)
    (hr : S.solve FullExample.stR = .ok r) (hst : r.S.solution.status = .solved) :
    r.S.solution.x.size = 1 ∧ r.S.solution.s.size = 7 ∧ r.S.solution.z.size = 7 := by
  obtain ⟨h0, h1, h2, h3, h4, h5, h6, h7⟩ := FullExample.stR_ok
  obtain ⟨_, _, _, _, _, _, _, a, b, c⟩ := ns_full_solved_certifies FullExample.inputOK
    FullExample.validCones (Or.inl h0) h1 h2 h3 h4 h5 h6 h7 hnew hr hst
  exact ⟨a, b, c⟩

/-- the same for `ns_full_almost_solved_certifies` and `ns_full_interior_invariant` -/
example {perm : Array Nat} {S : Solver ℝ} {r : SolveResult ℝ}
    (hnew : Solver.new FullExample.P FullExample.q FullExample.A FullExample.b FullExample.cones
      FullExample.stR perm = .ok S)
    (hr : S.solve FullExample.stR = .ok r) (hst : r.S.solution.status = .almostSolved) :
    r.S.solution.x.size = 1 ∧ r.S.solution.s.size = 7 ∧ r.S.solution.z.size = 7 := by
  obtain ⟨h0, h1, h2, h3, h4, h5, h6, h7⟩ := FullExample.stR_ok
  obtain ⟨_, _, _, _, _, _, _, a, b, c⟩ := ns_full_almost_solved_certifies FullExample.inputOK
    FullExample.validCones (Or.inl h0) h1 h2 h3 h4 h5 h6 h7 hnew hr hst
  exact ⟨a, b, c⟩

example {perm : Array Nat} {S : Solver ℝ} {r : SolveResult ℝ}
    (hnew : Solver.new FullExample.P FullExample.q FullExample.A FullExample.b FullExample.cones
      FullExample.stR perm = .ok S)
    (hr : S.solve FullExample.stR = .ok r) : ∀ p ∈ r.traj, 0 < p.vars.τ ∧ 0 < p.vars.κ := by
  obtain ⟨h0, h1, h2, h3, h4, h5, h6, h7⟩ := FullExample.stR_ok
  obtain ⟨d0, hA⟩ := solverNew_anatomyN hnew
  have hlay : layoutN S.st = d0.cones := makeCones_typ hA.cones
  have hv : Equil.ValidCones (layoutN S.st) := by
    rw [hlay, hA.dcones.symm.trans (hA.off h0).2.2.1]
    exact validCones_newCollapsed FullExample.validCones
  intro p hp
  exact (ns_full_interior_invariant h3 h4 h5 h6 h7 hv hnew hr p hp).1.pos

section
open Clarabel.SolverNS.Example
attribute [local instance] intFloatLike intSci
/-- the run hypotheses (`new` succeeds, `solve()` returns, the status) hold on an instance with an
EXPONENTIAL cone at integer data, evaluated by the kernel (the real-valued model cannot be evaluated):
status `Solved` and status `AlmostSolved` -/
example : ∃ S r, FullExample.newSolverT #[1, 1, 1, 1] (FullExample.stT FullExample.tolsBig tols 3) = .ok S
    ∧ S.solve (FullExample.stT FullExample.tolsBig tols 3) = .ok r ∧ r.S.solution.status = .solved :=
  FullExample.solved_hyps
example : ∃ S r, FullExample.newSolverT #[1, 1, 1, 1] (FullExample.stT tols FullExample.tolsBig 0) = .ok S
    ∧ S.solve (FullExample.stT tols FullExample.tolsBig 0) = .ok r
    ∧ r.S.solution.status = .almostSolved :=
  FullExample.almostSolved_hyps
end

end nsExamples


/-! ### presolve DROPS rows (model with nonsymmetric cones) -/

/-- **[R] `C01.ns_full_solved_certifies_presolved`** — `ns_full_solved_certifies` when PRESOLVE DROPS
ROWS.  Presolve enabled, `keep` the keep vector of `make_reduction_map` on the collapsed cone list, at
least one row dropped, `0 ≤ infbound`; `new` succeeds on well-formed input with admissible cone
parameters (zero / nonnegative / second-order / exponential / power / generalised power cones) and
`solve()` returns `Solved`.  Then the full-length `x, s, z` the user receives (`reverse_presolve`) pass
the documented termination test with the FULL tolerances on the user's FULL data `P` (`P.to_triu()`),
`q`, `A`, `b` (capped): the dual residual test and the gap test VERBATIM (dropped rows have `z = 0`), the
primal residual test with the residual norm and `‖s‖` taken over the KEPT rows and `normb = ‖b[keep]‖∞`;
the dropped rows carry `(s, z) = (infbound, 0)`; and the FULL `s ∈ K`, `z ∈ K*` for the user's collapsed
cone list (dropped rows sit in nonnegative cones, `infbound ≥ 0`).  Composition of
`C09.ns_presolve_transparent_full`, `ns_full_solved_certifies` on the hand-reduced problem and the
arithmetic of `C01.solved_certifies_user_problem_presolved`. -/
theorem ns_full_solved_certifies_presolved {P : Csc ℝ} {q : Array ℝ} {A : Csc ℝ} {b : Array ℝ}
    {cones : List (ConeT ℝ)} {st : SolverNS.Settings ℝ} {perm : Array Nat} {S : SolverNS.Solver ℝ}
    {r : SolverNS.SolveResult ℝ} {keep : List Bool}
    (hin : Solver.InputOK P q A b cones) (hvc : Equil.ValidCones cones)
    (hpe : st.presolveEnable = true)
    (hk : Presolve.keepFlags (Presolve.threshold st.infbound) (Cones.newCollapsed cones) b.toList = .ok keep)
    (hc : keep.count true < b.size) (hib : 0 ≤ st.infbound)
    (hlo : 0 < st.equil.minScaling) (hhi : 0 < st.equil.maxScaling)
    (hf0 : 0 < st.maxStepFraction) (hf1 : st.maxStepFraction < 1) (hmv : 0 < st.maxValue)
    (hb0 : 0 ≤ st.linesearchBacktrackStep) (hb1 : st.linesearchBacktrackStep ≤ 1)
    (hnew : SolverNS.Solver.new P q A b cones st perm = .ok S) (hr : S.solve st = .ok r)
    (hst : r.S.solution.status = .solved) :
    ∃ Pn, ProblemData.triuStep P = .ok Pn ∧
      let n := A.n
      let m := A.m
      let bc := ProblemData.capB b st.infbound
      let Pd := symFn Pn n
      let qd := vecFn q n
      let x := vecFn r.S.solution.x n
      let s := vecFn r.S.solution.s m
      let z := vecFn r.S.solution.z m
      let kp := InfoPresolve.keepFn keep m
      let normb := Vec.normInf (ProblemData.capB (Vec.select b keep.toArray) st.infbound)
      let pobj := dot x (mulV Pd x) / 2 + dot qd x
      let dobj := -dot (vecFn bc m) z - dot x (mulV Pd x) / 2
      InfoPresolve.nrmKept kp (fun i => mulV (matFn A m n) x i + s i - vecFn bc m i)
          / max 1 (normb + nrm x + InfoPresolve.nrmKept kp s) < st.info.full.feas
      ∧ nrm (fun j => mulV Pd x j + mulVT (matFn A m n) z j + qd j)
          / max 1 (Vec.normInf q + nrm x + nrm z) < st.info.full.feas
      ∧ (|pobj - dobj| < st.info.full.gap_abs
          ∨ |pobj - dobj| / max 1 (min |pobj| |dobj|) < st.info.full.gap_rel)
      ∧ (∀ i, kp i = false → s i = st.infbound ∧ z i = 0)
      ∧ Equil.CompositeMem Equil.ConeMem (Cones.newCollapsed cones) r.S.solution.s.toList
      ∧ Equil.CompositeMem Equil.ConeMemDual (Cones.newCollapsed cones) r.S.solution.z.toList
      ∧ r.S.solution.x.size = A.n :=
  SolverNS.full_solved_presolved_chainN hin hvc hpe hk hc hib hlo hhi hf0 hf1 hmv hb0 hb1 hnew hr hst

/-- **[R] `C01.ns_full_almost_solved_certifies_presolved`** — the same for status `AlmostSolved` with the
REDUCED tolerances (also after an insufficient-progress rollback, see `ns_full_almost_solved_certifies`). -/
theorem ns_full_almost_solved_certifies_presolved {P : Csc ℝ} {q : Array ℝ} {A : Csc ℝ} {b : Array ℝ}
    {cones : List (ConeT ℝ)} {st : SolverNS.Settings ℝ} {perm : Array Nat} {S : SolverNS.Solver ℝ}
    {r : SolverNS.SolveResult ℝ} {keep : List Bool}
    (hin : Solver.InputOK P q A b cones) (hvc : Equil.ValidCones cones)
    (hpe : st.presolveEnable = true)
    (hk : Presolve.keepFlags (Presolve.threshold st.infbound) (Cones.newCollapsed cones) b.toList = .ok keep)
    (hc : keep.count true < b.size) (hib : 0 ≤ st.infbound)
    (hlo : 0 < st.equil.minScaling) (hhi : 0 < st.equil.maxScaling)
    (hf0 : 0 < st.maxStepFraction) (hf1 : st.maxStepFraction < 1) (hmv : 0 < st.maxValue)
    (hb0 : 0 ≤ st.linesearchBacktrackStep) (hb1 : st.linesearchBacktrackStep ≤ 1)
    (hnew : SolverNS.Solver.new P q A b cones st perm = .ok S) (hr : S.solve st = .ok r)
    (hst : r.S.solution.status = .almostSolved) :
    ∃ Pn, ProblemData.triuStep P = .ok Pn ∧
      let n := A.n
      let m := A.m
      let bc := ProblemData.capB b st.infbound
      let Pd := symFn Pn n
      let qd := vecFn q n
      let x := vecFn r.S.solution.x n
      let s := vecFn r.S.solution.s m
      let z := vecFn r.S.solution.z m
      let kp := InfoPresolve.keepFn keep m
      let normb := Vec.normInf (ProblemData.capB (Vec.select b keep.toArray) st.infbound)
      let pobj := dot x (mulV Pd x) / 2 + dot qd x
      let dobj := -dot (vecFn bc m) z - dot x (mulV Pd x) / 2
      InfoPresolve.nrmKept kp (fun i => mulV (matFn A m n) x i + s i - vecFn bc m i)
          / max 1 (normb + nrm x + InfoPresolve.nrmKept kp s) < st.info.reduced.feas
      ∧ nrm (fun j => mulV Pd x j + mulVT (matFn A m n) z j + qd j)
          / max 1 (Vec.normInf q + nrm x + nrm z) < st.info.reduced.feas
      ∧ (|pobj - dobj| < st.info.reduced.gap_abs
          ∨ |pobj - dobj| / max 1 (min |pobj| |dobj|) < st.info.reduced.gap_rel)
      ∧ (∀ i, kp i = false → s i = st.infbound ∧ z i = 0)
      ∧ Equil.CompositeMem Equil.ConeMem (Cones.newCollapsed cones) r.S.solution.s.toList
      ∧ Equil.CompositeMem Equil.ConeMemDual (Cones.newCollapsed cones) r.S.solution.z.toList
      ∧ r.S.solution.x.size = A.n :=
  SolverNS.full_almost_solved_presolved_chainN hin hvc hpe hk hc hib hlo hhi hf0 hf1 hmv hb0 hb1 hnew hr hst

/-- non-vacuity of the presolve hypotheses (over `ℝ`, the instance of the first model's `…_presolved`
theorems: cones `[nonneg 2]`, `b = (1, 2·10²⁰)`, bound `10²⁰` — `make_reduction_map` drops row 1; the
cone parameters are admissible); the run hypotheses on an instance with an EXPONENTIAL cone and a dropped
row: `C09.ns_presolve_transparent_full`'s example (`new` evaluated by the kernel) -/
example : Presolve.keepFlags (Presolve.threshold (1e20 : ℝ)) (Cones.newCollapsed [ConeT.nonneg 2])
      (#[1, 2e20] : Array ℝ).toList = .ok [true, false]
    ∧ [true, false].count true < (#[1, 2e20] : Array ℝ).size ∧ (0 : ℝ) ≤ 1e20
    ∧ Equil.ValidCones [ConeT.nonneg (α := ℝ) 2] :=
  ⟨Solver.keepFlags_example, by decide, by norm_num, fun c hc => by
    rcases List.mem_singleton.mp hc with rfl; trivial⟩

end Clarabel.C01
