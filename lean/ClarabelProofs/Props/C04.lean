/-
  C04 — every solve terminates cleanly within its limits.

  All theorems are class [S]: they use no arithmetic law of the scalar type `α` and therefore
  hold for `Float` (the instance the correspondence check runs) as well as for any ordered
  field.  They quantify over *all* oracle lists, i.e. over every behaviour of the numerical
  sub-steps (residuals, scaling, KKT solves, step lengths, clock).
  Helper lemmas: `ClarabelProofs/Lemmas/Loop.lean`.
-/
import ClarabelProofs.Lemmas.Loop
import ClarabelProofs.Props.C09
import ClarabelProofs.Props.C04Full

namespace Clarabel.C04
open Clarabel Clarabel.Loop

set_option linter.unusedSectionVars false

variable {α : Type} [Mul α] [Div α] [Neg α] [OfNat α 0] [OfNat α 1]
  [LT α] [DecidableLT α] [LE α] [DecidableLE α] [BEq α] [FloatLike α]

/-- [S] `C04.terminates`: whatever the numerics answer, `solve()` leaves its loop after at most
`max_iter + 2` passes (one oracle is consumed per pass, so an oracle list of that length is
never exhausted), and it never reaches the `unreachable!()` arm. -/
theorem terminates (cfg : Config α) (z : α) (os : List (PassOracle α))
    (hlen : cfg.maxIter + 2 ≤ os.length) :
    ∃ r, solve cfg z os = .done r ∧ 1 ≤ r.passes ∧ r.passes ≤ cfg.maxIter + 2 := by
  have hb := budget_init cfg z
  obtain ⟨st', h1, h2, h3, _⟩ := loop_done os (initState cfg z) (inv_init cfg z) (by omega)
  refine ⟨finish cfg st', ?_, ?_, ?_⟩
  · unfold solve; rw [h1]
  · show 1 ≤ st'.passes
    have : (initState cfg z).passes = 0 := rfl
    omega
  · show st'.passes ≤ cfg.maxIter + 2
    have : (initState cfg z).passes = 0 := rfl
    omega

/-- non-vacuity of `terminates`: oracle lists of the required length exist for every budget. -/
example (cfg : Config α) (o : PassOracle α) :
    cfg.maxIter + 2 ≤ (List.replicate (cfg.maxIter + 2) o).length := by simp

/-- [S] `C04.no_unreachable`: for every oracle list (of any length) the loop never reaches
`StrategyCheckpoint::Update(_) => unreachable!()`. -/
theorem no_unreachable (cfg : Config α) (z : α) (os : List (PassOracle α)) (site : String) :
    solve cfg z os ≠ .panic site := by
  unfold solve
  have := loop_safe os (initState cfg z) (inv_init cfg z)
  split <;> simp_all

/-- [S] `C04.iter_le_max`: `solution.iterations = info.iterations ≤ max_iter` at exit. -/
theorem iter_le_max {cfg : Config α} {z : α} {os : List (PassOracle α)} {r : Result α}
    (h : solve cfg z os = .done r) : r.iterations ≤ cfg.maxIter := by
  obtain ⟨st, hE, rfl⟩ := exit_of_done h
  show (if (st.alpha == 0) = true then st.info.saveScalars st.mu st.alpha st.sigma st.iter
        else st.info).iterations ≤ cfg.maxIter
  have := hE.iter_le
  split
  · exact this
  · rcases hE.iterations with e | ⟨e, _⟩ <;> omega

/-- [S] `C04.terminal_status`: the status handed to the user is one of the ten terminal
values, never `Unsolved`; and it is the status the footer prints. -/
theorem terminal_status {cfg : Config α} {z : α} {os : List (PassOracle α)} {r : Result α}
    (h : solve cfg z os = .done r) :
    r.status ≠ .Unsolved ∧ r.info.status = r.status
      ∧ r.footerStatus = (if cfg.verbose then some r.status else none) := by
  obtain ⟨st, hE, rfl⟩ := exit_of_done h
  refine ⟨?_, rfl, rfl⟩
  apply postProcess_ne_unsolved
  have := hE.status
  show (if (st.alpha == 0) = true then st.info.saveScalars st.mu st.alpha st.sigma st.iter
        else st.info).status ≠ .Unsolved
  split
  · exact this
  · exact this

/-- [S] `C04.maxtime` (the check): when no verdict is reached from the numbers, the iteration
budget is not used up and the clock reading exceeds `time_limit`, `check_termination` settles
on `MaxTime`. -/
theorem maxtime_check (i : Info α) (d : Dots α) (cfg : Config α) (iter : Nat)
    (hv : verdict i d cfg iter = .Unsolved) (hi : cfg.maxIter ≠ i.iterations)
    (ht : cfg.timeLimit < i.solveTime) : checkTermination i d cfg iter = .MaxTime := by
  unfold checkTermination
  rw [if_pos hv, if_neg hi, if_pos ht]

/-- [S] `C04.maxtime` (the loop): a pass whose check settles on `MaxTime` leaves the loop in
that very pass, with status `MaxTime`, without a further KKT update or step. -/
theorem maxtime (cfg : Config α) (o : PassOracle α) (st : State α)
    (h : (top cfg o st).info.status = .MaxTime) :
    ∃ st', pass cfg o st = .brk st' ∧ st'.info.status = .MaxTime ∧ st'.iter = st.iter
      ∧ st'.vars = st.vars := by
  obtain ⟨st', h1, h2, h3, h4, _⟩ := pass_done_brk (cfg := cfg) (o := o) (st := st)
    (by rw [h]; decide) (by rw [h]; decide)
  exact ⟨st', h1, by rw [h2, h], h3, h4⟩

/-- [S] the iteration limit: once `iterations = max_iter`, `check_termination` does not return
`Unsolved`, whatever the numbers are. -/
theorem maxiter_check (i : Info α) (d : Dots α) (cfg : Config α) (iter : Nat)
    (h : cfg.maxIter = i.iterations) : checkTermination i d cfg iter ≠ .Unsolved :=
  checkTermination_maxIter i d cfg iter h

/-- [S] `post_process` only ever turns an error / limit status into an `Almost*` status (or
leaves it alone); a terminal status stays terminal. -/
theorem post_process_terminal (i : Info α) (d : Dots α) (cfg : Config α)
    (h : i.status ≠ .Unsolved) :
    postProcess i d cfg ≠ .Unsolved ∧
      (postProcess i d cfg = i.status ∨ postProcess i d cfg = .AlmostSolved
        ∨ postProcess i d cfg = .AlmostPrimalInfeasible ∨ postProcess i d cfg = .AlmostDualInfeasible) := by
  refine ⟨postProcess_ne_unsolved i d cfg h, ?_⟩
  unfold postProcess
  split
  · rcases checkConvergence_cases i d cfg.reduced .AlmostSolved .AlmostPrimalInfeasible
      .AlmostDualInfeasible with h1 | h1 | h1 | h1 <;> rw [h1] <;> simp
  · exact Or.inl rfl

/-- [S] `prev_*` / `prev_vars` are never read back before they have been written in the same
solve: `reset_to_prev_iterate` is only executed after a `save_prev_iterate`
(an `InsufficientProgress` verdict of `check_termination` needs `iter > 1`, and two KKT
updates cannot both end in a strategy switch). -/
theorem prev_saved_before_reset (cfg : Config α) (z : α) (os : List (PassOracle α)) :
    match solve cfg z os with
    | .done r => r.staleReset = false
    | .exhausted r => r.staleReset = false
    | .panic _ => False := by
  unfold solve
  have hs := loop_safe os (initState cfg z) (inv_init cfg z)
  cases hl : loop cfg os (initState cfg z) with
  | done st => rw [hl] at hs; exact hs.stale
  | exhausted st => rw [hl] at hs; exact hs.stale
  | panic s => rw [hl] at hs; exact hs

/-- cone methods that are `unreachable!()` for the nonsymmetric cones -/
inductive ConeCall where
  | setIdentityScaling | margins | scaledUnitShift | unitInitialization
  deriving DecidableEq

/-- the cone methods `default_start` invokes (`symmetric_initialization` shifts `s` and `z`
into the cone through `margins` / `scaled_unit_shift`) -/
def defaultStartCalls (symmetric : Bool) : List ConeCall :=
  if symmetric then
    [.setIdentityScaling, .margins, .scaledUnitShift, .margins, .scaledUnitShift]
  else [.unitInitialization]

/-- [S] `C04.no_symmetric_only_call`: `set_identity_scaling`, `margins`, `scaled_unit_shift`
are only invoked when `cones.is_symmetric()`. -/
theorem no_symmetric_only_call (symmetric : Bool) (c : ConeCall)
    (hc : c ∈ defaultStartCalls symmetric) (hne : c ≠ .unitInitialization) : symmetric = true := by
  cases symmetric
  · simp [defaultStartCalls] at hc; exact absurd hc hne
  · rfl

/-- [S] `C04.dimension_guard`: `DefaultSolver::new` gets past `_check_dimensions` exactly when
the five dimension equalities hold. -/
theorem dimension_guard (Pm Pn qlen Am An blen : Nat) (cones : List Nat) :
    checkDimensions Pm Pn qlen Am An blen cones = .ok () ↔
      (blen = Am ∧ cones.foldl (· + ·) 0 = blen ∧ qlen = An ∧ qlen = Pn ∧ Pm = Pn) := by
  unfold checkDimensions
  simp only
  constructor
  · intro h
    split at h
    · cases h
    · split at h
      · cases h
      · split at h
        · cases h
        · split at h
          · cases h
          · split at h
            · cases h
            · simp_all
  · rintro ⟨h1, h2, h3, h4, h5⟩
    subst h1 h3 h5
    subst h4
    simp [h2]
    rfl

/-- [S] `C04.collapse_wf` (corollary of C09's collapse theorems): after `new_collapsed` no cone is
empty, every second-order cone has dimension ≥ 2 (so the `assert!(dim >= 2)` of
`SecondOrderCone::new` cannot fire), every PSD cone has side ≥ 2, and the total number of rows
is preserved (so `assert_eq!(cones.numel, data.m)` in `DefaultSolver::new` holds whenever the
dimension guard passed). -/
theorem collapse_wf {β : Type} (cones : List (ConeT β)) :
    (∀ c ∈ Cones.newCollapsed cones, c.nvars ≠ 0)
      ∧ (∀ n, ConeT.soc n ∈ Cones.newCollapsed cones → 2 ≤ n)
      ∧ (∀ n, ConeT.psd n ∈ Cones.newCollapsed cones → 2 ≤ n)
      ∧ Cones.numel (Cones.newCollapsed cones) = Cones.numel cones :=
  ⟨C09.collapse_no_empty cones, (C09.collapse_soc_dim cones).1, (C09.collapse_soc_dim cones).2,
   C09.collapse_numel cones⟩

/-- non-vacuity: empty cones and singletons are really removed / merged -/
example : Cones.newCollapsed ([.zero 0, .nonneg 2, .soc 1, .soc 0, .psd 1, .soc 3] : List (ConeT Nat))
    = ([.nonneg 4, .soc 3] : List (ConeT Nat)) := by rfl

/-! non-vacuity on a concrete scalar type -/
namespace Examples

instance : FloatLike Int where
  sqrt := id
  exp := id
  log := id
  powf := fun a _ => a
  fmax := max
  fmin := min
  fabs := fun a => a.natAbs
  isNaN := fun _ => false
  isFinite := fun _ => true
  eps := 0
  ofNat := Int.ofNat

def tols : Tols Int := ⟨1, 1, 1, 1, 1, 1⟩
def cfg : Config Int :=
  { maxIter := 3, timeLimit := 5, verbose := true, full := tols, reduced := tols,
    minSwitchStepLength := 0, minTerminateStepLength := 0, symmetric := true, allowsPD := true }
def info : Info Int :=
  { mu := 0, sigma := 0, stepLength := 0, iterations := 1, costPrimal := 0, costDual := 0,
    resPrimal := 7, resDual := 7, resPrimalInf := 0, resDualInf := 0, gapAbs := 9, gapRel := 9,
    ktratio := 1, prevCostPrimal := 0, prevCostDual := 0, prevResPrimal := 0, prevResDual := 0,
    prevGapAbs := 0, prevGapRel := 0, solveTime := 6, status := .Unsolved }

/-- the hypotheses of `maxtime_check` are satisfiable … -/
example : verdict info ⟨0, 0⟩ cfg 1 = .Unsolved ∧ cfg.maxIter ≠ info.iterations
    ∧ cfg.timeLimit < info.solveTime := by decide
/-- … and so is `maxiter_check`'s -/
example : checkTermination { info with iterations := 3 } ⟨0, 0⟩ cfg 3 = .MaxIterations := by decide
/-- `dimension_guard`: a consistent and an inconsistent shape -/
example : checkDimensions 2 2 2 3 2 3 [1, 2] = .ok () := by rfl
example : checkDimensions 2 2 2 3 2 3 [1, 1] ≠ .ok () := by
  rw [Ne, dimension_guard]; decide

end Examples

end Clarabel.C04
