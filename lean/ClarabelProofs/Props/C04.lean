/-
  C04 — every solve terminates cleanly within its limits.

  All theorems are class [S]: they use no arithmetic law of the scalar type `α` and therefore
  hold for `Float` (the instance the correspondence check runs) as well as for any ordered
  field.  They quantify over *all* oracle lists, i.e. over every behaviour of the numerical
  sub-steps (residuals, scaling, KKT solves, step lengths, clock).
  Helper lemmas: `ClarabelProofs/Lemmas/Loop.lean`.
-/
import ClarabelProofs.Lemmas.Loop
import ClarabelProofs.Props.C09
import ClarabelProofs.Props.C04Full
import ClarabelProofs.Props.C04NS
import ClarabelProofs.Props.C04NoPanic
import ClarabelProofs.Lemmas.LoopTimers
import ClarabelProofs.Lemmas.LoopGuards
import ClarabelProofs.Lemmas.SolverModelDegenerate

namespace Clarabel.C04
open Clarabel Clarabel.Loop

set_option linter.unusedSectionVars false

variable {α : Type} [Mul α] [Div α] [Neg α] [OfNat α 0] [OfNat α 1]
  [LT α] [DecidableLT α] [LE α] [DecidableLE α] [BEq α] [FloatLike α]

/-- [S] `C04.terminates`: whatever the numerics answer, `solve()` leaves its loop after at most
`max_iter + 2` passes (one oracle is consumed per pass, so an oracle list of that length is
never exhausted), and it never reaches the `unreachable!()` arm. -/
theorem terminates (cfg : Config α) (z : α) (os : List (PassOracle α))
    (hlen : cfg.maxIter + 2 ≤ os.length) :
    ∃ r, solve cfg z os = .done r ∧ 1 ≤ r.passes ∧ r.passes ≤ cfg.maxIter + 2 := by
  have hb := budget_init cfg z
  obtain ⟨st', h1, h2, h3, _⟩ := loop_done os (initState cfg z) (inv_init cfg z) (by omega)
  refine ⟨finish cfg st', ?_, ?_, ?_⟩
  · unfold solve; rw [h1]
  · show 1 ≤ st'.passes
    have : (initState cfg z).passes = 0 := rfl
    omega
  · show st'.passes ≤ cfg.maxIter + 2
    have : (initState cfg z).passes = 0 := rfl
    omega

/-- non-vacuity of `terminates`: oracle lists of the required length exist for every budget. -/
example (cfg : Config α) (o : PassOracle α) :
    cfg.maxIter + 2 ≤ (List.replicate (cfg.maxIter + 2) o).length := by simp

/-- [S] `C04.no_unreachable`: for every oracle list (of any length) the loop never reaches
`StrategyCheckpoint::Update(_) => unreachable!()`. -/
theorem no_unreachable (cfg : Config α) (z : α) (os : List (PassOracle α)) (site : String) :
    solve cfg z os ≠ .panic site := by
  unfold solve
  have := loop_safe os (initState cfg z) (inv_init cfg z)
  split <;> simp_all

/-- [S] `C04.iter_le_max`: `solution.iterations = info.iterations ≤ max_iter` at exit. -/
theorem iter_le_max {cfg : Config α} {z : α} {os : List (PassOracle α)} {r : Result α}
    (h : solve cfg z os = .done r) : r.iterations ≤ cfg.maxIter := by
  obtain ⟨st, hE, rfl⟩ := exit_of_done h
  show (if (st.alpha == 0) = true then st.info.saveScalars st.mu st.alpha st.sigma st.iter
        else st.info).iterations ≤ cfg.maxIter
  have := hE.iter_le
  split
  · exact this
  · rcases hE.iterations with e | ⟨e, _⟩ <;> omega

/-- [S] `C04.terminal_status`: the status handed to the user is one of the ten terminal
values, never `Unsolved`; and it is the status the footer prints. -/
theorem terminal_status {cfg : Config α} {z : α} {os : List (PassOracle α)} {r : Result α}
    (h : solve cfg z os = .done r) :
    r.status ≠ .Unsolved ∧ r.info.status = r.status
      ∧ r.footerStatus = (if cfg.verbose then some r.status else none) := by
  obtain ⟨st, hE, rfl⟩ := exit_of_done h
  refine ⟨?_, rfl, rfl⟩
  apply postProcess_ne_unsolved
  have := hE.status
  show (if (st.alpha == 0) = true then st.info.saveScalars st.mu st.alpha st.sigma st.iter
        else st.info).status ≠ .Unsolved
  split
  · exact this
  · exact this

/-- [S] `C04.maxtime` (the check): when no verdict is reached from the numbers, the iteration
budget is not used up and the clock reading exceeds `time_limit`, `check_termination` settles
on `MaxTime`. -/
theorem maxtime_check (i : Info α) (d : Dots α) (cfg : Config α) (iter : Nat)
    (hv : verdict i d cfg iter = .Unsolved) (hi : cfg.maxIter ≠ i.iterations)
    (ht : cfg.timeLimit < i.solveTime) : checkTermination i d cfg iter = .MaxTime := by
  unfold checkTermination
  rw [if_pos hv, if_neg hi, if_pos ht]

/-- [S] `C04.maxtime` (the loop): a pass whose check settles on `MaxTime` leaves the loop in
that very pass, with status `MaxTime`, without a further KKT update or step. -/
theorem maxtime (cfg : Config α) (o : PassOracle α) (st : State α)
    (h : (top cfg o st).info.status = .MaxTime) :
    ∃ st', pass cfg o st = .brk st' ∧ st'.info.status = .MaxTime ∧ st'.iter = st.iter
      ∧ st'.vars = st.vars := by
  obtain ⟨st', h1, h2, h3, h4, _⟩ := pass_done_brk (cfg := cfg) (o := o) (st := st)
    (by rw [h]; decide) (by rw [h]; decide)
  exact ⟨st', h1, by rw [h2, h], h3, h4⟩

/-- [S] the iteration limit: once `iterations = max_iter`, `check_termination` does not return
`Unsolved`, whatever the numbers are. -/
theorem maxiter_check (i : Info α) (d : Dots α) (cfg : Config α) (iter : Nat)
    (h : cfg.maxIter = i.iterations) : checkTermination i d cfg iter ≠ .Unsolved :=
  checkTermination_maxIter i d cfg iter h

/-- [S] `post_process` only ever turns an error / limit status into an `Almost*` status (or
leaves it alone); a terminal status stays terminal. -/
theorem post_process_terminal (i : Info α) (d : Dots α) (cfg : Config α)
    (h : i.status ≠ .Unsolved) :
    postProcess i d cfg ≠ .Unsolved ∧
      (postProcess i d cfg = i.status ∨ postProcess i d cfg = .AlmostSolved
        ∨ postProcess i d cfg = .AlmostPrimalInfeasible ∨ postProcess i d cfg = .AlmostDualInfeasible) := by
  refine ⟨postProcess_ne_unsolved i d cfg h, ?_⟩
  unfold postProcess
  split
  · rcases checkConvergence_cases i d cfg.reduced .AlmostSolved .AlmostPrimalInfeasible
      .AlmostDualInfeasible with h1 | h1 | h1 | h1 <;> rw [h1] <;> simp
  · exact Or.inl rfl

/-- [S] `prev_*` / `prev_vars` are never read back before they have been written in the same
solve: `reset_to_prev_iterate` is only executed after a `save_prev_iterate`
(an `InsufficientProgress` verdict of `check_termination` needs `iter > 1`, and two KKT
updates cannot both end in a strategy switch). -/
theorem prev_saved_before_reset (cfg : Config α) (z : α) (os : List (PassOracle α)) :
    match solve cfg z os with
    | .done r => r.staleReset = false
    | .exhausted r => r.staleReset = false
    | .panic _ => False := by
  unfold solve
  have hs := loop_safe os (initState cfg z) (inv_init cfg z)
  cases hl : loop cfg os (initState cfg z) with
  | done st => rw [hl] at hs; exact hs.stale
  | exhausted st => rw [hl] at hs; exact hs.stale
  | panic s => rw [hl] at hs; exact hs

/-- cone methods that are `unreachable!()` for the nonsymmetric cones -/
inductive ConeCall where
  | setIdentityScaling | margins | scaledUnitShift | unitInitialization
  deriving DecidableEq

/-- the cone methods `default_start` invokes (`symmetric_initialization` shifts `s` and `z`
into the cone through `margins` / `scaled_unit_shift`) -/
def defaultStartCalls (symmetric : Bool) : List ConeCall :=
  if symmetric then
    [.setIdentityScaling, .margins, .scaledUnitShift, .margins, .scaledUnitShift]
  else [.unitInitialization]

/-- [S] `C04.no_symmetric_only_call`: `set_identity_scaling`, `margins`, `scaled_unit_shift`
are only invoked when `cones.is_symmetric()`. -/
theorem no_symmetric_only_call (symmetric : Bool) (c : ConeCall)
    (hc : c ∈ defaultStartCalls symmetric) (hne : c ≠ .unitInitialization) : symmetric = true := by
  cases symmetric
  · simp [defaultStartCalls] at hc; exact absurd hc hne
  · rfl

/-- [S] `C04.dimension_guard`: `DefaultSolver::new` gets past `_check_dimensions` exactly when
the five dimension equalities hold. -/
theorem dimension_guard (Pm Pn qlen Am An blen : Nat) (cones : List Nat) :
    checkDimensions Pm Pn qlen Am An blen cones = .ok () ↔
      (blen = Am ∧ cones.foldl (· + ·) 0 = blen ∧ qlen = An ∧ qlen = Pn ∧ Pm = Pn) := by
  unfold checkDimensions
  simp only
  constructor
  · intro h
    split at h
    · cases h
    · split at h
      · cases h
      · split at h
        · cases h
        · split at h
          · cases h
          · split at h
            · cases h
            · simp_all
  · rintro ⟨h1, h2, h3, h4, h5⟩
    subst h1 h3 h5
    subst h4
    simp [h2]
    rfl

/-- [S] `C04.collapse_wf` (corollary of C09's collapse theorems): after `new_collapsed` no cone is
empty, every second-order cone has dimension ≥ 2 (so the `assert!(dim >= 2)` of
`SecondOrderCone::new` cannot fire), every PSD cone has side ≥ 2, and the total number of rows
is preserved (so `assert_eq!(cones.numel, data.m)` in `DefaultSolver::new` holds whenever the
dimension guard passed). -/
theorem collapse_wf {β : Type} (cones : List (ConeT β)) :
    (∀ c ∈ Cones.newCollapsed cones, c.nvars ≠ 0)
      ∧ (∀ n, ConeT.soc n ∈ Cones.newCollapsed cones → 2 ≤ n)
      ∧ (∀ n, ConeT.psd n ∈ Cones.newCollapsed cones → 2 ≤ n)
      ∧ Cones.numel (Cones.newCollapsed cones) = Cones.numel cones :=
  ⟨C09.collapse_no_empty cones, (C09.collapse_soc_dim cones).1, (C09.collapse_soc_dim cones).2,
   C09.collapse_numel cones⟩

/-- non-vacuity: empty cones and singletons are really removed / merged -/
example : Cones.newCollapsed ([.zero 0, .nonneg 2, .soc 1, .soc 0, .psd 1, .soc 3] : List (ConeT Nat))
    = ([.nonneg 4, .soc 3] : List (ConeT Nat)) := by rfl


/-! ## Round 3: the timers (`src/timers/timers.rs`) as a state machine over an abstract clock

Model: `ClarabelModel/Timers.lean`; lemmas: `Lemmas/LoopTimers.lean`.  A clock is any function
`Nat → Path → Nat`: the reading (ns) the timer at a path obtains in the `n`-th call of a run — every
timer reads the clock by itself, in `HashMap` order, so nothing is assumed about readings within one
call.  `co` supplies the readings stored into `start`, `cc` the readings intervals are closed with
(the real code: `co = cc`).  All theorems hold for EVERY pair of clocks unless a hypothesis says
otherwise. -/
section timers
open Clarabel.Timers

/-- [S] `C04.timers_discipline_no_panic`: a call sequence that keeps the stack discipline (no
`stop_current` on an empty stack; `balanced`), started on timers whose running timers are exactly
the ones on the call stack (`Sim`, e.g. fresh or idle timers), never panics — no `unwrap()` on a
missing key, on an empty stack or on a timer that was not started — and the values `total_time()`
returns are those of the root-interval accounting `accRun`: every closed interval of a root timer is
counted exactly once, the windows between `suspend` and `resume` (printing) are not counted, nested
timers contribute nothing. -/
theorem timers_discipline_no_panic (co cc : Clock) (ops : List Op) (n : Nat) {s : Timers.State} {a : Acc}
    (h : Sim s a) (hb : balanced s.stack.length ops = true) :
    ∃ s', Timers.run co cc n ops s = .ok (s', (accRun co cc n ops a).2) ∧ Sim s' (accRun co cc n ops a).1
      ∧ s'.stack.length = depthAfter s.stack.length ops :=
  run_sim co cc ops n h hb

/-- non-vacuity: fresh timers satisfy `Sim`, and the solver's own sequences are `balanced` -/
example : Sim Timers.State.empty ⟨totalTime Timers.State.empty, none, 0⟩ := sim_idle good_empty rfl
example (passes : List PassShape) (x : Bool) : balanced 0 (solveRest passes x) = true :=
  (solveRest_balanced passes x 0).1
example : balanced 0 newOps = true := by rfl

/-- [S] `C04.timers_no_panic`: the timer calls of `DefaultSolver::new` followed by those of any
number of `solve()` calls — whatever the passes of each solve decide (`PassShape`: done / failed
checkpoint / scaling failure / KKT failure), with or without the final status line, for every clock
— never panic, and leave the timers idle (empty stack, nothing running: `Good` with `stack = []`). -/
theorem timers_no_panic (co cc : Clock) (solves : List (List PassShape × Bool)) :
    ∃ s' reads, Timers.run co cc 0 (newOps ++ solves.flatMap fun p => solveOps p.1 p.2) Timers.State.empty
        = .ok (s', reads) ∧ Good s' ∧ s'.stack = [] :=
  new_then_solves_run co cc solves

/-- [S] `C04.timers_solve_accounting`: one `solve()` on idle timers.  No panic; idle afterwards; the
values of `total_time()` that `info.update` reads (one per pass, this is `info.solve_time` as
`check_termination` sees it) and that `info.finalize` reads are exactly the root-interval accounting
of the calls after `reset_timer("solve")`, started at
`B = total_time() − elapsed("solve")` (the setup time, plus the post-processing time of earlier
solves on the same solver — "post-process" is a root timer that `info.reset` does not reset). -/
theorem timers_solve_accounting {s : Timers.State} (h : Good s) (hs : s.stack = []) (co cc : Clock) (n : Nat)
    (passes : List PassShape) (extraLine : Bool) :
    ∃ s', Timers.run co cc n (solveOps passes extraLine) s
        = .ok (s', (accRun co cc (n + 3) (solveRest passes extraLine)
                      ⟨totalTime s - elapsedAt s ["solve"], none, 0⟩).2)
      ∧ Good s' ∧ s'.stack = []
      ∧ totalTime s' = (accRun co cc (n + 3) (solveRest passes extraLine)
                      ⟨totalTime s - elapsedAt s ["solve"], none, 0⟩).1.total :=
  solve_run h hs co cc n passes extraLine

/-- non-vacuity: the timers `new` leaves behind are idle -/
example (co cc : Clock) : ∃ s', Timers.run co cc 0 newOps Timers.State.empty = .ok (s', []) ∧ Good s' ∧ s'.stack = [] :=
  new_run co cc 0

/-- [S] `C04.timers_solve_time_monotone`: the `solve_time` values a solve sees are non-decreasing
from pass to pass, none is below `B`, none exceeds the final `solve_time` — for every clock (a clock
that goes back only makes an interval count as zero, as `Instant::elapsed` does). -/
theorem timers_solve_time_monotone (co cc : Clock) (n : Nat) (passes : List PassShape) (extraLine : Bool)
    (B : Nat) :
    let r := accRun co cc n (solveRest passes extraLine) ⟨B, none, 0⟩
    r.2.Pairwise (· ≤ ·) ∧ (∀ t ∈ r.2, B ≤ t ∧ t ≤ r.1.total) :=
  let h := accRun_mono co cc (solveRest passes extraLine) n ⟨B, none, 0⟩
  ⟨h.2.2, h.2.1⟩

/-- [S] `C04.timers_pass_accounting` (each closed interval exactly once, printing excluded): in the
loop ("solve" is the running root timer, its open interval began at `t0`), a pass whose calls are
numbered from `n` reads the total `T`, then adds exactly the interval `[t0, suspend]` closed by the
`notimeit!` around `print_status` (call `n + 1`), reopens at the `resume` (call `n + 2`), and adds
nothing else: the timed stages `scale cones` / `kkt update` / `kkt solve` are nested timers.  Only
the extra status line of a failed insufficient-progress checkpoint adds one more interval
(`[resume, second suspend]`). -/
theorem timers_pass_accounting (co cc : Clock) (n : Nat) (p : PassShape) (T t0 : Nat) :
    accRun co cc n (passOps p) ⟨T, some ("solve", t0), 2⟩ =
      (⟨T + (cc (n + 1) ["solve"] - t0)
          + (if p.done && p.failLine then cc (n + 3) ["solve"] - co (n + 2) ["solve"] else 0),
        some ("solve", if p.done && p.failLine then co (n + 4) ["solve"] else co (n + 2) ["solve"]), 2⟩,
       [T]) :=
  accRun_passOps co cc n p T t0

/-- [S] `C04.timers_interval_exact` (hypothesis: the clock does not go back, `Mono`): the reading in
`start` of the running root timer was taken in an earlier call, so the interval a `suspend` adds is
the true difference `now − start`; the truncated subtraction of the accounting never truncates. -/
theorem timers_interval_exact (cl : Clock) (hm : Mono cl) (n : Nat) (a : Acc) (h : RootEarlier cl n a)
    (k : String) (t : Nat) (hk : a.root = some (k, t)) :
    t ≤ cl n [k] ∧ (accStep (cl n) (cl n) .suspend a).total + t = a.total + cl n [k] :=
  acc_interval_exact cl hm n a h k t hk

/-- `RootEarlier` is an invariant of the accounting (and holds trivially when no root timer runs) -/
example (cl : Clock) (n : Nat) (op : Op) (a : Acc) (h : RootEarlier cl n a) :
    RootEarlier cl (n + 1) (accStep (cl n) (cl n) op a) := rootEarlier_step cl n op a h
example (cl : Clock) (n T : Nat) : RootEarlier cl n ⟨T, none, 0⟩ := fun _ _ h => nomatch h
/-- a monotone clock exists -/
example : Mono (fun n _ => n) := fun _ _ _ _ h => Nat.le_of_lt h

end timers


/-- [S] `C04.timers_driver_faithful`: the executable driver of the timer model (`runUntil`, which
tabulates `cell` after every call to stay linear-time) returns, on well-formed timers, exactly what
`Timers.run` returns, and reports a panic exactly when `run` does — the correspondence channels
`timers.script` / `timers.solve` therefore compare the code with the model the theorems are about. -/
theorem timers_driver_faithful (co cc : Timers.Clock) (ops : List Timers.Op) (n : Nat) (s : Timers.State)
    (rs : List Nat) (h : Timers.WF s) :
    match Timers.run co cc n ops s with
    | .ok r => Timers.runUntil co cc n ops s rs = (none, r.1, rs ++ r.2)
    | .error _ => ∃ k s'' rs', Timers.runUntil co cc n ops s rs = (some k, s'', rs') :=
  Timers.runUntil_spec co cc ops n s rs h

/-- fresh timers are well-formed -/
example : Timers.WF Timers.State.empty := Timers.wf_empty

section degenerate
open Clarabel.Solver.Example
attribute [local instance] intFloatLike

/-- [S] `C04.degenerate_shapes_return`: on the composed model of `DefaultSolver::new` + `solve()`
(kernel-evaluated at `Int`), every degenerate shape of the property's quantifier is accepted by
construction and solved to a terminal status without `.panic`: no constraints with an empty cone
list; only cones of dimension zero; empty cones between real ones together with a
`SecondOrderConeT(1)` singleton; duplicate inequality rows; duplicate equality rows; a variable with
a zero column in `A` and `P`; no variables at all (`n = 0`), also with `max_iter = 0`.
(`(passes, status, iterations)` of each run.) -/
theorem degenerate_shapes_return :
    summary (runOn P1 #[1] A0 #[] [] 3 #[0]) = some (4, .maxIterations, 3)
    ∧ summary (runOn P1 #[1] A0 #[] [.zero 0, .nonneg 0, .soc 0] 3 #[0]) = some (4, .maxIterations, 3)
    ∧ summary (runOn P1 #[1] A2 #[1, 1] [.zero 0, .nonneg 1, .soc 0, .soc 1, .nonneg 0] 3 #[0, 1, 2])
        = some (2, .solved, 1)
    ∧ summary (runOn P1 #[1] A2 #[1, 1] [.nonneg 2] 3 #[0, 1, 2]) = some (2, .solved, 1)
    ∧ summary (runOn P1 #[1] A2 #[1, 1] [.zero 2] 3 #[0, 1, 2]) = some (4, .maxIterations, 3)
    ∧ summary (runOn P2z #[1, 0] A12z #[1] [.nonneg 1] 3 #[0, 1, 2]) = some (1, .solved, 0)
    ∧ summary (runOn P0 #[] A10 #[1] [.nonneg 1] 3 #[0]) = some (2, .solved, 1)
    ∧ summary (runOn P0 #[] A10 #[1] [.nonneg 1] 0 #[0]) = some (1, .maxIterations, 0) :=
  ⟨deg_m0, deg_m0_empty_cones, deg_dim0_soc1, deg_duplicate_rows_nn, deg_duplicate_rows_eq,
   deg_zero_column, deg_n0, deg_n0_maxiter0⟩

end degenerate

/-- the `info` block `check_termination` looks at in a pass: `save_scalars` and `info.update`
applied to the oracle's numbers (`Loop.top` before the status is settled) -/
def topInfo (o : PassOracle α) (st : State α) : Info α :=
  { (st.info.saveScalars o.mu st.alpha st.sigma st.iter) with
    costPrimal := o.costPrimal, costDual := o.costDual, resPrimal := o.resPrimal,
    resDual := o.resDual, resPrimalInf := o.resPrimalInf, resDualInf := o.resDualInf,
    gapAbs := o.gapAbs, gapRel := o.gapRel, ktratio := o.ktratio, solveTime := o.solveTime }

/-- [S] `C04.maxtime_from_timers` ("once `time_limit` is exceeded the next `check_termination`
returns `MaxTime` unless another verdict is reached first"): let `T` be the value `total_time()` of
the timers at the `read` of a pass (by `timers_solve_accounting` / `timers_pass_accounting`: `B` plus
every interval of "solve" closed so far — i.e. the wall clock at the previous pass's status line,
minus printing), and `conv` the conversion `Duration::as_secs_f64` (any function).  If `info.update`
stored `conv T`, this exceeds `time_limit`, no verdict is reached from the numbers and the iteration
budget is not used up, then this pass's `check_termination` settles on `MaxTime` and the loop is left
in this very pass without a further KKT update or step. -/
theorem maxtime_from_timers (cfg : Config α) (o : PassOracle α) (st : State α) (conv : Nat → α) (T : Nat)
    (hT : o.solveTime = conv T) (hlim : cfg.timeLimit < conv T)
    (hv : verdict (topInfo o st) ⟨o.dotBz, o.dotQx⟩ cfg st.iter = .Unsolved)
    (hi : cfg.maxIter ≠ st.iter) :
    ∃ st', pass cfg o st = .brk st' ∧ st'.info.status = .MaxTime ∧ st'.iter = st.iter
      ∧ st'.vars = st.vars := by
  apply maxtime cfg o st
  show checkTermination (topInfo o st) ⟨o.dotBz, o.dotQx⟩ cfg st.iter = .MaxTime
  apply maxtime_check _ _ _ _ hv hi
  show cfg.timeLimit < o.solveTime
  rw [hT]; exact hlim

/-! ## Round 3: the construction guards of `DefaultSolver::new`

Model: `ClarabelModel/NewGuards.lean`; lemmas: `Lemmas/LoopGuards.lean`. -/
section guards
open Clarabel.NewGuards
variable {β : Type} [Add β] [Sub β] [Mul β] [Div β] [OfNat β 0] [OfNat β 1] [OfScientific β]
  [LT β] [DecidableLT β] [FloatLike β]

/-- [S] `C04.new_guards_ok_iff` ("inconsistent dimensions are rejected at construction"):
`DefaultSolver::new` gets past every documented panic exactly when the five dimension equalities
hold and every generalized power cone that owns rows passes the two assertions of
`GenPowerConeData::new` (all exponents positive, `|1 − Σα| < ε·len/2`).  Nothing else is checked:
in particular `PowerConeT(α)` is accepted for every `α` (no assertion in `PowerCone::new`), cones of
dimension zero and `SecondOrderConeT(0|1)` are accepted (they are removed / turned into nonnegative
cones by `new_collapsed`), `n = 0` and `m = 0` are accepted. -/
theorem new_guards_ok_iff (Pm Pn qlen Am An blen : Nat) (cones : List (ConeT β)) :
    newGuards Pm Pn qlen Am An blen cones = .ok () ↔
      (blen = Am ∧ (cones.map ConeT.nvars).foldl (· + ·) 0 = blen ∧ qlen = An ∧ qlen = Pn ∧ Pm = Pn)
      ∧ ∀ al d, ConeT.genpow al d ∈ cones → al.size + d ≠ 0 → ∃ ψ, GenPow.new al = .ok ψ :=
  newGuards_ok_iff Pm Pn qlen Am An blen cones

/-- [S] `C04.new_guards_error_list`: the exact list of construction panics and their order: the
first violated dimension equality (A/b, cones, A/q, P/q, P square), otherwise — the dimensions being
consistent — one of the two assertions of `GenPowerConeData::new`, for the first cone of the collapsed
list that violates one.  The `assert!(dim >= 2)` of `SecondOrderCone::new` is not reachable. -/
theorem new_guards_error_list (Pm Pn qlen Am An blen : Nat) (cones : List (ConeT β)) (e : ModelErr)
    (h : newGuards Pm Pn qlen Am An blen cones = .error e) :
    Loop.checkDimensions Pm Pn qlen Am An blen (cones.map ConeT.nvars) = .error e
    ∨ (Loop.checkDimensions Pm Pn qlen Am An blen (cones.map ConeT.nvars) = .ok ()
        ∧ (e = .panic "assert: powers > 0" ∨ e = .panic "assert: powers sum to 1")
        ∧ ∃ pre al d post, Cones.newCollapsed cones = pre ++ ConeT.genpow al d :: post
            ∧ (∀ c ∈ pre, coneGuard c = .ok ()) ∧ GenPow.new al = .error e
            ∧ ConeT.genpow al d ∈ cones ∧ al.size + d ≠ 0) :=
  newGuards_error Pm Pn qlen Am An blen cones e h

/-- [S] the five dimension panics, each with the exact condition under which it is the one raised -/
theorem dimension_guard_error_list (Pm Pn qlen Am An blen : Nat) (ns : List Nat) (e : ModelErr)
    (h : checkDimensions Pm Pn qlen Am An blen ns = .error e) :
    (e = .panic "assert:A-and-b-incompatible-dimensions" ∧ blen ≠ Am)
    ∨ (e = .panic "assert:constraint-dimensions-inconsistent-with-size-of-cones" ∧ blen = Am
        ∧ ns.foldl (· + ·) 0 ≠ blen)
    ∨ (e = .panic "assert:A-and-q-incompatible-dimensions" ∧ blen = Am ∧ ns.foldl (· + ·) 0 = blen
        ∧ qlen ≠ An)
    ∨ (e = .panic "assert:P-and-q-incompatible-dimensions" ∧ blen = Am ∧ ns.foldl (· + ·) 0 = blen
        ∧ qlen = An ∧ qlen ≠ Pn)
    ∨ (e = .panic "assert:P-not-square" ∧ blen = Am ∧ ns.foldl (· + ·) 0 = blen ∧ qlen = An
        ∧ qlen = Pn ∧ Pm ≠ Pn) :=
  checkDimensions_error Pm Pn qlen Am An blen ns e h

/-- [S] presolve neither removes nor creates a generalized power cone (so the cone guards can be
stated on the collapsed list, before presolve) -/
theorem presolve_keeps_genpow (al : Array β) (d : Nat) (cs : List (ConeT β)) (keep : List Bool) :
    ConeT.genpow al d ∈ Presolve.reduceConesWith keep cs ↔ ConeT.genpow al d ∈ cs :=
  mem_reduceConesWith_genpow al d cs keep

end guards

section guards_full
open Clarabel.Solver Clarabel.NewGuards
variable {β : Type} [Add β] [Sub β] [Mul β] [Div β] [Neg β] [OfNat β 0] [OfNat β 1] [OfNat β 2]
  [OfNat β 100] [OfNat β 1000] [LT β] [DecidableLT β] [LE β] [DecidableLE β] [BEq β] [FloatLike β]

/-- [S] `C04.new_runs_no_stage_before_guards`: on the composed model of `DefaultSolver::new` (the
one tied bit for bit to the code), a failing dimension guard IS the result — presolve,
equilibration, KKT assembly and factorisation are not evaluated — and a solver object exists only
if the guard passed. -/
theorem new_runs_no_stage_before_guards (P : Csc β) (q : Array β) (A : Csc β) (b : Array β)
    (cones : List (ConeT β)) (st : Settings β) (perm : Array Nat) :
    (∀ e, checkDimensions P.m P.n q.size A.m A.n b.size (cones.map ConeT.nvars) = .error e →
        Solver.new P q A b cones st perm = .error e)
    ∧ (∀ S, Solver.new P q A b cones st perm = .ok S →
        checkDimensions P.m P.n q.size A.m A.n b.size (cones.map ConeT.nvars) = .ok ()
          ∧ ∃ S0, SolverSt.new P q A b cones st perm = .ok S0 ∧ S.st = S0) :=
  ⟨fun e h => solverNew_of_checkDimensions_error P q A b cones st perm e h,
   fun _ h => checkDimensions_of_solverNew h⟩

end guards_full

/-! non-vacuity on a concrete scalar type -/
namespace Examples

instance : FloatLike Int where
  sqrt := id
  exp := id
  log := id
  powf := fun a _ => a
  fmax := max
  fmin := min
  fabs := fun a => a.natAbs
  isNaN := fun _ => false
  isFinite := fun _ => true
  eps := 0
  ofNat := Int.ofNat

def tols : Tols Int := ⟨1, 1, 1, 1, 1, 1⟩
def cfg : Config Int :=
  { maxIter := 3, timeLimit := 5, verbose := true, full := tols, reduced := tols,
    minSwitchStepLength := 0, minTerminateStepLength := 0, symmetric := true, allowsPD := true }
def info : Info Int :=
  { mu := 0, sigma := 0, stepLength := 0, iterations := 1, costPrimal := 0, costDual := 0,
    resPrimal := 7, resDual := 7, resPrimalInf := 0, resDualInf := 0, gapAbs := 9, gapRel := 9,
    ktratio := 1, prevCostPrimal := 0, prevCostDual := 0, prevResPrimal := 0, prevResDual := 0,
    prevGapAbs := 0, prevGapRel := 0, solveTime := 6, status := .Unsolved }

/-- the hypotheses of `maxtime_check` are satisfiable … -/
example : verdict info ⟨0, 0⟩ cfg 1 = .Unsolved ∧ cfg.maxIter ≠ info.iterations
    ∧ cfg.timeLimit < info.solveTime := by decide
/-- … and so is `maxiter_check`'s -/
example : checkTermination { info with iterations := 3 } ⟨0, 0⟩ cfg 3 = .MaxIterations := by decide
/-- `dimension_guard`: a consistent and an inconsistent shape -/
example : checkDimensions 2 2 2 3 2 3 [1, 2] = .ok () := by rfl
example : checkDimensions 2 2 2 3 2 3 [1, 1] ≠ .ok () := by
  rw [Ne, dimension_guard]; decide

instance : OfScientific Int := ⟨fun m _ _ => m⟩
section guard_examples
open Clarabel.NewGuards
/-- non-vacuity / degenerate shapes, decided by evaluation: no constraints and no cones (`m = 0`),
no variables (`n = 0`), cones of dimension zero, `SecondOrderConeT(0)` / `(1)`; and the panics -/
example : newGuards 2 2 2 0 2 0 ([] : List (ConeT Int)) = .ok () := by rfl
example : newGuards 0 0 0 1 0 1 ([.nonneg 1] : List (ConeT Int)) = .ok () := by rfl
example : newGuards 0 0 0 0 0 0 ([] : List (ConeT Int)) = .ok () := by rfl
example : newGuards 1 1 1 1 1 1 ([.zero 0, .soc 0, .psd 0, .soc 1, .nonneg 0] : List (ConeT Int)) = .ok () := by rfl
example : newGuards 1 1 1 2 1 1 ([.nonneg 1] : List (ConeT Int)) = .error (.panic "assert:A-and-b-incompatible-dimensions") := by rfl
example : newGuards 1 1 1 2 1 2 ([.nonneg 1] : List (ConeT Int))
    = .error (.panic "assert:constraint-dimensions-inconsistent-with-size-of-cones") := by rfl
example : newGuards 1 2 1 1 1 1 ([.nonneg 1] : List (ConeT Int)) = .error (.panic "assert:P-and-q-incompatible-dimensions") := by rfl
example : newGuards 2 1 1 1 1 1 ([.nonneg 1] : List (ConeT Int)) = .error (.panic "assert:P-not-square") := by rfl

/-- the two generalized-power-cone panics (at `Int`, `ε = 0`: the sum test always fails), reported
for the first offending cone; a generalized power cone without rows is never constructed -/
example : newGuards 1 1 1 3 1 3 ([.genpow #[1, 0] 1] : List (ConeT Int)) = .error (.panic "assert: powers > 0") := by rfl
example : newGuards 1 1 1 5 1 5 ([.nonneg 2, .genpow #[1, 1] 1] : List (ConeT Int))
    = .error (.panic "assert: powers sum to 1") := by rfl
example : newGuards 1 1 1 2 1 2 ([.genpow #[] 0, .nonneg 2] : List (ConeT Int)) = .ok () := by rfl
end guard_examples

end Examples

end Clarabel.C04
