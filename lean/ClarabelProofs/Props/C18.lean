/-
  C18 — chordal decomposition and its reversal preserve the problem and its solution.

  Property theorems about the model in `ClarabelModel/Chordal/{AugStd,Reverse,AugCompact,
  AugCompactFull,PsdCompletion,InfoAccessors}`.
  Proofs and helper lemmas: `ClarabelProofs/Lemmas/Chordal{Decomp,StdBlocks,ValidTree,Compact*,
  ReverseCompact*,Completion*,FromAnalysis,Roundtrip,ForestFlow,SepNonempty,InfoAccessors}.lean`.
  Classes: [S] structural (holds of the f64 code as it runs), [F] exact in any ring/field.

  Carried by theorems:
  * standard form: the structure of `H` (one clique block = the packed upper triangle of the
    clique, distinct rows inside a block, in range; globally `HI` = concatenation over the cones of
    identity ranges / clique triangles, new cone list = zero cone of size `m` followed by the
    original list with each decomposed PSD cone replaced by its clique cones; no panic on
    well-formed patterns), `A_new = [A H; 0 -I]` column by column and the zero padding of
    `P, q, b`, the feasibility equivalence of the augmented equalities with `s = Σ_K E_Kᵀ S_K E_K`
    read off cone by cone, `reverse_standard` = sum of the clique blocks for `s` and block average
    for `z` (also in block form), lengths `(n, m)`;
  * compact form, for a clique tree satisfying the validity predicate `ValidPattern` (the
    predicate of C17's oracle): `get_block_indices` = column-major triangle of the sorted clique
    with overlap flags; every entry of a clique block is a non-overlap entry of exactly one clique;
    `find_compact_A_b_and_cones` does not panic, places every stored entry of the PSD rows of `A`
    and of `b` in the row of its owner clique, shifts the rows of other cones by the right offset,
    emits one `(+1, -1)` column per overlap entry tying the child's row to the parent's row of the
    same matrix entry, leaves no index at `usize::MAX`, new rows unique / injective / `< dim`, new
    cone list and `cone_maps`; assembly of `A_new`, `b_new` (`new_from_triplets`, scatter);
    the two slots of an overlap column belong to one overlap entry; `compact_equiv` (ring):
    a point satisfying the compact equalities satisfies the original ones with
    `S = Σ_K E_Kᵀ S_K E_K` (the overlap variables cancel); `decomp_reverse_compact` on the cone
    list / cone maps of the transformation returns lengths `m`, `s` = that sum (it IS the `S` of
    `compact_equiv`), `z` = the entry of the last visited clique containing the matrix entry (last
    writer wins; the common value on consistent blocks);
  * PSD completion: the index-level model writes only positions outside every clique block (in
    range, covering the whole complement), hence the data-level model (LAPACK / BLAS results as an
    explicit parameter) returns a matrix that agrees with the input on every clique block;
  * the data flow of `DefaultProblemData::new`;
  * equivalence of the compact problem with the original one: `compact_equiv` (⇒) and
    `compact_equiv_converse` (⇐: for every solution of the original equalities with
    `S = Σ_K E_Kᵀ S_K E_K` overlap variables exist that make the compact equalities hold — flow on
    the clique forest, `forest_flow`), `compact_b` (`b_new[NewRow r] = b[r]`), `compact_objective`
    (`decomp_augment_compact`: zero cost for the overlap variables, same objective),
    `compact_roundtrip` / `standard_roundtrip` (a solution of the transformed equalities, mapped
    back by `decomp_reverse_*` on the cone list / maps of the transformation, solves the original
    equalities, original lengths);
  * the hypotheses are C17's conclusions: `valid_pattern_of_clique_tree` (`ValidCliqueTree` with
    more than one clique ⇒ `ValidPattern`, `StdPatternOK`, coverage), `decomposition_of_analysis_*`
    and `decomposition_of_analysis` (output of `SparsityPattern::new`, ALL THREE merge strategies
    `none` / `parent_child` / `clique_graph`), `hypotheses_of_analysis` (`StdOK`, `ValidInfo`),
    `compact_hyp_of_analysis` (`CompactHyp`), and the end-to-end statements `standard_of_analysis`,
    `compact_of_analysis` (patterns from the analysis + well-formed data ⇒ no panic, equivalence,
    round trip);
  * the completion recurrence: `completion_step_values`, `completion_recurrence` (IF the LAPACK /
    BLAS step returns `Wηα · Y` with `Y` satisfying its contract THEN `Wην = Wηα Y = (Wνη)ᵀ` holds on
    the completed matrix for every clique);
  * no clique below the root has an empty separator in a tree produced by the analysis (all three
    strategies; `analysis_separator_nonempty`, `completion_separator_nonempty`: connectivity of the
    filled pattern — `connect_graph` — + coverage + running intersection), so `psd_complete` never
    hands a `0 × 0` block to LAPACK; `empty_separator_only_if_disconnected` shows what validity
    alone permits;
  * the accessors and helpers of `chordal_info.rs` / `decomp/*.rs` that the older model inlines or
    leaves out (`ClarabelModel/Chordal/InfoAccessors.lean`, section "accessors and helpers" below):
    the cone counters and the four numbers of the chordal block of the configuration header,
    `largest_nblk`, `find_A_dimension`, `find_H_col_dimension`, `alternating_sequence`,
    `extra_columns`, `get_rows_mat`, `decompose_with_cone`, `number_of_overlaps_in_rows`,
    `find_aggregate_sparsity_mask`, `find_sparsity_patterns`, `ChordalInfo::new`.

  NOT carried by a theorem (checked on every run by the correspondence with the model and
  by the oracles of `harness/src/bin/c18.rs`): that the completion
  formula yields a positive semidefinite matrix is the Grone–Johnson–Sá–Wolkowicz theorem, which is
  ASSUMED (cited), not proved here, and the numerical contracts of LAPACK's Cholesky / SVD solve
  are hypotheses; the cone membership part of the equivalence (`S_K ⪰ 0` for all `K` ⇔ `S` has a
  PSD completion — Agler's theorem) and the end-to-end clause "same verdict and objective with
  decomposition on / off" (oracle `e2e`).
-/
import ClarabelModel.Chordal.AugCompact
import ClarabelProofs.Lemmas.ChordalDecomp
import ClarabelProofs.Lemmas.ChordalStdBlocks
import ClarabelProofs.Lemmas.ChordalCompactExample
import ClarabelProofs.Lemmas.ChordalReverseCompactAll
import ClarabelProofs.Lemmas.ChordalCompactBridge
import ClarabelProofs.Lemmas.ChordalCompletion
import ClarabelProofs.Lemmas.ChordalFromAnalysis
import ClarabelProofs.Lemmas.ChordalRoundtrip
import ClarabelProofs.Lemmas.ChordalCompactConverse
import ClarabelProofs.Lemmas.ChordalCompletionRecurrence
import ClarabelProofs.Lemmas.ChordalSepNonempty
import ClarabelProofs.Lemmas.ChordalInfoAccessors

namespace Clarabel.C18
open Clarabel Clarabel.Chordal Clarabel.Chordal.ChordalInfo

variable {α : Type}

/-! ## `H` of the standard decomposition -/

/-- [S] `H_structure` (one clique block): `add_subblock_map` appends, column by column, the
packed upper-triangle positions `(c[i], c[j])`, `i ≤ j`, of the clique `c` — so column
`(k,i,j)` of `H` has its single `1` in the row of the original entry `(cₖ[i], cₖ[j])`;
for a sorted clique with vertices `< d` these rows lie inside the cone's `triangularNumber d`
rows and are pairwise distinct (a clique block never hits an original entry twice). -/
theorem H_structure (HI v : Array Nat) (rowStart d : Nat)
    (hv : ∀ i j, i < j → j < v.size → v.getD i 0 < v.getD j 0)
    (hd : ∀ i, i < v.size → v.getD i 0 < d) :
    addSubblockMap HI v rowStart = HI ++ (subblockEntries v rowStart).toArray ∧
    (addSubblockMap HI v rowStart).size = HI.size + triangularNumber v.size ∧
    (∀ e ∈ subblockEntries v rowStart, rowStart ≤ e ∧ e < rowStart + triangularNumber d) ∧
    (subblockEntries v rowStart).Nodup := by
  refine ⟨add_subblock_map_spec HI v rowStart, add_subblock_map_size HI v rowStart, ?_,
    add_subblock_map_injective v rowStart hv⟩
  apply add_subblock_map_range v rowStart d hd
  intro i j hij hj
  rcases Nat.lt_or_eq_of_le hij with h | h
  · exact Nat.le_of_lt (hv i j h hj)
  · subst h; exact Nat.le_refl _

example : addSubblockMap #[] #[1, 3] 10 = #[10 + 2, 10 + 7, 10 + 9] := by rfl

/-- [S] the vertices of clique `i` are exactly those of its supernode and separator. -/
theorem H_clique (t : SuperNodeTree) (i : Nat) (c : VSet) (h : t.getClique i = .ok c) :
    ∃ p s1 s2, t.snodePost[i]? = some p ∧ t.snode[p]? = some s1 ∧ t.separators[p]? = some s2 ∧
      ∀ v, v ∈ c.toList ↔ v ∈ s1.toList ∨ v ∈ s2.toList :=
  get_clique_spec t i c h

/-! ## the augmented problem of the standard form -/

/-- [S] `standard_A`: `decomp_augment_standard` returns `A_new = [A H; 0 -I]` column by
column, `b_new = (b, 0)`, `q_new = (q, 0)`. -/
theorem standard_A [OfNat α 0] [OfNat α 1] [Neg α] (ci : ChordalInfo)
    (P : Csc α) (q : Array α) (A : Csc α) (b : Array α)
    (Pn : Csc α) (qn : Array α) (An : Csc α) (bn : Array α) (cones : Array Cone) (h : StdH)
    (hok : decompAugmentStandard ci P q A b = .ok (Pn, qn, An, bn, cones, h))
    (hcp : A.colptr.size = A.n + 1)
    (hmono : ∀ j, j ≤ A.n → A.colptr.getD j 0 ≤ A.colptr.getD A.n 0)
    (hrv : A.colptr.getD A.n 0 ≤ A.rowval.size) (hnz : A.colptr.getD A.n 0 ≤ A.nzval.size) :
    An.m = A.m + h.lenH ∧ An.n = A.n + h.lenH ∧
    (∀ j, j < A.n → An.col j = A.col j) ∧
    (∀ j, j < h.lenH → An.col (A.n + j) = [(h.HI.getD j 0, 1), (A.m + j, -1)]) ∧
    bn = b ++ Array.replicate h.lenH 0 ∧ qn = q ++ Array.replicate h.lenH 0 :=
  std_A_structure ci P q A b Pn qn An bn cones h hok hcp hmono hrv hnz

/-- [S] `standard_P`: `P_new` is `P` followed by `lenH` empty columns (zero padding), so
the quadratic part of the objective does not see the new variables. -/
theorem standard_P [OfNat α 0] [OfNat α 1] [Neg α] (ci : ChordalInfo)
    (P : Csc α) (q : Array α) (A : Csc α) (b : Array α)
    (Pn : Csc α) (qn : Array α) (An : Csc α) (bn : Array α) (cones : Array Cone) (h : StdH)
    (hok : decompAugmentStandard ci P q A b = .ok (Pn, qn, An, bn, cones, h))
    (hcp : P.colptr.size = P.n + 1) :
    Pn.m = P.m + h.lenH ∧ Pn.n = P.n + h.lenH ∧
    (∀ j, j < P.n → Pn.col j = P.col j) ∧
    (∀ j, j < h.lenH → Pn.col (P.n + j) = []) :=
  std_P_structure ci P q A b Pn qn An bn cones h hok hcp

/-- [F] `standard_equiv`: with `s := H s̃` computed by the model's `hGemv`, the point
`(x, y, s₀ = 0, s̃)` satisfies the augmented equalities `[A H; 0 -I](x,y) + (s₀, s̃) = (b, 0)`
iff `y = s̃` and `(x, s)` satisfies the original equalities `A x + s = b`
(`ax` stands for the vector `A x`). -/
theorem standard_equiv [Ring α] (h : StdH) (m : Nat) (st : Array α) (ax b y : Nat → α)
    (hlen : h.HI.size = h.lenH) (hHI : ∀ j, j < h.HI.size → h.HI.getD j 0 < m)
    (hst : st.size = h.lenH) :
    ∃ s, hGemv m h.HI st = .ok s ∧ s.size = m ∧
      (((∀ r, r < m → ax r + hSel (fun j => h.HI.getD j 0) h.lenH y r + 0 = b r) ∧
          (∀ j, j < h.lenH → - y j + st.getD j 0 = 0)) ↔
       ((∀ j, j < h.lenH → y j = st.getD j 0) ∧ (∀ r, r < m → ax r + s.getD r 0 = b r))) :=
  standard_equiv_model h m st ax b y hlen hHI hst

/-- [F] the linear part of the objective is unchanged: `⟨(q,0), (x,y)⟩ = ⟨q, x⟩`. -/
theorem standard_objective [Semiring α] (q x y : Array α) (k : Nat) (hx : x.size = q.size) :
    Vec.dot (q ++ Array.replicate k 0) (x ++ y) = Vec.dot q x :=
  dot_pad_zeros q x y k hx

example : ∃ s, hGemv (α := Int) 2 #[0, 1, 0] #[5, 6, 7] = .ok s ∧ s = #[12, 6] := ⟨_, rfl, rfl⟩

/-! ## reversal of the standard form -/

/-- [S] `reverse_standard`: no panic, lengths `m`, and entry `r` of the returned slack is the
left-to-right sum of the entries of `s̃` whose column of `H` has its `1` in row `r` (the sum
of the clique blocks); the returned dual is the same sum of `z̃` divided by the number of
blocks overlapping in `r` when that number exceeds one. -/
theorem reverse_standard [Add α] [Mul α] [Div α] [OfNat α 0] [OfNat α 1] [LT α]
    [DecidableLT α] (h : StdH) (m : Nat) (oldS oldZ : Array α)
    (hlen : h.HI.size = h.lenH) (hHI : ∀ j, j < h.HI.size → h.HI.getD j 0 < m)
    (hrows : h.rows = m) (hS : oldS.size = m + h.lenH) (hZ : oldZ.size = m + h.lenH) :
    ∃ s z : Array α, decompReverseStandard h m oldS oldZ = .ok (s, z) ∧
      s.size = m ∧ z.size = m ∧
      ∀ r, r < m →
        s.getD r 0 = (List.range h.HI.size).foldl (fun acc j =>
          if h.HI.getD j 0 = r then acc + 1 * oldS.getD (m + j) 0 else acc) 0 ∧
        z.getD r 0 =
          (let t : α := (List.range h.HI.size).foldl (fun acc j =>
            if h.HI.getD j 0 = r then acc + 1 * oldZ.getD (m + j) 0 else acc) 0
           let c : α := (List.range h.HI.size).foldl (fun acc j =>
            if h.HI.getD j 0 = r then acc + 1 else acc) 0
           if (1 : α) < c then t / c else t) :=
  decomp_reverse_standard_rows h m oldS oldZ hlen hHI hrows hS hZ

/-- [F] over a semiring the fold is the sum: `(H s̃)[r] = Σ_{j : HI[j] = r} s̃[j]`. -/
theorem reverse_standard_sum [Semiring α] (rows : Nat) (HI : Array Nat)
    (x : Array α) (hx : x.size = HI.size) (hHI : ∀ j, j < HI.size → HI.getD j 0 < rows) :
    ∃ y, hGemv rows HI x = .ok y ∧ y.size = rows ∧
      ∀ r, r < rows → y.getD r 0 =
        (((List.range HI.size).filter (fun j => decide (HI.getD j 0 = r))).map
          (fun j => x.getD j 0)).sum :=
  h_gemv_sum rows HI x hx hHI

/-! ## data flow of `DefaultProblemData::new` -/

/-- [S] `presolve_order`: in `DefaultProblemData::new` the chordal analysis and the
augmentation are handed the same (presolved) constraint data, whatever the three stages
compute. -/
theorem presolve_order {α ι : Type} (presolve : ProbData α → Option (ProbData α))
    (analyse : ProbData α → Option ι) (augment : ι → ProbData α → ProbData α) (d : ProbData α)
    (seen : ProbData α × ProbData α)
    (h : (problemDataNew presolve analyse augment d).2 = some seen) : seen.1 = seen.2 := by
  unfold problemDataNew at h
  cases ha : analyse ((presolve d).getD d) with
  | none => simp [ha] at h
  | some info =>
    simp only [ha, Option.some.injEq] at h
    rw [← h]

/-- what the theorem excludes — the pre-fix flow: with a presolver that drops one row the
analysis saw 2 rows and the augmentation 1 (this made `DefaultSolver::new` panic; finding
fixed by 4915fa1). -/
example :
    let d : ProbData Nat := { A := ⟨2, 1, #[0, 2], #[0, 1], #[1, 1]⟩, b := #[5, 7], cones := #[.nonneg 2] }
    let pre : ProbData Nat → Option (ProbData Nat) := fun _ =>
      some { A := ⟨1, 1, #[0, 1], #[0], #[1]⟩, b := #[7], cones := #[.nonneg 1] }
    ((problemDataNewOld pre (fun x => some x.b.size) (fun _ x => x) d).2.map
      (fun p => (p.1.b.size, p.2.b.size))) = some (2, 1) := by
  rfl

/-- non-vacuity of `presolve_order` on the same data -/
example :
    let d : ProbData Nat := { A := ⟨2, 1, #[0, 2], #[0, 1], #[1, 1]⟩, b := #[5, 7], cones := #[.nonneg 2] }
    let pre : ProbData Nat → Option (ProbData Nat) := fun _ =>
      some { A := ⟨1, 1, #[0, 1], #[0], #[1]⟩, b := #[7], cones := #[.nonneg 1] }
    ((problemDataNew pre (fun x => some x.b.size) (fun _ x => x) d).2.map
      (fun p => (p.1.b.size, p.2.b.size))) = some (1, 1) := by
  rfl

/-! ## the standard decomposition in terms of clique blocks
(`ClarabelProofs/Lemmas/ChordalStdBlocks.lean`) -/

/-- [S] `H_blocks` (global structure of `find_standard_H_and_cones`): when it succeeds, the row
indices `HI` of the `1`s of `H` are the concatenation over the original cones, in order, of
`start .. start + nvars` for a cone that is not decomposed and of the packed upper triangles
(`subblockEntries`) of its cliques (post-order, sorted original coordinates) for a decomposed
one; the new cone list is `ZeroConeT(m)` followed by the original list with every decomposed
PSD cone replaced by the PSD cones of dimension `nblk[i]` of its cliques; `H` has `Σ nvars`
rows and `lenH = |HI|` columns; every accessor used on the way succeeded (a decomposed cone
is PSD). -/
theorem H_blocks (ci : ChordalInfo) (h : StdH) (hok : ci.findStandardHAndCones = .ok h) :
    h.HI.toList = (stdBlocks ci).flatMap Block.entries ∧
    h.conesNew.toList = Cone.zero ci.initDims.2 :: stdCones ci ∧
    h.rows = (ci.initCones.toList.map Cone.nvars).sum ∧
    h.lenH = h.HI.size ∧
    ∀ g ∈ stdGroups ci, g.AccessOk :=
  find_standard_H_and_cones_spec ci h hok

example : exStdH.HI.toList = (stdBlocks exStdCi).flatMap Block.entries ∧
    exStdH.conesNew.toList = Cone.zero exStdCi.initDims.2 :: stdCones exStdCi ∧
    exStdH.rows = (exStdCi.initCones.toList.map Cone.nvars).sum ∧
    exStdH.lenH = exStdH.HI.size ∧ ∀ g ∈ stdGroups exStdCi, g.AccessOk :=
  H_blocks exStdCi exStdH exStd_ok

/-- [S] `H_no_panic`: if every stored pattern points to a PSD cone of the dimension of its
`ordering` and is well formed (`StdOK`: sizes consistent, post-order in range, supernode and
separator of each clique disjoint / repetition-free / in range, `ordering` injective into
`0..d`, `nblk[i] = |clique i|`), then `find_standard_H_and_cones` returns a result (no index
panic, the PSD assertion and the length assertion of `new_from_triplets` hold), every column
of `H` has its `1` in a row `< rows` (the hypothesis `hHI` of `standard_equiv` /
`reverse_standard`), every clique is strictly increasing (so the columns of one block hit
pairwise different rows), the entries of the blocks of a cone lie in that cone's row range,
and the blocks of a cone have as many columns as the new cones have variables. -/
theorem H_no_panic (ci : ChordalInfo) (hci : ci.StdOK) :
    ∃ h, ci.findStandardHAndCones = .ok h ∧
      (∀ j, j < h.HI.size → h.HI.getD j 0 < h.rows) ∧
      (∀ B ∈ stdBlocks ci, B.Sorted ∧ B.entries.Nodup) ∧
      (∀ g ∈ stdGroups ci, (∀ B ∈ g.blocks, ∀ e ∈ B.entries,
          g.start ≤ e ∧ e < g.start + g.cone.nvars) ∧
        g.blocks.map Block.ncols = g.newCones.map Cone.nvars) := by
  obtain ⟨h, hok⟩ := find_standard_H_and_cones_ok ci hci
  refine ⟨h, hok, std_HI_lt_rows ci h hok hci,
    fun B hB => ⟨stdBlocks_sorted ci hci B hB, B.entries_nodup (stdBlocks_sorted ci hci B hB)⟩,
    fun g hg => ⟨g.entries_range (stdGroups_ok ci hci g hg),
      g.ncols_eq_nvars (stdGroups_ok ci hci g hg)⟩⟩

example : exStdCi.StdOK := exStdCi_ok

/-- [F] `standard_blocks`: `s = H s̃` cone by cone.  Let `g` be the group of an original cone
in the walk of `find_standard_H_and_cones` (`pre` the groups before it, whose number of
columns `off` is the first column of `g`).  If `g` is not decomposed, `s[r] = s̃[off + (r -
start)]` on the rows of the cone.  If `g` is the PSD cone of dimension `d` decomposed with
pattern `p`, the row of the entry `(a, b)`, `a ≤ b < d`, of its triangle is
`Σ_{i : a, b ∈ K_i} s̃[off + cliqueOffset p i + tri(pos_i a, pos_i b)]` — the sum of the
scattered clique blocks `s = Σ_K E_Kᵀ S_K E_K`, each clique contributing at most one term. -/
theorem standard_blocks [Semiring α] (ci : ChordalInfo) (h : StdH)
    (hok : ci.findStandardHAndCones = .ok h) (hci : ci.StdOK) (st : Array α)
    (hst : st.size = h.lenH) (pre post : List ConeGroup) (g : ConeGroup)
    (hsplit : stdGroups ci = pre ++ g :: post) :
    ∃ s, hGemv h.rows h.HI st = .ok s ∧ s.size = h.rows ∧
      g.start + g.cone.nvars ≤ h.rows ∧
      (g.pat = none → ∀ r, g.start ≤ r → r < g.start + g.cone.nvars →
        s.getD r 0 = st.getD (blocksNcols (pre.flatMap ConeGroup.blocks) + (r - g.start)) 0) ∧
      (∀ p d, g.pat = some p → g.cone = .psd d → ∀ a b, a ≤ b → b < d →
        s.getD (g.start + coordToUpperTriangularIndex (a, b)) 0 =
          ((List.range p.sntree.nCliques).map (fun i =>
            if a ∈ (cliqueOrigD p i).toList ∧ b ∈ (cliqueOrigD p i).toList then
              st.getD (blocksNcols (pre.flatMap ConeGroup.blocks) + cliqueOffset p i +
                coordToUpperTriangularIndex ((cliqueOrigD p i).toList.idxOf a,
                  (cliqueOrigD p i).toList.idxOf b)) 0
            else 0)).sum) :=
  std_gemv_cone_rows ci h hok hci st hst pre post g hsplit

/-- non-vacuity of `standard_blocks` (cones `[nonneg 1, psd 3]`, cliques `{0,1}`, `{1,2}`):
the hypotheses hold for the PSD cone's group … -/
example := standard_blocks exStdCi exStdH exStd_ok exStdCi_ok
  (#[10, 1, 2, 3, 4, 5, 6] : Array Int) rfl _ _ ⟨.psd 3, 1, some exStdPattern⟩ exStd_groups

/-- … and the model computes: the two clique blocks overlap (add) in the entry `(1,1)` -/
example : hGemv (α := Int) 7 exStdH.HI #[10, 1, 2, 3, 4, 5, 6] = .ok #[10, 1, 2, 7, 0, 5, 6] := by
  rfl

/-- [F] `standard_equiv_blocks`: the full equivalence with everything in block form.  With
`s₀ = 0` the augmented equalities `[A H; 0 -I](x, y) + (s₀, s̃) = (b, 0)` hold iff `y = s̃`
and `A x + Σ_B (scattered block B of s̃) = b`, and that sum is the vector `s` computed by the
model (`blockSum … r = Σ_B Block.term`: the identity block of a plain cone copies, the block
of a clique contributes `S_K[pos a, pos b]` to the entry `(a, b)` when `a, b ∈ K`). -/
theorem standard_equiv_blocks [Ring α] (ci : ChordalInfo) (h : StdH)
    (hok : ci.findStandardHAndCones = .ok h) (hci : ci.StdOK) (st : Array α)
    (ax b y : Nat → α) (hst : st.size = h.lenH) :
    ∃ s, hGemv h.rows h.HI st = .ok s ∧ s.size = h.rows ∧
      (∀ r, r < h.rows → s.getD r 0 = blockSum (stdBlocks ci) 0 (fun j => st.getD j 0) r) ∧
      (((∀ r, r < h.rows → ax r + blockSum (stdBlocks ci) 0 y r + 0 = b r) ∧
          (∀ j, j < h.lenH → - y j + st.getD j 0 = 0)) ↔
       ((∀ j, j < h.lenH → y j = st.getD j 0) ∧
          (∀ r, r < h.rows → ax r + blockSum (stdBlocks ci) 0 (fun j => st.getD j 0) r = b r))) :=
  Clarabel.Chordal.standard_equiv_blocks ci h hok hci st ax b y hst

example := standard_equiv_blocks exStdCi exStdH exStd_ok exStdCi_ok
  (#[10, 1, 2, 3, 4, 5, 6] : Array Int) (fun _ => 0) (fun _ => 0) (fun _ => 0) rfl

/-- [F] `reverse_standard_blocks`: `decomp_reverse_standard` does not panic, `s[r]` is the sum
of the scattered blocks of `s̃ = old_s[m..]`, and `z[r]` is the same sum for `z̃` divided by
`c_r` when `c_r > 1`, where `c_r` — the block sum of the all-ones vector — is the number of
blocks that contain the entry `r`. -/
theorem reverse_standard_blocks [Semiring α] [Div α] [LT α] [DecidableLT α]
    (ci : ChordalInfo) (h : StdH) (hok : ci.findStandardHAndCones = .ok h) (hci : ci.StdOK)
    (oldS oldZ : Array α) (hS : oldS.size = h.rows + h.lenH) (hZ : oldZ.size = h.rows + h.lenH) :
    ∃ s z : Array α, decompReverseStandard h h.rows oldS oldZ = .ok (s, z) ∧
      s.size = h.rows ∧ z.size = h.rows ∧
      (∀ r, r < h.rows →
        s.getD r 0 = blockSum (stdBlocks ci) 0 (fun j => oldS.getD (h.rows + j) 0) r ∧
        z.getD r 0 =
          if (1 : α) < blockSum (stdBlocks ci) 0 (fun _ => (1 : α)) r then
            blockSum (stdBlocks ci) 0 (fun j => oldZ.getD (h.rows + j) 0) r /
              blockSum (stdBlocks ci) 0 (fun _ => (1 : α)) r
          else blockSum (stdBlocks ci) 0 (fun j => oldZ.getD (h.rows + j) 0) r) ∧
      (∀ r, blockSum (stdBlocks ci) 0 (fun _ => (1 : α)) r =
        (((stdBlocks ci).filter (fun B => decide (r ∈ B.entries))).length : α)) := by
  obtain ⟨s, z, h1, h2, h3, h4⟩ := decomp_reverse_standard_blocks ci h hok hci oldS oldZ hS hZ
  exact ⟨s, z, h1, h2, h3, h4, fun r => blockSum_one _ (stdBlocks_sorted ci hci) 0 r⟩

example := reverse_standard_blocks exStdCi exStdH exStd_ok exStdCi_ok
  (#[0, 0, 0, 0, 0, 0, 0, 10, 1, 2, 3, 4, 5, 6] : Array Rat)
  (#[0, 0, 0, 0, 0, 0, 0, 10, 2, 4, 6, 8, 10, 12] : Array Rat) rfl rfl

example : decompReverseStandard exStdH 7
    (#[0, 0, 0, 0, 0, 0, 0, 10, 1, 2, 3, 4, 5, 6] : Array Int)
    (#[0, 0, 0, 0, 0, 0, 0, 10, 2, 4, 6, 8, 10, 12] : Array Int)
    = .ok (#[10, 1, 2, 7, 0, 5, 6], #[10, 2, 4, 7, 0, 10, 12]) := by rfl

/-! ## the compact (clique-tree based) transformation
(`ClarabelProofs/Lemmas/ChordalCompact{Basics,Blocks,Loops,Geom,Pattern,Info,Main,Assemble,Unique}.lean`)

Hypotheses.  `ValidPattern p` (`Lemmas/ChordalValidTree.lean`) is the validity predicate of a
clique tree that C17's oracle evaluates: consistent sizes, `snode_post` a duplicate-free list of
live cliques, supernodes partitioning the vertices (consecutive numbering), supernode and separator
of a clique disjoint and in range, root last with empty separator, every other clique precedes its
parent and `separator = clique ∩ parent clique`, `nblk[i] = |clique i|`, `ordering` a permutation;
the running intersection property follows (`ValidTree.running_intersection`).
`CompactHyp ci A bInd` bundles: every pattern that the loop of `find_compact_A_b_and_cones` uses
is valid and belongs to a PSD cone of its dimension (`ValidInfo`), `A` is a well-formed CSC
matrix with strictly increasing rows per column and at least one column, every stored row of `A`
and `b` lies in some cone, and every stored row inside a decomposed cone is an entry of some clique
block (`Covered` — C17's coverage clause). -/

/-- [S] `compact_block_indices`: for the sorted supernode `N` and separator `S` of a clique
(disjoint, vertices `< nv`) `get_block_indices` returns the column-major upper triangle of the
sorted clique `C = N ∪ S` — so the `counter` of the entry of clique positions `x ≤ y` is
`coord_to_upper_triangular_index (x, y)`, the layout of the clique's PSD triangle — flagged as
overlap iff both vertices are in the separator. -/
theorem compact_block_indices (N S : Array Nat) (nv : Nat) (C : List Nat)
    (hN : N.toList.Pairwise (· < ·)) (hS : S.toList.Pairwise (· < ·))
    (hdisj : ∀ v, v ∈ N.toList → v ∉ S.toList)
    (hC : C.Pairwise (· < ·)) (hmem : ∀ v, v ∈ C ↔ v ∈ N.toList ∨ v ∈ S.toList)
    (hlt : ∀ v ∈ C, v < nv) :
    getBlockIndices N S nv =
      triPairs C (fun a b => decide (a ∈ S.toList) && decide (b ∈ S.toList)) ∧
    ∀ x y, x ≤ y → y < C.length →
      (getBlockIndices N S nv)[coordToUpperTriangularIndex (x, y)]? =
        some (C.getD x 0, C.getD y 0,
          decide (C.getD x 0 ∈ S.toList) && decide (C.getD y 0 ∈ S.toList)) := by
  have h := getBlockIndices_eq N S nv C hN hS hdisj hC hmem hlt
  refine ⟨h, fun x y hxy hy => ?_⟩
  rw [h]
  exact triPairs_getElem? C _ hC x y hxy hy

example : getBlockIndices #[0] #[1] 3 = [(0, 0, false), (0, 1, false), (1, 1, true)] :=
  (compact_block_indices #[0] #[1] 3 [0, 1] (by simp) (by simp) (by simp) (by simp) (by simp)
    (by simp)).1

/-- [S] `compact_owner`: on a valid pattern every entry `(a, b)`, `a ≤ b`, of some clique block is
a NON-overlap entry (not both vertices in the separator) of exactly one clique — the clique that
"owns" it; all other cliques containing the entry hold it as an overlap. -/
theorem compact_owner (p : SPattern) (hp : ValidPattern p) (a b : Nat) (hab : a ≤ b) (i0 : Nat)
    (hi0 : i0 < p.sntree.nCliques) (ha : a ∈ p.cliqueO i0) (hb : b ∈ p.cliqueO i0) :
    (∃ i, i < p.sntree.nCliques ∧ a ∈ p.cliqueO i ∧ b ∈ p.cliqueO i ∧
      ¬(a ∈ p.sepO i ∧ b ∈ p.sepO i)) ∧
    (∀ i i', i < p.sntree.nCliques → i' < p.sntree.nCliques →
      a ∈ p.cliqueO i → b ∈ p.cliqueO i → ¬(a ∈ p.sepO i ∧ b ∈ p.sepO i) →
      a ∈ p.cliqueO i' → b ∈ p.cliqueO i' → ¬(a ∈ p.sepO i' ∧ b ∈ p.sepO i') → i = i') := by
  constructor
  · obtain ⟨i, x, y, hi, _, hy, hx', hy', hno⟩ := owner_exists p hp a b hab i0 hi0 ha hb
    refine ⟨i, hi, ?_, ?_, ?_⟩
    · rw [← hx']; exact getD_mem_of_lt (by omega)
    · rw [← hy']; exact getD_mem_of_lt hy
    · rw [← hx', ← hy']; exact hno
  · intro i i' hi hi' h1 h2 h3 h4 h5 h6
    exact owner_unique p hp i i' a b hi hi' h1 h2 h3 h4 h5 h6

example : ValidPattern exPattern := exPattern_valid

/-- [S] `compact_rows`: on valid input the main loop of `find_compact_A_b_and_cones` does not
panic and returns triplets `(A_I, A_J, A_V)`, `(b_I, b_V)` such that
* the `k`-th stored entry of `A` keeps its column and value and its row index is `NewRow` of its
  original row: for a cone that is not decomposed the original row shifted by the cone's offset
  (`newStart c + (r - rs c)`), for a decomposed PSD cone the row `blockRow … i x y` of the entry
  in the block of the clique `i` that holds it as a non-overlap entry;
* the same for every non-zero of `b`;
* the `o`-th extra column (`o < n_overlaps`) is `(+1, -1)` with the rows given by `OvTarget`: the
  row of an overlap entry `(x, y)` of a non-root clique `i` in `i`'s block and the row of the SAME
  matrix entry in the block of `i`'s parent;
* hence no index is left at the `usize::MAX` sentinel (`compact_rows_range`);
* the new cone list is the original one with every decomposed PSD cone replaced by the PSD cones
  of its cliques (dimension `|clique|`, descending post-order), `cone_maps` records
  `(orig_index, (pattern, clique))`; `dim` / `n_overlaps` are the totals of the layout. -/
theorem compact_rows [Neg α] [OfNat α 0] [OfNat α 1] [BEq α] (ci : ChordalInfo) (A : Csc α)
    (b : Array α) (H : CompactHyp ci A (bIndOf b)) (hnz : A.colptr.getD A.n 0 ≤ A.nzval.size)
    (hpos : A.colptr.getD A.n 0 + 2 * ci.ovBefore ci.initCones.size ≠ 0) :
    ∃ tr, findCompactTriplets ci A b = .ok tr ∧
      tr.dim = ci.newStart ci.initCones.size ∧ tr.nOverlaps = ci.ovBefore ci.initCones.size ∧
      tr.AaI.size = A.colptr.getD A.n 0 + 2 * tr.nOverlaps ∧
      tr.AaJ = ((List.range A.n).flatMap (fun c =>
          List.replicate (A.colptr.getD (c + 1) 0 - A.colptr.getD c 0) c)).toArray ++
        ((List.range tr.nOverlaps).flatMap (fun o => [A.n + o, A.n + o])).toArray ∧
      tr.AaV = (A.nzval.extract 0 (A.colptr.getD A.n 0)) ++
        ((List.range tr.nOverlaps).flatMap (fun _ => [(1 : α), -1])).toArray ∧
      tr.bInd = bIndOf b ∧ tr.bVal = (bIndOf b).toList.map (fun i => b.getD i 0) ∧
      tr.baI.size = (bIndOf b).size ∧
      (∀ slot, slot < A.colptr.getD A.n 0 → NewRow ci (A.rowval.getD slot 0) (tr.AaI.getD slot 0)) ∧
      (∀ y, A.colptr.getD A.n 0 ≤ y → y < A.colptr.getD A.n 0 + 2 * tr.nOverlaps →
        OvTarget ci (A.colptr.getD A.n 0) y (tr.AaI.getD y 0)) ∧
      (∀ slot, slot < (bIndOf b).size → NewRow ci ((bIndOf b).getD slot 0) (tr.baI.getD slot 0)) ∧
      tr.conesNew.toList = (List.range ci.initCones.size).flatMap ci.conesOf ∧
      tr.coneMaps.toList = (List.range ci.initCones.size).flatMap ci.mapsOf :=
  findCompactTriplets_spec ci A b H hnz hpos

/-- non-vacuity of `compact_rows` / `compact_assembled`: the 3×3 PSD cone with cliques `{0,1}`,
`{1,2}`, one column with the three diagonal entries, `b = (0,0,7,0,0,0)` -/
example : CompactHyp exCi exA (bIndOf exb) ∧ exA.colptr.getD exA.n 0 ≤ exA.nzval.size ∧
    exA.colptr.getD exA.n 0 + 2 * exCi.ovBefore exCi.initCones.size ≠ 0 := ⟨exHyp, ex_hnz, ex_hpos⟩

example : ∃ tr, findCompactTriplets exCi exA exb = .ok tr ∧ tr.bInd = bIndOf exb := by
  obtain ⟨tr, h, _, _, _, _, _, h7, _⟩ := compact_rows exCi exA exb exHyp ex_hnz ex_hpos
  exact ⟨tr, h, h7⟩

/-- [S] `compact_rows_exactly_once`: the new row of an original row is unique ("placed exactly
once, in the clique that owns it"), different original rows get different new rows, and every new
row is a row of the compact problem (`< dim`; in particular not the `usize::MAX` sentinel). -/
theorem compact_rows_exactly_once (ci : ChordalInfo) (hv : ValidInfo ci) :
    (∀ r v v', NewRow ci r v → NewRow ci r v' → v = v') ∧
    (∀ r r' v, NewRow ci r v → NewRow ci r' v → r = r') ∧
    (∀ r v, NewRow ci r v → v < ci.newStart ci.initCones.size) ∧
    (∀ nnz slot v, OvTarget ci nnz slot v → v < ci.newStart ci.initCones.size) :=
  ⟨fun _ _ _ h h' => h.unique hv h', fun _ _ _ h h' => h.inj hv h', fun _ _ h => h.lt_dim hv,
    fun _ _ _ h => h.lt_dim hv⟩

example : ValidInfo exCi := exCi_valid

/-- [F] `compact_assembled`: on valid input `find_compact_A_b_and_cones` does not panic; `A_new`
is a canonical CSC matrix with `dim` rows and `n + n_overlaps` columns whose dense entry `(i, j)` is
the sum of the values of the triplets of `compact_rows` at `(i, j)`; `b_new` has length `dim`, is
`0` on every row that is not the new row of a non-zero of `b`, and holds `b[r]` at the new row of
`r` (the new rows of different `r` are different by `compact_rows_exactly_once`). -/
theorem compact_assembled [Ring α] [BEq α] (ci : ChordalInfo) (A : Csc α)
    (b : Array α) (H : CompactHyp ci A (bIndOf b)) (hnz : A.colptr.getD A.n 0 ≤ A.nzval.size)
    (hpos : A.colptr.getD A.n 0 + 2 * ci.ovBefore ci.initCones.size ≠ 0) :
    ∃ tr Anew bnew, findCompactTriplets ci A b = .ok tr ∧
      findCompactAbAndCones ci A b = .ok (Anew, bnew, tr.conesNew, tr.coneMaps) ∧
      Clarabel.C16.Canonical Anew ∧ Anew.m = tr.dim ∧ Anew.n = A.n + tr.nOverlaps ∧
      (∀ i j, j < A.n + tr.nOverlaps → Anew.toDense i j =
        (((tr.AaI.toList.zip (tr.AaJ.toList.zip tr.AaV.toList)).filter
          (fun t => t.1 == i && t.2.1 == j)).map (·.2.2)).sum) ∧
      bnew.size = tr.dim ∧
      (∀ r, (∀ k, k < tr.bInd.size → tr.baI.getD k 0 ≠ r) → bnew.getD r 0 = 0) ∧
      (∀ k, k < tr.bInd.size →
        (∀ k', k < k' → k' < tr.bInd.size → tr.baI.getD k' 0 ≠ tr.baI.getD k 0) →
        bnew.getD (tr.baI.getD k 0) 0 = tr.bVal.getD k 0) :=
  findCompactAbAndCones_spec ci A b H hnz hpos

example : ∃ Anew bnew cones maps, findCompactAbAndCones exCi exA exb = .ok (Anew, bnew, cones, maps) := by
  obtain ⟨tr, Anew, bnew, _, h, _⟩ := compact_assembled exCi exA exb exHyp ex_hnz ex_hpos
  exact ⟨Anew, bnew, _, _, h⟩

/-! ## equivalence of the compact problem with the original one -/

/-- [S] `compact_overlap_pairs`: the two slots of the `o`-th overlap column belong to ONE overlap
entry (the enumeration of the overlap entries is injective): the `+1` sits in the entry's row in the
child clique `i`, the `-1` in the row of the same matrix entry in the parent clique `j`. -/
theorem compact_overlap_pairs (ci : ChordalInfo) (hv : ValidInfo ci) (nnz o v0 v1 : Nat)
    (h0 : OvTarget ci nnz (nnz + 2 * o) v0) (h1 : OvTarget ci nnz (nnz + 2 * o + 1) v1) :
    ∃ c p i j x y x' y', OvEntry ci c p i j x y x' y' ∧ o = ovIndex ci c p i x y ∧
      v0 = p.blockRow (ci.newStart c) i x y ∧ v1 = p.blockRow (ci.newStart c) j x' y' :=
  ov_pair hv nnz o v0 v1 h0 h1

open Classical in
/-- [F] `compact_equiv` (compact ⇒ original; ring): let `(A_I, A_J, A_V)`, `(b_I, b_V)` be the
triplets of the compact problem, `xx` the values of its `n + n_overlaps` variables (`x` followed by
the overlap variables) and `st` its slack.  If every row `ρ < dim` satisfies the compact equality
`Σ_{k : A_I[k] = ρ} A_V[k]·xx[A_J[k]] + st[ρ] = Σ_{k : b_I[k] = ρ} b_V[k]`
(`= (A_new xx)[ρ] + st[ρ] = b_new[ρ]`, `compact_assembled`), then every original row `r` satisfies
`Σ_{k < nnz : rowval[k] = r} nzval[k]·x[col k] + S[r] = Σ_{k : bInd[k] = r} b_V[k]`
(`= (A x)[r] + S[r] = b[r]`) with `S[r] = Σ_{ρ : OrigOf ρ r} st[ρ]`, the sum of the slack over
all rows of the compact problem holding (a copy of) the original row `r` — the shifted row for a
cone that is not decomposed, the rows of the entry in ALL clique blocks containing it for a
decomposed cone: `S = Σ_K E_Kᵀ S_K E_K`.  The overlap variables drop out (`compact_overlap_pairs`:
both rows of an overlap column hold the same original entry).
The converse is `compact_equiv_converse`. -/
theorem compact_equiv [Ring α] [BEq α] (ci : ChordalInfo) (A : Csc α) (b : Array α)
    (H : CompactHyp ci A (bIndOf b)) (hnz : A.colptr.getD A.n 0 ≤ A.nzval.size)
    (hpos : A.colptr.getD A.n 0 + 2 * ci.ovBefore ci.initCones.size ≠ 0) :
    ∃ tr, findCompactTriplets ci A b = .ok tr ∧
      ∀ (xx st : Nat → α),
        (∀ ρ, ρ < tr.dim →
          (∑ k ∈ Finset.range tr.AaI.size,
              if tr.AaI.getD k 0 = ρ then tr.AaV.getD k 0 * xx (tr.AaJ.getD k 0) else 0) + st ρ =
          ∑ k ∈ Finset.range tr.bInd.size, if tr.baI.getD k 0 = ρ then tr.bVal.getD k 0 else 0) →
        ∀ r,
          (∑ k ∈ Finset.range (A.colptr.getD A.n 0),
              if A.rowval.getD k 0 = r then A.nzval.getD k 0 * xx (tr.AaJ.getD k 0) else 0) +
            (∑ ρ ∈ Finset.range tr.dim, if OrigOf ci ρ r then st ρ else 0) =
          ∑ k ∈ Finset.range tr.bInd.size, if tr.bInd.getD k 0 = r then tr.bVal.getD k 0 else 0 := by
  exact compact_equiv_forward ci A b H hnz hpos

example : ∃ tr, findCompactTriplets exCi exA exb = .ok tr := by
  obtain ⟨tr, h, _⟩ := compact_equiv exCi exA exb exHyp ex_hnz ex_hpos
  exact ⟨tr, h⟩

/-! ## reversal of the compact form (`reverse_compact.rs`) -/


/-- [S] `reverse_compact_block` (one clique of `decomp_reverse_compact`, valid pattern): no panic,
`row_ptr` advances by the size of the clique's triangle, and the block `S_i` / `Z_i` stored at
`old_s[row_ptr ..]`, `old_z[row_ptr ..]` in the layout of the clique's PSD triangle (position
`tri(x, y)` holds the entry of the `x`-th and `y`-th clique vertex — the same layout in which
`compact_rows` places the rows, `compact_block_indices`) is scattered to the original rows of
the matrix entries `(C[x], C[y])`: ADDED to `s` (so that over all cliques `s = Σ_K E_Kᵀ S_K E_K`)
and WRITTEN to `z` (a later clique overwrites an earlier one: last writer wins; consistent
blocks give the common value); every other row of `s`, `z` is left alone. -/
theorem reverse_compact_block [Add α] [OfNat α 0] (p : SPattern) (hp : ValidPattern p)
    (i : Nat) (hi : i < p.sntree.nCliques) (s z oldS oldZ : Array α) (rowStart rowPtr : Nat)
    (hT : ∀ x y, x ≤ y → y < (p.cliqueO i).length → blockTarget (p.cliqueO i) rowStart x y < s.size)
    (hTz : ∀ x y, x ≤ y → y < (p.cliqueO i).length → blockTarget (p.cliqueO i) rowStart x y < z.size)
    (hO : rowPtr + p.blk i ≤ oldS.size) (hOz : rowPtr + p.blk i ≤ oldZ.size) :
    ∃ s' z', addBlocksWithSparsityPattern s z oldS oldZ rowStart p i rowPtr = .ok (s', z', rowPtr + p.blk i) ∧
      s'.size = s.size ∧ z'.size = z.size ∧
      (∀ x y, x ≤ y → y < (p.cliqueO i).length →
        s'.getD (blockTarget (p.cliqueO i) rowStart x y) 0 =
          s.getD (blockTarget (p.cliqueO i) rowStart x y) 0 +
            oldS.getD (rowPtr + coordToUpperTriangularIndex (x, y)) 0 ∧
        z'.getD (blockTarget (p.cliqueO i) rowStart x y) 0 =
          oldZ.getD (rowPtr + coordToUpperTriangularIndex (x, y)) 0) ∧
      (∀ slot, (∀ x y, x ≤ y → y < (p.cliqueO i).length → slot ≠ blockTarget (p.cliqueO i) rowStart x y) →
        s'.getD slot 0 = s.getD slot 0 ∧ z'.getD slot 0 = z.getD slot 0) :=
  addBlocksWithSparsityPattern_spec p hp i hi s z oldS oldZ rowStart rowPtr hT hTz hO hOz

/-- non-vacuity of `reverse_compact_block`: clique 1 = `{1, 2}` of the 3×3 cone of `exPattern` -/
example : ∃ s' z', addBlocksWithSparsityPattern (α := Int) (Array.replicate 6 1) (Array.replicate 6 0)
    #[10, 20, 30] #[7, 8, 9] 0 exPattern 1 0 = .ok (s', z', 0 + exPattern.blk 1) := by
  obtain ⟨s', z', h, _⟩ := reverse_compact_block (α := Int) exPattern exPattern_valid 1 (by decide)
    (Array.replicate 6 1) (Array.replicate 6 0) #[10, 20, 30] #[7, 8, 9] 0 0
    (fun x y hxy hy => by
      have := blockTarget_lt exPattern exPattern_valid 1 (by decide) 0 x y hxy hy
      have e : (0 : Nat) + triangularNumber exPattern.ordering.size = 6 := by decide
      rw [e] at this
      simpa using this)
    (fun x y hxy hy => by
      have := blockTarget_lt exPattern exPattern_valid 1 (by decide) 0 x y hxy hy
      have e : (0 : Nat) + triangularNumber exPattern.ordering.size = 6 := by decide
      rw [e] at this
      simpa using this)
    (by decide) (by decide)
  exact ⟨s', z', h⟩

/-- [S] `reverse_compact`: `decomp_reverse_compact`, run on the cone list and `cone_maps` that
`compact_rows` produces, does not panic and returns `s`, `z` of length `m` with
* rows of a cone that was not decomposed copied from their shifted rows;
* the row of the entry `(a, b)` of a decomposed PSD cone holding, for `s`, the sum (left fold in
  the order of the loop: cliques in descending post-order) of the `(a, b)` entries of all clique
  blocks that contain it — `s = Σ_K E_Kᵀ S_K E_K` — and, for `z`, the `(a, b)` entry of the LAST
  block visited that contains it (last writer wins: the clique with the smallest post-order
  index); `0` for an entry in no clique;
* rows outside every cone `0`. -/
theorem reverse_compact [Add α] [OfNat α 0] (ci : ChordalInfo) (hv : ValidInfo ci)
    (hfit : ∀ c, c < ci.initCones.size → ci.rs c + ci.nv c ≤ ci.initDims.2)
    (oldCones : Array Cone) (coneMaps : Array ConeMapEntry)
    (hcones : oldCones.toList = (List.range ci.initCones.size).flatMap ci.conesOf)
    (hmaps : coneMaps.toList = (List.range ci.initCones.size).flatMap ci.mapsOf)
    (oldS oldZ : Array α) (hS : ci.newStart ci.initCones.size ≤ oldS.size)
    (hZ : ci.newStart ci.initCones.size ≤ oldZ.size) :
    ∃ s z, decompReverseCompact ci coneMaps oldCones oldS oldZ = .ok (s, z) ∧
      s.size = ci.initDims.2 ∧ z.size = ci.initDims.2 ∧
      (∀ c, c < ci.initCones.size → ci.patAt c = none → ∀ k', k' < ci.nv c →
        s.getD (ci.rs c + k') 0 = oldS.getD (ci.newStart c + k') 0 ∧
        z.getD (ci.rs c + k') 0 = oldZ.getD (ci.newStart c + k') 0) ∧
      (∀ c, c < ci.initCones.size → ∀ p, ci.patAt c = some p → ∀ k', k' < ci.nv c →
        s.getD (ci.rs c + k') 0 = revFoldS p (ci.newStart c) oldS (upperTriangularIndexToCoord k').1
          (upperTriangularIndexToCoord k').2 p.sntree.nCliques ∧
        z.getD (ci.rs c + k') 0 = revFoldZ p (ci.newStart c) oldZ (upperTriangularIndexToCoord k').1
          (upperTriangularIndexToCoord k').2 p.sntree.nCliques) ∧
      (∀ r, (∀ c, c < ci.initCones.size → ¬(ci.rs c ≤ r ∧ r < ci.rs c + ci.nv c)) →
        s.getD r 0 = 0 ∧ z.getD r 0 = 0) :=
  decompReverseCompact_spec ci hv hfit oldCones coneMaps hcones hmaps oldS oldZ hS hZ

/-- non-vacuity of `reverse_compact`, composed with `compact_rows` on the example -/
example : ∃ tr s z, findCompactTriplets exCi exA exb = .ok tr ∧
    decompReverseCompact (α := Int) exCi tr.coneMaps tr.conesNew (Array.replicate tr.dim 1)
      (Array.replicate tr.dim 2) = .ok (s, z) ∧ s.size = 6 := by
  obtain ⟨tr, h, hdim, _, _, _, _, _, _, _, _, _, _, hc, hm⟩ := compact_rows exCi exA exb exHyp ex_hnz ex_hpos
  obtain ⟨s, z, h1, h2, _⟩ := reverse_compact (α := Int) exCi exCi_valid (by
      intro c hc
      have : c = 0 := by
        have : c < 1 := hc
        omega
      subst this; decide) tr.conesNew tr.coneMaps hc hm
    (Array.replicate tr.dim 1) (Array.replicate tr.dim 2) (by simp [hdim]) (by simp [hdim])
  exact ⟨tr, s, z, h, h1, h2⟩

/-- [F] over an additive commutative monoid the left fold of `reverse_compact` is the sum over the
cliques containing the entry; [S] on consistent blocks (every clique containing `(a, b)` holds the
same `z` value `v`) the returned dual entry is `v` (`0` if no clique contains the entry). -/
theorem reverse_compact_sum [AddCommMonoid α] (p : SPattern) (row0 : Nat) (old : Array α) (a b d : Nat) :
    revFoldS p row0 old a b d =
      (((List.range d).filter (fun d' => decide (CliqueHas p a b d'))).map
        (blockEntry p row0 old a b)).sum :=
  revFoldS_eq_sum p row0 old a b d

theorem reverse_compact_consistent [OfNat α 0] (p : SPattern) (row0 : Nat) (old : Array α) (a b d : Nat) (v : α)
    (hv : ∀ d', d' < d → CliqueHas p a b d' → blockEntry p row0 old a b d' = v) :
    revFoldZ p row0 old a b d = if ∃ d', d' < d ∧ CliqueHas p a b d' then v else 0 :=
  revFoldZ_consistent p row0 old a b d v hv

example := reverse_compact_consistent exPattern 0 (#[] : Array Int) 1 1 2 0 (by
    intro d' _ _
    simp [blockEntry])

open Classical in
/-- [F] `compact_equiv_slack`: the slack `S[r] = Σ_{ρ : OrigOf ρ r} st[ρ]` of `compact_equiv`, for
the row of the entry `(a, b)` of a decomposed cone, is exactly the value that
`decomp_reverse_compact` returns there (`reverse_compact`: the sum over the cliques containing the
entry) when `old_s` stores the slack of the compact problem.  Hence a point satisfying the compact
equalities, mapped back by `decomp_reverse_compact`, satisfies the original equalities. -/
theorem compact_equiv_slack [AddCommMonoid α] (ci : ChordalInfo) (hv : ValidInfo ci) (c : Nat)
    (hc : c < ci.initCones.size) (p : SPattern) (hp : ci.patAt c = some p) (k' : Nat) (hk' : k' < ci.nv c)
    (st : Nat → α) (oldS : Array α)
    (hold : ∀ ρ, ρ < ci.newStart ci.initCones.size → oldS.getD ρ 0 = st ρ) :
    revFoldS p (ci.newStart c) oldS (upperTriangularIndexToCoord k').1 (upperTriangularIndexToCoord k').2
        p.sntree.nCliques =
      ∑ ρ ∈ Finset.range (ci.newStart ci.initCones.size), if OrigOf ci ρ (ci.rs c + k') then st ρ else 0 :=
  revFoldS_eq_origSum ci hv c hc p hp k' hk' st oldS hold

example := compact_equiv_slack (α := Int) exCi exCi_valid 0 (by decide) exPattern exCi_patAt 2 (by decide)
  (fun _ => 1) (Array.replicate (exCi.newStart exCi.initCones.size) 1) (by
    intro ρ hρ
    simp [Array.getD, hρ])

/-! ## PSD completion (`psd_completion.rs`; model `ClarabelModel/Chordal/PsdCompletion.lean`,
proofs `ClarabelProofs/Lemmas/ChordalCompletion.lean`) -/


/-- [S] **`completion_agrees` (index level).**  On a valid pattern (`ValidPattern`: C17's
clique-tree predicate + `ordering` a permutation; `N = |ordering|`) the index-level model of
`psd_complete` does not panic, the list of positions of the permuted matrix `W` written by the
two `subsasgn` calls is the concatenation of the passes `j = n_cliques-2, …, 0`, and every
written position `(x, y)` is in range and outside the clique pattern: no clique contains both
`x` and `y`. -/
theorem completion_writes_outside_pattern {p : SPattern} (h : ValidPattern p) :
    ∃ ws, psdCompleteWritten p p.ordering.size = .ok ws ∧
      ws = (List.range (p.sntree.nCliques - 1)).reverse.flatMap
              (stepPositions p.sntree p.ordering.size) ∧
      ∀ rc ∈ ws, rc.1 < p.ordering.size ∧ rc.2 < p.ordering.size ∧
        ∀ k, k < p.sntree.nCliques →
          ¬ (rc.1 ∈ p.sntree.cliqueAt k ∧ rc.2 ∈ p.sntree.cliqueAt k) :=
  psdCompleteWritten_spec h

example : ∃ ws, psdCompleteWritten exPattern exPattern.ordering.size = .ok ws ∧
    ∀ rc ∈ ws, rc.1 < 3 ∧ rc.2 < 3 ∧ ∀ k, k < exPattern.sntree.nCliques →
      ¬ (rc.1 ∈ exPattern.sntree.cliqueAt k ∧ rc.2 ∈ exPattern.sntree.cliqueAt k) := by
  obtain ⟨ws, h1, _, h2⟩ := completion_writes_outside_pattern exPattern_valid
  exact ⟨ws, h1, h2⟩

/-- [S] the same in the coordinates of `A` (model of channel `psd_complete.written`): every entry
`i + N·j` of the output that is a copy of a written position of `W` lies outside every clique
block `ordering[clique k] × ordering[clique k]`. -/
theorem completion_changed_outside_blocks {p : SPattern} (h : ValidPattern p) :
    ∃ cs, psdCompleteChanged p p.ordering.size = .ok cs ∧
      ∀ c ∈ cs, ∃ i j, i < p.ordering.size ∧ j < p.ordering.size ∧
        c = i + p.ordering.size * j ∧
        ∀ k, k < p.sntree.nCliques → ∀ x ∈ p.sntree.cliqueAt k, ∀ y ∈ p.sntree.cliqueAt k,
          ¬ (p.ordering.getD x 0 = i ∧ p.ordering.getD y 0 = j) :=
  psdCompleteChanged_spec h

example : psdCompleteChanged exPattern exPattern.ordering.size = .ok [2, 6] := by rfl

/-- [S] **the completion fills everything else**: if moreover every supernode is stored with
its smallest vertex first (`ν = k, k+1, …`, as `reorder_snode_consecutively` leaves it), every
position outside the clique pattern is written — the written set is exactly the complement of
the pattern (this is what the oracle of channel `psd_complete.written` observes bit for bit). -/
theorem completion_covers_complement {p : SPattern} (h : ValidPattern p)
    (hfirst : ∀ j, j < p.sntree.nCliques →
      (p.sntree.snodeAt j).head? = some (p.sntree.snodeOffset j))
    {ws : List (Nat × Nat)} (hws : psdCompleteWritten p p.ordering.size = .ok ws)
    (rc : Nat × Nat) (h1 : rc.1 < p.ordering.size) (h2 : rc.2 < p.ordering.size)
    (hno : ∀ k, k < p.sntree.nCliques →
      ¬ (rc.1 ∈ p.sntree.cliqueAt k ∧ rc.2 ∈ p.sntree.cliqueAt k)) : rc ∈ ws :=
  psdCompleteWritten_covers h hfirst hws rc ⟨h1, h2, hno⟩

example : (2, 0) ∈ [(2, 0), (0, 2)] :=
  completion_covers_complement (p := exPattern) exPattern_valid (by
    intro j hj
    have : j = 0 ∨ j = 1 := by
      have : j < 2 := hj
      omega
    rcases this with rfl | rfl <;> rfl) (by rfl) (2, 0) (by decide) (by decide) (by
    intro k hk
    have : k = 0 ∨ k = 1 := by
      have : k < 2 := hk
      omega
    rcases this with rfl | rfl <;> decide)

/-- [S] **`completion_agrees` (data level).**  `psdComplete ext A N p` is `psd_complete` on the
column-major storage `A` of an `N × N` matrix with everything LAPACK/BLAS computes (Cholesky or
SVD solve of `Wαα \ Wαν`, the product `Wηα·Y`) abstracted into the arbitrary, possibly failing,
function `ext`.  On a valid pattern, whatever `ext` returns: if the call returns `B` then `B`
has the entries of `A` on every clique block `ordering[clique k] × ordering[clique k]`. -/
theorem completion_agrees {α : Type} [OfNat α 0] (ext : Nat → Array α → MErr (Nat × Nat → α))
    {p : SPattern} (h : ValidPattern p) (A B : Array α)
    (hB : psdComplete ext A p.ordering.size p = .ok B) :
    ∀ k, k < p.sntree.nCliques → ∀ x ∈ p.sntree.cliqueAt k, ∀ y ∈ p.sntree.cliqueAt k,
      B[linIdx p.ordering.size (p.ordering.getD x 0, p.ordering.getD y 0)]? =
        A[linIdx p.ordering.size (p.ordering.getD x 0, p.ordering.getD y 0)]? :=
  psdComplete_agrees ext h A B hB

/-- [S] frame form: `B` differs from `A` at most at the positions listed by
`psdCompleteChanged` (the list that channel `psd_complete.written` compares with the bits the
implementation changes); sizes are preserved. -/
theorem completion_frame {α : Type} [OfNat α 0] (ext : Nat → Array α → MErr (Nat × Nat → α))
    {p : SPattern} (h : ValidPattern p) (A B : Array α)
    (hB : psdComplete ext A p.ordering.size p = .ok B) :
    A.size = p.ordering.size * p.ordering.size ∧ B.size = p.ordering.size * p.ordering.size ∧
      ∃ cs, psdCompleteChanged p p.ordering.size = .ok cs ∧
        ∀ i j, i < p.ordering.size → j < p.ordering.size →
          linIdx p.ordering.size (i, j) ∉ cs →
          B[linIdx p.ordering.size (i, j)]? = A[linIdx p.ordering.size (i, j)]? :=
  psdComplete_frame ext h A B hB

/-- [S] no index operation of `psd_complete` panics on a valid pattern with an `N × N` input:
the call returns whenever the external steps do. -/
theorem completion_no_panic {α : Type} [OfNat α 0] (ext : Nat → Array α → MErr (Nat × Nat → α))
    (hext : ∀ j W, ∃ f, ext j W = .ok f) {p : SPattern} (h : ValidPattern p) (A : Array α)
    (hA : A.size = p.ordering.size * p.ordering.size) :
    ∃ B, psdComplete ext A p.ordering.size p = .ok B :=
  psdComplete_ok ext hext h A hA

/-- non-vacuity of `completion_agrees` / `completion_frame` / `completion_no_panic`: the path
`0 — 1 — 2`, external step returning the constant `7` -/
example : psdComplete (α := Nat) (fun _ _ => .ok (fun _ => 7)) #[1, 2, 0, 2, 3, 4, 0, 4, 5]
    exPattern.ordering.size exPattern = .ok #[1, 2, 7, 2, 3, 4, 7, 4, 5] := by rfl

example : ∃ B, psdComplete (α := Nat) (fun _ _ => .ok (fun _ => 7)) #[1, 2, 0, 2, 3, 4, 0, 4, 5]
    exPattern.ordering.size exPattern = .ok B :=
  completion_no_panic _ (fun _ _ => ⟨_, rfl⟩) exPattern_valid _ rfl


/-! ## C18's hypotheses are C17's conclusions (`ClarabelProofs/Lemmas/ChordalFromAnalysis.lean`)

C17 proves that `SparsityPattern::new` (strategies `none`, `parent_child`, `clique_graph`) returns a
tree satisfying `ValidCliqueTree` (`C17.analysis_none_valid`, `C17.analysis_parent_child_valid`,
`C17.analysis_clique_graph_valid`).  The theorems of
this section turn that conclusion into the hypotheses used above: `ValidPattern` / `ValidInfo`
(compact form, reversal, completion), `StdPatternOK` / `StdOK` (standard form) and coverage. -/

/-- [S] `valid_pattern_of_clique_tree`: a clique tree (with `ordering`) that satisfies C17's
validity predicate for the pattern entries `edges` on `n` vertices and has more than one clique
(single-clique patterns are never stored) satisfies `ValidPattern`, `StdPatternOK … n`, has
`|ordering| = n`, and every pattern entry lies in the block of some clique (`cliqueO i`: the
sorted clique in original coordinates, the index set of block `i` in `compact_rows`). -/
theorem valid_pattern_of_clique_tree (n : Nat) (edges : List (Nat × Nat)) (p : SPattern)
    (h : ValidCliqueTree n edges p.sntree p.ordering) (hne : p.sntree.nCliques ≠ 1) :
    ValidPattern p ∧ StdPatternOK p n ∧ p.ordering.size = n ∧
      ∀ e ∈ edges, ∃ i, i < p.sntree.nCliques ∧ e.1 ∈ p.cliqueO i ∧ e.2 ∈ p.cliqueO i :=
  DecompReady.of_valid n edges p h hne

/-- non-vacuity: the tree that the model of the analysis returns for the path graph `0 – 1 – 2`
(`exValidTree`, C17) -/
example := valid_pattern_of_clique_tree 3 [(0, 1), (1, 2)] ⟨exValidTree, #[0, 2, 1], 0⟩
  ((validCliqueTreeB_iff _ _ _ _).1 exValidTree_ok) (by decide)

/-- [S] `decomposition_of_analysis` (strategy `none`): for a filled pattern `L`, an `ordering` that
is a permutation and pattern entries `edges` that are entries of `L` (the hypotheses of C17's
pipeline theorems, evaluated by its driver on every run), `SparsityPattern::new(L, ordering,
"none")` returns without panic a tree that, whenever it is stored (more than one clique), satisfies
every pattern hypothesis of the theorems of this file. -/
theorem decomposition_of_analysis_none {L : LPat} (h : L.Filled) (ordering : Array Nat)
    (ho : ordering.toList.Perm (List.range L.n)) (edges : List (Nat × Nat))
    (hedges : ∀ e ∈ edges, ∃ a b, a < L.n ∧ b < L.n ∧ ordering[a]? = some e.1 ∧
        ordering[b]? = some e.2 ∧ (b ∈ L.col a ∨ a ∈ L.col b)) (oi : Nat) :
    ∃ tf ord', sparsityPatternNew L ordering "none" = .ok (tf, ord') ∧
      (tf.nCliques ≠ 1 →
        ValidPattern ⟨tf, ord', oi⟩ ∧ StdPatternOK ⟨tf, ord', oi⟩ L.n ∧ ord'.size = L.n ∧
        ∀ e ∈ edges, ∃ i, i < tf.nCliques ∧
          e.1 ∈ (⟨tf, ord', oi⟩ : SPattern).cliqueO i ∧ e.2 ∈ (⟨tf, ord', oi⟩ : SPattern).cliqueO i) :=
  Clarabel.Chordal.decomposition_of_analysis_none h ordering ho edges hedges oi

/-- [S] `decomposition_of_analysis` (strategy `parent_child`): the same for the tree after the
whole merge loop. -/
theorem decomposition_of_analysis_parent_child {L : LPat} (h : L.Filled) (ordering : Array Nat)
    (ho : ordering.toList.Perm (List.range L.n)) (edges : List (Nat × Nat))
    (hedges : ∀ e ∈ edges, ∃ a b, a < L.n ∧ b < L.n ∧ ordering[a]? = some e.1 ∧
        ordering[b]? = some e.2 ∧ (b ∈ L.col a ∨ a ∈ L.col b)) (oi : Nat) :
    ∃ tf ord', sparsityPatternNew L ordering "parent_child" = .ok (tf, ord') ∧
      (tf.nCliques ≠ 1 →
        ValidPattern ⟨tf, ord', oi⟩ ∧ StdPatternOK ⟨tf, ord', oi⟩ L.n ∧ ord'.size = L.n ∧
        ∀ e ∈ edges, ∃ i, i < tf.nCliques ∧
          e.1 ∈ (⟨tf, ord', oi⟩ : SPattern).cliqueO i ∧ e.2 ∈ (⟨tf, ord', oi⟩ : SPattern).cliqueO i) :=
  Clarabel.Chordal.decomposition_of_analysis_pc h ordering ho edges hedges oi

/-- the filled pattern of the path graph `0 – 1 – 2` under the ordering `[2, 0, 1]` (`find_graph`
+ QDLDL's symbolic factorisation return it; the model of the analysis evaluates on it to
`(exValidTree, [0, 2, 1])`, two cliques) -/
def exPathL : LPat := { n := 3, colptr := #[0, 1, 2, 2], rowval := #[2, 2] }

/-- non-vacuity of `decomposition_of_analysis_*`: the hypotheses hold for the path graph -/
example : exPathL.Filled ∧ (#[2, 0, 1] : Array Nat).toList.Perm (List.range exPathL.n) ∧
    ∀ e ∈ [(0, 1), (1, 2)], ∃ a b, a < exPathL.n ∧ b < exPathL.n ∧ (#[2, 0, 1] : Array Nat)[a]? = some e.1 ∧
      (#[2, 0, 1] : Array Nat)[b]? = some e.2 ∧ (b ∈ exPathL.col a ∨ a ∈ exPathL.col b) :=
  ⟨(LPat.filledB_iff _).1 (by decide), by decide,
    LPat.edgesInB_sound exPathL #[2, 0, 1] [(0, 1), (1, 2)] (by decide)⟩

/-- [S] `hypotheses_of_analysis`: if every stored pattern of the `ChordalInfo` is an analysis
result (`FromAnalysis ci E`: output of `SparsityPattern::new` with strategy `none`,
`parent_child` or `clique_graph` on a filled pattern with a permutation ordering, more than one clique, for a PSD
cone of the pattern's dimension, `E c` = pattern entries of cone `c`, all entries of the filled
pattern) then `ci.StdOK` — the hypothesis of `H_no_panic`, `standard_blocks`,
`standard_equiv_blocks`, `reverse_standard_blocks` —, `ValidInfo ci` — the pattern part of
`CompactHyp`, hypothesis of `compact_rows_exactly_once`, `reverse_compact`, … — and the cliques of
the pattern used for cone `c` cover `E c`. -/
theorem hypotheses_of_analysis {ci : ChordalInfo} {E : Nat → List (Nat × Nat)}
    (h : FromAnalysis ci E) :
    ci.StdOK ∧ ValidInfo ci ∧
    (∀ c, c < ci.initCones.size → ∀ p, ci.patAt c = some p →
      ∀ e ∈ E c, ∃ i, i < p.sntree.nCliques ∧ e.1 ∈ p.cliqueO i ∧ e.2 ∈ p.cliqueO i) :=
  info_of_analysis h

/-- [S] `compact_hyp_of_analysis`: with patterns from the analysis, the hypothesis bundle
`CompactHyp` of `compact_rows` / `compact_assembled` / `compact_equiv` reduces to facts about the
data alone: `A` well formed with at least one column, the stored rows of `A` and the non-zeros of
`b` lie in the cones, and those inside a decomposed cone are pattern entries handed to the
analysis (`find_aggregate_sparsity` collects exactly these rows). -/
theorem compact_hyp_of_analysis {ci : ChordalInfo} {E : Nat → List (Nat × Nat)}
    (h : FromAnalysis ci E) (A : Csc α) (bInd : Array Nat) (wf : CscWF A) (ncols : 0 < A.n)
    (bsorted : StrictOn bInd 0 bInd.size)
    (rowsA : ∀ slot, slot < A.colptr.getD A.n 0 →
      ∃ c, c < ci.initCones.size ∧ ci.rs c ≤ A.rowval.getD slot 0 ∧ A.rowval.getD slot 0 < ci.rs c + ci.nv c)
    (rowsB : ∀ slot, slot < bInd.size →
      ∃ c, c < ci.initCones.size ∧ ci.rs c ≤ bInd.getD slot 0 ∧ bInd.getD slot 0 < ci.rs c + ci.nv c)
    (entA : ∀ slot, slot < A.colptr.getD A.n 0 → ∀ c, c < ci.initCones.size → (ci.patAt c).isSome →
      ci.rs c ≤ A.rowval.getD slot 0 → A.rowval.getD slot 0 < ci.rs c + ci.nv c →
      upperTriangularIndexToCoord (A.rowval.getD slot 0 - ci.rs c) ∈ E c)
    (entB : ∀ slot, slot < bInd.size → ∀ c, c < ci.initCones.size → (ci.patAt c).isSome →
      ci.rs c ≤ bInd.getD slot 0 → bInd.getD slot 0 < ci.rs c + ci.nv c →
      upperTriangularIndexToCoord (bInd.getD slot 0 - ci.rs c) ∈ E c) :
    CompactHyp ci A bInd :=
  compactHyp_of_analysis h A bInd wf ncols bsorted rowsA rowsB entA entB

/-- non-vacuity of `hypotheses_of_analysis` / `compact_hyp_of_analysis`: the `ChordalInfo` of one
`3 × 3` PSD cone whose pattern is the analysis result for the path graph satisfies `FromAnalysis`
as soon as that result has more than one clique (it has two: the driver evaluates the model on this
input to `exValidTree`; the kernel cannot unfold the merge sort inside the model). -/
example : ∃ tf ord', sparsityPatternNew exPathL #[2, 0, 1] "none" = .ok (tf, ord') ∧
    (tf.nCliques ≠ 1 →
      FromAnalysis { initDims := (1, 6), initCones := #[.psd 3], spatterns := #[⟨tf, ord', 0⟩] }
        (fun _ => [(0, 1), (1, 2)])) := by
  have hf : exPathL.Filled := (LPat.filledB_iff _).1 (by decide)
  have ho : (#[2, 0, 1] : Array Nat).toList.Perm (List.range exPathL.n) := by decide
  have he := LPat.edgesInB_sound exPathL #[2, 0, 1] [(0, 1), (1, 2)] (by decide)
  obtain ⟨tf, ord', h1, _⟩ := decomposition_of_analysis_none hf #[2, 0, 1] ho _ he 0
  refine ⟨tf, ord', h1, fun hne k p hk => ?_⟩
  have hk0 : k = 0 := by
    rcases Nat.eq_zero_or_pos k with h | h
    · exact h
    · exfalso
      have : (#[(⟨tf, ord', 0⟩ : SPattern)])[k]? = none := by
        rw [Array.getElem?_eq_none]; simp; omega
      rw [this] at hk; cases hk
  subst hk0
  have hp : p = ⟨tf, ord', 0⟩ := by
    have : (#[(⟨tf, ord', 0⟩ : SPattern)])[0]? = some ⟨tf, ord', 0⟩ := rfl
    rw [this] at hk; exact (Option.some.inj hk).symm
  subst hp
  exact ⟨hne, exPathL, #[2, 0, 1], "none", Or.inl rfl, hf, ho, he,
    by rw [sparsityPatternNewAll_none]; exact h1, rfl⟩

/-! ## the compact problem is EQUIVALENT to the original one
(`ClarabelProofs/Lemmas/ChordalCompactConverse.lean`, `ChordalForestFlow.lean`, `ChordalRoundtrip.lean`) -/

open Classical in
/-- [F] `compact_equiv_converse` (original ⇒ compact; ring): let `x` be values of the `n` original
variables and `st` a slack for every row of the compact problem (a block `S_K` per clique, the slack
itself for a cone that is not decomposed).  If they satisfy the ORIGINAL equalities with
`S = Σ_K E_Kᵀ S_K E_K`, i.e. `(A x)[r] + Σ_{ρ : OrigOf ρ r} st[ρ] = b[r]` for every row `r`, then
there are values of the overlap variables — an extension `xx` of `x` to the `n + n_overlaps`
columns — such that `(xx, st)` satisfies EVERY equality of the compact problem.  (The overlap
columns are the incidence matrix of the forest whose trees are the cliques containing one matrix
entry — running intersection —; the variables are the partial sums of the residual over subtrees,
determined leaf to root: `forest_flow`.)  With `compact_equiv` this is the equivalence of the two
sets of equalities. -/
theorem compact_equiv_converse [Ring α] [BEq α] (ci : ChordalInfo) (A : Csc α) (b : Array α)
    (H : CompactHyp ci A (bIndOf b)) (hnz : A.colptr.getD A.n 0 ≤ A.nzval.size)
    (hpos : A.colptr.getD A.n 0 + 2 * ci.ovBefore ci.initCones.size ≠ 0) :
    ∃ tr, findCompactTriplets ci A b = .ok tr ∧
      ∀ (x st : Nat → α),
        (∀ r,
          (∑ k ∈ Finset.range (A.colptr.getD A.n 0),
              if A.rowval.getD k 0 = r then A.nzval.getD k 0 * x (tr.AaJ.getD k 0) else 0) +
            (∑ ρ ∈ Finset.range tr.dim, if OrigOf ci ρ r then st ρ else 0) =
          ∑ k ∈ Finset.range tr.bInd.size, if tr.bInd.getD k 0 = r then tr.bVal.getD k 0 else 0) →
        ∃ xx : Nat → α, (∀ j, j < A.n → xx j = x j) ∧
          ∀ ρ, ρ < tr.dim →
            (∑ k ∈ Finset.range tr.AaI.size,
                if tr.AaI.getD k 0 = ρ then tr.AaV.getD k 0 * xx (tr.AaJ.getD k 0) else 0) + st ρ =
            ∑ k ∈ Finset.range tr.bInd.size, if tr.baI.getD k 0 = ρ then tr.bVal.getD k 0 else 0 :=
  Clarabel.Chordal.compact_equiv_converse ci A b H hnz hpos

example : ∃ tr, findCompactTriplets exCi exA exb = .ok tr := by
  obtain ⟨tr, h, _⟩ := compact_equiv_converse exCi exA exb exHyp ex_hnz ex_hpos
  exact ⟨tr, h⟩

open Classical in
/-- [F] the abstract flow lemma behind `compact_equiv_converse`: on a rooted forest (nodes `< D`,
edge `o < N` from the child `c o` to its parent `p o < c o`, every node the child of at most one
edge, `cls ρ r`: node `ρ` belongs to tree `r`, one root per tree) a vector `res` that sums to zero
on every tree is in the range of the edge–node incidence matrix. -/
theorem forest_flow [AddCommGroup α] (D N : Nat) (c p : Nat → Nat) (res : Nat → α)
    (cls : Nat → Nat → Prop)
    (hpc : ∀ o, o < N → p o < c o) (hcD : ∀ o, o < N → c o < D)
    (hcinj : ∀ o o', o < N → o' < N → c o = c o' → o = o')
    (hcl : ∀ o, o < N → ∀ r, (cls (c o) r ↔ cls (p o) r))
    (hcov : ∀ ρ, ρ < D → ∃ r, cls ρ r)
    (hroot : ∀ r ρ1 ρ2, ρ1 < D → ρ2 < D → cls ρ1 r → cls ρ2 r →
        (∀ o, o < N → c o ≠ ρ1) → (∀ o, o < N → c o ≠ ρ2) → ρ1 = ρ2)
    (hsum : ∀ r, (∑ ρ ∈ Finset.range D, if cls ρ r then res ρ else 0) = 0) :
    ∃ w : Nat → α, ∀ ρ, ρ < D →
      (∑ o ∈ Finset.range N, ((if c o = ρ then w o else 0) - (if p o = ρ then w o else 0))) = res ρ :=
  Clarabel.Chordal.forest_flow D N c p res cls hpc hcD hcinj hcl hcov hroot hsum

/-- non-vacuity of `forest_flow`: two nodes, one edge `1 → 0`, residual `(-5, 5)` -/
example : ∃ w : Nat → Int, ∀ ρ, ρ < 2 →
    (∑ o ∈ Finset.range 1, ((if (fun _ => 1) o = ρ then w o else 0) - (if (fun _ => 0) o = ρ then w o else 0))) =
      (fun ρ => if ρ = 0 then (-5 : Int) else 5) ρ :=
  forest_flow 2 1 (fun _ => 1) (fun _ => 0) (fun ρ => if ρ = 0 then (-5 : Int) else 5) (fun _ r => r = 0)
    (fun _ _ => by decide) (fun _ _ => by decide) (fun o o' ho ho' _ => by omega)
    (fun _ _ _ => Iff.rfl) (fun _ _ => ⟨0, rfl⟩)
    (fun r ρ1 ρ2 h1 h2 _ _ n1 n2 => by
      have e1 : ρ1 = 0 := by
        rcases Nat.eq_zero_or_pos ρ1 with h | h
        · exact h
        · exact absurd (show (1 : Nat) = ρ1 by omega) (n1 0 (by decide))
      have e2 : ρ2 = 0 := by
        rcases Nat.eq_zero_or_pos ρ2 with h | h
        · exact h
        · exact absurd (show (1 : Nat) = ρ2 by omega) (n2 0 (by decide))
      rw [e1, e2])
    (fun r => by
      by_cases h : r = 0
      · subst h; simp [Finset.sum_range_succ]
      · simp [h])

/-- [S] `compact_b`: **`b_new[NewRow r] = b[r]`** as an equation — on valid input the right-hand
side of the compact problem holds `b[r]` in the new row of EVERY original row `r` (zero or not;
different rows have different new rows, `compact_rows_exactly_once`) and, by `compact_assembled`,
`0` in every other row. -/
theorem compact_b [Ring α] [BEq α] [LawfulBEq α] (ci : ChordalInfo) (A : Csc α)
    (b : Array α) (H : CompactHyp ci A (bIndOf b)) (hnz : A.colptr.getD A.n 0 ≤ A.nzval.size)
    (hpos : A.colptr.getD A.n 0 + 2 * ci.ovBefore ci.initCones.size ≠ 0) :
    ∃ tr Anew bnew, findCompactTriplets ci A b = .ok tr ∧
      findCompactAbAndCones ci A b = .ok (Anew, bnew, tr.conesNew, tr.coneMaps) ∧
      bnew.size = tr.dim ∧
      ∀ r v, NewRow ci r v → bnew.getD v 0 = b.getD r 0 :=
  compact_b_eq ci A b H hnz hpos

example : ∃ bnew : Array Int, ∀ r v, NewRow exCi r v → bnew.getD v 0 = exb.getD r 0 := by
  obtain ⟨_, _, bnew, _, _, _, h⟩ := compact_b exCi exA exb exHyp ex_hnz ex_hpos
  exact ⟨bnew, h⟩

/-- [S] `compact_objective`: `decomp_augment_compact` on valid input does not panic, returns the
`A_new`, `b_new`, cones and cone maps of `find_compact_A_b_and_cones`, adds exactly `n_overlaps`
variables, and gives them ZERO cost: `P_new` is `P` followed by `n_overlaps` empty columns
(`blockdiag(P, 0)`) and `q_new = (q, 0, …, 0)`;  [F] hence `⟨q_new, (x, w)⟩ = ⟨q, x⟩` for every
value `w` of the overlap variables — the compact problem has the objective of the original one. -/
theorem compact_objective [Ring α] [BEq α] (ci : ChordalInfo) (P : Csc α) (q : Array α)
    (A : Csc α) (b : Array α) (H : CompactHyp ci A (bIndOf b)) (hnz : A.colptr.getD A.n 0 ≤ A.nzval.size)
    (hpos : A.colptr.getD A.n 0 + 2 * ci.ovBefore ci.initCones.size ≠ 0)
    (hcp : P.colptr.size = P.n + 1) :
    ∃ tr Anew bnew Pnew qnew, findCompactTriplets ci A b = .ok tr ∧
      findCompactAbAndCones ci A b = .ok (Anew, bnew, tr.conesNew, tr.coneMaps) ∧
      decompAugmentCompact ci P q A b = .ok (Pnew, qnew, Anew, bnew, tr.conesNew, tr.coneMaps) ∧
      Anew.n = A.n + tr.nOverlaps ∧
      Pnew.m = P.m + tr.nOverlaps ∧ Pnew.n = P.n + tr.nOverlaps ∧
      (∀ j, j < P.n → Pnew.col j = P.col j) ∧
      (∀ j, j < tr.nOverlaps → Pnew.col (P.n + j) = []) ∧
      qnew = q ++ Array.replicate tr.nOverlaps 0 ∧
      ∀ x w : Array α, x.size = q.size → Vec.dot qnew (x ++ w) = Vec.dot q x := by
  obtain ⟨tr, Anew, bnew, h1, h2, h3, h4⟩ := decompAugmentCompact_spec ci P q A b H hnz hpos
  obtain ⟨p1, p2, p3, p4⟩ := padSquare_cols P tr.nOverlaps hcp
  exact ⟨tr, Anew, bnew, _, _, h1, h2, h4, h3, p1, p2, p3, p4, rfl,
    fun x w hx => dot_pad_zeros q x w tr.nOverlaps hx⟩

example : ∃ r, decompAugmentCompact exCi (⟨1, 1, #[0, 1], #[0], #[4]⟩ : Csc Int) #[9] exA exb = .ok r := by
  obtain ⟨_, _, _, _, _, _, _, h, _⟩ := compact_objective exCi (⟨1, 1, #[0, 1], #[0], #[4]⟩ : Csc Int) #[9]
    exA exb exHyp ex_hnz ex_hpos rfl
  exact ⟨_, h⟩

open Classical in
/-- [F] `compact_roundtrip`: on valid input let `tr` be the triplets of the compact problem and let
`(xx, old_s)` satisfy its equalities (`xx` the `n + n_overlaps` variables, `old_s` the slack).  Then
`decomp_reverse_compact`, run on the cone list and the cone maps that the transformation itself
produced, does not panic and returns `(s, z)` of the ORIGINAL length `m` such that every original row
`r` satisfies `(A x)[r] + s[r] = b[r]`, where `x` is the first `n` entries of `xx` (the original
entries have column index `A_J[k] < n`; `decomp_reverse` copies `x = xx[0..n]`).  The reversed point
satisfies the original equalities (`compact_equiv` ∘ `compact_equiv_slack` ∘ `reverse_compact`). -/
theorem compact_roundtrip [Ring α] [BEq α] (ci : ChordalInfo) (A : Csc α) (b : Array α)
    (H : CompactHyp ci A (bIndOf b)) (hnz : A.colptr.getD A.n 0 ≤ A.nzval.size)
    (hpos : A.colptr.getD A.n 0 + 2 * ci.ovBefore ci.initCones.size ≠ 0)
    (hfit : ∀ c, c < ci.initCones.size → ci.rs c + ci.nv c ≤ ci.initDims.2) :
    ∃ tr, findCompactTriplets ci A b = .ok tr ∧
      (∀ k, k < A.colptr.getD A.n 0 → tr.AaJ.getD k 0 < A.n) ∧
      ∀ (xx : Nat → α) (oldS oldZ : Array α), tr.dim ≤ oldS.size → tr.dim ≤ oldZ.size →
        (∀ ρ, ρ < tr.dim →
          (∑ k ∈ Finset.range tr.AaI.size,
              if tr.AaI.getD k 0 = ρ then tr.AaV.getD k 0 * xx (tr.AaJ.getD k 0) else 0) + oldS.getD ρ 0 =
          ∑ k ∈ Finset.range tr.bInd.size, if tr.baI.getD k 0 = ρ then tr.bVal.getD k 0 else 0) →
        ∃ s z, decompReverseCompact ci tr.coneMaps tr.conesNew oldS oldZ = .ok (s, z) ∧
          s.size = ci.initDims.2 ∧ z.size = ci.initDims.2 ∧
          ∀ r,
            (∑ k ∈ Finset.range (A.colptr.getD A.n 0),
                if A.rowval.getD k 0 = r then A.nzval.getD k 0 * xx (tr.AaJ.getD k 0) else 0) +
              s.getD r 0 =
            ∑ k ∈ Finset.range tr.bInd.size, if tr.bInd.getD k 0 = r then tr.bVal.getD k 0 else 0 :=
  Clarabel.Chordal.compact_roundtrip ci A b H hnz hpos hfit

example : ∃ tr, findCompactTriplets exCi exA exb = .ok tr := by
  obtain ⟨tr, h, _⟩ := compact_roundtrip exCi exA exb exHyp ex_hnz ex_hpos (by
    intro c hc
    have : c = 0 := by
      have : c < 1 := hc
      omega
    subst this; decide)
  exact ⟨tr, h⟩

/-- [F] `standard_roundtrip`: let `(x, y)` and the slack `(s₀, s̃)`, `s₀ = 0` (zero cone), satisfy the
augmented equalities `[A H; 0 -I](x, y) + (s₀, s̃) = (b, 0)` of the standard form (`ax` stands for
`A x`).  Then `decomp_reverse_standard` applied to `old_s = (s₀, s̃)` does not panic and returns
`(s, z)` of the original length `m` with `y = s̃`, `s = H s̃` (sum of the scattered blocks) and
`A x + s = b` in every row (`standard_equiv_blocks` ∘ `reverse_standard_blocks`). -/
theorem standard_roundtrip [Ring α] [Div α] [LT α] [DecidableLT α] (ci : ChordalInfo) (h : StdH)
    (hok : ci.findStandardHAndCones = .ok h) (hci : ci.StdOK) (s0 st oldZ : Array α)
    (ax b y : Nat → α) (hs0 : s0.size = h.rows) (hst : st.size = h.lenH)
    (hZ : oldZ.size = h.rows + h.lenH)
    (haug : (∀ r, r < h.rows → ax r + blockSum (stdBlocks ci) 0 y r + 0 = b r) ∧
      (∀ j, j < h.lenH → - y j + st.getD j 0 = 0)) :
    ∃ s z : Array α, decompReverseStandard h h.rows (s0 ++ st) oldZ = .ok (s, z) ∧
      s.size = h.rows ∧ z.size = h.rows ∧
      (∀ j, j < h.lenH → y j = st.getD j 0) ∧
      (∀ r, r < h.rows → s.getD r 0 = blockSum (stdBlocks ci) 0 (fun j => st.getD j 0) r) ∧
      ∀ r, r < h.rows → ax r + s.getD r 0 = b r :=
  Clarabel.Chordal.standard_roundtrip ci h hok hci s0 st oldZ ax b y hs0 hst hZ haug

/-- non-vacuity of `standard_roundtrip`: `x = 0`, `y = s̃ = (10, 1, 2, 3, 4, 5, 6)`, `b = H s̃` -/
example := standard_roundtrip (α := Rat) exStdCi exStdH exStd_ok exStdCi_ok
  (Array.replicate 7 0) #[10, 1, 2, 3, 4, 5, 6] (Array.replicate 14 0) (fun _ => 0)
  (fun r => blockSum (stdBlocks exStdCi) 0 (fun j => (#[10, 1, 2, 3, 4, 5, 6] : Array Rat).getD j 0) r)
  (fun j => (#[10, 1, 2, 3, 4, 5, 6] : Array Rat).getD j 0) rfl rfl rfl
  ⟨fun r _ => by simp, fun j _ => by simp⟩

/-! ## the completion recurrence of `psd_complete`
(`ClarabelProofs/Lemmas/ChordalCompletionRecurrence.lean`)

Index sets of pass `j` (tree coordinates): `ν = snodeAt j`, `α = sepAt j`, `η = etaAt t N j`
(the vertices after `ν[0]` outside clique `j`).  `StepFormula t N j W Y` says
`W[(η[a], ν[b])] = W[(ν[b], η[a])] = Σ_k W[(η[a], α[k])] · Y[k][b]`, i.e. `Wην = Wηα · Y = (Wνη)ᵀ`;
`ProductOf t N j W Y f` says that the external step returned `f = ` entries of `Wηα · Y` computed on
the state `W` it was given; `blockAA` / `blockAN` are the blocks `Wαα`, `Wαν`. -/

/-- [S] `completion_step_values`: pass `j` of the main loop on a valid tree, given the values `f`
of the external step: it does not panic, stores `f (a, b)` at `W[(η[a], ν[b])]` and at
`W[(ν[b], η[a])]` (every position written exactly once) and changes nothing else. -/
theorem completion_step_values {α : Type} (ext : Nat → Array α → MErr (Nat × Nat → α))
    {t : SuperNodeTree} {N : Nat} (h : ValidTree t N) {j : Nat} (hj : j < t.nCliques)
    (W : Array α) (hW : W.size = N * N) (f : Nat × Nat → α) (hf : ext j W = .ok f) :
    ∃ W', psdCompleteStepData ext t N j W = .ok W' ∧ W'.size = N * N ∧
      (∀ k, k ∉ (stepPositions t N j).map (linIdx N) → W'[k]? = W[k]?) ∧
      (∀ a b x v, (etaAt t N j)[a]? = some x → (t.snodeAt j)[b]? = some v →
        W'[linIdx N (x, v)]? = some (f (a, b)) ∧ W'[linIdx N (v, x)]? = some (f (a, b))) :=
  psdCompleteStepData_values ext h hj W hW f hf

example : ∃ W', psdCompleteStepData (α := Nat) (fun _ _ => .ok (fun _ => 7)) exPattern.sntree 3 0
    #[1, 2, 0, 2, 3, 4, 0, 4, 5] = .ok W' :=
  let ⟨W', h, _⟩ := completion_step_values (α := Nat) (fun _ _ => .ok (fun _ => 7))
    (t := exPattern.sntree) (N := 3) exPattern_valid.tree (j := 0) (by decide)
    #[1, 2, 0, 2, 3, 4, 0, 4, 5] rfl _ rfl
  ⟨W', h⟩

/-- [F] `completion_recurrence`: let `C j Wαα Wαν Y` be any contract between the blocks handed to
the solver in pass `j` and its result `Y` (Cholesky: `Wαα · Y = Wαν`; SVD fallback:
`Y = Wαα⁺ · Wαν`).  IF in every pass the external step (LAPACK / BLAS, a parameter of the model)
returns the entries of `Wηα · Y` for a `Y` satisfying the contract on the state it is given, and
`psd_complete` returns `B`, THEN `B` is the un-permuted copy `B[(ordering[x], ordering[y])] =
W[(x, y)]` of a matrix `W` on which EVERY pass `j = 0, …, n_cliques - 2` has a `Y` satisfying the
contract with the FINAL blocks `Wαα`, `Wαν` and `Wην = Wηα · Y = (Wνη)ᵀ` — the completion formula
`Wην = Wηα Wαα⁺ Wαν` of Vandenberghe–Andersen holds on the completed matrix for every clique
(the blocks read and written by pass `j` are not touched by the later passes).  That the formula
yields a POSITIVE SEMIDEFINITE completion is the Grone–Johnson–Sá–Wolkowicz theorem (assumed). -/
theorem completion_recurrence {α : Type} [Semiring α] (ext : Nat → Array α → MErr (Nat × Nat → α))
    {p : SPattern} (h : ValidPattern p)
    (C : Nat → (Nat → Nat → α) → (Nat → Nat → α) → (Nat → Nat → α) → Prop)
    (hext : ∀ j W0 f, j < p.sntree.nCliques → W0.size = p.ordering.size * p.ordering.size →
      ext j W0 = .ok f →
      ∃ Y, C j (blockAA p.sntree p.ordering.size j W0) (blockAN p.sntree p.ordering.size j W0) Y ∧
        ProductOf p.sntree p.ordering.size j W0 Y f)
    (A B : Array α) (hB : psdComplete ext A p.ordering.size p = .ok B) :
    ∃ W : Array α, W.size = p.ordering.size * p.ordering.size ∧
      (∀ x y, x < p.ordering.size → y < p.ordering.size →
        B[linIdx p.ordering.size (p.ordering.getD x 0, p.ordering.getD y 0)]? =
          W[linIdx p.ordering.size (x, y)]?) ∧
      ∀ j, j + 1 < p.sntree.nCliques →
        ∃ Y, C j (blockAA p.sntree p.ordering.size j W) (blockAN p.sntree p.ordering.size j W) Y ∧
          StepFormula p.sntree p.ordering.size j W Y :=
  psdComplete_recurrence ext h C hext A B hB

/-- non-vacuity of `completion_recurrence` for EVERY valid pattern and `N × N` input: the external
step `productExt` really computes `Wηα · Y` with `Y := Wαν` (contract `Y = Wαν`: the solve with
`Wαα = I`); `psd_complete` returns (`completion_no_panic`) and the theorem applies -/
example (p : SPattern) (h : ValidPattern p) (A : Array Int)
    (hA : A.size = p.ordering.size * p.ordering.size) :
    ∃ B W : Array Int, psdComplete (productExt p.sntree p.ordering.size) A p.ordering.size p = .ok B ∧
      ∀ j, j + 1 < p.sntree.nCliques →
        StepFormula p.sntree p.ordering.size j W (blockAN p.sntree p.ordering.size j W) := by
  obtain ⟨B, hB⟩ := completion_no_panic (productExt p.sntree p.ordering.size) (fun _ _ => ⟨_, rfl⟩) h A hA
  obtain ⟨W, _, _, hW⟩ := completion_recurrence (productExt p.sntree p.ordering.size) h
    (fun _ _ AN Y => Y = AN)
    (fun j W0 f _ _ hf => productExt_contract p.sntree p.ordering.size j W0 f hf) A B hB
  refine ⟨B, W, hB, fun j hj => ?_⟩
  obtain ⟨Y, hY, hF⟩ := hW j hj
  rw [← hY]; exact hF

/-- … and the model computes: on the path `0 — 1 — 2` with `W[(2,1)] = 4`, `W[(1,0)] = 2` the
completed entry is `W[(2,0)] = W[(0,2)] = 4 · 2` -/
example : psdComplete (α := Int) (productExt exPattern.sntree 3) #[1, 2, 0, 2, 3, 4, 0, 4, 5] 3 exPattern =
    .ok #[1, 2, 8, 2, 3, 4, 8, 4, 5] := by decide

/-! ## all three merge strategies (`none`, `parent_child`, `clique_graph`)

C17's `analysis_clique_graph_valid` closes the last strategy: every theorem of this file whose
hypotheses are `ValidPattern` / `ValidInfo` / `StdOK` / `CompactHyp` / `FromAnalysis` now applies to
the output of `SparsityPattern::new` whatever `chordal_decomposition_merge_method` is. -/

/-- [S] `decomposition_of_analysis` (strategy `clique_graph`): for a filled pattern `L`, a
permutation `ordering` and pattern entries inside `L`, `SparsityPattern::new(L, ordering,
"clique_graph")` — reduced clique graph, merge loop, Kruskal's maximum-weight spanning tree,
`post_process_merge`, `reorder_snode_consecutively`, `calculate_block_dimensions` — returns without
panic a tree that, whenever it is stored (more than one clique), satisfies every pattern hypothesis
of the theorems of this file (the SAME conclusion as for `none` / `parent_child`). -/
theorem decomposition_of_analysis_clique_graph {L : LPat} (h : L.Filled) (ordering : Array Nat)
    (ho : ordering.toList.Perm (List.range L.n)) (edges : List (Nat × Nat))
    (hedges : ∀ e ∈ edges, ∃ a b, a < L.n ∧ b < L.n ∧ ordering[a]? = some e.1 ∧
        ordering[b]? = some e.2 ∧ (b ∈ L.col a ∨ a ∈ L.col b)) (oi : Nat) :
    ∃ tf ord', sparsityPatternNewCG L ordering = .ok (tf, ord') ∧
      (tf.nCliques ≠ 1 →
        ValidPattern ⟨tf, ord', oi⟩ ∧ StdPatternOK ⟨tf, ord', oi⟩ L.n ∧ ord'.size = L.n ∧
        ∀ e ∈ edges, ∃ i, i < tf.nCliques ∧
          e.1 ∈ (⟨tf, ord', oi⟩ : SPattern).cliqueO i ∧ e.2 ∈ (⟨tf, ord', oi⟩ : SPattern).cliqueO i) :=
  Clarabel.Chordal.decomposition_of_analysis_cg h ordering ho edges hedges oi

/-- non-vacuity: the hypotheses are those of `decomposition_of_analysis_none` (path graph) -/
example : ∃ tf ord', sparsityPatternNewCG exPathL #[2, 0, 1] = .ok (tf, ord') :=
  let ⟨tf, ord', h, _⟩ := decomposition_of_analysis_clique_graph
    ((LPat.filledB_iff _).1 (by decide) : exPathL.Filled) #[2, 0, 1] (by decide) [(0, 1), (1, 2)]
    (LPat.edgesInB_sound exPathL #[2, 0, 1] [(0, 1), (1, 2)] (by decide)) 0
  ⟨tf, ord', h⟩

/-- [S] `decomposition_of_analysis` (EVERY strategy): `sparsityPatternNewAll L ordering mm` is
`SparsityPattern::new(L, ordering, ·, mm)`; for each of the three accepted values of
`chordal_decomposition_merge_method` it returns without panic and the stored tree satisfies every
pattern hypothesis of this file. -/
theorem decomposition_of_analysis {L : LPat} (h : L.Filled) (ordering : Array Nat)
    (ho : ordering.toList.Perm (List.range L.n)) (edges : List (Nat × Nat))
    (hedges : ∀ e ∈ edges, ∃ a b, a < L.n ∧ b < L.n ∧ ordering[a]? = some e.1 ∧
        ordering[b]? = some e.2 ∧ (b ∈ L.col a ∨ a ∈ L.col b)) (oi : Nat) (mm : String)
    (hmm : mm = "none" ∨ mm = "parent_child" ∨ mm = "clique_graph") :
    ∃ tf ord', sparsityPatternNewAll L ordering mm = .ok (tf, ord') ∧
      (tf.nCliques ≠ 1 →
        ValidPattern ⟨tf, ord', oi⟩ ∧ StdPatternOK ⟨tf, ord', oi⟩ L.n ∧ ord'.size = L.n ∧
        ∀ e ∈ edges, ∃ i, i < tf.nCliques ∧
          e.1 ∈ (⟨tf, ord', oi⟩ : SPattern).cliqueO i ∧ e.2 ∈ (⟨tf, ord', oi⟩ : SPattern).cliqueO i) :=
  Clarabel.Chordal.decomposition_of_analysis_all h ordering ho edges hedges oi mm hmm

example : ∃ tf ord', sparsityPatternNewAll exPathL #[2, 0, 1] "clique_graph" = .ok (tf, ord') :=
  let ⟨tf, ord', h, _⟩ := decomposition_of_analysis
    ((LPat.filledB_iff _).1 (by decide) : exPathL.Filled) #[2, 0, 1] (by decide) [(0, 1), (1, 2)]
    (LPat.edgesInB_sound exPathL #[2, 0, 1] [(0, 1), (1, 2)] (by decide)) 0 "clique_graph"
    (.inr (.inr rfl))
  ⟨tf, ord', h⟩

/-- [F] `standard_of_analysis` (end to end, standard form, every merge strategy): if every stored
pattern is an analysis result (`FromAnalysis`), `find_standard_H_and_cones` does not panic, every
column of `H` has its `1` in a row `< rows`, and for every point `(x, y)`, slack `(s₀, s̃)` that
satisfies the augmented equalities `[A H; 0 -I](x, y) + (s₀, s̃) = (b, 0)` (`ax` = `A x`),
`decomp_reverse_standard` returns `(s, z)` of the original length with `y = s̃` and
`A x + s = b` in every row. -/
theorem standard_of_analysis [Ring α] [Div α] [LT α] [DecidableLT α] {ci : ChordalInfo}
    {E : Nat → List (Nat × Nat)} (hA : FromAnalysis ci E) :
    ∃ h, ci.findStandardHAndCones = .ok h ∧
      (∀ j, j < h.HI.size → h.HI.getD j 0 < h.rows) ∧
      ∀ (s0 st oldZ : Array α) (ax b y : Nat → α), s0.size = h.rows → st.size = h.lenH →
        oldZ.size = h.rows + h.lenH →
        ((∀ r, r < h.rows → ax r + blockSum (stdBlocks ci) 0 y r + 0 = b r) ∧
          (∀ j, j < h.lenH → - y j + st.getD j 0 = 0)) →
        ∃ s z : Array α, decompReverseStandard h h.rows (s0 ++ st) oldZ = .ok (s, z) ∧
          s.size = h.rows ∧ z.size = h.rows ∧
          (∀ j, j < h.lenH → y j = st.getD j 0) ∧
          ∀ r, r < h.rows → ax r + s.getD r 0 = b r := by
  have hci := (hypotheses_of_analysis hA).1
  obtain ⟨h, hok, hlt, _⟩ := H_no_panic ci hci
  refine ⟨h, hok, hlt, fun s0 st oldZ ax b y hs0 hst hZ haug => ?_⟩
  obtain ⟨s, z, h1, h2, h3, h4, _, h6⟩ :=
    standard_roundtrip ci h hok hci s0 st oldZ ax b y hs0 hst hZ haug
  exact ⟨s, z, h1, h2, h3, h4, h6⟩

open Classical in
/-- [F] `compact_of_analysis` (end to end, compact form, every merge strategy): if every stored
pattern is an analysis result (`FromAnalysis ci E`) and the data are well formed — `A` a CSC matrix
with at least one column and one stored entry or overlap, every stored row of `A` and every
non-zero of `b` lies in a cone, those inside a decomposed cone are pattern entries `E c` handed to
the analysis, the cones fit into `m` rows — then `find_compact_A_b_and_cones` does not panic and
* (⇐) every solution of the ORIGINAL equalities with `S = Σ_K E_Kᵀ S_K E_K` extends by overlap
  variables to a solution of the compact equalities (`compact_equiv_converse`),
* (⇒, round trip) every solution `(xx, old_s)` of the compact equalities is mapped by
  `decomp_reverse_compact` (on the cone list / cone maps of the transformation) to `(s, z)` of the
  original length `m` with `(A x)[r] + s[r] = b[r]` in every original row (`compact_roundtrip`). -/
theorem compact_of_analysis [Ring α] [BEq α] {ci : ChordalInfo} {E : Nat → List (Nat × Nat)}
    (hA : FromAnalysis ci E) (A : Csc α) (b : Array α) (wf : CscWF A) (ncols : 0 < A.n)
    (rowsA : ∀ slot, slot < A.colptr.getD A.n 0 →
      ∃ c, c < ci.initCones.size ∧ ci.rs c ≤ A.rowval.getD slot 0 ∧ A.rowval.getD slot 0 < ci.rs c + ci.nv c)
    (rowsB : ∀ slot, slot < (bIndOf b).size →
      ∃ c, c < ci.initCones.size ∧ ci.rs c ≤ (bIndOf b).getD slot 0 ∧ (bIndOf b).getD slot 0 < ci.rs c + ci.nv c)
    (entA : ∀ slot, slot < A.colptr.getD A.n 0 → ∀ c, c < ci.initCones.size → (ci.patAt c).isSome →
      ci.rs c ≤ A.rowval.getD slot 0 → A.rowval.getD slot 0 < ci.rs c + ci.nv c →
      upperTriangularIndexToCoord (A.rowval.getD slot 0 - ci.rs c) ∈ E c)
    (entB : ∀ slot, slot < (bIndOf b).size → ∀ c, c < ci.initCones.size → (ci.patAt c).isSome →
      ci.rs c ≤ (bIndOf b).getD slot 0 → (bIndOf b).getD slot 0 < ci.rs c + ci.nv c →
      upperTriangularIndexToCoord ((bIndOf b).getD slot 0 - ci.rs c) ∈ E c)
    (hnz : A.colptr.getD A.n 0 ≤ A.nzval.size)
    (hpos : A.colptr.getD A.n 0 + 2 * ci.ovBefore ci.initCones.size ≠ 0)
    (hfit : ∀ c, c < ci.initCones.size → ci.rs c + ci.nv c ≤ ci.initDims.2) :
    ∃ tr, findCompactTriplets ci A b = .ok tr ∧
      (∀ (x st : Nat → α),
        (∀ r,
          (∑ k ∈ Finset.range (A.colptr.getD A.n 0),
              if A.rowval.getD k 0 = r then A.nzval.getD k 0 * x (tr.AaJ.getD k 0) else 0) +
            (∑ ρ ∈ Finset.range tr.dim, if OrigOf ci ρ r then st ρ else 0) =
          ∑ k ∈ Finset.range tr.bInd.size, if tr.bInd.getD k 0 = r then tr.bVal.getD k 0 else 0) →
        ∃ xx : Nat → α, (∀ j, j < A.n → xx j = x j) ∧
          ∀ ρ, ρ < tr.dim →
            (∑ k ∈ Finset.range tr.AaI.size,
                if tr.AaI.getD k 0 = ρ then tr.AaV.getD k 0 * xx (tr.AaJ.getD k 0) else 0) + st ρ =
            ∑ k ∈ Finset.range tr.bInd.size, if tr.baI.getD k 0 = ρ then tr.bVal.getD k 0 else 0) ∧
      (∀ (xx : Nat → α) (oldS oldZ : Array α), tr.dim ≤ oldS.size → tr.dim ≤ oldZ.size →
        (∀ ρ, ρ < tr.dim →
          (∑ k ∈ Finset.range tr.AaI.size,
              if tr.AaI.getD k 0 = ρ then tr.AaV.getD k 0 * xx (tr.AaJ.getD k 0) else 0) + oldS.getD ρ 0 =
          ∑ k ∈ Finset.range tr.bInd.size, if tr.baI.getD k 0 = ρ then tr.bVal.getD k 0 else 0) →
        ∃ s z, decompReverseCompact ci tr.coneMaps tr.conesNew oldS oldZ = .ok (s, z) ∧
          s.size = ci.initDims.2 ∧ z.size = ci.initDims.2 ∧
          ∀ r,
            (∑ k ∈ Finset.range (A.colptr.getD A.n 0),
                if A.rowval.getD k 0 = r then A.nzval.getD k 0 * xx (tr.AaJ.getD k 0) else 0) +
              s.getD r 0 =
            ∑ k ∈ Finset.range tr.bInd.size, if tr.bInd.getD k 0 = r then tr.bVal.getD k 0 else 0) := by
  have H : CompactHyp ci A (bIndOf b) :=
    compact_hyp_of_analysis hA A (bIndOf b) wf ncols (bIndOf_strict b) rowsA rowsB entA entB
  obtain ⟨tr, h1, hconv⟩ := compact_equiv_converse ci A b H hnz hpos
  obtain ⟨tr', h1', _, hrt⟩ := compact_roundtrip ci A b H hnz hpos hfit
  rw [h1] at h1'
  obtain rfl := Except.ok.inj h1'
  exact ⟨tr, h1, hconv, hrt⟩

/-- non-vacuity of `standard_of_analysis` / `compact_of_analysis`: `FromAnalysis` holds for the
analysis result of the path graph under EACH of the three strategies as soon as that result has more
than one clique (conditional for the reason given at `hypotheses_of_analysis`: the kernel cannot
unfold the merge sort inside the analysis model; the driver evaluates it to two cliques) -/
example (mm : String) (hmm : mm = "none" ∨ mm = "parent_child" ∨ mm = "clique_graph") :
    ∃ tf ord', sparsityPatternNewAll exPathL #[2, 0, 1] mm = .ok (tf, ord') ∧
    (tf.nCliques ≠ 1 →
      FromAnalysis { initDims := (1, 6), initCones := #[.psd 3], spatterns := #[⟨tf, ord', 0⟩] }
        (fun _ => [(0, 1), (1, 2)])) := by
  have hf : exPathL.Filled := (LPat.filledB_iff _).1 (by decide)
  have ho : (#[2, 0, 1] : Array Nat).toList.Perm (List.range exPathL.n) := by decide
  have he := LPat.edgesInB_sound exPathL #[2, 0, 1] [(0, 1), (1, 2)] (by decide)
  obtain ⟨tf, ord', h1, _⟩ := decomposition_of_analysis hf #[2, 0, 1] ho _ he 0 mm hmm
  refine ⟨tf, ord', h1, fun hne k p hk => ?_⟩
  have hk0 : k = 0 := by
    rcases Nat.eq_zero_or_pos k with h | h
    · exact h
    · exfalso
      have : (#[(⟨tf, ord', 0⟩ : SPattern)])[k]? = none := by
        rw [Array.getElem?_eq_none]; simp; omega
      rw [this] at hk; cases hk
  subst hk0
  have hp : p = ⟨tf, ord', 0⟩ := by
    have : (#[(⟨tf, ord', 0⟩ : SPattern)])[0]? = some ⟨tf, ord', 0⟩ := rfl
    rw [this] at hk; exact (Option.some.inj hk).symm
  subst hp
  exact ⟨hne, exPathL, #[2, 0, 1], mm, hmm, hf, ho, he, h1, rfl⟩

/-- … and the data hypotheses of `compact_of_analysis` are those of `compact_rows` (`exHyp`) -/
example : CscWF exA ∧ 0 < exA.n := ⟨exHyp.wf, exHyp.ncols⟩

/-! ## no clique below the root has an empty separator
(`ClarabelProofs/Lemmas/ChordalSepNonempty.lean`)

`psd_complete` hands the blocks `Wαα` (`|α| × |α|`, `α` = separator of clique `j`) to LAPACK in
every pass `j = n_cliques - 2, …, 0`; with `α = ∅` both `?potrf` and `?gesdd` reject `lda = 0` and
`svd.factor(..).unwrap()` panics.  A valid clique tree alone does not exclude that
(`exDiscTree` below: two isolated vertices); what excludes it is that the analysed graph is
CONNECTED — `connect_graph` (`chordal_info.rs`) inserts an entry into every empty column of `L`, the
clause `connected` of `LPat.Filled` — together with coverage and the running intersection
property. -/

/-- [S] `separator_nonempty_of_connected`: for a valid pattern whose cliques (sorted original
coordinates) cover the entries `edges` of a graph that is connected on `0 .. N-1` (cut form: every
non-empty proper subset of the vertices is left by some edge), every clique other than the root
(post-order index `i < n_cliques - 1`) has a non-empty separator. -/
theorem separator_nonempty_of_connected {p : SPattern} (hp : ValidPattern p)
    (edges : List (Nat × Nat))
    (hcov : ∀ e ∈ edges, ∃ i, i < p.sntree.nCliques ∧ e.1 ∈ p.cliqueO i ∧ e.2 ∈ p.cliqueO i)
    (hconn : ∀ S : Nat → Prop, (∃ x, x < p.ordering.size ∧ S x) →
        (∃ y, y < p.ordering.size ∧ ¬ S y) →
        ∃ x y, (x, y) ∈ edges ∧ ((S x ∧ ¬ S y) ∨ (S y ∧ ¬ S x))) :
    ∀ i, i + 1 < p.sntree.nCliques → p.sntree.sepAt i ≠ [] :=
  hp.sep_ne_nil_of_connected edges hcov hconn

/-- non-vacuity: the path `0 — 1 — 2` (`exPattern`); its clique 0 has the separator `{1}` -/
example : exPattern.sntree.sepAt 0 = [1] := by decide

/-- [S] `analysis_separator_nonempty`: for EVERY filled pattern `L` (connected: `connect_graph`),
every permutation `ordering` and each of the three merge strategies, `SparsityPattern::new` returns
a tree in which no clique other than the root has an empty separator; in the vocabulary of
`psd_complete`: in every pass `j` of its main loop `get_separators(j)` returns (no panic) a
non-empty `α`, so LAPACK is never handed a `0 × 0` block. -/
theorem analysis_separator_nonempty {L : LPat} (h : L.Filled) (ordering : Array Nat)
    (ho : ordering.toList.Perm (List.range L.n)) (mm : String)
    (hmm : mm = "none" ∨ mm = "parent_child" ∨ mm = "clique_graph") :
    ∃ tf ord', sparsityPatternNewAll L ordering mm = .ok (tf, ord') ∧
      (∀ i, i + 1 < tf.nCliques → tf.sepAt i ≠ []) ∧
      (∀ j, j + 1 < tf.nCliques → ∃ α, tf.getSeparators j = .ok α ∧ α.size ≠ 0) := by
  obtain ⟨tf, ord', h1, h2⟩ := analysis_separators_nonempty h ordering ho mm hmm
  obtain ⟨tf', ord'', h1', h3⟩ := analysis_getSeparators_nonempty h ordering ho mm hmm
  rw [h1] at h1'
  obtain ⟨rfl, rfl⟩ := Prod.mk.inj (Except.ok.inj h1')
  exact ⟨tf, ord', h1, h2, h3⟩

example (mm : String) (hmm : mm = "none" ∨ mm = "parent_child" ∨ mm = "clique_graph") :
    ∃ tf ord', sparsityPatternNewAll exPathL #[2, 0, 1] mm = .ok (tf, ord') :=
  let ⟨tf, ord', h, _⟩ := analysis_separator_nonempty
    ((LPat.filledB_iff _).1 (by decide) : exPathL.Filled) #[2, 0, 1] (by decide) mm hmm
  ⟨tf, ord', h⟩

/-- [S] `completion_separator_nonempty`: the same for every stored pattern of a `ChordalInfo`
built by the analysis (`FromAnalysis`, any strategy) — the patterns on which `psd_completion` runs
`psd_complete`. -/
theorem completion_separator_nonempty {ci : ChordalInfo} {E : Nat → List (Nat × Nat)}
    (h : FromAnalysis ci E) (k : Nat) (p : SPattern) (hk : ci.spatterns[k]? = some p) :
    (∀ i, i + 1 < p.sntree.nCliques → p.sntree.sepAt i ≠ []) ∧
    (∀ j, j + 1 < p.sntree.nCliques → ∃ α, p.sntree.getSeparators j = .ok α ∧ α.size ≠ 0) :=
  ⟨h.separators_nonempty k p hk, h.getSeparators_size_ne_zero k p hk⟩

/-- [S] WHEN an empty separator below the root CAN occur: only on a tree that does not come from
the analysis of a connected pattern.  `exDiscTree` — two isolated vertices, cliques `{0}`, `{1}` —
satisfies `ValidTree` (validity knows nothing about connectivity), its clique 0 is not the root and
has the separator `∅`; on it the index-level model of pass `0` of `psd_complete` does not panic and
writes the two off-diagonal positions: the routine reaches the LAPACK calls with `0 × 0` blocks
`Wαα`, `Wαν` (the data-level model leaves their outcome to its parameter `ext`; the implementation's
`svd.factor(..).unwrap()` panics there — recorded in `ClarabelModel/Chordal/PsdCompletion.lean`, the
harness counts such cliques on every analysed pattern: never seen). -/
theorem empty_separator_only_if_disconnected :
    ValidTree exDiscTree 2 ∧ 0 + 1 < exDiscTree.nCliques ∧ exDiscTree.sepAt 0 = [] ∧
      exDiscTree.getSeparators 0 = .ok #[] ∧
      psdCompleteStep exDiscTree 2 0 = .ok [(1, 0), (0, 1)] :=
  ⟨exDiscTree_empty_sep.1, exDiscTree_empty_sep.2.1, exDiscTree_empty_sep.2.2,
    exDiscTree_getSeparators, exDiscTree_step⟩

/-! ## accessors and helpers of `chordal_info.rs` / `decomp/*.rs`
(model `ClarabelModel/Chordal/InfoAccessors.lean`, proofs `ClarabelProofs/Lemmas/ChordalInfoAccessors.lean`)

Functions that the older model files inline without a name or leave out, each compared with the
implementation on its own channel (`info.counts`, `mask`, `info.new`, `helper.*`). -/

/-- [S] `cone_counts`: the cone counters of a `ChordalInfo` whose patterns have at least one clique
and one supernode slot each (in particular of every analysis result, `cone_counts_of_analysis`):
no `usize` underflow, and the four numbers printed in the chordal block of the configuration header
(`print_chordal_decomposition`; the record is the input of C20's model of the printer) are
`PSD cones initial` = number of `PSDTriangleConeT` among the original cones,
`decomposable` = number of stored patterns,
`after decomposition` = initial + Σ over the patterns of (supernode slots − 1) (the tree before merging),
`after merges` = initial + Σ over the patterns of (`n_cliques` − 1);
`final_cone_count` = number of original cones + Σ (`n_cliques` − 1). -/
theorem cone_counts (ci : ChordalInfo)
    (h1 : ∀ p ∈ ci.spatterns.toList, 1 ≤ p.sntree.nCliques)
    (h2 : ∀ p ∈ ci.spatterns.toList, 1 ≤ p.sntree.snode.size) :
    ci.headerCounts = .ok
      { initPsd := (ci.initCones.toList.filter Cone.isPsd).length,
        decomposable := ci.spatterns.size,
        premerge := (ci.initCones.toList.filter Cone.isPsd).length +
          (ci.spatterns.toList.map (fun p => p.sntree.snode.size - 1)).sum,
        final := (ci.initCones.toList.filter Cone.isPsd).length +
          (ci.spatterns.toList.map (fun p => p.sntree.nCliques - 1)).sum } ∧
    ci.finalPsdConesAdded = .ok ((ci.spatterns.toList.map (fun p => p.sntree.nCliques - 1)).sum) ∧
    ci.premergePsdConesAdded = .ok ((ci.spatterns.toList.map (fun p => p.sntree.snode.size - 1)).sum) ∧
    ci.finalConeCount =
      .ok (ci.initCones.size + (ci.spatterns.toList.map (fun p => p.sntree.nCliques - 1)).sum) :=
  ⟨ci.headerCounts_eq h1 h2, ci.finalPsdConesAdded_eq h1, ci.premergePsdConesAdded_eq h2,
    ci.finalConeCount_eq h1⟩

example : exCi.headerCounts = .ok { initPsd := 1, decomposable := 1, premerge := 2, final := 2 } := by
  rfl

/-- [S] `cone_counts_of_analysis`: the same on the result of the analysis (any merge strategy). -/
theorem cone_counts_of_analysis {ci : ChordalInfo} {E : Nat → List (Nat × Nat)}
    (h : FromAnalysis ci E) :
    ci.headerCounts = .ok
      { initPsd := (ci.initCones.toList.filter Cone.isPsd).length,
        decomposable := ci.spatterns.size,
        premerge := (ci.initCones.toList.filter Cone.isPsd).length +
          (ci.spatterns.toList.map (fun p => p.sntree.snode.size - 1)).sum,
        final := (ci.initCones.toList.filter Cone.isPsd).length +
          (ci.spatterns.toList.map (fun p => p.sntree.nCliques - 1)).sum } ∧
    ci.finalConeCount =
      .ok (ci.initCones.size + (ci.spatterns.toList.map (fun p => p.sntree.nCliques - 1)).sum) :=
  h.headerCounts_eq

/-- [S] `final_cone_count_exact`: on valid input, when the loop over the cones consumes every stored
pattern (true of every `ChordalInfo::new` result, `analysis_to_decomposition`), the capacity
`final_cone_count()` reserved for `cones_new` / `cone_maps` is exactly the number of cones that
`find_compact_A_b_and_cones` produces. -/
theorem final_cone_count_exact [Neg α] [OfNat α 0] [OfNat α 1] [BEq α] (ci : ChordalInfo) (A : Csc α)
    (b : Array α) (H : CompactHyp ci A (bIndOf b)) (hnz : A.colptr.getD A.n 0 ≤ A.nzval.size)
    (hpos : A.colptr.getD A.n 0 + 2 * ci.ovBefore ci.initCones.size ≠ 0)
    (hall : (ci.layoutAt ci.initCones.size).1 = ci.spatterns.size)
    (h : ∀ p ∈ ci.spatterns.toList, 1 ≤ p.sntree.nCliques) :
    ∃ tr, findCompactTriplets ci A b = .ok tr ∧ ci.finalConeCount = .ok tr.conesNew.size :=
  finalConeCount_eq_triplets ci A b H hnz hpos hall h

example : ∃ tr, findCompactTriplets exCi exA exb = .ok tr ∧ exCi.finalConeCount = .ok tr.conesNew.size :=
  final_cone_count_exact exCi exA exb exHyp ex_hnz ex_hpos (by decide) (by decide)

/-- [S] `largest_nblk_ok`: `largest_nblk` (the size of the clique buffer of
`decomp_reverse_compact`; `nblk.as_ref().unwrap()` panics on a pattern without block sizes —
`largestNblk_panic`) does not panic on an analysis result, bounds every block size of every
pattern, and `decomp_reverse_compact` with the allocation is the model of `reverse_compact`. -/
theorem largest_nblk_ok [Add α] [OfNat α 0] {ci : ChordalInfo} {E : Nat → List (Nat × Nat)}
    (h : FromAnalysis ci E) (cm : Array ConeMapEntry) (oc : Array Cone) (s z : Array α) :
    (∃ v, ci.largestNblk = .ok v ∧
      ∀ p ∈ ci.spatterns.toList, ∀ nb, p.sntree.nblk = some nb → ∀ x ∈ nb.toList, x ≤ v) ∧
    decompReverseCompactFull ci cm oc s z = decompReverseCompact ci cm oc s z :=
  h.decompReverseCompactFull_eq cm oc s z

example : ∃ v, exCi.largestNblk = .ok v ∧ v = 2 := ⟨2, rfl, rfl⟩

/-- [S] `compact_setup_helpers`: `alternating_sequence`, `extra_columns` and `find_A_dimension`
produce what `find_compact_A_b_and_cones` starts from: values `1` for the `nnz` entries of `A`
followed by `(+1, -1)` per overlap, column indices `0` (overwritten by `findnz`) followed by the
pair `n + o, n + o` for overlap `o`, and the dimensions `(dim, n + n_overlaps, n_overlaps)`. -/
theorem compact_setup_helpers [Ring α] [BEq α] (ci : ChordalInfo) (A : Csc α) (b : Array α)
    (tr : CompactTriplets α) (hok : findCompactTriplets ci A b = .ok tr) (nnz k : Nat)
    (hpos : 0 < nnz + 2 * k) :
    alternatingSequence (α := α) (nnz + 2 * k) nnz =
      Array.replicate nnz 1 ++ ((List.range k).flatMap (fun _ => [(1 : α), -1])).toArray ∧
    extraColumns (nnz + 2 * k) nnz A.n =
      .ok (Array.replicate nnz 0 ++ ((List.range k).flatMap (fun o => [A.n + o, A.n + o])).toArray) ∧
    ci.findADimension A = .ok (tr.dim, A.n + tr.nOverlaps, tr.nOverlaps) :=
  ⟨alternatingSequence_eq_pairs nnz k, extraColumns_eq_pairs nnz k A.n hpos,
    findADimension_of_triplets ci A b tr hok⟩

example : alternatingSequence (α := Int) 6 2 = #[1, 1, 1, -1, 1, -1] ∧
    extraColumns 6 2 10 = .ok #[0, 0, 10, 10, 11, 11] ∧
    extraColumns 0 0 10 = .error (.panic "extra_columns: underflow") := ⟨by rfl, by rfl, rfl⟩

/-- [S] `get_rows_mat_wf`: on a well-formed CSC matrix `get_rows_mat(A, col, rs..re)` does not panic
and is `get_rows_subset` on the column's slice of `rowval` — the expression that the row-shifting
loops of the model use. -/
theorem get_rows_mat_wf (A : Csc α) (hA : CscWF A) (col : Nat) (hcol : col < A.n) (rs re : Nat) :
    getRowsMat A col rs re =
      .ok (getRowsSubset A.rowval (A.colptr.getD col 0) (A.colptr.getD (col + 1) 0) rs re) :=
  getRowsMat_eq A hA col hcol rs re

example (rs re : Nat) : getRowsMat exA 0 rs re = .ok (getRowsSubset #[0, 2, 5] 0 3 rs re) :=
  get_rows_mat_wf exA exHyp.wf 0 (by decide) rs re

/-- [S] `get_clique_by_index_parent`: on a valid tree the clique that
`add_entries_with_sparsity_pattern` loads with `get_clique_by_index(sntree, get_clique_parent(i))`
is `get_clique(j)` for the post-order index `j` of the parent of clique `i`. -/
theorem get_clique_by_index_parent {t : SuperNodeTree} {n : Nat} (h : ValidTree t n) (i j : Nat)
    (hi : i < t.nCliques) (hpar : t.IsParent i j) :
    ∃ pi, t.getCliqueParent i = .ok pi ∧ getCliqueByIndex t pi = t.getClique j :=
  h.getCliqueByIndex_parent i j hi hpar

example : ∃ pi, exTreeV.getCliqueParent 0 = .ok pi ∧ getCliqueByIndex exTreeV pi = exTreeV.getClique 1 :=
  get_clique_by_index_parent exTreeV_valid 0 1 (by decide) ⟨by decide, rfl⟩

/-- [S] `standard_helpers`: `find_H_col_dimension` is the number of columns of the `H` that
`find_standard_H_and_cones` builds, `decompose_with_cone` appends the identity block
`row .. row + nvars` and the cone, and `decomp_reverse_standard` is: two products with `H`, then
`z[ri] /= nnz` over exactly the rows / counts that `number_of_overlaps_in_rows(H)` returns (rows
whose count of ones exceeds one). -/
theorem standard_helpers [Add α] [Mul α] [Div α] [OfNat α 0] [OfNat α 1] [LT α] [DecidableLT α]
    (ci : ChordalInfo) (h : StdH) (hok : ci.findStandardHAndCones = .ok h)
    (HI : Array Nat) (cn : Array Cone) (cone : Cone) (row m : Nat) (oldS oldZ : Array α) :
    ci.findHColDimension = .ok h.lenH ∧
    decomposeWithCone HI cn cone row = (HI ++ (List.range' row cone.nvars).toArray, cn.push cone) ∧
    decompReverseStandard h m oldS oldZ =
      (if oldS.size < m ∨ oldZ.size < m then throw (.panic "slice") else do
        let s ← hGemv m h.HI (oldS.extract m oldS.size)
        let z ← hGemv m h.HI (oldZ.extract m oldZ.size)
        let r ← numberOfOverlapsInRows (h.toCsc (α := α))
        pure (s, divideRows z r.1 r.2)) :=
  ⟨findHColDimension_of_stdH ci h hok, decomposeWithCone_eq HI cn cone row,
    decompReverseStandard_eq_named h (stdH_size_acc ci h hok) m oldS oldZ⟩

example : exStdCi.findHColDimension = .ok 7 ∧
    numberOfOverlapsInRows (exStdH.toCsc (α := Int)) = .ok (#[3], #[2]) :=
  ⟨(standard_helpers (α := Int) exStdCi exStdH exStd_ok #[] #[] (.zero 0) 0 0 #[] #[]).1, by rfl⟩

/-- [S] `add_blocks_with_cone_ok`: `add_blocks_with_cone` returns iff the slices exist and the
lengths agree, and then copies the block of `old_s`, `old_z` at `row_ptr` into the rows of the
original cone and advances `row_ptr` by the cone's size. -/
theorem add_blocks_with_cone_ok [OfNat α 0] (newS oldS newZ oldZ : Array α) (rs re : Nat) (cone : Cone)
    (rowPtr : Nat) (r : Array α × Array α × Nat) :
    addBlocksWithCone newS oldS newZ oldZ rs re cone rowPtr = .ok r ↔
      (rs ≤ re ∧ re ≤ newS.size ∧ rowPtr + cone.nvars ≤ oldS.size ∧ re - rs = cone.nvars ∧
        re ≤ newZ.size ∧ rowPtr + cone.nvars ≤ oldZ.size) ∧
      r = (copyRange newS oldS rs rowPtr cone.nvars, copyRange newZ oldZ rs rowPtr cone.nvars,
           rowPtr + cone.nvars) :=
  addBlocksWithCone_ok_iff newS oldS newZ oldZ rs re cone rowPtr r

example : addBlocksWithCone (α := Int) #[0, 0, 0] #[7, 8, 9] #[0, 0, 0] #[4, 5, 6] 1 3 (.nonneg 2) 1 =
    .ok (#[0, 8, 9], #[0, 5, 6], 3) := by rfl

/-- [S] `aggregate_mask`: `find_aggregate_sparsity_mask` does not panic when the stored rows of `A`
are rows of `b`, returns one flag per row, and flags every stored row of `A` and every row with
`b ≠ 0`. -/
theorem aggregate_mask [BEq α] [OfNat α 0] (A : Csc α) (b : Array α)
    (hrows : ∀ r ∈ A.rowval.toList, r < b.size) :
    ∃ m, findAggregateSparsityMask A b = .ok m ∧ m.size = b.size ∧
      (∀ r ∈ A.rowval.toList, m.getD r false = true) ∧
      (∀ i, i < b.size → (b.getD i 0 == 0) = false → m.getD i false = true) := by
  obtain ⟨m, h1, h2⟩ := findAggregateSparsityMask_ok A b hrows
  exact ⟨m, h1, h2, findAggregateSparsityMask_marks A b m h1⟩

example : ∃ m, findAggregateSparsityMask exA2 exb2 = .ok m ∧ m.size = 6 := by
  obtain ⟨m, h, hs, _⟩ := aggregate_mask exA2 exb2 exNew_hyps.1
  exact ⟨m, h, hs⟩

/-- [S] `analysis_to_decomposition` (**`ChordalInfo::new` ⇒ `FromAnalysis`**, the closing link
C17 → C18).  `find_graph` (AMD ordering, QDLDL's symbolic factorisation, `connect_graph`) is a
parameter of the model; `FindGraphOK` is its contract — filled pattern, permutation, dimension of
the mask, marked entries inside `L` — which C17's channel `hyp.analysis` evaluates on the real
`find_graph` on every run.  Under it, for each of the three merge methods, every successful
`ChordalInfo::new(A, b, cones)` returns a record with `init_dims = (A.n, A.m)`; when something was
decomposed, `init_cones = cones`, every stored pattern is an analysis result for a PSD cone of
`cones` (`FromAnalysis`, pattern entries of cone `c` = marked off-diagonal entries of the
diagonal-forced slice of the aggregate sparsity mask), every pattern is consumed by the loops over
the cones, the `orig_index` are strictly increasing indices of PSD cones, no stored pattern has a
single clique. -/
theorem analysis_to_decomposition [BEq α] [OfNat α 0]
    (findGraph : Array Bool → MErr (LPat × Array Nat)) (hfg : FindGraphOK findGraph)
    (A : Csc α) (b : Array α) (cones : Array Cone) (mm : String)
    (hmm : mm = "none" ∨ mm = "parent_child" ∨ mm = "clique_graph")
    (ci : ChordalInfo) (hnew : ChordalInfo.new findGraph A b cones mm = .ok ci) :
    ∃ nzMask, findAggregateSparsityMask A b = .ok nzMask ∧
      ci.initDims = (A.n, A.m) ∧
      findSparsityPatterns findGraph A b cones mm = .ok ci.spatterns ∧
      (ci.isDecomposed = false → ci.initCones = #[]) ∧
      (ci.isDecomposed = true →
        ci.initCones = cones ∧ FromAnalysis ci (coneEdges cones nzMask) ∧
        (ci.layoutAt ci.initCones.size).1 = ci.spatterns.size) ∧
      (∀ (j : Nat) (p : SPattern), ci.spatterns[j]? = some p →
        p.origIndex < cones.size ∧ p.sntree.nCliques ≠ 1 ∧ ∃ d, cones[p.origIndex]? = some (.psd d)) ∧
      (∀ (j1 j2 : Nat) (p1 p2 : SPattern), j1 < j2 → ci.spatterns[j1]? = some p1 →
        ci.spatterns[j2]? = some p2 → p1.origIndex < p2.origIndex) :=
  ChordalInfo.new_fromAnalysis findGraph hfg A b cones mm hmm ci hnew

/-- [S] `compact_hyp_of_new`: the whole hypothesis bundle `CompactHyp` of the theorems about the
compact transformation holds for the record returned by `ChordalInfo::new(A, b, cones)` as soon as
the DATA are well formed (no hypothesis on the patterns or on coverage is left: the rows stored in
`A` and the non-zeros of `b` are exactly what `find_aggregate_sparsity_mask` flags). -/
theorem compact_hyp_of_new [BEq α] [OfNat α 0]
    (findGraph : Array Bool → MErr (LPat × Array Nat)) (hfg : FindGraphOK findGraph)
    (A : Csc α) (b : Array α) (cones : Array Cone) (mm : String)
    (hmm : mm = "none" ∨ mm = "parent_child" ∨ mm = "clique_graph")
    (ci : ChordalInfo) (hnew : ChordalInfo.new findGraph A b cones mm = .ok ci)
    (hdec : ci.isDecomposed = true) (wf : CscWF A) (ncols : 0 < A.n)
    (rowsA : ∀ slot, slot < A.colptr.getD A.n 0 →
      ∃ c, c < ci.initCones.size ∧ ci.rs c ≤ A.rowval.getD slot 0 ∧ A.rowval.getD slot 0 < ci.rs c + ci.nv c)
    (rowsB : ∀ slot, slot < (bIndOf b).size →
      ∃ c, c < ci.initCones.size ∧ ci.rs c ≤ (bIndOf b).getD slot 0 ∧
        (bIndOf b).getD slot 0 < ci.rs c + ci.nv c) :
    CompactHyp ci A (bIndOf b) :=
  ChordalInfo.new_compactHyp findGraph hfg A b cones mm hmm ci hnew hdec wf ncols rowsA rowsB

/-- [S] `new_no_panic`: `ChordalInfo::new` does not panic when the stored rows of `A` are rows of
`b`, the PSD cones fit into `b`, `find_graph` satisfies its contract and returns on the (non-dense,
diagonal-forced) slices it is called on, and the merge method is one of the three. -/
theorem new_no_panic [BEq α] [OfNat α 0]
    (findGraph : Array Bool → MErr (LPat × Array Nat)) (hfg : FindGraphOK findGraph)
    (A : Csc α) (b : Array α) (cones : Array Cone) (mm : String)
    (hmm : mm = "none" ∨ mm = "parent_child" ∨ mm = "clique_graph")
    (hrows : ∀ r ∈ A.rowval.toList, r < b.size)
    (hfit : ∀ c dim, cones[c]? = some (.psd dim) →
      (coneStarts cones).getD c 0 + triangularNumber dim ≤ b.size)
    (htot : ∀ nzMask, findAggregateSparsityMask A b = .ok nzMask → ∀ c dim, cones[c]? = some (.psd dim) →
      (forceDiag (nzMask.extract ((coneStarts cones).getD c 0)
        ((coneStarts cones).getD c 0 + triangularNumber dim)) dim).all id = false →
      ∃ L o, findGraph (forceDiag (nzMask.extract ((coneStarts cones).getD c 0)
        ((coneStarts cones).getD c 0 + triangularNumber dim)) dim) = .ok (L, o)) :
    ∃ ci, ChordalInfo.new findGraph A b cones mm = .ok ci :=
  ChordalInfo.new_ok findGraph hfg A b cones mm hmm hrows hfit htot

/-- non-vacuity of `analysis_to_decomposition` / `compact_hyp_of_new` / `new_no_panic`: one `3 × 3`
PSD cone with the pattern of the path `0 – 1 – 2` (rows `(0,1)` and `(1,2)` of the packed triangle
stored in `A`), `find_graph` = the table entry that the real `find_graph` returns for this mask:
the contract holds, `ChordalInfo::new` returns, and (when its result is decomposed — it is: the
driver evaluates the model to two cliques; the kernel cannot unfold the merge sort inside
`SparsityPattern::new`) `CompactHyp` holds for the data -/
example : FindGraphOK exFindGraph ∧
    ∃ ci, ChordalInfo.new exFindGraph exA2 exb2 #[.psd 3] "none" = .ok ci ∧
      ci.initDims = (1, 6) := by
  obtain ⟨h1, h2, h3⟩ := exNew_hyps
  obtain ⟨ci, hci⟩ := new_no_panic exFindGraph exFindGraph_ok exA2 exb2 #[.psd 3] "none"
    (Or.inl rfl) h1 h2 h3
  obtain ⟨_, _, hd, _⟩ := analysis_to_decomposition exFindGraph exFindGraph_ok exA2 exb2 #[.psd 3]
    "none" (Or.inl rfl) ci hci
  exact ⟨exFindGraph_ok, ci, hci, hd⟩

end Clarabel.C18
