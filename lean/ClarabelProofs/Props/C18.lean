/-
  C18 — chordal decomposition and its reversal preserve the problem and its solution.

  Property theorems about the model in `ClarabelModel/Chordal/{AugStd,Reverse,AugCompact}`.
  Proofs and helper lemmas: `ClarabelProofs/Lemmas/ChordalDecomp.lean`.
  Classes: [S] structural (holds of the f64 code as it runs), [F] exact in any ring/field.

  Carried by theorems: the structure of `H` (one clique block = the packed upper triangle
  of the clique, distinct rows inside a block, in range), `A_new = [A H; 0 -I]` column by
  column and the zero padding of `P, q, b`, the feasibility equivalence of the augmented
  equalities, `reverse_standard` = sum of the clique blocks for `s` and block average for
  `z`, lengths `(n, m)`, and the data flow of `DefaultProblemData::new`.

  NOT carried by a theorem (checked on every run by the correspondence with the model and
  by the oracles of `harness/src/bin/c18.rs`): the compact transformation
  (`compact_rows`: every original entry placed exactly once, overlap columns `±1`) and its
  reversal — modelled and compared exactly, property stated by the oracle only;
  `psd_complete` (LAPACK Cholesky / SVD are external): that the completed dual agrees with
  every clique block is checked by the oracle, and that a PSD completion exists at all is
  the Grone–Johnson–Sá–Wolkowicz theorem, which is ASSUMED (cited), not proved here;
  the end-to-end clause "same verdict and objective with decomposition on / off".
-/
import ClarabelModel.Chordal.AugCompact
import ClarabelProofs.Lemmas.ChordalDecomp

namespace Clarabel.C18
open Clarabel Clarabel.Chordal Clarabel.Chordal.ChordalInfo

variable {α : Type}

/-! ## `H` of the standard decomposition -/

/-- [S] `H_structure` (one clique block): `add_subblock_map` appends, column by column, the
packed upper-triangle positions `(c[i], c[j])`, `i ≤ j`, of the clique `c` — so column
`(k,i,j)` of `H` has its single `1` in the row of the original entry `(cₖ[i], cₖ[j])`;
for a sorted clique with vertices `< d` these rows lie inside the cone's `triangularNumber d`
rows and are pairwise distinct (a clique block never hits an original entry twice). -/
theorem H_structure (HI v : Array Nat) (rowStart d : Nat)
    (hv : ∀ i j, i < j → j < v.size → v.getD i 0 < v.getD j 0)
    (hd : ∀ i, i < v.size → v.getD i 0 < d) :
    addSubblockMap HI v rowStart = HI ++ (subblockEntries v rowStart).toArray ∧
    (addSubblockMap HI v rowStart).size = HI.size + triangularNumber v.size ∧
    (∀ e ∈ subblockEntries v rowStart, rowStart ≤ e ∧ e < rowStart + triangularNumber d) ∧
    (subblockEntries v rowStart).Nodup := by
  refine ⟨add_subblock_map_spec HI v rowStart, add_subblock_map_size HI v rowStart, ?_,
    add_subblock_map_injective v rowStart hv⟩
  apply add_subblock_map_range v rowStart d hd
  intro i j hij hj
  rcases Nat.lt_or_eq_of_le hij with h | h
  · exact Nat.le_of_lt (hv i j h hj)
  · subst h; exact Nat.le_refl _

example : addSubblockMap #[] #[1, 3] 10 = #[10 + 2, 10 + 7, 10 + 9] := by rfl

/-- [S] the vertices of clique `i` are exactly those of its supernode and separator. -/
theorem H_clique (t : SuperNodeTree) (i : Nat) (c : VSet) (h : t.getClique i = .ok c) :
    ∃ p s1 s2, t.snodePost[i]? = some p ∧ t.snode[p]? = some s1 ∧ t.separators[p]? = some s2 ∧
      ∀ v, v ∈ c.toList ↔ v ∈ s1.toList ∨ v ∈ s2.toList :=
  get_clique_spec t i c h

/-! ## the augmented problem of the standard form -/

/-- [S] `standard_A`: `decomp_augment_standard` returns `A_new = [A H; 0 -I]` column by
column, `b_new = (b, 0)`, `q_new = (q, 0)`. -/
theorem standard_A [OfNat α 0] [OfNat α 1] [Neg α] (ci : ChordalInfo)
    (P : Csc α) (q : Array α) (A : Csc α) (b : Array α)
    (Pn : Csc α) (qn : Array α) (An : Csc α) (bn : Array α) (cones : Array Cone) (h : StdH)
    (hok : decompAugmentStandard ci P q A b = .ok (Pn, qn, An, bn, cones, h))
    (hcp : A.colptr.size = A.n + 1)
    (hmono : ∀ j, j ≤ A.n → A.colptr.getD j 0 ≤ A.colptr.getD A.n 0)
    (hrv : A.colptr.getD A.n 0 ≤ A.rowval.size) (hnz : A.colptr.getD A.n 0 ≤ A.nzval.size) :
    An.m = A.m + h.lenH ∧ An.n = A.n + h.lenH ∧
    (∀ j, j < A.n → An.col j = A.col j) ∧
    (∀ j, j < h.lenH → An.col (A.n + j) = [(h.HI.getD j 0, 1), (A.m + j, -1)]) ∧
    bn = b ++ Array.replicate h.lenH 0 ∧ qn = q ++ Array.replicate h.lenH 0 :=
  std_A_structure ci P q A b Pn qn An bn cones h hok hcp hmono hrv hnz

/-- [S] `standard_P`: `P_new` is `P` followed by `lenH` empty columns (zero padding), so
the quadratic part of the objective does not see the new variables. -/
theorem standard_P [OfNat α 0] [OfNat α 1] [Neg α] (ci : ChordalInfo)
    (P : Csc α) (q : Array α) (A : Csc α) (b : Array α)
    (Pn : Csc α) (qn : Array α) (An : Csc α) (bn : Array α) (cones : Array Cone) (h : StdH)
    (hok : decompAugmentStandard ci P q A b = .ok (Pn, qn, An, bn, cones, h))
    (hcp : P.colptr.size = P.n + 1) :
    Pn.m = P.m + h.lenH ∧ Pn.n = P.n + h.lenH ∧
    (∀ j, j < P.n → Pn.col j = P.col j) ∧
    (∀ j, j < h.lenH → Pn.col (P.n + j) = []) :=
  std_P_structure ci P q A b Pn qn An bn cones h hok hcp

/-- [F] `standard_equiv`: with `s := H s̃` computed by the model's `hGemv`, the point
`(x, y, s₀ = 0, s̃)` satisfies the augmented equalities `[A H; 0 -I](x,y) + (s₀, s̃) = (b, 0)`
iff `y = s̃` and `(x, s)` satisfies the original equalities `A x + s = b`
(`ax` stands for the vector `A x`). -/
theorem standard_equiv [Ring α] (h : StdH) (m : Nat) (st : Array α) (ax b y : Nat → α)
    (hlen : h.HI.size = h.lenH) (hHI : ∀ j, j < h.HI.size → h.HI.getD j 0 < m)
    (hst : st.size = h.lenH) :
    ∃ s, hGemv m h.HI st = .ok s ∧ s.size = m ∧
      (((∀ r, r < m → ax r + hSel (fun j => h.HI.getD j 0) h.lenH y r + 0 = b r) ∧
          (∀ j, j < h.lenH → - y j + st.getD j 0 = 0)) ↔
       ((∀ j, j < h.lenH → y j = st.getD j 0) ∧ (∀ r, r < m → ax r + s.getD r 0 = b r))) :=
  standard_equiv_model h m st ax b y hlen hHI hst

/-- [F] the linear part of the objective is unchanged: `⟨(q,0), (x,y)⟩ = ⟨q, x⟩`. -/
theorem standard_objective [Semiring α] (q x y : Array α) (k : Nat) (hx : x.size = q.size) :
    Vec.dot (q ++ Array.replicate k 0) (x ++ y) = Vec.dot q x :=
  dot_pad_zeros q x y k hx

example : ∃ s, hGemv (α := Int) 2 #[0, 1, 0] #[5, 6, 7] = .ok s ∧ s = #[12, 6] := ⟨_, rfl, rfl⟩

/-! ## reversal of the standard form -/

/-- [S] `reverse_standard`: no panic, lengths `m`, and entry `r` of the returned slack is the
left-to-right sum of the entries of `s̃` whose column of `H` has its `1` in row `r` (the sum
of the clique blocks); the returned dual is the same sum of `z̃` divided by the number of
blocks overlapping in `r` when that number exceeds one. -/
theorem reverse_standard [Add α] [Mul α] [Div α] [OfNat α 0] [OfNat α 1] [LT α]
    [DecidableLT α] (h : StdH) (m : Nat) (oldS oldZ : Array α)
    (hlen : h.HI.size = h.lenH) (hHI : ∀ j, j < h.HI.size → h.HI.getD j 0 < m)
    (hrows : h.rows = m) (hS : oldS.size = m + h.lenH) (hZ : oldZ.size = m + h.lenH) :
    ∃ s z : Array α, decompReverseStandard h m oldS oldZ = .ok (s, z) ∧
      s.size = m ∧ z.size = m ∧
      ∀ r, r < m →
        s.getD r 0 = (List.range h.HI.size).foldl (fun acc j =>
          if h.HI.getD j 0 = r then acc + 1 * oldS.getD (m + j) 0 else acc) 0 ∧
        z.getD r 0 =
          (let t : α := (List.range h.HI.size).foldl (fun acc j =>
            if h.HI.getD j 0 = r then acc + 1 * oldZ.getD (m + j) 0 else acc) 0
           let c : α := (List.range h.HI.size).foldl (fun acc j =>
            if h.HI.getD j 0 = r then acc + 1 else acc) 0
           if (1 : α) < c then t / c else t) :=
  decomp_reverse_standard_rows h m oldS oldZ hlen hHI hrows hS hZ

/-- [F] over a semiring the fold is the sum: `(H s̃)[r] = Σ_{j : HI[j] = r} s̃[j]`. -/
theorem reverse_standard_sum [Semiring α] (rows : Nat) (HI : Array Nat)
    (x : Array α) (hx : x.size = HI.size) (hHI : ∀ j, j < HI.size → HI.getD j 0 < rows) :
    ∃ y, hGemv rows HI x = .ok y ∧ y.size = rows ∧
      ∀ r, r < rows → y.getD r 0 =
        (((List.range HI.size).filter (fun j => decide (HI.getD j 0 = r))).map
          (fun j => x.getD j 0)).sum :=
  h_gemv_sum rows HI x hx hHI

/-! ## data flow of `DefaultProblemData::new` -/

/-- [S] `presolve_order`: in `DefaultProblemData::new` the chordal analysis and the
augmentation are handed the same (presolved) constraint data, whatever the three stages
compute. -/
theorem presolve_order {α ι : Type} (presolve : ProbData α → Option (ProbData α))
    (analyse : ProbData α → Option ι) (augment : ι → ProbData α → ProbData α) (d : ProbData α)
    (seen : ProbData α × ProbData α)
    (h : (problemDataNew presolve analyse augment d).2 = some seen) : seen.1 = seen.2 := by
  unfold problemDataNew at h
  cases ha : analyse ((presolve d).getD d) with
  | none => simp [ha] at h
  | some info =>
    simp only [ha, Option.some.injEq] at h
    rw [← h]

/-- what the theorem excludes — the pre-fix flow: with a presolver that drops one row the
analysis saw 2 rows and the augmentation 1 (this made `DefaultSolver::new` panic; finding
fixed by 4915fa1). -/
example :
    let d : ProbData Nat := { A := ⟨2, 1, #[0, 2], #[0, 1], #[1, 1]⟩, b := #[5, 7], cones := #[.nonneg 2] }
    let pre : ProbData Nat → Option (ProbData Nat) := fun _ =>
      some { A := ⟨1, 1, #[0, 1], #[0], #[1]⟩, b := #[7], cones := #[.nonneg 1] }
    ((problemDataNewOld pre (fun x => some x.b.size) (fun _ x => x) d).2.map
      (fun p => (p.1.b.size, p.2.b.size))) = some (2, 1) := by
  rfl

/-- non-vacuity of `presolve_order` on the same data -/
example :
    let d : ProbData Nat := { A := ⟨2, 1, #[0, 2], #[0, 1], #[1, 1]⟩, b := #[5, 7], cones := #[.nonneg 2] }
    let pre : ProbData Nat → Option (ProbData Nat) := fun _ =>
      some { A := ⟨1, 1, #[0, 1], #[0], #[1]⟩, b := #[7], cones := #[.nonneg 1] }
    ((problemDataNew pre (fun x => some x.b.size) (fun _ x => x) d).2.map
      (fun p => (p.1.b.size, p.2.b.size))) = some (1, 1) := by
  rfl

end Clarabel.C18
