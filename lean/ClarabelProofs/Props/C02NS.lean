/-
  C02 — infeasibility verdicts certify infeasibility of the USER's problem, END TO END on the
  whole-solver model WITH NONSYMMETRIC CONES (`ClarabelModel/SolverNS/*.lean`: zero / nonnegative /
  second-order / exponential / power / generalised power cones, the `PrimalDual → Dual` strategy switch,
  barrier backtracking; tied bit for bit to the implementation by the channels `solvens.*`).

  The composition theorems of `Props/C02Full.lean` lifted to that model: the chain on the user's data
  (`primal_infeasible_chain`, `dual_infeasible_chain` of `Lemmas/InfoCertChain.lean`, cone membership under
  un-equilibration for all cone kinds, `Info.rollback_never_infeasible`) is SHARED with the first model
  (same `Residuals.update`, `Info.*`, `Unscale.*`, `Equil.equilibrate`, `ProblemData.new`) and reused by
  import; the loop, the returned record and the interior invariant are proved for the NS model's own
  functions (`Lemmas/SolverNSFull{Defs,Traj,Ret,Verdict,Compose}.lean`,
  `Lemmas/SolverNSBridge{Defs,Step,Init,Mem}.lean`, `Lemmas/SolverNSFullZero.lean`).  `κ > 0` and the cone
  membership of the internal iterate are PROVED (C07's interior theorems bridged to the model), not
  assumed.

  A file of its own (imported by `Props/C02.lean`) because of its import chain.
-/
import ClarabelProofs.Lemmas.SolverNSFullCompose
import ClarabelProofs.Lemmas.SolverNSBridgeStep
import ClarabelProofs.Lemmas.SolverNSBridgeInit
import ClarabelProofs.Lemmas.SolverNSBridgeMem
import ClarabelProofs.Lemmas.SolverNSFullZero
import ClarabelProofs.Lemmas.SolverNSFullExample
import ClarabelProofs.Lemmas.SolverNSFullPresolvedCert

namespace Clarabel.C02
open Clarabel Clarabel.InfoUser Clarabel.Dense

/-- **[R] `C02.ns_full_primal_infeasible_certifies`** — status `PrimalInfeasible` of the whole solver
with nonsymmetric cones certifies primal infeasibility of the USER's problem.

Let `DefaultSolver::new(P, q, A, b, cones, settings)` succeed on well-formed input (`InputOK`,
`ValidCones`), presolve off or dropping no row, positive equilibration bounds,
`0 < max_step_fraction < 1`, `T::max_value() > 0`, `0 ≤ linesearch_backtrack_step ≤ 1`,
`0 ≤ tol_infeas_abs`, and let `solve()` return `PrimalInfeasible`.  Then there are `c > 0` (the
equilibration constant) and `κ > 0` (of the last iterate) such that the RETURNED `z` (the
`κ`-normalised vector `unscale` produces) satisfies, on the user's `A` and `b` (capped), the documented
test `c·κ·bᵀz < −tol_infeas_abs`, `bᵀz < 0`, `‖Aᵀz‖₂ < tol_infeas_rel·c·(−bᵀz)·max(1, κ‖z‖₂)`, and
`z ∈ K*` for the collapsed cone list (all six cone kinds), `|z| = m`.  The verdict is always judged on
the LAST recorded iterate, which is the one returned. -/
theorem ns_full_primal_infeasible_certifies {P : Csc ℝ} {q : Array ℝ} {A : Csc ℝ} {b : Array ℝ}
    {cones : List (ConeT ℝ)} {st : SolverNS.Settings ℝ} {perm : Array Nat} {S : SolverNS.Solver ℝ}
    {r : SolverNS.SolveResult ℝ}
    (hin : Solver.InputOK P q A b cones) (hvc : Equil.ValidCones cones)
    (hpre : st.presolveEnable = false ∨ ∃ keep,
      Presolve.keepFlags (Presolve.threshold st.infbound) (Cones.newCollapsed cones) b.toList = .ok keep
        ∧ keep.count true = b.size)
    (hlo : 0 < st.equil.minScaling) (hhi : 0 < st.equil.maxScaling)
    (hf0 : 0 < st.maxStepFraction) (hf1 : st.maxStepFraction < 1) (hmv : 0 < st.maxValue)
    (hb0 : 0 ≤ st.linesearchBacktrackStep) (hb1 : st.linesearchBacktrackStep ≤ 1)
    (htabs : 0 ≤ st.info.full.infeas_abs)
    (hnew : SolverNS.Solver.new P q A b cones st perm = .ok S) (hr : S.solve st = .ok r)
    (hst : r.S.solution.status = .primalInfeasible) :
    ∃ (c κ : ℝ), 0 < c ∧ 0 < κ ∧
      let bc := ProblemData.capB b st.infbound
      let z := vecFn r.S.solution.z A.m
      c * κ * dot (vecFn bc A.m) z < -st.info.full.infeas_abs
      ∧ dot (vecFn bc A.m) z < 0
      ∧ nrm (mulVT (matFn A A.m A.n) z)
          < st.info.full.infeas_rel * c * (-(dot (vecFn bc A.m) z)) * max 1 (κ * nrm z)
      ∧ Equil.CompositeMem Equil.ConeMemDual (Cones.newCollapsed cones) r.S.solution.z.toList
      ∧ r.S.solution.z.size = A.m :=
  SolverNS.full_primal_infeasible_chainN false
    ((SolverNS.interiorN_stepHyp st hf0 hf1 hmv hb0 hb1).and (SolverNS.zeroSN_stepHyp st))
    (fun S0 hS hv => (SolverNS.interiorN_initHyp st S0 hS hv).and (SolverNS.zeroSN_initHyp st S0 hS))
    (fun _ _ h => h.1.pos.2) (fun _ _ h => ⟨h.1.mem_primal h.2, h.1.mem_dual⟩)
    ⟨hin, hvc, hpre, hlo, hhi⟩ htabs (fun h => by cases h) hnew hr hst

/-- **[R] `C02.ns_full_dual_infeasible_certifies`** — status `DualInfeasible` of the whole solver with
nonsymmetric cones certifies dual infeasibility of the USER's problem: under the hypotheses of
`ns_full_primal_infeasible_certifies`, the RETURNED `x, s` satisfy, on the user's `P` (`P.to_triu()`),
`q`, `A`: `c·κ·qᵀx < −tol_infeas_abs`, `qᵀx < 0`, `‖Px‖₂ < tol_infeas_rel·(−qᵀx)·max(1, κ‖x‖₂)`,
`‖Ax+s‖₂ < tol_infeas_rel·c·(−qᵀx)·max(1, κ(‖x‖₂+‖s‖₂))`, `s ∈ K` for the collapsed cone list (all six
cone kinds), `|x| = n`, `|s| = m`. -/
theorem ns_full_dual_infeasible_certifies {P : Csc ℝ} {q : Array ℝ} {A : Csc ℝ} {b : Array ℝ}
    {cones : List (ConeT ℝ)} {st : SolverNS.Settings ℝ} {perm : Array Nat} {S : SolverNS.Solver ℝ}
    {r : SolverNS.SolveResult ℝ}
    (hin : Solver.InputOK P q A b cones) (hvc : Equil.ValidCones cones)
    (hpre : st.presolveEnable = false ∨ ∃ keep,
      Presolve.keepFlags (Presolve.threshold st.infbound) (Cones.newCollapsed cones) b.toList = .ok keep
        ∧ keep.count true = b.size)
    (hlo : 0 < st.equil.minScaling) (hhi : 0 < st.equil.maxScaling)
    (hf0 : 0 < st.maxStepFraction) (hf1 : st.maxStepFraction < 1) (hmv : 0 < st.maxValue)
    (hb0 : 0 ≤ st.linesearchBacktrackStep) (hb1 : st.linesearchBacktrackStep ≤ 1)
    (htabs : 0 ≤ st.info.full.infeas_abs)
    (hnew : SolverNS.Solver.new P q A b cones st perm = .ok S) (hr : S.solve st = .ok r)
    (hst : r.S.solution.status = .dualInfeasible) :
    ∃ (Pn : Csc ℝ) (c κ : ℝ), ProblemData.triuStep P = .ok Pn ∧ 0 < c ∧ 0 < κ ∧
      let x := vecFn r.S.solution.x A.n
      let sv := vecFn r.S.solution.s A.m
      c * κ * dot (vecFn q A.n) x < -st.info.full.infeas_abs
      ∧ dot (vecFn q A.n) x < 0
      ∧ nrm (mulV (symFn Pn A.n) x)
          < st.info.full.infeas_rel * (-(dot (vecFn q A.n) x)) * max 1 (κ * nrm x)
      ∧ nrm (fun k => mulV (matFn A A.m A.n) x k + sv k)
          < st.info.full.infeas_rel * c * (-(dot (vecFn q A.n) x)) * max 1 (κ * (nrm x + nrm sv))
      ∧ Equil.CompositeMem Equil.ConeMem (Cones.newCollapsed cones) r.S.solution.s.toList
      ∧ r.S.solution.x.size = A.n ∧ r.S.solution.s.size = A.m :=
  SolverNS.full_dual_infeasible_chainN false
    ((SolverNS.interiorN_stepHyp st hf0 hf1 hmv hb0 hb1).and (SolverNS.zeroSN_stepHyp st))
    (fun S0 hS hv => (SolverNS.interiorN_initHyp st S0 hS hv).and (SolverNS.zeroSN_initHyp st S0 hS))
    (fun _ _ h => h.1.pos.2) (fun _ _ h => ⟨h.1.mem_primal h.2, h.1.mem_dual⟩)
    ⟨hin, hvc, hpre, hlo, hhi⟩ htabs (fun h => by cases h) hnew hr hst

/-- **[R] `C02.ns_full_almost_primal_infeasible_certifies`** — status `AlmostPrimalInfeasible`
(assigned by `Info::post_process` with the REDUCED tolerances) under the gate
`1 ≤ 1000 / reduced_tol_ktratio` (i.e. `reduced_tol_ktratio ≤ 1000`, which includes the default): the
conclusion of `ns_full_primal_infeasible_certifies` with `reduced_tol_infeas_abs/rel`.  Under the gate
the insufficient-progress rollback path can never end `Almost*Infeasible`
(`Info.rollback_never_infeasible`), so the verdict is judged on the LAST recorded iterate, which is the
one returned — also in the NS loop, where after a rollback the returned iterate may be more than one
pass old (for `reduced_tol_ktratio > 1000` see the known finding `KF-C02-rollback-stale-verdict`). -/
theorem ns_full_almost_primal_infeasible_certifies {P : Csc ℝ} {q : Array ℝ} {A : Csc ℝ} {b : Array ℝ}
    {cones : List (ConeT ℝ)} {st : SolverNS.Settings ℝ} {perm : Array Nat} {S : SolverNS.Solver ℝ}
    {r : SolverNS.SolveResult ℝ}
    (hin : Solver.InputOK P q A b cones) (hvc : Equil.ValidCones cones)
    (hpre : st.presolveEnable = false ∨ ∃ keep,
      Presolve.keepFlags (Presolve.threshold st.infbound) (Cones.newCollapsed cones) b.toList = .ok keep
        ∧ keep.count true = b.size)
    (hlo : 0 < st.equil.minScaling) (hhi : 0 < st.equil.maxScaling)
    (hf0 : 0 < st.maxStepFraction) (hf1 : st.maxStepFraction < 1) (hmv : 0 < st.maxValue)
    (hb0 : 0 ≤ st.linesearchBacktrackStep) (hb1 : st.linesearchBacktrackStep ≤ 1)
    (htabs : 0 ≤ st.info.reduced.infeas_abs)
    (hgate : 1 ≤ (1 / st.info.reduced.ktratio) * 1000)
    (hnew : SolverNS.Solver.new P q A b cones st perm = .ok S) (hr : S.solve st = .ok r)
    (hst : r.S.solution.status = .almostPrimalInfeasible) :
    ∃ (c κ : ℝ), 0 < c ∧ 0 < κ ∧
      let bc := ProblemData.capB b st.infbound
      let z := vecFn r.S.solution.z A.m
      c * κ * dot (vecFn bc A.m) z < -st.info.reduced.infeas_abs
      ∧ dot (vecFn bc A.m) z < 0
      ∧ nrm (mulVT (matFn A A.m A.n) z)
          < st.info.reduced.infeas_rel * c * (-(dot (vecFn bc A.m) z)) * max 1 (κ * nrm z)
      ∧ Equil.CompositeMem Equil.ConeMemDual (Cones.newCollapsed cones) r.S.solution.z.toList
      ∧ r.S.solution.z.size = A.m :=
  SolverNS.full_primal_infeasible_chainN true
    ((SolverNS.interiorN_stepHyp st hf0 hf1 hmv hb0 hb1).and (SolverNS.zeroSN_stepHyp st))
    (fun S0 hS hv => (SolverNS.interiorN_initHyp st S0 hS hv).and (SolverNS.zeroSN_initHyp st S0 hS))
    (fun _ _ h => h.1.pos.2) (fun _ _ h => ⟨h.1.mem_primal h.2, h.1.mem_dual⟩)
    ⟨hin, hvc, hpre, hlo, hhi⟩ htabs (fun _ => hgate) hnew hr hst

/-- **[R] `C02.ns_full_almost_dual_infeasible_certifies`** — status `AlmostDualInfeasible` under the
gate `reduced_tol_ktratio ≤ 1000`: the conclusion of `ns_full_dual_infeasible_certifies` with the
reduced tolerances. -/
theorem ns_full_almost_dual_infeasible_certifies {P : Csc ℝ} {q : Array ℝ} {A : Csc ℝ} {b : Array ℝ}
    {cones : List (ConeT ℝ)} {st : SolverNS.Settings ℝ} {perm : Array Nat} {S : SolverNS.Solver ℝ}
    {r : SolverNS.SolveResult ℝ}
    (hin : Solver.InputOK P q A b cones) (hvc : Equil.ValidCones cones)
    (hpre : st.presolveEnable = false ∨ ∃ keep,
      Presolve.keepFlags (Presolve.threshold st.infbound) (Cones.newCollapsed cones) b.toList = .ok keep
        ∧ keep.count true = b.size)
    (hlo : 0 < st.equil.minScaling) (hhi : 0 < st.equil.maxScaling)
    (hf0 : 0 < st.maxStepFraction) (hf1 : st.maxStepFraction < 1) (hmv : 0 < st.maxValue)
    (hb0 : 0 ≤ st.linesearchBacktrackStep) (hb1 : st.linesearchBacktrackStep ≤ 1)
    (htabs : 0 ≤ st.info.reduced.infeas_abs)
    (hgate : 1 ≤ (1 / st.info.reduced.ktratio) * 1000)
    (hnew : SolverNS.Solver.new P q A b cones st perm = .ok S) (hr : S.solve st = .ok r)
    (hst : r.S.solution.status = .almostDualInfeasible) :
    ∃ (Pn : Csc ℝ) (c κ : ℝ), ProblemData.triuStep P = .ok Pn ∧ 0 < c ∧ 0 < κ ∧
      let x := vecFn r.S.solution.x A.n
      let sv := vecFn r.S.solution.s A.m
      c * κ * dot (vecFn q A.n) x < -st.info.reduced.infeas_abs
      ∧ dot (vecFn q A.n) x < 0
      ∧ nrm (mulV (symFn Pn A.n) x)
          < st.info.reduced.infeas_rel * (-(dot (vecFn q A.n) x)) * max 1 (κ * nrm x)
      ∧ nrm (fun k => mulV (matFn A A.m A.n) x k + sv k)
          < st.info.reduced.infeas_rel * c * (-(dot (vecFn q A.n) x)) * max 1 (κ * (nrm x + nrm sv))
      ∧ Equil.CompositeMem Equil.ConeMem (Cones.newCollapsed cones) r.S.solution.s.toList
      ∧ r.S.solution.x.size = A.n ∧ r.S.solution.s.size = A.m :=
  SolverNS.full_dual_infeasible_chainN true
    ((SolverNS.interiorN_stepHyp st hf0 hf1 hmv hb0 hb1).and (SolverNS.zeroSN_stepHyp st))
    (fun S0 hS hv => (SolverNS.interiorN_initHyp st S0 hS hv).and (SolverNS.zeroSN_initHyp st S0 hS))
    (fun _ _ h => h.1.pos.2) (fun _ _ h => ⟨h.1.mem_primal h.2, h.1.mem_dual⟩)
    ⟨hin, hvc, hpre, hlo, hhi⟩ htabs (fun _ => hgate) hnew hr hst

/-- **[S] `C02.ns_full_almost_infeasible_on_returned_iterate`** — where an `Almost*Infeasible` verdict
of the model with nonsymmetric cones comes from (any scalar type, `Float` included): `post_process`
assigns it (a) by `check_convergence_almost` on the figures of the LAST pass, whose iterate is the one
returned, or (b) after the insufficient-progress rollback, on the restored info of the discarded last
pass — the path `C02.rollback_never_infeasible` excludes for `reduced_tol_ktratio ≤ 1000`. -/
theorem ns_full_almost_infeasible_on_returned_iterate {α : Type}
    [Add α] [Sub α] [Mul α] [Div α] [Neg α] [LT α] [LE α] [DecidableLT α] [DecidableLE α]
    [BEq α] [OfNat α 0] [OfNat α 1] [OfNat α 2] [OfNat α 3] [OfNat α 4] [OfNat α 100] [OfNat α 1000]
    [OfScientific α] [FloatLike α]
    {S : SolverNS.Solver α} {st : SolverNS.Settings α} {r : SolverNS.SolveResult α}
    (hr : S.solve st = .ok r) {X : Info.SolverStatus}
    (hX : X = .almostPrimalInfeasible ∨ X = .almostDualInfeasible)
    (h : r.S.solution.status = X) :
    ∃ p l, SolverNS.Returned st S r p l ∧
      ((p = l ∧ (Info.checkConvergenceAlmost l.info l.dotBz l.dotQx st.info).status = X)
      ∨ (∃ k, (Info.checkTermination l.info l.dotBz l.dotQx st.info k false).1.status = .insufficientProgress
          ∧ (Info.postProcess (Info.resetToPrev (Info.checkTermination l.info l.dotBz l.dotQx st.info k false).1)
                l.dotBz l.dotQx st.info).status = X)) := by
  obtain ⟨p, l, hR⟩ := SolverNS.solve_returnedN hr
  exact ⟨p, l, hR, hR.almost_infeasible_verdict hX h⟩

/-! ### non-vacuity -/

section nsExamples
open Clarabel.SolverNS

/-- the input hypotheses hold on a real-valued instance WITH an exponential cone AND a power cone
(`cones = [nonneg 1, exp, pow ½]`, 7 rows, one variable) and the `DefaultSettings` defaults -/
example : Solver.InputOK FullExample.P FullExample.q FullExample.A FullExample.b FullExample.cones :=
  FullExample.inputOK
example : Equil.ValidCones FullExample.cones := FullExample.validCones
example : FullExample.stR.presolveEnable = false ∧ 0 < FullExample.stR.equil.minScaling
    ∧ 0 < FullExample.stR.equil.maxScaling ∧ 0 < FullExample.stR.maxStepFraction
    ∧ FullExample.stR.maxStepFraction < 1 ∧ 0 < FullExample.stR.maxValue
    ∧ 0 ≤ FullExample.stR.linesearchBacktrackStep ∧ FullExample.stR.linesearchBacktrackStep ≤ 1 :=
  FullExample.stR_ok

/-- the gate `reduced_tol_ktratio ≤ 1000` and `0 ≤ tol_infeas_abs` hold for the defaults -/
example : 1 ≤ (1 / FullExample.stR.info.reduced.ktratio) * 1000
    ∧ 0 ≤ FullExample.stR.info.full.infeas_abs ∧ 0 ≤ FullExample.stR.info.reduced.infeas_abs := by
  refine ⟨?_, ?_, ?_⟩
  · show (1 : ℝ) ≤ (1 / (1 / 10000)) * 1000; norm_num
  · show (0 : ℝ) ≤ 1 / 100000000; norm_num
  · show (0 : ℝ) ≤ 5 / 100000; norm_num

/-- the four certificate theorems applied to that instance: every hypothesis about the input and the
settings is discharged; what remains are the run hypotheses -/
example {perm : Array Nat} {S : Solver ℝ} {r : SolveResult ℝ}
    (hnew : Solver.new FullExample.P FullExample.q FullExample.A FullExample.b FullExample.cones
      FullExample.stR perm = .ok S)
    (hr : S.solve FullExample.stR = .ok r) :
    (r.S.solution.status = .primalInfeasible → r.S.solution.z.size = 7)
    ∧ (r.S.solution.status = .almostPrimalInfeasible → r.S.solution.z.size = 7)
    ∧ (r.S.solution.status = .dualInfeasible → r.S.solution.x.size = 1 ∧ r.S.solution.s.size = 7)
    ∧ (r.S.solution.status = .almostDualInfeasible → r.S.solution.x.size = 1 ∧ r.S.solution.s.size = 7) := by
  obtain ⟨h0, h1, h2, h3, h4, h5, h6, h7⟩ := FullExample.stR_ok
  have g1 : (0 : ℝ) ≤ FullExample.stR.info.full.infeas_abs := by
    show (0 : ℝ) ≤ 1 / 100000000; norm_num
  have g2 : (0 : ℝ) ≤ FullExample.stR.info.reduced.infeas_abs := by
    show (0 : ℝ) ≤ 5 / 100000; norm_num
  have g3 : 1 ≤ (1 / FullExample.stR.info.reduced.ktratio) * 1000 := by
    show (1 : ℝ) ≤ (1 / (1 / 10000)) * 1000; norm_num
  refine ⟨fun hst => ?_, fun hst => ?_, fun hst => ?_, fun hst => ?_⟩
  · obtain ⟨_, _, _, _, _, _, _, _, a⟩ := ns_full_primal_infeasible_certifies FullExample.inputOK
      FullExample.validCones (Or.inl h0) h1 h2 h3 h4 h5 h6 h7 g1 hnew hr hst
    exact a
  · obtain ⟨_, _, _, _, _, _, _, _, a⟩ := ns_full_almost_primal_infeasible_certifies FullExample.inputOK
      FullExample.validCones (Or.inl h0) h1 h2 h3 h4 h5 h6 h7 g2 g3 hnew hr hst
    exact a
  · obtain ⟨_, _, _, _, _, _, _, _, _, _, _, a, b⟩ := ns_full_dual_infeasible_certifies FullExample.inputOK
      FullExample.validCones (Or.inl h0) h1 h2 h3 h4 h5 h6 h7 g1 hnew hr hst
    exact ⟨a, b⟩
  · obtain ⟨_, _, _, _, _, _, _, _, _, _, _, a, b⟩ := ns_full_almost_dual_infeasible_certifies
      FullExample.inputOK FullExample.validCones (Or.inl h0) h1 h2 h3 h4 h5 h6 h7 g2 g3 hnew hr hst
    exact ⟨a, b⟩

section
open Clarabel.SolverNS.Example
attribute [local instance] intFloatLike intSci
/-- the run hypotheses hold on an instance with an EXPONENTIAL cone at integer data, evaluated by the
kernel: status `PrimalInfeasible` and status `AlmostPrimalInfeasible` (the dual-infeasible statuses
need `x ≠ 0`, which no integer-arithmetic run from `unit_initialization` reaches: see the header of
`Lemmas/SolverNSFullExample.lean`) -/
example : ∃ S r, FullExample.newSolverT #[-5, 0, 0, 0] (FullExample.stT FullExample.tolsInf tols 3) = .ok S
    ∧ S.solve (FullExample.stT FullExample.tolsInf tols 3) = .ok r
    ∧ r.S.solution.status = .primalInfeasible :=
  FullExample.primalInfeasible_hyps
example : ∃ S r, FullExample.newSolverT #[-5, 0, 0, 0] (FullExample.stT tols FullExample.tolsInf 0) = .ok S
    ∧ S.solve (FullExample.stT tols FullExample.tolsInf 0) = .ok r
    ∧ r.S.solution.status = .almostPrimalInfeasible :=
  FullExample.almostPrimalInfeasible_hyps
/-- `ns_full_almost_infeasible_on_returned_iterate` on the kernel-evaluated run -/
example : ∃ S r p l, FullExample.newSolverT #[-5, 0, 0, 0] (FullExample.stT tols FullExample.tolsInf 0) = .ok S
    ∧ S.solve (FullExample.stT tols FullExample.tolsInf 0) = .ok r
    ∧ Returned (FullExample.stT tols FullExample.tolsInf 0) S r p l := by
  obtain ⟨S, r, h1, h2, h3⟩ := FullExample.almostPrimalInfeasible_hyps
  obtain ⟨p, l, hR, -⟩ := ns_full_almost_infeasible_on_returned_iterate h2 (Or.inl rfl) h3
  exact ⟨S, r, p, l, h1, h2, hR⟩
end

end nsExamples


/-! ### presolve DROPS rows (model with nonsymmetric cones) -/

/-- **[R] `C02.ns_full_primal_infeasible_certifies_presolved`** — `ns_full_primal_infeasible_certifies`
when PRESOLVE DROPS ROWS (presolve enabled, `keep` the keep vector of `make_reduction_map`, at least one
row dropped).  The full-length `z` the user receives (`reverse_presolve`: `z = 0` on the dropped rows)
satisfies the Farkas conditions VERBATIM on the user's FULL `A`, `b` (capped):
`c·κ·bᵀz < −tol_infeas_abs`, `bᵀz < 0`, `‖Aᵀz‖₂ < tol_infeas_rel·c·(−bᵀz)·max(1, κ‖z‖₂)`, and the FULL
`z ∈ K*` for the user's collapsed cone list (all six cone kinds).  Composition of
`C09.ns_presolve_transparent_full`, `ns_full_primal_infeasible_certifies` on the hand-reduced problem and
the arithmetic of `C02.primal_cert_presolved`. -/
theorem ns_full_primal_infeasible_certifies_presolved {P : Csc ℝ} {q : Array ℝ} {A : Csc ℝ} {b : Array ℝ}
    {cones : List (ConeT ℝ)} {st : SolverNS.Settings ℝ} {perm : Array Nat} {S : SolverNS.Solver ℝ}
    {r : SolverNS.SolveResult ℝ} {keep : List Bool}
    (hin : Solver.InputOK P q A b cones) (hvc : Equil.ValidCones cones)
    (hpe : st.presolveEnable = true)
    (hk : Presolve.keepFlags (Presolve.threshold st.infbound) (Cones.newCollapsed cones) b.toList = .ok keep)
    (hc : keep.count true < b.size)
    (hlo : 0 < st.equil.minScaling) (hhi : 0 < st.equil.maxScaling)
    (hf0 : 0 < st.maxStepFraction) (hf1 : st.maxStepFraction < 1) (hmv : 0 < st.maxValue)
    (hb0 : 0 ≤ st.linesearchBacktrackStep) (hb1 : st.linesearchBacktrackStep ≤ 1)
    (htabs : 0 ≤ st.info.full.infeas_abs)
    (hnew : SolverNS.Solver.new P q A b cones st perm = .ok S) (hr : S.solve st = .ok r)
    (hst : r.S.solution.status = .primalInfeasible) :
    ∃ (c κ : ℝ), 0 < c ∧ 0 < κ ∧
      let bc := ProblemData.capB b st.infbound
      let z := vecFn r.S.solution.z A.m
      c * κ * dot (vecFn bc A.m) z < -st.info.full.infeas_abs
      ∧ dot (vecFn bc A.m) z < 0
      ∧ nrm (mulVT (matFn A A.m A.n) z)
          < st.info.full.infeas_rel * c * (-(dot (vecFn bc A.m) z)) * max 1 (κ * nrm z)
      ∧ (∀ i, InfoPresolve.keepFn keep A.m i = false → z i = 0)
      ∧ Equil.CompositeMem Equil.ConeMemDual (Cones.newCollapsed cones) r.S.solution.z.toList :=
  SolverNS.full_primal_infeasible_presolved_chainN false hin hvc hpe hk hc hlo hhi hf0 hf1 hmv hb0 hb1
    htabs (fun h => by cases h) hnew hr hst

/-- **[R] `C02.ns_full_dual_infeasible_certifies_presolved`** — `ns_full_dual_infeasible_certifies` when
PRESOLVE DROPS ROWS (`0 ≤ infbound`).  The returned `x` and full-length `s` satisfy on the user's FULL
data: `c·κ·qᵀx < −tol_infeas_abs`, `qᵀx < 0`, `‖Px‖₂ < tol_infeas_rel·(−qᵀx)·max(1, κ‖x‖₂)` verbatim, and
`‖Ax+s‖ < tol_infeas_rel·c·(−qᵀx)·max(1, κ(‖x‖₂+‖s‖))` with the two norms taken over the KEPT rows; the
dropped rows carry `s = infbound`; the FULL `s ∈ K` for the user's collapsed cone list; `|x| = n`. -/
theorem ns_full_dual_infeasible_certifies_presolved {P : Csc ℝ} {q : Array ℝ} {A : Csc ℝ} {b : Array ℝ}
    {cones : List (ConeT ℝ)} {st : SolverNS.Settings ℝ} {perm : Array Nat} {S : SolverNS.Solver ℝ}
    {r : SolverNS.SolveResult ℝ} {keep : List Bool}
    (hin : Solver.InputOK P q A b cones) (hvc : Equil.ValidCones cones)
    (hpe : st.presolveEnable = true)
    (hk : Presolve.keepFlags (Presolve.threshold st.infbound) (Cones.newCollapsed cones) b.toList = .ok keep)
    (hc : keep.count true < b.size) (hib : 0 ≤ st.infbound)
    (hlo : 0 < st.equil.minScaling) (hhi : 0 < st.equil.maxScaling)
    (hf0 : 0 < st.maxStepFraction) (hf1 : st.maxStepFraction < 1) (hmv : 0 < st.maxValue)
    (hb0 : 0 ≤ st.linesearchBacktrackStep) (hb1 : st.linesearchBacktrackStep ≤ 1)
    (htabs : 0 ≤ st.info.full.infeas_abs)
    (hnew : SolverNS.Solver.new P q A b cones st perm = .ok S) (hr : S.solve st = .ok r)
    (hst : r.S.solution.status = .dualInfeasible) :
    ∃ (Pn : Csc ℝ) (c κ : ℝ), ProblemData.triuStep P = .ok Pn ∧ 0 < c ∧ 0 < κ ∧
      let x := vecFn r.S.solution.x A.n
      let sv := vecFn r.S.solution.s A.m
      let kp := InfoPresolve.keepFn keep A.m
      c * κ * dot (vecFn q A.n) x < -st.info.full.infeas_abs
      ∧ dot (vecFn q A.n) x < 0
      ∧ nrm (mulV (symFn Pn A.n) x)
          < st.info.full.infeas_rel * (-(dot (vecFn q A.n) x)) * max 1 (κ * nrm x)
      ∧ InfoPresolve.nrmKept kp (fun k => mulV (matFn A A.m A.n) x k + sv k)
          < st.info.full.infeas_rel * c * (-(dot (vecFn q A.n) x))
              * max 1 (κ * (nrm x + InfoPresolve.nrmKept kp sv))
      ∧ (∀ i, kp i = false → sv i = st.infbound)
      ∧ Equil.CompositeMem Equil.ConeMem (Cones.newCollapsed cones) r.S.solution.s.toList
      ∧ r.S.solution.x.size = A.n :=
  SolverNS.full_dual_infeasible_presolved_chainN false hin hvc hpe hk hc hib hlo hhi hf0 hf1 hmv hb0 hb1
    htabs (fun h => by cases h) hnew hr hst

/-- **[R] `C02.ns_full_almost_primal_infeasible_certifies_presolved`** — the same for
`AlmostPrimalInfeasible` with the REDUCED tolerances, under the gate `1 ≤ 1000 / reduced_tol_ktratio`
(see `ns_full_almost_primal_infeasible_certifies`). -/
theorem ns_full_almost_primal_infeasible_certifies_presolved {P : Csc ℝ} {q : Array ℝ} {A : Csc ℝ} {b : Array ℝ}
    {cones : List (ConeT ℝ)} {st : SolverNS.Settings ℝ} {perm : Array Nat} {S : SolverNS.Solver ℝ}
    {r : SolverNS.SolveResult ℝ} {keep : List Bool}
    (hin : Solver.InputOK P q A b cones) (hvc : Equil.ValidCones cones)
    (hpe : st.presolveEnable = true)
    (hk : Presolve.keepFlags (Presolve.threshold st.infbound) (Cones.newCollapsed cones) b.toList = .ok keep)
    (hc : keep.count true < b.size)
    (hlo : 0 < st.equil.minScaling) (hhi : 0 < st.equil.maxScaling)
    (hf0 : 0 < st.maxStepFraction) (hf1 : st.maxStepFraction < 1) (hmv : 0 < st.maxValue)
    (hb0 : 0 ≤ st.linesearchBacktrackStep) (hb1 : st.linesearchBacktrackStep ≤ 1)
    (htabs : 0 ≤ st.info.reduced.infeas_abs)
    (hgate : 1 ≤ (1 / st.info.reduced.ktratio) * 1000)
    (hnew : SolverNS.Solver.new P q A b cones st perm = .ok S) (hr : S.solve st = .ok r)
    (hst : r.S.solution.status = .almostPrimalInfeasible) :
    ∃ (c κ : ℝ), 0 < c ∧ 0 < κ ∧
      let bc := ProblemData.capB b st.infbound
      let z := vecFn r.S.solution.z A.m
      c * κ * dot (vecFn bc A.m) z < -st.info.reduced.infeas_abs
      ∧ dot (vecFn bc A.m) z < 0
      ∧ nrm (mulVT (matFn A A.m A.n) z)
          < st.info.reduced.infeas_rel * c * (-(dot (vecFn bc A.m) z)) * max 1 (κ * nrm z)
      ∧ (∀ i, InfoPresolve.keepFn keep A.m i = false → z i = 0)
      ∧ Equil.CompositeMem Equil.ConeMemDual (Cones.newCollapsed cones) r.S.solution.z.toList :=
  SolverNS.full_primal_infeasible_presolved_chainN true hin hvc hpe hk hc hlo hhi hf0 hf1 hmv hb0 hb1
    htabs (fun _ => hgate) hnew hr hst

/-- **[R] `C02.ns_full_almost_dual_infeasible_certifies_presolved`** — the same for
`AlmostDualInfeasible` with the REDUCED tolerances, under the gate. -/
theorem ns_full_almost_dual_infeasible_certifies_presolved {P : Csc ℝ} {q : Array ℝ} {A : Csc ℝ} {b : Array ℝ}
    {cones : List (ConeT ℝ)} {st : SolverNS.Settings ℝ} {perm : Array Nat} {S : SolverNS.Solver ℝ}
    {r : SolverNS.SolveResult ℝ} {keep : List Bool}
    (hin : Solver.InputOK P q A b cones) (hvc : Equil.ValidCones cones)
    (hpe : st.presolveEnable = true)
    (hk : Presolve.keepFlags (Presolve.threshold st.infbound) (Cones.newCollapsed cones) b.toList = .ok keep)
    (hc : keep.count true < b.size) (hib : 0 ≤ st.infbound)
    (hlo : 0 < st.equil.minScaling) (hhi : 0 < st.equil.maxScaling)
    (hf0 : 0 < st.maxStepFraction) (hf1 : st.maxStepFraction < 1) (hmv : 0 < st.maxValue)
    (hb0 : 0 ≤ st.linesearchBacktrackStep) (hb1 : st.linesearchBacktrackStep ≤ 1)
    (htabs : 0 ≤ st.info.reduced.infeas_abs)
    (hgate : 1 ≤ (1 / st.info.reduced.ktratio) * 1000)
    (hnew : SolverNS.Solver.new P q A b cones st perm = .ok S) (hr : S.solve st = .ok r)
    (hst : r.S.solution.status = .almostDualInfeasible) :
    ∃ (Pn : Csc ℝ) (c κ : ℝ), ProblemData.triuStep P = .ok Pn ∧ 0 < c ∧ 0 < κ ∧
      let x := vecFn r.S.solution.x A.n
      let sv := vecFn r.S.solution.s A.m
      let kp := InfoPresolve.keepFn keep A.m
      c * κ * dot (vecFn q A.n) x < -st.info.reduced.infeas_abs
      ∧ dot (vecFn q A.n) x < 0
      ∧ nrm (mulV (symFn Pn A.n) x)
          < st.info.reduced.infeas_rel * (-(dot (vecFn q A.n) x)) * max 1 (κ * nrm x)
      ∧ InfoPresolve.nrmKept kp (fun k => mulV (matFn A A.m A.n) x k + sv k)
          < st.info.reduced.infeas_rel * c * (-(dot (vecFn q A.n) x))
              * max 1 (κ * (nrm x + InfoPresolve.nrmKept kp sv))
      ∧ (∀ i, kp i = false → sv i = st.infbound)
      ∧ Equil.CompositeMem Equil.ConeMem (Cones.newCollapsed cones) r.S.solution.s.toList
      ∧ r.S.solution.x.size = A.n :=
  SolverNS.full_dual_infeasible_presolved_chainN true hin hvc hpe hk hc hib hlo hhi hf0 hf1 hmv hb0 hb1
    htabs (fun _ => hgate) hnew hr hst

/-- non-vacuity of the presolve hypotheses (over `ℝ`, the instance of the first model's `…_presolved`
theorems: cones `[nonneg 2]`, `b = (1, 2·10²⁰)`, bound `10²⁰` — `make_reduction_map` drops row 1; the
cone parameters are admissible); the run hypotheses on an instance with an EXPONENTIAL cone and a dropped
row: `C09.ns_presolve_transparent_full`'s example (`new` evaluated by the kernel) -/
example : Presolve.keepFlags (Presolve.threshold (1e20 : ℝ)) (Cones.newCollapsed [ConeT.nonneg 2])
      (#[1, 2e20] : Array ℝ).toList = .ok [true, false]
    ∧ [true, false].count true < (#[1, 2e20] : Array ℝ).size ∧ (0 : ℝ) ≤ 1e20
    ∧ Equil.ValidCones [ConeT.nonneg (α := ℝ) 2] :=
  ⟨Solver.keepFlags_example, by decide, by norm_num, fun c hc => by
    rcases List.mem_singleton.mp hc with rfl; trivial⟩

end Clarabel.C02
