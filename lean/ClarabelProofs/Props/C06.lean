/-
  C06 — well-posed problems are actually solved, in few iterations.

  The statistical clause (≥ 99.5 % `Solved`, 95th percentile of the iteration count below an
  envelope over the family G) is *measured* by `harness/src/bin/c06.rs`; no theorem carries it.
  The theorems below are about the mechanism whose damage the property is meant to expose:
  the reduced solve with τ elimination, the affine residual contraction of a step, the
  centring rule and the complementarity update.  [F] = exact arithmetic in an ordered field.
-/
import ClarabelModel.Step
import ClarabelModel.KktSystem
import ClarabelProofs.Lemmas.StepNewton
import ClarabelProofs.Lemmas.StepBridge
import ClarabelProofs.Lemmas.ScalarInst
import Mathlib.Tactic.NormNum
import Mathlib.Tactic.Positivity

namespace Clarabel.C06
open Clarabel Clarabel.Step Clarabel.Lemmas Matrix

set_option linter.unusedSectionVars false

section newton
variable {α : Type} [Field α] {n m : ℕ}

/-- the residuals of the homogeneous embedding (`DefaultResiduals::update`) -/
def resX (P : Matrix (Fin n) (Fin n) α) (A : Matrix (Fin m) (Fin n) α) (q : Fin n → α)
    (x : Fin n → α) (z : Fin m → α) (τ : α) : Fin n → α := -(Aᵀ *ᵥ z) - P *ᵥ x - τ • q
def resZ (A : Matrix (Fin m) (Fin n) α) (b : Fin m → α) (x : Fin n → α) (s : Fin m → α) (τ : α) :
    Fin m → α := A *ᵥ x + s - τ • b
def resT (P : Matrix (Fin n) (Fin n) α) (q : Fin n → α) (b : Fin m → α) (x : Fin n → α)
    (z : Fin m → α) (τ κ : α) : α := q ⬝ᵥ x + b ⬝ᵥ z + κ + (x ⬝ᵥ P *ᵥ x) / τ

/-- the linearised (Newton) system of the homogeneous embedding at `(x, τ, κ)` with scaling
block `H` and right-hand side `(dx, dz, dτ, c, dκ)`; `ξ = x/τ` -/
structure IsNewtonStep (P : Matrix (Fin n) (Fin n) α) (A : Matrix (Fin m) (Fin n) α)
    (H : Matrix (Fin m) (Fin m) α) (q : Fin n → α) (b : Fin m → α) (x : Fin n → α) (τ κ : α)
    (rdx : Fin n → α) (rdz : Fin m → α) (rdτ : α) (c : Fin m → α) (rdκ : α)
    (Δ : DenseStep α n m) : Prop where
  eq_x : P *ᵥ Δ.dx + Aᵀ *ᵥ Δ.dz + Δ.dτ • q = rdx
  eq_z : A *ᵥ Δ.dx + Δ.ds - Δ.dτ • b = -rdz
  eq_τ : q ⬝ᵥ Δ.dx + b ⬝ᵥ Δ.dz + Δ.dκ + 2 * (((1 / τ) • x) ⬝ᵥ P *ᵥ Δ.dx)
          - (((1 / τ) • x) ⬝ᵥ P *ᵥ ((1 / τ) • x)) * Δ.dτ = -rdτ
  eq_s : H *ᵥ Δ.dz + Δ.ds = -c
  eq_κ : κ * Δ.dτ + τ * Δ.dκ = -rdκ

/-- [F] **The reduced solve is the Newton step.**  If the two linear solves inside
`DefaultKKTSystem::solve` are exact —
`[P Aᵀ; A −H][x1; z1] = [rhs.x; c − rhs.z]` and `[P Aᵀ; A −H][x2; z2] = [−q; b]` —
then the step assembled by `solve` (`Lemmas.assembleDense`, the dense reading of
`KktSystem.solveAssemble`, built from the model's `tauNum`, `tauDen`, `deltaKappa` including
the `P` quadratic-form terms) satisfies the full five-block linearised system. -/
theorem reduced_solve_is_newton (P : Matrix (Fin n) (Fin n) α) (hP : Pᵀ = P)
    (A : Matrix (Fin m) (Fin n) α) (H : Matrix (Fin m) (Fin m) α) (q : Fin n → α) (b : Fin m → α)
    (x : Fin n → α) (τ κ : α) (rdx : Fin n → α) (rdz : Fin m → α) (rdτ rdκ : α) (c : Fin m → α)
    (x1 : Fin n → α) (z1 : Fin m → α) (x2 : Fin n → α) (z2 : Fin m → α) (hτ : τ ≠ 0)
    (h1x : P *ᵥ x1 + Aᵀ *ᵥ z1 = rdx) (h1z : A *ᵥ x1 - H *ᵥ z1 = c - rdz)
    (h2x : P *ᵥ x2 + Aᵀ *ᵥ z2 = -q) (h2z : A *ᵥ x2 - H *ᵥ z2 = b)
    (hden : KktSystem.tauDen κ τ (q ⬝ᵥ x2) (b ⬝ᵥ z2)
        (((-1 : α) • x2 + (1 : α) • ((1 / τ) • x)) ⬝ᵥ P *ᵥ ((-1 : α) • x2 + (1 : α) • ((1 / τ) • x)))
        (x2 ⬝ᵥ P *ᵥ x2) ≠ 0) :
    IsNewtonStep P A H q b x τ κ rdx rdz rdτ c rdκ
      (assembleDense P H q b x τ κ rdτ rdκ c x1 z1 x2 z2) := by
  set ξ := (1 / τ) • x with hξ
  set Δ := assembleDense P H q b x τ κ rdτ rdκ c x1 z1 x2 z2 with hΔ
  have hdx : Δ.dx = x1 + Δ.dτ • x2 := by simp [hΔ, assembleDense]
  have hdz : Δ.dz = z1 + Δ.dτ • z2 := by simp [hΔ, assembleDense]
  have hds : Δ.ds = -c - H *ᵥ Δ.dz := by
    simp only [hΔ, assembleDense, neg_smul, one_smul]; abel
  have hdκ : Δ.dκ = KktSystem.deltaKappa rdκ κ τ Δ.dτ := rfl
  have hsym : ξ ⬝ᵥ P *ᵥ x2 = x2 ⬝ᵥ P *ᵥ ξ := sym_dot P hP ξ x2
  have hqf : ((-1 : α) • x2 + (1 : α) • ξ) ⬝ᵥ P *ᵥ ((-1 : α) • x2 + (1 : α) • ξ)
      = ξ ⬝ᵥ P *ᵥ ξ - 2 * (ξ ⬝ᵥ P *ᵥ x2) + x2 ⬝ᵥ P *ᵥ x2 := by
    simp only [neg_smul, one_smul, Matrix.mulVec_add, Matrix.mulVec_neg, add_dotProduct,
      dotProduct_add, neg_dotProduct, dotProduct_neg, ← hsym]
    ring
  have hkey : Δ.dτ * KktSystem.tauDen κ τ (q ⬝ᵥ x2) (b ⬝ᵥ z2)
        (ξ ⬝ᵥ P *ᵥ ξ - 2 * (ξ ⬝ᵥ P *ᵥ x2) + x2 ⬝ᵥ P *ᵥ x2) (x2 ⬝ᵥ P *ᵥ x2)
      = KktSystem.tauNum rdτ rdκ τ (q ⬝ᵥ x1) (b ⬝ᵥ z1) (ξ ⬝ᵥ P *ᵥ x1) := by
    rw [← hqf]
    exact div_mul_cancel₀ _ hden
  refine ⟨?_, ?_, ?_, ?_, ?_⟩
  · rw [hdx, hdz, Matrix.mulVec_add, Matrix.mulVec_add, Matrix.mulVec_smul, Matrix.mulVec_smul]
    calc P *ᵥ x1 + Δ.dτ • P *ᵥ x2 + (Aᵀ *ᵥ z1 + Δ.dτ • Aᵀ *ᵥ z2) + Δ.dτ • q
        = (P *ᵥ x1 + Aᵀ *ᵥ z1) + Δ.dτ • (P *ᵥ x2 + Aᵀ *ᵥ z2) + Δ.dτ • q := by
          rw [smul_add]; abel
      _ = rdx := by rw [h1x, h2x, smul_neg]; abel
  · rw [hds, hdx, hdz, Matrix.mulVec_add, Matrix.mulVec_add, Matrix.mulVec_smul, Matrix.mulVec_smul]
    calc A *ᵥ x1 + Δ.dτ • A *ᵥ x2 + (-c - (H *ᵥ z1 + Δ.dτ • H *ᵥ z2)) - Δ.dτ • b
        = (A *ᵥ x1 - H *ᵥ z1) + Δ.dτ • (A *ᵥ x2 - H *ᵥ z2) - c - Δ.dτ • b := by
          rw [smul_sub]; abel
      _ = -rdz := by rw [h1z, h2z]; abel
  · have := tau_row_scalar rdτ rdκ τ κ (q ⬝ᵥ x1) (q ⬝ᵥ x2) (b ⬝ᵥ z1) (b ⬝ᵥ z2) (ξ ⬝ᵥ P *ᵥ x1)
      (ξ ⬝ᵥ P *ᵥ x2) (ξ ⬝ᵥ P *ᵥ ξ) (x2 ⬝ᵥ P *ᵥ x2) Δ.dτ hτ hkey
    rw [hdκ, hdx, hdz, ← hξ]
    simp only [dotProduct_add, dotProduct_smul, Matrix.mulVec_add, Matrix.mulVec_smul, smul_eq_mul]
    linear_combination this
  · rw [hds]; abel
  · rw [hdκ]; unfold KktSystem.deltaKappa; field_simp; ring

/-- [F] **Residual contraction.**  If `Δ` solves the linearised system for the right-hand
side `(1−σ)·(rx, rz, rτ)` (what `affine_step_rhs` (σ = 0) / `combined_step_rhs` build), then
after `add_step α` the affine residuals are `(1 − α(1−σ))` times the old ones; the τ residual
carries the exact second-order remainder `α² dᵀPd/(τ+αΔτ)`, `d = Δx − Δτ·x/τ`, which vanishes
for linear/conic programmes (`P = 0`). -/
theorem residual_contraction (P : Matrix (Fin n) (Fin n) α) (hP : Pᵀ = P)
    (A : Matrix (Fin m) (Fin n) α) (H : Matrix (Fin m) (Fin m) α) (q : Fin n → α) (b : Fin m → α)
    (x : Fin n → α) (s z : Fin m → α) (τ κ σ a : α) (c : Fin m → α) (rdκ : α)
    (Δ : DenseStep α n m) (hτ : τ ≠ 0) (hτ' : τ + a * Δ.dτ ≠ 0)
    (hN : IsNewtonStep P A H q b x τ κ ((1 - σ) • resX P A q x z τ) ((1 - σ) • resZ A b x s τ)
      ((1 - σ) * resT P q b x z τ κ) c rdκ Δ) :
    resX P A q (x + a • Δ.dx) (z + a • Δ.dz) (τ + a * Δ.dτ) = (1 - a * (1 - σ)) • resX P A q x z τ
    ∧ resZ A b (x + a • Δ.dx) (s + a • Δ.ds) (τ + a * Δ.dτ) = (1 - a * (1 - σ)) • resZ A b x s τ
    ∧ resT P q b (x + a • Δ.dx) (z + a • Δ.dz) (τ + a * Δ.dτ) (κ + a * Δ.dκ)
        = (1 - a * (1 - σ)) * resT P q b x z τ κ
          + a ^ 2 * ((Δ.dx - Δ.dτ • ((1 / τ) • x)) ⬝ᵥ P *ᵥ (Δ.dx - Δ.dτ • ((1 / τ) • x)))
              / (τ + a * Δ.dτ) := by
  obtain ⟨ex, ez, eτ, _, _⟩ := hN
  refine ⟨?_, ?_, ?_⟩
  · have : resX P A q (x + a • Δ.dx) (z + a • Δ.dz) (τ + a * Δ.dτ)
        = resX P A q x z τ - a • (P *ᵥ Δ.dx + Aᵀ *ᵥ Δ.dz + Δ.dτ • q) := by
      simp only [resX, Matrix.mulVec_add, Matrix.mulVec_smul, add_smul, smul_add, mul_smul]
      abel
    rw [this, ex, smul_smul, sub_smul, one_smul]
  · have : resZ A b (x + a • Δ.dx) (s + a • Δ.ds) (τ + a * Δ.dτ)
        = resZ A b x s τ + a • (A *ᵥ Δ.dx + Δ.ds - Δ.dτ • b) := by
      simp only [resZ, Matrix.mulVec_add, Matrix.mulVec_smul, add_smul, smul_add, smul_sub, mul_smul]
      abel
    rw [this, ez, smul_neg, smul_smul, sub_smul, one_smul]
    abel
  · -- scalars
    set ξ := (1 / τ) • x with hξ
    have hx : x = τ • ξ := by rw [hξ, smul_smul, mul_one_div_cancel hτ, one_smul]
    have s1 : Δ.dx ⬝ᵥ P *ᵥ ξ = ξ ⬝ᵥ P *ᵥ Δ.dx := sym_dot P hP _ _
    have q0 : x ⬝ᵥ P *ᵥ x = τ ^ 2 * (ξ ⬝ᵥ P *ᵥ ξ) := by
      rw [hx]; simp only [dotProduct_smul, smul_dotProduct, Matrix.mulVec_smul, smul_eq_mul]; ring
    have q1 : (x + a • Δ.dx) ⬝ᵥ P *ᵥ (x + a • Δ.dx)
        = τ ^ 2 * (ξ ⬝ᵥ P *ᵥ ξ) + 2 * a * τ * (ξ ⬝ᵥ P *ᵥ Δ.dx) + a ^ 2 * (Δ.dx ⬝ᵥ P *ᵥ Δ.dx) := by
      rw [hx]
      simp only [dotProduct_add, add_dotProduct, dotProduct_smul, smul_dotProduct, Matrix.mulVec_add,
        Matrix.mulVec_smul, smul_eq_mul, s1]
      ring
    have q2 : (Δ.dx - Δ.dτ • ξ) ⬝ᵥ P *ᵥ (Δ.dx - Δ.dτ • ξ)
        = Δ.dx ⬝ᵥ P *ᵥ Δ.dx - 2 * Δ.dτ * (ξ ⬝ᵥ P *ᵥ Δ.dx) + Δ.dτ ^ 2 * (ξ ⬝ᵥ P *ᵥ ξ) := by
      simp only [dotProduct_sub, sub_dotProduct, dotProduct_smul, smul_dotProduct, Matrix.mulVec_sub,
        Matrix.mulVec_smul, smul_eq_mul, s1]
      ring
    have l1 : q ⬝ᵥ (x + a • Δ.dx) = τ * (q ⬝ᵥ ξ) + a * (q ⬝ᵥ Δ.dx) := by
      rw [hx]; simp only [dotProduct_add, dotProduct_smul, smul_eq_mul]
    have l2 : b ⬝ᵥ (z + a • Δ.dz) = b ⬝ᵥ z + a * (b ⬝ᵥ Δ.dz) := by
      simp only [dotProduct_add, dotProduct_smul, smul_eq_mul]
    have l0 : q ⬝ᵥ x = τ * (q ⬝ᵥ ξ) := by
      rw [hx]; simp only [dotProduct_smul, smul_eq_mul]
    simp only [resT] at eτ ⊢
    rw [q0, l0] at eτ
    rw [q1, q2, l1, l2, q0, l0]
    exact tau_residual_scalar τ a Δ.dτ (q ⬝ᵥ ξ) (q ⬝ᵥ Δ.dx) (b ⬝ᵥ z) (b ⬝ᵥ Δ.dz) κ Δ.dκ σ
      (ξ ⬝ᵥ P *ᵥ ξ) (ξ ⬝ᵥ P *ᵥ Δ.dx) (Δ.dx ⬝ᵥ P *ᵥ Δ.dx) hτ hτ' eτ

/-- [F] **The executable model is the dense assembly.**  On well-sized arrays, with `qf` the
quadratic form of a dense `P` and `mulHs` the action of a dense `H` (what `_csc_quad_form`
and `mul_Hs` compute — C16/C13), the `Array`-level model `KktSystem.solveAssemble` of
`DefaultKKTSystem::solve` (the function the `kkt.solve` channel ties bit-for-bit to the Rust
code) succeeds and returns exactly `Lemmas.assembleDense` read through `toFn`, together with
the right-hand side `(rhs.x, c − rhs.z)` it hands to the linear solver. -/
theorem solveAssemble_eq_dense (P : Matrix (Fin n) (Fin n) α) (H : Matrix (Fin m) (Fin m) α)
    (qf : Array α → Array α → MErr α) (mulHs : Array α → Array α)
    (hqf : ∀ a b : Array α, a.size = n → b.size = n → qf a b = .ok (toFn a n ⬝ᵥ P *ᵥ toFn b n))
    (hH : ∀ v : Array α, v.size = m → (mulHs v).size = m ∧ toFn (mulHs v) m = H *ᵥ toFn v m)
    (q b : Array α) (vars rhs : Vars α) (c x1 z1 x2 z2 : Array α)
    (hq : q.size = n) (hb : b.size = m) (hvx : vars.x.size = n) (hrx : rhs.x.size = n)
    (hrz : rhs.z.size = m) (hc : c.size = m) (hx1 : x1.size = n) (hz1 : z1.size = m)
    (hx2 : x2.size = n) (hz2 : z2.size = m) :
    ∃ lhs wx wz, KktSystem.solveAssemble qf mulHs q b vars rhs c x1 z1 x2 z2 = .ok (lhs, wx, wz)
      ∧ (let Δ := assembleDense P H (toFn q n) (toFn b m) (toFn vars.x n) vars.τ vars.κ rhs.τ rhs.κ
            (toFn c m) (toFn x1 n) (toFn z1 m) (toFn x2 n) (toFn z2 m)
         toFn lhs.x n = Δ.dx ∧ toFn lhs.z m = Δ.dz ∧ toFn lhs.s m = Δ.ds ∧ lhs.τ = Δ.dτ
          ∧ lhs.κ = Δ.dκ)
      ∧ toFn wx n = toFn rhs.x n ∧ toFn wz m = toFn c m - toFn rhs.z m := by
  have hξ := axpby_size ((1 : α) / vars.τ) 0 vars.x rhs.x hvx hrx
  have hξm := axpby_size (-(1 : α)) 1 x2 (Vec.axpby ((1 : α) / vars.τ) vars.x 0 rhs.x) hx2 hξ
  have eξ : toFn (Vec.axpby ((1 : α) / vars.τ) vars.x 0 rhs.x) n = (1 / vars.τ) • toFn vars.x n := by
    rw [toFn_axpby _ _ _ _ hvx hrx, zero_smul, add_zero]
  have eξm : toFn (Vec.axpby (-(1 : α)) x2 1 (Vec.axpby ((1 : α) / vars.τ) vars.x 0 rhs.x)) n
      = (-1 : α) • toFn x2 n + (1 : α) • ((1 / vars.τ) • toFn vars.x n) := by
    rw [toFn_axpby _ _ _ _ hx2 hξ, eξ]
  unfold KktSystem.solveAssemble
  simp only [hqf _ _ hξ hx1, hqf _ _ hξm hξm, hqf _ _ hx2 hx2, bind, Except.bind, pure, Except.pure]
  refine ⟨_, _, _, rfl, ?_, rfl, ?_⟩
  · simp only [assembleDense]
    rw [dot_toFn q x1 hq hx1, dot_toFn b z1 hb hz1, dot_toFn q x2 hq hx2, dot_toFn b z2 hb hz2, eξ,
      eξm]
    set dτ := KktSystem.tauNum rhs.τ rhs.κ vars.τ (toFn q n ⬝ᵥ toFn x1 n) (toFn b m ⬝ᵥ toFn z1 m)
        (((1 / vars.τ) • toFn vars.x n) ⬝ᵥ P *ᵥ toFn x1 n) /
      KktSystem.tauDen vars.κ vars.τ (toFn q n ⬝ᵥ toFn x2 n) (toFn b m ⬝ᵥ toFn z2 m)
        (((-1 : α) • toFn x2 n + (1 : α) • ((1 / vars.τ) • toFn vars.x n)) ⬝ᵥ
          P *ᵥ ((-1 : α) • toFn x2 n + (1 : α) • ((1 / vars.τ) • toFn vars.x n)))
        (toFn x2 n ⬝ᵥ P *ᵥ toFn x2 n) with hdτ
    have hdz := waxpby_size (1 : α) dτ z1 z2 hz1 hz2
    refine ⟨toFn_waxpby _ _ _ _ hx1 hx2, toFn_waxpby _ _ _ _ hz1 hz2, ?_, rfl, rfl⟩
    rw [toFn_axpby _ _ _ _ hc (hH _ hdz).1, (hH _ hdz).2, toFn_waxpby _ _ _ _ hz1 hz2]
  · rw [toFn_waxpby _ _ _ _ hc hrz]
    simp only [one_smul, neg_smul]
    abel

/-- [F] **The executable model computes the Newton step** (`solveAssemble_eq_dense` +
`reduced_solve_is_newton`): if the two linear-solve results handed to the model are exact,
the step returned by `KktSystem.solveAssemble`, read as vectors, solves the full linearised
system. -/
theorem solveAssemble_is_newton (P : Matrix (Fin n) (Fin n) α) (hP : Pᵀ = P)
    (A : Matrix (Fin m) (Fin n) α) (H : Matrix (Fin m) (Fin m) α)
    (qf : Array α → Array α → MErr α) (mulHs : Array α → Array α)
    (hqf : ∀ a b : Array α, a.size = n → b.size = n → qf a b = .ok (toFn a n ⬝ᵥ P *ᵥ toFn b n))
    (hH : ∀ v : Array α, v.size = m → (mulHs v).size = m ∧ toFn (mulHs v) m = H *ᵥ toFn v m)
    (q b : Array α) (vars rhs : Vars α) (c x1 z1 x2 z2 : Array α)
    (hq : q.size = n) (hb : b.size = m) (hvx : vars.x.size = n) (hrx : rhs.x.size = n)
    (hrz : rhs.z.size = m) (hc : c.size = m) (hx1 : x1.size = n) (hz1 : z1.size = m)
    (hx2 : x2.size = n) (hz2 : z2.size = m) (hτ : vars.τ ≠ 0)
    (h1x : P *ᵥ toFn x1 n + Aᵀ *ᵥ toFn z1 m = toFn rhs.x n)
    (h1z : A *ᵥ toFn x1 n - H *ᵥ toFn z1 m = toFn c m - toFn rhs.z m)
    (h2x : P *ᵥ toFn x2 n + Aᵀ *ᵥ toFn z2 m = -toFn q n)
    (h2z : A *ᵥ toFn x2 n - H *ᵥ toFn z2 m = toFn b m)
    (hden : KktSystem.tauDen vars.κ vars.τ (toFn q n ⬝ᵥ toFn x2 n) (toFn b m ⬝ᵥ toFn z2 m)
        (((-1 : α) • toFn x2 n + (1 : α) • ((1 / vars.τ) • toFn vars.x n)) ⬝ᵥ
          P *ᵥ ((-1 : α) • toFn x2 n + (1 : α) • ((1 / vars.τ) • toFn vars.x n)))
        (toFn x2 n ⬝ᵥ P *ᵥ toFn x2 n) ≠ 0) :
    ∃ lhs wx wz, KktSystem.solveAssemble qf mulHs q b vars rhs c x1 z1 x2 z2 = .ok (lhs, wx, wz)
      ∧ IsNewtonStep P A H (toFn q n) (toFn b m) (toFn vars.x n) vars.τ vars.κ (toFn rhs.x n)
          (toFn rhs.z m) rhs.τ (toFn c m) rhs.κ
          ⟨toFn lhs.x n, toFn lhs.s m, toFn lhs.z m, lhs.τ, lhs.κ⟩ := by
  obtain ⟨lhs, wx, wz, hrun, ⟨e1, e2, e3, e4, e5⟩, _, _⟩ :=
    solveAssemble_eq_dense P H qf mulHs hqf hH q b vars rhs c x1 z1 x2 z2 hq hb hvx hrx hrz hc hx1
      hz1 hx2 hz2
  refine ⟨lhs, wx, wz, hrun, ?_⟩
  have hN := reduced_solve_is_newton P hP A H (toFn q n) (toFn b m) (toFn vars.x n) vars.τ vars.κ
    (toFn rhs.x n) (toFn rhs.z m) rhs.τ rhs.κ (toFn c m) (toFn x1 n) (toFn z1 m) (toFn x2 n)
    (toFn z2 m) hτ h1x h1z h2x h2z hden
  rw [e1, e2, e3, e4, e5]
  exact hN

end newton

section scalar
variable {α : Type} [Field α] [LinearOrder α] [IsStrictOrderedRing α]

/-- [F] **Centring range.**  `σ = centering_parameter(α) = (1−α)³` lies in `[0,1]` for a step
length `α ∈ [0,1]` and is antitone in `α` there (a longer affine step gives less centring);
the Mehrotra corrector is damped by `m = α` in the first iteration and `m = 1` afterwards. -/
theorem centering_range (a b : α) (ha0 : 0 ≤ a) (hab : a ≤ b) (hb1 : b ≤ 1) :
    centeringParameter a = (1 - a) ^ 3
    ∧ 0 ≤ centeringParameter b ∧ centeringParameter b ≤ centeringParameter a
    ∧ centeringParameter a ≤ 1
    ∧ (∀ iter, mehrotraM iter a = if iter > 1 then 1 else a) := by
  have e : ∀ t : α, centeringParameter t = (1 - t) ^ 3 := by
    intro t; unfold centeringParameter; ring
  have h0 : (0 : α) ≤ 1 - b := by linarith
  have h1 : 1 - b ≤ 1 - a := by linarith
  have h2 : 1 - a ≤ 1 := by linarith
  refine ⟨e a, ?_, ?_, ?_, fun _ => rfl⟩
  · rw [e]; positivity
  · rw [e, e]; exact pow_le_pow_left₀ h0 h1 3
  · rw [e]; exact pow_le_one₀ (by linarith) h2

variable [FloatLike α] [LawfulFloatLike α]

/-- [F] **Complementarity update on nonnegative cones.**  With `μ = calc_mu = (s·z+τκ)/(ν+1)`,
a combined step satisfying the last two blocks of the linearised system for the right-hand
side of `combined_step_rhs` (`dsᵢ = sᵢzᵢ + m·Δsᵃᵢ Δzᵃᵢ − σμ`, `dκ = τκ + m·Δτᵃ Δκᵃ − σμ`;
on nonnegative cones `Hs Δz + Δs = −ds/z` reads `sᵢΔzᵢ + zᵢΔsᵢ = −dsᵢ`) gives

  `s⁺·z⁺ + τ⁺κ⁺ = (1 − α(1−σ))(ν+1)μ − α·m·(Δsᵃ·Δzᵃ + ΔτᵃΔκᵃ) + α²(Δs·Δz + ΔτΔκ)`. -/
theorem mu_update_nn {ν : ℕ} (s z ds dz dsa dza : Fin ν → α) (τ κ dτ dκ dτa dκa σ m a : α)
    (hs : ∀ i, s i * dz i + z i * ds i
      = -(s i * z i + m * dsa i * dza i - σ * calcMu (s ⬝ᵥ z) τ κ ν))
    (hκ : κ * dτ + τ * dκ = -(τ * κ + m * dτa * dκa - σ * calcMu (s ⬝ᵥ z) τ κ ν)) :
    (s + a • ds) ⬝ᵥ (z + a • dz) + (τ + a * dτ) * (κ + a * dκ)
      = (1 - a * (1 - σ)) * ((ν + 1 : α) * calcMu (s ⬝ᵥ z) τ κ ν)
        - a * m * (dsa ⬝ᵥ dza + dτa * dκa) + a ^ 2 * (ds ⬝ᵥ dz + dτ * dκ) := by
  have hν : ((ν : α) + 1) ≠ 0 := by positivity
  have hμ : ((ν : α) + 1) * calcMu (s ⬝ᵥ z) τ κ ν = s ⬝ᵥ z + τ * κ := by
    unfold calcMu
    rw [LawfulFloatLike.ofNat_eq]
    push_cast
    field_simp
  have hsum : s ⬝ᵥ dz + z ⬝ᵥ ds
      = -(s ⬝ᵥ z + m * (dsa ⬝ᵥ dza) - (ν : α) * (σ * calcMu (s ⬝ᵥ z) τ κ ν)) := by
    simp only [dotProduct, ← Finset.sum_add_distrib, hs, Finset.mul_sum]
    simp only [Finset.sum_neg_distrib, Finset.sum_sub_distrib, Finset.sum_add_distrib,
      Finset.sum_const, Finset.card_univ, Fintype.card_fin, nsmul_eq_mul, mul_assoc]
  have hexp : (s + a • ds) ⬝ᵥ (z + a • dz)
      = s ⬝ᵥ z + a * (s ⬝ᵥ dz + z ⬝ᵥ ds) + a ^ 2 * (ds ⬝ᵥ dz) := by
    simp only [add_dotProduct, dotProduct_add, smul_dotProduct, dotProduct_smul, smul_eq_mul]
    rw [dotProduct_comm ds z]
    ring
  rw [hexp, hsum, hμ]
  have hμ' : calcMu (s ⬝ᵥ z) τ κ ν * ((ν : α) + 1) = s ⬝ᵥ z + τ * κ := by rw [mul_comm]; exact hμ
  linear_combination a * hκ + (a * σ) * hμ'

/-- non-vacuity of `mu_update_nn`: one nonnegative row, `s = z = τ = κ = 1`, pure centring
step (`σ = 1`, `Δ = 0`) keeps `μ` -/
example : ((fun _ => (1 : ℝ)) + (1 : ℝ) • (fun _ : Fin 1 => (0 : ℝ))) ⬝ᵥ ((fun _ => (1 : ℝ)) + (1 : ℝ) • (fun _ : Fin 1 => (0 : ℝ)))
      + (1 + 1 * 0) * (1 + 1 * 0)
    = (1 - 1 * (1 - 1)) * (((1 : ℕ) + 1 : ℝ) * calcMu ((fun _ : Fin 1 => (1 : ℝ)) ⬝ᵥ fun _ => (1 : ℝ)) 1 1 1)
      - 1 * 1 * ((fun _ : Fin 1 => (0 : ℝ)) ⬝ᵥ (fun _ => (0 : ℝ)) + 0 * 0)
      + 1 ^ 2 * ((fun _ : Fin 1 => (0 : ℝ)) ⬝ᵥ (fun _ => (0 : ℝ)) + 0 * 0) := by
  have hμ : calcMu ((fun _ : Fin 1 => (1 : ℝ)) ⬝ᵥ fun _ => (1 : ℝ)) 1 1 1 = 1 := by
    unfold calcMu
    rw [LawfulFloatLike.ofNat_eq]
    simp [dotProduct] <;> norm_num
  exact mu_update_nn (ν := 1) (fun _ => 1) (fun _ => 1) (fun _ => 0) (fun _ => 0) (fun _ => 0)
    (fun _ => 0) 1 1 0 0 0 0 1 1 1 (by intro i; rw [hμ]; norm_num) (by rw [hμ]; norm_num)

end scalar

/-- non-vacuity of `centering_range` -/
example : centeringParameter (1 / 2 : ℚ) = 1 / 8 := by unfold centeringParameter; norm_num

/-- non-vacuity of `reduced_solve_is_newton` / `residual_contraction`: the 1×1 LP
`min x s.t. x + s = 1, s ≥ 0` at `x = 0, τ = κ = 1`, `H = 1`; exact solves
`x1 = z1 = 1` for the rhs `(1, 0)` and `x2 = 0, z2 = −1` for `(−1, 1)`. -/
example :
    IsNewtonStep (0 : Matrix (Fin 1) (Fin 1) ℚ) (1 : Matrix (Fin 1) (Fin 1) ℚ) 1 (fun _ => 1)
      (fun _ => 1) (fun _ => 0) 1 1 (fun _ => 1) (fun _ => 1) 1 (fun _ => 1) 1
      (assembleDense 0 1 (fun _ => 1) (fun _ => 1) (fun _ => 0) 1 1 1 1 (fun _ => 1)
        (fun _ => 1) (fun _ => 1) (fun _ => 0) (fun _ => -1)) := by
  apply reduced_solve_is_newton
  case hP => simp
  case hτ => norm_num
  case h1x => ext i; simp
  case h1z => ext i; simp
  case h2x => ext i; simp
  case h2z => ext i; simp
  case hden => simp [KktSystem.tauDen, dotProduct]

/-- non-vacuity of `solveAssemble_eq_dense` (hypotheses are satisfiable and the executable
model returns a value): `n = m = 1`, `P = 0`, `H = 1` (`mulHs = id`) -/
example : ∃ lhs wx wz,
    KktSystem.solveAssemble (fun a b => .ok (toFn a 1 ⬝ᵥ (0 : Matrix (Fin 1) (Fin 1) ℚ) *ᵥ toFn b 1))
      id #[1] #[1] ⟨#[0], #[1], #[1], 1, 1⟩ ⟨#[1], #[1], #[1], 1, 1⟩ #[1] #[1] #[1] #[0] #[-1]
      = .ok (lhs, wx, wz) := by
  obtain ⟨lhs, wx, wz, h, _⟩ := solveAssemble_eq_dense (n := 1) (m := 1) (0 : Matrix (Fin 1) (Fin 1) ℚ) 1
    (fun a b => .ok (toFn a 1 ⬝ᵥ (0 : Matrix (Fin 1) (Fin 1) ℚ) *ᵥ toFn b 1)) id
    (fun _ _ _ _ => rfl) (fun v hv => ⟨hv, by rw [Matrix.one_mulVec]; rfl⟩)
    #[1] #[1] ⟨#[0], #[1], #[1], 1, 1⟩ ⟨#[1], #[1], #[1], 1, 1⟩ #[1] #[1] #[1] #[0] #[-1]
    rfl rfl rfl rfl rfl rfl rfl rfl rfl rfl
  exact ⟨lhs, wx, wz, h⟩

end Clarabel.C06
