/-
  C06 — well-posed problems are actually solved, in few iterations.

  The statistical clause (≥ 99.5 % `Solved`, 95th percentile of the iteration count below an
  envelope over the family G) is *measured* by `harness/src/bin/c06.rs`; no theorem carries it.
  The theorems below are about the mechanism whose damage the property is meant to expose:
  the reduced solve with τ elimination, the affine residual contraction of a step, the
  centring rule and the complementarity update.  [F] = exact arithmetic in an ordered field.

  Round 3: every theorem also has an `…_array` corollary on the executable `Array` functions of
  `ClarabelModel/Step.lean` / `KktSystem.lean` (the ones tied bit-for-bit to the Rust code); the
  combined step is shown to satisfy the linearised complementarity equation on second-order cones
  (with C13's operators), in abstract form for any symmetric cone (PSD), and the `Δs` equation
  of the exponential / power cones; the exact per-step update of `μ` and its decrease are
  proved for every symmetric cone (`mu_update_sum`, `mu_decrease`, `newton_step_orthogonality`).

  Round 6: the starting point — `solve_initial_point` / `default_start` of the whole-solver model
  (`solve_initial_point_calls_lp/_qp` [S], `solve_initial_point_lp/_qp` [F] least squares,
  `default_start_ignores_flags` [S], `default_start_lp`, `identity_scaling_block`); one accepted pass
  of the whole-solver model `Solver.pass` with second-order cones (`pass_is_newton_step`,
  `pass_residual_contraction`, `pass_mu_update_partial`); the PSD combined step from the LAPACK
  contracts alone (`psd_combined_step_from_contracts`).

  Round 9: the one-pass theorems along a WHOLE `solve()` (`solve_pass_is_newton`,
  `solve_every_pass_is_newton`, `solve_every_pass_is_newton_total`, `solve_residuals_product`): every
  accepted pass recorded in the trajectory takes the Newton step, contracts the residuals by
  `1 − α(1−σ)` and updates `μ` by the exact formula, under exactness of ITS two reduced solves
  (`PassExact`); interior-ness is threaded from `default_start()` (`Lemmas/StepPassTraj.lean`).
-/
import ClarabelModel.Step
import ClarabelModel.KktSystem
import ClarabelProofs.Lemmas.StepNewton
import ClarabelProofs.Lemmas.StepBridge
import ClarabelProofs.Lemmas.ScalarInst
import ClarabelProofs.Lemmas.StepArray
import ClarabelProofs.Lemmas.StepProgress
import ClarabelProofs.Lemmas.StepSoc
import ClarabelProofs.Lemmas.StepCones
import ClarabelProofs.Lemmas.StepGenPow
import ClarabelProofs.Lemmas.StepPsd
import ClarabelProofs.Lemmas.StepQuadForm
import ClarabelProofs.Lemmas.StepInitPoint
import ClarabelProofs.Lemmas.StepInitPointExample
import ClarabelProofs.Lemmas.StepPass
import ClarabelProofs.Lemmas.StepPsdContracts
import ClarabelProofs.Lemmas.StepPassMu
import ClarabelProofs.Lemmas.StepPassMuZero
import ClarabelProofs.Lemmas.StepPassMuStart
import ClarabelProofs.Lemmas.StepPassMuExample
import ClarabelProofs.Lemmas.StepPassTraj
import ClarabelProofs.Lemmas.StepPassRange
import ClarabelProofs.Lemmas.SolverTotal
import Mathlib.Tactic.NormNum
import Mathlib.Tactic.Positivity

namespace Clarabel.C06
open Clarabel Clarabel.Step Clarabel.Lemmas Matrix

set_option linter.unusedSectionVars false

section newton
variable {α : Type} [Field α] {n m : ℕ}

/-- the residuals of the homogeneous embedding (`DefaultResiduals::update`) -/
def resX (P : Matrix (Fin n) (Fin n) α) (A : Matrix (Fin m) (Fin n) α) (q : Fin n → α)
    (x : Fin n → α) (z : Fin m → α) (τ : α) : Fin n → α := -(Aᵀ *ᵥ z) - P *ᵥ x - τ • q
def resZ (A : Matrix (Fin m) (Fin n) α) (b : Fin m → α) (x : Fin n → α) (s : Fin m → α) (τ : α) :
    Fin m → α := A *ᵥ x + s - τ • b
def resT (P : Matrix (Fin n) (Fin n) α) (q : Fin n → α) (b : Fin m → α) (x : Fin n → α)
    (z : Fin m → α) (τ κ : α) : α := q ⬝ᵥ x + b ⬝ᵥ z + κ + (x ⬝ᵥ P *ᵥ x) / τ

/-- the linearised (Newton) system of the homogeneous embedding at `(x, τ, κ)` with scaling
block `H` and right-hand side `(dx, dz, dτ, c, dκ)`; `ξ = x/τ` -/
structure IsNewtonStep (P : Matrix (Fin n) (Fin n) α) (A : Matrix (Fin m) (Fin n) α)
    (H : Matrix (Fin m) (Fin m) α) (q : Fin n → α) (b : Fin m → α) (x : Fin n → α) (τ κ : α)
    (rdx : Fin n → α) (rdz : Fin m → α) (rdτ : α) (c : Fin m → α) (rdκ : α)
    (Δ : DenseStep α n m) : Prop where
  eq_x : P *ᵥ Δ.dx + Aᵀ *ᵥ Δ.dz + Δ.dτ • q = rdx
  eq_z : A *ᵥ Δ.dx + Δ.ds - Δ.dτ • b = -rdz
  eq_τ : q ⬝ᵥ Δ.dx + b ⬝ᵥ Δ.dz + Δ.dκ + 2 * (((1 / τ) • x) ⬝ᵥ P *ᵥ Δ.dx)
          - (((1 / τ) • x) ⬝ᵥ P *ᵥ ((1 / τ) • x)) * Δ.dτ = -rdτ
  eq_s : H *ᵥ Δ.dz + Δ.ds = -c
  eq_κ : κ * Δ.dτ + τ * Δ.dκ = -rdκ

/-- [F] **The reduced solve is the Newton step.**  If the two linear solves inside
`DefaultKKTSystem::solve` are exact —
`[P Aᵀ; A −H][x1; z1] = [rhs.x; c − rhs.z]` and `[P Aᵀ; A −H][x2; z2] = [−q; b]` —
then the step assembled by `solve` (`Lemmas.assembleDense`, the dense reading of
`KktSystem.solveAssemble`, built from the model's `tauNum`, `tauDen`, `deltaKappa` including
the `P` quadratic-form terms) satisfies the full five-block linearised system. -/
theorem reduced_solve_is_newton (P : Matrix (Fin n) (Fin n) α) (hP : Pᵀ = P)
    (A : Matrix (Fin m) (Fin n) α) (H : Matrix (Fin m) (Fin m) α) (q : Fin n → α) (b : Fin m → α)
    (x : Fin n → α) (τ κ : α) (rdx : Fin n → α) (rdz : Fin m → α) (rdτ rdκ : α) (c : Fin m → α)
    (x1 : Fin n → α) (z1 : Fin m → α) (x2 : Fin n → α) (z2 : Fin m → α) (hτ : τ ≠ 0)
    (h1x : P *ᵥ x1 + Aᵀ *ᵥ z1 = rdx) (h1z : A *ᵥ x1 - H *ᵥ z1 = c - rdz)
    (h2x : P *ᵥ x2 + Aᵀ *ᵥ z2 = -q) (h2z : A *ᵥ x2 - H *ᵥ z2 = b)
    (hden : KktSystem.tauDen κ τ (q ⬝ᵥ x2) (b ⬝ᵥ z2)
        (((-1 : α) • x2 + (1 : α) • ((1 / τ) • x)) ⬝ᵥ P *ᵥ ((-1 : α) • x2 + (1 : α) • ((1 / τ) • x)))
        (x2 ⬝ᵥ P *ᵥ x2) ≠ 0) :
    IsNewtonStep P A H q b x τ κ rdx rdz rdτ c rdκ
      (assembleDense P H q b x τ κ rdτ rdκ c x1 z1 x2 z2) := by
  set ξ := (1 / τ) • x with hξ
  set Δ := assembleDense P H q b x τ κ rdτ rdκ c x1 z1 x2 z2 with hΔ
  have hdx : Δ.dx = x1 + Δ.dτ • x2 := by simp [hΔ, assembleDense]
  have hdz : Δ.dz = z1 + Δ.dτ • z2 := by simp [hΔ, assembleDense]
  have hds : Δ.ds = -c - H *ᵥ Δ.dz := by
    simp only [hΔ, assembleDense, neg_smul, one_smul]; abel
  have hdκ : Δ.dκ = KktSystem.deltaKappa rdκ κ τ Δ.dτ := rfl
  have hsym : ξ ⬝ᵥ P *ᵥ x2 = x2 ⬝ᵥ P *ᵥ ξ := sym_dot P hP ξ x2
  have hqf : ((-1 : α) • x2 + (1 : α) • ξ) ⬝ᵥ P *ᵥ ((-1 : α) • x2 + (1 : α) • ξ)
      = ξ ⬝ᵥ P *ᵥ ξ - 2 * (ξ ⬝ᵥ P *ᵥ x2) + x2 ⬝ᵥ P *ᵥ x2 := by
    simp only [neg_smul, one_smul, Matrix.mulVec_add, Matrix.mulVec_neg, add_dotProduct,
      dotProduct_add, neg_dotProduct, dotProduct_neg, ← hsym]
    ring
  have hkey : Δ.dτ * KktSystem.tauDen κ τ (q ⬝ᵥ x2) (b ⬝ᵥ z2)
        (ξ ⬝ᵥ P *ᵥ ξ - 2 * (ξ ⬝ᵥ P *ᵥ x2) + x2 ⬝ᵥ P *ᵥ x2) (x2 ⬝ᵥ P *ᵥ x2)
      = KktSystem.tauNum rdτ rdκ τ (q ⬝ᵥ x1) (b ⬝ᵥ z1) (ξ ⬝ᵥ P *ᵥ x1) := by
    rw [← hqf]
    exact div_mul_cancel₀ _ hden
  refine ⟨?_, ?_, ?_, ?_, ?_⟩
  · rw [hdx, hdz, Matrix.mulVec_add, Matrix.mulVec_add, Matrix.mulVec_smul, Matrix.mulVec_smul]
    calc P *ᵥ x1 + Δ.dτ • P *ᵥ x2 + (Aᵀ *ᵥ z1 + Δ.dτ • Aᵀ *ᵥ z2) + Δ.dτ • q
        = (P *ᵥ x1 + Aᵀ *ᵥ z1) + Δ.dτ • (P *ᵥ x2 + Aᵀ *ᵥ z2) + Δ.dτ • q := by
          rw [smul_add]; abel
      _ = rdx := by rw [h1x, h2x, smul_neg]; abel
  · rw [hds, hdx, hdz, Matrix.mulVec_add, Matrix.mulVec_add, Matrix.mulVec_smul, Matrix.mulVec_smul]
    calc A *ᵥ x1 + Δ.dτ • A *ᵥ x2 + (-c - (H *ᵥ z1 + Δ.dτ • H *ᵥ z2)) - Δ.dτ • b
        = (A *ᵥ x1 - H *ᵥ z1) + Δ.dτ • (A *ᵥ x2 - H *ᵥ z2) - c - Δ.dτ • b := by
          rw [smul_sub]; abel
      _ = -rdz := by rw [h1z, h2z]; abel
  · have := tau_row_scalar rdτ rdκ τ κ (q ⬝ᵥ x1) (q ⬝ᵥ x2) (b ⬝ᵥ z1) (b ⬝ᵥ z2) (ξ ⬝ᵥ P *ᵥ x1)
      (ξ ⬝ᵥ P *ᵥ x2) (ξ ⬝ᵥ P *ᵥ ξ) (x2 ⬝ᵥ P *ᵥ x2) Δ.dτ hτ hkey
    rw [hdκ, hdx, hdz, ← hξ]
    simp only [dotProduct_add, dotProduct_smul, Matrix.mulVec_add, Matrix.mulVec_smul, smul_eq_mul]
    linear_combination this
  · rw [hds]; abel
  · rw [hdκ]; unfold KktSystem.deltaKappa; field_simp; ring

/-- [F] **Residual contraction.**  If `Δ` solves the linearised system for the right-hand
side `(1−σ)·(rx, rz, rτ)` (what `affine_step_rhs` (σ = 0) / `combined_step_rhs` build), then
after `add_step α` the affine residuals are `(1 − α(1−σ))` times the old ones; the τ residual
carries the exact second-order remainder `α² dᵀPd/(τ+αΔτ)`, `d = Δx − Δτ·x/τ`, which vanishes
for linear/conic programmes (`P = 0`). -/
theorem residual_contraction (P : Matrix (Fin n) (Fin n) α) (hP : Pᵀ = P)
    (A : Matrix (Fin m) (Fin n) α) (H : Matrix (Fin m) (Fin m) α) (q : Fin n → α) (b : Fin m → α)
    (x : Fin n → α) (s z : Fin m → α) (τ κ σ a : α) (c : Fin m → α) (rdκ : α)
    (Δ : DenseStep α n m) (hτ : τ ≠ 0) (hτ' : τ + a * Δ.dτ ≠ 0)
    (hN : IsNewtonStep P A H q b x τ κ ((1 - σ) • resX P A q x z τ) ((1 - σ) • resZ A b x s τ)
      ((1 - σ) * resT P q b x z τ κ) c rdκ Δ) :
    resX P A q (x + a • Δ.dx) (z + a • Δ.dz) (τ + a * Δ.dτ) = (1 - a * (1 - σ)) • resX P A q x z τ
    ∧ resZ A b (x + a • Δ.dx) (s + a • Δ.ds) (τ + a * Δ.dτ) = (1 - a * (1 - σ)) • resZ A b x s τ
    ∧ resT P q b (x + a • Δ.dx) (z + a • Δ.dz) (τ + a * Δ.dτ) (κ + a * Δ.dκ)
        = (1 - a * (1 - σ)) * resT P q b x z τ κ
          + a ^ 2 * ((Δ.dx - Δ.dτ • ((1 / τ) • x)) ⬝ᵥ P *ᵥ (Δ.dx - Δ.dτ • ((1 / τ) • x)))
              / (τ + a * Δ.dτ) := by
  obtain ⟨ex, ez, eτ, _, _⟩ := hN
  refine ⟨?_, ?_, ?_⟩
  · have : resX P A q (x + a • Δ.dx) (z + a • Δ.dz) (τ + a * Δ.dτ)
        = resX P A q x z τ - a • (P *ᵥ Δ.dx + Aᵀ *ᵥ Δ.dz + Δ.dτ • q) := by
      simp only [resX, Matrix.mulVec_add, Matrix.mulVec_smul, add_smul, smul_add, mul_smul]
      abel
    rw [this, ex, smul_smul, sub_smul, one_smul]
  · have : resZ A b (x + a • Δ.dx) (s + a • Δ.ds) (τ + a * Δ.dτ)
        = resZ A b x s τ + a • (A *ᵥ Δ.dx + Δ.ds - Δ.dτ • b) := by
      simp only [resZ, Matrix.mulVec_add, Matrix.mulVec_smul, add_smul, smul_add, smul_sub, mul_smul]
      abel
    rw [this, ez, smul_neg, smul_smul, sub_smul, one_smul]
    abel
  · -- scalars
    set ξ := (1 / τ) • x with hξ
    have hx : x = τ • ξ := by rw [hξ, smul_smul, mul_one_div_cancel hτ, one_smul]
    have s1 : Δ.dx ⬝ᵥ P *ᵥ ξ = ξ ⬝ᵥ P *ᵥ Δ.dx := sym_dot P hP _ _
    have q0 : x ⬝ᵥ P *ᵥ x = τ ^ 2 * (ξ ⬝ᵥ P *ᵥ ξ) := by
      rw [hx]; simp only [dotProduct_smul, smul_dotProduct, Matrix.mulVec_smul, smul_eq_mul]; ring
    have q1 : (x + a • Δ.dx) ⬝ᵥ P *ᵥ (x + a • Δ.dx)
        = τ ^ 2 * (ξ ⬝ᵥ P *ᵥ ξ) + 2 * a * τ * (ξ ⬝ᵥ P *ᵥ Δ.dx) + a ^ 2 * (Δ.dx ⬝ᵥ P *ᵥ Δ.dx) := by
      rw [hx]
      simp only [dotProduct_add, add_dotProduct, dotProduct_smul, smul_dotProduct, Matrix.mulVec_add,
        Matrix.mulVec_smul, smul_eq_mul, s1]
      ring
    have q2 : (Δ.dx - Δ.dτ • ξ) ⬝ᵥ P *ᵥ (Δ.dx - Δ.dτ • ξ)
        = Δ.dx ⬝ᵥ P *ᵥ Δ.dx - 2 * Δ.dτ * (ξ ⬝ᵥ P *ᵥ Δ.dx) + Δ.dτ ^ 2 * (ξ ⬝ᵥ P *ᵥ ξ) := by
      simp only [dotProduct_sub, sub_dotProduct, dotProduct_smul, smul_dotProduct, Matrix.mulVec_sub,
        Matrix.mulVec_smul, smul_eq_mul, s1]
      ring
    have l1 : q ⬝ᵥ (x + a • Δ.dx) = τ * (q ⬝ᵥ ξ) + a * (q ⬝ᵥ Δ.dx) := by
      rw [hx]; simp only [dotProduct_add, dotProduct_smul, smul_eq_mul]
    have l2 : b ⬝ᵥ (z + a • Δ.dz) = b ⬝ᵥ z + a * (b ⬝ᵥ Δ.dz) := by
      simp only [dotProduct_add, dotProduct_smul, smul_eq_mul]
    have l0 : q ⬝ᵥ x = τ * (q ⬝ᵥ ξ) := by
      rw [hx]; simp only [dotProduct_smul, smul_eq_mul]
    simp only [resT] at eτ ⊢
    rw [q0, l0] at eτ
    rw [q1, q2, l1, l2, q0, l0]
    exact tau_residual_scalar τ a Δ.dτ (q ⬝ᵥ ξ) (q ⬝ᵥ Δ.dx) (b ⬝ᵥ z) (b ⬝ᵥ Δ.dz) κ Δ.dκ σ
      (ξ ⬝ᵥ P *ᵥ ξ) (ξ ⬝ᵥ P *ᵥ Δ.dx) (Δ.dx ⬝ᵥ P *ᵥ Δ.dx) hτ hτ' eτ

/-- [F] **The executable model is the dense assembly.**  On well-sized arrays, with `qf` the
quadratic form of a dense `P` and `mulHs` the action of a dense `H` (what `_csc_quad_form`
and `mul_Hs` compute — C16/C13), the `Array`-level model `KktSystem.solveAssemble` of
`DefaultKKTSystem::solve` (the function the `kkt.solve` channel ties bit-for-bit to the Rust
code) succeeds and returns exactly `Lemmas.assembleDense` read through `toFn`, together with
the right-hand side `(rhs.x, c − rhs.z)` it hands to the linear solver. -/
theorem solveAssemble_eq_dense (P : Matrix (Fin n) (Fin n) α) (H : Matrix (Fin m) (Fin m) α)
    (qf : Array α → Array α → MErr α) (mulHs : Array α → Array α)
    (hqf : ∀ a b : Array α, a.size = n → b.size = n → qf a b = .ok (toFn a n ⬝ᵥ P *ᵥ toFn b n))
    (hH : ∀ v : Array α, v.size = m → (mulHs v).size = m ∧ toFn (mulHs v) m = H *ᵥ toFn v m)
    (q b : Array α) (vars rhs : Vars α) (c x1 z1 x2 z2 : Array α)
    (hq : q.size = n) (hb : b.size = m) (hvx : vars.x.size = n) (hrx : rhs.x.size = n)
    (hrz : rhs.z.size = m) (hc : c.size = m) (hx1 : x1.size = n) (hz1 : z1.size = m)
    (hx2 : x2.size = n) (hz2 : z2.size = m) :
    ∃ lhs wx wz, KktSystem.solveAssemble qf mulHs q b vars rhs c x1 z1 x2 z2 = .ok (lhs, wx, wz)
      ∧ (let Δ := assembleDense P H (toFn q n) (toFn b m) (toFn vars.x n) vars.τ vars.κ rhs.τ rhs.κ
            (toFn c m) (toFn x1 n) (toFn z1 m) (toFn x2 n) (toFn z2 m)
         toFn lhs.x n = Δ.dx ∧ toFn lhs.z m = Δ.dz ∧ toFn lhs.s m = Δ.ds ∧ lhs.τ = Δ.dτ
          ∧ lhs.κ = Δ.dκ)
      ∧ toFn wx n = toFn rhs.x n ∧ toFn wz m = toFn c m - toFn rhs.z m := by
  have hξ := axpby_size ((1 : α) / vars.τ) 0 vars.x rhs.x hvx hrx
  have hξm := axpby_size (-(1 : α)) 1 x2 (Vec.axpby ((1 : α) / vars.τ) vars.x 0 rhs.x) hx2 hξ
  have eξ : toFn (Vec.axpby ((1 : α) / vars.τ) vars.x 0 rhs.x) n = (1 / vars.τ) • toFn vars.x n := by
    rw [toFn_axpby _ _ _ _ hvx hrx, zero_smul, add_zero]
  have eξm : toFn (Vec.axpby (-(1 : α)) x2 1 (Vec.axpby ((1 : α) / vars.τ) vars.x 0 rhs.x)) n
      = (-1 : α) • toFn x2 n + (1 : α) • ((1 / vars.τ) • toFn vars.x n) := by
    rw [toFn_axpby _ _ _ _ hx2 hξ, eξ]
  unfold KktSystem.solveAssemble
  simp only [hqf _ _ hξ hx1, hqf _ _ hξm hξm, hqf _ _ hx2 hx2, bind, Except.bind, pure, Except.pure]
  refine ⟨_, _, _, rfl, ?_, rfl, ?_⟩
  · simp only [assembleDense]
    rw [dot_toFn q x1 hq hx1, dot_toFn b z1 hb hz1, dot_toFn q x2 hq hx2, dot_toFn b z2 hb hz2, eξ,
      eξm]
    set dτ := KktSystem.tauNum rhs.τ rhs.κ vars.τ (toFn q n ⬝ᵥ toFn x1 n) (toFn b m ⬝ᵥ toFn z1 m)
        (((1 / vars.τ) • toFn vars.x n) ⬝ᵥ P *ᵥ toFn x1 n) /
      KktSystem.tauDen vars.κ vars.τ (toFn q n ⬝ᵥ toFn x2 n) (toFn b m ⬝ᵥ toFn z2 m)
        (((-1 : α) • toFn x2 n + (1 : α) • ((1 / vars.τ) • toFn vars.x n)) ⬝ᵥ
          P *ᵥ ((-1 : α) • toFn x2 n + (1 : α) • ((1 / vars.τ) • toFn vars.x n)))
        (toFn x2 n ⬝ᵥ P *ᵥ toFn x2 n) with hdτ
    have hdz := waxpby_size (1 : α) dτ z1 z2 hz1 hz2
    refine ⟨toFn_waxpby _ _ _ _ hx1 hx2, toFn_waxpby _ _ _ _ hz1 hz2, ?_, rfl, rfl⟩
    rw [toFn_axpby _ _ _ _ hc (hH _ hdz).1, (hH _ hdz).2, toFn_waxpby _ _ _ _ hz1 hz2]
  · rw [toFn_waxpby _ _ _ _ hc hrz]
    simp only [one_smul, neg_smul]
    abel

/-- [F] **The executable model computes the Newton step** (`solveAssemble_eq_dense` +
`reduced_solve_is_newton`): if the two linear-solve results handed to the model are exact,
the step returned by `KktSystem.solveAssemble`, read as vectors, solves the full linearised
system. -/
theorem solveAssemble_is_newton (P : Matrix (Fin n) (Fin n) α) (hP : Pᵀ = P)
    (A : Matrix (Fin m) (Fin n) α) (H : Matrix (Fin m) (Fin m) α)
    (qf : Array α → Array α → MErr α) (mulHs : Array α → Array α)
    (hqf : ∀ a b : Array α, a.size = n → b.size = n → qf a b = .ok (toFn a n ⬝ᵥ P *ᵥ toFn b n))
    (hH : ∀ v : Array α, v.size = m → (mulHs v).size = m ∧ toFn (mulHs v) m = H *ᵥ toFn v m)
    (q b : Array α) (vars rhs : Vars α) (c x1 z1 x2 z2 : Array α)
    (hq : q.size = n) (hb : b.size = m) (hvx : vars.x.size = n) (hrx : rhs.x.size = n)
    (hrz : rhs.z.size = m) (hc : c.size = m) (hx1 : x1.size = n) (hz1 : z1.size = m)
    (hx2 : x2.size = n) (hz2 : z2.size = m) (hτ : vars.τ ≠ 0)
    (h1x : P *ᵥ toFn x1 n + Aᵀ *ᵥ toFn z1 m = toFn rhs.x n)
    (h1z : A *ᵥ toFn x1 n - H *ᵥ toFn z1 m = toFn c m - toFn rhs.z m)
    (h2x : P *ᵥ toFn x2 n + Aᵀ *ᵥ toFn z2 m = -toFn q n)
    (h2z : A *ᵥ toFn x2 n - H *ᵥ toFn z2 m = toFn b m)
    (hden : KktSystem.tauDen vars.κ vars.τ (toFn q n ⬝ᵥ toFn x2 n) (toFn b m ⬝ᵥ toFn z2 m)
        (((-1 : α) • toFn x2 n + (1 : α) • ((1 / vars.τ) • toFn vars.x n)) ⬝ᵥ
          P *ᵥ ((-1 : α) • toFn x2 n + (1 : α) • ((1 / vars.τ) • toFn vars.x n)))
        (toFn x2 n ⬝ᵥ P *ᵥ toFn x2 n) ≠ 0) :
    ∃ lhs wx wz, KktSystem.solveAssemble qf mulHs q b vars rhs c x1 z1 x2 z2 = .ok (lhs, wx, wz)
      ∧ IsNewtonStep P A H (toFn q n) (toFn b m) (toFn vars.x n) vars.τ vars.κ (toFn rhs.x n)
          (toFn rhs.z m) rhs.τ (toFn c m) rhs.κ
          ⟨toFn lhs.x n, toFn lhs.s m, toFn lhs.z m, lhs.τ, lhs.κ⟩ := by
  obtain ⟨lhs, wx, wz, hrun, ⟨e1, e2, e3, e4, e5⟩, _, _⟩ :=
    solveAssemble_eq_dense P H qf mulHs hqf hH q b vars rhs c x1 z1 x2 z2 hq hb hvx hrx hrz hc hx1
      hz1 hx2 hz2
  refine ⟨lhs, wx, wz, hrun, ?_⟩
  have hN := reduced_solve_is_newton P hP A H (toFn q n) (toFn b m) (toFn vars.x n) vars.τ vars.κ
    (toFn rhs.x n) (toFn rhs.z m) rhs.τ rhs.κ (toFn c m) (toFn x1 n) (toFn z1 m) (toFn x2 n)
    (toFn z2 m) hτ h1x h1z h2x h2z hden
  rw [e1, e2, e3, e4, e5]
  exact hN

end newton

section scalar
variable {α : Type} [Field α] [LinearOrder α] [IsStrictOrderedRing α]

/-- [F] **Centring range.**  `σ = centering_parameter(α) = (1−α)³` lies in `[0,1]` for a step
length `α ∈ [0,1]` and is antitone in `α` there (a longer affine step gives less centring);
the Mehrotra corrector is damped by `m = α` in the first iteration and `m = 1` afterwards. -/
theorem centering_range (a b : α) (ha0 : 0 ≤ a) (hab : a ≤ b) (hb1 : b ≤ 1) :
    centeringParameter a = (1 - a) ^ 3
    ∧ 0 ≤ centeringParameter b ∧ centeringParameter b ≤ centeringParameter a
    ∧ centeringParameter a ≤ 1
    ∧ (∀ iter, mehrotraM iter a = if iter > 1 then 1 else a) := by
  have e : ∀ t : α, centeringParameter t = (1 - t) ^ 3 := by
    intro t; unfold centeringParameter; ring
  have h0 : (0 : α) ≤ 1 - b := by linarith
  have h1 : 1 - b ≤ 1 - a := by linarith
  have h2 : 1 - a ≤ 1 := by linarith
  refine ⟨e a, ?_, ?_, ?_, fun _ => rfl⟩
  · rw [e]; positivity
  · rw [e, e]; exact pow_le_pow_left₀ h0 h1 3
  · rw [e]; exact pow_le_one₀ (by linarith) h2

variable [FloatLike α] [LawfulFloatLike α]

/-- [F] **Complementarity update on nonnegative cones.**  With `μ = calc_mu = (s·z+τκ)/(ν+1)`,
a combined step satisfying the last two blocks of the linearised system for the right-hand
side of `combined_step_rhs` (`dsᵢ = sᵢzᵢ + m·Δsᵃᵢ Δzᵃᵢ − σμ`, `dκ = τκ + m·Δτᵃ Δκᵃ − σμ`;
on nonnegative cones `Hs Δz + Δs = −ds/z` reads `sᵢΔzᵢ + zᵢΔsᵢ = −dsᵢ`) gives

  `s⁺·z⁺ + τ⁺κ⁺ = (1 − α(1−σ))(ν+1)μ − α·m·(Δsᵃ·Δzᵃ + ΔτᵃΔκᵃ) + α²(Δs·Δz + ΔτΔκ)`. -/
theorem mu_update_nn {ν : ℕ} (s z ds dz dsa dza : Fin ν → α) (τ κ dτ dκ dτa dκa σ m a : α)
    (hs : ∀ i, s i * dz i + z i * ds i
      = -(s i * z i + m * dsa i * dza i - σ * calcMu (s ⬝ᵥ z) τ κ ν))
    (hκ : κ * dτ + τ * dκ = -(τ * κ + m * dτa * dκa - σ * calcMu (s ⬝ᵥ z) τ κ ν)) :
    (s + a • ds) ⬝ᵥ (z + a • dz) + (τ + a * dτ) * (κ + a * dκ)
      = (1 - a * (1 - σ)) * ((ν + 1 : α) * calcMu (s ⬝ᵥ z) τ κ ν)
        - a * m * (dsa ⬝ᵥ dza + dτa * dκa) + a ^ 2 * (ds ⬝ᵥ dz + dτ * dκ) := by
  have hν : ((ν : α) + 1) ≠ 0 := by positivity
  have hμ : ((ν : α) + 1) * calcMu (s ⬝ᵥ z) τ κ ν = s ⬝ᵥ z + τ * κ := by
    unfold calcMu
    rw [LawfulFloatLike.ofNat_eq]
    push_cast
    field_simp
  have hsum : s ⬝ᵥ dz + z ⬝ᵥ ds
      = -(s ⬝ᵥ z + m * (dsa ⬝ᵥ dza) - (ν : α) * (σ * calcMu (s ⬝ᵥ z) τ κ ν)) := by
    simp only [dotProduct, ← Finset.sum_add_distrib, hs, Finset.mul_sum]
    simp only [Finset.sum_neg_distrib, Finset.sum_sub_distrib, Finset.sum_add_distrib,
      Finset.sum_const, Finset.card_univ, Fintype.card_fin, nsmul_eq_mul, mul_assoc]
  have hexp : (s + a • ds) ⬝ᵥ (z + a • dz)
      = s ⬝ᵥ z + a * (s ⬝ᵥ dz + z ⬝ᵥ ds) + a ^ 2 * (ds ⬝ᵥ dz) := by
    simp only [add_dotProduct, dotProduct_add, smul_dotProduct, dotProduct_smul, smul_eq_mul]
    rw [dotProduct_comm ds z]
    ring
  rw [hexp, hsum, hμ]
  have hμ' : calcMu (s ⬝ᵥ z) τ κ ν * ((ν : α) + 1) = s ⬝ᵥ z + τ * κ := by rw [mul_comm]; exact hμ
  linear_combination a * hκ + (a * σ) * hμ'

/-- non-vacuity of `mu_update_nn`: one nonnegative row, `s = z = τ = κ = 1`, pure centring
step (`σ = 1`, `Δ = 0`) keeps `μ` -/
example : ((fun _ => (1 : ℝ)) + (1 : ℝ) • (fun _ : Fin 1 => (0 : ℝ))) ⬝ᵥ ((fun _ => (1 : ℝ)) + (1 : ℝ) • (fun _ : Fin 1 => (0 : ℝ)))
      + (1 + 1 * 0) * (1 + 1 * 0)
    = (1 - 1 * (1 - 1)) * (((1 : ℕ) + 1 : ℝ) * calcMu ((fun _ : Fin 1 => (1 : ℝ)) ⬝ᵥ fun _ => (1 : ℝ)) 1 1 1)
      - 1 * 1 * ((fun _ : Fin 1 => (0 : ℝ)) ⬝ᵥ (fun _ => (0 : ℝ)) + 0 * 0)
      + 1 ^ 2 * ((fun _ : Fin 1 => (0 : ℝ)) ⬝ᵥ (fun _ => (0 : ℝ)) + 0 * 0) := by
  have hμ : calcMu ((fun _ : Fin 1 => (1 : ℝ)) ⬝ᵥ fun _ => (1 : ℝ)) 1 1 1 = 1 := by
    unfold calcMu
    rw [LawfulFloatLike.ofNat_eq]
    simp [dotProduct] <;> norm_num
  exact mu_update_nn (ν := 1) (fun _ => 1) (fun _ => 1) (fun _ => 0) (fun _ => 0) (fun _ => 0)
    (fun _ => 0) 1 1 0 0 0 0 1 1 1 (by intro i; rw [hμ]; norm_num) (by rw [hμ]; norm_num)

end scalar

/-- non-vacuity of `centering_range` -/
example : centeringParameter (1 / 2 : ℚ) = 1 / 8 := by unfold centeringParameter; norm_num

/-- non-vacuity of `reduced_solve_is_newton` / `residual_contraction`: the 1×1 LP
`min x s.t. x + s = 1, s ≥ 0` at `x = 0, τ = κ = 1`, `H = 1`; exact solves
`x1 = z1 = 1` for the rhs `(1, 0)` and `x2 = 0, z2 = −1` for `(−1, 1)`. -/
example :
    IsNewtonStep (0 : Matrix (Fin 1) (Fin 1) ℚ) (1 : Matrix (Fin 1) (Fin 1) ℚ) 1 (fun _ => 1)
      (fun _ => 1) (fun _ => 0) 1 1 (fun _ => 1) (fun _ => 1) 1 (fun _ => 1) 1
      (assembleDense 0 1 (fun _ => 1) (fun _ => 1) (fun _ => 0) 1 1 1 1 (fun _ => 1)
        (fun _ => 1) (fun _ => 1) (fun _ => 0) (fun _ => -1)) := by
  apply reduced_solve_is_newton
  case hP => simp
  case hτ => norm_num
  case h1x => ext i; simp
  case h1z => ext i; simp
  case h2x => ext i; simp
  case h2z => ext i; simp
  case hden => simp [KktSystem.tauDen, dotProduct]

/-- non-vacuity of `solveAssemble_eq_dense` (hypotheses are satisfiable and the executable
model returns a value): `n = m = 1`, `P = 0`, `H = 1` (`mulHs = id`) -/
example : ∃ lhs wx wz,
    KktSystem.solveAssemble (fun a b => .ok (toFn a 1 ⬝ᵥ (0 : Matrix (Fin 1) (Fin 1) ℚ) *ᵥ toFn b 1))
      id #[1] #[1] ⟨#[0], #[1], #[1], 1, 1⟩ ⟨#[1], #[1], #[1], 1, 1⟩ #[1] #[1] #[1] #[0] #[-1]
      = .ok (lhs, wx, wz) := by
  obtain ⟨lhs, wx, wz, h, _⟩ := solveAssemble_eq_dense (n := 1) (m := 1) (0 : Matrix (Fin 1) (Fin 1) ℚ) 1
    (fun a b => .ok (toFn a 1 ⬝ᵥ (0 : Matrix (Fin 1) (Fin 1) ℚ) *ᵥ toFn b 1)) id
    (fun _ _ _ _ => rfl) (fun v hv => ⟨hv, by rw [Matrix.one_mulVec]; rfl⟩)
    #[1] #[1] ⟨#[0], #[1], #[1], 1, 1⟩ ⟨#[1], #[1], #[1], 1, 1⟩ #[1] #[1] #[1] #[0] #[-1]
    rfl rfl rfl rfl rfl rfl rfl rfl rfl rfl
  exact ⟨lhs, wx, wz, h⟩

/-! ## Round 3: the theorems above, stated on the executable `Array` functions

`Step.updateScaling`, `Step.affineStepRhs`, `Step.combinedStepRhs`, `KktSystem.solveNN`
(τ elimination), `Step.addStep`, `Step.calcMu` are the functions the `step.*` / `kkt.solve`
channels compare bit-for-bit with `variables.rs` / `kktsystem.rs`.  Over ℝ (the nonnegative
cone scaling takes square roots) they are the dense operators of the theorems above; the
hypotheses are sizes, an interior iterate, exactness of the two reduced linear solves (the
linear solver is an input of the model, C09) and the contract of `_csc_quad_form`. -/
section array
variable {n m : ℕ}

/-- [R] **`reduced_solve_is_newton` on the executable functions.**  For a product of zero and
nonnegative cones (`mask`), with the scaling `w` that `update_scaling(s, z)` computes, the
step returned by `KktSystem.solveNN` (the model of `DefaultKKTSystem::solve`, either direction)
on exact reduced solves is the full Newton step with `Hs = diag(s/z)` (`Lemmas.Hnn`) and
`Δs_const_term = s` (affine) resp. `rhs.s / z` (combined) (`Lemmas.dsConstFn`). -/
theorem reduced_solve_is_newton_array (P : Matrix (Fin n) (Fin n) ℝ) (hP : Pᵀ = P)
    (A : Matrix (Fin m) (Fin n) ℝ) (Pc : Csc ℝ)
    (hqf : ∀ a b : Array ℝ, a.size = n → b.size = n →
      KktSystem.quadForm Pc a b = .ok (toFn a n ⬝ᵥ P *ᵥ toFn b n))
    (mask : List Bool) (q b : Array ℝ) (vars rhs : Vars ℝ) (affine : Bool) (x1 z1 x2 z2 : Array ℝ)
    (hm : mask.length = m) (hq : q.size = n) (hb : b.size = m) (hvx : vars.x.size = n)
    (hvs : vars.s.size = m) (hvz : vars.z.size = m) (hrx : rhs.x.size = n) (hrs : rhs.s.size = m)
    (hrz : rhs.z.size = m) (hx1 : x1.size = n) (hz1 : z1.size = m) (hx2 : x2.size = n)
    (hz2 : z2.size = m) (hτ : vars.τ ≠ 0) (hint : NNInterior mask vars.s vars.z m)
    (h1x : P *ᵥ toFn x1 n + Aᵀ *ᵥ toFn z1 m = toFn rhs.x n)
    (h1z : A *ᵥ toFn x1 n - Hnn mask vars.s vars.z m *ᵥ toFn z1 m
      = dsConstFn mask vars rhs affine m - toFn rhs.z m)
    (h2x : P *ᵥ toFn x2 n + Aᵀ *ᵥ toFn z2 m = -toFn q n)
    (h2z : A *ᵥ toFn x2 n - Hnn mask vars.s vars.z m *ᵥ toFn z2 m = toFn b m)
    (hden : KktSystem.tauDen vars.κ vars.τ (toFn q n ⬝ᵥ toFn x2 n) (toFn b m ⬝ᵥ toFn z2 m)
        (((-1 : ℝ) • toFn x2 n + (1 : ℝ) • ((1 / vars.τ) • toFn vars.x n)) ⬝ᵥ
          P *ᵥ ((-1 : ℝ) • toFn x2 n + (1 : ℝ) • ((1 / vars.τ) • toFn vars.x n)))
        (toFn x2 n ⬝ᵥ P *ᵥ toFn x2 n) ≠ 0) :
    ∃ lhs wx wz,
      KktSystem.solveNN Pc mask (updateScaling mask vars.s vars.z).2 q b vars rhs affine x1 z1 x2 z2
        = .ok (lhs, wx, wz)
      ∧ lhs.x.size = n ∧ lhs.s.size = m ∧ lhs.z.size = m
      ∧ IsNewtonStep P A (Hnn mask vars.s vars.z m) (toFn q n) (toFn b m) (toFn vars.x n) vars.τ
          vars.κ (toFn rhs.x n) (toFn rhs.z m) rhs.τ (dsConstFn mask vars rhs affine m) rhs.κ
          ⟨toFn lhs.x n, toFn lhs.s m, toFn lhs.z m, lhs.τ, lhs.κ⟩ := by
  obtain ⟨hc, ec⟩ := dsConst_dense mask vars rhs affine hm hvs hvz hrs
  have hH : ∀ v : Array ℝ, v.size = m → (mulHs mask (updateScaling mask vars.s vars.z).2 v).size = m
      ∧ toFn (mulHs mask (updateScaling mask vars.s vars.z).2 v) m
          = Hnn mask vars.s vars.z m *ᵥ toFn v m :=
    fun v hv => mulHs_eq_Hnn mask vars.s vars.z v hm hvs hvz hv hint
  obtain ⟨lhs, wx, wz, hrun, hN⟩ := solveAssemble_is_newton P hP A (Hnn mask vars.s vars.z m)
    (KktSystem.quadForm Pc) (mulHs mask (updateScaling mask vars.s vars.z).2) hqf hH q b vars rhs
    (if affine then vars.s else dsFromDzOffset mask rhs.s vars.z) x1 z1 x2 z2 hq hb hvx hrx hrz hc hx1
    hz1 hx2 hz2 hτ h1x (by rw [ec]; exact h1z) h2x h2z hden
  obtain ⟨s1, s2, s3⟩ := solveAssemble_sizes (KktSystem.quadForm Pc)
    (mulHs mask (updateScaling mask vars.s vars.z).2) (fun v hv => (hH v hv).1) q b vars rhs _ x1 z1 x2
    z2 hc hx1 hz1 hx2 hz2 lhs wx wz hrun
  refine ⟨lhs, wx, wz, hrun, s1, s2, s3, ?_⟩
  rw [← ec]; exact hN

/-- [R] **`residual_contraction` on the executable functions**: one pass
`update_scaling → affine_step_rhs → combined_step_rhs → solve(Combined) → add_step(α)` of the
model, on exact reduced solves, multiplies the residuals `(rx, rz)` by `1 − α(1−σ)` and `rτ`
likewise up to the exact `P`-remainder.  The affine step `stepa` that feeds the Mehrotra
correction is arbitrary — the contraction does not depend on it. -/
theorem residual_contraction_array (P : Matrix (Fin n) (Fin n) ℝ) (hP : Pᵀ = P)
    (A : Matrix (Fin m) (Fin n) ℝ) (Pc : Csc ℝ)
    (hqf : ∀ a b : Array ℝ, a.size = n → b.size = n →
      KktSystem.quadForm Pc a b = .ok (toFn a n ⬝ᵥ P *ᵥ toFn b n))
    (mask : List Bool) (q b rx rz : Array ℝ) (rτ : ℝ) (vars stepa rhs : Vars ℝ) (σ μ mm a : ℝ)
    (x1 z1 x2 z2 : Array ℝ)
    (hm : mask.length = m) (hq : q.size = n) (hb : b.size = m) (hvx : vars.x.size = n)
    (hvs : vars.s.size = m) (hvz : vars.z.size = m) (hrx : rx.size = n) (hrz : rz.size = m)
    (has : stepa.s.size = m) (haz : stepa.z.size = m)
    (hx1 : x1.size = n) (hz1 : z1.size = m) (hx2 : x2.size = n)
    (hz2 : z2.size = m) (hτ : vars.τ ≠ 0) (hint : NNInterior mask vars.s vars.z m)
    (hrX : toFn rx n = resX P A (toFn q n) (toFn vars.x n) (toFn vars.z m) vars.τ)
    (hrZ : toFn rz m = resZ A (toFn b m) (toFn vars.x n) (toFn vars.s m) vars.τ)
    (hrT : rτ = resT P (toFn q n) (toFn b m) (toFn vars.x n) (toFn vars.z m) vars.τ vars.κ)
    (hrhs : rhs = (combinedStepRhs mask (updateScaling mask vars.s vars.z).2
      (affineStepRhs mask rx rz rτ (updateScaling mask vars.s vars.z).1 vars) rx rz rτ vars stepa
      σ μ mm).1)
    (h1x : P *ᵥ toFn x1 n + Aᵀ *ᵥ toFn z1 m = toFn rhs.x n)
    (h1z : A *ᵥ toFn x1 n - Hnn mask vars.s vars.z m *ᵥ toFn z1 m
      = dsConstFn mask vars rhs false m - toFn rhs.z m)
    (h2x : P *ᵥ toFn x2 n + Aᵀ *ᵥ toFn z2 m = -toFn q n)
    (h2z : A *ᵥ toFn x2 n - Hnn mask vars.s vars.z m *ᵥ toFn z2 m = toFn b m)
    (hden : KktSystem.tauDen vars.κ vars.τ (toFn q n ⬝ᵥ toFn x2 n) (toFn b m ⬝ᵥ toFn z2 m)
        (((-1 : ℝ) • toFn x2 n + (1 : ℝ) • ((1 / vars.τ) • toFn vars.x n)) ⬝ᵥ
          P *ᵥ ((-1 : ℝ) • toFn x2 n + (1 : ℝ) • ((1 / vars.τ) • toFn vars.x n)))
        (toFn x2 n ⬝ᵥ P *ᵥ toFn x2 n) ≠ 0) :
    ∃ lhs wx wz,
      KktSystem.solveNN Pc mask (updateScaling mask vars.s vars.z).2 q b vars rhs false x1 z1 x2 z2
        = .ok (lhs, wx, wz)
      ∧ (vars.τ + a * lhs.τ ≠ 0 →
        resX P A (toFn q n) (toFn (addStep vars lhs a).x n) (toFn (addStep vars lhs a).z m)
            (addStep vars lhs a).τ = (1 - a * (1 - σ)) • toFn rx n
        ∧ resZ A (toFn b m) (toFn (addStep vars lhs a).x n) (toFn (addStep vars lhs a).s m)
            (addStep vars lhs a).τ = (1 - a * (1 - σ)) • toFn rz m
        ∧ resT P (toFn q n) (toFn b m) (toFn (addStep vars lhs a).x n)
            (toFn (addStep vars lhs a).z m) (addStep vars lhs a).τ (addStep vars lhs a).κ
          = (1 - a * (1 - σ)) * rτ
            + a ^ 2 * ((toFn lhs.x n - lhs.τ • ((1 / vars.τ) • toFn vars.x n)) ⬝ᵥ
                P *ᵥ (toFn lhs.x n - lhs.τ • ((1 / vars.τ) • toFn vars.x n)))
              / (vars.τ + a * lhs.τ)) := by
  obtain ⟨r1, r2, r3, e1, e2, e3, _, _⟩ :=
    combinedStepRhs_dense (n := n) mask rx rz rτ vars stepa σ μ mm hm hrx hrz hvs hvz has haz hint
  simp only [← hrhs] at r1 r2 r3 e1 e2 e3
  obtain ⟨lhs, wx, wz, hrun, s1, s2, s3, hN⟩ := reduced_solve_is_newton_array P hP A Pc hqf mask q b
    vars rhs false x1 z1 x2 z2 hm hq hb hvx hvs hvz r1 r2 r3 hx1 hz1 hx2 hz2 hτ hint h1x h1z h2x h2z hden
  refine ⟨lhs, wx, wz, hrun, fun hτ' => ?_⟩
  obtain ⟨_, _, _, ax, as', az, aτ, aκ⟩ := addStep_dense (n := n) (m := m) vars lhs a hvx s1 hvs s2 hvz s3
  rw [e1, e2, e3, hrX, hrZ, hrT] at hN
  have := residual_contraction P hP A (Hnn mask vars.s vars.z m) (toFn q n) (toFn b m) (toFn vars.x n)
    (toFn vars.s m) (toFn vars.z m) vars.τ vars.κ σ a (dsConstFn mask vars rhs false m) rhs.κ
    ⟨toFn lhs.x n, toFn lhs.s m, toFn lhs.z m, lhs.τ, lhs.κ⟩ hτ hτ' hN
  rw [ax, as', az, aτ, aκ, hrX, hrZ, hrT]
  exact this

/-- [R] **`mu_update_nn` on the executable functions**: after one pass
`update_scaling → affine_step_rhs → combined_step_rhs(σ, μ, m) → solve(Combined) → add_step(α)`
of the model (zero + nonnegative cones, slack `0` on zero-cone rows, `μ = calc_mu`), on exact
reduced solves, `calc_mu` of the new iterate is

  `μ⁺ = (1 − α(1−σ)) μ − α m (Δsᵃ·Δzᵃ|ₙₙ + ΔτᵃΔκᵃ)/(ν+1) + α² (Δs·Δz + ΔτΔκ)/(ν+1)`,

`ν = Cone::degree` = number of nonnegative rows. -/
theorem mu_update_nn_array (P : Matrix (Fin n) (Fin n) ℝ) (hP : Pᵀ = P)
    (A : Matrix (Fin m) (Fin n) ℝ) (Pc : Csc ℝ)
    (hqf : ∀ a b : Array ℝ, a.size = n → b.size = n →
      KktSystem.quadForm Pc a b = .ok (toFn a n ⬝ᵥ P *ᵥ toFn b n))
    (mask : List Bool) (q b rx rz : Array ℝ) (rτ : ℝ) (vars stepa rhs : Vars ℝ) (σ μ mm a : ℝ)
    (x1 z1 x2 z2 : Array ℝ)
    (hm : mask.length = m) (hq : q.size = n) (hb : b.size = m) (hvx : vars.x.size = n)
    (hvs : vars.s.size = m) (hvz : vars.z.size = m) (hrx : rx.size = n) (hrz : rz.size = m)
    (has : stepa.s.size = m) (haz : stepa.z.size = m)
    (hx1 : x1.size = n) (hz1 : z1.size = m) (hx2 : x2.size = n)
    (hz2 : z2.size = m) (hτ : vars.τ ≠ 0) (hint : NNInterior mask vars.s vars.z m)
    (hzero : ∀ i : Fin m, maskFn mask m i = false → toFn vars.s m i = 0)
    (hμ : μ = calcMu (Vec.dot vars.s vars.z) vars.τ vars.κ (mask.count true))
    (hrhs : rhs = (combinedStepRhs mask (updateScaling mask vars.s vars.z).2
      (affineStepRhs mask rx rz rτ (updateScaling mask vars.s vars.z).1 vars) rx rz rτ vars stepa
      σ μ mm).1)
    (h1x : P *ᵥ toFn x1 n + Aᵀ *ᵥ toFn z1 m = toFn rhs.x n)
    (h1z : A *ᵥ toFn x1 n - Hnn mask vars.s vars.z m *ᵥ toFn z1 m
      = dsConstFn mask vars rhs false m - toFn rhs.z m)
    (h2x : P *ᵥ toFn x2 n + Aᵀ *ᵥ toFn z2 m = -toFn q n)
    (h2z : A *ᵥ toFn x2 n - Hnn mask vars.s vars.z m *ᵥ toFn z2 m = toFn b m)
    (hden : KktSystem.tauDen vars.κ vars.τ (toFn q n ⬝ᵥ toFn x2 n) (toFn b m ⬝ᵥ toFn z2 m)
        (((-1 : ℝ) • toFn x2 n + (1 : ℝ) • ((1 / vars.τ) • toFn vars.x n)) ⬝ᵥ
          P *ᵥ ((-1 : ℝ) • toFn x2 n + (1 : ℝ) • ((1 / vars.τ) • toFn vars.x n)))
        (toFn x2 n ⬝ᵥ P *ᵥ toFn x2 n) ≠ 0) :
    ∃ lhs wx wz,
      KktSystem.solveNN Pc mask (updateScaling mask vars.s vars.z).2 q b vars rhs false x1 z1 x2 z2
        = .ok (lhs, wx, wz)
      ∧ calcMu (Vec.dot (addStep vars lhs a).s (addStep vars lhs a).z) (addStep vars lhs a).τ
          (addStep vars lhs a).κ (mask.count true)
        = (1 - a * (1 - σ)) * μ
          - a * mm * ((∑ i : Fin m, if maskFn mask m i then toFn stepa.s m i * toFn stepa.z m i else 0)
              + stepa.τ * stepa.κ) / ((mask.count true : ℝ) + 1)
          + a ^ 2 * (toFn lhs.s m ⬝ᵥ toFn lhs.z m + lhs.τ * lhs.κ) / ((mask.count true : ℝ) + 1) := by
  obtain ⟨r1, r2, r3, _, _, _, eκ, es⟩ :=
    combinedStepRhs_dense (n := n) mask rx rz rτ vars stepa σ μ mm hm hrx hrz hvs hvz has haz hint
  simp only [← hrhs] at r1 r2 r3 eκ es
  obtain ⟨lhs, wx, wz, hrun, s1, s2, s3, hN⟩ := reduced_solve_is_newton_array P hP A Pc hqf mask q b
    vars rhs false x1 z1 x2 z2 hm hq hb hvx hvs hvz r1 r2 r3 hx1 hz1 hx2 hz2 hτ hint h1x h1z h2x h2z hden
  refine ⟨lhs, wx, wz, hrun, ?_⟩
  obtain ⟨_, n2, n3, _, as', az, aτ, aκ⟩ := addStep_dense (n := n) (m := m) vars lhs a hvx s1 hvs s2 hvz s3
  rw [dot_toFn _ _ n2 n3, as', az, aτ, aκ, hμ, dot_toFn _ _ hvs hvz]
  have hμ' : μ = calcMu (toFn vars.s m ⬝ᵥ toFn vars.z m) vars.τ vars.κ (mask.count true) := by
    rw [hμ, dot_toFn _ _ hvs hvz]
  -- rows of the complementarity block
  have hrow : ∀ i : Fin m, toFn vars.s m i * toFn lhs.z m i + toFn vars.z m i * toFn lhs.s m i
      = -(toFn vars.s m i * toFn vars.z m i
          + mm * (if maskFn mask m i then toFn stepa.s m i * toFn stepa.z m i else 0)
          - (if maskFn mask m i then σ * μ else 0)) := by
    intro i
    have h := congrFun hN.eq_s i
    simp only [Hnn, Matrix.mulVec_diagonal, Pi.add_apply, Pi.neg_apply, dsConstFn, Bool.false_eq_true,
      if_false] at h
    by_cases hi : maskFn mask m i = true
    · obtain ⟨p1, p2⟩ := hint i hi
      simp only [hi, if_true] at h ⊢
      have e := congrFun es i
      simp only [hi, if_true] at e
      rw [e] at h
      field_simp at h
      linear_combination h
    · have hi' : maskFn mask m i = false := by simpa using hi
      simp only [hi', Bool.false_eq_true, if_false, zero_mul, zero_add] at h ⊢
      rw [hzero i hi', h]; ring
  have hsum : toFn vars.s m ⬝ᵥ toFn lhs.z m + toFn vars.z m ⬝ᵥ toFn lhs.s m
      = -(toFn vars.s m ⬝ᵥ toFn vars.z m
          + mm * (∑ i : Fin m, if maskFn mask m i then toFn stepa.s m i * toFn stepa.z m i else 0)
          - (mask.count true : ℝ) * (σ * μ)) := by
    simp only [dotProduct, ← Finset.sum_add_distrib, hrow]
    rw [← sum_mask_const' mask hm (σ * μ), Finset.mul_sum]
    simp only [Finset.sum_neg_distrib, Finset.sum_sub_distrib, Finset.sum_add_distrib]
  have hκ := hN.eq_κ
  simp only [eκ] at hκ
  rw [hμ'] at hsum hκ
  rw [← hμ']
  rw [hμ']
  exact mu_update_of_sum (mask.count true) (toFn vars.s m) (toFn vars.z m) (toFn lhs.s m)
    (toFn lhs.z m) vars.τ vars.κ lhs.τ lhs.κ σ mm a _ (stepa.τ * stepa.κ) hsum
    (by rw [hκ]; ring)

/-- non-vacuity of `reduced_solve_is_newton_array`, `residual_contraction_array` and
`mu_update_nn_array` (their hypotheses are jointly satisfiable and the executable model returns a
step): one nonnegative row, no `x` (`n = 0`, `m = 1`), `s = z = τ = κ = 1`, `b = (1)`, residuals
`rz = (0)`, `rτ = 2`, arbitrary `σ`, `m`, `α`; `z2 = (−1)` solves the constant system and
`z1 = rhs.z − rhs.s/z` the variable one (`Lemmas.exVars`, `exRhs`, `exPc`). -/
example (σ mm a : ℝ) : ∃ lhs wx wz,
    KktSystem.solveNN exPc [true] (updateScaling [true] exVars.s exVars.z).2 #[] #[1] exVars
      (exRhs σ (calcMu (Vec.dot exVars.s exVars.z) exVars.τ exVars.κ ([true].count true)) mm) false #[]
      #[toFn (exRhs σ (calcMu (Vec.dot exVars.s exVars.z) exVars.τ exVars.κ ([true].count true)) mm).z 1 0
        - dsConstFn [true] exVars
            (exRhs σ (calcMu (Vec.dot exVars.s exVars.z) exVars.τ exVars.κ ([true].count true)) mm)
            false 1 0]
      #[] #[-1] = .ok (lhs, wx, wz) := by
  set μ := calcMu (Vec.dot exVars.s exVars.z) exVars.τ exVars.κ ([true].count true) with hμ
  have hrX : toFn (#[] : Array ℝ) 0 = resX (0 : Matrix (Fin 0) (Fin 0) ℝ) (0 : Matrix (Fin 1) (Fin 0) ℝ)
      (toFn #[] 0) (toFn exVars.x 0) (toFn exVars.z 1) exVars.τ := by funext i; exact i.elim0
  have hrZ : toFn (#[0] : Array ℝ) 1 = resZ (0 : Matrix (Fin 1) (Fin 0) ℝ) (toFn #[1] 1) (toFn exVars.x 0)
      (toFn exVars.s 1) exVars.τ := by
    funext i; have : i = 0 := Subsingleton.elim _ _; subst this; simp [resZ, toFn, exVars]
  have hrT : (2 : ℝ) = resT (0 : Matrix (Fin 0) (Fin 0) ℝ) (toFn #[] 0) (toFn #[1] 1) (toFn exVars.x 0)
      (toFn exVars.z 1) exVars.τ exVars.κ := by
    simp [resT, toFn, exVars, Matrix.mulVec, dotProduct]; norm_num
  have h1z : (0 : Matrix (Fin 1) (Fin 0) ℝ) *ᵥ toFn #[] 0
      - Hnn [true] exVars.s exVars.z 1 *ᵥ toFn #[toFn (exRhs σ μ mm).z 1 0
          - dsConstFn [true] exVars (exRhs σ μ mm) false 1 0] 1
      = dsConstFn [true] exVars (exRhs σ μ mm) false 1 - toFn (exRhs σ μ mm).z 1 := by
    funext i; have : i = 0 := Subsingleton.elim _ _; subst this
    simp [Hnn, maskFn, toFn, exVars]
  have h2z : (0 : Matrix (Fin 1) (Fin 0) ℝ) *ᵥ toFn #[] 0
      - Hnn [true] exVars.s exVars.z 1 *ᵥ toFn #[-1] 1 = toFn #[1] 1 := by
    funext i; have : i = 0 := Subsingleton.elim _ _; subst this
    simp [Hnn, maskFn, toFn, exVars]
  have hden : KktSystem.tauDen exVars.κ exVars.τ (toFn #[] 0 ⬝ᵥ toFn #[] 0) (toFn #[1] 1 ⬝ᵥ toFn #[-1] 1)
      (((-1 : ℝ) • toFn #[] 0 + (1 : ℝ) • ((1 / exVars.τ) • toFn exVars.x 0)) ⬝ᵥ
        (0 : Matrix (Fin 0) (Fin 0) ℝ) *ᵥ ((-1 : ℝ) • toFn #[] 0 + (1 : ℝ) • ((1 / exVars.τ) • toFn exVars.x 0)))
      (toFn #[] 0 ⬝ᵥ (0 : Matrix (Fin 0) (Fin 0) ℝ) *ᵥ toFn #[] 0) ≠ 0 := by
    simp [KktSystem.tauDen, toFn, exVars, dotProduct]
  -- the three theorems, on the same data
  obtain ⟨lhs, wx, wz, h, _⟩ := residual_contraction_array (n := 0) (m := 1) 0 (by simp) 0 exPc exHqf
    [true] #[] #[1] #[] #[0] 2 exVars exStepa (exRhs σ μ mm) σ μ mm a #[] _ #[] #[-1]
    rfl rfl rfl rfl rfl rfl rfl rfl rfl rfl rfl rfl rfl rfl (by simp [exVars]) exInt hrX hrZ hrT rfl
    (by funext i; exact i.elim0) h1z (by funext i; exact i.elim0) h2z hden
  obtain ⟨lhs', _, _, h', _⟩ := mu_update_nn_array (n := 0) (m := 1) 0 (by simp) 0 exPc exHqf
    [true] #[] #[1] #[] #[0] 2 exVars exStepa (exRhs σ μ mm) σ μ mm a #[] _ #[] #[-1]
    rfl rfl rfl rfl rfl rfl rfl rfl rfl rfl rfl rfl rfl rfl (by simp [exVars]) exInt
    (by intro i hi; simp [maskFn] at hi) hμ rfl
    (by funext i; exact i.elim0) h1z (by funext i; exact i.elim0) h2z hden
  exact ⟨lhs, wx, wz, h⟩

end array

section progress
variable {α : Type} [Field α] [LinearOrder α] [IsStrictOrderedRing α] [FloatLike α]
  [LawfulFloatLike α]

/-- [F] **Exact progress of `μ` per step, every symmetric cone.**  If the step satisfies the
linearised complementarity equation in aggregated form —
`s·Δz + z·Δs = −(s·z + m·C − ν σμ)` (for a symmetric cone this is `⟨e, ·⟩` applied to
`λ∘(WΔz + W⁻ᵀΔs) = σμe − λ∘λ − m (W⁻ᵀΔsᵃ)∘(WΔzᵃ)`, with `⟨e,e⟩ = ν`, `⟨e, u∘v⟩ = ⟨u,v⟩`,
`C = Δsᵃ·Δzᵃ`) and `κΔτ + τΔκ = −(τκ + m·Cκ − σμ)` — then `calc_mu` after `add_step(α)` is

  `μ⁺ = (1 − α(1−σ)) μ − α m (C + Cκ)/(ν+1) + α² (Δs·Δz + ΔτΔκ)/(ν+1)`. -/
theorem mu_update_sum {k : ℕ} (ν : ℕ) (s z ds dz : Fin k → α) (τ κ dτ dκ σ mm a C Cκ : α)
    (hsum : s ⬝ᵥ dz + z ⬝ᵥ ds
      = -(s ⬝ᵥ z + mm * C - (ν : α) * (σ * calcMu (s ⬝ᵥ z) τ κ ν)))
    (hκ : κ * dτ + τ * dκ = -(τ * κ + mm * Cκ - σ * calcMu (s ⬝ᵥ z) τ κ ν)) :
    calcMu ((s + a • ds) ⬝ᵥ (z + a • dz)) (τ + a * dτ) (κ + a * dκ) ν
      = (1 - a * (1 - σ)) * calcMu (s ⬝ᵥ z) τ κ ν
        - a * mm * (C + Cκ) / ((ν : α) + 1) + a ^ 2 * (ds ⬝ᵥ dz + dτ * dκ) / ((ν : α) + 1) :=
  mu_update_of_sum ν s z ds dz τ κ dτ dκ σ mm a C Cκ hsum hκ

/-- [F] **Decrease of `μ`** (the mechanism behind "few iterations"): under the hypotheses of
`mu_update_sum`, if the second-order term is dominated by the Mehrotra correction,
`α²(Δs·Δz + ΔτΔκ) ≤ α m (C + Cκ)` (in particular if it is nonpositive and `m = 0` or the
correction is nonnegative), then `μ⁺ ≤ (1 − α(1−σ)) μ`; with the Mehrotra centring
`σ = (1 − α_aff)³`, `α_aff, α ∈ (0,1]`, the factor lies in `[1 − α, 1)`, so `μ⁺ < μ` for
`μ > 0`. -/
theorem mu_decrease {k : ℕ} (ν : ℕ) (s z ds dz : Fin k → α) (τ κ dτ dκ mm a aaff C Cκ : α)
    (ha0 : 0 < a) (ha1 : a ≤ 1) (hf0 : 0 < aaff) (hf1 : aaff ≤ 1)
    (hμ0 : 0 < calcMu (s ⬝ᵥ z) τ κ ν)
    (hsum : s ⬝ᵥ dz + z ⬝ᵥ ds
      = -(s ⬝ᵥ z + mm * C - (ν : α) * (centeringParameter aaff * calcMu (s ⬝ᵥ z) τ κ ν)))
    (hκ : κ * dτ + τ * dκ
      = -(τ * κ + mm * Cκ - centeringParameter aaff * calcMu (s ⬝ᵥ z) τ κ ν))
    (h2 : a ^ 2 * (ds ⬝ᵥ dz + dτ * dκ) ≤ a * mm * (C + Cκ)) :
    calcMu ((s + a • ds) ⬝ᵥ (z + a • dz)) (τ + a * dτ) (κ + a * dκ) ν
        ≤ (1 - a * (1 - centeringParameter aaff)) * calcMu (s ⬝ᵥ z) τ κ ν
    ∧ calcMu ((s + a • ds) ⬝ᵥ (z + a • dz)) (τ + a * dτ) (κ + a * dκ) ν < calcMu (s ⬝ᵥ z) τ κ ν
    ∧ 1 - a ≤ 1 - a * (1 - centeringParameter aaff) := by
  have h := mu_decrease_of_sum ν s z ds dz τ κ dτ dκ (centeringParameter aaff) mm a C Cκ hsum hκ h2
  obtain ⟨f1, f2, _⟩ := mehrotra_factor a aaff ha0 ha1 hf0 hf1
  refine ⟨h, lt_of_le_of_lt h ?_, f1⟩
  calc (1 - a * (1 - centeringParameter aaff)) * calcMu (s ⬝ᵥ z) τ κ ν
      < 1 * calcMu (s ⬝ᵥ z) τ κ ν := mul_lt_mul_of_pos_right f2 hμ0
    _ = calcMu (s ⬝ᵥ z) τ κ ν := one_mul _

/-- non-vacuity of `mu_update_sum` / `mu_decrease`: one row, `s = z = τ = κ = 1` (`μ = 1`),
full affine step (`α_aff = 1`, `σ = 0`), `m = 1`, `C = Cκ = 1`, `Δs = Δz = Δτ = Δκ = −1`,
`α = 1`: `μ⁺ = 0 < μ` -/
example : calcMu (((fun _ : Fin 1 => (1 : ℝ)) + (1 : ℝ) • fun _ => (-1 : ℝ)) ⬝ᵥ ((fun _ => (1 : ℝ)) + (1 : ℝ) • fun _ => (-1 : ℝ)))
      (1 + 1 * (-1)) (1 + 1 * (-1)) 1
    < calcMu ((fun _ : Fin 1 => (1 : ℝ)) ⬝ᵥ fun _ => (1 : ℝ)) 1 1 1 := by
  have hμ : calcMu ((fun _ : Fin 1 => (1 : ℝ)) ⬝ᵥ fun _ => (1 : ℝ)) 1 1 1 = 1 := by
    unfold calcMu
    rw [LawfulFloatLike.ofNat_eq]
    simp [dotProduct] <;> norm_num
  have hσ : centeringParameter (1 : ℝ) = 0 := by unfold centeringParameter; norm_num
  exact (mu_decrease (k := 1) 1 (fun _ => 1) (fun _ => 1) (fun _ => -1) (fun _ => -1) 1 1 (-1) (-1) 1 1 1
    1 1 (by norm_num) le_rfl (by norm_num) le_rfl (by rw [hμ]; norm_num)
    (by rw [hμ, hσ]; simp [dotProduct]) (by rw [hμ, hσ]; norm_num)
    (by simp [dotProduct])).2.1

end progress

section orth
variable {α : Type} [Field α] {n m : ℕ}

/-- [F] **Orthogonality of the Newton step**: for a step satisfying the linearised system of
the homogeneous embedding, `Δs·Δz + ΔτΔκ = dᵀPd − (Δx·rdx + Δz·rdz + Δτ·rdτ)` with
`d = Δx − Δτ·x/τ`; on a residual-free iterate of a linear/conic programme (`P = 0`) the
second-order term of `mu_update_sum` vanishes and `μ⁺` is *exactly*
`(1 − α(1−σ)) μ − α m (C + Cκ)/(ν+1)`. -/
theorem newton_step_orthogonality (P : Matrix (Fin n) (Fin n) α) (hP : Pᵀ = P)
    (A : Matrix (Fin m) (Fin n) α) (H : Matrix (Fin m) (Fin m) α) (q : Fin n → α) (b : Fin m → α)
    (x : Fin n → α) (τ κ : α) (rdx : Fin n → α) (rdz : Fin m → α) (rdτ rdκ : α) (c : Fin m → α)
    (Δ : DenseStep α n m) (hN : IsNewtonStep P A H q b x τ κ rdx rdz rdτ c rdκ Δ) :
    Δ.ds ⬝ᵥ Δ.dz + Δ.dτ * Δ.dκ
      = (Δ.dx - Δ.dτ • ((1 / τ) • x)) ⬝ᵥ P *ᵥ (Δ.dx - Δ.dτ • ((1 / τ) • x))
        - (Δ.dx ⬝ᵥ rdx + Δ.dz ⬝ᵥ rdz + Δ.dτ * rdτ) :=
  newton_orthogonality P hP A q b ((1 / τ) • x) rdx rdz rdτ Δ.dx Δ.ds Δ.dz Δ.dτ Δ.dκ hN.eq_x hN.eq_z
    hN.eq_τ

/-- non-vacuity of `newton_step_orthogonality` (an `IsNewtonStep` exists, see the example for
`reduced_solve_is_newton` below): on that step `Δs·Δz + ΔτΔκ` is given by the identity -/
example (Δ : DenseStep ℚ 1 1)
    (hN : IsNewtonStep (0 : Matrix (Fin 1) (Fin 1) ℚ) (1 : Matrix (Fin 1) (Fin 1) ℚ) 1 (fun _ => 1)
      (fun _ => 1) (fun _ => 0) 1 1 (fun _ => 1) (fun _ => 1) 1 (fun _ => 1) 1 Δ) :
    Δ.ds ⬝ᵥ Δ.dz + Δ.dτ * Δ.dκ
      = (Δ.dx - Δ.dτ • ((1 / (1 : ℚ)) • fun _ => (0 : ℚ))) ⬝ᵥ (0 : Matrix (Fin 1) (Fin 1) ℚ) *ᵥ
          (Δ.dx - Δ.dτ • ((1 / (1 : ℚ)) • fun _ => (0 : ℚ)))
        - (Δ.dx ⬝ᵥ (fun _ => (1 : ℚ)) + Δ.dz ⬝ᵥ (fun _ => (1 : ℚ)) + Δ.dτ * 1) :=
  newton_step_orthogonality 0 (by simp) 1 1 _ _ _ 1 1 _ _ 1 1 _ Δ hN

end orth

/-! ## Round 3: the combined step beyond nonnegative cones -/
section cones
open Clarabel.Soc

/-- [R] **SOC: the combined step satisfies the linearised complementarity equation exactly.**
Normalised `w`, `η ≠ 0`, `λ` with `λ₀ ≠ 0`, `res(λ) ≠ 0`, `z = W⁻¹λ` (C13 `soc_NT_identities`;
`W` symmetric).  `combined_step_rhs` leaves `rhs.s = 1·shift + 1·affine_ds` with
`affine_ds = λ∘λ` (C13 `soc_affineDs_eq`) and `shift = (W⁻¹Δsᵃ)∘(WΔzᵃ) − σμe`
(C13 `soc_combinedDsShift_eq`; `Δzᵃ` already scaled by the damping `m`);
`DefaultKKTSystem::solve` computes `Δs = −1·Δs_from_Δz_offset(rhs.s, z) + (−1)·mul_Hs(Δz)`.  Then,
for every `Δz`,

  `λ ∘ (WΔz + W⁻¹Δs) = σμe − λ∘λ − (W⁻¹Δsᵃ)∘(WΔzᵃ)`. -/
theorem soc_combined_step_equation (w0 : ℝ) (w1 : List ℝ) (eta l0 : ℝ) (l1 : List ℝ)
    (dsa0 : ℝ) (dsa1 : List ℝ) (dza0 : ℝ) (dza1 : List ℝ) (σμ : ℝ) (dz0 : ℝ) (dz1 : List ℝ)
    (y0 : ℝ) (y1 : List ℝ)
    (hw : w0 ^ 2 - dotL w1 w1 = 1) (hw0 : 0 < w0) (he : eta ≠ 0) (hl0 : l0 ≠ 0)
    (hres : l0 ^ 2 - dotL l1 l1 ≠ 0) (hl : l1.length = w1.length) (hsa : dsa1.length = w1.length)
    (hza : dza1.length = w1.length) (hdz : dz1.length = w1.length) (hy : y1.length = w1.length) :
    let ll := circOpCore l0 l1 l0 l1
    let wz := mulWCore y0 y1 dza0 dza1 1 0 w0 w1 eta
    let ws := mulWinvCore y0 y1 dsa0 dsa1 1 0 w0 w1 eta
    let sh := circOpCore ws.1 ws.2 wz.1 wz.2
    let d0 := 1 * (sh.1 + -σμ) + 1 * ll.1
    let d1 := combL 1 1 sh.2 ll.2
    let z := mulWinvCore y0 y1 l0 l1 1 0 w0 w1 eta
    let c := dsFromDzOffsetCore d0 d1 z.1 z.2 l0 l1 w0 w1 eta
    let h := mulHsCore dz0 dz1 w0 w1 eta
    let ds0 := (-1) * c.1 + (-1) * h.1
    let ds1 := combL (-1) (-1) c.2 h.2
    let p := mulWCore y0 y1 dz0 dz1 1 0 w0 w1 eta
    let r := mulWinvCore y0 y1 ds0 ds1 1 0 w0 w1 eta
    circOpCore l0 l1 (p.1 + r.1) (List.zipWith (· + ·) p.2 r.2)
      = (σμ - ll.1 - sh.1, List.zipWith (fun a b => -a - b) ll.2 sh.2) :=
  combined_step_equation w0 w1 eta l0 l1 dsa0 dsa1 dza0 dza1 σμ dz0 dz1 y0 y1 hw hw0 he hl0 hres hl hsa
    hza hdz hy

/-- [R] **SOC: aggregated complementarity of the combined step** (the hypothesis `hsum` of
`mu_update_sum` for a cone of degree 1): for any right-hand side `d = rhs.s`, `s = Wλ`,
`z = W⁻¹λ` and the `Δs` of `DefaultKKTSystem::solve`, `⟨s,Δz⟩ + ⟨z,Δs⟩ = −d₀`; with the `d` of
`soc_combined_step_equation`, `d₀ = ⟨λ,λ⟩ + ⟨W⁻¹Δsᵃ, WΔzᵃ⟩ − σμ = s·z + m Δsᵃ·Δzᵃ − σμ`. -/
theorem soc_combined_step_aggregated (w0 : ℝ) (w1 : List ℝ) (eta l0 : ℝ) (l1 : List ℝ) (d0 : ℝ)
    (d1 : List ℝ) (dz0 : ℝ) (dz1 : List ℝ) (y0 : ℝ) (y1 : List ℝ)
    (hw : w0 ^ 2 - dotL w1 w1 = 1) (hw0 : 0 < w0) (he : eta ≠ 0) (hl0 : l0 ≠ 0)
    (hres : l0 ^ 2 - dotL l1 l1 ≠ 0) (hl : l1.length = w1.length) (hd : d1.length = w1.length)
    (hdz : dz1.length = w1.length) (hy : y1.length = w1.length) :
    let s := mulWCore y0 y1 l0 l1 1 0 w0 w1 eta
    let z := mulWinvCore y0 y1 l0 l1 1 0 w0 w1 eta
    let c := dsFromDzOffsetCore d0 d1 z.1 z.2 l0 l1 w0 w1 eta
    let h := mulHsCore dz0 dz1 w0 w1 eta
    let ds0 := (-1) * c.1 + (-1) * h.1
    let ds1 := combL (-1) (-1) c.2 h.2
    (s.1 * dz0 + dotL s.2 dz1) + (z.1 * ds0 + dotL z.2 ds1) = -d0 :=
  combined_step_aggregated w0 w1 eta l0 l1 d0 d1 dz0 dz1 y0 y1 hw hw0 he hl0 hres hl hd hdz hy

/-- non-vacuity of the two SOC theorems: `w = (1,(0))` is normalised, `η = 1`, `λ = (2,(1))`
has `λ₀ ≠ 0` and residual `3 ≠ 0`; all tails have length 1 -/
example : (1 : ℝ) ^ 2 - dotL [0] [0] = 1 ∧ (0 : ℝ) < 1 ∧ (1 : ℝ) ≠ 0 ∧ (2 : ℝ) ≠ 0
    ∧ (2 : ℝ) ^ 2 - dotL [1] [1] ≠ 0 ∧ [(1 : ℝ)].length = [(0 : ℝ)].length := by
  refine ⟨by simp, by norm_num, by norm_num, by norm_num, ?_, rfl⟩
  simp; norm_num

/-- [F] **Symmetric cones, abstract form (PSD).**  For any cone whose operators satisfy the
Nesterov–Todd contracts — `W` additive, `mul_Hs = W∘W`, `W⁻¹W = I`, `λ∘·` odd, `λ∘(λ\d) = d`,
`Δs_from_Δz_offset(d) = W(λ\d)`; for the PSD cone these are C13's `psd_mulHs_eq`, `psd_W_Winv`,
`psd_circ_lamInv`, `psd_dsOffset_eq` (conditional on the LAPACK contracts) — the step
`Δs = −(mul_Hs Δz + Δs_from_Δz_offset(d))` of `DefaultKKTSystem::solve` satisfies
`λ∘(WΔz + W⁻¹Δs) = −d`. -/
theorem symmetric_cone_combined_step {V : Type} [AddCommGroup V] (W Winv Hs : V → V)
    (circ : V → V → V) (invc off : V → V) (lam d dz : V)
    (hW : ∀ a b, W (a + b) = W a + W b) (hWneg : ∀ a, W (-a) = -W a)
    (hHs : ∀ x, Hs x = W (W x)) (hWi : ∀ x, Winv (W x) = x)
    (hcn : ∀ a, circ lam (-a) = -circ lam a) (hci : circ lam (invc d) = d)
    (hoff : off d = W (invc d)) :
    circ lam (W dz + Winv (-(Hs dz + off d))) = -d :=
  symmetric_cone_complementarity W Winv Hs circ invc off lam d dz hW hWneg hHs hWi hcn hci hoff

/-- non-vacuity of `symmetric_cone_combined_step`: `V = ℝ`, `W x = 2x`, `λ = 3` -/
example : ∃ (W Winv Hs : ℝ → ℝ) (circ : ℝ → ℝ → ℝ) (invc off : ℝ → ℝ) (lam d : ℝ),
    (∀ a b, W (a + b) = W a + W b) ∧ (∀ a, W (-a) = -W a) ∧ (∀ x, Hs x = W (W x))
    ∧ (∀ x, Winv (W x) = x) ∧ (∀ a, circ lam (-a) = -circ lam a) ∧ circ lam (invc d) = d
    ∧ off d = W (invc d) :=
  ⟨fun x => 2 * x, fun x => x / 2, fun x => 4 * x, fun a b => a * b, fun d => d / 3,
    fun d => 2 * (d / 3), 3, 1, fun a b => by ring, fun a => by ring, fun x => by ring,
    fun x => by ring, fun a => by ring, by norm_num, rfl⟩

/-- [F] **Exponential and power cones: the `Δs` of the combined step.**  With
`affine_ds = s`, `combined_ds_shift = σμ·g(z) − η` (C14 `combined_ds_shift_eq`; `η` the
third-order correction built from the affine step), `Δs_from_Δz_offset` a copy and
`Δs = −1·rhs.s + (−1)·(Hs Δz)` (`Lemmas.nonsymDs`, the operation order of the code),

  `Δs = −Hs Δz − (s + σμ g(z)) + η`,

for the dual scaling `Hs = μH(z)` (`Nonsym.useDualScaling`, `(μH)Δz = μ·(HΔz)`) as well as for
the primal-dual scaling block. -/
theorem nonsym_combined_ds (a μ σμ : ℝ) (Hs H Hd : Sym3 ℝ) (grad s z dz dza dsa : V3 ℝ) :
    (nonsymDs Hs s (Exp.combinedDsShift H grad z dza dsa σμ) dz
      = (-(Hs.mul dz).1 - (s.1 + σμ * grad.1) + (Exp.higherCorrection H z dsa dza).1,
         -(Hs.mul dz).2.1 - (s.2.1 + σμ * grad.2.1) + (Exp.higherCorrection H z dsa dza).2.1,
         -(Hs.mul dz).2.2 - (s.2.2 + σμ * grad.2.2) + (Exp.higherCorrection H z dsa dza).2.2))
    ∧ (nonsymDs Hs s (Pow.combinedDsShift a H grad z dza dsa σμ) dz
      = (-(Hs.mul dz).1 - (s.1 + σμ * grad.1) + (Pow.higherCorrection a H z dsa dza).1,
         -(Hs.mul dz).2.1 - (s.2.1 + σμ * grad.2.1) + (Pow.higherCorrection a H z dsa dza).2.1,
         -(Hs.mul dz).2.2 - (s.2.2 + σμ * grad.2.2) + (Pow.higherCorrection a H z dsa dza).2.2))
    ∧ (Nonsym.useDualScaling μ Hd).mul dz
        = (μ * (Hd.mul dz).1, μ * (Hd.mul dz).2.1, μ * (Hd.mul dz).2.2) :=
  ⟨nonsymDs_exp Hs H grad s z dz dza dsa σμ, nonsymDs_pow a Hs H grad s z dz dza dsa σμ,
    mul_useDualScaling μ Hd dz⟩

end cones

/-! ## Round 3: further corollaries on the executable functions -/
section array2
variable {n m : ℕ}

/-- [R] **`residual_contraction` on the executable functions, affine direction**: the pass
`update_scaling → affine_step_rhs → solve(Affine) → add_step(α)` (`σ = 0`: what the predictor
would do on its own) multiplies `(rx, rz)` by `1 − α` and `rτ` likewise up to the exact
`P`-remainder. -/
theorem residual_contraction_affine_array (P : Matrix (Fin n) (Fin n) ℝ) (hP : Pᵀ = P)
    (A : Matrix (Fin m) (Fin n) ℝ) (Pc : Csc ℝ)
    (hqf : ∀ a b : Array ℝ, a.size = n → b.size = n →
      KktSystem.quadForm Pc a b = .ok (toFn a n ⬝ᵥ P *ᵥ toFn b n))
    (mask : List Bool) (q b rx rz : Array ℝ) (rτ : ℝ) (vars rhs : Vars ℝ) (a : ℝ)
    (x1 z1 x2 z2 : Array ℝ)
    (hm : mask.length = m) (hq : q.size = n) (hb : b.size = m) (hvx : vars.x.size = n)
    (hvs : vars.s.size = m) (hvz : vars.z.size = m) (hrx : rx.size = n) (hrz : rz.size = m)
    (hx1 : x1.size = n) (hz1 : z1.size = m) (hx2 : x2.size = n)
    (hz2 : z2.size = m) (hτ : vars.τ ≠ 0) (hint : NNInterior mask vars.s vars.z m)
    (hrX : toFn rx n = resX P A (toFn q n) (toFn vars.x n) (toFn vars.z m) vars.τ)
    (hrZ : toFn rz m = resZ A (toFn b m) (toFn vars.x n) (toFn vars.s m) vars.τ)
    (hrT : rτ = resT P (toFn q n) (toFn b m) (toFn vars.x n) (toFn vars.z m) vars.τ vars.κ)
    (hrhs : rhs = affineStepRhs mask rx rz rτ (updateScaling mask vars.s vars.z).1 vars)
    (h1x : P *ᵥ toFn x1 n + Aᵀ *ᵥ toFn z1 m = toFn rhs.x n)
    (h1z : A *ᵥ toFn x1 n - Hnn mask vars.s vars.z m *ᵥ toFn z1 m
      = dsConstFn mask vars rhs true m - toFn rhs.z m)
    (h2x : P *ᵥ toFn x2 n + Aᵀ *ᵥ toFn z2 m = -toFn q n)
    (h2z : A *ᵥ toFn x2 n - Hnn mask vars.s vars.z m *ᵥ toFn z2 m = toFn b m)
    (hden : KktSystem.tauDen vars.κ vars.τ (toFn q n ⬝ᵥ toFn x2 n) (toFn b m ⬝ᵥ toFn z2 m)
        (((-1 : ℝ) • toFn x2 n + (1 : ℝ) • ((1 / vars.τ) • toFn vars.x n)) ⬝ᵥ
          P *ᵥ ((-1 : ℝ) • toFn x2 n + (1 : ℝ) • ((1 / vars.τ) • toFn vars.x n)))
        (toFn x2 n ⬝ᵥ P *ᵥ toFn x2 n) ≠ 0) :
    ∃ lhs wx wz,
      KktSystem.solveNN Pc mask (updateScaling mask vars.s vars.z).2 q b vars rhs true x1 z1 x2 z2
        = .ok (lhs, wx, wz)
      ∧ (vars.τ + a * lhs.τ ≠ 0 →
        resX P A (toFn q n) (toFn (addStep vars lhs a).x n) (toFn (addStep vars lhs a).z m)
            (addStep vars lhs a).τ = (1 - a) • toFn rx n
        ∧ resZ A (toFn b m) (toFn (addStep vars lhs a).x n) (toFn (addStep vars lhs a).s m)
            (addStep vars lhs a).τ = (1 - a) • toFn rz m
        ∧ resT P (toFn q n) (toFn b m) (toFn (addStep vars lhs a).x n)
            (toFn (addStep vars lhs a).z m) (addStep vars lhs a).τ (addStep vars lhs a).κ
          = (1 - a) * rτ
            + a ^ 2 * ((toFn lhs.x n - lhs.τ • ((1 / vars.τ) • toFn vars.x n)) ⬝ᵥ
                P *ᵥ (toFn lhs.x n - lhs.τ • ((1 / vars.τ) • toFn vars.x n)))
              / (vars.τ + a * lhs.τ)) := by
  obtain ⟨ax, az, aτ', _, has, _⟩ := affineStepRhs_dense mask rx rz rτ vars hm hvs hvz hint
  simp only [← hrhs] at ax az aτ' has
  obtain ⟨lhs, wx, wz, hrun, s1, s2, s3, hN⟩ := reduced_solve_is_newton_array P hP A Pc hqf mask q b
    vars rhs true x1 z1 x2 z2 hm hq hb hvx hvs hvz (by rw [ax]; exact hrx) has (by rw [az]; exact hrz)
    hx1 hz1 hx2 hz2 hτ hint h1x h1z h2x h2z hden
  refine ⟨lhs, wx, wz, hrun, fun hτ' => ?_⟩
  obtain ⟨_, _, _, ex, es, ez, eτ, eκ⟩ := addStep_dense (n := n) (m := m) vars lhs a hvx s1 hvs s2 hvz s3
  rw [ax, az, aτ', hrX, hrZ, hrT] at hN
  have hN' : IsNewtonStep P A (Hnn mask vars.s vars.z m) (toFn q n) (toFn b m) (toFn vars.x n) vars.τ
      vars.κ ((1 - (0 : ℝ)) • resX P A (toFn q n) (toFn vars.x n) (toFn vars.z m) vars.τ)
      ((1 - (0 : ℝ)) • resZ A (toFn b m) (toFn vars.x n) (toFn vars.s m) vars.τ)
      ((1 - (0 : ℝ)) * resT P (toFn q n) (toFn b m) (toFn vars.x n) (toFn vars.z m) vars.τ vars.κ)
      (dsConstFn mask vars rhs true m) rhs.κ ⟨toFn lhs.x n, toFn lhs.s m, toFn lhs.z m, lhs.τ, lhs.κ⟩ := by
    simpa only [sub_zero, one_smul, one_mul] using hN
  have := residual_contraction P hP A (Hnn mask vars.s vars.z m) (toFn q n) (toFn b m) (toFn vars.x n)
    (toFn vars.s m) (toFn vars.z m) vars.τ vars.κ 0 a (dsConstFn mask vars rhs true m) rhs.κ
    ⟨toFn lhs.x n, toFn lhs.s m, toFn lhs.z m, lhs.τ, lhs.κ⟩ hτ hτ' hN'
  simp only [sub_zero, mul_one] at this
  rw [ex, es, ez, eτ, eκ, hrX, hrZ, hrT]
  exact this

/-- [F] **`centering_range` on the arrays of the `traj.sigma_mu` channel**: every entry of the
recomputed `σ` array (`aaff.map centeringParameter`, as the driver does) is `(1 − α_aff)³ ∈ [0,1]`
when the recorded affine step lengths lie in `[0,1]`, and the damping array is
`m₁ = α_aff,1`, `mⱼ = 1` for `j > 1`. -/
theorem centering_range_array (aaff : Array ℝ) (h : ∀ j (hj : j < aaff.size), 0 ≤ aaff[j] ∧ aaff[j] ≤ 1) :
    (aaff.map centeringParameter).size = aaff.size
    ∧ ∀ j (hj : j < aaff.size),
        (aaff.map centeringParameter)[j]'(by simpa using hj) = (1 - aaff[j]) ^ 3
        ∧ 0 ≤ (aaff.map centeringParameter)[j]'(by simpa using hj)
        ∧ (aaff.map centeringParameter)[j]'(by simpa using hj) ≤ 1
        ∧ mehrotraM (j + 1) aaff[j] = if j = 0 then aaff[j] else 1 := by
  refine ⟨by simp, fun j hj => ?_⟩
  obtain ⟨h0, h1⟩ := h j hj
  obtain ⟨e, p0, _, p1, pm⟩ := centering_range aaff[j] aaff[j] h0 le_rfl h1
  simp only [Array.getElem_map]
  refine ⟨e, p0, p1, ?_⟩
  rw [pm]
  by_cases hj0 : j = 0
  · simp [hj0]
  · have : j + 1 > 1 := by omega
    simp [hj0, this]

/-- non-vacuity of `centering_range_array`: one recorded affine step length `1/2` -/
example : ∀ j (hj : j < (#[(1 / 2 : ℝ)] : Array ℝ).size),
    0 ≤ (#[(1 / 2 : ℝ)] : Array ℝ)[j] ∧ (#[(1 / 2 : ℝ)] : Array ℝ)[j] ≤ 1 := by
  intro j hj
  have : j = 0 := by simp at hj; omega
  subst this
  constructor <;> norm_num

/-- non-vacuity of `residual_contraction_affine_array`: the data of the example above with the
affine right-hand side (`Δs_const_term = s`) -/
example (a : ℝ) : ∃ lhs wx wz,
    KktSystem.solveNN exPc [true] (updateScaling [true] exVars.s exVars.z).2 #[] #[1] exVars
      (affineStepRhs [true] #[] #[0] 2 (updateScaling [true] exVars.s exVars.z).1 exVars) true #[]
      #[toFn (affineStepRhs [true] #[] #[0] 2 (updateScaling [true] exVars.s exVars.z).1 exVars).z 1 0
        - dsConstFn [true] exVars
            (affineStepRhs [true] #[] #[0] 2 (updateScaling [true] exVars.s exVars.z).1 exVars) true 1 0]
      #[] #[-1] = .ok (lhs, wx, wz) := by
  set rhs := affineStepRhs [true] #[] #[0] 2 (updateScaling [true] exVars.s exVars.z).1 exVars with hr
  have hrX : toFn (#[] : Array ℝ) 0 = resX (0 : Matrix (Fin 0) (Fin 0) ℝ) (0 : Matrix (Fin 1) (Fin 0) ℝ)
      (toFn #[] 0) (toFn exVars.x 0) (toFn exVars.z 1) exVars.τ := by funext i; exact i.elim0
  have hrZ : toFn (#[0] : Array ℝ) 1 = resZ (0 : Matrix (Fin 1) (Fin 0) ℝ) (toFn #[1] 1) (toFn exVars.x 0)
      (toFn exVars.s 1) exVars.τ := by
    funext i; have : i = 0 := Subsingleton.elim _ _; subst this; simp [resZ, toFn, exVars]
  have hrT : (2 : ℝ) = resT (0 : Matrix (Fin 0) (Fin 0) ℝ) (toFn #[] 0) (toFn #[1] 1) (toFn exVars.x 0)
      (toFn exVars.z 1) exVars.τ exVars.κ := by
    simp [resT, toFn, exVars, Matrix.mulVec, dotProduct]; norm_num
  have h1z : (0 : Matrix (Fin 1) (Fin 0) ℝ) *ᵥ toFn #[] 0
      - Hnn [true] exVars.s exVars.z 1 *ᵥ toFn #[toFn rhs.z 1 0 - dsConstFn [true] exVars rhs true 1 0] 1
      = dsConstFn [true] exVars rhs true 1 - toFn rhs.z 1 := by
    funext i; have : i = 0 := Subsingleton.elim _ _; subst this
    simp [Hnn, maskFn, toFn, exVars]
  have h2z : (0 : Matrix (Fin 1) (Fin 0) ℝ) *ᵥ toFn #[] 0
      - Hnn [true] exVars.s exVars.z 1 *ᵥ toFn #[-1] 1 = toFn #[1] 1 := by
    funext i; have : i = 0 := Subsingleton.elim _ _; subst this
    simp [Hnn, maskFn, toFn, exVars]
  have hden : KktSystem.tauDen exVars.κ exVars.τ (toFn #[] 0 ⬝ᵥ toFn #[] 0) (toFn #[1] 1 ⬝ᵥ toFn #[-1] 1)
      (((-1 : ℝ) • toFn #[] 0 + (1 : ℝ) • ((1 / exVars.τ) • toFn exVars.x 0)) ⬝ᵥ
        (0 : Matrix (Fin 0) (Fin 0) ℝ) *ᵥ ((-1 : ℝ) • toFn #[] 0 + (1 : ℝ) • ((1 / exVars.τ) • toFn exVars.x 0)))
      (toFn #[] 0 ⬝ᵥ (0 : Matrix (Fin 0) (Fin 0) ℝ) *ᵥ toFn #[] 0) ≠ 0 := by
    simp [KktSystem.tauDen, toFn, exVars, dotProduct]
  obtain ⟨lhs, wx, wz, h, _⟩ := residual_contraction_affine_array (n := 0) (m := 1) 0 (by simp) 0 exPc
    exHqf [true] #[] #[1] #[] #[0] 2 exVars rhs a #[] _ #[] #[-1]
    rfl rfl rfl rfl rfl rfl rfl rfl rfl rfl rfl rfl (by simp [exVars]) exInt hrX hrZ hrT rfl
    (by funext i; exact i.elim0) h1z (by funext i; exact i.elim0) h2z hden
  exact ⟨lhs, wx, wz, h⟩

end array2

/-! ## Round 5: the combined step on the generalised power cone and on the PSD cone -/
section cones5
open Clarabel.PsdTri

/-- [F] **Generalised power cone: the `Δs` of the combined step**, on the model's own functions
(`GenPow.combinedDsShift`, `GenPow.mulHs`; arrays).  The cone has no third-order correction:
`combined_ds_shift = σμ·grad` whatever the affine directions (C14 `genpow_combined_ds_shift`);
`affine_ds` copies `s`, so `combined_step_rhs` leaves `rhs.s = 1·shift + 1·s`;
`Δs_from_Δz_offset` copies `rhs.s`; `DefaultKKTSystem::solve` computes
`Δs = −1·Δs_const + (−1)·mul_Hs(Δz)` (`Lemmas.genpowDs`, the operation order of the code).  Then,
with `h` the vector `GenPow.mulHs` returns for `Δz`, entry by entry

  `Δs = −Hs Δz − (s + σμ g(z))`. -/
theorem genpow_combined_ds (D : GenPow.Data ℝ) (mu : ℝ) (dim1 : Nat) (s dz dza dsa h : Array ℝ)
    (σμ : ℝ) (hm : GenPow.mulHs D mu dim1 dz = .ok h) (hs : s.size = D.grad.size)
    (hp : D.p.size = D.grad.size) :
    GenPow.combinedDsShift D dza dsa σμ = D.grad.map (fun g => g * σμ)
    ∧ genpowDs D s dza dsa σμ h
        = Vec.axpby (-1) (Vec.axpby 1 (GenPow.combinedDsShift D dza dsa σμ) 1 s) (-1) h
    ∧ ∃ hsz : (genpowDs D s dza dsa σμ h).size = D.grad.size, ∃ hh : h.size = D.grad.size,
        ∀ i (hi : i < D.grad.size),
          (genpowDs D s dza dsa σμ h)[i]'(hsz ▸ hi)
            = -h[i]'(hh ▸ hi) - (s[i]'(hs ▸ hi) + σμ * D.grad[i]) :=
  ⟨rfl, rfl, genpowDs_spec D mu dim1 s dz dza dsa h σμ hm hs hp⟩

/-- non-vacuity of `genpow_combined_ds`: a cone of dimension 2 (`dim1 = dim2 = 1`); `mul_Hs`
succeeds on a `Δz` of length 2 and `p`, `grad`, `s` have the cone's length -/
example : ∃ (D : GenPow.Data ℝ) (h s : Array ℝ), GenPow.mulHs D 1 1 #[7, 8] = .ok h
    ∧ s.size = D.grad.size ∧ D.p.size = D.grad.size :=
  ⟨⟨#[1, 2], #[1, 2], #[3], #[4], #[5], 6⟩, _, #[1, 1], rfl, rfl, rfl⟩

/-- [F] **Symmetric cones, abstract form with a nonsymmetric scaling operator (PSD).**  The PSD
cone's `W : X ↦ RᵀXR` is not self-adjoint; the code works with `W` (shape `N`) and `Wᵀ`
(shape `T`): `mul_Hs = Wᵀ∘W`, `Δs_from_Δz_offset(d) = Wᵀ(λ\d)`, `step_s ← W⁻ᵀΔs`.  With `Wᵀ`
additive, `W⁻ᵀWᵀ = I`, `λ∘·` odd and `λ∘(λ\d) = d`, the step `Δs = −(mul_Hs Δz +
Δs_from_Δz_offset(d))` satisfies `λ∘(WΔz + W⁻ᵀΔs) = −d`.  (`symmetric_cone_combined_step` is the
case `Wᵀ = W`.) -/
theorem symmetric_cone_combined_step_T {V : Type} [AddCommGroup V] (W Wt Winvt Hs : V → V)
    (circ : V → V → V) (invc off : V → V) (lam d dz : V)
    (hWt : ∀ a b, Wt (a + b) = Wt a + Wt b) (hWtneg : ∀ a, Wt (-a) = -Wt a)
    (hHs : ∀ x, Hs x = Wt (W x)) (hWi : ∀ x, Winvt (Wt x) = x)
    (hcn : ∀ a, circ lam (-a) = -circ lam a) (hci : circ lam (invc d) = d)
    (hoff : off d = Wt (invc d)) :
    circ lam (W dz + Winvt (-(Hs dz + off d))) = -d :=
  symmetric_cone_complementarity_T W Wt Winvt Hs circ invc off lam d dz hWt hWtneg hHs hWi hcn hci hoff

/-- non-vacuity of `symmetric_cone_combined_step_T`: `V = ℝ`, `W x = Wᵀ x = 2x`, `λ = 3` -/
example : ∃ (W Wt Winvt Hs : ℝ → ℝ) (circ : ℝ → ℝ → ℝ) (invc off : ℝ → ℝ) (lam d : ℝ),
    (∀ a b, Wt (a + b) = Wt a + Wt b) ∧ (∀ a, Wt (-a) = -Wt a) ∧ (∀ x, Hs x = Wt (W x))
    ∧ (∀ x, Winvt (Wt x) = x) ∧ (∀ a, circ lam (-a) = -circ lam a) ∧ circ lam (invc d) = d
    ∧ off d = Wt (invc d) :=
  ⟨fun x => 2 * x, fun x => 2 * x, fun x => x / 2, fun x => 4 * x, fun a b => a * b, fun d => d / 3,
    fun d => 2 * (d / 3), 3, 1, fun a b => by ring, fun a => by ring, fun x => by ring,
    fun x => by ring, fun a => by ring, by norm_num, rfl⟩

/-- [R] **PSD: the linearised complementarity equation on dense matrices** — the instance of
`symmetric_cone_combined_step_T` with `V = ℝⁿˣⁿ`, `W X = RᵀXR`, `Wᵀ X = RXRᵀ`,
`W⁻ᵀ X = R⁻¹XR⁻ᵀ`, `λ∘X = ½(ΛX + XΛ)`, `λ\D = (2Dᵢⱼ/(λᵢ+λⱼ))ᵢⱼ` (`lamInvM`, C13): if `R·R⁻¹ = I`
and no `λᵢ + λⱼ` vanishes, `ΔS = −(R(RᵀΔZ R)Rᵀ + R(λ\D)Rᵀ)` satisfies
`½(Λ(WΔZ + W⁻ᵀΔS) + (WΔZ + W⁻ᵀΔS)Λ) = −D`. -/
theorem psd_matrix_combined_step {n : Nat} (R Ri : Matrix (Fin n) (Fin n) ℝ) (lam : Array ℝ)
    (D DZ : Matrix (Fin n) (Fin n) ℝ) (hinv : R * Ri = 1)
    (hne : ∀ i j, i < n → j < n → lam.getD i 0 + lam.getD j 0 ≠ 0) :
    (1 / 2 : ℝ) • (Matrix.diagonal (fun i : Fin n => lam.getD i 0)
          * (Rᵀ * DZ * R + Ri * (-(R * (Rᵀ * DZ * R) * Rᵀ + R * lamInvM lam D * Rᵀ)) * Riᵀ)
        + (Rᵀ * DZ * R + Ri * (-(R * (Rᵀ * DZ * R) * Rᵀ + R * lamInvM lam D * Rᵀ)) * Riᵀ)
          * Matrix.diagonal (fun i : Fin n => lam.getD i 0)) = -D :=
  psd_matrix_step R Ri lam D DZ hinv hne

/-- [R] **PSD: the step of `DefaultKKTSystem::solve` satisfies the linearised complementarity
equation, for any right-hand side `d = rhs.s`**, on the PSD model's own array functions
(`PsdTri.mulHs`, `dsFromDzOffset`, `mulW`, `mulWinv`, `circOp`; C13), conditional on the LAPACK
contract `R·R⁻¹ = I` (conclusion of C13 `psd_assemble_nt`) and `λᵢ + λⱼ ≠ 0` (positive singular
values).  All five calls succeed and, with `h = mul_Hs(Δz)`, `c = Δs_from_Δz_offset(d)`,
`Δs = −1·c + (−1)·h`, `p = WΔz`, `r = W⁻ᵀΔs`:

  `λ ∘ (WΔz + W⁻ᵀΔs) = −d`   (`λ` in vector form `svec(diag λ)`). -/
theorem psd_combined_step_general (K : PsdTri.Cone ℝ) (d dz y y' : Array ℝ)
    (hR : K.R.size = K.n * K.n) (hRi : K.Rinv.size = K.n * K.n) (hl : K.lam.size = K.n)
    (hd : d.size = PsdIndex.triangularNumber K.n) (hdz : dz.size = PsdIndex.triangularNumber K.n)
    (hy : y.size = PsdIndex.triangularNumber K.n) (hy' : y'.size = PsdIndex.triangularNumber K.n)
    (hinv : toM K.n (matOf K.n K.R) * toM K.n (matOf K.n K.Rinv) = 1)
    (hne : ∀ i j, i < K.n → j < K.n → K.lam.getD i 0 + K.lam.getD j 0 ≠ 0) :
    ∃ h c p r, PsdTri.mulHs K dz = .ok h ∧ PsdTri.dsFromDzOffset K d = .ok c ∧
      mulW K false y dz 1 0 = .ok p ∧
      mulWinv K true y' (Vec.axpby (-1) c (-1) h) 1 0 = .ok r ∧
      PsdTri.circOp K.n (lamVec K.n K.lam) (Vec.waxpby 1 p 1 r) = .ok (Vec.negate d) :=
  psd_step_general K d dz y y' hR hRi hl hd hdz hy hy' hinv hne

/-- [R] **PSD: the combined step satisfies the linearised complementarity equation exactly.**
Under the same contracts, `combined_step_rhs` leaves `d = rhs.s = 1·shift + 1·affine_ds` with
`(shift, step_z, step_s) = combined_ds_shift(Δzᵃ, Δsᵃ, σμ)` (`Δzᵃ` already scaled by the damping
`m`) and `affine_ds = λ∘λ`; `DefaultKKTSystem::solve` computes
`Δs = −1·Δs_from_Δz_offset(d) + (−1)·mul_Hs(Δz)`.  All calls succeed and, for every `Δz`,

  `λ ∘ (WΔz + W⁻ᵀΔs) = −d`,   `mat(d) = (W⁻ᵀΔsᵃ)∘(WΔzᵃ) − σμ·I + Λ²`,

i.e. `λ ∘ (WΔz + W⁻ᵀΔs) = σμe − λ∘λ − (W⁻ᵀΔsᵃ)∘(WΔzᵃ)`, with `WΔzᵃ = RᵀΔZᵃR`,
`W⁻ᵀΔsᵃ = R⁻¹ΔSᵃR⁻ᵀ` and `A∘B = ½(AB + BA)`. -/
theorem psd_combined_step_equation (K : PsdTri.Cone ℝ) (dza dsa dz y y' : Array ℝ) (σμ : ℝ)
    (hR : K.R.size = K.n * K.n) (hRi : K.Rinv.size = K.n * K.n) (hl : K.lam.size = K.n)
    (hza : dza.size = PsdIndex.triangularNumber K.n) (hsa : dsa.size = PsdIndex.triangularNumber K.n)
    (hdz : dz.size = PsdIndex.triangularNumber K.n)
    (hy : y.size = PsdIndex.triangularNumber K.n) (hy' : y'.size = PsdIndex.triangularNumber K.n)
    (hinv : toM K.n (matOf K.n K.R) * toM K.n (matOf K.n K.Rinv) = 1)
    (hne : ∀ i j, i < K.n → j < K.n → K.lam.getD i 0 + K.lam.getD j 0 ≠ 0) :
    ∃ sh wz ws aff h c p r,
      PsdTri.combinedDsShift K dza dsa σμ = .ok (sh, wz, ws) ∧
      PsdTri.affineDs K (PsdIndex.triangularNumber K.n) = .ok aff ∧
      PsdTri.circOp K.n (lamVec K.n K.lam) (lamVec K.n K.lam) = .ok aff ∧
      PsdTri.mulHs K dz = .ok h ∧
      PsdTri.dsFromDzOffset K (Vec.axpby 1 sh 1 aff) = .ok c ∧
      mulW K false y dz 1 0 = .ok p ∧
      mulWinv K true y' (Vec.axpby (-1) c (-1) h) 1 0 = .ok r ∧
      PsdTri.circOp K.n (lamVec K.n K.lam) (Vec.waxpby 1 p 1 r)
        = .ok (Vec.negate (Vec.axpby 1 sh 1 aff)) ∧
      toM K.n (svecToMat (Vec.axpby 1 sh 1 aff))
        = (1 / 2 : ℝ) •
            ((toM K.n (matOf K.n K.Rinv) * toM K.n (svecToMat dsa) * (toM K.n (matOf K.n K.Rinv))ᵀ)
              * ((toM K.n (matOf K.n K.R))ᵀ * toM K.n (svecToMat dza) * toM K.n (matOf K.n K.R))
            + ((toM K.n (matOf K.n K.R))ᵀ * toM K.n (svecToMat dza) * toM K.n (matOf K.n K.R))
              * (toM K.n (matOf K.n K.Rinv) * toM K.n (svecToMat dsa) * (toM K.n (matOf K.n K.Rinv))ᵀ))
          - σμ • (1 : Matrix (Fin K.n) (Fin K.n) ℝ)
          + Matrix.diagonal (fun i : Fin K.n => K.lam.getD i 0)
            * Matrix.diagonal (fun i : Fin K.n => K.lam.getD i 0) :=
  psd_combined_step K dza dsa dz y y' σμ hR hRi hl hza hsa hdz hy hy' hinv hne

/-- non-vacuity of `psd_combined_step_general` / `psd_combined_step_equation` (and of
`psd_matrix_combined_step` with `R = (2)`, `R⁻¹ = (1/2)`): `n = 1`, `R = (2)`, `R⁻¹ = (1/2)`,
`λ = (1)`; vectors of length `1 = n(n+1)/2` -/
example : ∃ K : PsdTri.Cone ℝ, K.R.size = K.n * K.n ∧ K.Rinv.size = K.n * K.n ∧ K.lam.size = K.n ∧
    (#[3] : Array ℝ).size = PsdIndex.triangularNumber K.n ∧
    toM K.n (matOf K.n K.R) * toM K.n (matOf K.n K.Rinv) = 1 ∧
    (∀ i j, i < K.n → j < K.n → K.lam.getD i 0 + K.lam.getD j 0 ≠ 0) := by
  refine ⟨⟨1, #[1], #[1], #[2], #[1 / 2], #[1]⟩, rfl, rfl, rfl, rfl, ?_, ?_⟩
  · ext i j
    fin_cases i; fin_cases j
    simp [Matrix.mul_apply, toM, matOf]
  · intro i j hi hj
    have hi' : i = 0 := by simp at hi; omega
    have hj' : j = 0 := by simp at hj; omega
    subst hi' hj'
    simp

end cones5

/-! ## Round 5: the contract of `_csc_quad_form` discharged (`hqf` dropped from the `_array` theorems) -/
section array_qf
variable {n m : ℕ}

/-- [F] **the contract of `_csc_quad_form`** (hypothesis `hqf` of the `_array` theorems): for a
canonical, square (`n × n`), upper-triangular CSC matrix `Pc` and vectors of length `n`, the model
`KktSystem.quadForm` of `_csc_quad_form` (the function the `kkt.quad_form` channel compares with the
code) returns `yᵀ·Sym(Pc)·x`, `Sym(Pc) = KktSystem.symMat Pc n` the symmetric matrix whose upper
triangle `Pc` stores — and that matrix is symmetric.  (Proved by showing `KktSystem.quadForm` equal
to C16's list-form `Csc.quadForm` on such inputs, `KktSystem.quadForm_eq_csc`, then
`C16.quadForm_spec`.) -/
theorem quad_form_contract (Pc : Csc ℝ) (hPc : C16.Canonical Pc) (hPm : Pc.m = n) (hPn : Pc.n = n)
    (hPt : Pc.isTriu = true) :
    (∀ a b : Array ℝ, a.size = n → b.size = n →
      KktSystem.quadForm Pc a b = .ok (toFn a n ⬝ᵥ KktSystem.symMat Pc n *ᵥ toFn b n))
    ∧ (KktSystem.symMat Pc n)ᵀ = KktSystem.symMat Pc n :=
  ⟨KktSystem.quadForm_dense_real Pc hPc hPm hPn hPt, KktSystem.symMat_transpose Pc n⟩

/-- [S] (any scalar type, also `Float`) on canonical square upper-triangular input with vectors of
the right length, the for-loop model `KktSystem.quadForm` and C16's list model `Csc.quadForm` of
`_csc_quad_form` are the same function (success path; the panic messages differ). -/
theorem quad_form_models_agree {α : Type} [Add α] [Sub α] [Mul α] [Div α] [Neg α] [BEq α] [OfNat α 0]
    [OfNat α 1] (M : Csc α) (y x : Array α) (hM : C16.Canonical M) (hsq : M.m = M.n)
    (htri : M.isTriu = true) (hx : x.size = M.n) (hy : y.size = M.n) :
    KktSystem.quadForm M y x = Csc.quadForm M y x :=
  KktSystem.quadForm_eq_csc M y x hM hsq htri hx hy

/-- non-vacuity: the upper triangle of `[[2,1],[1,3]]` is canonical, square, upper triangular, and
its `symMat` is that matrix -/
example : C16.Canonical KktSystem.exP2 ∧ KktSystem.exP2.m = 2 ∧ KktSystem.exP2.n = 2
    ∧ KktSystem.exP2.isTriu = true :=
  ⟨KktSystem.exP2_canonical, rfl, rfl, rfl⟩

/-- [R] **`reduced_solve_is_newton_array` without the hypothesis `hqf`**: the contract of
`_csc_quad_form` is now a theorem (`KktSystem.quadForm_dense`: for a canonical, square,
upper-triangular CSC matrix `Pc` — what `P.to_triu()` stores — `KktSystem.quadForm Pc y x` is
`yᵀ·Sym(Pc)·x` with `Sym(Pc) = Pc + Pcᵀ − diag Pc = KktSystem.symMat Pc n`, a symmetric matrix).  So
`P` is no longer a free symmetric matrix tied to `Pc` by a hypothesis: it IS the dense symmetric
matrix of the stored triangle. -/
theorem reduced_solve_is_newton_array' (A : Matrix (Fin m) (Fin n) ℝ) (Pc : Csc ℝ)
    (hPc : C16.Canonical Pc) (hPm : Pc.m = n) (hPn : Pc.n = n) (hPt : Pc.isTriu = true)
    (mask : List Bool) (q b : Array ℝ) (vars rhs : Vars ℝ) (affine : Bool) (x1 z1 x2 z2 : Array ℝ)
    (hm : mask.length = m) (hq : q.size = n) (hb : b.size = m) (hvx : vars.x.size = n)
    (hvs : vars.s.size = m) (hvz : vars.z.size = m) (hrx : rhs.x.size = n) (hrs : rhs.s.size = m)
    (hrz : rhs.z.size = m) (hx1 : x1.size = n) (hz1 : z1.size = m) (hx2 : x2.size = n)
    (hz2 : z2.size = m) (hτ : vars.τ ≠ 0) (hint : NNInterior mask vars.s vars.z m)
    (h1x : (KktSystem.symMat Pc n) *ᵥ toFn x1 n + Aᵀ *ᵥ toFn z1 m = toFn rhs.x n)
    (h1z : A *ᵥ toFn x1 n - Hnn mask vars.s vars.z m *ᵥ toFn z1 m
      = dsConstFn mask vars rhs affine m - toFn rhs.z m)
    (h2x : (KktSystem.symMat Pc n) *ᵥ toFn x2 n + Aᵀ *ᵥ toFn z2 m = -toFn q n)
    (h2z : A *ᵥ toFn x2 n - Hnn mask vars.s vars.z m *ᵥ toFn z2 m = toFn b m)
    (hden : KktSystem.tauDen vars.κ vars.τ (toFn q n ⬝ᵥ toFn x2 n) (toFn b m ⬝ᵥ toFn z2 m)
        (((-1 : ℝ) • toFn x2 n + (1 : ℝ) • ((1 / vars.τ) • toFn vars.x n)) ⬝ᵥ
          (KktSystem.symMat Pc n) *ᵥ ((-1 : ℝ) • toFn x2 n + (1 : ℝ) • ((1 / vars.τ) • toFn vars.x n)))
        (toFn x2 n ⬝ᵥ (KktSystem.symMat Pc n) *ᵥ toFn x2 n) ≠ 0) :
    ∃ lhs wx wz,
      KktSystem.solveNN Pc mask (updateScaling mask vars.s vars.z).2 q b vars rhs affine x1 z1 x2 z2
        = .ok (lhs, wx, wz)
      ∧ lhs.x.size = n ∧ lhs.s.size = m ∧ lhs.z.size = m
      ∧ IsNewtonStep (KktSystem.symMat Pc n) A (Hnn mask vars.s vars.z m) (toFn q n) (toFn b m) (toFn vars.x n) vars.τ
          vars.κ (toFn rhs.x n) (toFn rhs.z m) rhs.τ (dsConstFn mask vars rhs affine m) rhs.κ
          ⟨toFn lhs.x n, toFn lhs.s m, toFn lhs.z m, lhs.τ, lhs.κ⟩ :=
  reduced_solve_is_newton_array (KktSystem.symMat Pc n) (KktSystem.symMat_transpose Pc n) A Pc
    (KktSystem.quadForm_dense_real Pc hPc hPm hPn hPt) mask q b vars rhs affine x1 z1 x2 z2 hm hq hb hvx hvs hvz hrx hrs hrz hx1 hz1 hx2 hz2 hτ hint h1x h1z h2x h2z hden

/-- [R] `residual_contraction_array` without `hqf` (`P := KktSystem.symMat Pc n`, the symmetric
matrix whose upper triangle `Pc` stores; `Pc` canonical, square, upper triangular). -/
theorem residual_contraction_array' (A : Matrix (Fin m) (Fin n) ℝ) (Pc : Csc ℝ)
    (hPc : C16.Canonical Pc) (hPm : Pc.m = n) (hPn : Pc.n = n) (hPt : Pc.isTriu = true)
    (mask : List Bool) (q b rx rz : Array ℝ) (rτ : ℝ) (vars stepa rhs : Vars ℝ) (σ μ mm a : ℝ)
    (x1 z1 x2 z2 : Array ℝ)
    (hm : mask.length = m) (hq : q.size = n) (hb : b.size = m) (hvx : vars.x.size = n)
    (hvs : vars.s.size = m) (hvz : vars.z.size = m) (hrx : rx.size = n) (hrz : rz.size = m)
    (has : stepa.s.size = m) (haz : stepa.z.size = m)
    (hx1 : x1.size = n) (hz1 : z1.size = m) (hx2 : x2.size = n)
    (hz2 : z2.size = m) (hτ : vars.τ ≠ 0) (hint : NNInterior mask vars.s vars.z m)
    (hrX : toFn rx n = resX (KktSystem.symMat Pc n) A (toFn q n) (toFn vars.x n) (toFn vars.z m) vars.τ)
    (hrZ : toFn rz m = resZ A (toFn b m) (toFn vars.x n) (toFn vars.s m) vars.τ)
    (hrT : rτ = resT (KktSystem.symMat Pc n) (toFn q n) (toFn b m) (toFn vars.x n) (toFn vars.z m) vars.τ vars.κ)
    (hrhs : rhs = (combinedStepRhs mask (updateScaling mask vars.s vars.z).2
      (affineStepRhs mask rx rz rτ (updateScaling mask vars.s vars.z).1 vars) rx rz rτ vars stepa
      σ μ mm).1)
    (h1x : (KktSystem.symMat Pc n) *ᵥ toFn x1 n + Aᵀ *ᵥ toFn z1 m = toFn rhs.x n)
    (h1z : A *ᵥ toFn x1 n - Hnn mask vars.s vars.z m *ᵥ toFn z1 m
      = dsConstFn mask vars rhs false m - toFn rhs.z m)
    (h2x : (KktSystem.symMat Pc n) *ᵥ toFn x2 n + Aᵀ *ᵥ toFn z2 m = -toFn q n)
    (h2z : A *ᵥ toFn x2 n - Hnn mask vars.s vars.z m *ᵥ toFn z2 m = toFn b m)
    (hden : KktSystem.tauDen vars.κ vars.τ (toFn q n ⬝ᵥ toFn x2 n) (toFn b m ⬝ᵥ toFn z2 m)
        (((-1 : ℝ) • toFn x2 n + (1 : ℝ) • ((1 / vars.τ) • toFn vars.x n)) ⬝ᵥ
          (KktSystem.symMat Pc n) *ᵥ ((-1 : ℝ) • toFn x2 n + (1 : ℝ) • ((1 / vars.τ) • toFn vars.x n)))
        (toFn x2 n ⬝ᵥ (KktSystem.symMat Pc n) *ᵥ toFn x2 n) ≠ 0) :
    ∃ lhs wx wz,
      KktSystem.solveNN Pc mask (updateScaling mask vars.s vars.z).2 q b vars rhs false x1 z1 x2 z2
        = .ok (lhs, wx, wz)
      ∧ (vars.τ + a * lhs.τ ≠ 0 →
        resX (KktSystem.symMat Pc n) A (toFn q n) (toFn (addStep vars lhs a).x n) (toFn (addStep vars lhs a).z m)
            (addStep vars lhs a).τ = (1 - a * (1 - σ)) • toFn rx n
        ∧ resZ A (toFn b m) (toFn (addStep vars lhs a).x n) (toFn (addStep vars lhs a).s m)
            (addStep vars lhs a).τ = (1 - a * (1 - σ)) • toFn rz m
        ∧ resT (KktSystem.symMat Pc n) (toFn q n) (toFn b m) (toFn (addStep vars lhs a).x n)
            (toFn (addStep vars lhs a).z m) (addStep vars lhs a).τ (addStep vars lhs a).κ
          = (1 - a * (1 - σ)) * rτ
            + a ^ 2 * ((toFn lhs.x n - lhs.τ • ((1 / vars.τ) • toFn vars.x n)) ⬝ᵥ
                (KktSystem.symMat Pc n) *ᵥ (toFn lhs.x n - lhs.τ • ((1 / vars.τ) • toFn vars.x n)))
              / (vars.τ + a * lhs.τ)) :=
  residual_contraction_array (KktSystem.symMat Pc n) (KktSystem.symMat_transpose Pc n) A Pc
    (KktSystem.quadForm_dense_real Pc hPc hPm hPn hPt) mask q b rx rz rτ vars stepa rhs σ μ mm a x1 z1 x2 z2 hm hq hb hvx hvs hvz hrx hrz has haz hx1 hz1 hx2 hz2 hτ hint hrX hrZ hrT hrhs h1x h1z h2x h2z hden

/-- [R] `mu_update_nn_array` without `hqf` (`P := KktSystem.symMat Pc n`). -/
theorem mu_update_nn_array' (A : Matrix (Fin m) (Fin n) ℝ) (Pc : Csc ℝ)
    (hPc : C16.Canonical Pc) (hPm : Pc.m = n) (hPn : Pc.n = n) (hPt : Pc.isTriu = true)
    (mask : List Bool) (q b rx rz : Array ℝ) (rτ : ℝ) (vars stepa rhs : Vars ℝ) (σ μ mm a : ℝ)
    (x1 z1 x2 z2 : Array ℝ)
    (hm : mask.length = m) (hq : q.size = n) (hb : b.size = m) (hvx : vars.x.size = n)
    (hvs : vars.s.size = m) (hvz : vars.z.size = m) (hrx : rx.size = n) (hrz : rz.size = m)
    (has : stepa.s.size = m) (haz : stepa.z.size = m)
    (hx1 : x1.size = n) (hz1 : z1.size = m) (hx2 : x2.size = n)
    (hz2 : z2.size = m) (hτ : vars.τ ≠ 0) (hint : NNInterior mask vars.s vars.z m)
    (hzero : ∀ i : Fin m, maskFn mask m i = false → toFn vars.s m i = 0)
    (hμ : μ = calcMu (Vec.dot vars.s vars.z) vars.τ vars.κ (mask.count true))
    (hrhs : rhs = (combinedStepRhs mask (updateScaling mask vars.s vars.z).2
      (affineStepRhs mask rx rz rτ (updateScaling mask vars.s vars.z).1 vars) rx rz rτ vars stepa
      σ μ mm).1)
    (h1x : (KktSystem.symMat Pc n) *ᵥ toFn x1 n + Aᵀ *ᵥ toFn z1 m = toFn rhs.x n)
    (h1z : A *ᵥ toFn x1 n - Hnn mask vars.s vars.z m *ᵥ toFn z1 m
      = dsConstFn mask vars rhs false m - toFn rhs.z m)
    (h2x : (KktSystem.symMat Pc n) *ᵥ toFn x2 n + Aᵀ *ᵥ toFn z2 m = -toFn q n)
    (h2z : A *ᵥ toFn x2 n - Hnn mask vars.s vars.z m *ᵥ toFn z2 m = toFn b m)
    (hden : KktSystem.tauDen vars.κ vars.τ (toFn q n ⬝ᵥ toFn x2 n) (toFn b m ⬝ᵥ toFn z2 m)
        (((-1 : ℝ) • toFn x2 n + (1 : ℝ) • ((1 / vars.τ) • toFn vars.x n)) ⬝ᵥ
          (KktSystem.symMat Pc n) *ᵥ ((-1 : ℝ) • toFn x2 n + (1 : ℝ) • ((1 / vars.τ) • toFn vars.x n)))
        (toFn x2 n ⬝ᵥ (KktSystem.symMat Pc n) *ᵥ toFn x2 n) ≠ 0) :
    ∃ lhs wx wz,
      KktSystem.solveNN Pc mask (updateScaling mask vars.s vars.z).2 q b vars rhs false x1 z1 x2 z2
        = .ok (lhs, wx, wz)
      ∧ calcMu (Vec.dot (addStep vars lhs a).s (addStep vars lhs a).z) (addStep vars lhs a).τ
          (addStep vars lhs a).κ (mask.count true)
        = (1 - a * (1 - σ)) * μ
          - a * mm * ((∑ i : Fin m, if maskFn mask m i then toFn stepa.s m i * toFn stepa.z m i else 0)
              + stepa.τ * stepa.κ) / ((mask.count true : ℝ) + 1)
          + a ^ 2 * (toFn lhs.s m ⬝ᵥ toFn lhs.z m + lhs.τ * lhs.κ) / ((mask.count true : ℝ) + 1) :=
  mu_update_nn_array (KktSystem.symMat Pc n) (KktSystem.symMat_transpose Pc n) A Pc
    (KktSystem.quadForm_dense_real Pc hPc hPm hPn hPt) mask q b rx rz rτ vars stepa rhs σ μ mm a x1 z1 x2 z2 hm hq hb hvx hvs hvz hrx hrz has haz hx1 hz1 hx2 hz2 hτ hint hzero hμ hrhs h1x h1z h2x h2z hden

/-- [R] `residual_contraction_affine_array` without `hqf` (`P := KktSystem.symMat Pc n`). -/
theorem residual_contraction_affine_array' (A : Matrix (Fin m) (Fin n) ℝ) (Pc : Csc ℝ)
    (hPc : C16.Canonical Pc) (hPm : Pc.m = n) (hPn : Pc.n = n) (hPt : Pc.isTriu = true)
    (mask : List Bool) (q b rx rz : Array ℝ) (rτ : ℝ) (vars rhs : Vars ℝ) (a : ℝ)
    (x1 z1 x2 z2 : Array ℝ)
    (hm : mask.length = m) (hq : q.size = n) (hb : b.size = m) (hvx : vars.x.size = n)
    (hvs : vars.s.size = m) (hvz : vars.z.size = m) (hrx : rx.size = n) (hrz : rz.size = m)
    (hx1 : x1.size = n) (hz1 : z1.size = m) (hx2 : x2.size = n)
    (hz2 : z2.size = m) (hτ : vars.τ ≠ 0) (hint : NNInterior mask vars.s vars.z m)
    (hrX : toFn rx n = resX (KktSystem.symMat Pc n) A (toFn q n) (toFn vars.x n) (toFn vars.z m) vars.τ)
    (hrZ : toFn rz m = resZ A (toFn b m) (toFn vars.x n) (toFn vars.s m) vars.τ)
    (hrT : rτ = resT (KktSystem.symMat Pc n) (toFn q n) (toFn b m) (toFn vars.x n) (toFn vars.z m) vars.τ vars.κ)
    (hrhs : rhs = affineStepRhs mask rx rz rτ (updateScaling mask vars.s vars.z).1 vars)
    (h1x : (KktSystem.symMat Pc n) *ᵥ toFn x1 n + Aᵀ *ᵥ toFn z1 m = toFn rhs.x n)
    (h1z : A *ᵥ toFn x1 n - Hnn mask vars.s vars.z m *ᵥ toFn z1 m
      = dsConstFn mask vars rhs true m - toFn rhs.z m)
    (h2x : (KktSystem.symMat Pc n) *ᵥ toFn x2 n + Aᵀ *ᵥ toFn z2 m = -toFn q n)
    (h2z : A *ᵥ toFn x2 n - Hnn mask vars.s vars.z m *ᵥ toFn z2 m = toFn b m)
    (hden : KktSystem.tauDen vars.κ vars.τ (toFn q n ⬝ᵥ toFn x2 n) (toFn b m ⬝ᵥ toFn z2 m)
        (((-1 : ℝ) • toFn x2 n + (1 : ℝ) • ((1 / vars.τ) • toFn vars.x n)) ⬝ᵥ
          (KktSystem.symMat Pc n) *ᵥ ((-1 : ℝ) • toFn x2 n + (1 : ℝ) • ((1 / vars.τ) • toFn vars.x n)))
        (toFn x2 n ⬝ᵥ (KktSystem.symMat Pc n) *ᵥ toFn x2 n) ≠ 0) :
    ∃ lhs wx wz,
      KktSystem.solveNN Pc mask (updateScaling mask vars.s vars.z).2 q b vars rhs true x1 z1 x2 z2
        = .ok (lhs, wx, wz)
      ∧ (vars.τ + a * lhs.τ ≠ 0 →
        resX (KktSystem.symMat Pc n) A (toFn q n) (toFn (addStep vars lhs a).x n) (toFn (addStep vars lhs a).z m)
            (addStep vars lhs a).τ = (1 - a) • toFn rx n
        ∧ resZ A (toFn b m) (toFn (addStep vars lhs a).x n) (toFn (addStep vars lhs a).s m)
            (addStep vars lhs a).τ = (1 - a) • toFn rz m
        ∧ resT (KktSystem.symMat Pc n) (toFn q n) (toFn b m) (toFn (addStep vars lhs a).x n)
            (toFn (addStep vars lhs a).z m) (addStep vars lhs a).τ (addStep vars lhs a).κ
          = (1 - a) * rτ
            + a ^ 2 * ((toFn lhs.x n - lhs.τ • ((1 / vars.τ) • toFn vars.x n)) ⬝ᵥ
                (KktSystem.symMat Pc n) *ᵥ (toFn lhs.x n - lhs.τ • ((1 / vars.τ) • toFn vars.x n)))
              / (vars.τ + a * lhs.τ)) :=
  residual_contraction_affine_array (KktSystem.symMat Pc n) (KktSystem.symMat_transpose Pc n) A Pc
    (KktSystem.quadForm_dense_real Pc hPc hPm hPn hPt) mask q b rx rz rτ vars rhs a x1 z1 x2 z2 hm hq hb hvx hvs hvz hrx hrz hx1 hz1 hx2 hz2 hτ hint hrX hrZ hrT hrhs h1x h1z h2x h2z hden

end array_qf

/-! ## Round 6: one accepted pass of the whole-solver model (zero / nonnegative / second-order cones)

`Solver.pass` (`ClarabelModel/Solver/Solve.lean`) is the model of one pass of `loop { … }` in
`solve()` whose whole trajectories the `solve.full` channel ties bit-for-bit to the implementation.
The `_array` theorems above are about `Step.lean` (zero + nonnegative cones); the two theorems below
state the same facts for that function, second-order cones included.  Hypotheses: the size
invariant `PassShape` of the state, `P` stored as an upper triangle, and exactness of the two reduced
solves whose results the pass leaves in `kktsystem.{x2,z2}` (constant right-hand side `(−q, b)`,
solved in `kktsystem.update`) and `kktsystem.{x1,z1}` (the combined right-hand side), for the matrix
`[P Aᵀ; A −Hs]`, `Hs = Solver.hsMat cones` the dense matrix of the scaled cones' `mul_Hs`
(`Solver.mulHs_hsMat`). -/
section pass
open Clarabel.Solver

/-- [R] **One accepted pass of the whole-solver model takes the Newton step.**  If
`pass st L = .ok (true, L')` (the pass fell through to `add_step`) and the two reduced solves were
exact, the direction left in `L'.S.stepLhs` solves the full five-block linearised system of the
homogeneous embedding at the old iterate, with right-hand side `(1−σ)·(rx, rz, rτ)`, `σ = L'.sigma`,
and the new iterate is `add_step(α)` of the old one along it, `α = L'.alpha`. -/
theorem pass_is_newton_step {st : Settings ℝ} {L L' : LoopSt ℝ} {n m : ℕ} (hS : PassShape L.S n m)
    (hPt : L.S.data.P.isTriu = true) (hp : pass st L = .ok (true, L'))
    (hτ : L.S.variables.τ ≠ 0)
    (h1x : KktSystem.symMat L.S.data.P n *ᵥ toFn L'.S.kktsystem.x1 n
        + (denseA L.S.data.A m n)ᵀ *ᵥ toFn L'.S.kktsystem.z1 m = toFn L'.S.stepRhs.x n)
    (h1z : denseA L.S.data.A m n *ᵥ toFn L'.S.kktsystem.x1 n
        - hsMat L'.S.cones m *ᵥ toFn L'.S.kktsystem.z1 m
        = toFn L'.S.kktsystem.workConic m - toFn L'.S.stepRhs.z m)
    (h2x : KktSystem.symMat L.S.data.P n *ᵥ toFn L'.S.kktsystem.x2 n
        + (denseA L.S.data.A m n)ᵀ *ᵥ toFn L'.S.kktsystem.z2 m = -toFn L.S.data.q n)
    (h2z : denseA L.S.data.A m n *ᵥ toFn L'.S.kktsystem.x2 n
        - hsMat L'.S.cones m *ᵥ toFn L'.S.kktsystem.z2 m = toFn L.S.data.b m)
    (hden : KktSystem.tauDen L.S.variables.κ L.S.variables.τ
        (toFn L.S.data.q n ⬝ᵥ toFn L'.S.kktsystem.x2 n) (toFn L.S.data.b m ⬝ᵥ toFn L'.S.kktsystem.z2 m)
        (((-1 : ℝ) • toFn L'.S.kktsystem.x2 n + (1 : ℝ) • ((1 / L.S.variables.τ) • toFn L.S.variables.x n)) ⬝ᵥ
          KktSystem.symMat L.S.data.P n *ᵥ ((-1 : ℝ) • toFn L'.S.kktsystem.x2 n
            + (1 : ℝ) • ((1 / L.S.variables.τ) • toFn L.S.variables.x n)))
        (toFn L'.S.kktsystem.x2 n ⬝ᵥ KktSystem.symMat L.S.data.P n *ᵥ toFn L'.S.kktsystem.x2 n) ≠ 0) :
    IsNewtonStep (KktSystem.symMat L.S.data.P n) (denseA L.S.data.A m n) (hsMat L'.S.cones m)
        (toFn L.S.data.q n) (toFn L.S.data.b m) (toFn L.S.variables.x n) L.S.variables.τ L.S.variables.κ
        ((1 - L'.sigma) • resX (KktSystem.symMat L.S.data.P n) (denseA L.S.data.A m n) (toFn L.S.data.q n)
          (toFn L.S.variables.x n) (toFn L.S.variables.z m) L.S.variables.τ)
        ((1 - L'.sigma) • resZ (denseA L.S.data.A m n) (toFn L.S.data.b m) (toFn L.S.variables.x n)
          (toFn L.S.variables.s m) L.S.variables.τ)
        ((1 - L'.sigma) * resT (KktSystem.symMat L.S.data.P n) (toFn L.S.data.q n) (toFn L.S.data.b m)
          (toFn L.S.variables.x n) (toFn L.S.variables.z m) L.S.variables.τ L.S.variables.κ)
        (toFn L'.S.kktsystem.workConic m) L'.S.stepRhs.κ
        ⟨toFn L'.S.stepLhs.x n, toFn L'.S.stepLhs.s m, toFn L'.S.stepLhs.z m, L'.S.stepLhs.τ,
          L'.S.stepLhs.κ⟩
    ∧ toFn L'.S.variables.x n = toFn L.S.variables.x n + L'.alpha • toFn L'.S.stepLhs.x n
    ∧ toFn L'.S.variables.s m = toFn L.S.variables.s m + L'.alpha • toFn L'.S.stepLhs.s m
    ∧ toFn L'.S.variables.z m = toFn L.S.variables.z m + L'.alpha • toFn L'.S.stepLhs.z m
    ∧ L'.S.variables.τ = L.S.variables.τ + L'.alpha * L'.S.stepLhs.τ
    ∧ L'.S.variables.κ = L.S.variables.κ + L'.alpha * L'.S.stepLhs.κ := by
  obtain ⟨res, ys, an⟩ := pass_step_anatomy hS hp
  have hH : ∀ v : Array ℝ, v.size = m → (mulHsT L'.S.cones ys v).size = m
      ∧ toFn (mulHsT L'.S.cones ys v) m = hsMat L'.S.cones m *ᵥ toFn v m := by
    intro v hv
    obtain ⟨r, hr, hrs, hrv⟩ := mulHs_hsMat an.conesFull an.numel ys v an.ys_size hv
    rw [mulHsT_ok hr]
    exact ⟨hrs, hrv⟩
  obtain ⟨lhs, wx, wz, hrun, hN⟩ := solveAssemble_is_newton (KktSystem.symMat L.S.data.P n)
    (KktSystem.symMat_transpose _ n) (denseA L.S.data.A m n) (hsMat L'.S.cones m)
    (KktSystem.quadForm L.S.data.P) (mulHsT L'.S.cones ys)
    (KktSystem.quadForm_dense_real L.S.data.P hS.canP hS.Pm hS.Pn hPt) hH L.S.data.q L.S.data.b
    (toStep L.S.variables) (toStep L'.S.stepRhs) L'.S.kktsystem.workConic L'.S.kktsystem.x1
    L'.S.kktsystem.z1 L'.S.kktsystem.x2 L'.S.kktsystem.z2 hS.q hS.b hS.vx an.rhs_x_size an.rhs_z_size
    an.wc an.x1 an.z1 an.x2 an.z2 hτ h1x h1z h2x h2z hden
  rw [an.assemble] at hrun
  simp only [Except.ok.injEq, Prod.mk.injEq] at hrun
  obtain ⟨e, _, _⟩ := hrun
  subst e
  obtain ⟨_, _, _, ex, es, ez, eτ, eκ⟩ := addStep_dense an.step hS.vx hS.vs hS.vz
  refine ⟨?_, ex, es, ez, eτ, eκ⟩
  have e1 : toFn (toStep L'.S.stepRhs).x n = (1 - L'.sigma) • resX (KktSystem.symMat L.S.data.P n)
      (denseA L.S.data.A m n) (toFn L.S.data.q n) (toFn L.S.variables.x n) (toFn L.S.variables.z m)
      L.S.variables.τ := by
    show toFn L'.S.stepRhs.x n = _
    rw [an.rhs_x, an.rx]; rfl
  have e2 : toFn (toStep L'.S.stepRhs).z m = (1 - L'.sigma) • resZ (denseA L.S.data.A m n)
      (toFn L.S.data.b m) (toFn L.S.variables.x n) (toFn L.S.variables.s m) L.S.variables.τ := by
    show toFn L'.S.stepRhs.z m = _
    rw [an.rhs_z, an.rz]; rfl
  have e3 : (toStep L'.S.stepRhs).τ = (1 - L'.sigma) * resT (KktSystem.symMat L.S.data.P n)
      (toFn L.S.data.q n) (toFn L.S.data.b m) (toFn L.S.variables.x n) (toFn L.S.variables.z m)
      L.S.variables.τ L.S.variables.κ := by
    show L'.S.stepRhs.τ = _
    rw [an.rhs_τ, an.rτ]; rfl
  rw [e1, e2, e3] at hN
  exact hN

/-- [R] **Residual contraction for one accepted pass of the whole-solver model** (zero,
nonnegative and second-order cones).  Under the hypotheses of `pass_is_newton_step` (exactness of
the two reduced solves), the residuals `(rx, rz)` of the new iterate are `1 − α(1−σ)` times those
of the old one and `rτ` likewise up to the exact `P`-remainder, `α = L'.alpha`, `σ = L'.sigma`. -/
theorem pass_residual_contraction {st : Settings ℝ} {L L' : LoopSt ℝ} {n m : ℕ}
    (hS : PassShape L.S n m) (hPt : L.S.data.P.isTriu = true) (hp : pass st L = .ok (true, L'))
    (hτ : L.S.variables.τ ≠ 0) (hτ' : L'.S.variables.τ ≠ 0)
    (h1x : KktSystem.symMat L.S.data.P n *ᵥ toFn L'.S.kktsystem.x1 n
        + (denseA L.S.data.A m n)ᵀ *ᵥ toFn L'.S.kktsystem.z1 m = toFn L'.S.stepRhs.x n)
    (h1z : denseA L.S.data.A m n *ᵥ toFn L'.S.kktsystem.x1 n
        - hsMat L'.S.cones m *ᵥ toFn L'.S.kktsystem.z1 m
        = toFn L'.S.kktsystem.workConic m - toFn L'.S.stepRhs.z m)
    (h2x : KktSystem.symMat L.S.data.P n *ᵥ toFn L'.S.kktsystem.x2 n
        + (denseA L.S.data.A m n)ᵀ *ᵥ toFn L'.S.kktsystem.z2 m = -toFn L.S.data.q n)
    (h2z : denseA L.S.data.A m n *ᵥ toFn L'.S.kktsystem.x2 n
        - hsMat L'.S.cones m *ᵥ toFn L'.S.kktsystem.z2 m = toFn L.S.data.b m)
    (hden : KktSystem.tauDen L.S.variables.κ L.S.variables.τ
        (toFn L.S.data.q n ⬝ᵥ toFn L'.S.kktsystem.x2 n) (toFn L.S.data.b m ⬝ᵥ toFn L'.S.kktsystem.z2 m)
        (((-1 : ℝ) • toFn L'.S.kktsystem.x2 n + (1 : ℝ) • ((1 / L.S.variables.τ) • toFn L.S.variables.x n)) ⬝ᵥ
          KktSystem.symMat L.S.data.P n *ᵥ ((-1 : ℝ) • toFn L'.S.kktsystem.x2 n
            + (1 : ℝ) • ((1 / L.S.variables.τ) • toFn L.S.variables.x n)))
        (toFn L'.S.kktsystem.x2 n ⬝ᵥ KktSystem.symMat L.S.data.P n *ᵥ toFn L'.S.kktsystem.x2 n) ≠ 0) :
    resX (KktSystem.symMat L.S.data.P n) (denseA L.S.data.A m n) (toFn L.S.data.q n)
        (toFn L'.S.variables.x n) (toFn L'.S.variables.z m) L'.S.variables.τ
      = (1 - L'.alpha * (1 - L'.sigma)) • resX (KktSystem.symMat L.S.data.P n) (denseA L.S.data.A m n)
          (toFn L.S.data.q n) (toFn L.S.variables.x n) (toFn L.S.variables.z m) L.S.variables.τ
    ∧ resZ (denseA L.S.data.A m n) (toFn L.S.data.b m) (toFn L'.S.variables.x n)
        (toFn L'.S.variables.s m) L'.S.variables.τ
      = (1 - L'.alpha * (1 - L'.sigma)) • resZ (denseA L.S.data.A m n) (toFn L.S.data.b m)
          (toFn L.S.variables.x n) (toFn L.S.variables.s m) L.S.variables.τ
    ∧ resT (KktSystem.symMat L.S.data.P n) (toFn L.S.data.q n) (toFn L.S.data.b m)
        (toFn L'.S.variables.x n) (toFn L'.S.variables.z m) L'.S.variables.τ L'.S.variables.κ
      = (1 - L'.alpha * (1 - L'.sigma)) * resT (KktSystem.symMat L.S.data.P n) (toFn L.S.data.q n)
          (toFn L.S.data.b m) (toFn L.S.variables.x n) (toFn L.S.variables.z m) L.S.variables.τ
          L.S.variables.κ
        + L'.alpha ^ 2 * ((toFn L'.S.stepLhs.x n - L'.S.stepLhs.τ • ((1 / L.S.variables.τ) • toFn L.S.variables.x n)) ⬝ᵥ
            KktSystem.symMat L.S.data.P n *ᵥ (toFn L'.S.stepLhs.x n
              - L'.S.stepLhs.τ • ((1 / L.S.variables.τ) • toFn L.S.variables.x n)))
          / L'.S.variables.τ := by
  obtain ⟨hN, ex, es, ez, eτ, eκ⟩ := pass_is_newton_step hS hPt hp hτ h1x h1z h2x h2z hden
  have h := residual_contraction (KktSystem.symMat L.S.data.P n) (KktSystem.symMat_transpose _ n)
    (denseA L.S.data.A m n) (hsMat L'.S.cones m) (toFn L.S.data.q n) (toFn L.S.data.b m)
    (toFn L.S.variables.x n) (toFn L.S.variables.s m) (toFn L.S.variables.z m) L.S.variables.τ
    L.S.variables.κ L'.sigma L'.alpha (toFn L'.S.kktsystem.workConic m) L'.S.stepRhs.κ
    ⟨toFn L'.S.stepLhs.x n, toFn L'.S.stepLhs.s m, toFn L'.S.stepLhs.z m, L'.S.stepLhs.τ,
      L'.S.stepLhs.κ⟩ hτ (by rw [← eτ]; exact hτ') hN
  rw [ex, es, ez, eτ, eκ]
  exact h

/-- [R] **The `μ` update of one accepted pass of the whole-solver model** (partial: the
aggregated complementarity of the cones is a hypothesis).  Under the hypotheses of
`pass_is_newton_step`, with `μ = L'.mu` the value the pass recorded (`calc_mu` of the old iterate),
`ν = Σ degree`, `Cκ := rhs.κ + σμ − τκ` (`= m·Δτᵃ·Δκᵃ` by `combined_step_rhs`), if the combined step
satisfies the aggregated linearised complementarity `s·Δz + z·Δs = −(s·z + C − νσμ)` on the cone
rows (`C = m·Δsᵃ·Δzᵃ`; proved for the nonnegative cone in `mu_update_nn_array` and for the
second-order cone in `soc_combined_step_aggregated`, there on C13's core functions), then `calc_mu`
of the new iterate is

  `μ⁺ = (1 − α(1−σ)) μ − α (C + Cκ)/(ν+1) + α² (Δs·Δz + ΔτΔκ)/(ν+1)`;

the `κ` row `κΔτ + τΔκ = −rhs.κ` is derived from the model (no hypothesis), and
`newton_step_orthogonality` applied to `pass_is_newton_step` gives
`Δs·Δz + ΔτΔκ = dᵀPd − (1−σ)(Δx·rx + Δz·rz + Δτ·rτ)`.

Full statement (not proved here): the same without `hagg`, for every list of zero / nonnegative /
second-order cones with `s = 0` on the zero-cone rows and an interior iterate, `C` the sum of
`m·Δsᵃ·Δzᵃ` over the nonnegative and second-order rows — it needs the Nesterov–Todd identities
`Hs z = s`, `z·Δs_from_Δz_offset(d) = ⟨e, d⟩` of C13 on the composite arrays of `Solver/Cones.lean`. -/
theorem pass_mu_update_partial {st : Settings ℝ} {L L' : LoopSt ℝ} {n m : ℕ} (hS : PassShape L.S n m)
    (hPt : L.S.data.P.isTriu = true) (hp : pass st L = .ok (true, L'))
    (hτ : L.S.variables.τ ≠ 0)
    (h1x : KktSystem.symMat L.S.data.P n *ᵥ toFn L'.S.kktsystem.x1 n
        + (denseA L.S.data.A m n)ᵀ *ᵥ toFn L'.S.kktsystem.z1 m = toFn L'.S.stepRhs.x n)
    (h1z : denseA L.S.data.A m n *ᵥ toFn L'.S.kktsystem.x1 n
        - hsMat L'.S.cones m *ᵥ toFn L'.S.kktsystem.z1 m
        = toFn L'.S.kktsystem.workConic m - toFn L'.S.stepRhs.z m)
    (h2x : KktSystem.symMat L.S.data.P n *ᵥ toFn L'.S.kktsystem.x2 n
        + (denseA L.S.data.A m n)ᵀ *ᵥ toFn L'.S.kktsystem.z2 m = -toFn L.S.data.q n)
    (h2z : denseA L.S.data.A m n *ᵥ toFn L'.S.kktsystem.x2 n
        - hsMat L'.S.cones m *ᵥ toFn L'.S.kktsystem.z2 m = toFn L.S.data.b m)
    (hden : KktSystem.tauDen L.S.variables.κ L.S.variables.τ
        (toFn L.S.data.q n ⬝ᵥ toFn L'.S.kktsystem.x2 n) (toFn L.S.data.b m ⬝ᵥ toFn L'.S.kktsystem.z2 m)
        (((-1 : ℝ) • toFn L'.S.kktsystem.x2 n + (1 : ℝ) • ((1 / L.S.variables.τ) • toFn L.S.variables.x n)) ⬝ᵥ
          KktSystem.symMat L.S.data.P n *ᵥ ((-1 : ℝ) • toFn L'.S.kktsystem.x2 n
            + (1 : ℝ) • ((1 / L.S.variables.τ) • toFn L.S.variables.x n)))
        (toFn L'.S.kktsystem.x2 n ⬝ᵥ KktSystem.symMat L.S.data.P n *ᵥ toFn L'.S.kktsystem.x2 n) ≠ 0)
    (C : ℝ)
    (hagg : toFn L.S.variables.s m ⬝ᵥ toFn L'.S.stepLhs.z m + toFn L.S.variables.z m ⬝ᵥ toFn L'.S.stepLhs.s m
      = -(toFn L.S.variables.s m ⬝ᵥ toFn L.S.variables.z m + C
          - (degreeAll L.S.cones : ℝ) * (L'.sigma * L'.mu))) :
    L'.mu = (toFn L.S.variables.s m ⬝ᵥ toFn L.S.variables.z m + L.S.variables.τ * L.S.variables.κ)
        / ((degreeAll L.S.cones : ℝ) + 1)
    ∧ L.S.variables.κ * L'.S.stepLhs.τ + L.S.variables.τ * L'.S.stepLhs.κ = -L'.S.stepRhs.κ
    ∧ (toFn L'.S.variables.s m ⬝ᵥ toFn L'.S.variables.z m + L'.S.variables.τ * L'.S.variables.κ)
        / ((degreeAll L.S.cones : ℝ) + 1)
      = (1 - L'.alpha * (1 - L'.sigma)) * L'.mu
        - L'.alpha * (C + (L'.S.stepRhs.κ + L'.sigma * L'.mu - L.S.variables.τ * L.S.variables.κ))
            / ((degreeAll L.S.cones : ℝ) + 1)
        + L'.alpha ^ 2 * (toFn L'.S.stepLhs.s m ⬝ᵥ toFn L'.S.stepLhs.z m + L'.S.stepLhs.τ * L'.S.stepLhs.κ)
            / ((degreeAll L.S.cones : ℝ) + 1) := by
  obtain ⟨hN, _, es, ez, eτ, eκ⟩ := pass_is_newton_step hS hPt hp hτ h1x h1z h2x h2z hden
  obtain ⟨res, ys, an⟩ := pass_step_anatomy hS hp
  have hμ : L'.mu = calcMu (toFn L.S.variables.s m ⬝ᵥ toFn L.S.variables.z m) L.S.variables.τ
      L.S.variables.κ (degreeAll L.S.cones) := by
    rw [an.mu]
    unfold calcMu
    rw [LawfulFloatLike.ofNat_eq]
    push_cast
    rfl
  have hκ := hN.eq_κ
  dsimp only at hκ
  refine ⟨an.mu, hκ, ?_⟩
  have h := mu_update_of_sum (degreeAll L.S.cones) (toFn L.S.variables.s m) (toFn L.S.variables.z m)
    (toFn L'.S.stepLhs.s m) (toFn L'.S.stepLhs.z m) L.S.variables.τ L.S.variables.κ L'.S.stepLhs.τ
    L'.S.stepLhs.κ L'.sigma 1 L'.alpha C
    (L'.S.stepRhs.κ + L'.sigma * L'.mu - L.S.variables.τ * L.S.variables.κ)
    (by rw [← hμ, one_mul]; exact hagg)
    (by rw [← hμ, hκ]; ring)
  rw [← hμ] at h
  rw [es, ez, eτ, eκ]
  have hc : calcMu ((toFn L.S.variables.s m + L'.alpha • toFn L'.S.stepLhs.s m) ⬝ᵥ
        (toFn L.S.variables.z m + L'.alpha • toFn L'.S.stepLhs.z m))
      (L.S.variables.τ + L'.alpha * L'.S.stepLhs.τ) (L.S.variables.κ + L'.alpha * L'.S.stepLhs.κ)
      (degreeAll L.S.cones)
      = ((toFn L.S.variables.s m + L'.alpha • toFn L'.S.stepLhs.s m) ⬝ᵥ
          (toFn L.S.variables.z m + L'.alpha • toFn L'.S.stepLhs.z m)
        + (L.S.variables.τ + L'.alpha * L'.S.stepLhs.τ) * (L.S.variables.κ + L'.alpha * L'.S.stepLhs.κ))
        / ((degreeAll L.S.cones : ℝ) + 1) := by
    unfold calcMu
    rw [LawfulFloatLike.ofNat_eq]
    push_cast
    rfl
  rw [← hc, h]
  ring

section intex
attribute [local instance] Solver.Example.intFloatLike

/-- non-vacuity of `pass_is_newton_step` / `pass_residual_contraction`, part (a): the whole-solver
model does take accepted passes — on the kernel-evaluable instance of `StepInitPointExample.lean`
(scalar `Int`: minimise `3x` s.t. `x + s = 4`, `s ≥ 0`) the first pass after `default_start()` returns
`(true, _)` -/
example : ∃ L L' : LoopSt Int, pass (Solver.Example.st 3) L = .ok (true, L') :=
  Solver.InitExample.pass_exists

end intex

/-- non-vacuity, part (b): the shape and exactness hypotheses are satisfiable over ℝ: the `1 × 1`
encoding `(2)` is canonical and upper triangular, and with `P = A = (2)`, `Hs = (1)`, `q = (4)`,
`b = (2)` the pair `x₂ = 0`, `z₂ = −2` solves `[P Aᵀ; A −Hs][x₂; z₂] = [−q; b]` -/
example : C16.Canonical Solver.rsExM ∧ Solver.rsExM.isTriu = true
    ∧ KktSystem.symMat Solver.rsExM 1 *ᵥ toFn (#[0] : Array ℝ) 1
        + (denseA Solver.rsExM 1 1)ᵀ *ᵥ toFn (#[-2] : Array ℝ) 1 = -toFn (#[4] : Array ℝ) 1
    ∧ denseA Solver.rsExM 1 1 *ᵥ toFn (#[0] : Array ℝ) 1
        - (1 : Matrix (Fin 1) (Fin 1) ℝ) *ᵥ toFn (#[-2] : Array ℝ) 1 = toFn (#[2] : Array ℝ) 1 := by
  refine ⟨Solver.rsExM_canonical, by rfl, ?_, ?_⟩
  · funext i
    have : i = 0 := Subsingleton.elim _ _
    subst this
    simp [Matrix.mulVec, dotProduct, toFn, denseA, KktSystem.symMat, Solver.rsExM, Csc.toDense, Csc.col]
    try norm_num
  · funext i
    have : i = 0 := Subsingleton.elim _ _
    subst this
    simp [Matrix.mulVec, dotProduct, toFn, denseA, Solver.rsExM, Csc.toDense, Csc.col]
    try norm_num

/-! ### Round 7: the aggregated complementarity of the pass (`hagg` discharged)

`Solver.ConesInterior cones s z` (`Lemmas/StepPassMuLift.lean`): block by block along the cone
layout, `s = 0` on the rows of a zero cone, `s, z > 0` on a nonnegative cone, `s, z` strictly inside
each second-order cone.  `Solver.PassAffineStep st L L' m Δsᵃ Δzᵃ mcorr` (`Lemmas/StepPassMu.lean`):
`(Δsᵃ, Δzᵃ)` is the `s`/`z` part of the result of the AFFINE solve of the pass `L → L'` (the calls
`kktsystem.update`, `affine_step_rhs`, `solve(.affine)`, `calc_step_length`, `combined_step_rhs` the
pass made, on the state it made them on, exist with these results), `mcorr` its Mehrotra factor,
`L'.sigma` its centring parameter, and `Δsᵃ = −s − Hs Δzᵃ`.  `Solver.coneIdFn cones m`: the identity
element of the composite cone (`0` on zero-cone rows, `1` on nonnegative rows, `(1, 0, …, 0)` on each
second-order cone).  None of the theorems below needs the exactness hypotheses of the linear
solves: the `Δs` rows are computed by `DefaultKKTSystem::solve` itself. -/

/-- [R] **`update_scaling` of the composite cone succeeds at every interior iterate** (zero and
nonnegative cones always do; second-order cones by C13's `soc_update_succeeds`): the
`is_scaling_success = false` exit of a pass is not taken there. -/
theorem scaling_succeeds_at_interior {cones : List (ConeSt ℝ)} {s z : Array ℝ} (hc : ConesFull cones)
    (hs : s.size = numelAll cones) (hz : z.size = numelAll cones)
    (hint : ConesInterior cones s.toList z.toList) :
    ∃ cones', Solver.updateScaling cones s z = .ok (true, cones') :=
  Solver.updateScaling_interior_true hc hs hz hint

/-- [R] **the cones an accepted pass leaves are the Nesterov–Todd scalings of the iterate it started
from**: `L'.S.cones = update_scaling(L.S.cones, s, z)` and, cone by cone on its rows, nonnegative:
`w = √(s/z)`, `λ = √(s·z)`; second-order: `w` normalised, `η ≠ 0`, `W z = λ = W⁻¹ s`, `(WᵀW) z = s`
(`Solver.NTCones`, C13's identities on the whole-solver model's cone states). -/
theorem pass_cones_are_nt {st : Settings ℝ} {L L' : LoopSt ℝ} {n m : ℕ} (hS : PassShape L.S n m)
    (hp : pass st L = .ok (true, L'))
    (hint : ConesInterior L.S.cones L.S.variables.s.toList L.S.variables.z.toList) :
    Solver.updateScaling L.S.cones L.S.variables.s L.S.variables.z = .ok (true, L'.S.cones)
      ∧ NTCones L'.S.cones L.S.variables.s.toList L.S.variables.z.toList :=
  Solver.pass_ntCones hS hp hint

/-- [R] **`Hs z = s` at the scaling point of the pass**: the dense `Hs` block of the rescaled cones
maps the old `z` to the old `s` (nonnegative rows `diag(s/z)`, second-order blocks `WᵀW`, zero-cone
rows `0 = s`). -/
theorem pass_Hs_z_eq_s {st : Settings ℝ} {L L' : LoopSt ℝ} {n m : ℕ} (hS : PassShape L.S n m)
    (hp : pass st L = .ok (true, L'))
    (hint : ConesInterior L.S.cones L.S.variables.s.toList L.S.variables.z.toList) :
    hsMat L'.S.cones m *ᵥ toFn L.S.variables.z m = toFn L.S.variables.s m :=
  Solver.pass_Hs_z_eq_s hS hp hint

/-- [R] **`z · Δs_from_Δz_offset(rhs.s, z) = ⟨e, rhs.s⟩`**: the `Δs_const_term` the combined solve
leaves in `workConic`, paired with the old `z`, is the pairing of the combined right-hand side
`rhs.s` with the identity element `e` of the composite cone (`Σ dᵢ` on nonnegative rows, `d₀` per
second-order cone, nothing on zero-cone rows). -/
theorem pass_offset_dot {st : Settings ℝ} {L L' : LoopSt ℝ} {n m : ℕ} (hS : PassShape L.S n m)
    (hp : pass st L = .ok (true, L'))
    (hint : ConesInterior L.S.cones L.S.variables.s.toList L.S.variables.z.toList) :
    toFn L.S.variables.z m ⬝ᵥ toFn L'.S.kktsystem.workConic m
      = coneIdFn L'.S.cones m ⬝ᵥ toFn L'.S.stepRhs.s m :=
  Solver.pass_offset_dot hS hp hint

/-- [R] **aggregated complementarity of the combined step, retained-state form**:
`s·Δz + z·Δs = −⟨e, rhs.s⟩` with `rhs = L'.S.stepRhs`, `(Δs, Δz)` the step left in `L'.S.stepLhs`. -/
theorem pass_complementarity_retained {st : Settings ℝ} {L L' : LoopSt ℝ} {n m : ℕ}
    (hS : PassShape L.S n m) (hp : pass st L = .ok (true, L'))
    (hint : ConesInterior L.S.cones L.S.variables.s.toList L.S.variables.z.toList) :
    toFn L.S.variables.s m ⬝ᵥ toFn L'.S.stepLhs.z m + toFn L.S.variables.z m ⬝ᵥ toFn L'.S.stepLhs.s m
      = -(coneIdFn L'.S.cones m ⬝ᵥ toFn L'.S.stepRhs.s m) :=
  Solver.pass_complementarity_retained hS hp hint

/-- [R] **the combined right-hand side paired with `e`**: `⟨e, rhs.s⟩ = s·z + m·Δsᵃ·Δzᵃ − ν σμ`
(`rhs.s = λ∘λ + (W⁻ᵀΔsᵃ)∘(W(mΔzᵃ)) − σμ e`; `⟨e, u∘v⟩ = u·v`, `λ·λ = s·z`, `(W⁻ᵀa)·(Wb) = a·b`;
`Δsᵃ = 0` on zero-cone rows), `(Δsᵃ, Δzᵃ)` the affine step of the same pass, `m` its Mehrotra
factor. -/
theorem pass_rhs_identity {st : Settings ℝ} {L L' : LoopSt ℝ} {n m : ℕ} (hS : PassShape L.S n m)
    (hp : pass st L = .ok (true, L'))
    (hint : ConesInterior L.S.cones L.S.variables.s.toList L.S.variables.z.toList) :
    ∃ (dsA dzA : Fin m → ℝ) (mcorr : ℝ), PassAffineStep st L L' m dsA dzA mcorr
      ∧ coneIdFn L'.S.cones m ⬝ᵥ toFn L'.S.stepRhs.s m
        = toFn L.S.variables.s m ⬝ᵥ toFn L.S.variables.z m + mcorr * (dsA ⬝ᵥ dzA)
          - (degreeAll L.S.cones : ℝ) * (L'.sigma * L'.mu) :=
  Solver.pass_rhs_identity hS hp hint

/-- [R] **aggregated linearised complementarity of the combined step of an accepted pass** — the
hypothesis `hagg` of `pass_mu_update_partial`, proved, with `C = m·Δsᵃ·Δzᵃ`:
`s·Δz + z·Δs = −(s·z + m·Δsᵃ·Δzᵃ − ν σμ)` for every list of zero / nonnegative / second-order cones
at an interior iterate. -/
theorem pass_complementarity_aggregated {st : Settings ℝ} {L L' : LoopSt ℝ} {n m : ℕ}
    (hS : PassShape L.S n m) (hp : pass st L = .ok (true, L'))
    (hint : ConesInterior L.S.cones L.S.variables.s.toList L.S.variables.z.toList) :
    ∃ (dsA dzA : Fin m → ℝ) (mcorr : ℝ), PassAffineStep st L L' m dsA dzA mcorr
      ∧ toFn L.S.variables.s m ⬝ᵥ toFn L'.S.stepLhs.z m + toFn L.S.variables.z m ⬝ᵥ toFn L'.S.stepLhs.s m
        = -(toFn L.S.variables.s m ⬝ᵥ toFn L.S.variables.z m + mcorr * (dsA ⬝ᵥ dzA)
            - (degreeAll L.S.cones : ℝ) * (L'.sigma * L'.mu)) :=
  Solver.pass_complementarity_aggregated hS hp hint

/-- [R] **The `μ` update of one accepted pass of the whole-solver model** — the full statement of
`pass_mu_update_partial`: for every list of zero / nonnegative / second-order cones, at an interior
iterate (`s = 0` on zero-cone rows), under the exactness hypotheses of `pass_is_newton_step`, with
`(Δsᵃ, Δzᵃ)` the affine step of the same pass and `m` its Mehrotra factor (`PassAffineStep`),
`C := m·Δsᵃ·Δzᵃ`, `Cκ := rhs.κ + σμ − τκ`,

  `μ⁺ = (1 − α(1−σ)) μ − α (C + Cκ)/(ν+1) + α² (Δs·Δz + ΔτΔκ)/(ν+1)`. -/
theorem pass_mu_update {st : Settings ℝ} {L L' : LoopSt ℝ} {n m : ℕ} (hS : PassShape L.S n m)
    (hPt : L.S.data.P.isTriu = true) (hp : pass st L = .ok (true, L'))
    (hτ : L.S.variables.τ ≠ 0)
    (h1x : KktSystem.symMat L.S.data.P n *ᵥ toFn L'.S.kktsystem.x1 n
        + (denseA L.S.data.A m n)ᵀ *ᵥ toFn L'.S.kktsystem.z1 m = toFn L'.S.stepRhs.x n)
    (h1z : denseA L.S.data.A m n *ᵥ toFn L'.S.kktsystem.x1 n
        - hsMat L'.S.cones m *ᵥ toFn L'.S.kktsystem.z1 m
        = toFn L'.S.kktsystem.workConic m - toFn L'.S.stepRhs.z m)
    (h2x : KktSystem.symMat L.S.data.P n *ᵥ toFn L'.S.kktsystem.x2 n
        + (denseA L.S.data.A m n)ᵀ *ᵥ toFn L'.S.kktsystem.z2 m = -toFn L.S.data.q n)
    (h2z : denseA L.S.data.A m n *ᵥ toFn L'.S.kktsystem.x2 n
        - hsMat L'.S.cones m *ᵥ toFn L'.S.kktsystem.z2 m = toFn L.S.data.b m)
    (hden : KktSystem.tauDen L.S.variables.κ L.S.variables.τ
        (toFn L.S.data.q n ⬝ᵥ toFn L'.S.kktsystem.x2 n) (toFn L.S.data.b m ⬝ᵥ toFn L'.S.kktsystem.z2 m)
        (((-1 : ℝ) • toFn L'.S.kktsystem.x2 n + (1 : ℝ) • ((1 / L.S.variables.τ) • toFn L.S.variables.x n)) ⬝ᵥ
          KktSystem.symMat L.S.data.P n *ᵥ ((-1 : ℝ) • toFn L'.S.kktsystem.x2 n
            + (1 : ℝ) • ((1 / L.S.variables.τ) • toFn L.S.variables.x n)))
        (toFn L'.S.kktsystem.x2 n ⬝ᵥ KktSystem.symMat L.S.data.P n *ᵥ toFn L'.S.kktsystem.x2 n) ≠ 0)
    (hint : ConesInterior L.S.cones L.S.variables.s.toList L.S.variables.z.toList) :
    ∃ (dsA dzA : Fin m → ℝ) (mcorr : ℝ), PassAffineStep st L L' m dsA dzA mcorr
      ∧ L'.mu = (toFn L.S.variables.s m ⬝ᵥ toFn L.S.variables.z m + L.S.variables.τ * L.S.variables.κ)
          / ((degreeAll L.S.cones : ℝ) + 1)
      ∧ L.S.variables.κ * L'.S.stepLhs.τ + L.S.variables.τ * L'.S.stepLhs.κ = -L'.S.stepRhs.κ
      ∧ (toFn L'.S.variables.s m ⬝ᵥ toFn L'.S.variables.z m + L'.S.variables.τ * L'.S.variables.κ)
          / ((degreeAll L.S.cones : ℝ) + 1)
        = (1 - L'.alpha * (1 - L'.sigma)) * L'.mu
          - L'.alpha * (mcorr * (dsA ⬝ᵥ dzA)
              + (L'.S.stepRhs.κ + L'.sigma * L'.mu - L.S.variables.τ * L.S.variables.κ))
              / ((degreeAll L.S.cones : ℝ) + 1)
          + L'.alpha ^ 2 * (toFn L'.S.stepLhs.s m ⬝ᵥ toFn L'.S.stepLhs.z m + L'.S.stepLhs.τ * L'.S.stepLhs.κ)
              / ((degreeAll L.S.cones : ℝ) + 1) := by
  obtain ⟨dsA, dzA, mcorr, haff, hagg⟩ := Solver.pass_complementarity_aggregated hS hp hint
  exact ⟨dsA, dzA, mcorr, haff,
    pass_mu_update_partial hS hPt hp hτ h1x h1z h2x h2z hden (mcorr * (dsA ⬝ᵥ dzA)) hagg⟩

/-- non-vacuity of the Round 7 theorems, part (a'): the interior-ness hypothesis is satisfiable
together with the shape of the cones — zero cone (1 row), nonnegative cone (1 row), second-order
cone (2 rows), `s = (0 | 4 | 2, 1)`, `z = (5 | 1 | 3, −1)` — and at that iterate the composite
`update_scaling` returns `true` and leaves the Nesterov–Todd scalings (so the hypotheses of
`scaling_succeeds_at_interior` and the conclusion of `pass_cones_are_nt` are consistent); accepted
passes exist by part (a) above, the exactness hypotheses are satisfiable by part (b) -/
example : ConesFull Solver.MuExample.cones ∧ numelAll Solver.MuExample.cones = 4
    ∧ ConesInterior Solver.MuExample.cones Solver.MuExample.sL Solver.MuExample.zL
    ∧ ∃ cones', Solver.updateScaling Solver.MuExample.cones Solver.MuExample.sL.toArray
          Solver.MuExample.zL.toArray = .ok (true, cones')
        ∧ NTCones cones' Solver.MuExample.sL Solver.MuExample.zL :=
  ⟨Solver.MuExample.cones_full, Solver.MuExample.cones_numel, Solver.MuExample.cones_interior,
    Solver.MuExample.cones_scaled⟩

/-- non-vacuity, part (c): the block identities on a concrete second-order Nesterov–Todd state,
`w = (1,(0))`, `η = 1`, `λ = (2,(1))`, `s = z = (2,(1))`: `Hs z = s`, `z·Δs_from_Δz_offset(d) = d₀`,
`⟨e, λ∘λ⟩ = s·z = 5`, `⟨e, shift(Δz, Δs)⟩ = Δs·Δz − σμ` -/
example (d0 d1 a0 a1 b0 b1 σμ : ℝ) :
    NTBlock (.soc Solver.MuExample.ntK) [2, 1] [2, 1]
    ∧ hs1L (.soc Solver.MuExample.ntK) [2, 1] = [2, 1]
    ∧ hsDotL [2, 1] (off1L (.soc Solver.MuExample.ntK) [d0, d1] [2, 1]) = d0
    ∧ hsDotL (coneId1L (.soc Solver.MuExample.ntK)) (ads1L (.soc Solver.MuExample.ntK)) = 5
    ∧ hsDotL (coneId1L (.soc Solver.MuExample.ntK))
        (shift1L (.soc Solver.MuExample.ntK) [a0, a1] [b0, b1] σμ).1 = b0 * a0 + b1 * a1 - σμ :=
  ⟨Solver.MuExample.ntK_block, Solver.MuExample.ntK_identities d0 d1 a0 a1 b0 b1 σμ⟩

/-- [F] **an accepted pass keeps `s = 0` on the zero-cone rows** (`Solver.ZeroConeRows`): there
`Δs_const = 0` and `Hs = 0`, so the combined `Δs = −Δs_const − Hs Δz` vanishes and
`s⁺ = s + αΔs = 0`.  No interior-ness, no exactness of the linear solves needed. -/
theorem pass_keeps_zero_rows {st : Settings ℝ} {L L' : LoopSt ℝ} {n m : ℕ} (hS : PassShape L.S n m)
    (hp : pass st L = .ok (true, L')) (hz : ZeroConeRows L.S.cones L.S.variables.s.toList) :
    ZeroConeRows L'.S.cones L'.S.variables.s.toList :=
  Solver.pass_zero_rows hS hp hz

/-- [R] **the interior-ness hypothesis of `pass_mu_update` is an invariant of accepted passes**: if
the iterate is in C07's interior `Solver.Interior` (`τ, κ > 0`, `z ∈ int K*`, `s ∈ int K` block by
block — what `default_start()` establishes and every accepted step keeps, C07) with `s = 0` on the
zero-cone rows, then the next iterate is again, for the rescaled cones, and `ConesInterior` holds at
the start of the next pass (`0 < max_step_fraction < 1`, `T::max_value() > 0`). -/
theorem pass_keeps_interior_hypothesis {st : Settings ℝ} {L L' : LoopSt ℝ} {n m : ℕ}
    (hS : PassShape L.S n m) (hp : pass st L = .ok (true, L')) (h0 : 0 < st.maxStepFraction)
    (h1 : st.maxStepFraction < 1) (hm : 0 < st.maxValue)
    (hI : Solver.Interior (L.S.cones.map ConeSt.compSpec) L.S.variables)
    (hz : ZeroConeRows L.S.cones L.S.variables.s.toList) :
    Solver.Interior (L'.S.cones.map ConeSt.compSpec) L'.S.variables
      ∧ ZeroConeRows L'.S.cones L'.S.variables.s.toList
      ∧ ConesInterior L'.S.cones L'.S.variables.s.toList L'.S.variables.z.toList :=
  Solver.pass_keeps_conesInterior hS hp h0 h1 hm hI hz

/-- non-vacuity of `pass_keeps_zero_rows` / `pass_keeps_interior_hypothesis`: on the composite of
part (a') the variables `s = (0 | 4 | 2, 1)`, `z = (5 | 1 | 3, −1)`, `τ = κ = 1` satisfy C07's
`Solver.Interior` and `ZeroConeRows` (hence `ConesInterior`), and the settings hypotheses hold for
`max_step_fraction = 0.99`, `max_value = 1` -/
example : Solver.Interior (Solver.MuExample.cones.map ConeSt.compSpec) Solver.MuExample.vars
    ∧ ZeroConeRows Solver.MuExample.cones Solver.MuExample.vars.s.toList
    ∧ ConesInterior Solver.MuExample.cones Solver.MuExample.vars.s.toList Solver.MuExample.vars.z.toList
    ∧ (0 : ℝ) < 0.99 ∧ (0.99 : ℝ) < 1 ∧ (0 : ℝ) < 1 :=
  ⟨Solver.MuExample.vars_interior, Solver.MuExample.cones_zeroRows,
    Solver.conesInterior_of_interior Solver.MuExample.vars_interior Solver.MuExample.cones_zeroRows,
    by norm_num, by norm_num, by norm_num⟩

/-- [F] **`default_start()` leaves `s = 0` on the zero-cone rows**: `symmetric_initialization` sets
`s = _shift_to_cone_interior(s, primal = true)`, each branch of which ends in a
`scaled_unit_shift(·, ·, true)` that writes zeros on a zero cone.  Whatever the two KKT calls
returned; no shape hypothesis. -/
theorem start_keeps_zero_rows {S S0 : SolverSt ℝ} {st : Settings ℝ} (h : S.defaultStart st = .ok S0) :
    ZeroConeRows S0.cones S0.variables.s.toList :=
  Solver.defaultStart_zero_rows h

/-- [R] **the interior-ness hypothesis `hint` of `pass_mu_update` holds at the first pass**: for the
solver object `DefaultSolver::new` returns, the iterate after `default_start()` is in C07's interior
(`Solver.interior_initHyp`), has `s = 0` on the zero-cone rows, hence satisfies `ConesInterior`; by
`pass_keeps_interior_hypothesis` it then holds at the start of every pass reached through accepted
passes.  (`Solver.defaultStart_conesInterior` is the same for any sized state `SizedSt S`;
`Solver.zeroConeRows_iff_zeroRows` identifies `ZeroConeRows` with the `ZeroRows` invariant C01/C02
carry along the whole `solve()`.) -/
theorem start_interior_hypothesis {P : Csc ℝ} {q : Array ℝ} {A : Csc ℝ} {b : Array ℝ}
    {cones : List (ConeT ℝ)} {st : Settings ℝ} {perm : Array Nat} {S : Solver.Solver ℝ} {S0 : SolverSt ℝ}
    (hnew : Solver.Solver.new P q A b cones st perm = .ok S) (h : S.st.defaultStart st = .ok S0) :
    Solver.Interior (S0.cones.map ConeSt.compSpec) S0.variables
      ∧ ZeroConeRows S0.cones S0.variables.s.toList
      ∧ ConesInterior S0.cones S0.variables.s.toList S0.variables.z.toList :=
  Solver.new_defaultStart_conesInterior hnew h

/-- non-vacuity of `start_keeps_zero_rows` / `start_interior_hypothesis`, over ℝ: on the composite
zero(1) / nonneg(1) / soc(2), `_shift_to_cone_interior(s = (7 | −3 | 0, 0), primal = true)` succeeds
and its result is `0` on the zero-cone row; that `default_start()` (after `new`) succeeds is shown on
the kernel-evaluable `Int` instance in the example of `default_start_ignores_flags` below
(`Solver.InitExample.ds_exists`) -/
example : ∃ s', Composite.shiftToConeInterior (Solver.MuExample.cones.map ConeSt.compSpec)
      #[7, -3, 0, 0] true = .ok s' ∧ ZeroConeRows Solver.MuExample.cones s'.toList :=
  Solver.MuExample.start_shift

end pass

/-! ## Round 6: the starting point (`solve_initial_point`, `default_start`)

`KktSys.solveInitialPoint` / `SolverSt.defaultStart` are the whole-solver model's functions (tied
bit-for-bit to the implementation by the first record of every `solve.full` trajectory). -/
section start
open Clarabel.Solver

/-- [S] (every scalar type, `Float` included) **what `solve_initial_point` does on a programme
without quadratic term** (`data.P.nnz() == 0`): `x, s, z` are zero-filled; the first reduced solve
gets the right-hand side `[0; b]` and, on success, writes `variables.x` and `variables.s` (its `z`
part, then NEGATED); if it reports failure the function returns `false` with the zero fill
(`s = −0`); the second solve gets `[−q; 0]`, only its `z` part is used, and its flag is
returned.  `τ, κ` are not touched. -/
theorem solve_initial_point_calls_lp {α : Type} [Add α] [Sub α] [Mul α] [Div α] [Neg α] [OfNat α 0]
    [OfNat α 1] [LT α] [DecidableLT α] [LE α] [DecidableLE α] [BEq α] [FloatLike α]
    {S : KktSys α} {vars : Residuals.Vars α} {data : ProblemData α} {st : LinSettings α} {ok : Bool}
    {v' : Residuals.Vars α} {S' : KktSys α} (hP : (data.P.nnz == 0) = true)
    (h : S.solveInitialPoint vars data st = .ok (ok, v', S')) :
    ∃ K0 ok1 lx1 lz1 K1,
      S.workz.size = data.b.size ∧
      S.kktsolver.setrhs (S.workx.map (fun _ => (0 : α))) data.b = .ok K0 ∧
      K0.solve st = .ok (ok1, lx1, lz1, K1) ∧
      ((ok1 = false ∧ ok = false ∧
          v' = { zeroFilled vars with s := Vec.negate (zeroFilled vars).s }) ∨
       (ok1 = true ∧ vars.x.size = lx1.size ∧ vars.s.size = lz1.size ∧
        ∃ K2 ok2 lx2 lz2 K3,
          K1.setrhs (Vec.scalaropFrom (S.workx.map (fun _ => (0 : α))) (fun q => -q) data.q)
              (data.b.map (fun _ => (0 : α))) = .ok K2 ∧
          K2.solve st = .ok (ok2, lx2, lz2, K3) ∧ ok = ok2 ∧
          ((ok2 = true ∧ vars.z.size = lz2.size ∧
              v' = { vars with x := lx1, s := Vec.negate lz1, z := lz2 }) ∨
           (ok2 = false ∧ v' = { zeroFilled vars with x := lx1, s := Vec.negate lz1 })))) :=
  solveInitialPoint_lp_inv hP h

/-- [S] **what `solve_initial_point` does on a programme with quadratic term**: one reduced solve
with the right-hand side `[−q; b]`; on success `variables.x`, `variables.z` are its parts and
`variables.s = −variables.z`; on failure the zero fill (and its negation) stays and `false` is
returned. -/
theorem solve_initial_point_calls_qp {α : Type} [Add α] [Sub α] [Mul α] [Div α] [Neg α] [OfNat α 0]
    [OfNat α 1] [LT α] [DecidableLT α] [LE α] [DecidableLE α] [BEq α] [FloatLike α]
    {S : KktSys α} {vars : Residuals.Vars α} {data : ProblemData α} {st : LinSettings α} {ok : Bool}
    {v' : Residuals.Vars α} {S' : KktSys α} (hP : (data.P.nnz == 0) = false)
    (h : S.solveInitialPoint vars data st = .ok (ok, v', S')) :
    ∃ K0 lx lz K1,
      S.workx.size = data.q.size ∧ S.workz.size = data.b.size ∧
      S.kktsolver.setrhs (Vec.negate data.q) data.b = .ok K0 ∧
      K0.solve st = .ok (ok, lx, lz, K1) ∧
      ((ok = true ∧ vars.x.size = lx.size ∧ vars.z.size = lz.size ∧ vars.s.size = lz.size ∧
          v' = { vars with x := lx, z := lz, s := Vec.negate lz }) ∨
       (ok = false ∧ v' = { zeroFilled vars with s := Vec.negate (zeroFilled vars).z })) :=
  solveInitialPoint_qp_inv hP h

/-- [S] **`default_start()` never looks at a success flag** (symmetric cones): whatever
`kktsystem.update` and `solve_initial_point` report, what `solve_initial_point` left in the
variables goes through `symmetric_initialization`: `x` kept, `s` and `z` shifted into the cone,
`τ = κ = 1`.  A failed factorisation / solve therefore does not end the solve with
`NumericalError` here; it starts the iteration from the shifted zero fill (`x = 0`). -/
theorem default_start_ignores_flags {α : Type} [Add α] [Sub α] [Mul α] [Div α] [Neg α] [OfNat α 0]
    [OfNat α 1] [OfNat α 2] [OfNat α 100] [OfNat α 1000] [LT α] [DecidableLT α] [LE α] [DecidableLE α]
    [BEq α] [FloatLike α] {S S0 : SolverSt α} {st : Settings α} (h : S.defaultStart st = .ok S0) :
    ∃ ok1 kk1 ok2 v kk2,
      S.kktsystem.update S.data (setIdentityScaling S.cones) st.lin = .ok (ok1, kk1) ∧
      kk1.solveInitialPoint S.variables S.data st.lin = .ok (ok2, v, kk2) ∧
      S0.cones = setIdentityScaling S.cones ∧ S0.kktsystem = kk2 ∧ S0.data = S.data ∧
      S0.variables.x = v.x ∧ S0.variables.τ = 1 ∧ S0.variables.κ = 1 ∧
      Composite.shiftToConeInterior (S0.cones.map ConeSt.compSpec) v.s true = .ok S0.variables.s ∧
      Composite.shiftToConeInterior (S0.cones.map ConeSt.compSpec) v.z false = .ok S0.variables.z := by
  obtain ⟨ok1, kk1, ok2, v, kk2, hu, hi, hsy, hc, hk, hd⟩ := defaultStart_inv h
  obtain ⟨ex, eτ, eκ, hs, hz⟩ := symmetricInitialization_inv hsy
  exact ⟨ok1, kk1, ok2, v, kk2, hu, hi, hc, hk, hd, ex, eτ, eκ, by rw [hc]; exact hs, by rw [hc]; exact hz⟩

section intex
attribute [local instance] Solver.Example.intFloatLike

/-- non-vacuity of the three structural theorems: on the kernel-evaluable instance of
`StepInitPointExample.lean` (scalar `Int`; minimise `3x` s.t. `x + s = 4`, `s ≥ 0`) the LP branch
returns `true` with `x = 4`, `s = 0`, `z = −3` — the least-squares solutions: `Aᵀs = 0`,
`Ax + s = b`, `Aᵀz + q = 0` — and `default_start()` returns -/
example : (∃ (S : KktSys Int) (vars : Residuals.Vars Int) (data : ProblemData Int)
      (v' : Residuals.Vars Int) (S' : KktSys Int), (data.P.nnz == 0) = true
        ∧ S.solveInitialPoint vars data (Solver.Example.st 3).lin = .ok (true, v', S')
        ∧ v'.x = #[4] ∧ v'.s = #[0] ∧ v'.z = #[-3])
    ∧ (∃ (S S0 : SolverSt Int), S.defaultStart (Solver.Example.st 3) = .ok S0 ∧ S0.variables.τ = 1) :=
  ⟨Solver.InitExample.ip_exists, Solver.InitExample.ds_exists⟩

end intex

section exact
variable {α : Type} [Field α] [LinearOrder α] [IsStrictOrderedRing α] [FloatLike α] {n m : ℕ}

/-- [F] **The starting point of a programme without quadratic term solves two least-squares
problems.**  `ReducedExact P A D rx rz lx lz` says the reduced solve with right-hand side `(rx, rz)`
returned `(lx, lz)` with `P·lx + Aᵀ·lz = rx`, `A·lx − D·lz = rz` — exactness of the linear solver for
the matrix `[P Aᵀ; A −D]` (the hypothesis style of the `_array` theorems).  With `D = diag d`, `d ≥ 0`
(after `set_identity_scaling`: `d = 0` on zero-cone rows, `1` elsewhere — `identity_scaling_block`),
if both solves of the LP branch are exact and `solve_initial_point` returns `true`, then for the
returned `x, s, z` (`τ, κ` untouched):

* `Aᵀs = 0`, `Ax + Ds = b`, and `(x, s)` minimises `sᵀDs` subject to `Ax + Ds = b` — for `D = I`, `x`
  minimises `‖b − Ax‖²` and `s` is the residual; a row with `dᵢ = 0` is an equality row;
* `Aᵀz + q = 0`, `Dz` lies in the range of `A`, and `z` minimises `zᵀDz` subject to `Aᵀz + q = 0`. -/
theorem solve_initial_point_lp (A : Matrix (Fin m) (Fin n) α) (d : Fin m → α) (hd : ∀ i, 0 ≤ d i)
    {S : KktSys α} {vars : Residuals.Vars α} {data : ProblemData α} {st : LinSettings α}
    {v' : Residuals.Vars α} {S' : KktSys α} (hP : (data.P.nnz == 0) = true) (hwx : S.workx.size = n)
    (hq : data.q.size = n) (hb : data.b.size = m)
    (hex1 : ∀ K0 lx lz K1, S.kktsolver.setrhs (S.workx.map (fun _ => (0 : α))) data.b = .ok K0 →
      K0.solve st = .ok (true, lx, lz, K1) →
      ReducedExact (0 : Matrix (Fin n) (Fin n) α) A (Matrix.diagonal d)
        (S.workx.map (fun _ => (0 : α))) data.b lx lz)
    (hex2 : ∀ K0 lx lz K1 K2 lx2 lz2 K3,
      S.kktsolver.setrhs (S.workx.map (fun _ => (0 : α))) data.b = .ok K0 →
      K0.solve st = .ok (true, lx, lz, K1) →
      K1.setrhs (Vec.scalaropFrom (S.workx.map (fun _ => (0 : α))) (fun q => -q) data.q)
        (data.b.map (fun _ => (0 : α))) = .ok K2 →
      K2.solve st = .ok (true, lx2, lz2, K3) →
      ReducedExact (0 : Matrix (Fin n) (Fin n) α) A (Matrix.diagonal d)
        (Vec.scalaropFrom (S.workx.map (fun _ => (0 : α))) (fun q => -q) data.q)
        (data.b.map (fun _ => (0 : α))) lx2 lz2)
    (h : S.solveInitialPoint vars data st = .ok (true, v', S')) :
    v'.x.size = n ∧ v'.s.size = m ∧ v'.z.size = m ∧ v'.τ = vars.τ ∧ v'.κ = vars.κ
    ∧ Aᵀ *ᵥ toFn v'.s m = 0
    ∧ A *ᵥ toFn v'.x n + Matrix.diagonal d *ᵥ toFn v'.s m = toFn data.b m
    ∧ Aᵀ *ᵥ toFn v'.z m + toFn data.q n = 0
    ∧ (∃ xw : Fin n → α, A *ᵥ xw = Matrix.diagonal d *ᵥ toFn v'.z m)
    ∧ (∀ (x' : Fin n → α) (s' : Fin m → α), A *ᵥ x' + Matrix.diagonal d *ᵥ s' = toFn data.b m →
        toFn v'.s m ⬝ᵥ Matrix.diagonal d *ᵥ toFn v'.s m ≤ s' ⬝ᵥ Matrix.diagonal d *ᵥ s')
    ∧ (∀ z' : Fin m → α, Aᵀ *ᵥ z' + toFn data.q n = 0 →
        toFn v'.z m ⬝ᵥ Matrix.diagonal d *ᵥ toFn v'.z m ≤ z' ⬝ᵥ Matrix.diagonal d *ᵥ z') :=
  solveInitialPoint_lp_exact A d hd hP hwx hq hb hex1 hex2 h

/-- [F] **The starting point of a programme with quadratic term**: if the single reduced solve is
exact for `[P Aᵀ; A −D]` and `solve_initial_point` returns `true`, then `Px + Aᵀz = −q`,
`Ax − Dz = b`, `s = −z` (`τ, κ` untouched); and if `P` is symmetric positive semidefinite and
`D = diag d`, `d ≥ 0`, `(x, s)` minimises `xᵀPx + 2qᵀx + sᵀDs` subject to `Ax + Ds = b`. -/
theorem solve_initial_point_qp (P : Matrix (Fin n) (Fin n) α) (A : Matrix (Fin m) (Fin n) α)
    (d : Fin m → α)
    {S : KktSys α} {vars : Residuals.Vars α} {data : ProblemData α} {st : LinSettings α}
    {v' : Residuals.Vars α} {S' : KktSys α} (hP : (data.P.nnz == 0) = false)
    (hex : ∀ K0 lx lz K1, S.kktsolver.setrhs (Vec.negate data.q) data.b = .ok K0 →
      K0.solve st = .ok (true, lx, lz, K1) →
      ReducedExact P A (Matrix.diagonal d) (Vec.negate data.q) data.b lx lz)
    (h : S.solveInitialPoint vars data st = .ok (true, v', S')) :
    v'.x.size = n ∧ v'.s.size = m ∧ v'.z.size = m ∧ v'.τ = vars.τ ∧ v'.κ = vars.κ
    ∧ P *ᵥ toFn v'.x n + Aᵀ *ᵥ toFn v'.z m = -toFn data.q n
    ∧ A *ᵥ toFn v'.x n - Matrix.diagonal d *ᵥ toFn v'.z m = toFn data.b m
    ∧ toFn v'.s m = -toFn v'.z m
    ∧ (Pᵀ = P → (∀ v : Fin n → α, 0 ≤ v ⬝ᵥ P *ᵥ v) → (∀ i, 0 ≤ d i) →
        ∀ (x' : Fin n → α) (s' : Fin m → α), A *ᵥ x' + Matrix.diagonal d *ᵥ s' = toFn data.b m →
          toFn v'.x n ⬝ᵥ P *ᵥ toFn v'.x n + 2 * (toFn data.q n ⬝ᵥ toFn v'.x n)
              + toFn v'.s m ⬝ᵥ Matrix.diagonal d *ᵥ toFn v'.s m
            ≤ x' ⬝ᵥ P *ᵥ x' + 2 * (toFn data.q n ⬝ᵥ x') + s' ⬝ᵥ Matrix.diagonal d *ᵥ s') :=
  solveInitialPoint_qp_exact P A d hP hex h

end exact

/-- non-vacuity of `solve_initial_point_lp` / `_qp` (the exactness hypothesis is satisfiable, with
the numbers of the `Int` run above read in ℚ): for `A = (1)`, `D = (1)`, right-hand side `[0; 4]` the
pair `lx = (4)`, `lz = (0)` is an exact reduced solve, and for `[−3; 0]` the pair `(−3), (−3)` -/
example : ReducedExact (0 : Matrix (Fin 1) (Fin 1) ℚ) (1 : Matrix (Fin 1) (Fin 1) ℚ)
      (Matrix.diagonal fun _ => 1) #[0] #[4] #[4] #[0]
    ∧ ReducedExact (0 : Matrix (Fin 1) (Fin 1) ℚ) (1 : Matrix (Fin 1) (Fin 1) ℚ)
      (Matrix.diagonal fun _ => 1) #[-3] #[0] #[-3] #[-3] := by
  refine ⟨⟨rfl, rfl, ?_, ?_⟩, ⟨rfl, rfl, ?_, ?_⟩⟩ <;>
  · funext i
    have : i = 0 := Subsingleton.elim _ _
    subst this
    simp [toFn, Matrix.mulVec, dotProduct]

/-- [R] **the `Hs` block after `set_identity_scaling` is `D = diag d`, `d ∈ {0, 1}`**: the matrix of
the model's `mul_Hs` for the identity-scaled cones (zero / nonnegative / second-order) is diagonal
with `0` on the rows of zero cones and `1` elsewhere — the `D` of `solve_initial_point_lp` / `_qp` for
the code's initial factorisation (the static regularisation of the factorisation is part of the
linear solver, i.e. of the exactness hypothesis). -/
theorem identity_scaling_block {cones : List (ConeSt ℝ)} {m : ℕ} (hc : ConesFull cones)
    (hm : numelAll cones = m) :
    hsMat (setIdentityScaling cones) m = Matrix.diagonal (idDiagFn cones m)
    ∧ (∀ i, 0 ≤ idDiagFn cones m i)
    ∧ ∀ (y x : Array ℝ), y.size = m → x.size = m →
        ∃ r, mulHs (setIdentityScaling cones) y x = .ok r ∧ r.size = m
          ∧ toFn r m = Matrix.diagonal (idDiagFn cones m) *ᵥ toFn x m := by
  have hI := hsMat_identity hc hm
  refine ⟨hI, idDiagFn_nonneg cones m, fun y x hy hx => ?_⟩
  have hc' : ConesFull (setIdentityScaling cones) := (setIdentityScaling_full hc).1
  have hm' : numelAll (setIdentityScaling cones) = m := by
    rw [(setIdentityScaling_full hc).2.2.2]; exact hm
  obtain ⟨r, hr, hs, hv⟩ := mulHs_hsMat hc' hm' y x hy hx
  exact ⟨r, hr, hs, by rw [hv, hI]⟩

/-- non-vacuity of `identity_scaling_block`: a zero cone of one row and a nonnegative cone of one
row are well-formed cone objects covering two rows -/
example : ConesFull [ConeSt.zero 1, ConeSt.nonneg (⟨#[2], #[1]⟩ : Nonneg.Cone ℝ)]
    ∧ numelAll [ConeSt.zero 1, ConeSt.nonneg (⟨#[2], #[1]⟩ : Nonneg.Cone ℝ)] = 2 := by
  refine ⟨?_, rfl⟩
  intro c hc
  simp only [List.mem_cons, List.not_mem_nil, or_false] at hc
  rcases hc with rfl | rfl
  · trivial
  · rfl

/-- [R] **The starting point of a conic LP** (`P` without stored entry), on exact reduced solves:
`default_start()` returns `τ = κ = 1`, the `x` of the primal least-squares problem, and `(s, z)` =
the least-squares `s` and `z` (below: the arrays `s`, `z`) shifted into the cone by
`_shift_to_cone_interior` — strictly inside it (C07's `symmetric_init_interior`, by import).  `kk1`
is the KKT system after `kktsystem.update` with the identity scaling; for it `hkk` gives the two
exactness hypotheses of `solve_initial_point_lp` and that the solves report success. -/
theorem default_start_lp {n m : ℕ} (A : Matrix (Fin m) (Fin n) ℝ) (d : Fin m → ℝ)
    (hd : ∀ i, 0 ≤ d i) {S S0 : SolverSt ℝ} {st : Settings ℝ}
    (hP : (S.data.P.nnz == 0) = true) (hq : S.data.q.size = n) (hb : S.data.b.size = m)
    (hwx0 : S.kktsystem.workx.size = n) (hc : ConesOk S.cones) (hnum : numelAll S.cones = m)
    (hkk : ∀ ok1 kk1, S.kktsystem.update S.data (setIdentityScaling S.cones) st.lin = .ok (ok1, kk1) →
      (∀ K0 lx lz K1, kk1.kktsolver.setrhs (kk1.workx.map (fun _ => (0 : ℝ))) S.data.b = .ok K0 →
          K0.solve st.lin = .ok (true, lx, lz, K1) →
          ReducedExact (0 : Matrix (Fin n) (Fin n) ℝ) A (Matrix.diagonal d)
            (kk1.workx.map (fun _ => (0 : ℝ))) S.data.b lx lz)
      ∧ (∀ K0 lx lz K1 K2 lx2 lz2 K3,
          kk1.kktsolver.setrhs (kk1.workx.map (fun _ => (0 : ℝ))) S.data.b = .ok K0 →
          K0.solve st.lin = .ok (true, lx, lz, K1) →
          K1.setrhs (Vec.scalaropFrom (kk1.workx.map (fun _ => (0 : ℝ))) (fun q => -q) S.data.q)
            (S.data.b.map (fun _ => (0 : ℝ))) = .ok K2 →
          K2.solve st.lin = .ok (true, lx2, lz2, K3) →
          ReducedExact (0 : Matrix (Fin n) (Fin n) ℝ) A (Matrix.diagonal d)
            (Vec.scalaropFrom (kk1.workx.map (fun _ => (0 : ℝ))) (fun q => -q) S.data.q)
            (S.data.b.map (fun _ => (0 : ℝ))) lx2 lz2)
      ∧ (∀ ok2 v kk2, kk1.solveInitialPoint S.variables S.data st.lin = .ok (ok2, v, kk2) →
          ok2 = true))
    (h : S.defaultStart st = .ok S0) :
    ∃ s z : Array ℝ, s.size = m ∧ z.size = m ∧ S0.variables.x.size = n
      ∧ S0.variables.τ = 1 ∧ S0.variables.κ = 1
      ∧ Aᵀ *ᵥ toFn s m = 0
      ∧ A *ᵥ toFn S0.variables.x n + Matrix.diagonal d *ᵥ toFn s m = toFn S.data.b m
      ∧ Aᵀ *ᵥ toFn z m + toFn S.data.q n = 0
      ∧ (∃ xw : Fin n → ℝ, A *ᵥ xw = Matrix.diagonal d *ᵥ toFn z m)
      ∧ (∀ (x' : Fin n → ℝ) (s' : Fin m → ℝ), A *ᵥ x' + Matrix.diagonal d *ᵥ s' = toFn S.data.b m →
          toFn s m ⬝ᵥ Matrix.diagonal d *ᵥ toFn s m ≤ s' ⬝ᵥ Matrix.diagonal d *ᵥ s')
      ∧ (∀ z' : Fin m → ℝ, Aᵀ *ᵥ z' + toFn S.data.q n = 0 →
          toFn z m ⬝ᵥ Matrix.diagonal d *ᵥ toFn z m ≤ z' ⬝ᵥ Matrix.diagonal d *ᵥ z')
      ∧ Composite.shiftToConeInterior (S0.cones.map ConeSt.compSpec) s true = .ok S0.variables.s
      ∧ Composite.shiftToConeInterior (S0.cones.map ConeSt.compSpec) z false = .ok S0.variables.z
      ∧ Interior (S0.cones.map ConeSt.compSpec) S0.variables :=
  defaultStart_lp_exact A d hd hP hq hb hwx0 hc hnum hkk h

end start

/-! ## Round 6: the PSD combined step from the LAPACK contracts -/
section psd6
open Clarabel.PsdTri

/-- [R] **PSD: the combined step satisfies the linearised complementarity equation, from the
LAPACK contracts alone** (`psd_combined_step_equation` ∘ C13's `psd_assemble_nt` / `psd_assemble_spec`).
Hypotheses: sizes, the contracts of the two Cholesky factorisations `S = L₁L₁ᵀ`, `Z = L₂L₂ᵀ` and of
the SVD `L₂ᵀL₁ = U·diag(σ)·Vt`, `UᵀU = Vt·Vtᵀ = I`, and `σ > 0` (interior point: `L₂ᵀL₁` is
nonsingular).  Then `assembleScaling` (the tail of `update_scaling`) returns a cone `K` with
`λ = σ` which is the Nesterov–Todd scaling of `(s, z)` (`Wz = λ = W⁻ᵀs`, `mul_Hs z = s`), and on it —
with no further hypothesis (`R·R⁻¹ = I` and `λᵢ + λⱼ ≠ 0` are derived) — every call of the combined
step succeeds and, for every `Δz`,

  `λ ∘ (WΔz + W⁻ᵀΔs) = −d`,   `mat(d) = (W⁻ᵀΔsᵃ)∘(WΔzᵃ) − σμ·I + Λ²`,

`Δs = −1·Δs_from_Δz_offset(d) + (−1)·mul_Hs(Δz)` as `DefaultKKTSystem::solve` computes it. -/
theorem psd_combined_step_from_contracts (n : Nat) (L1 L2 U Vt sig s z dza dsa dz y y' : Array ℝ)
    (σμ : ℝ)
    (h1 : L1.size = n * n) (h2 : L2.size = n * n) (hU : U.size = n * n) (hV : Vt.size = n * n)
    (hsg : sig.size = n) (hs : s.size = PsdIndex.triangularNumber n)
    (hz : z.size = PsdIndex.triangularNumber n)
    (hza : dza.size = PsdIndex.triangularNumber n) (hsa : dsa.size = PsdIndex.triangularNumber n)
    (hdz : dz.size = PsdIndex.triangularNumber n) (hy : y.size = PsdIndex.triangularNumber n)
    (hy' : y'.size = PsdIndex.triangularNumber n)
    (hS : toM n (svecToMat s) = toM n (matOf n L1) * (toM n (matOf n L1))ᵀ)
    (hZ : toM n (svecToMat z) = toM n (matOf n L2) * (toM n (matOf n L2))ᵀ)
    (hsvd : (toM n (matOf n L2))ᵀ * toM n (matOf n L1)
      = toM n (matOf n U) * Matrix.diagonal (fun i : Fin n => sig.getD i 0) * toM n (matOf n Vt))
    (hUo : (toM n (matOf n U))ᵀ * toM n (matOf n U) = 1)
    (hVo : toM n (matOf n Vt) * (toM n (matOf n Vt))ᵀ = 1)
    (hpos : ∀ i, i < n → 0 < sig.getD i 0) :
    ∃ K RRt, assembleScaling n L1 L2 U Vt sig = .ok (K, RRt) ∧ K.n = n ∧ K.lam = sig ∧
      mulW K false z z 1 0 = .ok (lamVec K.n K.lam) ∧
      mulWinv K true s s 1 0 = .ok (lamVec K.n K.lam) ∧
      PsdTri.mulHs K z = .ok s ∧
      ∃ sh wz ws aff h c p r,
        PsdTri.combinedDsShift K dza dsa σμ = .ok (sh, wz, ws) ∧
        PsdTri.affineDs K (PsdIndex.triangularNumber K.n) = .ok aff ∧
        PsdTri.circOp K.n (lamVec K.n K.lam) (lamVec K.n K.lam) = .ok aff ∧
        PsdTri.mulHs K dz = .ok h ∧
        PsdTri.dsFromDzOffset K (Vec.axpby 1 sh 1 aff) = .ok c ∧
        mulW K false y dz 1 0 = .ok p ∧
        mulWinv K true y' (Vec.axpby (-1) c (-1) h) 1 0 = .ok r ∧
        PsdTri.circOp K.n (lamVec K.n K.lam) (Vec.waxpby 1 p 1 r)
          = .ok (Vec.negate (Vec.axpby 1 sh 1 aff)) ∧
        toM K.n (svecToMat (Vec.axpby 1 sh 1 aff))
          = (1 / 2 : ℝ) •
              ((toM K.n (matOf K.n K.Rinv) * toM K.n (svecToMat dsa) * (toM K.n (matOf K.n K.Rinv))ᵀ)
                * ((toM K.n (matOf K.n K.R))ᵀ * toM K.n (svecToMat dza) * toM K.n (matOf K.n K.R))
              + ((toM K.n (matOf K.n K.R))ᵀ * toM K.n (svecToMat dza) * toM K.n (matOf K.n K.R))
                * (toM K.n (matOf K.n K.Rinv) * toM K.n (svecToMat dsa) * (toM K.n (matOf K.n K.Rinv))ᵀ))
            - σμ • (1 : Matrix (Fin K.n) (Fin K.n) ℝ)
            + Matrix.diagonal (fun i : Fin K.n => K.lam.getD i 0)
              * Matrix.diagonal (fun i : Fin K.n => K.lam.getD i 0) :=
  psd_combined_step_contracts n L1 L2 U Vt sig s z dza dsa dz y y' σμ h1 h2 hU hV hsg hs hz hza hsa hdz
    hy hy' hS hZ hsvd hUo hVo hpos

/-- non-vacuity of `psd_combined_step_from_contracts`: `n = 1`, `s = z = (4)`, `L₁ = L₂ = (2)`,
`U = Vt = (1)`, `σ = (4)`, directions `(1)`: all hypotheses hold, so the theorem yields the cone and
the equation -/
example : ∃ K RRt, assembleScaling 1 (#[2] : Array ℝ) #[2] #[1] #[1] #[4] = .ok (K, RRt) ∧ K.n = 1 := by
  obtain ⟨K, RRt, hK, hn, _⟩ := psd_combined_step_from_contracts 1 #[2] #[2] #[1] #[1] #[4] #[4] #[4]
    #[1] #[1] #[1] #[1] #[1] (1 / 2) rfl rfl rfl rfl rfl rfl rfl rfl rfl rfl rfl rfl
    (by ext i j; fin_cases i; fin_cases j
        simp [Matrix.mul_apply, toM, matOf, svecToMat, PsdIndex.triangularNumber]; norm_num)
    (by ext i j; fin_cases i; fin_cases j
        simp [Matrix.mul_apply, toM, matOf, svecToMat, PsdIndex.triangularNumber]; norm_num)
    (by ext i j; fin_cases i; fin_cases j
        simp [Matrix.mul_apply, toM, matOf]; norm_num)
    (by ext i j; fin_cases i; fin_cases j
        simp [Matrix.mul_apply, toM, matOf])
    (by ext i j; fin_cases i; fin_cases j
        simp [Matrix.mul_apply, toM, matOf])
    (by intro i hi
        have : i = 0 := by omega
        subst this; simp)
  exact ⟨K, RRt, hK, hn⟩

end psd6

/-! ## Round 9: every accepted pass of a whole `solve()`

The one-pass theorems of section `pass` need, at the pass they speak about, the size invariant
`PassShape`, `P` upper triangular, `τ ≠ 0` and the interior-ness hypothesis `ConesInterior`.  Along a
`solve()` of the solver object `DefaultSolver::new` returns (any object satisfying C04's `SolverInvQ`)
all of them hold at EVERY accepted pass: `Solver.solvePass_invariants` (`Lemmas/StepPassTraj.lean`)
threads C04's `Shapes` and `pass_keeps_interior_hypothesis` from `start_interior_hypothesis` along
the accepted passes.  What remains a hypothesis is the exactness of the two reduced linear solves of
the pass and `tauDen ≠ 0`, as a predicate `PassExact` on the pass.

`Solver.SolvePass S st L L'`: `L → L'` is an accepted pass of `S.solve st` — `L` is reached from
`default_start()` of the (info-reset) solver object through accepted passes and
`pass st L = .ok (true, L')`.  `Solver.solve_record` identifies these passes with the records of the
trajectory `r.traj` the `solve.full` channel compares bit for bit with the implementation: record `k`
holds the iterate of the `k`-th loop state, and unless it is the last record the pass was accepted
and the record holds its `α` (`alpha`), `σ` (`sigmaNew`) and `μ` (`mu`). -/
section solve
open Clarabel.Solver

/-- **exactness of the two reduced solves of the pass `L → L'`** (the per-pass hypothesis of the
solve-level theorems): the vectors the pass leaves in `kktsystem.{x1,z1}` / `{x2,z2}` solve
`[P Aᵀ; A −Hs]·(x, z) = (rhs.x, Δs_const − rhs.z)` / `= (−q, b)` exactly, `Hs` the dense block of the
cones the pass rescaled, and the denominator of the `Δτ` formula does not vanish -/
structure PassExact (L L' : LoopSt ℝ) (n m : ℕ) : Prop where
  h1x : KktSystem.symMat L.S.data.P n *ᵥ toFn L'.S.kktsystem.x1 n
        + (denseA L.S.data.A m n)ᵀ *ᵥ toFn L'.S.kktsystem.z1 m = toFn L'.S.stepRhs.x n
  h1z : denseA L.S.data.A m n *ᵥ toFn L'.S.kktsystem.x1 n
        - hsMat L'.S.cones m *ᵥ toFn L'.S.kktsystem.z1 m
        = toFn L'.S.kktsystem.workConic m - toFn L'.S.stepRhs.z m
  h2x : KktSystem.symMat L.S.data.P n *ᵥ toFn L'.S.kktsystem.x2 n
        + (denseA L.S.data.A m n)ᵀ *ᵥ toFn L'.S.kktsystem.z2 m = -toFn L.S.data.q n
  h2z : denseA L.S.data.A m n *ᵥ toFn L'.S.kktsystem.x2 n
        - hsMat L'.S.cones m *ᵥ toFn L'.S.kktsystem.z2 m = toFn L.S.data.b m
  hden : KktSystem.tauDen L.S.variables.κ L.S.variables.τ
        (toFn L.S.data.q n ⬝ᵥ toFn L'.S.kktsystem.x2 n) (toFn L.S.data.b m ⬝ᵥ toFn L'.S.kktsystem.z2 m)
        (((-1 : ℝ) • toFn L'.S.kktsystem.x2 n + (1 : ℝ) • ((1 / L.S.variables.τ) • toFn L.S.variables.x n)) ⬝ᵥ
          KktSystem.symMat L.S.data.P n *ᵥ ((-1 : ℝ) • toFn L'.S.kktsystem.x2 n
            + (1 : ℝ) • ((1 / L.S.variables.τ) • toFn L.S.variables.x n)))
        (toFn L'.S.kktsystem.x2 n ⬝ᵥ KktSystem.symMat L.S.data.P n *ᵥ toFn L'.S.kktsystem.x2 n) ≠ 0

/-- **what the one-pass theorems say about the pass `L → L'`**, bundled: (`newton`, `step_*`) the
direction in `L'.S.stepLhs` is the Newton step of the homogeneous embedding at the old iterate with
right-hand side `(1−σ)(rx, rz, rτ)` and the new iterate is `add_step(α)` along it
(`pass_is_newton_step`); (`rx`, `rz`, `rτ`) the residuals contract by `1 − α(1−σ)`
(`pass_residual_contraction`); (`mu`) the exact `μ⁺` formula (`pass_mu_update`); `α = L'.alpha`,
`σ = L'.sigma`, `μ = L'.mu` -/
structure PassIsNewton (st : Settings ℝ) (L L' : LoopSt ℝ) (n m : ℕ) : Prop where
  newton : IsNewtonStep (KktSystem.symMat L.S.data.P n) (denseA L.S.data.A m n) (hsMat L'.S.cones m)
        (toFn L.S.data.q n) (toFn L.S.data.b m) (toFn L.S.variables.x n) L.S.variables.τ L.S.variables.κ
        ((1 - L'.sigma) • resX (KktSystem.symMat L.S.data.P n) (denseA L.S.data.A m n) (toFn L.S.data.q n)
          (toFn L.S.variables.x n) (toFn L.S.variables.z m) L.S.variables.τ)
        ((1 - L'.sigma) • resZ (denseA L.S.data.A m n) (toFn L.S.data.b m) (toFn L.S.variables.x n)
          (toFn L.S.variables.s m) L.S.variables.τ)
        ((1 - L'.sigma) * resT (KktSystem.symMat L.S.data.P n) (toFn L.S.data.q n) (toFn L.S.data.b m)
          (toFn L.S.variables.x n) (toFn L.S.variables.z m) L.S.variables.τ L.S.variables.κ)
        (toFn L'.S.kktsystem.workConic m) L'.S.stepRhs.κ
        ⟨toFn L'.S.stepLhs.x n, toFn L'.S.stepLhs.s m, toFn L'.S.stepLhs.z m, L'.S.stepLhs.τ,
          L'.S.stepLhs.κ⟩
  step_x : toFn L'.S.variables.x n = toFn L.S.variables.x n + L'.alpha • toFn L'.S.stepLhs.x n
  step_s : toFn L'.S.variables.s m = toFn L.S.variables.s m + L'.alpha • toFn L'.S.stepLhs.s m
  step_z : toFn L'.S.variables.z m = toFn L.S.variables.z m + L'.alpha • toFn L'.S.stepLhs.z m
  step_τ : L'.S.variables.τ = L.S.variables.τ + L'.alpha * L'.S.stepLhs.τ
  step_κ : L'.S.variables.κ = L.S.variables.κ + L'.alpha * L'.S.stepLhs.κ
  rx : resX (KktSystem.symMat L.S.data.P n) (denseA L.S.data.A m n) (toFn L.S.data.q n)
        (toFn L'.S.variables.x n) (toFn L'.S.variables.z m) L'.S.variables.τ
      = (1 - L'.alpha * (1 - L'.sigma)) • resX (KktSystem.symMat L.S.data.P n) (denseA L.S.data.A m n)
          (toFn L.S.data.q n) (toFn L.S.variables.x n) (toFn L.S.variables.z m) L.S.variables.τ
  rz : resZ (denseA L.S.data.A m n) (toFn L.S.data.b m) (toFn L'.S.variables.x n)
        (toFn L'.S.variables.s m) L'.S.variables.τ
      = (1 - L'.alpha * (1 - L'.sigma)) • resZ (denseA L.S.data.A m n) (toFn L.S.data.b m)
          (toFn L.S.variables.x n) (toFn L.S.variables.s m) L.S.variables.τ
  rτ : resT (KktSystem.symMat L.S.data.P n) (toFn L.S.data.q n) (toFn L.S.data.b m)
        (toFn L'.S.variables.x n) (toFn L'.S.variables.z m) L'.S.variables.τ L'.S.variables.κ
      = (1 - L'.alpha * (1 - L'.sigma)) * resT (KktSystem.symMat L.S.data.P n) (toFn L.S.data.q n)
          (toFn L.S.data.b m) (toFn L.S.variables.x n) (toFn L.S.variables.z m) L.S.variables.τ
          L.S.variables.κ
        + L'.alpha ^ 2 * ((toFn L'.S.stepLhs.x n - L'.S.stepLhs.τ • ((1 / L.S.variables.τ) • toFn L.S.variables.x n)) ⬝ᵥ
            KktSystem.symMat L.S.data.P n *ᵥ (toFn L'.S.stepLhs.x n
              - L'.S.stepLhs.τ • ((1 / L.S.variables.τ) • toFn L.S.variables.x n)))
          / L'.S.variables.τ
  mu : ∃ (dsA dzA : Fin m → ℝ) (mcorr : ℝ), PassAffineStep st L L' m dsA dzA mcorr
      ∧ L'.mu = (toFn L.S.variables.s m ⬝ᵥ toFn L.S.variables.z m + L.S.variables.τ * L.S.variables.κ)
          / ((degreeAll L.S.cones : ℝ) + 1)
      ∧ L.S.variables.κ * L'.S.stepLhs.τ + L.S.variables.τ * L'.S.stepLhs.κ = -L'.S.stepRhs.κ
      ∧ (toFn L'.S.variables.s m ⬝ᵥ toFn L'.S.variables.z m + L'.S.variables.τ * L'.S.variables.κ)
          / ((degreeAll L.S.cones : ℝ) + 1)
        = (1 - L'.alpha * (1 - L'.sigma)) * L'.mu
          - L'.alpha * (mcorr * (dsA ⬝ᵥ dzA)
              + (L'.S.stepRhs.κ + L'.sigma * L'.mu - L.S.variables.τ * L.S.variables.κ))
              / ((degreeAll L.S.cones : ℝ) + 1)
          + L'.alpha ^ 2 * (toFn L'.S.stepLhs.s m ⬝ᵥ toFn L'.S.stepLhs.z m + L'.S.stepLhs.τ * L'.S.stepLhs.κ)
              / ((degreeAll L.S.cones : ℝ) + 1)

/-- [R] **an accepted pass of a `solve()` whose two reduced solves were exact is a Newton pass.**
For a solver object satisfying C04's invariant `SolverInvQ` (every object `DefaultSolver::new`
returns, `Solver.solverNew_ok_of_modelled`; every object a `solve()` left), `0 < max_step_fraction
< 1`, `T::max_value() > 0`: at every accepted pass `L → L'` of `S.solve st` (`SolvePass`) the
state is on the solver's data, the iterate is interior (`τ, κ > 0` before and after), and under
`PassExact` the pass takes the Newton step with right-hand side `(1−σ)(rx, rz, rτ)`, contracts the
residuals by `1 − α(1−σ)` and updates `μ` by the exact formula (`PassIsNewton`).  No interior-ness,
shape or triangularity hypothesis: they are threaded from `default_start()`. -/
theorem solve_pass_is_newton {S : Solver.Solver ℝ} {st : Settings ℝ} (hI : SolverInvQ S)
    (h0 : 0 < st.maxStepFraction) (h1 : st.maxStepFraction < 1) (hm : 0 < st.maxValue)
    {L L' : LoopSt ℝ} (hp : SolvePass S st L L')
    (hex : PassExact L L' S.st.data.n S.st.data.m) :
    L.S.data = S.st.data ∧ L'.S.data = S.st.data
      ∧ 0 < L.S.variables.τ ∧ 0 < L.S.variables.κ ∧ 0 < L'.S.variables.τ ∧ 0 < L'.S.variables.κ
      ∧ ConesInterior L.S.cones L.S.variables.s.toList L.S.variables.z.toList
      ∧ PassIsNewton st L L' S.st.data.n S.st.data.m := by
  obtain ⟨hS, hd, hPt, hpass, hint, t1, k1, t2, k2⟩ := Solver.solvePass_invariants hI h0 h1 hm hp
  obtain ⟨hN, ex, es, ez, eτ, eκ⟩ := pass_is_newton_step hS hPt hpass (ne_of_gt t1) hex.h1x hex.h1z
    hex.h2x hex.h2z hex.hden
  obtain ⟨c1, c2, c3⟩ := pass_residual_contraction hS hPt hpass (ne_of_gt t1) (ne_of_gt t2) hex.h1x
    hex.h1z hex.h2x hex.h2z hex.hden
  have hmu := pass_mu_update hS hPt hpass (ne_of_gt t1) hex.h1x hex.h1z hex.h2x hex.h2z hex.hden hint
  exact ⟨hd, (Solver.pass_data hpass).trans hd, t1, k1, t2, k2, hint,
    ⟨hN, ex, es, ez, eτ, eκ, c1, c2, c3, hmu⟩⟩

/-- [R] **every accepted pass recorded in the trajectory of a `solve()` is a Newton pass.**  Let
`S.solve st = .ok r`.  For every record `p = r.traj[k]` that is not the last one there are loop
states `L → L'` (an accepted pass of the solve, `SolvePass`) with `L.traj = r.traj.take k` (`L` is
the `k`-th loop state), `p.vars` the iterate of `L`, the next record `p' = r.traj[k+1]` the iterate
of `L'`, `p.alpha = some α`, `p.sigmaNew = some σ`, `p.mu = μ` the step length, centring parameter
and `μ` of that pass (`p'.stepLength = α`, `p'.sigma = σ` as well) — and, if the two reduced solves of
every accepted pass were exact (`PassExact`), the pass satisfies `PassIsNewton`: Newton step with
right-hand side `(1−σ)(rx, rz, rτ)`, residual contraction by `1 − α(1−σ)`, the `μ⁺` formula; both
iterates have `τ, κ > 0`. -/
theorem solve_every_pass_is_newton {S : Solver.Solver ℝ} {st : Settings ℝ} {r : SolveResult ℝ}
    (hI : SolverInvQ S) (hr : S.solve st = .ok r)
    (h0 : 0 < st.maxStepFraction) (h1 : st.maxStepFraction < 1) (hm : 0 < st.maxValue)
    (hex : ∀ L L', SolvePass S st L L' → PassExact L L' S.st.data.n S.st.data.m)
    (k : ℕ) (p : PassRec ℝ) (hk : r.traj[k]? = some p) (hlast : k + 1 < r.traj.length) :
    ∃ (L L' : LoopSt ℝ) (p' : PassRec ℝ), SolvePass S st L L' ∧ L.traj = r.traj.take k
      ∧ p.vars = L.S.variables ∧ r.traj[k + 1]? = some p' ∧ p'.vars = L'.S.variables
      ∧ p.alpha = some L'.alpha ∧ p.sigmaNew = some L'.sigma ∧ p.mu = L'.mu
      ∧ p'.stepLength = L'.alpha ∧ p'.sigma = L'.sigma
      ∧ L.S.data = S.st.data
      ∧ 0 < L.S.variables.τ ∧ 0 < L.S.variables.κ ∧ 0 < L'.S.variables.τ ∧ 0 < L'.S.variables.κ
      ∧ PassIsNewton st L L' S.st.data.n S.st.data.m := by
  obtain ⟨S0, L, hds, hR, e1, e2, -, -, hnext⟩ := Solver.solve_record hr k p hk
  obtain ⟨L', p', hsp, a1, a2, a3, a4, a5, a6, a7⟩ := hnext hlast
  obtain ⟨d1, -, t1, k1, t2, k2, -, hN⟩ := solve_pass_is_newton hI h0 h1 hm hsp (hex L L' hsp)
  exact ⟨L, L', p', hsp, e1, e2, a4, a5, a1, a2, a3, a7, a6, d1, t1, k1, t2, k2, hN⟩

/-- [R] **total form**: for well-formed input (`InputOK`) with zero / nonnegative / second-order
cones, a valid ordering (`PermFor`) and regularisation that leaves no zero pivot (`PivotOK`) —
the hypotheses of C04's `run_total` — `DefaultSolver::new` returns a solver object, its `solve()`
returns, and every record of the trajectory but the last is the record of a Newton pass
(`solve_every_pass_is_newton`). -/
theorem solve_every_pass_is_newton_total {P : Csc ℝ} {q : Array ℝ} {A : Csc ℝ} {b : Array ℝ}
    {cones : List (ConeT ℝ)} {st : Settings ℝ} {perm : Array Nat} (hin : InputOK P q A b cones)
    (hmod : ∀ c ∈ cones, ConeT.modelled c) (hn : 0 < P.n) (hperm : PermFor P q A b cones st perm)
    (hpiv : PivotOK st.lin)
    (h0 : 0 < st.maxStepFraction) (h1 : st.maxStepFraction < 1) (hm : 0 < st.maxValue) :
    ∃ S r, Solver.Solver.new P q A b cones st perm = .ok S ∧ S.solve st = .ok r
      ∧ ((∀ L L', SolvePass S st L L' → PassExact L L' S.st.data.n S.st.data.m) →
        ∀ (k : ℕ) (p : PassRec ℝ), r.traj[k]? = some p → k + 1 < r.traj.length →
          ∃ (L L' : LoopSt ℝ) (p' : PassRec ℝ), SolvePass S st L L' ∧ L.traj = r.traj.take k
            ∧ p.vars = L.S.variables ∧ r.traj[k + 1]? = some p' ∧ p'.vars = L'.S.variables
            ∧ p.alpha = some L'.alpha ∧ p.sigmaNew = some L'.sigma ∧ p.mu = L'.mu
            ∧ p'.stepLength = L'.alpha ∧ p'.sigma = L'.sigma
            ∧ L.S.data = S.st.data
            ∧ 0 < L.S.variables.τ ∧ 0 < L.S.variables.κ ∧ 0 < L'.S.variables.τ ∧ 0 < L'.S.variables.κ
            ∧ PassIsNewton st L L' S.st.data.n S.st.data.m) := by
  obtain ⟨S, r, hnew, hr, hI, -⟩ := Solver.run_total hin hmod hn hperm hpiv Solver.fmaxOK_real
  exact ⟨S, r, hnew, hr, fun hex k p hk hl => solve_every_pass_is_newton hI hr h0 h1 hm hex k p hk hl⟩

/-- [R] **the residuals along a `solve()` are the initial ones times the product of the factors
`1 − αᵢ(1−σᵢ)`.**  If the two reduced solves of every accepted pass were exact, then for EVERY
record `p = r.traj[k]` (the last one included) the residuals `rx`, `rz` of the recorded iterate are
`Π_{i<k} (1 − αᵢ(1−σᵢ))` times those of the starting point `S0 = default_start()`, the factors read
from the records before it (`Solver.passFactor pᵢ = 1 − pᵢ.alpha · (1 − pᵢ.sigmaNew)`); in
particular `‖rx‖`, `‖rz‖` are multiplied by `|Π …|` and, the factors lying in `[0, 1]` when
`α, σ ∈ [0, 1]`, never increase. -/
theorem solve_residuals_product {S : Solver.Solver ℝ} {st : Settings ℝ} {r : SolveResult ℝ}
    (hI : SolverInvQ S) (hr : S.solve st = .ok r)
    (h0 : 0 < st.maxStepFraction) (h1 : st.maxStepFraction < 1) (hm : 0 < st.maxValue)
    (hex : ∀ L L', SolvePass S st L L' → PassExact L L' S.st.data.n S.st.data.m) :
    ∃ S0, (resetInfo S.st).defaultStart st = .ok S0 ∧ ∀ (k : ℕ) (p : PassRec ℝ), r.traj[k]? = some p →
      resX (KktSystem.symMat S.st.data.P S.st.data.n) (denseA S.st.data.A S.st.data.m S.st.data.n)
          (toFn S.st.data.q S.st.data.n) (toFn p.vars.x S.st.data.n) (toFn p.vars.z S.st.data.m) p.vars.τ
        = ((r.traj.take k).map Solver.passFactor).prod •
          resX (KktSystem.symMat S.st.data.P S.st.data.n) (denseA S.st.data.A S.st.data.m S.st.data.n)
            (toFn S.st.data.q S.st.data.n) (toFn S0.variables.x S.st.data.n)
            (toFn S0.variables.z S.st.data.m) S0.variables.τ
      ∧ resZ (denseA S.st.data.A S.st.data.m S.st.data.n) (toFn S.st.data.b S.st.data.m)
          (toFn p.vars.x S.st.data.n) (toFn p.vars.s S.st.data.m) p.vars.τ
        = ((r.traj.take k).map Solver.passFactor).prod •
          resZ (denseA S.st.data.A S.st.data.m S.st.data.n) (toFn S.st.data.b S.st.data.m)
            (toFn S0.variables.x S.st.data.n) (toFn S0.variables.s S.st.data.m) S0.variables.τ := by
  obtain ⟨S0, Lm, Lf, hds, hRm, hb, ht⟩ := Solver.solve_traj_states hr
  refine ⟨S0, hds, fun k p hk => ?_⟩
  obtain ⟨S0', L, hds', hR, e1, e2, -⟩ := Solver.solve_record hr k p hk
  rw [hds] at hds'
  cases hds'
  have hstep : ∀ La Lb, Reach st (initLoopSt S0) La → pass st La = .ok (true, Lb) →
      PassIsNewton st La Lb S.st.data.n S.st.data.m ∧ La.S.data = S.st.data := by
    intro La Lb hRa hpa
    have hsp : SolvePass S st La Lb := ⟨S0, hds, hRa, hpa⟩
    obtain ⟨d1, -, -, -, -, -, -, hN⟩ := solve_pass_is_newton hI h0 h1 hm hsp (hex La Lb hsp)
    exact ⟨hN, d1⟩
  have hx := Solver.reach_product (st := st) (L0 := initLoopSt S0)
    (fun v => resX (KktSystem.symMat S.st.data.P S.st.data.n)
      (denseA S.st.data.A S.st.data.m S.st.data.n) (toFn S.st.data.q S.st.data.n)
      (toFn v.x S.st.data.n) (toFn v.z S.st.data.m) v.τ)
    (fun La Lb hRa hpa => by
      obtain ⟨hN, d1⟩ := hstep La Lb hRa hpa
      have := hN.rx
      rw [d1] at this
      exact this) hR
  have hz := Solver.reach_product (st := st) (L0 := initLoopSt S0)
    (fun v => resZ (denseA S.st.data.A S.st.data.m S.st.data.n) (toFn S.st.data.b S.st.data.m)
      (toFn v.x S.st.data.n) (toFn v.s S.st.data.m) v.τ)
    (fun La Lb hRa hpa => by
      obtain ⟨hN, d1⟩ := hstep La Lb hRa hpa
      have := hN.rz
      rw [d1] at this
      exact this) hR
  have hdrop : L.traj.drop (initLoopSt S0).traj.length = r.traj.take k := by
    rw [e1]; rfl
  rw [hdrop] at hx hz
  rw [e2]
  exact ⟨hx, hz⟩

/-- [R] **the step length, centring parameter and contraction factor of every accepted pass of a
`solve()`**: `0 < α ≤ max_step_fraction < 1` (`calc_step_length(Combined)` from an interior iterate,
C07's `interior_step`, and the `strategy_checkpoint_small_step` the pass passed), `0 ≤ σ ≤ 1`
(`σ = (1 − α_aff)³` with `0 ≤ α_aff ≤ α_max ≤ 1`), hence the factor `1 − α(1−σ)` by which
`solve_every_pass_is_newton` contracts the residuals lies in `(0, 1]`.  No exactness hypothesis. -/
theorem solve_pass_factor_range {S : Solver.Solver ℝ} {st : Settings ℝ} (hI : SolverInvQ S)
    (h0 : 0 < st.maxStepFraction) (h1 : st.maxStepFraction < 1) (hm : 0 < st.maxValue)
    {L L' : LoopSt ℝ} (hp : SolvePass S st L L') :
    0 < L'.alpha ∧ L'.alpha ≤ st.maxStepFraction ∧ 0 ≤ L'.sigma ∧ L'.sigma ≤ 1
      ∧ 0 < 1 - L'.alpha * (1 - L'.sigma) ∧ 1 - L'.alpha * (1 - L'.sigma) ≤ 1 :=
  Solver.solvePass_factor_range hI h0 h1 hm hp

/-- [R] **the residuals never grow along a `solve()`**: the multiplier
`Π_{i<k} (1 − αᵢ(1−σᵢ))` of `solve_residuals_product` lies in `(0, 1]` for every record `k` of the
trajectory, and the multiplier of record `k + 1` is that of record `k` times a factor in `(0, 1]` —
so (under `PassExact` of the passes) `rx`, `rz` of every recorded iterate are the initial ones
scaled by a number in `(0, 1]` that is nonincreasing in `k`. -/
theorem solve_residuals_monotone {S : Solver.Solver ℝ} {st : Settings ℝ} {r : SolveResult ℝ}
    (hI : SolverInvQ S) (hr : S.solve st = .ok r)
    (h0 : 0 < st.maxStepFraction) (h1 : st.maxStepFraction < 1) (hm : 0 < st.maxValue)
    (k : ℕ) (hk : k < r.traj.length) :
    0 < ((r.traj.take k).map Solver.passFactor).prod ∧ ((r.traj.take k).map Solver.passFactor).prod ≤ 1
      ∧ (k + 1 < r.traj.length →
          ((r.traj.take (k + 1)).map Solver.passFactor).prod ≤ ((r.traj.take k).map Solver.passFactor).prod) := by
  obtain ⟨i0, i1⟩ := Solver.solve_factors_range hI hr h0 h1 hm k hk
  refine ⟨i0, i1, fun hk1 => ?_⟩
  obtain ⟨S0, L, hds, hR, e1, e2, -, -, hnext⟩ :=
    Solver.solve_record hr k r.traj[k] (List.getElem?_eq_getElem hk)
  obtain ⟨L', p', hsp, a1, a2, -⟩ := hnext hk1
  obtain ⟨-, -, -, -, f0, f1⟩ := Solver.solvePass_factor_range hI h0 h1 hm hsp
  have hf : Solver.passFactor r.traj[k] = 1 - L'.alpha * (1 - L'.sigma) := by
    unfold Solver.passFactor; rw [a1, a2]; rfl
  rw [List.take_add_one, List.getElem?_eq_getElem hk, Option.toList_some, List.map_append,
    List.prod_append, List.map_singleton, List.prod_singleton, hf]
  exact mul_le_of_le_one_right (le_of_lt i0) f1

section intex
attribute [local instance] Solver.Example.intFloatLike

/-- non-vacuity of the solve-level theorems, part (a): trajectories with a record that is not the
last one exist — on the kernel-evaluable instance of `Lemmas/SolverModelExample.lean` (scalar `Int`:
minimise `x` s.t. `x + s = 1`, `s ≥ 0`, `max_iter = 3`) `new` followed by `solve()` returns a
trajectory of TWO records (one accepted pass, then the pass that finds `Solved`); the first pass
after `default_start()` on the instance of `StepInitPointExample.lean` is accepted as well -/
example : (∃ r : SolveResult Int, Solver.Example.run 3 = .ok r ∧ 0 + 1 < r.traj.length)
    ∧ ∃ L L' : LoopSt Int, pass (Solver.Example.st 3) L = .ok (true, L') := by
  refine ⟨?_, Solver.InitExample.pass_exists⟩
  have h := Solver.Example.run3
  cases hr : Solver.Example.run 3 with
  | error e => rw [hr] at h; cases h
  | ok r =>
    rw [hr] at h
    simp only [Except.toOption, Option.map_some, Option.some.injEq, Prod.mk.injEq] at h
    refine ⟨r, rfl, ?_⟩
    have : r.traj.length = 2 := h.1
    omega

end intex

/-- non-vacuity, part (b): the hypotheses of `solve_every_pass_is_newton_total` other than `PassExact`
are satisfiable over ℝ — on `min x s.t. x + s = 1, s ≥ 0` with the default settings
(`Solver.FullExample`) the input is well formed, the cone modelled, the ordering valid, the
regularisation leaves no zero pivot, `0 < max_step_fraction = 0.99 < 1`, `max_value > 0` — so `new` and
`solve()` return there and the conclusion (an implication from `PassExact` of the passes of that run)
holds of that run; `PassExact` is the conjunction of the exactness hypotheses of
`pass_is_newton_step`, satisfiable by part (b) of its non-vacuity example -/
example : ∃ S r, Solver.Solver.new Solver.FullExample.P #[1] Solver.FullExample.A #[1]
      ([.nonneg 1] : List (ConeT ℝ)) Solver.FullExample.stR #[0, 1] = .ok S
    ∧ S.solve Solver.FullExample.stR = .ok r
    ∧ ((∀ L L', SolvePass S Solver.FullExample.stR L L' → PassExact L L' S.st.data.n S.st.data.m) →
      ∀ (k : ℕ) (p : PassRec ℝ), r.traj[k]? = some p → k + 1 < r.traj.length →
        ∃ (L L' : LoopSt ℝ), SolvePass S Solver.FullExample.stR L L'
          ∧ PassIsNewton Solver.FullExample.stR L L' S.st.data.n S.st.data.m) := by
  obtain ⟨-, -, -, s0, s1, sm, -, -⟩ := Solver.FullExample.stR_ok
  obtain ⟨S, r, hnew, hr, h⟩ := solve_every_pass_is_newton_total Solver.FullExample.inputOK
    Solver.FullExample.modelled (by decide) (Solver.FullExample.permFor Solver.FullExample.stR rfl)
    Solver.FullExample.stR_pivotOK s0 s1 sm
  refine ⟨S, r, hnew, hr, fun hex k p hk hl => ?_⟩
  obtain ⟨L, L', p', hsp, _, _, _, _, _, _, _, _, _, _, _, _, _, _, hN⟩ := h hex k p hk hl
  exact ⟨L, L', hsp, hN⟩

/-- non-vacuity of `solve_pass_factor_range` / `solve_residuals_monotone` / `solve_residuals_product`
/ `solve_every_pass_is_newton`, part (c): over ℝ, on the instance of part (b), the solver object
satisfies `SolverInvQ`, `solve()` returns, the settings hypotheses hold and the trajectory has a
record `k = 0` (every `solve()` makes at least one pass) -/
example : ∃ S r, Solver.Solver.new Solver.FullExample.P #[1] Solver.FullExample.A #[1]
      ([.nonneg 1] : List (ConeT ℝ)) Solver.FullExample.stR #[0, 1] = .ok S
    ∧ SolverInvQ S ∧ S.solve Solver.FullExample.stR = .ok r ∧ 0 < r.traj.length
    ∧ 0 < Solver.FullExample.stR.maxStepFraction ∧ Solver.FullExample.stR.maxStepFraction < 1
    ∧ 0 < Solver.FullExample.stR.maxValue := by
  obtain ⟨-, -, -, s0, s1, sm, -, -⟩ := Solver.FullExample.stR_ok
  obtain ⟨S, r, hnew, hr, hI, -⟩ := Solver.run_total Solver.FullExample.inputOK
    Solver.FullExample.modelled (by decide) (Solver.FullExample.permFor Solver.FullExample.stR rfl)
    Solver.FullExample.stR_pivotOK Solver.fmaxOK_real
  refine ⟨S, r, hnew, hI, hr, ?_, s0, s1, sm⟩
  obtain ⟨S0, Lm, Lf, -, -, hb, ht⟩ := Solver.solve_traj_states hr
  obtain ⟨p, e, -⟩ := Solver.pass_record hb
  rw [ht, e, List.length_append, List.length_singleton]
  omega

end solve

end Clarabel.C06
