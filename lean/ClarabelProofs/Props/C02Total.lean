/-
  C02 ∘ C04 — the TOTAL form of `C02.full_{primal,dual}_infeasible_certifies` and of the `Almost*`
  variants: the run hypotheses `Solver.new … = .ok S`, `S.solve st = .ok r` are DISCHARGED by C04's
  panic-freedom, so every hypothesis left is about the user's input and settings.

  What C04 needs, exactly: `InputOK`, every cone zero / nonnegative / second-order
  (`ConeT.modelled`), `0 < n`, `PermFor`, `PivotOK`, `FmaxOK`; over `ℝ` `FmaxOK` is a theorem
  (`Solver.fmaxOK_real`) and `PivotOK` follows from `dynamic_regularization_eps > 0`,
  `dynamic_regularization_delta ≠ 0` (`Solver.pivotOK_real`).  See `Props/C01Total.lean`.
-/
import ClarabelProofs.Props.C02Full
import ClarabelProofs.Lemmas.SolverTotal

namespace Clarabel.C02
open Clarabel Clarabel.Solver Clarabel.InfoUser Clarabel.Dense

/-- **[R] `C02.full_infeasible_total`** — `DefaultSolver::new` + `solve()` RETURN, and an
infeasibility verdict comes with a certificate for the USER's problem: no run hypothesis left.

For well-formed input (`InputOK`) with zero / nonnegative / second-order cones, `n ≥ 1`, `PermFor`,
`PivotOK`, presolve off or dropping no row, positive equilibration bounds,
`0 < max_step_fraction < 1`, `T::max_value() > 0`: `new` returns `S`, `S.solve st` returns `r`, and
* IF the status is `PrimalInfeasible` (`tol` = full tolerances) or `AlmostPrimalInfeasible` (`tol` =
  reduced tolerances, and `reduced_tol_ktratio ≤ 1000`), and `0 ≤ tol.infeas_abs`, THEN the returned
  `z` is a Farkas certificate on the user's `A`, capped `b` — the conclusion of
  `full_primal_infeasible_certifies` / `full_almost_primal_infeasible_certifies` verbatim;
* IF the status is `DualInfeasible` / `AlmostDualInfeasible` (same convention) THEN the returned `x, s`
  are the certificate of `full_dual_infeasible_certifies` / `full_almost_dual_infeasible_certifies`. -/
theorem full_infeasible_total {P : Csc ℝ} {q : Array ℝ} {A : Csc ℝ} {b : Array ℝ}
    {cones : List (ConeT ℝ)} {st : Solver.Settings ℝ} {perm : Array Nat}
    (hin : InputOK P q A b cones) (hm : ∀ c ∈ cones, ConeT.modelled c) (hn : 0 < P.n)
    (hperm : PermFor P q A b cones st perm) (hpiv : PivotOK st.lin)
    (hpre : st.presolveEnable = false ∨ ∃ keep,
      Presolve.keepFlags (Presolve.threshold st.infbound) (Cones.newCollapsed cones) b.toList = .ok keep
        ∧ keep.count true = b.size)
    (hlo : 0 < st.equil.minScaling) (hhi : 0 < st.equil.maxScaling)
    (hf0 : 0 < st.maxStepFraction) (hf1 : st.maxStepFraction < 1) (hmv : 0 < st.maxValue) :
    ∃ S r, Solver.new P q A b cones st perm = .ok S ∧ S.solve st = .ok r ∧
      (∀ tol : Info.Tols ℝ,
        (r.S.solution.status = .primalInfeasible ∧ tol = st.info.full)
          ∨ (r.S.solution.status = .almostPrimalInfeasible ∧ tol = st.info.reduced
              ∧ 1 ≤ (1 / st.info.reduced.ktratio) * 1000) →
        0 ≤ tol.infeas_abs →
        ∃ (c κ : ℝ), 0 < c ∧ 0 < κ ∧
          let bc := ProblemData.capB b st.infbound
          let z := vecFn r.S.solution.z A.m
          c * κ * dot (vecFn bc A.m) z < -tol.infeas_abs
          ∧ dot (vecFn bc A.m) z < 0
          ∧ nrm (mulVT (matFn A A.m A.n) z)
              < tol.infeas_rel * c * (-(dot (vecFn bc A.m) z)) * max 1 (κ * nrm z)
          ∧ Equil.CompositeMem Equil.ConeMemDual (Cones.newCollapsed cones) r.S.solution.z.toList
          ∧ r.S.solution.z.size = A.m)
      ∧ (∀ tol : Info.Tols ℝ,
        (r.S.solution.status = .dualInfeasible ∧ tol = st.info.full)
          ∨ (r.S.solution.status = .almostDualInfeasible ∧ tol = st.info.reduced
              ∧ 1 ≤ (1 / st.info.reduced.ktratio) * 1000) →
        0 ≤ tol.infeas_abs →
        ∃ (Pn : Csc ℝ) (c κ : ℝ), ProblemData.triuStep P = .ok Pn ∧ 0 < c ∧ 0 < κ ∧
          let x := vecFn r.S.solution.x A.n
          let sv := vecFn r.S.solution.s A.m
          c * κ * dot (vecFn q A.n) x < -tol.infeas_abs
          ∧ dot (vecFn q A.n) x < 0
          ∧ nrm (mulV (symFn Pn A.n) x)
              < tol.infeas_rel * (-(dot (vecFn q A.n) x)) * max 1 (κ * nrm x)
          ∧ nrm (fun k => mulV (matFn A A.m A.n) x k + sv k)
              < tol.infeas_rel * c * (-(dot (vecFn q A.n) x)) * max 1 (κ * (nrm x + nrm sv))
          ∧ Equil.CompositeMem Equil.ConeMem (Cones.newCollapsed cones) r.S.solution.s.toList
          ∧ r.S.solution.x.size = A.n ∧ r.S.solution.s.size = A.m) := by
  obtain ⟨S, r, hnew, hr⟩ := run_total_real hin hm hn hperm hpiv
  refine ⟨S, r, hnew, hr, ?_, ?_⟩
  · rintro tol (⟨hst, rfl⟩ | ⟨hst, rfl, hgate⟩) htabs
    · exact full_primal_infeasible_certifies hin hpre hlo hhi hf0 hf1 hmv htabs hnew hr hst
    · exact full_almost_primal_infeasible_certifies hin hpre hlo hhi hf0 hf1 hmv htabs hgate hnew hr hst
  · rintro tol (⟨hst, rfl⟩ | ⟨hst, rfl, hgate⟩) htabs
    · exact full_dual_infeasible_certifies hin hpre hlo hhi hf0 hf1 hmv htabs hnew hr hst
    · exact full_almost_dual_infeasible_certifies hin hpre hlo hhi hf0 hf1 hmv htabs hgate hnew hr hst

/-- **[R] `C02.full_infeasible_total_presolved`** — `full_infeasible_total` when presolve is enabled
and DROPS ROWS (`0 ≤ infbound`): `new` and `solve()` return, and an infeasibility verdict comes with
the certificate of `full_*_infeasible_certifies_presolved` on the user's FULL data (`z = 0`,
`s = infbound` on the dropped rows; the `‖Ax+s‖` test over the kept rows). -/
theorem full_infeasible_total_presolved {P : Csc ℝ} {q : Array ℝ} {A : Csc ℝ} {b : Array ℝ}
    {cones : List (ConeT ℝ)} {st : Solver.Settings ℝ} {perm : Array Nat} {keep : List Bool}
    (hin : InputOK P q A b cones) (hm : ∀ c ∈ cones, ConeT.modelled c) (hn : 0 < P.n)
    (hperm : PermFor P q A b cones st perm) (hpiv : PivotOK st.lin)
    (hpe : st.presolveEnable = true)
    (hk : Presolve.keepFlags (Presolve.threshold st.infbound) (Cones.newCollapsed cones) b.toList = .ok keep)
    (hc : keep.count true < b.size) (hib : 0 ≤ st.infbound)
    (hlo : 0 < st.equil.minScaling) (hhi : 0 < st.equil.maxScaling)
    (hf0 : 0 < st.maxStepFraction) (hf1 : st.maxStepFraction < 1) (hmv : 0 < st.maxValue) :
    ∃ S r, Solver.new P q A b cones st perm = .ok S ∧ S.solve st = .ok r ∧
      (∀ tol : Info.Tols ℝ,
        (r.S.solution.status = .primalInfeasible ∧ tol = st.info.full)
          ∨ (r.S.solution.status = .almostPrimalInfeasible ∧ tol = st.info.reduced
              ∧ 1 ≤ (1 / st.info.reduced.ktratio) * 1000) →
        0 ≤ tol.infeas_abs →
        ∃ (c κ : ℝ), 0 < c ∧ 0 < κ ∧
          let bc := ProblemData.capB b st.infbound
          let z := vecFn r.S.solution.z A.m
          c * κ * dot (vecFn bc A.m) z < -tol.infeas_abs
          ∧ dot (vecFn bc A.m) z < 0
          ∧ nrm (mulVT (matFn A A.m A.n) z)
              < tol.infeas_rel * c * (-(dot (vecFn bc A.m) z)) * max 1 (κ * nrm z)
          ∧ (∀ i, InfoPresolve.keepFn keep A.m i = false → z i = 0)
          ∧ Equil.CompositeMem Equil.ConeMemDual (Cones.newCollapsed cones) r.S.solution.z.toList)
      ∧ (∀ tol : Info.Tols ℝ,
        (r.S.solution.status = .dualInfeasible ∧ tol = st.info.full)
          ∨ (r.S.solution.status = .almostDualInfeasible ∧ tol = st.info.reduced
              ∧ 1 ≤ (1 / st.info.reduced.ktratio) * 1000) →
        0 ≤ tol.infeas_abs →
        ∃ (Pn : Csc ℝ) (c κ : ℝ), ProblemData.triuStep P = .ok Pn ∧ 0 < c ∧ 0 < κ ∧
          let x := vecFn r.S.solution.x A.n
          let sv := vecFn r.S.solution.s A.m
          let kp := InfoPresolve.keepFn keep A.m
          c * κ * dot (vecFn q A.n) x < -tol.infeas_abs
          ∧ dot (vecFn q A.n) x < 0
          ∧ nrm (mulV (symFn Pn A.n) x)
              < tol.infeas_rel * (-(dot (vecFn q A.n) x)) * max 1 (κ * nrm x)
          ∧ InfoPresolve.nrmKept kp (fun k => mulV (matFn A A.m A.n) x k + sv k)
              < tol.infeas_rel * c * (-(dot (vecFn q A.n) x))
                  * max 1 (κ * (nrm x + InfoPresolve.nrmKept kp sv))
          ∧ (∀ i, kp i = false → sv i = st.infbound)
          ∧ Equil.CompositeMem Equil.ConeMem (Cones.newCollapsed cones) r.S.solution.s.toList
          ∧ r.S.solution.x.size = A.n) := by
  obtain ⟨S, r, hnew, hr⟩ := run_total_real hin hm hn hperm hpiv
  refine ⟨S, r, hnew, hr, ?_, ?_⟩
  · rintro tol (⟨hst, rfl⟩ | ⟨hst, rfl, hgate⟩) htabs
    · exact full_primal_infeasible_certifies_presolved hin hpe hk hc hlo hhi hf0 hf1 hmv htabs hnew hr hst
    · exact full_almost_primal_infeasible_certifies_presolved hin hpe hk hc hlo hhi hf0 hf1 hmv htabs
        hgate hnew hr hst
  · rintro tol (⟨hst, rfl⟩ | ⟨hst, rfl, hgate⟩) htabs
    · exact full_dual_infeasible_certifies_presolved hin hpe hk hc hib hlo hhi hf0 hf1 hmv htabs hnew hr hst
    · exact full_almost_dual_infeasible_certifies_presolved hin hpe hk hc hib hlo hhi hf0 hf1 hmv htabs
        hgate hnew hr hst

/-! ### non-vacuity: over `ℝ` every hypothesis of `full_infeasible_total` holds on
`min x s.t. x + s = 1, s ≥ 0` with the defaults of `DefaultSettings` (`Lemmas/SolverTotal.lean`) -/

example : InputOK FullExample.P #[1] FullExample.A #[1] ([.nonneg 1] : List (ConeT ℝ)) :=
  FullExample.inputOK
example : ∀ c ∈ ([.nonneg 1] : List (ConeT ℝ)), ConeT.modelled c := FullExample.modelled
example : PermFor FullExample.P #[1] FullExample.A #[1] ([.nonneg 1] : List (ConeT ℝ))
    FullExample.stR #[0, 1] := FullExample.permFor _ rfl
example : PivotOK FullExample.stR.lin := FullExample.stR_pivotOK
example : FmaxOK ℝ := fmaxOK_real
/-- the side conditions inside the implications: `0 ≤ tol_infeas_abs` (full and reduced), and the gate
for the default `reduced_tol_ktratio = 1e-4` -/
example : 0 ≤ FullExample.stR.info.full.infeas_abs ∧ 0 ≤ FullExample.stR.info.reduced.infeas_abs :=
  ⟨FullExample.stR_ok.2.2.2.2.2.2.1, FullExample.stR_ok.2.2.2.2.2.2.2⟩
example : (1 : ℝ) ≤ (1 / FullExample.stR.info.reduced.ktratio) * 1000 := by
  show (1 : ℝ) ≤ (1 / (1 / 10000)) * 1000; norm_num
/-- the theorem applies: `new` returns a solver object on this instance and `solve()` returns -/
example : ∃ S r, Solver.new FullExample.P #[1] FullExample.A #[1] ([.nonneg 1] : List (ConeT ℝ))
      FullExample.stR #[0, 1] = .ok S ∧ S.solve FullExample.stR = .ok r := by
  obtain ⟨h0, h1, h2, h3, h4, h5, _⟩ := FullExample.stR_ok
  obtain ⟨S, r, a, b, _⟩ := full_infeasible_total FullExample.inputOK FullExample.modelled (by decide)
    (FullExample.permFor _ rfl) FullExample.stR_pivotOK (Or.inl h0) h1 h2 h3 h4 h5
  exact ⟨S, r, a, b⟩

end Clarabel.C02
