/-
  C14 — nonsymmetric-cone barrier calculus matches the cones' mathematical definitions.
  Property theorems only (class [R] over ℝ unless tagged otherwise); helper lemmas live in
  `ClarabelProofs/Lemmas/Nonsym*.lean`.
-/
import ClarabelProofs.Lemmas.NonsymExp
import ClarabelProofs.Lemmas.NonsymPow
import ClarabelProofs.Lemmas.NonsymPd
import ClarabelProofs.Lemmas.NonsymExpConj
import ClarabelProofs.Lemmas.NonsymGenPow
import ClarabelProofs.Lemmas.NonsymPowConj
import ClarabelProofs.Lemmas.NonsymExp3
import ClarabelProofs.Lemmas.NonsymChol
import ClarabelProofs.Lemmas.NonsymPow3
import ClarabelProofs.Lemmas.NonsymPowNewton
import ClarabelProofs.Lemmas.NonsymGenPowHess
import ClarabelProofs.Lemmas.NonsymGenPowScaling
import ClarabelProofs.Lemmas.NonsymExpStart
import ClarabelProofs.Lemmas.NonsymGenPowNewton
import ClarabelProofs.Lemmas.ConesGenPowConvex
import ClarabelProofs.Lemmas.NonsymExpWrightArg

namespace Clarabel.C14
open Clarabel

/-! ## Exponential cone -/

/-- interior of the exponential cone `K = cl{ s : s₃ ≥ s₂ e^{s₁/s₂}, s₂ > 0 }` (0-based) -/
def ExpPrimalInterior (s0 s1 s2 : ℝ) : Prop := 0 < s1 ∧ 0 < s2 ∧ s1 * Real.exp (s0 / s1) < s2

/-- interior of the dual cone `K* = cl{ z : z₃ ≥ -z₁ e^{z₂/z₁ - 1}, z₁ < 0 }` (0-based) -/
def ExpDualInterior (z0 z1 z2 : ℝ) : Prop := z0 < 0 ∧ 0 < z2 ∧ -z0 * Real.exp (z1 / z0 - 1) < z2

/-- [R] `is_primal_feasible` decides membership in the interior of the exponential cone. -/
theorem exp_isPrimalFeasible_iff (s0 s1 s2 : ℝ) :
    Exp.isPrimalFeasible s0 s1 s2 = true ↔ ExpPrimalInterior s0 s1 s2 := by
  unfold Exp.isPrimalFeasible ExpPrimalInterior
  by_cases h2 : 0 < s2 <;> by_cases h1 : 0 < s1 <;> simp [h1, h2]
  rw [Nonsym.logsafe_of_pos (div_pos h2 h1)]
  have hd := div_pos h2 h1
  have key : s0 / s1 < Real.log (s2 / s1) ↔ s1 * Real.exp (s0 / s1) < s2 := by
    rw [Real.lt_log_iff_exp_lt hd, lt_div_iff₀ h1, mul_comm]
  rw [← key, div_lt_iff₀ h1, mul_comm]

/-- the model's residual `r = z₁ - z₀ - z₀ log(-z₂/z₀)` is positive exactly on the dual cone -/
theorem exp_dualInt_iff (z0 z1 z2 : ℝ) : Exp.DualInt z0 z1 z2 ↔ ExpDualInterior z0 z1 z2 := by
  unfold ExpDualInterior
  constructor
  · rintro ⟨h0, h2, hr⟩
    refine ⟨h0, h2, ?_⟩
    have hd := Exp.arg_pos h0 h2
    unfold Exp.dualR Exp.dualL at hr
    rw [Nonsym.logsafe_of_pos hd] at hr
    have hlt : z1 / z0 - 1 < Real.log ((-z2) / z0) := by
      have n0 : z0 ≠ 0 := ne_of_lt h0
      have : z1 / z0 - 1 = (z1 - z0) / z0 := by field_simp
      rw [this, div_lt_iff_of_neg h0]; linarith
    rw [Real.lt_log_iff_exp_lt hd, lt_div_iff_of_neg h0] at hlt
    linarith
  · rintro ⟨h0, h2, hlt⟩
    refine ⟨h0, h2, ?_⟩
    have hd := Exp.arg_pos h0 h2
    unfold Exp.dualR Exp.dualL
    rw [Nonsym.logsafe_of_pos hd]
    have h1 : z1 / z0 - 1 < Real.log ((-z2) / z0) := by
      rw [Real.lt_log_iff_exp_lt hd, lt_div_iff_of_neg h0]; linarith
    have n0 : z0 ≠ 0 := ne_of_lt h0
    have : z1 / z0 - 1 = (z1 - z0) / z0 := by field_simp
    rw [this, div_lt_iff_of_neg h0] at h1
    linarith

/-- [R] `is_dual_feasible` decides membership in the interior of the dual exponential cone. -/
theorem exp_isDualFeasible_iff (z0 z1 z2 : ℝ) :
    Exp.isDualFeasible z0 z1 z2 = true ↔ ExpDualInterior z0 z1 z2 := by
  rw [← exp_dualInt_iff]
  unfold Exp.isDualFeasible
  constructor
  · intro h
    by_cases h2 : 0 < z2 <;> by_cases h0 : z0 < 0 <;> simp [h0, h2] at h
    refine ⟨h0, h2, ?_⟩
    unfold Exp.dualR Exp.dualL
    linarith
  · rintro ⟨h0, h2, hr⟩
    unfold Exp.dualR Exp.dualL at hr
    simp [h0, h2]
    linarith

/-- [R] The stored gradient is the gradient of the dual barrier `f*`: for every interior point
of `K*` the three partial derivatives of `barrier_dual` are the entries of `grad` written by
`update_dual_grad_H`. -/
theorem exp_grad_is_derivative {z0 z1 z2 : ℝ} (h : ExpDualInterior z0 z1 z2) :
    HasDerivAt (fun t => Exp.barrierDual t z1 z2) (Exp.gradDual (z0, z1, z2)).1 z0 ∧
    HasDerivAt (fun t => Exp.barrierDual z0 t z2) (Exp.gradDual (z0, z1, z2)).2.1 z1 ∧
    HasDerivAt (fun t => Exp.barrierDual z0 z1 t) (Exp.gradDual (z0, z1, z2)).2.2 z2 := by
  have hi := (exp_dualInt_iff z0 z1 z2).mpr h
  exact ⟨Exp.barrier_d0 hi, Exp.barrier_d1 hi, Exp.barrier_d2 hi⟩

/-- [R] The stored `H_dual` is the Hessian of `f*`: all nine partial derivatives of the three
gradient entries equal the packed entries `H[index_linear(i,j)]` (complete for this cone). -/
theorem exp_hess_is_derivative {z0 z1 z2 : ℝ} (h : ExpDualInterior z0 z1 z2) :
    let H := Exp.hessDual (z0, z1, z2)
    (HasDerivAt (fun t => Exp.grad0 t z1 z2) H.d0 z0 ∧
     HasDerivAt (fun t => Exp.grad0 z0 t z2) H.d1 z1 ∧
     HasDerivAt (fun t => Exp.grad0 z0 z1 t) H.d3 z2) ∧
    (HasDerivAt (fun t => Exp.grad1 t z1 z2) H.d1 z0 ∧
     HasDerivAt (fun t => Exp.grad1 z0 t z2) H.d2 z1 ∧
     HasDerivAt (fun t => Exp.grad1 z0 z1 t) H.d4 z2) ∧
    (HasDerivAt (fun t => Exp.grad2 t z1 z2) H.d3 z0 ∧
     HasDerivAt (fun t => Exp.grad2 z0 t z2) H.d4 z1 ∧
     HasDerivAt (fun t => Exp.grad2 z0 z1 t) H.d5 z2) := by
  have hi := (exp_dualInt_iff z0 z1 z2).mpr h
  exact ⟨⟨Exp.grad0_d0 hi, Exp.grad0_d1 hi, Exp.grad0_d2 hi⟩,
    ⟨Exp.grad1_d0 hi, Exp.grad1_d1 hi, Exp.grad1_d2 hi⟩,
    ⟨Exp.grad2_d0 hi, Exp.grad2_d1 hi, Exp.grad2_d2 hi⟩⟩

/-- [R] log-homogeneity of degree ν = 3: `⟨∇f*(z), z⟩ = -3`, and `H z = -∇f*(z)`. -/
theorem exp_log_homogeneity {z0 z1 z2 : ℝ} (h : ExpDualInterior z0 z1 z2) :
    let g := Exp.gradDual (z0, z1, z2)
    g.1 * z0 + g.2.1 * z1 + g.2.2 * z2 = -3 ∧
    (Exp.hessDual (z0, z1, z2)).mul (z0, z1, z2) = (-g.1, -g.2.1, -g.2.2) := by
  obtain ⟨h0, h2, hr⟩ := (exp_dualInt_iff z0 z1 z2).mpr h
  have n0 : z0 ≠ 0 := ne_of_lt h0
  have n2 : z2 ≠ 0 := ne_of_gt h2
  have nr : Exp.dualR z0 z1 z2 ≠ 0 := ne_of_gt hr
  have hz1 : z1 = Exp.dualR z0 z1 z2 + z0 * Exp.dualL z0 z2 + z0 := by unfold Exp.dualR; ring
  simp only [Exp.hessDual, Exp.gradDual, Sym3.mul, Exp.h00, Exp.h01, Exp.h11, Exp.h02, Exp.h12, Exp.h22,
      Exp.grad0, Exp.grad1, Exp.grad2, Nonsym.recip, Prod.mk.injEq]
  generalize Exp.dualR z0 z1 z2 = r at *
  generalize Exp.dualL z0 z2 = L at *
  subst hz1
  refine ⟨?_, ?_, ?_, ?_⟩ <;> field_simp <;> ring

example : ExpDualInterior (-1) 0 1 := by
  refine ⟨by norm_num, by norm_num, ?_⟩
  have : Real.exp (0 / (-1) - 1) < 1 := by
    rw [Real.exp_lt_one_iff]; norm_num
  linarith

example : ExpPrimalInterior 0 1 2 := by
  refine ⟨by norm_num, by norm_num, ?_⟩
  simp

/-- [R] Conjugacy of `gradient_primal` (conditional on the scalar solve): if `ω > 0` solves the
Wright-omega equation `ω + log ω = 1 - s₁/s₂ - log(s₂/s₃)` exactly, then `g = gradient_primal(s)`
satisfies `-g ∈ int K*`, `∇f*(-g) = -s` and `⟨s, g⟩ = -3`.  (What `_wright_omega` returns
satisfies the equation only to ~1e-15; that gap is measured by the harness oracle.) -/
theorem exp_conjugacy {s0 s1 s2 w : ℝ} (hs : ExpPrimalInterior s0 s1 s2) (hw0 : 0 < w)
    (heq : w + Real.log w = Exp.omegaArg s0 s1 s2) :
    let g := Exp.gradientPrimalOf w s0 s1 s2
    ExpDualInterior (-g.1) (-g.2.1) (-g.2.2) ∧
    Exp.gradDual (-g.1, -g.2.1, -g.2.2) = (-s0, -s1, -s2) ∧
    g.1 * s0 + g.2.1 * s1 + g.2.2 * s2 = -3 := by
  obtain ⟨h1, h2, hlt⟩ := hs
  have harg : 1 < Exp.omegaArg s0 s1 s2 := by
    unfold Exp.omegaArg
    rw [Nonsym.logsafe_of_pos (div_pos h1 h2)]
    have hd := div_pos h2 h1
    have key : s0 / s1 < Real.log (s2 / s1) := by
      rw [Real.lt_log_iff_exp_lt hd, lt_div_iff₀ h1, mul_comm]; exact hlt
    have : Real.log (s1 / s2) = -Real.log (s2 / s1) := by
      rw [← Real.log_inv, inv_div]
    rw [this]; linarith
  have hw := Exp.one_lt_of_omega hw0 harg heq
  obtain ⟨hint, hgrad⟩ := Exp.conj_main h1 h2 hw heq
  simp only at hint hgrad ⊢
  have hint' := (exp_dualInt_iff _ _ _).mp hint
  refine ⟨hint', hgrad, ?_⟩
  have hh := (exp_log_homogeneity hint').1
  simp only [hgrad] at hh
  linarith

/-- [R] `C14.third_order` (exponential cone).  The vector computed by `higher_correction` after
the solve `H u = Δs` is one half of the third derivative of the dual barrier contracted with `u`
and `v`: for every interior `z` and all `u, v`,
`d/dt [ H_dual(z + t u) v ]_{t=0} = 2 · higher_correction_of(z; u, v)` (all three rows), i.e.
`η = +½ ∇³f*(z)[u, v]` (the sign the code computes; `combined_ds_shift` subtracts it). -/
theorem exp_third_order {z0 z1 z2 : ℝ} (h : ExpDualInterior z0 z1 z2) (u0 u1 u2 v0 v1 v2 : ℝ) :
    let η := Exp.higherCorrectionOf (z0, z1, z2) (u0, u1, u2) (v0, v1, v2)
    HasDerivAt (fun t => ((Exp.hessDual (z0 + t * u0, z1 + t * u1, z2 + t * u2)).mul (v0, v1, v2)).1) (2 * η.1) 0 ∧
    HasDerivAt (fun t => ((Exp.hessDual (z0 + t * u0, z1 + t * u1, z2 + t * u2)).mul (v0, v1, v2)).2.1) (2 * η.2.1) 0 ∧
    HasDerivAt (fun t => ((Exp.hessDual (z0 + t * u0, z1 + t * u1, z2 + t * u2)).mul (v0, v1, v2)).2.2) (2 * η.2.2) 0 := by
  have hi := (exp_dualInt_iff z0 z1 z2).mpr h
  exact ⟨Exp.third_row0 u0 u1 u2 v0 v1 v2 hi, Exp.third_row1 u0 u1 u2 v0 v1 v2 hi,
    Exp.third_row2 u0 u1 u2 v0 v1 v2 hi⟩

/-- [F]/[S] the `u` of `higher_correction` is `H⁻¹Δs`: when the explicit 3×3 Cholesky
factorisation of the stored `H_dual` succeeds, the explicit solve returns `u` with `H u = Δs` and
`higher_correction = higher_correction_of(z; u, v)`; when it fails the correction is zero. -/
theorem higher_correction_solve (H : Sym3 ℝ) (z ds v : V3 ℝ) :
    (∀ L, Sym3.choleskyFactor H = (true, L) →
      H.mul (Sym3.choleskySolve L ds) = ds ∧
      Exp.higherCorrection H z ds v = Exp.higherCorrectionOf z (Sym3.choleskySolve L ds) v) ∧
    (∀ L, Sym3.choleskyFactor H = (false, L) → Exp.higherCorrection H z ds v = (0, 0, 0)) := by
  constructor
  · intro L hL
    refine ⟨Sym3.cholesky_solve_correct H L ds hL, ?_⟩
    unfold Exp.higherCorrection
    rw [hL]
    rfl
  · intro L hL
    unfold Exp.higherCorrection
    rw [hL]
    rfl

/-! ## Power cone (exponent `a ∈ (0,1)`) -/

/-- interior of `K = { s : s₁^a s₂^{1-a} ≥ |s₃|, s₁,s₂ ≥ 0 }` -/
def PowPrimalInterior (a s0 s1 s2 : ℝ) : Prop := 0 < s0 ∧ 0 < s1 ∧ |s2| < s0 ^ a * s1 ^ (1 - a)

/-- interior of `K* = { z : (z₁/a)^a (z₂/(1-a))^{1-a} ≥ |z₃|, z₁,z₂ ≥ 0 }` -/
def PowDualInterior (a z0 z1 z2 : ℝ) : Prop :=
  0 < z0 ∧ 0 < z1 ∧ |z2| < (z0 / a) ^ a * (z1 / (1 - a)) ^ (1 - a)

/-- [R] `is_primal_feasible` (the `exp(2a log s₁ + 2(1-a) log s₂) - s₃² > 0` form) decides
membership in the interior of the power cone. -/
theorem pow_isPrimalFeasible_iff (a s0 s1 s2 : ℝ) :
    Pow.isPrimalFeasible a s0 s1 s2 = true ↔ PowPrimalInterior a s0 s1 s2 := by
  unfold Pow.isPrimalFeasible PowPrimalInterior
  by_cases h0 : 0 < s0 <;> by_cases h1 : 0 < s1 <;> simp [h0, h1]
  rw [Nonsym.logsafe_of_pos h0, Nonsym.logsafe_of_pos h1, Pow.exp_two_geo h0 h1, ← sq, sq_lt_sq,
    abs_of_pos (mul_pos (Real.rpow_pos_of_pos h0 _) (Real.rpow_pos_of_pos h1 _))]

/-- [R] `is_dual_feasible` decides membership in the interior of the dual power cone. -/
theorem pow_isDualFeasible_iff {a : ℝ} (ha0 : 0 < a) (ha1 : a < 1) (z0 z1 z2 : ℝ) :
    Pow.isDualFeasible a z0 z1 z2 = true ↔ PowDualInterior a z0 z1 z2 := by
  unfold Pow.isDualFeasible PowDualInterior
  have h1a : 0 < 1 - a := by linarith
  by_cases h0 : 0 < z0 <;> by_cases h1 : 0 < z1 <;> simp [h0, h1]
  have p0 := div_pos h0 ha0
  have p1 := div_pos h1 h1a
  have e : a * 2 * Real.log (z0 / a) + (1 - a) * Real.log (z1 / (1 - a)) * 2
      = 2 * a * Real.log (z0 / a) + 2 * (1 - a) * Real.log (z1 / (1 - a)) := by ring
  rw [Nonsym.logsafe_of_pos p0, Nonsym.logsafe_of_pos p1, e, Pow.exp_two_geo p0 p1, ← sq, sq_lt_sq,
    abs_of_pos (mul_pos (Real.rpow_pos_of_pos p0 _) (Real.rpow_pos_of_pos p1 _))]

/-- the model's `ψ = phi - z₃²` is positive exactly on the interior of the dual cone -/
theorem pow_dualInt_iff {a : ℝ} (ha0 : 0 < a) (ha1 : a < 1) (z0 z1 z2 : ℝ) :
    Pow.DualInt a z0 z1 z2 ↔ PowDualInterior a z0 z1 z2 := by
  unfold PowDualInterior
  have h1a : 0 < 1 - a := by linarith
  constructor
  · rintro ⟨_, _, h0, h1, hψ⟩
    refine ⟨h0, h1, ?_⟩
    unfold Pow.psiDual at hψ
    rw [Pow.phiDual_eq_sq ha0 ha1 h0 h1, ← sq, sub_pos, sq_lt_sq,
      abs_of_pos (mul_pos (Real.rpow_pos_of_pos (div_pos h0 ha0) _) (Real.rpow_pos_of_pos (div_pos h1 h1a) _))] at hψ
    exact hψ
  · rintro ⟨h0, h1, hlt⟩
    refine ⟨ha0, ha1, h0, h1, ?_⟩
    unfold Pow.psiDual
    rw [Pow.phiDual_eq_sq ha0 ha1 h0 h1, ← sq, sub_pos, sq_lt_sq,
      abs_of_pos (mul_pos (Real.rpow_pos_of_pos (div_pos h0 ha0) _) (Real.rpow_pos_of_pos (div_pos h1 h1a) _))]
    exact hlt

/-- [R] The stored gradient of the power cone is the gradient of its dual barrier. -/
theorem pow_grad_is_derivative {a z0 z1 z2 : ℝ} (ha0 : 0 < a) (ha1 : a < 1)
    (h : PowDualInterior a z0 z1 z2) :
    HasDerivAt (fun t => Pow.barrierDual a t z1 z2) (Pow.gradDual a (z0, z1, z2)).1 z0 ∧
    HasDerivAt (fun t => Pow.barrierDual a z0 t z2) (Pow.gradDual a (z0, z1, z2)).2.1 z1 ∧
    HasDerivAt (fun t => Pow.barrierDual a z0 z1 t) (Pow.gradDual a (z0, z1, z2)).2.2 z2 := by
  have hi := (pow_dualInt_iff ha0 ha1 z0 z1 z2).mpr h
  exact ⟨Pow.barrier_d0 hi, Pow.barrier_d1 hi, Pow.barrier_d2 hi⟩

/-- [R] The stored `H_dual` of the power cone is the Hessian of its dual barrier (all nine
partial derivatives of the gradient entries). -/
theorem pow_hess_is_derivative {a z0 z1 z2 : ℝ} (ha0 : 0 < a) (ha1 : a < 1)
    (h : PowDualInterior a z0 z1 z2) :
    let H := Pow.hessDual a (z0, z1, z2)
    (HasDerivAt (fun t => Pow.grad0 a t z1 z2) H.d0 z0 ∧
     HasDerivAt (fun t => Pow.grad0 a z0 t z2) H.d1 z1 ∧
     HasDerivAt (fun t => Pow.grad0 a z0 z1 t) H.d3 z2) ∧
    (HasDerivAt (fun t => Pow.grad1 a t z1 z2) H.d1 z0 ∧
     HasDerivAt (fun t => Pow.grad1 a z0 t z2) H.d2 z1 ∧
     HasDerivAt (fun t => Pow.grad1 a z0 z1 t) H.d4 z2) ∧
    (HasDerivAt (fun t => Pow.grad2 a t z1 z2) H.d3 z0 ∧
     HasDerivAt (fun t => Pow.grad2 a z0 t z2) H.d4 z1 ∧
     HasDerivAt (fun t => Pow.grad2 a z0 z1 t) H.d5 z2) := by
  have hi := (pow_dualInt_iff ha0 ha1 z0 z1 z2).mpr h
  exact ⟨⟨Pow.grad0_d0 hi, Pow.grad0_d1 hi, Pow.grad0_d2 hi⟩,
    ⟨Pow.grad1_d0 hi, Pow.grad1_d1 hi, Pow.grad1_d2 hi⟩,
    ⟨Pow.grad2_d0 hi, Pow.grad2_d1 hi, Pow.grad2_d2 hi⟩⟩

/-- [R] log-homogeneity of degree ν = 3 for the power cone: `⟨∇f*(z), z⟩ = -3`, `H z = -∇f*(z)`. -/
theorem pow_log_homogeneity {a z0 z1 z2 : ℝ} (ha0 : 0 < a) (ha1 : a < 1)
    (h : PowDualInterior a z0 z1 z2) :
    let g := Pow.gradDual a (z0, z1, z2)
    g.1 * z0 + g.2.1 * z1 + g.2.2 * z2 = -3 ∧
    (Pow.hessDual a (z0, z1, z2)).mul (z0, z1, z2) = (-g.1, -g.2.1, -g.2.2) := by
  obtain ⟨_, _, h0, h1, hψ⟩ := (pow_dualInt_iff ha0 ha1 z0 z1 z2).mpr h
  have n0 : z0 ≠ 0 := ne_of_gt h0
  have n1 : z1 ≠ 0 := ne_of_gt h1
  have nψ : Pow.psiDual a z0 z1 z2 ≠ 0 := ne_of_gt hψ
  simp only [Pow.hessDual, Pow.gradDual, Sym3.mul, Pow.h00, Pow.h01, Pow.h11, Pow.h02, Pow.h12, Pow.h22,
    Pow.gpsi0, Pow.gpsi1, Pow.gpsi2, Pow.grad0, Pow.grad1, Pow.grad2, Pow.psiDual, Prod.mk.injEq] at *
  generalize Pow.phiDual a z0 z1 = φ at *
  have nψ' : φ - z2 ^ 2 ≠ 0 := by rw [sq]; exact nψ
  refine ⟨?_, ?_, ?_, ?_⟩ <;> field_simp <;> ring

/-- [R] `unit_initialization` of the power cone is exactly the central point:
`s = z`, `s = -∇f*(z)` and `μ = ⟨s,z⟩/3 = 1`. -/
theorem pow_central_point {a : ℝ} (ha0 : 0 < a) (ha1 : a < 1) :
    let u := Pow.unitInitialization a
    Pow.gradDual a u = (-u.1, -u.2.1, -u.2.2) ∧ (u.1 * u.1 + u.2.1 * u.2.1 + u.2.2 * u.2.2) / 3 = 1 ∧
    PowDualInterior a u.1 u.2.1 u.2.2 ∧ PowPrimalInterior a u.1 u.2.1 u.2.2 := by
  have p0 : (0 : ℝ) < 1 + a := by linarith
  have p1 : (0 : ℝ) < 1 + (1 - a) := by linarith
  have s0 := Real.sqrt_pos.mpr p0
  have s1 := Real.sqrt_pos.mpr p1
  have q0 := Real.mul_self_sqrt p0.le
  have q1 := Real.mul_self_sqrt p1.le
  have hφ := Pow.phiDual_pos ha0 ha1 s0 s1
  simp only [Pow.unitInitialization, real_sqrt_eq]
  refine ⟨?_, ?_, ?_, ?_⟩
  · simp only [Pow.gradDual, Pow.grad0, Pow.grad1, Pow.grad2, Pow.psiDual, Prod.mk.injEq, mul_zero, sub_zero,
      zero_div, neg_zero]
    generalize Pow.phiDual a √(1 + a) √(1 + (1 - a)) = φ at *
    have nφ : φ ≠ 0 := ne_of_gt hφ
    refine ⟨?_, ?_, trivial⟩
    · field_simp; linarith
    · field_simp; linarith
  · rw [q0, q1]; ring
  · refine ⟨s0, s1, ?_⟩
    rw [abs_zero]
    exact mul_pos (Real.rpow_pos_of_pos (div_pos s0 ha0) _) (Real.rpow_pos_of_pos (div_pos s1 (by linarith)) _)
  · refine ⟨s0, s1, ?_⟩
    rw [abs_zero]
    exact mul_pos (Real.rpow_pos_of_pos s0 _) (Real.rpow_pos_of_pos s1 _)

example : PowDualInterior (1 / 2) 1 1 0 := by
  refine ⟨by norm_num, by norm_num, ?_⟩
  rw [abs_zero]; positivity

example : PowPrimalInterior (1 / 2) 1 1 0 := by
  refine ⟨by norm_num, by norm_num, ?_⟩
  rw [abs_zero]; positivity

/-- [R] Conjugacy of the power cone's `gradient_primal`, conditional on the scalar solve: if
`x > 0` is an exact root of the Newton–Raphson target `f0` (model: `Pow.nrF0`), then
`g = gradient_primal(s)` built from `g[2] = ±x` satisfies `-g ∈ int K*` and `∇f*(-g) = -s`.

**Finding (NR-START-RIGHT-OF-ROOT, repaired in /repo 54b486f; the text below describes the PRE-FIX
code, model `Pow.nrX0Old`).**  The hypothesis was *not* met by the old code: the start
`x0 = -1/s₃ + (2s₃ + √(φ²/s₃² + 3φ))/(φ - s₃²)` (`Pow.nrX0Old`) is an upper bound of the root
(`x0/root ∈ [1, 2.25]`, equal to the root exactly when `a = 1/2`), `f0` is decreasing, so the first
Newton step is negative and `newton_raphson_onesided` returns `x0` unrefined.  Measured on the
implementation (and reproduced bit-for-bit by the model at `Float`): `a = 0.3, s = (1,2,-0.5)`
gives `g = (-1.43833, -1.01139, -0.92220)` with `|g[2]| = x0`, while the root is `0.86605`;
`∇f*(-g) = (-1.00705, -2.0234, 0.4633) ≠ -s`.  Round 3: the inequality `f0(x0) ≤ 0` and the
consequence `newtonRaphson = (x0, 1 pass)` are now kernel-checked for every `a ∈ (0,1)` and every
interior point (`pow_newton_start_right_of_root`, `pow_gradient_primal_unrefined`), together with two
provably one-sided replacement starts (`pow_newton_onesided_repair`, `pow_newton_psi_start_repair`);
the size of the resulting error stays with the harness oracle `pow.gradient_primal`. -/
theorem pow_conjugacy {a s0 s1 s2 x : ℝ} (ha0 : 0 < a) (ha1 : a < 1) (h0 : 0 < s0) (h1 : 0 < s1)
    (h2 : s2 ≠ 0) (hx : 0 < x)
    (hf : Pow.nrF0 |s2| (powf s0 (2 * a) * powf s1 (2 - a * 2)) a x = 0) :
    let g := Pow.gradientPrimalOf a x s0 s1 s2
    PowDualInterior a (-g.1) (-g.2.1) (-g.2.2) ∧
    Pow.gradDual a (-g.1, -g.2.1, -g.2.2) = (-s0, -s1, -s2) := by
  obtain ⟨hint, hgrad⟩ := Pow.conj_main ha0 ha1 h0 h1 h2 hx hf
  exact ⟨(pow_dualInt_iff ha0 ha1 _ _ _).mp hint, hgrad⟩

/-- [F] Whatever value the scalar solve returns, the power cone's primal gradient satisfies
`⟨s, g(s)⟩ = -3` exactly (the first two entries are built from the third).  This is the only
property of `g(s)` that `pd_scaling` needs. -/
theorem pow_gradient_primal_inner {a s0 s1 s2 x : ℝ} (h0 : s0 ≠ 0) (h1 : s1 ≠ 0) :
    let g := Pow.gradientPrimalOf a x s0 s1 s2
    g.1 * s0 + g.2.1 * s1 + g.2.2 * s2 = -3 := by
  simp only [Pow.gradientPrimalOf]
  field_simp
  ring

/-! ## Generalised power cone -/

/-- [R] `unit_initialization` of the generalised power cone is the central point in every
dimension: with `z = s = (√(1+αᵢ))ᵢ ⊕ 0`, `update_dual_grad_H` succeeds (`ζ > 0`) and the stored
gradient is `-z`, i.e. `s = -∇f*(z)`. -/
theorem genpow_central_point (al : Array ℝ) (dim2 : Nat) (hal : ∀ a ∈ al.toList, 0 < a) :
    ∃ D, GenPow.updateDualGradH al (GenPow.unitInitialization al dim2) = .ok D ∧
      D.grad = Vec.negate (GenPow.unitInitialization al dim2) :=
  GenPow.central al dim2 hal

/-- interior of the generalised power cone `K = { (u,w) : Π uᵢ^{αᵢ} ≥ ‖w‖, u ≥ 0 }`, in squared
form: `u > 0` and `‖w‖² < Π uᵢ^{2αᵢ}` (lists: `al` exponents, `u`, `w` the two coordinate classes) -/
def GenPowPrimalInterior (al u w : List ℝ) : Prop :=
  (∀ x ∈ u, 0 < x) ∧ (w.map (fun x => x * x)).sum < ((al.zip u).map (fun p => p.2 ^ (2 * p.1))).prod

/-- interior of the dual cone `K* = { (u,w) : Π (uᵢ/αᵢ)^{αᵢ} ≥ ‖w‖, u ≥ 0 }`, in squared form -/
def GenPowDualInterior (al u w : List ℝ) : Prop :=
  (∀ x ∈ u, 0 < x) ∧
    (w.map (fun x => x * x)).sum < ((al.zip u).map (fun p => (p.2 / p.1) ^ (2 * p.1))).prod

/-- [R] (all dimensions) the membership tests of the generalised power cone — the
`exp(Σ 2αᵢ log ·) - ‖w‖² > 0` forms — decide membership in the open primal / dual cone. -/
theorem genpow_membership (al u w : List ℝ) (hlen : al.length = u.length) (ha : ∀ a ∈ al, 0 < a) :
    (GenPow.isPrimalFeasible al.toArray (u ++ w).toArray = .ok true ↔ GenPowPrimalInterior al u w) ∧
    (GenPow.isDualFeasible al.toArray (u ++ w).toArray = .ok true ↔ GenPowDualInterior al u w) :=
  ⟨GenPow.isPrimalFeasible_iff al u w hlen, GenPow.isDualFeasible_iff al u w hlen ha⟩

/-- [R] (all dimensions) the model's `barrier_dual` evaluates to the real function
`GenPow.barrierVal al u w = -log(exp(Σ 2αᵢ log(uᵢ/αᵢ)) - ‖w‖²) - Σ (1-αᵢ) log uᵢ`
(with `logsafe` for `log`), and at an interior point `update_dual_grad_H` succeeds and stores
`grad = [gradU(αᵢ,uᵢ)]ᵢ ++ [gradW(wⱼ)]ⱼ` with `φ = Π(uᵢ/αᵢ)^{2αᵢ}`, `ζ = φ - ‖w‖²`,
`gradU = -(2α/u)φ/ζ - (1-α)/u`, `gradW = (2/ζ) w`. -/
theorem genpow_grad_entries (al u w : List ℝ) (hlen : al.length = u.length)
    (h : GenPowDualInterior al u w) :
    GenPow.barrierDual al.toArray (u ++ w).toArray = .ok (GenPow.barrierVal al u w) ∧
    ∃ D, GenPow.updateDualGradH al.toArray (u ++ w).toArray = .ok D ∧
      D.grad.toList =
        (al.zip u).map (fun p => GenPow.gradU (GenPow.prodPhi al u) (GenPow.prodPhi al u - GenPow.sumSq w) p.1 p.2)
          ++ w.map (GenPow.gradW (GenPow.prodPhi al u - GenPow.sumSq w)) := by
  refine ⟨GenPow.barrierDual_eq al u w hlen, GenPow.updateDualGradH_grad al u w hlen ?_⟩
  have := h.2
  unfold GenPow.prodPhi GenPow.sumSq
  linarith

/-- [R] (all dimensions, every coordinate of both classes) the stored gradient entries are the
partial derivatives of the dual barrier.  A coordinate is singled out by a zipper
`al = a₁ ++ a :: a₂`, `u = u₁ ++ t :: u₂` (resp. `w = w₁ ++ t :: w₂`); `φ`, `ζ` as in
`genpow_grad_entries`. -/
theorem genpow_grad_is_derivative :
    (∀ (a1 a2 u1 u2 w : List ℝ) (a t : ℝ), a1.length = u1.length → (∀ x ∈ a1 ++ a :: a2, 0 < x) →
      GenPowDualInterior (a1 ++ a :: a2) (u1 ++ t :: u2) w →
      HasDerivAt (fun x => GenPow.barrierVal (a1 ++ a :: a2) (u1 ++ x :: u2) w)
        (GenPow.gradU (GenPow.prodPhi (a1 ++ a :: a2) (u1 ++ t :: u2))
          (GenPow.prodPhi (a1 ++ a :: a2) (u1 ++ t :: u2) - GenPow.sumSq w) a t) t) ∧
    (∀ (al u w1 w2 : List ℝ) (t : ℝ), (∀ x ∈ al, 0 < x) →
      GenPowDualInterior al u (w1 ++ t :: w2) →
      HasDerivAt (fun x => GenPow.barrierVal al u (w1 ++ x :: w2))
        (GenPow.gradW (GenPow.prodPhi al u - GenPow.sumSq (w1 ++ t :: w2)) t) t) := by
  constructor
  · intro a1 a2 u1 u2 w a t hlen ha h
    have hu : GenPow.AllPos (u1 ++ t :: u2) := h.1
    have hφ := GenPow.prodPhi_eq_exp _ _ ha hu
    rw [← GenPow.logPhiS_eq _ _ ha hu] at hφ
    have ht : 0 < t := hu t (by simp)
    have hpa : 0 < a := ha a (by simp)
    have hζ : 0 < Real.exp (GenPow.logPhiS (a1 ++ a :: a2) (u1 ++ t :: u2)) - GenPow.sumSq w := by
      rw [← hφ]; have := h.2; unfold GenPow.prodPhi GenPow.sumSq; linarith
    have := GenPow.barrier_dU a1 a2 u1 u2 w a t hlen hpa ht hζ
    rw [← hφ] at this
    exact this
  · intro al u w1 w2 t ha h
    have hu : GenPow.AllPos u := h.1
    have hφ := GenPow.prodPhi_eq_exp _ _ ha hu
    rw [← GenPow.logPhiS_eq _ _ ha hu] at hφ
    have hζ : 0 < Real.exp (GenPow.logPhiS al u) - GenPow.sumSq (w1 ++ t :: w2) := by
      rw [← hφ]; have := h.2; unfold GenPow.prodPhi GenPow.sumSq; linarith
    have := GenPow.barrier_dW al u w1 w2 t hζ
    rw [← hφ] at this
    exact this

/-- [R] (all dimensions) log-homogeneity of degree `ν = dim₁ + 1`: for exponents summing to one,
`⟨∇f*(z), z⟩ = -(dim₁ + 1)` for the stored gradient at every interior point. -/
theorem genpow_log_homogeneity (al u w : List ℝ) (hlen : al.length = u.length) (hsum : al.sum = 1)
    (h : GenPowDualInterior al u w) :
    ∃ D, GenPow.updateDualGradH al.toArray (u ++ w).toArray = .ok D ∧
      Vec.dot D.grad (u ++ w).toArray = -((al.length : ℝ) + 1) := by
  have hζ : 0 < GenPow.prodPhi al u - GenPow.sumSq w := by
    have := h.2; unfold GenPow.prodPhi GenPow.sumSq; linarith
  obtain ⟨D, hD, hg⟩ := GenPow.updateDualGradH_grad al u w hlen hζ
  refine ⟨D, hD, ?_⟩
  have : D.grad = D.grad.toList.toArray := by simp
  rw [this, hg]
  exact GenPow.log_homogeneity al u w hlen h.1 hsum hζ

example : GenPowDualInterior [1 / 2, 1 / 2] [1, 1] [1] := by
  refine ⟨by simp, ?_⟩
  norm_num

/-! ## Primal–dual scaling (3-d cones; class [F] algebra, stated over ℝ) -/

open Nonsym in
/-- [F] `C14.pd_scaling`.  When `use_primal_dual_scaling` takes the primal–dual branch, the matrix
`Hs = ss'/⟨s,z⟩ + δsδs'/⟨δs,δz⟩ + t·aa'` (symmetric by construction: packed storage) maps
`z ↦ s` and the shadow point `z̃ ↦ s̃` — in the code's sign convention `zt = g(s) = -z̃`,
`st = ∇f*(z) = -s̃`, so `Hs zt = st`.  Only log-homogeneity is used: `⟨∇f*(z), z⟩ = -3` and
`⟨s, g(s)⟩ = -3` (so the identities survive an inexact `gradient_primal` as long as `⟨s,g⟩ = -ν`). -/
theorem pd_scaling (Hd : Sym3 ℝ) (st zt s z : V3 ℝ)
    (hst : dotR st z = -3) (hszt : dotR s zt = -3)
    (h1 : (pdQuantities Hd st zt s z).dotSz ≠ 0) (h2 : (pdQuantities Hd st zt s z).dotDsz ≠ 0) :
    let Hs := pdHs Hd st zt s z (pdQuantities Hd st zt s z)
    Hs.mul z = s ∧ Hs.mul zt = st := by
  obtain ⟨t, a, o1, o2, -, hH⟩ := pdHs_eq_rank3 Hd st zt s z (pdQuantities Hd st zt s z)
  obtain ⟨e1, e2, e3, e4⟩ := pdQuantities_fields Hd st zt s z
  simp only at e1 e2 e3 e4 ⊢
  rw [hH, rank3_mul, rank3_mul, o1, o2]
  generalize (pdQuantities Hd st zt s z).dotSz = D1 at *
  generalize (pdQuantities Hd st zt s z).dotDsz = D2 at *
  generalize (pdQuantities Hd st zt s z).mu = mu at *
  generalize (pdQuantities Hd st zt s z).ds = ds at *
  subst e3
  obtain ⟨s0, s1, s2⟩ := s
  obtain ⟨z0, z1, z2⟩ := z
  obtain ⟨st0, st1, st2⟩ := st
  obtain ⟨zt0, zt1, zt2⟩ := zt
  simp only [dotR] at *
  have hmu : mu ≠ 0 := by
    rw [e2]; exact div_ne_zero (by rw [← e1]; exact h1) (by norm_num)
  -- ⟨δs, z⟩ = 0 and ⟨δs,δz⟩ = μ ⟨δs, zt⟩
  have k1 : (s0 + mu * st0) * z0 + (s1 + mu * st1) * z1 + (s2 + mu * st2) * z2 = 0 := by
    have : s0 * z0 + s1 * z1 + s2 * z2 = 3 * mu := by rw [e2]; ring
    linear_combination this + mu * hst
  have k2 : D2 = mu * ((s0 + mu * st0) * zt0 + (s1 + mu * st1) * zt1 + (s2 + mu * st2) * zt2) := by
    rw [e4]; linear_combination k1
  have hq : (s0 + mu * st0) * zt0 + (s1 + mu * st1) * zt1 + (s2 + mu * st2) * zt2 ≠ 0 := by
    intro h0; apply h2; rw [k2, h0, mul_zero]
  have hD1 : D1 = 3 * mu := by rw [e2, e1]; ring
  constructor
  · rw [k1, ← e1, div_self h1]
    simp
  · rw [hszt, k2, hD1]
    simp only [Prod.mk.injEq]
    refine ⟨?_, ?_, ?_⟩ <;> field_simp <;> ring

open Nonsym in
/-- [F] With positive denominators (two of the four tests of the branch; `μ = ⟨s,z⟩/3 > 0`)
the primal–dual `Hs` is positive semidefinite: `x'Hs x = ⟨s,x⟩²/⟨s,z⟩ + ⟨δs,x⟩²/⟨δs,δz⟩ + t⟨a,x⟩²`
with `t = μ‖·‖_F ≥ 0`.  (`pd_scaling_partial`: strict definiteness additionally needs `s, δs, a`
to be linearly independent and `t > 0`; that part is carried by the harness oracle only.) -/
theorem pd_scaling_psd_partial (Hd : Sym3 ℝ) (st zt s z : V3 ℝ)
    (h1 : 0 < (pdQuantities Hd st zt s z).dotSz) (h2 : 0 < (pdQuantities Hd st zt s z).dotDsz) (x : V3 ℝ) :
    0 ≤ (pdHs Hd st zt s z (pdQuantities Hd st zt s z)).quadForm x x := by
  obtain ⟨t, a, -, -, ht, hH⟩ := pdHs_eq_rank3 Hd st zt s z (pdQuantities Hd st zt s z)
  have hmu : 0 ≤ (pdQuantities Hd st zt s z).mu := by
    have : (pdQuantities Hd st zt s z).mu = (pdQuantities Hd st zt s z).dotSz / 3 := rfl
    rw [this]; positivity
  rw [hH, rank3_quadForm]
  have := ht hmu
  positivity

open Nonsym in
/-- [F] Strict positive definiteness of the primal–dual `Hs`: with both denominators positive
(`⟨s,z⟩ > 0`, `⟨δs,δz⟩ > 0` — two of the four tests of the branch), a positive Frobenius weight
`t = μ‖·‖_F` and `z × zt ≠ 0` (the third axis exists), `xᵀ Hs x > 0` for every `x ≠ 0`.
Uses log-homogeneity `⟨∇f*(z), z⟩ = -3` and `⟨s, g(s)⟩ = -3`: then
`det[s; δs; z×zt] = ⟨s,z⟩·⟨δs,zt⟩ ≠ 0` (Binet–Cauchy), so the three rank-one terms span. -/
theorem pd_scaling_posdef (Hd : Sym3 ℝ) (st zt s z : V3 ℝ)
    (hst : dotR st z = -3) (hszt : dotR s zt = -3)
    (h1 : 0 < (pdQuantities Hd st zt s z).dotSz) (h2 : 0 < (pdQuantities Hd st zt s z).dotDsz)
    (ht : 0 < pdWeight Hd st zt (pdQuantities Hd st zt s z)) (hc : cross3 z zt ≠ (0, 0, 0))
    (x : V3 ℝ) (hx : x ≠ (0, 0, 0)) :
    0 < (pdHs Hd st zt s z (pdQuantities Hd st zt s z)).quadForm x x := by
  obtain ⟨k1, k2, k3, k4⟩ := pd_key Hd st zt s z hst
  obtain ⟨k, hk0, hk⟩ := normalize3_smul_ne (cross3 z zt) hc
  rw [pdHs_eq_rank3', rank3_quadForm]
  generalize pdWeight Hd st zt (pdQuantities Hd st zt s z) = t at *
  generalize (pdQuantities Hd st zt s z).dotSz = D1 at *
  generalize (pdQuantities Hd st zt s z).dotDsz = D2 at *
  generalize (pdQuantities Hd st zt s z).mu = mu at *
  generalize (pdQuantities Hd st zt s z).ds = ds at *
  have hmu : 0 < mu := by linarith
  have hA : 0 ≤ dotR s x ^ 2 / D1 := by positivity
  have hB : 0 ≤ dotR ds x ^ 2 / D2 := by positivity
  have hC : 0 ≤ t * dotR (normalize3 (cross3 z zt)) x ^ 2 := by positivity
  by_contra hle
  rw [not_lt] at hle
  have eA : dotR s x ^ 2 / D1 = 0 := by linarith
  have eB : dotR ds x ^ 2 / D2 = 0 := by linarith
  have eC : t * dotR (normalize3 (cross3 z zt)) x ^ 2 = 0 := by linarith
  have dA : dotR s x = 0 := by
    rcases div_eq_zero_iff.mp eA with h | h
    · exact pow_eq_zero_iff (by norm_num) |>.mp h
    · linarith
  have dB : dotR ds x = 0 := by
    rcases div_eq_zero_iff.mp eB with h | h
    · exact pow_eq_zero_iff (by norm_num) |>.mp h
    · linarith
  have dC : dotR (cross3 z zt) x = 0 := by
    rcases mul_eq_zero.mp eC with h | h
    · linarith
    · have h' : dotR (normalize3 (cross3 z zt)) x = 0 := pow_eq_zero_iff (by norm_num) |>.mp h
      rw [hk] at h'
      have : k * dotR (cross3 z zt) x = 0 := by
        unfold dotR at h' ⊢; simp only at h' ⊢; linear_combination h'
      exact (mul_eq_zero.mp this).resolve_left hk0
  apply hx
  apply eq_zero_of_dots s ds (cross3 z zt) x _ dA dB dC
  rw [det_binet, k1, ← k4, hszt]
  have hq : dotR ds zt ≠ 0 := by
    intro h0; rw [k2, h0, mul_zero] at h2; exact lt_irrefl _ h2
  simp only [mul_zero, sub_zero]
  exact mul_ne_zero (ne_of_gt h1) hq

open Nonsym in
/-- [S] otherwise the code falls back to `Hs = μ·H_dual` with `μ = ⟨s,z⟩/3`; and the `Dual`
strategy always gives `μ·H_dual`. -/
theorem pd_fallback (Hd : Sym3 ℝ) (st zt s z : V3 ℝ)
    (h : pdCondition (pdQuantities Hd st zt s z) = false) :
    usePrimalDualScaling Hd st zt s z = (false, Sym3.scaledFrom (pdQuantities Hd st zt s z).mu Hd) := by
  unfold usePrimalDualScaling
  simp only [h, useDualScaling]
  rfl


/-! # Round 3 -/

/-! ## Power cone: third-order correction -/

/-- [R] `C14.third_order` (power cone, every exponent `a ∈ (0,1)`).  The vector computed by
`higher_correction` after the solve `H u = Δs` is one half of the third derivative of the dual barrier
contracted with `u` and `v`: for every interior `z` and all `u, v`,
`d/dt [ H_dual(z + t u) v ]_{t=0} = 2 · higher_correction_of(a; z, u, v)` (all three rows), i.e.
`η = +½ ∇³f*(z)[u, v]`; `combined_ds_shift` subtracts it (`pow_combined_ds_shift`), which gives the
`-½ ∇³f*(z)[H⁻¹Δs, Δz]` of the property text. -/
theorem pow_third_order {a z0 z1 z2 : ℝ} (ha0 : 0 < a) (ha1 : a < 1) (h : PowDualInterior a z0 z1 z2)
    (u0 u1 u2 v0 v1 v2 : ℝ) :
    let η := Pow.higherCorrectionOf a (z0, z1, z2) (u0, u1, u2) (v0, v1, v2)
    HasDerivAt (fun t => ((Pow.hessDual a (z0 + t * u0, z1 + t * u1, z2 + t * u2)).mul (v0, v1, v2)).1) (2 * η.1) 0 ∧
    HasDerivAt (fun t => ((Pow.hessDual a (z0 + t * u0, z1 + t * u1, z2 + t * u2)).mul (v0, v1, v2)).2.1) (2 * η.2.1) 0 ∧
    HasDerivAt (fun t => ((Pow.hessDual a (z0 + t * u0, z1 + t * u1, z2 + t * u2)).mul (v0, v1, v2)).2.2) (2 * η.2.2) 0 := by
  have hi := (pow_dualInt_iff ha0 ha1 z0 z1 z2).mpr h
  exact ⟨Pow.third_row0 u0 u1 u2 v0 v1 v2 hi, Pow.third_row1 u0 u1 u2 v0 v1 v2 hi,
    Pow.third_row2 u0 u1 u2 v0 v1 v2 hi⟩

/-- [F] the `u` of the power cone's `higher_correction` is `H⁻¹Δs`: when the explicit 3×3 Cholesky
factorisation of the stored `H_dual` succeeds, the explicit solve returns `u` with `H u = Δs` and
`higher_correction = higher_correction_of(a; z, u, v)`; when it fails the correction is zero. -/
theorem pow_higher_correction_solve (a : ℝ) (H : Sym3 ℝ) (z ds v : V3 ℝ) :
    (∀ L, Sym3.choleskyFactor H = (true, L) →
      H.mul (Sym3.choleskySolve L ds) = ds ∧
      Pow.higherCorrection a H z ds v = Pow.higherCorrectionOf a z (Sym3.choleskySolve L ds) v) ∧
    (∀ L, Sym3.choleskyFactor H = (false, L) → Pow.higherCorrection a H z ds v = (0, 0, 0)) := by
  constructor
  · intro L hL
    refine ⟨Sym3.cholesky_solve_correct H L ds hL, ?_⟩
    rw [Pow.higherCorrection_eq, hL]
    rfl
  · intro L hL
    rw [Pow.higherCorrection_eq, hL]
    rfl

/-- [S] `combined_ds_shift` of the 3-d cones: `shift = σμ·grad − η` with
`η = higher_correction(Δs := step_s, v := step_z)`; with `exp_third_order` / `pow_third_order` and the
gradient theorems this is `σμ ∇f*(z) − ½ ∇³f*(z)[H⁻¹Δs, Δz]`. -/
theorem combined_ds_shift_eq (a σμ : ℝ) (H : Sym3 ℝ) (grad z dz ds : V3 ℝ) :
    Exp.combinedDsShift H grad z dz ds σμ =
      (grad.1 * σμ - (Exp.higherCorrection H z ds dz).1, grad.2.1 * σμ - (Exp.higherCorrection H z ds dz).2.1,
        grad.2.2 * σμ - (Exp.higherCorrection H z ds dz).2.2) ∧
    Pow.combinedDsShift a H grad z dz ds σμ =
      (grad.1 * σμ - (Pow.higherCorrection a H z ds dz).1, grad.2.1 * σμ - (Pow.higherCorrection a H z ds dz).2.1,
        grad.2.2 * σμ - (Pow.higherCorrection a H z ds dz).2.2) := ⟨rfl, rfl⟩

/-! ## `newton_raphson_onesided` and the power cone's scalar solve -/

/-- [F] the loop of `newton_raphson_onesided`: (i) a root of `f0` is a fixed point — the loop returns
it after one pass; (ii) where `f0 ≤ 0` and `f1 ≤ 0` (right of the root of a decreasing target) the loop
returns its start unrefined after one pass; (iii) the stopping rule: whenever fewer than the allowed
passes were used, one of the three tests `dx < ε`, `|dx/x| < √ε`, `|f1| < ε` holds at the returned
point. -/
theorem newton_loop_basic (f0 f1 : ℝ → ℝ) (fuel : Nat) (x : ℝ) (it : Nat) :
    (f0 x = 0 → Nonsym.newtonRaphsonOnesided f0 f1 (fuel + 1) x it = (x, it + 1)) ∧
    (f0 x ≤ 0 → f1 x ≤ 0 → Nonsym.newtonRaphsonOnesided f0 f1 (fuel + 1) x it = (x, it + 1)) ∧
    ((Nonsym.newtonRaphsonOnesided f0 f1 fuel x it).2 = it + fuel ∨
      Nonsym.NewtonStopped f0 f1 (Nonsym.newtonRaphsonOnesided f0 f1 fuel x it).1) :=
  ⟨Nonsym.newton_fixed_point f0 f1 fuel x it, Nonsym.newton_stop_right f0 f1 fuel x it,
    Nonsym.newton_loop_stopped f0 f1 fuel x it⟩

/-- [F] one-sided Newton.  If on `[lo, r]` the target is non-negative with negative derivative `f1`
and lies above its tangents at the root `r` (`f0 y + f1 y (r − y) ≤ 0`; true for a convex decreasing
`f0` with `f0 r = 0`), then from any start `x ∈ [lo, r]` every iterate moves right and never passes
the root: the returned value lies in `[x, r]`, for any number of passes. -/
theorem newton_onesided {f0 f1 : ℝ → ℝ} {lo r : ℝ}
    (H : ∀ y, lo ≤ y → y ≤ r → f1 y < 0 ∧ 0 ≤ f0 y ∧ f0 y + f1 y * (r - y) ≤ 0)
    (fuel : Nat) (x : ℝ) (it : Nat) (hlo : lo ≤ x) (hxr : x ≤ r) :
    x ≤ (Nonsym.newtonRaphsonOnesided f0 f1 fuel x it).1 ∧ (Nonsym.newtonRaphsonOnesided f0 f1 fuel x it).1 ≤ r :=
  Nonsym.newton_loop_onesided H fuel x it hlo hxr

example : ∀ y : ℝ, 0 ≤ y → y ≤ 1 →
    (fun _ : ℝ => (-1 : ℝ)) y < 0 ∧ 0 ≤ (fun t : ℝ => 1 - t) y ∧ (fun t : ℝ => 1 - t) y + (fun _ : ℝ => (-1 : ℝ)) y * (1 - y) ≤ 0 := by
  intro y _ h1
  refine ⟨by norm_num, by simp only; linarith, by simp only; linarith⟩

/-- [R] the target of `_newton_raphson_powcone`: for every `a ∈ (0,1)`, `s₃ > 0` and `x > 0`,
`f1` is the derivative of `f0`, it is negative (the target is strictly decreasing), monotone (the
target is convex) and the target lies above its tangents. -/
theorem pow_newton_target {a s3 phi : ℝ} (ha0 : 0 < a) (ha1 : a < 1) (h3 : 0 < s3) :
    (∀ x, 0 < x → HasDerivAt (Pow.nrF0 s3 phi a) (Pow.nrF1 s3 a x) x ∧ Pow.nrF1 s3 a x < 0) ∧
    StrictAntiOn (Pow.nrF0 s3 phi a) (Set.Ioi 0) ∧ ConvexOn ℝ (Set.Ioi 0) (Pow.nrF0 s3 phi a) ∧
    (∀ x r, 0 < x → x ≤ r → Pow.nrF0 s3 phi a x + Pow.nrF1 s3 a x * (r - x) ≤ Pow.nrF0 s3 phi a r) :=
  ⟨fun _ hx => ⟨Pow.nrF0_hasDerivAt ha0 ha1 h3 hx, Pow.nrF1_neg ha0 ha1 h3 hx⟩,
    Pow.nrF0_strictAnti ha0 ha1 h3, Pow.nrF0_convexOn ha0 ha1 h3,
    fun _ _ hx hxr => Pow.nrF0_tangent ha0 ha1 h3 hx hxr⟩

/-- [R] **Finding NR-START-RIGHT-OF-ROOT as a theorem about the PRE-FIX code** (`Pow.nrX0Old`,
`Pow.newtonRaphsonOld`: `_newton_raphson_powcone` before /repo commit 54b486f; the current code is
covered by `pow_newton_onesided_code`).  Region: *every* exponent `a ∈ (0,1)`, every
`s₃ > 0`, every `φ > s₃²`, i.e. every interior `s` with `s₃ ≠ 0`).  The start
`x0 = −1/s₃ + (2s₃ + √(φ²/s₃² + 3φ))/(φ − s₃²)` is positive and satisfies `f0(x0) ≤ 0` (weighted AM–GM;
`x0` solves `φ(x² + 2x/s₃) = (xs₃+3)²`, the root equation for `a = ½`, where `f0(x0) = 0` exactly),
so the first Newton step is `≤ 0` and `_newton_raphson_powcone` returns `(x0, 1 pass)`: the iteration
never refined the start. -/
theorem pow_newton_start_right_of_root {a s3 phi : ℝ} (ha0 : 0 < a) (ha1 : a < 1) (h3 : 0 < s3)
    (hphi : s3 * s3 < phi) :
    0 < Pow.nrX0Old s3 phi ∧ Pow.nrF0 s3 phi a (Pow.nrX0Old s3 phi) ≤ 0 ∧
    Pow.nrF0 s3 phi (1 / 2) (Pow.nrX0Old s3 phi) = 0 ∧
    Pow.newtonRaphsonOld s3 phi a = (Pow.nrX0Old s3 phi, 1) :=
  ⟨(Pow.nrF0_start_nonpos ha0 ha1 h3 hphi).1, (Pow.nrF0_start_nonpos ha0 ha1 h3 hphi).2,
    Pow.nrF0_start_half h3 hphi, Pow.newtonRaphsonOld_returns_start ha0 ha1 h3 hphi⟩

example : (0 : ℝ) < 1 / 3 ∧ (1 / 3 : ℝ) < 1 ∧ (0 : ℝ) < 1 ∧ (1 : ℝ) * 1 < 2 := by norm_num

/-- [R] (PRE-FIX code, before /repo 54b486f) consequence for the old `PowerCone::gradient_primal`
(`Pow.gradientPrimalOld`): at every interior `s` with `|s₃| > ε` the returned gradient was built from
the *unrefined* start, `g = gradient_primal_of(a; x0(|s₃|, φ), s)`. -/
theorem pow_gradient_primal_unrefined {a s0 s1 s2 : ℝ} (ha0 : 0 < a) (ha1 : a < 1)
    (hs : PowPrimalInterior a s0 s1 s2) (heps : FloatLike.eps < |s2|) :
    Pow.gradientPrimalOld a (s0, s1, s2) =
      Pow.gradientPrimalOf a (Pow.nrX0Old |s2| (powf s0 (2 * a) * powf s1 (2 - a * 2))) s0 s1 s2 := by
  obtain ⟨h0, h1, hlt⟩ := hs
  have h2 : 0 < |s2| := lt_trans Nonsym.real_eps_pos heps
  have hphi : |s2| * |s2| < powf s0 (2 * a) * powf s1 (2 - a * 2) := by
    simp only [Nonsym.real_powf_eq]
    have e : (2 : ℝ) - a * 2 = 2 * (1 - a) := by ring
    rw [e, Pow.rpow_two_mul h0, Pow.rpow_two_mul h1, ← mul_pow, ← sq]
    exact pow_lt_pow_left₀ hlt (abs_nonneg _) (by norm_num)
  unfold Pow.gradientPrimalOld
  simp only [real_fabs_eq, if_pos heps]
  rw [Pow.newtonRaphsonOld_returns_start ha0 ha1 h2 hphi]

example : PowPrimalInterior (1 / 2) 1 1 (1 / 2) ∧ (FloatLike.eps : ℝ) < |(1 / 2 : ℝ)| := by
  refine ⟨⟨by norm_num, by norm_num, ?_⟩, ?_⟩
  · rw [Real.one_rpow, Real.one_rpow, abs_of_pos (by norm_num)]; norm_num
  · rw [abs_of_pos (by norm_num)]
    show ((2 : ℝ)⁻¹ ^ 52) < 1 / 2
    norm_num

/-- [R] every positive root of the target lies in `[2s₃/(φ−s₃²), x0]`; and **the repair**: with the
start `x₁ = 2s₃/(φ − s₃²)` (`f0(x₁) ≥ 0`, because both logarithm arguments exceed `xs₃ + 2`) the same
loop on the same `f0`, `f1` is one-sided for every `a ∈ (0,1)` — all iterates stay in `[x₁, root]`. -/
theorem pow_newton_onesided_repair {a s3 phi r : ℝ} (ha0 : 0 < a) (ha1 : a < 1) (h3 : 0 < s3)
    (hphi : s3 * s3 < phi) (hr : 0 < r) (hroot : Pow.nrF0 s3 phi a r = 0) :
    (0 < 2 * s3 / (phi - s3 * s3) ∧ 0 ≤ Pow.nrF0 s3 phi a (2 * s3 / (phi - s3 * s3))) ∧
    (2 * s3 / (phi - s3 * s3) ≤ r ∧ r ≤ Pow.nrX0Old s3 phi) ∧
    (∀ fuel it : Nat,
      2 * s3 / (phi - s3 * s3)
          ≤ (Nonsym.newtonRaphsonOnesided (Pow.nrF0 s3 phi a) (Pow.nrF1 s3 a) fuel (2 * s3 / (phi - s3 * s3)) it).1 ∧
        (Nonsym.newtonRaphsonOnesided (Pow.nrF0 s3 phi a) (Pow.nrF1 s3 a) fuel (2 * s3 / (phi - s3 * s3)) it).1 ≤ r) :=
  ⟨Pow.nrF0_left_start_nonneg ha0 ha1 h3 hphi, Pow.root_bracket ha0 ha1 h3 hphi hr hroot,
    fun fuel it => Pow.newton_from_left_start ha0 ha1 h3 hphi hr hroot fuel it⟩

/-- non-vacuity of `hroot`: `a = ½`, `s₃ = 1`, `φ = 2`: the code's start is a positive root -/
example : 0 < Pow.nrX0Old (1 : ℝ) 2 ∧ Pow.nrF0 (1 : ℝ) 2 (1 / 2) (Pow.nrX0Old 1 2) = 0 :=
  ⟨(Pow.nrF0_start_nonpos (a := 1 / 2) (by norm_num) (by norm_num) (by norm_num) (by norm_num)).1,
    Pow.nrF0_start_half (by norm_num) (by norm_num)⟩

/-- [R] **a better one-sided start, exact where the present one is exact.**  With
`ψ(a) = 1/(a² + (1−a)²) ∈ [1,2]` (the generalised power cone's `ψ = 1/Σαᵢ²` for `α = (a, 1−a)`) the
start `x_ψ = −1/s₃ + (ψs₃ + √((φ/s₃² + ψ² − 1)φ))/(φ − s₃²)` (`Pow.nrStart`) is positive and has
`f0(x_ψ) ≥ 0` for every `a ∈ (0,1)` (harmonic–geometric mean inequality + Jensen for `w ↦ w/(wc+1)`),
coincides with the pre-fix start for `a = ½` (where that is the exact root) and *is* the code's start since /repo 54b486f (`Pow.nrX0_eq_start`), lies left of every root,
and from it the loop is one-sided (all iterates in `[x_ψ, root]`). -/
theorem pow_newton_psi_start_repair {a s3 phi : ℝ} (ha0 : 0 < a) (ha1 : a < 1) (h3 : 0 < s3)
    (hphi : s3 * s3 < phi) :
    (1 ≤ Pow.psiOf a ∧ Pow.psiOf a ≤ 2) ∧
    (0 < Pow.nrStart (Pow.psiOf a) s3 phi ∧ 0 ≤ Pow.nrF0 s3 phi a (Pow.nrStart (Pow.psiOf a) s3 phi)) ∧
    Pow.nrStart (Pow.psiOf (1 / 2)) s3 phi = Pow.nrX0Old s3 phi ∧
    (∀ r, 0 < r → Pow.nrF0 s3 phi a r = 0 → ∀ fuel it : Nat,
      Pow.nrStart (Pow.psiOf a) s3 phi ≤ r ∧
      Pow.nrStart (Pow.psiOf a) s3 phi ≤
        (Nonsym.newtonRaphsonOnesided (Pow.nrF0 s3 phi a) (Pow.nrF1 s3 a) fuel (Pow.nrStart (Pow.psiOf a) s3 phi) it).1 ∧
      (Nonsym.newtonRaphsonOnesided (Pow.nrF0 s3 phi a) (Pow.nrF1 s3 a) fuel (Pow.nrStart (Pow.psiOf a) s3 phi) it).1 ≤ r) :=
  ⟨Pow.psiOf_bounds ha0 ha1, Pow.nrF0_psi_start_nonneg ha0 ha1 h3 hphi, Pow.nrStart_psi_half s3 phi,
    fun _ hr hroot fuel it =>
      Pow.newton_from_left ha0 ha1 h3 hr hroot (Pow.nrF0_psi_start_nonneg ha0 ha1 h3 hphi).1
        (Pow.nrF0_psi_start_nonneg ha0 ha1 h3 hphi).2 fuel it⟩

/-- [R] unconditional form: for every `a ∈ (0,1)` and interior data the power cone's target has exactly
one positive root `ρ`; it lies in `[x_ψ(a), x0_old]`; the PRE-FIX code returned `x0_old ≥ ρ` unrefined, while the same
loop started from `x_ψ(a)` returns a value in `[x_ψ(a), ρ]` for any number of passes. -/
theorem pow_newton_root {a s3 phi : ℝ} (ha0 : 0 < a) (ha1 : a < 1) (h3 : 0 < s3) (hphi : s3 * s3 < phi) :
    ∃ ρ, 0 < ρ ∧ Pow.nrF0 s3 phi a ρ = 0 ∧ (∀ ρ', 0 < ρ' → Pow.nrF0 s3 phi a ρ' = 0 → ρ' = ρ) ∧
      Pow.nrStart (Pow.psiOf a) s3 phi ≤ ρ ∧ ρ ≤ (Pow.newtonRaphsonOld s3 phi a).1 ∧
      (∀ fuel it : Nat,
        (Nonsym.newtonRaphsonOnesided (Pow.nrF0 s3 phi a) (Pow.nrF1 s3 a) fuel (Pow.nrStart (Pow.psiOf a) s3 phi) it).1 ≤ ρ) := by
  obtain ⟨ρ, hρ, hroot, hlo, hhi⟩ := Pow.exists_root ha0 ha1 h3 hphi
  refine ⟨ρ, hρ, hroot, fun ρ' hρ' hroot' => Pow.root_unique ha0 ha1 h3 hρ hroot hρ' hroot', hlo, ?_, ?_⟩
  · rw [Pow.newtonRaphsonOld_returns_start ha0 ha1 h3 hphi]; exact hhi
  · intro fuel it
    exact (Pow.newton_from_left ha0 ha1 h3 hρ hroot (Pow.nrF0_psi_start_nonneg ha0 ha1 h3 hphi).1
      (Pow.nrF0_psi_start_nonneg ha0 ha1 h3 hphi).2 fuel it).2.2

/-! ### the power cone's scalar solve since /repo 54b486f (start `ψ(a) = 1/(a²+(1−a)²)`) -/

/-- [R] **`_newton_raphson_powcone` as it is now** (`Pow.nrX0`, `Pow.newtonRaphson`).  For every
`a ∈ (0,1)`, `s₃ > 0`, `φ > s₃²`: the model's start is `x_ψ(a)` of the family `Pow.nrStart`; the target
has exactly one positive root `ρ`; the start is positive with `f0(x0) ≥ 0`, i.e. **left of the root**;
every partial run of the loop (any number of passes) stays in `[x0, ρ]` — the iterates increase
monotonically and never pass the root; the returned value `x` satisfies `x0 ≤ x ≤ ρ`.
**What the stopping rule guarantees:** either all 100 passes were used, or at the returned point the
Newton step `dx = f0(x)/|f1(x)|` satisfies `dx < ε` or `|dx/x| < √ε`, or `|f1(x)| < ε`; and in every
case the distance to the root is bounded by the residual: `0 ≤ ρ − x ≤ f0(x)/|f1(ρ)|`
(`≤ dx·|f1(x)|/|f1(ρ)|`). -/
theorem pow_newton_onesided_code {a s3 phi : ℝ} (ha0 : 0 < a) (ha1 : a < 1) (h3 : 0 < s3)
    (hphi : s3 * s3 < phi) :
    Pow.nrX0 a s3 phi = Pow.nrStart (Pow.psiOf a) s3 phi ∧
    ∃ ρ, 0 < ρ ∧ Pow.nrF0 s3 phi a ρ = 0 ∧ (∀ ρ', 0 < ρ' → Pow.nrF0 s3 phi a ρ' = 0 → ρ' = ρ) ∧
      0 < Pow.nrX0 a s3 phi ∧ 0 ≤ Pow.nrF0 s3 phi a (Pow.nrX0 a s3 phi) ∧
      (∀ fuel it : Nat,
        Pow.nrX0 a s3 phi ≤ (Nonsym.newtonRaphsonOnesided (Pow.nrF0 s3 phi a) (Pow.nrF1 s3 a) fuel (Pow.nrX0 a s3 phi) it).1 ∧
        (Nonsym.newtonRaphsonOnesided (Pow.nrF0 s3 phi a) (Pow.nrF1 s3 a) fuel (Pow.nrX0 a s3 phi) it).1 ≤ ρ) ∧
      Pow.nrX0 a s3 phi ≤ (Pow.newtonRaphson s3 phi a).1 ∧ (Pow.newtonRaphson s3 phi a).1 ≤ ρ ∧
      ρ - (Pow.newtonRaphson s3 phi a).1
        ≤ Pow.nrF0 s3 phi a (Pow.newtonRaphson s3 phi a).1 / (-(Pow.nrF1 s3 a ρ)) ∧
      ((Pow.newtonRaphson s3 phi a).2 = 100 ∨
        Nonsym.NewtonStopped (Pow.nrF0 s3 phi a) (Pow.nrF1 s3 a) (Pow.newtonRaphson s3 phi a).1) := by
  refine ⟨Pow.nrX0_eq_start a s3 phi, ?_⟩
  obtain ⟨ρ, hρ, hroot, huniq, hx0, hf0, hlo, hhi, herr, hst⟩ := Pow.newtonRaphson_onesided ha0 ha1 h3 hphi
  exact ⟨ρ, hρ, hroot, huniq, hx0, hf0,
    fun fuel it => Pow.newton_iterates_monotone ha0 ha1 h3 hphi hρ hroot fuel it, hlo, hhi, herr, hst⟩

/-- [R] **conjugacy of the code's actual `PowerCone::gradient_primal`**, conditional only on the loop
having converged: for every `a ∈ (0,1)` and every interior `s` with `|s₃| > ε`, if the value returned
by `_newton_raphson_powcone` is a root of its target (`f0(x) = 0`; by `pow_newton_onesided_code` the
returned `x` is always in `[x0, ρ]` with `ρ − x ≤ f0(x)/|f1(ρ)|`, so this asks that the last residual
is zero), then `g = gradient_primal(s)` satisfies `−g ∈ int K*`, `∇f*(−g) = −s` and `⟨s, g⟩ = −3`.
For `a = ½` the hypothesis holds outright (`pow_conjugacy_code_half`).  What remains measured, not
proved: the size of the final residual in floating point (harness oracle `pow.gradient_primal`,
now at the same tolerance as the other two cones). -/
theorem pow_conjugacy_code {a s0 s1 s2 : ℝ} (ha0 : 0 < a) (ha1 : a < 1)
    (hs : PowPrimalInterior a s0 s1 s2) (heps : FloatLike.eps < |s2|)
    (hconv : Pow.nrF0 |s2| (powf s0 (2 * a) * powf s1 (2 - a * 2)) a
      (Pow.newtonRaphson |s2| (powf s0 (2 * a) * powf s1 (2 - a * 2)) a).1 = 0) :
    let g := Pow.gradientPrimal a (s0, s1, s2)
    PowDualInterior a (-g.1) (-g.2.1) (-g.2.2) ∧
    Pow.gradDual a (-g.1, -g.2.1, -g.2.2) = (-s0, -s1, -s2) ∧
    g.1 * s0 + g.2.1 * s1 + g.2.2 * s2 = -3 := by
  obtain ⟨h0, h1, hlt⟩ := hs
  have h2 : 0 < |s2| := lt_trans Nonsym.real_eps_pos heps
  have hs2 : s2 ≠ 0 := abs_pos.mp h2
  have hphi : |s2| * |s2| < powf s0 (2 * a) * powf s1 (2 - a * 2) := by
    simp only [Nonsym.real_powf_eq]
    have e : (2 : ℝ) - a * 2 = 2 * (1 - a) := by ring
    rw [e, Pow.rpow_two_mul h0, Pow.rpow_two_mul h1, ← mul_pow, ← sq]
    exact pow_lt_pow_left₀ hlt (abs_nonneg _) (by norm_num)
  obtain ⟨-, ρ, -, -, -, hx0, -, -, hlo, -, -, -⟩ := pow_newton_onesided_code ha0 ha1 h2 hphi
  have hx : 0 < (Pow.newtonRaphson |s2| (powf s0 (2 * a) * powf s1 (2 - a * 2)) a).1 := lt_of_lt_of_le hx0 hlo
  have hg : Pow.gradientPrimal a (s0, s1, s2) =
      Pow.gradientPrimalOf a (Pow.newtonRaphson |s2| (powf s0 (2 * a) * powf s1 (2 - a * 2)) a).1 s0 s1 s2 := by
    unfold Pow.gradientPrimal
    simp only [real_fabs_eq, if_pos heps]
  simp only [hg]
  obtain ⟨c1, c2⟩ := pow_conjugacy ha0 ha1 h0 h1 hs2 hx hconv
  exact ⟨c1, c2, pow_gradient_primal_inner (ne_of_gt h0) (ne_of_gt h1)⟩

/-- [R] for `a = ½` the code's start is the exact root, the loop returns it after one pass, and
conjugacy of `gradient_primal` holds with no convergence hypothesis. -/
theorem pow_conjugacy_code_half {s0 s1 s2 : ℝ} (hs : PowPrimalInterior (1 / 2) s0 s1 s2)
    (heps : FloatLike.eps < |s2|) :
    let g := Pow.gradientPrimal (1 / 2) (s0, s1, s2)
    PowDualInterior (1 / 2) (-g.1) (-g.2.1) (-g.2.2) ∧
    Pow.gradDual (1 / 2) (-g.1, -g.2.1, -g.2.2) = (-s0, -s1, -s2) ∧
    g.1 * s0 + g.2.1 * s1 + g.2.2 * s2 = -3 := by
  apply pow_conjugacy_code (by norm_num) (by norm_num) hs heps
  obtain ⟨h0, h1, hlt⟩ := hs
  have h2 : 0 < |s2| := lt_trans Nonsym.real_eps_pos heps
  have hphi : |s2| * |s2| < powf s0 (2 * (1 / 2)) * powf s1 (2 - 1 / 2 * 2) := by
    simp only [Nonsym.real_powf_eq]
    have e : (2 : ℝ) - 1 / 2 * 2 = 2 * (1 - 1 / 2) := by ring
    rw [e, Pow.rpow_two_mul h0, Pow.rpow_two_mul h1, ← mul_pow, ← sq]
    exact pow_lt_pow_left₀ hlt (abs_nonneg _) (by norm_num)
  have hroot : Pow.nrF0 |s2| (powf s0 (2 * (1 / 2)) * powf s1 (2 - 1 / 2 * 2)) (1 / 2)
      (Pow.nrX0 (1 / 2) |s2| (powf s0 (2 * (1 / 2)) * powf s1 (2 - 1 / 2 * 2))) = 0 := by
    rw [Pow.nrX0_eq_start, Pow.nrStart_psi_half]
    exact Pow.nrF0_start_half h2 hphi
  have hret : Pow.newtonRaphson |s2| (powf s0 (2 * (1 / 2)) * powf s1 (2 - 1 / 2 * 2)) (1 / 2)
      = (Pow.nrX0 (1 / 2) |s2| (powf s0 (2 * (1 / 2)) * powf s1 (2 - 1 / 2 * 2)), 1) := by
    unfold Pow.newtonRaphson
    exact Nonsym.newton_fixed_point _ _ 99 _ 0 hroot
  rw [hret]
  exact hroot

/-! ## Generalised power cone: Hessian representation, scaling test, no third-order term -/


/-- [R] (all dimensions) at an interior point of the dual cone `update_dual_grad_H` succeeds and
stores, besides the gradient, the Hessian representation `H = D + p pᵀ − q qᵀ − r rᵀ` in the closed
forms `GenPow.hD1/hD2/hPU/hPW/hQ/hR` (`φ = Π(uᵢ/αᵢ)^{2αᵢ}`, `W = ‖w‖²`, `ζ = φ − W`,
`p0 = √(φ(φ+W)/2)`, `q0 = √(ζφ/2)`, `r1 = 2√(ζ/(φ+W))`, `τᵢ = 2αᵢ/uᵢ`):
`d1ᵢ = τᵢφ/(ζuᵢ) + (1−αᵢ)/uᵢ²`, `d2 = 2/ζ`, `p = (p0/ζ)τ ⊕ (−2φ/p0/ζ)w`, `q = τ(q0/ζ)`, `r = (r1/ζ)w`. -/
theorem genpow_hess_entries (al u w : List ℝ) (hlen : al.length = u.length)
    (h : GenPowDualInterior al u w) :
    ∃ D, GenPow.updateDualGradH al.toArray (u ++ w).toArray = .ok D ∧
      D.grad.toList =
        (al.zip u).map (fun p => GenPow.gradU (GenPow.prodPhi al u) (GenPow.prodPhi al u - GenPow.sumSq w) p.1 p.2)
          ++ w.map (GenPow.gradW (GenPow.prodPhi al u - GenPow.sumSq w)) ∧
      D.d1.toList = (al.zip u).map (fun p =>
        GenPow.hD1 (GenPow.prodPhi al u) (GenPow.prodPhi al u - GenPow.sumSq w) p.1 p.2) ∧
      D.d2 = GenPow.hD2 (GenPow.prodPhi al u - GenPow.sumSq w) ∧
      D.p.toList = (al.zip u).map (fun p =>
          GenPow.hPU (GenPow.prodPhi al u) (GenPow.prodPhi al u - GenPow.sumSq w) (GenPow.sumSq w) p.1 p.2)
        ++ w.map (GenPow.hPW (GenPow.prodPhi al u) (GenPow.prodPhi al u - GenPow.sumSq w) (GenPow.sumSq w)) ∧
      D.q.toList = (al.zip u).map (fun p =>
        GenPow.hQ (GenPow.prodPhi al u) (GenPow.prodPhi al u - GenPow.sumSq w) p.1 p.2) ∧
      D.r.toList = w.map (GenPow.hR (GenPow.prodPhi al u) (GenPow.prodPhi al u - GenPow.sumSq w) (GenPow.sumSq w)) := by
  refine GenPow.updateDualGradH_data al u w hlen ?_
  have := h.2
  unfold GenPow.prodPhi GenPow.sumSq
  linarith

/-- [R] (all dimensions, every pair of coordinates of both classes) the stored representation
`H = D + p pᵀ − q qᵀ − r rᵀ` (`q` on the `u`-block, `r` on the `w`-block, `D = diag(d1, d2·I)`) is
entry by entry the Jacobian of the stored gradient, i.e. the Hessian of the dual barrier
(`genpow_grad_is_derivative`).  The coordinate that varies is singled out by a zipper
(`u = u₁ ++ t :: u₂` with exponent `a`, resp. `w = w₁ ++ t :: w₂`); `(b, s)` / `wk` are the
exponent/value of the *other* coordinate whose gradient entry is differentiated.  Writing
`φ, ζ, W` for the base-point values:
* `∂gradU(a,·)/∂uᵢ = d1ᵢ + pᵢ² − qᵢ²`, `∂gradU(b,s)/∂uᵢ = pₖpᵢ − qₖqᵢ`, `∂gradU(b,s)/∂wⱼ = pₖ p_{d+j}`,
* `∂gradW(wk)/∂uᵢ = p_{d+k} pᵢ`, `∂gradW(·)/∂wⱼ = d2 + p_{d+j}² − rⱼ²`, `∂gradW(wk)/∂wⱼ = p_{d+k}p_{d+j} − rₖrⱼ`. -/
theorem genpow_hess_is_derivative :
    (∀ (a1 a2 u1 u2 w : List ℝ) (a t : ℝ), a1.length = u1.length → (∀ x ∈ a1 ++ a :: a2, 0 < x) →
      GenPowDualInterior (a1 ++ a :: a2) (u1 ++ t :: u2) w →
      let Φ := fun x => GenPow.prodPhi (a1 ++ a :: a2) (u1 ++ x :: u2)
      let W := GenPow.sumSq w
      HasDerivAt (fun x => GenPow.gradU (Φ x) (Φ x - W) a x)
        (GenPow.hD1 (Φ t) (Φ t - W) a t + GenPow.hPU (Φ t) (Φ t - W) W a t * GenPow.hPU (Φ t) (Φ t - W) W a t
          - GenPow.hQ (Φ t) (Φ t - W) a t * GenPow.hQ (Φ t) (Φ t - W) a t) t ∧
      (∀ b s : ℝ, s ≠ 0 → HasDerivAt (fun x => GenPow.gradU (Φ x) (Φ x - W) b s)
        (GenPow.hPU (Φ t) (Φ t - W) W b s * GenPow.hPU (Φ t) (Φ t - W) W a t
          - GenPow.hQ (Φ t) (Φ t - W) b s * GenPow.hQ (Φ t) (Φ t - W) a t) t) ∧
      (∀ wk : ℝ, HasDerivAt (fun x => GenPow.gradW (Φ x - W) wk)
        (GenPow.hPW (Φ t) (Φ t - W) W wk * GenPow.hPU (Φ t) (Φ t - W) W a t) t)) ∧
    (∀ (al u w1 w2 : List ℝ) (t : ℝ), GenPowDualInterior al u (w1 ++ t :: w2) →
      let φ := GenPow.prodPhi al u
      let S := fun x => GenPow.sumSq (w1 ++ x :: w2)
      (∀ b s : ℝ, HasDerivAt (fun x => GenPow.gradU φ (φ - S x) b s)
        (GenPow.hPU φ (φ - S t) (S t) b s * GenPow.hPW φ (φ - S t) (S t) t) t) ∧
      HasDerivAt (fun x => GenPow.gradW (φ - S x) x)
        (GenPow.hD2 (φ - S t) + GenPow.hPW φ (φ - S t) (S t) t * GenPow.hPW φ (φ - S t) (S t) t
          - GenPow.hR φ (φ - S t) (S t) t * GenPow.hR φ (φ - S t) (S t) t) t ∧
      (∀ wk : ℝ, HasDerivAt (fun x => GenPow.gradW (φ - S x) wk)
        (GenPow.hPW φ (φ - S t) (S t) wk * GenPow.hPW φ (φ - S t) (S t) t
          - GenPow.hR φ (φ - S t) (S t) wk * GenPow.hR φ (φ - S t) (S t) t) t)) := by
  constructor
  · intro a1 a2 u1 u2 w a t hlen ha h
    have ht : 0 < t := h.1 t (by simp)
    have hpa : 0 < a := ha a (by simp)
    have hζ : 0 < GenPow.prodPhi (a1 ++ a :: a2) (u1 ++ t :: u2) - GenPow.sumSq w := by
      have := h.2; unfold GenPow.prodPhi GenPow.sumSq; linarith
    exact ⟨GenPow.hess_uu_diag a1 a2 u1 u2 w a t hlen hpa ht hζ,
      fun b s hs => GenPow.hess_uu_off a1 a2 u1 u2 w a t b s hlen hpa ht hs hζ,
      fun wk => GenPow.hess_wu a1 a2 u1 u2 w a t wk hlen hpa ht hζ⟩
  · intro al u w1 w2 t h
    have hζ : 0 < GenPow.prodPhi al u - GenPow.sumSq (w1 ++ t :: w2) := by
      have := h.2; unfold GenPow.prodPhi GenPow.sumSq; linarith
    exact ⟨fun b s => GenPow.hess_uw al u w1 w2 t b s hζ, GenPow.hess_ww_diag al u w1 w2 t hζ,
      fun wk => GenPow.hess_ww_off al u w1 w2 t wk hζ⟩

/-- non-vacuity for `genpow_hess_entries` / `genpow_hess_is_derivative` (both zipper shapes):
`al = [1/2,1/2]`, `u = [1,1]`, `w = [1/2]`: `φ = 4`, `ζ = 15/4`. -/
example : GenPowDualInterior ([] ++ (1 / 2 : ℝ) :: [1 / 2]) ([] ++ (1 : ℝ) :: [1]) ([] ++ (1 / 2 : ℝ) :: []) ∧
    (∀ x ∈ ([] ++ (1 / 2 : ℝ) :: [1 / 2]), 0 < x) ∧
    ([] : List ℝ).length = ([] : List ℝ).length := by
  refine ⟨⟨by simp, ?_⟩, by simp, rfl⟩
  norm_num

/-- [F] `mul_Hs` applies `μ (D + p pᵀ − q qᵀ − r rᵀ)`: on `x = (x1, x2)` the `u`-block entries are
`μ (d1ᵢ x1ᵢ − ⟨q,x1⟩ qᵢ + ⟨p,x⟩ pᵢ)` and the `w`-block entries `μ (d2 x2ⱼ − ⟨r,x2⟩ rⱼ + ⟨p,x⟩ p_{dim1+j})`;
`get_Hs` returns `μ·diag(d1, d2 I)`. -/
theorem genpow_mulHs (D : GenPow.Data ℝ) (pu pw x1 x2 : List ℝ) (mu : ℝ) (hp : D.p.toList = pu ++ pw)
    (hd : D.d1.toList.length = x1.length) (hq : D.q.toList.length = x1.length)
    (hpu : pu.length = x1.length) (hr : D.r.toList.length = x2.length) (hpw : pw.length = x2.length) :
    GenPow.mulHs D mu x1.length (x1 ++ x2).toArray
      = .ok ((((x1.zip D.d1.toList).zip D.q.toList).zip pu).map (fun t =>
            mu * (t.1.1.2 * t.1.1.1 - GenPow.ldot D.q.toList x1 * t.1.2
              + GenPow.ldot (pu ++ pw) (x1 ++ x2) * t.2))
          ++ ((x2.zip D.r.toList).zip pw).map (fun t =>
            mu * (D.d2 * t.1.1 - GenPow.ldot D.r.toList x2 * t.1.2
              + GenPow.ldot (pu ++ pw) (x1 ++ x2) * t.2))).toArray ∧
    (∀ dim2, (GenPow.getHs D mu dim2).toList
      = D.d1.toList.map (fun d => mu * d) ++ List.replicate dim2 (mu * D.d2)) :=
  ⟨GenPow.mulHs_eq_data D pu pw x1 x2 mu hp hd hq hpu hr hpw, fun dim2 => GenPow.getHs_toList D mu dim2⟩

example : ∃ (D : GenPow.Data ℝ) (pu pw x1 x2 : List ℝ), D.p.toList = pu ++ pw ∧
    D.d1.toList.length = x1.length ∧ D.q.toList.length = x1.length ∧ pu.length = x1.length ∧
    D.r.toList.length = x2.length ∧ pw.length = x2.length ∧ x1 ≠ [] ∧ x2 ≠ [] :=
  ⟨⟨#[0, 0], #[1, 2], #[3], #[4], #[5], 6⟩, [1], [2], [7], [8], rfl, rfl, rfl, rfl, rfl, rfl, by simp, by simp⟩


/-- [S] the generalised power cone has **no third-order correction**: `higher_correction` is
`unimplemented!()` and never called; `combined_ds_shift` returns `σμ·grad` (`= σμ ∇f*(z)` by
`genpow_grad_is_derivative`), whatever the step directions. -/
theorem genpow_combined_ds_shift (D : GenPow.Data ℝ) (dz ds dz' ds' : Array ℝ) (σμ : ℝ) :
    GenPow.combinedDsShift D dz ds σμ = D.grad.map (fun g => g * σμ) ∧
    GenPow.combinedDsShift D dz ds σμ = GenPow.combinedDsShift D dz' ds' σμ := ⟨rfl, rfl⟩

/-- [S] (any scalar type, also `Float`) `backtrack_search` returns `0` or a step whose end point
passed the cone test. -/
theorem backtrack_search_post {α : Type} [Add α] [Mul α] [LT α] [DecidableLT α] [OfNat α 0] [OfNat α 1]
    (dq q : Array α) (aInit aMin step : α) (inCone : Array α → Bool) (fuel : Nat) (a : α)
    (h : Nonsym.backtrackSearch dq q aInit aMin step inCone fuel = .ok a) :
    a = 0 ∨ inCone (Vec.waxpby 1 q a dq) = true :=
  Nonsym.backtrackSearch_post dq q aMin step inCone fuel aInit a h

/-- [R] `GenPowerCone::update_scaling` tests `ζ > 0` but not `u > 0`.
(i) The flag it returns is exactly `ζ = Π(uᵢ/αᵢ)^{2αᵢ} − ‖w‖² > 0`.
(ii) On `u > 0` that is membership in `int K*` (= `is_dual_feasible`).
(iii) Without `u > 0` it is not: `α = (½,½)`, `z = (−1,−1,0)` has `ζ = 4`, the update is accepted, but
`z ∉ K*` — so "`update_scaling` returns true ⇒ `z ∈ int K*`" is **false** as a statement about the
function alone (replayed on the implementation by the harness, channel `genpow.update_scaling`). -/
theorem genpow_update_scaling_test :
    (∀ (al u w : List ℝ) (st : GenPow.State ℝ) (mu : ℝ), al.length = u.length →
      ((∃ st', GenPow.updateScaling al.toArray st (u ++ w).toArray mu = .ok (true, st')) ↔
        0 < GenPow.prodPhi al u - GenPow.sumSq w)) ∧
    (∀ (al u w : List ℝ) (st : GenPow.State ℝ) (mu : ℝ), al.length = u.length → (∀ a ∈ al, 0 < a) →
      (∀ x ∈ u, 0 < x) →
      ((∃ st', GenPow.updateScaling al.toArray st (u ++ w).toArray mu = .ok (true, st')) ↔
        GenPowDualInterior al u w)) ∧
    (∀ (st : GenPow.State ℝ) (mu : ℝ),
      (∃ st', GenPow.updateScaling #[1 / 2, 1 / 2] st #[-1, -1, 0] mu = .ok (true, st')) ∧
        GenPow.isDualFeasible (#[1 / 2, 1 / 2] : Array ℝ) #[-1, -1, 0] = .ok false) := by
  refine ⟨fun al u w st mu hlen => GenPow.updateScaling_flag al u w hlen st mu, ?_,
    fun st mu => GenPow.updateScaling_accepts_exterior st mu⟩
  intro al u w st mu hlen ha hu
  rw [GenPow.updateScaling_sound al u w hlen ha hu st mu, (genpow_membership al u w hlen ha).2]

/-- [R] why the missing `u > 0` test is **not reachable inside `solve()`**: the dual iterate only
moves by steps returned by `step_length`, whose backtracking search accepts an end point only if
`is_dual_feasible` (which does test `u > 0`) holds there; every point accepted by `is_dual_feasible`
passes the `ζ` test, so the next `update_scaling` is accepted *and* the point is in `int K*`.
(The solver then scales the step by `max_step_fraction ≤ 1`; the open cone is convex, so the actual
iterate lies between two interior points — formalised in round 4:
`genpow_linesearch_keeps_interior_below`, from `genpow_cones_convex`, at the end of this file.) -/
theorem genpow_linesearch_keeps_interior (al dz ds z s : Array ℝ) (step aMin aMax : ℝ) (fuel : Nat)
    (ha : ∀ a ∈ al.toList, 0 < a) (az as : ℝ)
    (h : GenPow.stepLength al dz ds z s step aMin aMax fuel = .ok (az, as)) (hne : az ≠ 0)
    (st : GenPow.State ℝ) (mu : ℝ) :
    GenPow.isDualFeasible al (Vec.waxpby 1 z az dz) = .ok true ∧
      ∃ D, GenPow.updateScaling al st (Vec.waxpby 1 z az dz) mu = .ok (true, ⟨D, mu, Vec.waxpby 1 z az dz⟩) :=
  GenPow.stepLength_then_updateScaling al dz ds z s step aMin aMax fuel ha az as h hne st mu

/-- [R] (all dimensions) the scalar solve `_newton_raphson_genpowcone` of `gradient_primal` is a genuine
one-sided Newton iteration.  For exponents `αᵢ > 0`, `Σαᵢ = 1`, `p > 0`, `r = ‖w‖ > 0` and an interior
point (`r² < φ = Π pᵢ^{2αᵢ}`), with `ψ = 1/Σαᵢ²` as stored by `GenPowerConeData::new`:
`f1 = nrF1` is the derivative of the target `f0 = nrF0` on `x > 0`, `f0` is strictly decreasing and
convex there, it has exactly one positive root `ρ`, the start `x0 = nrX0 r φ ψ` satisfies `0 < x0 ≤ ρ`
(`f0(x0) ≥ 0`), and the value returned by the model of `_newton_raphson_genpowcone` lies in `[x0, ρ]`
(`ρ ≤ x_n`, the start with `ψ = n`).  Contrast `pow_newton_start_right_of_root`: the 3-d power cone uses
`ψ = 2 ≥ 1/(a²+(1-a)²)` and starts right of the root. -/
theorem genpow_newton_onesided {r ψ : ℝ} {p al : List ℝ} (hal : ∀ a ∈ al, 0 < a) (hp : ∀ x ∈ p, 0 < x)
    (hlen : al.length = p.length) (hsum : al.sum = 1) (hr : 0 < r)
    (hψ : ψ = 1 / Vec.sumsq al.toArray)
    (hint : r * r < ((al.zip p).map (fun q => q.2 ^ (2 * q.1))).prod) :
    (∀ x, 0 < x → HasDerivAt (GenPow.nrF0 r p.toArray al.toArray) (GenPow.nrF1 r al.toArray x) x) ∧
    (∀ x, 0 < x → GenPow.nrF1 r al.toArray x < 0) ∧
    StrictAntiOn (GenPow.nrF0 r p.toArray al.toArray) (Set.Ioi 0) ∧
    ConvexOn ℝ (Set.Ioi 0) (GenPow.nrF0 r p.toArray al.toArray) ∧
    (p.toArray.toList.zip al.toArray.toList).foldl (fun phi q => phi * powf q.1 (2 * q.2)) 1
      = ((al.zip p).map (fun q => q.2 ^ (2 * q.1))).prod ∧
    ∃ ρ, 0 < ρ ∧ GenPow.nrF0 r p.toArray al.toArray ρ = 0 ∧
      (∀ ρ', 0 < ρ' → GenPow.nrF0 r p.toArray al.toArray ρ' = 0 → ρ' = ρ) ∧
      0 < GenPow.nrX0 r (((al.zip p).map (fun q => q.2 ^ (2 * q.1))).prod) ψ ∧
      0 ≤ GenPow.nrF0 r p.toArray al.toArray (GenPow.nrX0 r (((al.zip p).map (fun q => q.2 ^ (2 * q.1))).prod) ψ) ∧
      GenPow.nrX0 r (((al.zip p).map (fun q => q.2 ^ (2 * q.1))).prod) ψ
        ≤ (GenPow.newtonRaphson r p.toArray (((al.zip p).map (fun q => q.2 ^ (2 * q.1))).prod) al.toArray ψ).1 ∧
      (GenPow.newtonRaphson r p.toArray (((al.zip p).map (fun q => q.2 ^ (2 * q.1))).prod) al.toArray ψ).1 ≤ ρ := by
  rw [GenPow.psi_model_eq] at hψ
  have hint' : r * r < GenPow.prodPhiP al p := hint
  obtain ⟨ρ, h1, h2, h3, h4, h5, h6, -⟩ := GenPow.newtonRaphson_bracket hal hp hlen hsum hr hψ hint'
  refine ⟨fun x hx => GenPow.nrF0_hasDerivAt hal hlen hr hx, fun x hx => GenPow.nrF1_neg hal hsum hr hx,
    GenPow.nrF0_strictAnti hal hlen hsum hr, GenPow.nrF0_convexOn hal hlen hsum hr,
    GenPow.phiPrimal_fold_eq al p, ρ, h1, h2, h3, h4, ?_, h5, h6⟩
  exact (GenPow.nrF0_start_nonneg hal hp hlen hsum hr hψ hint').2

/-- non-vacuity: `α = (½, ½)`, `p = (2, 2)`, `r = 1`, `ψ = 2` -/
example : (∀ a ∈ [(1 / 2 : ℝ), 1 / 2], 0 < a) ∧ (∀ x ∈ [(2 : ℝ), 2], 0 < x) ∧
    [(1 / 2 : ℝ), 1 / 2].length = [(2 : ℝ), 2].length ∧ [(1 / 2 : ℝ), 1 / 2].sum = 1 ∧ (0 : ℝ) < 1 ∧
    (2 : ℝ) = 1 / Vec.sumsq [(1 / 2 : ℝ), 1 / 2].toArray ∧
    (1 : ℝ) * 1 < (([(1 / 2 : ℝ), 1 / 2].zip [(2 : ℝ), 2]).map (fun q => q.2 ^ (2 * q.1))).prod := by
  obtain ⟨h1, h2, h3, h4, h5, h6, h7⟩ := GenPow.hyps_nonvacuous
  rw [← GenPow.psi_model_eq] at h6
  exact ⟨h1, h2, h3, h4, h5, h6, h7⟩


/-! ## Exponential cone: starting point and Wright-omega -/

/-- [R] `unit_initialization` (exponential cone): the hard-coded start point `s = z = c` lies in
the interior of both `K` and `K*`, and is the central point with `μ = 1` up to a certified
residual: `‖∇f*(c) + c‖_∞ ≤ 5e-9` and `|⟨c, c⟩/3 − 1| ≤ 5e-16`.  (The exact residual is
enclosed componentwise by `Exp.unitInit_residual_enclosure`; it is non-zero, about
`(-4.56e-9, 7.8e-10, -4.16e-9)`, i.e. the constants are correct to ~9 digits.) -/
theorem exp_unit_initialization_central :
    let c := Exp.unitInitialization (α := ℝ)
    let g := Exp.gradDual c
    ExpDualInterior c.1 c.2.1 c.2.2 ∧ ExpPrimalInterior c.1 c.2.1 c.2.2 ∧
    |g.1 + c.1| ≤ 5e-9 ∧ |g.2.1 + c.2.1| ≤ 5e-9 ∧ |g.2.2 + c.2.2| ≤ 5e-9 ∧
    |(c.1 * c.1 + c.2.1 * c.2.1 + c.2.2 * c.2.2) / 3 - 1| ≤ 5e-16 := by
  intro c g
  obtain ⟨r0, r1, r2⟩ := Exp.unitInit_residual_small
  exact ⟨(exp_dualInt_iff _ _ _).mp Exp.unitInit_dualInt, Exp.unitInit_primalInt,
    r0, r1, r2, Exp.unitInit_mu⟩

/-- [R] what the start point approximates: an interior `z` of `K*` with `s = z = -∇f*(z)`
(the central point) has `μ = ⟨s, z⟩/3 = 1`; in general the deviation of `⟨z, z⟩` from `3` is the
central-point residual paired with `z`. -/
theorem exp_central_point_mu_one {z0 z1 z2 : ℝ} (h : ExpDualInterior z0 z1 z2) :
    (z0 * z0 + z1 * z1 + z2 * z2 - 3
      = ((Exp.gradDual (z0, z1, z2)).1 + z0) * z0 + ((Exp.gradDual (z0, z1, z2)).2.1 + z1) * z1
        + ((Exp.gradDual (z0, z1, z2)).2.2 + z2) * z2) ∧
    (Exp.gradDual (z0, z1, z2) = (-z0, -z1, -z2) → (z0 * z0 + z1 * z1 + z2 * z2) / 3 = 1) := by
  have hi := (exp_dualInt_iff z0 z1 z2).mpr h
  exact ⟨Exp.central_residual_identity hi, fun hc => (Exp.central_point_mu_one hi hc).2⟩

example : ExpDualInterior (Exp.unitInitialization (α := ℝ)).1 (Exp.unitInitialization (α := ℝ)).2.1
    (Exp.unitInitialization (α := ℝ)).2.2 := exp_unit_initialization_central.1

/-- [R] `_wright_omega` is "series start value, then exactly two refinement steps", and an exact
solution (`residual = 0`) is a fixed point of the refinement step; e.g. `ω(1) = 1` exactly. -/
theorem exp_wright_omega_structure {z : ℝ} (hz : 0 ≤ z) :
    Exp.wrightOmega z = .ok (Exp.wrightStep (Exp.wrightStep (Exp.wrightStart z,
        z - Exp.wrightStart z - Nonsym.logsafe (Exp.wrightStart z)))).1 ∧
    (∀ w : ℝ, Exp.wrightStep (w, 0) = (w, 0)) ∧
    (z - Exp.wrightStart z - Nonsym.logsafe (Exp.wrightStart z) = 0 →
      Exp.wrightOmega z = .ok (Exp.wrightStart z)) :=
  ⟨Exp.wrightOmega_eq hz, Exp.wrightStep_fixed, Exp.wrightOmega_of_start_exact hz⟩

example : Exp.wrightOmega (1 : ℝ) = .ok 1 := Exp.wrightOmega_one



end Clarabel.C14

/-! ## Round 4: the open generalised power cone and its dual are convex -/
namespace Clarabel.C14
open Clarabel

/-- [R] (all dimensions) **`int K` and `int K*` of the generalised power cone are convex**: for
positive exponents summing to one, a convex combination `μ·a + ν·b` (`μ, ν ≥ 0`, `μ + ν = 1`,
coordinate-wise on the `u`- and the `w`-part) of two points of the open cone
`{u > 0, ‖w‖² < Π uᵢ^{2αᵢ}}` lies in it, and the same for the open dual cone
`{u > 0, ‖w‖² < Π (uᵢ/αᵢ)^{2αᵢ}}` — the sets `is_primal_feasible` / `is_dual_feasible` decide
(`genpow_membership`).  From the concavity of the weighted geometric mean `u ↦ Π uᵢ^{αᵢ}` on the
positive orthant (weighted AM–GM) and the triangle inequality of `‖·‖₂` (Cauchy–Schwarz). -/
theorem genpow_cones_convex (al ua wa ub wb : List ℝ) (hal : ∀ a ∈ al, 0 < a) (hsum : al.sum = 1)
    (hla : al.length = ua.length) (hlb : ub.length = ua.length) (hlw : wb.length = wa.length)
    {μ ν : ℝ} (hμ : 0 ≤ μ) (hν : 0 ≤ ν) (h1 : μ + ν = 1) :
    (GenPowPrimalInterior al ua wa → GenPowPrimalInterior al ub wb →
      GenPowPrimalInterior al ((ua.zip ub).map (fun p => μ * p.1 + ν * p.2))
        ((wa.zip wb).map (fun p => μ * p.1 + ν * p.2))) ∧
    (GenPowDualInterior al ua wa → GenPowDualInterior al ub wb →
      GenPowDualInterior al ((ua.zip ub).map (fun p => μ * p.1 + ν * p.2))
        ((wa.zip wb).map (fun p => μ * p.1 + ν * p.2))) :=
  ⟨fun hA hB => GenPowConvex.primal_convex al ua wa ub wb hal hsum hla hlb hlw hA hB hμ hν h1,
    fun hA hB => GenPowConvex.dual_convex al ua wa ub wb hal hsum hla hlb hlw hA hB hμ hν h1⟩

/-- non-vacuity: `α = (½, ½)`; `(1, 1 | 0)` and `(4, 1 | 1)` are interior to the primal cone,
`(1, 1 | 1)` to the dual cone -/
example : (∀ a ∈ [(1 / 2 : ℝ), 1 / 2], 0 < a) ∧ [(1 / 2 : ℝ), 1 / 2].sum = 1 ∧
    GenPowPrimalInterior [1 / 2, 1 / 2] [1, 1] [0] ∧ GenPowPrimalInterior [1 / 2, 1 / 2] [4, 1] [1] ∧
    GenPowDualInterior [1 / 2, 1 / 2] [1, 1] [1] := by
  refine ⟨by intro a ha; simp at ha; subst ha; norm_num, by norm_num,
    ⟨by simp, by norm_num⟩, ⟨by simp, by norm_num⟩, ⟨by simp, by norm_num⟩⟩

/-- [R] closes the gap recorded at `genpow_linesearch_keeps_interior` (the convexity step behind
`max_step_fraction`).  For positive exponents summing to one, interior starting points
(`is_dual_feasible(z)`, `is_primal_feasible(s)` true) and directions of the same length, after
`step_length` returned `(αz, αs)` **every** shorter step — in particular the step the solver really
takes, `max_step_fraction·min(αz, αs, …) ≤ αz, αs` — keeps the iterate inside: for all
`t ∈ [0, αz]`, `is_dual_feasible(z + t·dz)` holds and the next `update_scaling` at `z + t·dz` is
accepted and stores that point (so the `u > 0` test missing in `update_scaling` is never needed
inside `solve()`); for all `t ∈ [0, αs]`, `is_primal_feasible(s + t·ds)` holds.  Also covers the
failure value `αz = 0` (no step). -/
theorem genpow_linesearch_keeps_interior_below (al dz ds z s : Array ℝ) (step aMin aMax : ℝ)
    (fuel : Nat) (ha : ∀ a ∈ al.toList, 0 < a) (hsum : al.toList.sum = 1) (az as : ℝ)
    (h : GenPow.stepLength al dz ds z s step aMin aMax fuel = .ok (az, as))
    (hdz : dz.size = z.size) (hds : ds.size = s.size)
    (hz : GenPow.isDualFeasible al z = .ok true) (hs : GenPow.isPrimalFeasible al s = .ok true)
    (st : GenPow.State ℝ) (mu : ℝ) :
    (∀ t, 0 ≤ t → t ≤ az → GenPow.isDualFeasible al (Vec.waxpby 1 z t dz) = .ok true ∧
      ∃ D, GenPow.updateScaling al st (Vec.waxpby 1 z t dz) mu
        = .ok (true, ⟨D, mu, Vec.waxpby 1 z t dz⟩)) ∧
    (∀ t, 0 ≤ t → t ≤ as → GenPow.isPrimalFeasible al (Vec.waxpby 1 s t ds) = .ok true) := by
  obtain ⟨k1, k2⟩ := GenPowConvex.stepLength_segments al dz ds z s step aMin aMax fuel ha hsum az as h
    hdz hds hz hs
  exact ⟨fun t ht0 ht => ⟨k1 t ht0 ht,
    GenPow.updateScaling_of_dualFeasible al _ ha st mu (k1 t ht0 ht)⟩, k2⟩

/-- non-vacuity: `α = (½, ½)`, `z = (1, 1, 1)`, `s = (1, 1, 0)` pass the membership tests -/
example : GenPow.isDualFeasible (#[1 / 2, 1 / 2] : Array ℝ) #[1, 1, 1] = .ok true ∧
    GenPow.isPrimalFeasible (#[1 / 2, 1 / 2] : Array ℝ) #[1, 1, 0] = .ok true := by
  constructor
  · exact (genpow_membership [1 / 2, 1 / 2] [1, 1] [1] rfl
      (by intro a ha; simp at ha; subst ha; norm_num)).2.mpr
      ⟨by simp, by norm_num⟩
  · exact (genpow_membership [1 / 2, 1 / 2] [1, 1] [0] rfl
      (by intro a ha; simp at ha; subst ha; norm_num)).1.mpr
      ⟨by simp, by norm_num⟩

/-! ## The range check of `_wright_omega` is unreachable at accepted points (over ℝ) -/

/-- [R] `C14.exp_wright_argument_pos`: at every point `s` the code's own test
`ExponentialCone::is_primal_feasible` accepts (`s₂ > 0`, `s₁ > 0`, `s₁·log(s₂/s₁) − s₀ > 0`, 0-based)
the argument `1 − s₀/s₁ − log(s₁/s₂)` that `gradient_primal` and `barrier_primal` hand to
`_wright_omega` is `> 1` — it equals `1 + (s₁·log(s₂/s₁) − s₀)/s₁`, one plus the tested residual
over `s₁` —, so the `panic!("argument not in supported range")` (`z < 0`) is unreachable from both
call sites: `_wright_omega` returns some `ω`, `gradient_primal` returns the gradient built from it
and `barrier_primal` returns. -/
theorem exp_wright_argument_pos {s0 s1 s2 : ℝ} (h : Exp.isPrimalFeasible s0 s1 s2 = true) :
    1 < Exp.omegaArg s0 s1 s2 ∧
    Exp.omegaArg s0 s1 s2 = 1 + (s1 * Real.log (s2 / s1) - s0) / s1 ∧
    (∃ w, Exp.wrightOmega (Exp.omegaArg s0 s1 s2) = .ok w ∧
      Exp.gradientPrimal (s0, s1, s2) = .ok (Exp.gradientPrimalOf w s0 s1 s2)) ∧
    (∃ b, Exp.barrierPrimal (s0, s1, s2) = .ok b) := by
  obtain ⟨h1, h2, _⟩ := Exp.isPrimalFeasible_real h
  exact ⟨Exp.omegaArg_gt_one_of_feasible h, Exp.omegaArg_eq_residual h1 h2,
    Exp.gradientPrimal_ok_of_feasible (s := (s0, s1, s2)) h,
    Exp.barrierPrimal_ok_of_feasible (s := (s0, s1, s2)) h⟩

/-- non-vacuity: `(0, 1, 2)` passes `is_primal_feasible` -/
example : Exp.isPrimalFeasible (0 : ℝ) 1 2 = true :=
  (exp_isPrimalFeasible_iff 0 1 2).mpr ⟨by norm_num, by norm_num, by simp⟩

/-- [R] `C14.exp_wright_panic_only_rejected` (contrapositive form): whenever `gradient_primal(s)` or
`barrier_primal(s)` panics — at whatever site —, `s` is a point `is_primal_feasible` rejects. -/
theorem exp_wright_panic_only_rejected (s : V3 ℝ) (site : String)
    (h : Exp.gradientPrimal s = .error (.panic site) ∨ Exp.barrierPrimal s = .error (.panic site)) :
    Exp.isPrimalFeasible s.1 s.2.1 s.2.2 = false :=
  h.elim Exp.gradientPrimal_panic_rejected Exp.barrierPrimal_panic_rejected

/-- non-vacuity: at `(2, 1, 1)` (rejected: `1·log 1 − 2 < 0`) the argument is `−1` and both functions
do panic -/
example : Exp.gradientPrimal ((2 : ℝ), (1 : ℝ), (1 : ℝ)) = .error (.panic "argument not in supported range") := by
  have hz : Exp.omegaArg (2 : ℝ) 1 1 < 0 := by
    unfold Exp.omegaArg
    rw [Nonsym.logsafe_of_pos (by norm_num)]
    norm_num
  unfold Exp.gradientPrimal
  rw [Exp.wrightOmega_neg hz]
  rfl

/-- [R] `C14.exp_cone_calls_return`: the two cone-level callers.  `update_scaling(s, z, μ, strategy)`
returns when the strategy is `Dual` (no Wright-omega call) or `s` passes `is_primal_feasible`;
`compute_barrier(z, s, dz, ds, α)` returns when the candidate `s + α·ds` passes it. -/
theorem exp_cone_calls_return (z s dz ds : V3 ℝ) (mu a : ℝ) (dual : Bool) :
    ((dual = true ∨ Exp.isPrimalFeasible s.1 s.2.1 s.2.2 = true) →
      ∃ K, Exp.updateScaling s z mu dual = .ok K) ∧
    (Exp.isPrimalFeasible (s.1 + a * ds.1) (s.2.1 + a * ds.2.1) (s.2.2 + a * ds.2.2) = true →
      ∃ b, Exp.computeBarrier z s dz ds a = .ok b) :=
  ⟨Exp.updateScaling_ok_of_feasible s z mu dual, Exp.computeBarrier_ok_of_feasible z s dz ds a⟩

end Clarabel.C14
