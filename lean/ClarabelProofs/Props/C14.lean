/-
  C14 — nonsymmetric-cone barrier calculus matches the cones' mathematical definitions.
  Property theorems only (class [R] over ℝ unless tagged otherwise); helper lemmas live in
  `ClarabelProofs/Lemmas/Nonsym*.lean`.
-/
import ClarabelProofs.Lemmas.NonsymExp
import ClarabelProofs.Lemmas.NonsymPow
import ClarabelProofs.Lemmas.NonsymPd
import ClarabelProofs.Lemmas.NonsymExpConj
import ClarabelProofs.Lemmas.NonsymGenPow
import ClarabelProofs.Lemmas.NonsymPowConj
import ClarabelProofs.Lemmas.NonsymExp3
import ClarabelProofs.Lemmas.NonsymChol

namespace Clarabel.C14
open Clarabel

/-! ## Exponential cone -/

/-- interior of the exponential cone `K = cl{ s : s₃ ≥ s₂ e^{s₁/s₂}, s₂ > 0 }` (0-based) -/
def ExpPrimalInterior (s0 s1 s2 : ℝ) : Prop := 0 < s1 ∧ 0 < s2 ∧ s1 * Real.exp (s0 / s1) < s2

/-- interior of the dual cone `K* = cl{ z : z₃ ≥ -z₁ e^{z₂/z₁ - 1}, z₁ < 0 }` (0-based) -/
def ExpDualInterior (z0 z1 z2 : ℝ) : Prop := z0 < 0 ∧ 0 < z2 ∧ -z0 * Real.exp (z1 / z0 - 1) < z2

/-- [R] `is_primal_feasible` decides membership in the interior of the exponential cone. -/
theorem exp_isPrimalFeasible_iff (s0 s1 s2 : ℝ) :
    Exp.isPrimalFeasible s0 s1 s2 = true ↔ ExpPrimalInterior s0 s1 s2 := by
  unfold Exp.isPrimalFeasible ExpPrimalInterior
  by_cases h2 : 0 < s2 <;> by_cases h1 : 0 < s1 <;> simp [h1, h2]
  rw [Nonsym.logsafe_of_pos (div_pos h2 h1)]
  have hd := div_pos h2 h1
  have key : s0 / s1 < Real.log (s2 / s1) ↔ s1 * Real.exp (s0 / s1) < s2 := by
    rw [Real.lt_log_iff_exp_lt hd, lt_div_iff₀ h1, mul_comm]
  rw [← key, div_lt_iff₀ h1, mul_comm]

/-- the model's residual `r = z₁ - z₀ - z₀ log(-z₂/z₀)` is positive exactly on the dual cone -/
theorem exp_dualInt_iff (z0 z1 z2 : ℝ) : Exp.DualInt z0 z1 z2 ↔ ExpDualInterior z0 z1 z2 := by
  unfold ExpDualInterior
  constructor
  · rintro ⟨h0, h2, hr⟩
    refine ⟨h0, h2, ?_⟩
    have hd := Exp.arg_pos h0 h2
    unfold Exp.dualR Exp.dualL at hr
    rw [Nonsym.logsafe_of_pos hd] at hr
    have hlt : z1 / z0 - 1 < Real.log ((-z2) / z0) := by
      have n0 : z0 ≠ 0 := ne_of_lt h0
      have : z1 / z0 - 1 = (z1 - z0) / z0 := by field_simp
      rw [this, div_lt_iff_of_neg h0]; linarith
    rw [Real.lt_log_iff_exp_lt hd, lt_div_iff_of_neg h0] at hlt
    linarith
  · rintro ⟨h0, h2, hlt⟩
    refine ⟨h0, h2, ?_⟩
    have hd := Exp.arg_pos h0 h2
    unfold Exp.dualR Exp.dualL
    rw [Nonsym.logsafe_of_pos hd]
    have h1 : z1 / z0 - 1 < Real.log ((-z2) / z0) := by
      rw [Real.lt_log_iff_exp_lt hd, lt_div_iff_of_neg h0]; linarith
    have n0 : z0 ≠ 0 := ne_of_lt h0
    have : z1 / z0 - 1 = (z1 - z0) / z0 := by field_simp
    rw [this, div_lt_iff_of_neg h0] at h1
    linarith

/-- [R] `is_dual_feasible` decides membership in the interior of the dual exponential cone. -/
theorem exp_isDualFeasible_iff (z0 z1 z2 : ℝ) :
    Exp.isDualFeasible z0 z1 z2 = true ↔ ExpDualInterior z0 z1 z2 := by
  rw [← exp_dualInt_iff]
  unfold Exp.isDualFeasible
  constructor
  · intro h
    by_cases h2 : 0 < z2 <;> by_cases h0 : z0 < 0 <;> simp [h0, h2] at h
    refine ⟨h0, h2, ?_⟩
    unfold Exp.dualR Exp.dualL
    linarith
  · rintro ⟨h0, h2, hr⟩
    unfold Exp.dualR Exp.dualL at hr
    simp [h0, h2]
    linarith

/-- [R] The stored gradient is the gradient of the dual barrier `f*`: for every interior point
of `K*` the three partial derivatives of `barrier_dual` are the entries of `grad` written by
`update_dual_grad_H`. -/
theorem exp_grad_is_derivative {z0 z1 z2 : ℝ} (h : ExpDualInterior z0 z1 z2) :
    HasDerivAt (fun t => Exp.barrierDual t z1 z2) (Exp.gradDual (z0, z1, z2)).1 z0 ∧
    HasDerivAt (fun t => Exp.barrierDual z0 t z2) (Exp.gradDual (z0, z1, z2)).2.1 z1 ∧
    HasDerivAt (fun t => Exp.barrierDual z0 z1 t) (Exp.gradDual (z0, z1, z2)).2.2 z2 := by
  have hi := (exp_dualInt_iff z0 z1 z2).mpr h
  exact ⟨Exp.barrier_d0 hi, Exp.barrier_d1 hi, Exp.barrier_d2 hi⟩

/-- [R] The stored `H_dual` is the Hessian of `f*`: all nine partial derivatives of the three
gradient entries equal the packed entries `H[index_linear(i,j)]` (complete for this cone). -/
theorem exp_hess_is_derivative {z0 z1 z2 : ℝ} (h : ExpDualInterior z0 z1 z2) :
    let H := Exp.hessDual (z0, z1, z2)
    (HasDerivAt (fun t => Exp.grad0 t z1 z2) H.d0 z0 ∧
     HasDerivAt (fun t => Exp.grad0 z0 t z2) H.d1 z1 ∧
     HasDerivAt (fun t => Exp.grad0 z0 z1 t) H.d3 z2) ∧
    (HasDerivAt (fun t => Exp.grad1 t z1 z2) H.d1 z0 ∧
     HasDerivAt (fun t => Exp.grad1 z0 t z2) H.d2 z1 ∧
     HasDerivAt (fun t => Exp.grad1 z0 z1 t) H.d4 z2) ∧
    (HasDerivAt (fun t => Exp.grad2 t z1 z2) H.d3 z0 ∧
     HasDerivAt (fun t => Exp.grad2 z0 t z2) H.d4 z1 ∧
     HasDerivAt (fun t => Exp.grad2 z0 z1 t) H.d5 z2) := by
  have hi := (exp_dualInt_iff z0 z1 z2).mpr h
  exact ⟨⟨Exp.grad0_d0 hi, Exp.grad0_d1 hi, Exp.grad0_d2 hi⟩,
    ⟨Exp.grad1_d0 hi, Exp.grad1_d1 hi, Exp.grad1_d2 hi⟩,
    ⟨Exp.grad2_d0 hi, Exp.grad2_d1 hi, Exp.grad2_d2 hi⟩⟩

/-- [R] log-homogeneity of degree ν = 3: `⟨∇f*(z), z⟩ = -3`, and `H z = -∇f*(z)`. -/
theorem exp_log_homogeneity {z0 z1 z2 : ℝ} (h : ExpDualInterior z0 z1 z2) :
    let g := Exp.gradDual (z0, z1, z2)
    g.1 * z0 + g.2.1 * z1 + g.2.2 * z2 = -3 ∧
    (Exp.hessDual (z0, z1, z2)).mul (z0, z1, z2) = (-g.1, -g.2.1, -g.2.2) := by
  obtain ⟨h0, h2, hr⟩ := (exp_dualInt_iff z0 z1 z2).mpr h
  have n0 : z0 ≠ 0 := ne_of_lt h0
  have n2 : z2 ≠ 0 := ne_of_gt h2
  have nr : Exp.dualR z0 z1 z2 ≠ 0 := ne_of_gt hr
  have hz1 : z1 = Exp.dualR z0 z1 z2 + z0 * Exp.dualL z0 z2 + z0 := by unfold Exp.dualR; ring
  simp only [Exp.hessDual, Exp.gradDual, Sym3.mul, Exp.h00, Exp.h01, Exp.h11, Exp.h02, Exp.h12, Exp.h22,
      Exp.grad0, Exp.grad1, Exp.grad2, Nonsym.recip, Prod.mk.injEq]
  generalize Exp.dualR z0 z1 z2 = r at *
  generalize Exp.dualL z0 z2 = L at *
  subst hz1
  refine ⟨?_, ?_, ?_, ?_⟩ <;> field_simp <;> ring

example : ExpDualInterior (-1) 0 1 := by
  refine ⟨by norm_num, by norm_num, ?_⟩
  have : Real.exp (0 / (-1) - 1) < 1 := by
    rw [Real.exp_lt_one_iff]; norm_num
  linarith

example : ExpPrimalInterior 0 1 2 := by
  refine ⟨by norm_num, by norm_num, ?_⟩
  simp

/-- [R] Conjugacy of `gradient_primal` (conditional on the scalar solve): if `ω > 0` solves the
Wright-omega equation `ω + log ω = 1 - s₁/s₂ - log(s₂/s₃)` exactly, then `g = gradient_primal(s)`
satisfies `-g ∈ int K*`, `∇f*(-g) = -s` and `⟨s, g⟩ = -3`.  (What `_wright_omega` returns
satisfies the equation only to ~1e-15; that gap is measured by the harness oracle.) -/
theorem exp_conjugacy {s0 s1 s2 w : ℝ} (hs : ExpPrimalInterior s0 s1 s2) (hw0 : 0 < w)
    (heq : w + Real.log w = Exp.omegaArg s0 s1 s2) :
    let g := Exp.gradientPrimalOf w s0 s1 s2
    ExpDualInterior (-g.1) (-g.2.1) (-g.2.2) ∧
    Exp.gradDual (-g.1, -g.2.1, -g.2.2) = (-s0, -s1, -s2) ∧
    g.1 * s0 + g.2.1 * s1 + g.2.2 * s2 = -3 := by
  obtain ⟨h1, h2, hlt⟩ := hs
  have harg : 1 < Exp.omegaArg s0 s1 s2 := by
    unfold Exp.omegaArg
    rw [Nonsym.logsafe_of_pos (div_pos h1 h2)]
    have hd := div_pos h2 h1
    have key : s0 / s1 < Real.log (s2 / s1) := by
      rw [Real.lt_log_iff_exp_lt hd, lt_div_iff₀ h1, mul_comm]; exact hlt
    have : Real.log (s1 / s2) = -Real.log (s2 / s1) := by
      rw [← Real.log_inv, inv_div]
    rw [this]; linarith
  have hw := Exp.one_lt_of_omega hw0 harg heq
  obtain ⟨hint, hgrad⟩ := Exp.conj_main h1 h2 hw heq
  simp only at hint hgrad ⊢
  have hint' := (exp_dualInt_iff _ _ _).mp hint
  refine ⟨hint', hgrad, ?_⟩
  have hh := (exp_log_homogeneity hint').1
  simp only [hgrad] at hh
  linarith

/-- [R] `C14.third_order` (exponential cone).  The vector computed by `higher_correction` after
the solve `H u = Δs` is one half of the third derivative of the dual barrier contracted with `u`
and `v`: for every interior `z` and all `u, v`,
`d/dt [ H_dual(z + t u) v ]_{t=0} = 2 · higher_correction_of(z; u, v)` (all three rows), i.e.
`η = +½ ∇³f*(z)[u, v]` (the sign the code computes; `combined_ds_shift` subtracts it). -/
theorem exp_third_order {z0 z1 z2 : ℝ} (h : ExpDualInterior z0 z1 z2) (u0 u1 u2 v0 v1 v2 : ℝ) :
    let η := Exp.higherCorrectionOf (z0, z1, z2) (u0, u1, u2) (v0, v1, v2)
    HasDerivAt (fun t => ((Exp.hessDual (z0 + t * u0, z1 + t * u1, z2 + t * u2)).mul (v0, v1, v2)).1) (2 * η.1) 0 ∧
    HasDerivAt (fun t => ((Exp.hessDual (z0 + t * u0, z1 + t * u1, z2 + t * u2)).mul (v0, v1, v2)).2.1) (2 * η.2.1) 0 ∧
    HasDerivAt (fun t => ((Exp.hessDual (z0 + t * u0, z1 + t * u1, z2 + t * u2)).mul (v0, v1, v2)).2.2) (2 * η.2.2) 0 := by
  have hi := (exp_dualInt_iff z0 z1 z2).mpr h
  exact ⟨Exp.third_row0 u0 u1 u2 v0 v1 v2 hi, Exp.third_row1 u0 u1 u2 v0 v1 v2 hi,
    Exp.third_row2 u0 u1 u2 v0 v1 v2 hi⟩

/-- [F]/[S] the `u` of `higher_correction` is `H⁻¹Δs`: when the explicit 3×3 Cholesky
factorisation of the stored `H_dual` succeeds, the explicit solve returns `u` with `H u = Δs` and
`higher_correction = higher_correction_of(z; u, v)`; when it fails the correction is zero. -/
theorem higher_correction_solve (H : Sym3 ℝ) (z ds v : V3 ℝ) :
    (∀ L, Sym3.choleskyFactor H = (true, L) →
      H.mul (Sym3.choleskySolve L ds) = ds ∧
      Exp.higherCorrection H z ds v = Exp.higherCorrectionOf z (Sym3.choleskySolve L ds) v) ∧
    (∀ L, Sym3.choleskyFactor H = (false, L) → Exp.higherCorrection H z ds v = (0, 0, 0)) := by
  constructor
  · intro L hL
    refine ⟨Sym3.cholesky_solve_correct H L ds hL, ?_⟩
    unfold Exp.higherCorrection
    rw [hL]
    rfl
  · intro L hL
    unfold Exp.higherCorrection
    rw [hL]
    rfl

/-! ## Power cone (exponent `a ∈ (0,1)`) -/

/-- interior of `K = { s : s₁^a s₂^{1-a} ≥ |s₃|, s₁,s₂ ≥ 0 }` -/
def PowPrimalInterior (a s0 s1 s2 : ℝ) : Prop := 0 < s0 ∧ 0 < s1 ∧ |s2| < s0 ^ a * s1 ^ (1 - a)

/-- interior of `K* = { z : (z₁/a)^a (z₂/(1-a))^{1-a} ≥ |z₃|, z₁,z₂ ≥ 0 }` -/
def PowDualInterior (a z0 z1 z2 : ℝ) : Prop :=
  0 < z0 ∧ 0 < z1 ∧ |z2| < (z0 / a) ^ a * (z1 / (1 - a)) ^ (1 - a)

/-- [R] `is_primal_feasible` (the `exp(2a log s₁ + 2(1-a) log s₂) - s₃² > 0` form) decides
membership in the interior of the power cone. -/
theorem pow_isPrimalFeasible_iff (a s0 s1 s2 : ℝ) :
    Pow.isPrimalFeasible a s0 s1 s2 = true ↔ PowPrimalInterior a s0 s1 s2 := by
  unfold Pow.isPrimalFeasible PowPrimalInterior
  by_cases h0 : 0 < s0 <;> by_cases h1 : 0 < s1 <;> simp [h0, h1]
  rw [Nonsym.logsafe_of_pos h0, Nonsym.logsafe_of_pos h1, Pow.exp_two_geo h0 h1, ← sq, sq_lt_sq,
    abs_of_pos (mul_pos (Real.rpow_pos_of_pos h0 _) (Real.rpow_pos_of_pos h1 _))]

/-- [R] `is_dual_feasible` decides membership in the interior of the dual power cone. -/
theorem pow_isDualFeasible_iff {a : ℝ} (ha0 : 0 < a) (ha1 : a < 1) (z0 z1 z2 : ℝ) :
    Pow.isDualFeasible a z0 z1 z2 = true ↔ PowDualInterior a z0 z1 z2 := by
  unfold Pow.isDualFeasible PowDualInterior
  have h1a : 0 < 1 - a := by linarith
  by_cases h0 : 0 < z0 <;> by_cases h1 : 0 < z1 <;> simp [h0, h1]
  have p0 := div_pos h0 ha0
  have p1 := div_pos h1 h1a
  have e : a * 2 * Real.log (z0 / a) + (1 - a) * Real.log (z1 / (1 - a)) * 2
      = 2 * a * Real.log (z0 / a) + 2 * (1 - a) * Real.log (z1 / (1 - a)) := by ring
  rw [Nonsym.logsafe_of_pos p0, Nonsym.logsafe_of_pos p1, e, Pow.exp_two_geo p0 p1, ← sq, sq_lt_sq,
    abs_of_pos (mul_pos (Real.rpow_pos_of_pos p0 _) (Real.rpow_pos_of_pos p1 _))]

/-- the model's `ψ = phi - z₃²` is positive exactly on the interior of the dual cone -/
theorem pow_dualInt_iff {a : ℝ} (ha0 : 0 < a) (ha1 : a < 1) (z0 z1 z2 : ℝ) :
    Pow.DualInt a z0 z1 z2 ↔ PowDualInterior a z0 z1 z2 := by
  unfold PowDualInterior
  have h1a : 0 < 1 - a := by linarith
  constructor
  · rintro ⟨_, _, h0, h1, hψ⟩
    refine ⟨h0, h1, ?_⟩
    unfold Pow.psiDual at hψ
    rw [Pow.phiDual_eq_sq ha0 ha1 h0 h1, ← sq, sub_pos, sq_lt_sq,
      abs_of_pos (mul_pos (Real.rpow_pos_of_pos (div_pos h0 ha0) _) (Real.rpow_pos_of_pos (div_pos h1 h1a) _))] at hψ
    exact hψ
  · rintro ⟨h0, h1, hlt⟩
    refine ⟨ha0, ha1, h0, h1, ?_⟩
    unfold Pow.psiDual
    rw [Pow.phiDual_eq_sq ha0 ha1 h0 h1, ← sq, sub_pos, sq_lt_sq,
      abs_of_pos (mul_pos (Real.rpow_pos_of_pos (div_pos h0 ha0) _) (Real.rpow_pos_of_pos (div_pos h1 h1a) _))]
    exact hlt

/-- [R] The stored gradient of the power cone is the gradient of its dual barrier. -/
theorem pow_grad_is_derivative {a z0 z1 z2 : ℝ} (ha0 : 0 < a) (ha1 : a < 1)
    (h : PowDualInterior a z0 z1 z2) :
    HasDerivAt (fun t => Pow.barrierDual a t z1 z2) (Pow.gradDual a (z0, z1, z2)).1 z0 ∧
    HasDerivAt (fun t => Pow.barrierDual a z0 t z2) (Pow.gradDual a (z0, z1, z2)).2.1 z1 ∧
    HasDerivAt (fun t => Pow.barrierDual a z0 z1 t) (Pow.gradDual a (z0, z1, z2)).2.2 z2 := by
  have hi := (pow_dualInt_iff ha0 ha1 z0 z1 z2).mpr h
  exact ⟨Pow.barrier_d0 hi, Pow.barrier_d1 hi, Pow.barrier_d2 hi⟩

/-- [R] The stored `H_dual` of the power cone is the Hessian of its dual barrier (all nine
partial derivatives of the gradient entries). -/
theorem pow_hess_is_derivative {a z0 z1 z2 : ℝ} (ha0 : 0 < a) (ha1 : a < 1)
    (h : PowDualInterior a z0 z1 z2) :
    let H := Pow.hessDual a (z0, z1, z2)
    (HasDerivAt (fun t => Pow.grad0 a t z1 z2) H.d0 z0 ∧
     HasDerivAt (fun t => Pow.grad0 a z0 t z2) H.d1 z1 ∧
     HasDerivAt (fun t => Pow.grad0 a z0 z1 t) H.d3 z2) ∧
    (HasDerivAt (fun t => Pow.grad1 a t z1 z2) H.d1 z0 ∧
     HasDerivAt (fun t => Pow.grad1 a z0 t z2) H.d2 z1 ∧
     HasDerivAt (fun t => Pow.grad1 a z0 z1 t) H.d4 z2) ∧
    (HasDerivAt (fun t => Pow.grad2 a t z1 z2) H.d3 z0 ∧
     HasDerivAt (fun t => Pow.grad2 a z0 t z2) H.d4 z1 ∧
     HasDerivAt (fun t => Pow.grad2 a z0 z1 t) H.d5 z2) := by
  have hi := (pow_dualInt_iff ha0 ha1 z0 z1 z2).mpr h
  exact ⟨⟨Pow.grad0_d0 hi, Pow.grad0_d1 hi, Pow.grad0_d2 hi⟩,
    ⟨Pow.grad1_d0 hi, Pow.grad1_d1 hi, Pow.grad1_d2 hi⟩,
    ⟨Pow.grad2_d0 hi, Pow.grad2_d1 hi, Pow.grad2_d2 hi⟩⟩

/-- [R] log-homogeneity of degree ν = 3 for the power cone: `⟨∇f*(z), z⟩ = -3`, `H z = -∇f*(z)`. -/
theorem pow_log_homogeneity {a z0 z1 z2 : ℝ} (ha0 : 0 < a) (ha1 : a < 1)
    (h : PowDualInterior a z0 z1 z2) :
    let g := Pow.gradDual a (z0, z1, z2)
    g.1 * z0 + g.2.1 * z1 + g.2.2 * z2 = -3 ∧
    (Pow.hessDual a (z0, z1, z2)).mul (z0, z1, z2) = (-g.1, -g.2.1, -g.2.2) := by
  obtain ⟨_, _, h0, h1, hψ⟩ := (pow_dualInt_iff ha0 ha1 z0 z1 z2).mpr h
  have n0 : z0 ≠ 0 := ne_of_gt h0
  have n1 : z1 ≠ 0 := ne_of_gt h1
  have nψ : Pow.psiDual a z0 z1 z2 ≠ 0 := ne_of_gt hψ
  simp only [Pow.hessDual, Pow.gradDual, Sym3.mul, Pow.h00, Pow.h01, Pow.h11, Pow.h02, Pow.h12, Pow.h22,
    Pow.gpsi0, Pow.gpsi1, Pow.gpsi2, Pow.grad0, Pow.grad1, Pow.grad2, Pow.psiDual, Prod.mk.injEq] at *
  generalize Pow.phiDual a z0 z1 = φ at *
  have nψ' : φ - z2 ^ 2 ≠ 0 := by rw [sq]; exact nψ
  refine ⟨?_, ?_, ?_, ?_⟩ <;> field_simp <;> ring

/-- [R] `unit_initialization` of the power cone is exactly the central point:
`s = z`, `s = -∇f*(z)` and `μ = ⟨s,z⟩/3 = 1`. -/
theorem pow_central_point {a : ℝ} (ha0 : 0 < a) (ha1 : a < 1) :
    let u := Pow.unitInitialization a
    Pow.gradDual a u = (-u.1, -u.2.1, -u.2.2) ∧ (u.1 * u.1 + u.2.1 * u.2.1 + u.2.2 * u.2.2) / 3 = 1 ∧
    PowDualInterior a u.1 u.2.1 u.2.2 ∧ PowPrimalInterior a u.1 u.2.1 u.2.2 := by
  have p0 : (0 : ℝ) < 1 + a := by linarith
  have p1 : (0 : ℝ) < 1 + (1 - a) := by linarith
  have s0 := Real.sqrt_pos.mpr p0
  have s1 := Real.sqrt_pos.mpr p1
  have q0 := Real.mul_self_sqrt p0.le
  have q1 := Real.mul_self_sqrt p1.le
  have hφ := Pow.phiDual_pos ha0 ha1 s0 s1
  simp only [Pow.unitInitialization, real_sqrt_eq]
  refine ⟨?_, ?_, ?_, ?_⟩
  · simp only [Pow.gradDual, Pow.grad0, Pow.grad1, Pow.grad2, Pow.psiDual, Prod.mk.injEq, mul_zero, sub_zero,
      zero_div, neg_zero]
    generalize Pow.phiDual a √(1 + a) √(1 + (1 - a)) = φ at *
    have nφ : φ ≠ 0 := ne_of_gt hφ
    refine ⟨?_, ?_, trivial⟩
    · field_simp; linarith
    · field_simp; linarith
  · rw [q0, q1]; ring
  · refine ⟨s0, s1, ?_⟩
    rw [abs_zero]
    exact mul_pos (Real.rpow_pos_of_pos (div_pos s0 ha0) _) (Real.rpow_pos_of_pos (div_pos s1 (by linarith)) _)
  · refine ⟨s0, s1, ?_⟩
    rw [abs_zero]
    exact mul_pos (Real.rpow_pos_of_pos s0 _) (Real.rpow_pos_of_pos s1 _)

example : PowDualInterior (1 / 2) 1 1 0 := by
  refine ⟨by norm_num, by norm_num, ?_⟩
  rw [abs_zero]; positivity

example : PowPrimalInterior (1 / 2) 1 1 0 := by
  refine ⟨by norm_num, by norm_num, ?_⟩
  rw [abs_zero]; positivity

/-- [R] Conjugacy of the power cone's `gradient_primal`, conditional on the scalar solve: if
`x > 0` is an exact root of the Newton–Raphson target `f0` (model: `Pow.nrF0`), then
`g = gradient_primal(s)` built from `g[2] = ±x` satisfies `-g ∈ int K*` and `∇f*(-g) = -s`.

**Finding (known, NR-START-RIGHT-OF-ROOT).**  The hypothesis is *not* met by the code: the start
`x0 = -1/s₃ + (2s₃ + √(φ²/s₃² + 3φ))/(φ - s₃²)` (`Pow.nrX0`) is an upper bound of the root
(`x0/root ∈ [1, 2.25]`, equal to the root exactly when `a = 1/2`), `f0` is decreasing, so the first
Newton step is negative and `newton_raphson_onesided` returns `x0` unrefined.  Measured on the
implementation (and reproduced bit-for-bit by the model at `Float`): `a = 0.3, s = (1,2,-0.5)`
gives `g = (-1.43833, -1.01139, -0.92220)` with `|g[2]| = x0`, while the root is `0.86605`;
`∇f*(-g) = (-1.00705, -2.0234, 0.4633) ≠ -s`.  No kernel-checked inequality is given for this
(irrational exponents); the harness oracle `pow.gradient_primal` carries it. -/
theorem pow_conjugacy {a s0 s1 s2 x : ℝ} (ha0 : 0 < a) (ha1 : a < 1) (h0 : 0 < s0) (h1 : 0 < s1)
    (h2 : s2 ≠ 0) (hx : 0 < x)
    (hf : Pow.nrF0 |s2| (powf s0 (2 * a) * powf s1 (2 - a * 2)) a x = 0) :
    let g := Pow.gradientPrimalOf a x s0 s1 s2
    PowDualInterior a (-g.1) (-g.2.1) (-g.2.2) ∧
    Pow.gradDual a (-g.1, -g.2.1, -g.2.2) = (-s0, -s1, -s2) := by
  obtain ⟨hint, hgrad⟩ := Pow.conj_main ha0 ha1 h0 h1 h2 hx hf
  exact ⟨(pow_dualInt_iff ha0 ha1 _ _ _).mp hint, hgrad⟩

/-- [F] Whatever value the scalar solve returns, the power cone's primal gradient satisfies
`⟨s, g(s)⟩ = -3` exactly (the first two entries are built from the third).  This is the only
property of `g(s)` that `pd_scaling` needs. -/
theorem pow_gradient_primal_inner {a s0 s1 s2 x : ℝ} (h0 : s0 ≠ 0) (h1 : s1 ≠ 0) :
    let g := Pow.gradientPrimalOf a x s0 s1 s2
    g.1 * s0 + g.2.1 * s1 + g.2.2 * s2 = -3 := by
  simp only [Pow.gradientPrimalOf]
  field_simp
  ring

/-! ## Generalised power cone -/

/-- [R] `unit_initialization` of the generalised power cone is the central point in every
dimension: with `z = s = (√(1+αᵢ))ᵢ ⊕ 0`, `update_dual_grad_H` succeeds (`ζ > 0`) and the stored
gradient is `-z`, i.e. `s = -∇f*(z)`. -/
theorem genpow_central_point (al : Array ℝ) (dim2 : Nat) (hal : ∀ a ∈ al.toList, 0 < a) :
    ∃ D, GenPow.updateDualGradH al (GenPow.unitInitialization al dim2) = .ok D ∧
      D.grad = Vec.negate (GenPow.unitInitialization al dim2) :=
  GenPow.central al dim2 hal

/-- interior of the generalised power cone `K = { (u,w) : Π uᵢ^{αᵢ} ≥ ‖w‖, u ≥ 0 }`, in squared
form: `u > 0` and `‖w‖² < Π uᵢ^{2αᵢ}` (lists: `al` exponents, `u`, `w` the two coordinate classes) -/
def GenPowPrimalInterior (al u w : List ℝ) : Prop :=
  (∀ x ∈ u, 0 < x) ∧ (w.map (fun x => x * x)).sum < ((al.zip u).map (fun p => p.2 ^ (2 * p.1))).prod

/-- interior of the dual cone `K* = { (u,w) : Π (uᵢ/αᵢ)^{αᵢ} ≥ ‖w‖, u ≥ 0 }`, in squared form -/
def GenPowDualInterior (al u w : List ℝ) : Prop :=
  (∀ x ∈ u, 0 < x) ∧
    (w.map (fun x => x * x)).sum < ((al.zip u).map (fun p => (p.2 / p.1) ^ (2 * p.1))).prod

/-- [R] (all dimensions) the membership tests of the generalised power cone — the
`exp(Σ 2αᵢ log ·) - ‖w‖² > 0` forms — decide membership in the open primal / dual cone. -/
theorem genpow_membership (al u w : List ℝ) (hlen : al.length = u.length) (ha : ∀ a ∈ al, 0 < a) :
    (GenPow.isPrimalFeasible al.toArray (u ++ w).toArray = .ok true ↔ GenPowPrimalInterior al u w) ∧
    (GenPow.isDualFeasible al.toArray (u ++ w).toArray = .ok true ↔ GenPowDualInterior al u w) :=
  ⟨GenPow.isPrimalFeasible_iff al u w hlen, GenPow.isDualFeasible_iff al u w hlen ha⟩

/-- [R] (all dimensions) the model's `barrier_dual` evaluates to the real function
`GenPow.barrierVal al u w = -log(exp(Σ 2αᵢ log(uᵢ/αᵢ)) - ‖w‖²) - Σ (1-αᵢ) log uᵢ`
(with `logsafe` for `log`), and at an interior point `update_dual_grad_H` succeeds and stores
`grad = [gradU(αᵢ,uᵢ)]ᵢ ++ [gradW(wⱼ)]ⱼ` with `φ = Π(uᵢ/αᵢ)^{2αᵢ}`, `ζ = φ - ‖w‖²`,
`gradU = -(2α/u)φ/ζ - (1-α)/u`, `gradW = (2/ζ) w`. -/
theorem genpow_grad_entries (al u w : List ℝ) (hlen : al.length = u.length)
    (h : GenPowDualInterior al u w) :
    GenPow.barrierDual al.toArray (u ++ w).toArray = .ok (GenPow.barrierVal al u w) ∧
    ∃ D, GenPow.updateDualGradH al.toArray (u ++ w).toArray = .ok D ∧
      D.grad.toList =
        (al.zip u).map (fun p => GenPow.gradU (GenPow.prodPhi al u) (GenPow.prodPhi al u - GenPow.sumSq w) p.1 p.2)
          ++ w.map (GenPow.gradW (GenPow.prodPhi al u - GenPow.sumSq w)) := by
  refine ⟨GenPow.barrierDual_eq al u w hlen, GenPow.updateDualGradH_grad al u w hlen ?_⟩
  have := h.2
  unfold GenPow.prodPhi GenPow.sumSq
  linarith

/-- [R] (all dimensions, every coordinate of both classes) the stored gradient entries are the
partial derivatives of the dual barrier.  A coordinate is singled out by a zipper
`al = a₁ ++ a :: a₂`, `u = u₁ ++ t :: u₂` (resp. `w = w₁ ++ t :: w₂`); `φ`, `ζ` as in
`genpow_grad_entries`. -/
theorem genpow_grad_is_derivative :
    (∀ (a1 a2 u1 u2 w : List ℝ) (a t : ℝ), a1.length = u1.length → (∀ x ∈ a1 ++ a :: a2, 0 < x) →
      GenPowDualInterior (a1 ++ a :: a2) (u1 ++ t :: u2) w →
      HasDerivAt (fun x => GenPow.barrierVal (a1 ++ a :: a2) (u1 ++ x :: u2) w)
        (GenPow.gradU (GenPow.prodPhi (a1 ++ a :: a2) (u1 ++ t :: u2))
          (GenPow.prodPhi (a1 ++ a :: a2) (u1 ++ t :: u2) - GenPow.sumSq w) a t) t) ∧
    (∀ (al u w1 w2 : List ℝ) (t : ℝ), (∀ x ∈ al, 0 < x) →
      GenPowDualInterior al u (w1 ++ t :: w2) →
      HasDerivAt (fun x => GenPow.barrierVal al u (w1 ++ x :: w2))
        (GenPow.gradW (GenPow.prodPhi al u - GenPow.sumSq (w1 ++ t :: w2)) t) t) := by
  constructor
  · intro a1 a2 u1 u2 w a t hlen ha h
    have hu : GenPow.AllPos (u1 ++ t :: u2) := h.1
    have hφ := GenPow.prodPhi_eq_exp _ _ ha hu
    rw [← GenPow.logPhiS_eq _ _ ha hu] at hφ
    have ht : 0 < t := hu t (by simp)
    have hpa : 0 < a := ha a (by simp)
    have hζ : 0 < Real.exp (GenPow.logPhiS (a1 ++ a :: a2) (u1 ++ t :: u2)) - GenPow.sumSq w := by
      rw [← hφ]; have := h.2; unfold GenPow.prodPhi GenPow.sumSq; linarith
    have := GenPow.barrier_dU a1 a2 u1 u2 w a t hlen hpa ht hζ
    rw [← hφ] at this
    exact this
  · intro al u w1 w2 t ha h
    have hu : GenPow.AllPos u := h.1
    have hφ := GenPow.prodPhi_eq_exp _ _ ha hu
    rw [← GenPow.logPhiS_eq _ _ ha hu] at hφ
    have hζ : 0 < Real.exp (GenPow.logPhiS al u) - GenPow.sumSq (w1 ++ t :: w2) := by
      rw [← hφ]; have := h.2; unfold GenPow.prodPhi GenPow.sumSq; linarith
    have := GenPow.barrier_dW al u w1 w2 t hζ
    rw [← hφ] at this
    exact this

/-- [R] (all dimensions) log-homogeneity of degree `ν = dim₁ + 1`: for exponents summing to one,
`⟨∇f*(z), z⟩ = -(dim₁ + 1)` for the stored gradient at every interior point. -/
theorem genpow_log_homogeneity (al u w : List ℝ) (hlen : al.length = u.length) (hsum : al.sum = 1)
    (h : GenPowDualInterior al u w) :
    ∃ D, GenPow.updateDualGradH al.toArray (u ++ w).toArray = .ok D ∧
      Vec.dot D.grad (u ++ w).toArray = -((al.length : ℝ) + 1) := by
  have hζ : 0 < GenPow.prodPhi al u - GenPow.sumSq w := by
    have := h.2; unfold GenPow.prodPhi GenPow.sumSq; linarith
  obtain ⟨D, hD, hg⟩ := GenPow.updateDualGradH_grad al u w hlen hζ
  refine ⟨D, hD, ?_⟩
  have : D.grad = D.grad.toList.toArray := by simp
  rw [this, hg]
  exact GenPow.log_homogeneity al u w hlen h.1 hsum hζ

example : GenPowDualInterior [1 / 2, 1 / 2] [1, 1] [1] := by
  refine ⟨by simp, ?_⟩
  norm_num

/-! ## Primal–dual scaling (3-d cones; class [F] algebra, stated over ℝ) -/

open Nonsym in
/-- [F] `C14.pd_scaling`.  When `use_primal_dual_scaling` takes the primal–dual branch, the matrix
`Hs = ss'/⟨s,z⟩ + δsδs'/⟨δs,δz⟩ + t·aa'` (symmetric by construction: packed storage) maps
`z ↦ s` and the shadow point `z̃ ↦ s̃` — in the code's sign convention `zt = g(s) = -z̃`,
`st = ∇f*(z) = -s̃`, so `Hs zt = st`.  Only log-homogeneity is used: `⟨∇f*(z), z⟩ = -3` and
`⟨s, g(s)⟩ = -3` (so the identities survive an inexact `gradient_primal` as long as `⟨s,g⟩ = -ν`). -/
theorem pd_scaling (Hd : Sym3 ℝ) (st zt s z : V3 ℝ)
    (hst : dotR st z = -3) (hszt : dotR s zt = -3)
    (h1 : (pdQuantities Hd st zt s z).dotSz ≠ 0) (h2 : (pdQuantities Hd st zt s z).dotDsz ≠ 0) :
    let Hs := pdHs Hd st zt s z (pdQuantities Hd st zt s z)
    Hs.mul z = s ∧ Hs.mul zt = st := by
  obtain ⟨t, a, o1, o2, -, hH⟩ := pdHs_eq_rank3 Hd st zt s z (pdQuantities Hd st zt s z)
  obtain ⟨e1, e2, e3, e4⟩ := pdQuantities_fields Hd st zt s z
  simp only at e1 e2 e3 e4 ⊢
  rw [hH, rank3_mul, rank3_mul, o1, o2]
  generalize (pdQuantities Hd st zt s z).dotSz = D1 at *
  generalize (pdQuantities Hd st zt s z).dotDsz = D2 at *
  generalize (pdQuantities Hd st zt s z).mu = mu at *
  generalize (pdQuantities Hd st zt s z).ds = ds at *
  subst e3
  obtain ⟨s0, s1, s2⟩ := s
  obtain ⟨z0, z1, z2⟩ := z
  obtain ⟨st0, st1, st2⟩ := st
  obtain ⟨zt0, zt1, zt2⟩ := zt
  simp only [dotR] at *
  have hmu : mu ≠ 0 := by
    rw [e2]; exact div_ne_zero (by rw [← e1]; exact h1) (by norm_num)
  -- ⟨δs, z⟩ = 0 and ⟨δs,δz⟩ = μ ⟨δs, zt⟩
  have k1 : (s0 + mu * st0) * z0 + (s1 + mu * st1) * z1 + (s2 + mu * st2) * z2 = 0 := by
    have : s0 * z0 + s1 * z1 + s2 * z2 = 3 * mu := by rw [e2]; ring
    linear_combination this + mu * hst
  have k2 : D2 = mu * ((s0 + mu * st0) * zt0 + (s1 + mu * st1) * zt1 + (s2 + mu * st2) * zt2) := by
    rw [e4]; linear_combination k1
  have hq : (s0 + mu * st0) * zt0 + (s1 + mu * st1) * zt1 + (s2 + mu * st2) * zt2 ≠ 0 := by
    intro h0; apply h2; rw [k2, h0, mul_zero]
  have hD1 : D1 = 3 * mu := by rw [e2, e1]; ring
  constructor
  · rw [k1, ← e1, div_self h1]
    simp
  · rw [hszt, k2, hD1]
    simp only [Prod.mk.injEq]
    refine ⟨?_, ?_, ?_⟩ <;> field_simp <;> ring

open Nonsym in
/-- [F] With positive denominators (two of the four tests of the branch; `μ = ⟨s,z⟩/3 > 0`)
the primal–dual `Hs` is positive semidefinite: `x'Hs x = ⟨s,x⟩²/⟨s,z⟩ + ⟨δs,x⟩²/⟨δs,δz⟩ + t⟨a,x⟩²`
with `t = μ‖·‖_F ≥ 0`.  (`pd_scaling_partial`: strict definiteness additionally needs `s, δs, a`
to be linearly independent and `t > 0`; that part is carried by the harness oracle only.) -/
theorem pd_scaling_psd_partial (Hd : Sym3 ℝ) (st zt s z : V3 ℝ)
    (h1 : 0 < (pdQuantities Hd st zt s z).dotSz) (h2 : 0 < (pdQuantities Hd st zt s z).dotDsz) (x : V3 ℝ) :
    0 ≤ (pdHs Hd st zt s z (pdQuantities Hd st zt s z)).quadForm x x := by
  obtain ⟨t, a, -, -, ht, hH⟩ := pdHs_eq_rank3 Hd st zt s z (pdQuantities Hd st zt s z)
  have hmu : 0 ≤ (pdQuantities Hd st zt s z).mu := by
    have : (pdQuantities Hd st zt s z).mu = (pdQuantities Hd st zt s z).dotSz / 3 := rfl
    rw [this]; positivity
  rw [hH, rank3_quadForm]
  have := ht hmu
  positivity

open Nonsym in
/-- [F] Strict positive definiteness of the primal–dual `Hs`: with both denominators positive
(`⟨s,z⟩ > 0`, `⟨δs,δz⟩ > 0` — two of the four tests of the branch), a positive Frobenius weight
`t = μ‖·‖_F` and `z × zt ≠ 0` (the third axis exists), `xᵀ Hs x > 0` for every `x ≠ 0`.
Uses log-homogeneity `⟨∇f*(z), z⟩ = -3` and `⟨s, g(s)⟩ = -3`: then
`det[s; δs; z×zt] = ⟨s,z⟩·⟨δs,zt⟩ ≠ 0` (Binet–Cauchy), so the three rank-one terms span. -/
theorem pd_scaling_posdef (Hd : Sym3 ℝ) (st zt s z : V3 ℝ)
    (hst : dotR st z = -3) (hszt : dotR s zt = -3)
    (h1 : 0 < (pdQuantities Hd st zt s z).dotSz) (h2 : 0 < (pdQuantities Hd st zt s z).dotDsz)
    (ht : 0 < pdWeight Hd st zt (pdQuantities Hd st zt s z)) (hc : cross3 z zt ≠ (0, 0, 0))
    (x : V3 ℝ) (hx : x ≠ (0, 0, 0)) :
    0 < (pdHs Hd st zt s z (pdQuantities Hd st zt s z)).quadForm x x := by
  obtain ⟨k1, k2, k3, k4⟩ := pd_key Hd st zt s z hst
  obtain ⟨k, hk0, hk⟩ := normalize3_smul_ne (cross3 z zt) hc
  rw [pdHs_eq_rank3', rank3_quadForm]
  generalize pdWeight Hd st zt (pdQuantities Hd st zt s z) = t at *
  generalize (pdQuantities Hd st zt s z).dotSz = D1 at *
  generalize (pdQuantities Hd st zt s z).dotDsz = D2 at *
  generalize (pdQuantities Hd st zt s z).mu = mu at *
  generalize (pdQuantities Hd st zt s z).ds = ds at *
  have hmu : 0 < mu := by linarith
  have hA : 0 ≤ dotR s x ^ 2 / D1 := by positivity
  have hB : 0 ≤ dotR ds x ^ 2 / D2 := by positivity
  have hC : 0 ≤ t * dotR (normalize3 (cross3 z zt)) x ^ 2 := by positivity
  by_contra hle
  rw [not_lt] at hle
  have eA : dotR s x ^ 2 / D1 = 0 := by linarith
  have eB : dotR ds x ^ 2 / D2 = 0 := by linarith
  have eC : t * dotR (normalize3 (cross3 z zt)) x ^ 2 = 0 := by linarith
  have dA : dotR s x = 0 := by
    rcases div_eq_zero_iff.mp eA with h | h
    · exact pow_eq_zero_iff (by norm_num) |>.mp h
    · linarith
  have dB : dotR ds x = 0 := by
    rcases div_eq_zero_iff.mp eB with h | h
    · exact pow_eq_zero_iff (by norm_num) |>.mp h
    · linarith
  have dC : dotR (cross3 z zt) x = 0 := by
    rcases mul_eq_zero.mp eC with h | h
    · linarith
    · have h' : dotR (normalize3 (cross3 z zt)) x = 0 := pow_eq_zero_iff (by norm_num) |>.mp h
      rw [hk] at h'
      have : k * dotR (cross3 z zt) x = 0 := by
        unfold dotR at h' ⊢; simp only at h' ⊢; linear_combination h'
      exact (mul_eq_zero.mp this).resolve_left hk0
  apply hx
  apply eq_zero_of_dots s ds (cross3 z zt) x _ dA dB dC
  rw [det_binet, k1, ← k4, hszt]
  have hq : dotR ds zt ≠ 0 := by
    intro h0; rw [k2, h0, mul_zero] at h2; exact lt_irrefl _ h2
  simp only [mul_zero, sub_zero]
  exact mul_ne_zero (ne_of_gt h1) hq

open Nonsym in
/-- [S] otherwise the code falls back to `Hs = μ·H_dual` with `μ = ⟨s,z⟩/3`; and the `Dual`
strategy always gives `μ·H_dual`. -/
theorem pd_fallback (Hd : Sym3 ℝ) (st zt s z : V3 ℝ)
    (h : pdCondition (pdQuantities Hd st zt s z) = false) :
    usePrimalDualScaling Hd st zt s z = (false, Sym3.scaledFrom (pdQuantities Hd st zt s z).mu Hd) := by
  unfold usePrimalDualScaling
  simp only [h, useDualScaling]
  rfl

end Clarabel.C14
