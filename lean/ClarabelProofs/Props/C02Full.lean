/-
  C02 — an infeasibility verdict comes with a certificate for the USER's problem, END TO END on
  the whole-solver model (round 4, composition).  `κ > 0` and the cone membership of the internal
  iterate — hypotheses of `C02.{primal,dual}_infeasible_certifies_user_problem` /
  `C02.cone_of_cert_all` in round 3 — are supplied by C07's interior-point invariant on the
  whole-solver model (`Lemmas/StepKBridge.lean`, `C01.full_interior_invariant`).

  `PrimalInfeasible` / `DualInfeasible` (full tolerances) are decided by `check_termination` on the
  iterate that is returned — never after a rollback (`solve_full_verdict`).  The `Almost*Infeasible`
  verdicts of `Info::post_process`: see `full_almost_*` below (no-rollback path; the rollback path is
  excluded for `reduced_tol_ktratio ≤ 1000` by `C02.rollback_never_infeasible`).

  A file of its own (imported by `Props/C02.lean`) because of its import chain.
-/
import ClarabelProofs.Lemmas.SolverFullCompose
import ClarabelProofs.Lemmas.StepKBridge
import ClarabelProofs.Lemmas.SolverFullZero
import ClarabelProofs.Lemmas.SolverFullExample
import ClarabelProofs.Lemmas.SolverFullPresolvedCert

namespace Clarabel.C02
open Clarabel Clarabel.Solver Clarabel.InfoUser Clarabel.Dense

/-- **[R] `C02.full_primal_infeasible_certifies`** — status `PrimalInfeasible` of the whole solver
comes with a Farkas certificate for the USER's problem.  Under the input hypotheses of
`C01.full_solved_certifies` and `0 ≤ tol_infeas_abs`: the returned `z` satisfies, on the user's `A`
and (capped) `b`, `bᵀz < 0` — more precisely `c·κ·bᵀz < −tol_infeas_abs` —,
`‖Aᵀz‖₂ < tol_infeas_rel · c · (−bᵀz) · max(1, κ‖z‖₂)` with `c > 0` the cost scaling of the
equilibration and `κ > 0` the homogenising variable of the final iterate (exactly the constants of
the code's test), `z ∈ K*`, `|z| = m`. -/
theorem full_primal_infeasible_certifies {P : Csc ℝ} {q : Array ℝ} {A : Csc ℝ} {b : Array ℝ}
    {cones : List (ConeT ℝ)} {st : Solver.Settings ℝ} {perm : Array Nat} {S : Solver ℝ}
    {r : SolveResult ℝ}
    (hin : InputOK P q A b cones)
    (hpre : st.presolveEnable = false ∨ ∃ keep,
      Presolve.keepFlags (Presolve.threshold st.infbound) (Cones.newCollapsed cones) b.toList = .ok keep
        ∧ keep.count true = b.size)
    (hlo : 0 < st.equil.minScaling) (hhi : 0 < st.equil.maxScaling)
    (hf0 : 0 < st.maxStepFraction) (hf1 : st.maxStepFraction < 1) (hmv : 0 < st.maxValue)
    (htabs : 0 ≤ st.info.full.infeas_abs)
    (hnew : Solver.new P q A b cones st perm = .ok S) (hr : S.solve st = .ok r)
    (hst : r.S.solution.status = .primalInfeasible) :
    ∃ (c κ : ℝ), 0 < c ∧ 0 < κ ∧
      let bc := ProblemData.capB b st.infbound
      let z := vecFn r.S.solution.z A.m
      c * κ * dot (vecFn bc A.m) z < -st.info.full.infeas_abs
      ∧ dot (vecFn bc A.m) z < 0
      ∧ nrm (mulVT (matFn A A.m A.n) z)
          < st.info.full.infeas_rel * c * (-(dot (vecFn bc A.m) z)) * max 1 (κ * nrm z)
      ∧ Equil.CompositeMem Equil.ConeMemDual (Cones.newCollapsed cones) r.S.solution.z.toList
      ∧ r.S.solution.z.size = A.m :=
  full_primal_infeasible_chain ((interior_stepHyp st hf0 hf1 hmv).and (zeroS_stepHyp st))
    ((interior_initHyp st).and (zeroS_initHyp st)) (fun _ _ h => h.1.pos.2)
    (fun _ _ _ hK h => ⟨Interior.mem_primal hK h.1 h.2, Interior.mem_dual hK h.1⟩)
    ⟨hin, hpre, hlo, hhi⟩ htabs hnew hr hst

/-- **[R] `C02.full_dual_infeasible_certifies`** — status `DualInfeasible` of the whole solver comes
with a certificate for the USER's problem: the returned `x`, `s` satisfy `qᵀx < 0`
(`c·κ·qᵀx < −tol_infeas_abs`), `‖Px‖₂ < tol_infeas_rel·(−qᵀx)·max(1, κ‖x‖₂)`,
`‖Ax+s‖₂ < tol_infeas_rel·c·(−qᵀx)·max(1, κ(‖x‖₂+‖s‖₂))`, `s ∈ K`, `|x| = n`, `|s| = m`. -/
theorem full_dual_infeasible_certifies {P : Csc ℝ} {q : Array ℝ} {A : Csc ℝ} {b : Array ℝ}
    {cones : List (ConeT ℝ)} {st : Solver.Settings ℝ} {perm : Array Nat} {S : Solver ℝ}
    {r : SolveResult ℝ}
    (hin : InputOK P q A b cones)
    (hpre : st.presolveEnable = false ∨ ∃ keep,
      Presolve.keepFlags (Presolve.threshold st.infbound) (Cones.newCollapsed cones) b.toList = .ok keep
        ∧ keep.count true = b.size)
    (hlo : 0 < st.equil.minScaling) (hhi : 0 < st.equil.maxScaling)
    (hf0 : 0 < st.maxStepFraction) (hf1 : st.maxStepFraction < 1) (hmv : 0 < st.maxValue)
    (htabs : 0 ≤ st.info.full.infeas_abs)
    (hnew : Solver.new P q A b cones st perm = .ok S) (hr : S.solve st = .ok r)
    (hst : r.S.solution.status = .dualInfeasible) :
    ∃ (Pn : Csc ℝ) (c κ : ℝ), ProblemData.triuStep P = .ok Pn ∧ 0 < c ∧ 0 < κ ∧
      let x := vecFn r.S.solution.x A.n
      let sv := vecFn r.S.solution.s A.m
      c * κ * dot (vecFn q A.n) x < -st.info.full.infeas_abs
      ∧ dot (vecFn q A.n) x < 0
      ∧ nrm (mulV (symFn Pn A.n) x)
          < st.info.full.infeas_rel * (-(dot (vecFn q A.n) x)) * max 1 (κ * nrm x)
      ∧ nrm (fun k => mulV (matFn A A.m A.n) x k + sv k)
          < st.info.full.infeas_rel * c * (-(dot (vecFn q A.n) x)) * max 1 (κ * (nrm x + nrm sv))
      ∧ Equil.CompositeMem Equil.ConeMem (Cones.newCollapsed cones) r.S.solution.s.toList
      ∧ r.S.solution.x.size = A.n ∧ r.S.solution.s.size = A.m :=
  full_dual_infeasible_chain ((interior_stepHyp st hf0 hf1 hmv).and (zeroS_stepHyp st))
    ((interior_initHyp st).and (zeroS_initHyp st)) (fun _ _ h => h.1.pos.2)
    (fun _ _ _ hK h => ⟨Interior.mem_primal hK h.1 h.2, Interior.mem_dual hK h.1⟩)
    ⟨hin, hpre, hlo, hhi⟩ htabs hnew hr hst

/-- **[R] `C02.full_almost_infeasible_on_returned_iterate`** — the rollback path, on the whole
model.  With the reduced κ/τ gate at least 1 (`1 ≤ 1000/reduced_tol_ktratio`, i.e. every
`reduced_tol_ktratio ≤ 1000`; default `1e-4`), a verdict `Almost{Primal,Dual}Infeasible` of the whole
solver is ALWAYS the reduced test of `Info::post_process` on the figures of the iterate that is
returned (κ-normalised): the insufficient-progress rollback path — where the test would run on the
discarded iterate, `C02.rollback_counterexample` — never ends in such a verdict
(`C02.rollback_never_infeasible` applied to the last pass of the model). -/
theorem full_almost_infeasible_on_returned_iterate {S : Solver ℝ} {st : Solver.Settings ℝ}
    {r : SolveResult ℝ} (hr : S.solve st = .ok r) {X : Info.SolverStatus}
    (hX : X = .almostPrimalInfeasible ∨ X = .almostDualInfeasible)
    (hgate : 1 ≤ (1 / st.info.reduced.ktratio) * 1000)
    (h : r.S.solution.status = X) :
    ∃ l, l ∈ r.traj ∧ l.info.status = .unsolved
      ∧ (Info.checkConvergenceAlmost l.info l.dotBz l.dotQx st.info).status = X
      ∧ r.S.st.variables = Unscale.unscale l.vars (equilView S.st.data.equilibration) true :=
  almost_infeasible_on_returned hr hX hgate h

/-- **[R] `C02.full_almost_primal_infeasible_certifies`** — as `full_primal_infeasible_certifies`
for the status `AlmostPrimalInfeasible` (assigned by `Info::post_process` after `MaxIterations`,
`MaxTime`, `NumericalError` or `InsufficientProgress`), with the REDUCED tolerances, under
`reduced_tol_ktratio ≤ 1000` (`hgate`; needed only to exclude the rollback path). -/
theorem full_almost_primal_infeasible_certifies {P : Csc ℝ} {q : Array ℝ} {A : Csc ℝ} {b : Array ℝ}
    {cones : List (ConeT ℝ)} {st : Solver.Settings ℝ} {perm : Array Nat} {S : Solver ℝ}
    {r : SolveResult ℝ}
    (hin : InputOK P q A b cones)
    (hpre : st.presolveEnable = false ∨ ∃ keep,
      Presolve.keepFlags (Presolve.threshold st.infbound) (Cones.newCollapsed cones) b.toList = .ok keep
        ∧ keep.count true = b.size)
    (hlo : 0 < st.equil.minScaling) (hhi : 0 < st.equil.maxScaling)
    (hf0 : 0 < st.maxStepFraction) (hf1 : st.maxStepFraction < 1) (hmv : 0 < st.maxValue)
    (htabs : 0 ≤ st.info.reduced.infeas_abs)
    (hgate : 1 ≤ (1 / st.info.reduced.ktratio) * 1000)
    (hnew : Solver.new P q A b cones st perm = .ok S) (hr : S.solve st = .ok r)
    (hst : r.S.solution.status = .almostPrimalInfeasible) :
    ∃ (c κ : ℝ), 0 < c ∧ 0 < κ ∧
      let bc := ProblemData.capB b st.infbound
      let z := vecFn r.S.solution.z A.m
      c * κ * dot (vecFn bc A.m) z < -st.info.reduced.infeas_abs
      ∧ dot (vecFn bc A.m) z < 0
      ∧ nrm (mulVT (matFn A A.m A.n) z)
          < st.info.reduced.infeas_rel * c * (-(dot (vecFn bc A.m) z)) * max 1 (κ * nrm z)
      ∧ Equil.CompositeMem Equil.ConeMemDual (Cones.newCollapsed cones) r.S.solution.z.toList
      ∧ r.S.solution.z.size = A.m :=
  full_almost_primal_infeasible_chain ((interior_stepHyp st hf0 hf1 hmv).and (zeroS_stepHyp st))
    ((interior_initHyp st).and (zeroS_initHyp st)) (fun _ _ h => h.1.pos.2)
    (fun _ _ _ hK h => ⟨Interior.mem_primal hK h.1 h.2, Interior.mem_dual hK h.1⟩)
    ⟨hin, hpre, hlo, hhi⟩ htabs hgate hnew hr hst

/-- **[R] `C02.full_almost_dual_infeasible_certifies`** — the dual analogue. -/
theorem full_almost_dual_infeasible_certifies {P : Csc ℝ} {q : Array ℝ} {A : Csc ℝ} {b : Array ℝ}
    {cones : List (ConeT ℝ)} {st : Solver.Settings ℝ} {perm : Array Nat} {S : Solver ℝ}
    {r : SolveResult ℝ}
    (hin : InputOK P q A b cones)
    (hpre : st.presolveEnable = false ∨ ∃ keep,
      Presolve.keepFlags (Presolve.threshold st.infbound) (Cones.newCollapsed cones) b.toList = .ok keep
        ∧ keep.count true = b.size)
    (hlo : 0 < st.equil.minScaling) (hhi : 0 < st.equil.maxScaling)
    (hf0 : 0 < st.maxStepFraction) (hf1 : st.maxStepFraction < 1) (hmv : 0 < st.maxValue)
    (htabs : 0 ≤ st.info.reduced.infeas_abs)
    (hgate : 1 ≤ (1 / st.info.reduced.ktratio) * 1000)
    (hnew : Solver.new P q A b cones st perm = .ok S) (hr : S.solve st = .ok r)
    (hst : r.S.solution.status = .almostDualInfeasible) :
    ∃ (Pn : Csc ℝ) (c κ : ℝ), ProblemData.triuStep P = .ok Pn ∧ 0 < c ∧ 0 < κ ∧
      let x := vecFn r.S.solution.x A.n
      let sv := vecFn r.S.solution.s A.m
      c * κ * dot (vecFn q A.n) x < -st.info.reduced.infeas_abs
      ∧ dot (vecFn q A.n) x < 0
      ∧ nrm (mulV (symFn Pn A.n) x)
          < st.info.reduced.infeas_rel * (-(dot (vecFn q A.n) x)) * max 1 (κ * nrm x)
      ∧ nrm (fun k => mulV (matFn A A.m A.n) x k + sv k)
          < st.info.reduced.infeas_rel * c * (-(dot (vecFn q A.n) x)) * max 1 (κ * (nrm x + nrm sv))
      ∧ Equil.CompositeMem Equil.ConeMem (Cones.newCollapsed cones) r.S.solution.s.toList
      ∧ r.S.solution.x.size = A.n ∧ r.S.solution.s.size = A.m :=
  full_almost_dual_infeasible_chain ((interior_stepHyp st hf0 hf1 hmv).and (zeroS_stepHyp st))
    ((interior_initHyp st).and (zeroS_initHyp st)) (fun _ _ h => h.1.pos.2)
    (fun _ _ _ hK h => ⟨Interior.mem_primal hK h.1 h.2, Interior.mem_dual hK h.1⟩)
    ⟨hin, hpre, hlo, hhi⟩ htabs hgate hnew hr hst

/-! ### non-vacuity -/

/-- the input hypotheses hold on `min x s.t. x + s = 1, s ≥ 0` (real data) -/
example : InputOK FullExample.P #[1] FullExample.A #[1] ([.nonneg 1] : List (ConeT ℝ)) :=
  FullExample.inputOK
example : (0:ℝ) < 1e-4 ∧ (0:ℝ) < 1e4 ∧ (0:ℝ) < 0.99 ∧ (0.99:ℝ) < 1 ∧ (0:ℝ) ≤ 1e-8 := by norm_num
/-- the gate hypothesis holds for the default `reduced_tol_ktratio = 1e-4` -/
example : (1:ℝ) ≤ (1 / 1e-4) * 1000 := by norm_num

/-- the presolve hypothesis `hpre` holds for every problem when presolve is off -/
example (b : Array ℝ) (cones : List (ConeT ℝ)) (inf : ℝ) : (false = false) ∨ ∃ keep,
    Presolve.keepFlags (Presolve.threshold inf) (Cones.newCollapsed cones) b.toList = .ok keep
      ∧ keep.count true = b.size := Or.inl rfl

section
open Clarabel.Solver.Example
attribute [local instance] intFloatLike
/-- `new` succeeds and `solve()` returns on the same instance with integer data (kernel) -/
example : ∃ S r, newSolver 3 = .ok S ∧ S.solve (Example.st 3) = .ok r :=
  let ⟨S, r, h1, h2, _⟩ := FullExample.run3_hyps; ⟨S, r, h1, h2⟩
end

/-! ## Round 5 — the full theorems when PRESOLVE DROPS ROWS -/

/-- **[R] `C02.full_primal_infeasible_certifies_presolved`** — `full_primal_infeasible_certifies`
when presolve is enabled and DROPS ROWS (`keep` = the keep vector of `make_reduction_map`, at least
one flag `false`).  The full-length `z` the user receives (`reverse_presolve`: `z = 0` on dropped
rows) is a Farkas certificate for the user's FULL `A` and (capped) `b`, VERBATIM — `Aᵀz`, `bᵀz`,
`‖z‖` equal the numbers of the reduced problem —: `c·κ·bᵀz < −tol_infeas_abs`, `bᵀz < 0`,
`‖Aᵀz‖₂ < tol_infeas_rel·c·(−bᵀz)·max(1, κ‖z‖₂)`, and `z ∈ K*` for the user's (collapsed) cone list.
Composition of `C09.presolve_transparent_full`, `full_primal_infeasible_certifies` on the
hand-reduced problem and `primal_cert_presolved`'s arithmetic. -/
theorem full_primal_infeasible_certifies_presolved {P : Csc ℝ} {q : Array ℝ} {A : Csc ℝ}
    {b : Array ℝ} {cones : List (ConeT ℝ)} {st : Solver.Settings ℝ} {perm : Array Nat} {S : Solver ℝ}
    {r : SolveResult ℝ} {keep : List Bool}
    (hin : InputOK P q A b cones) (hpe : st.presolveEnable = true)
    (hk : Presolve.keepFlags (Presolve.threshold st.infbound) (Cones.newCollapsed cones) b.toList = .ok keep)
    (hc : keep.count true < b.size)
    (hlo : 0 < st.equil.minScaling) (hhi : 0 < st.equil.maxScaling)
    (hf0 : 0 < st.maxStepFraction) (hf1 : st.maxStepFraction < 1) (hmv : 0 < st.maxValue)
    (htabs : 0 ≤ st.info.full.infeas_abs)
    (hnew : Solver.new P q A b cones st perm = .ok S) (hr : S.solve st = .ok r)
    (hst : r.S.solution.status = .primalInfeasible) :
    ∃ (c κ : ℝ), 0 < c ∧ 0 < κ ∧
      let bc := ProblemData.capB b st.infbound
      let z := vecFn r.S.solution.z A.m
      c * κ * dot (vecFn bc A.m) z < -st.info.full.infeas_abs
      ∧ dot (vecFn bc A.m) z < 0
      ∧ nrm (mulVT (matFn A A.m A.n) z)
          < st.info.full.infeas_rel * c * (-(dot (vecFn bc A.m) z)) * max 1 (κ * nrm z)
      ∧ (∀ i, InfoPresolve.keepFn keep A.m i = false → z i = 0)
      ∧ Equil.CompositeMem Equil.ConeMemDual (Cones.newCollapsed cones) r.S.solution.z.toList :=
  full_primal_infeasible_presolved_chain hin hpe hk hc hlo hhi hf0 hf1 hmv htabs hnew hr hst

/-- **[R] `C02.full_dual_infeasible_certifies_presolved`** — `full_dual_infeasible_certifies` when
presolve DROPS ROWS: `qᵀx < 0` (`c·κ·qᵀx < −tol_infeas_abs`) and the `‖Px‖` test do not involve the
rows; the `‖Ax+s‖` test holds with both norms taken over the KEPT rows (`nrmKept`); every dropped
row carries `s = infbound` (there the row of `Ax+s` is NOT small — the exception the property
states); `s ∈ K` for the full vector (`0 ≤ infbound`), `|x| = n`. -/
theorem full_dual_infeasible_certifies_presolved {P : Csc ℝ} {q : Array ℝ} {A : Csc ℝ}
    {b : Array ℝ} {cones : List (ConeT ℝ)} {st : Solver.Settings ℝ} {perm : Array Nat} {S : Solver ℝ}
    {r : SolveResult ℝ} {keep : List Bool}
    (hin : InputOK P q A b cones) (hpe : st.presolveEnable = true)
    (hk : Presolve.keepFlags (Presolve.threshold st.infbound) (Cones.newCollapsed cones) b.toList = .ok keep)
    (hc : keep.count true < b.size) (hib : 0 ≤ st.infbound)
    (hlo : 0 < st.equil.minScaling) (hhi : 0 < st.equil.maxScaling)
    (hf0 : 0 < st.maxStepFraction) (hf1 : st.maxStepFraction < 1) (hmv : 0 < st.maxValue)
    (htabs : 0 ≤ st.info.full.infeas_abs)
    (hnew : Solver.new P q A b cones st perm = .ok S) (hr : S.solve st = .ok r)
    (hst : r.S.solution.status = .dualInfeasible) :
    ∃ (Pn : Csc ℝ) (c κ : ℝ), ProblemData.triuStep P = .ok Pn ∧ 0 < c ∧ 0 < κ ∧
      let x := vecFn r.S.solution.x A.n
      let sv := vecFn r.S.solution.s A.m
      let kp := InfoPresolve.keepFn keep A.m
      c * κ * dot (vecFn q A.n) x < -st.info.full.infeas_abs
      ∧ dot (vecFn q A.n) x < 0
      ∧ nrm (mulV (symFn Pn A.n) x)
          < st.info.full.infeas_rel * (-(dot (vecFn q A.n) x)) * max 1 (κ * nrm x)
      ∧ InfoPresolve.nrmKept kp (fun k => mulV (matFn A A.m A.n) x k + sv k)
          < st.info.full.infeas_rel * c * (-(dot (vecFn q A.n) x))
              * max 1 (κ * (nrm x + InfoPresolve.nrmKept kp sv))
      ∧ (∀ i, kp i = false → sv i = st.infbound)
      ∧ Equil.CompositeMem Equil.ConeMem (Cones.newCollapsed cones) r.S.solution.s.toList
      ∧ r.S.solution.x.size = A.n :=
  full_dual_infeasible_presolved_chain hin hpe hk hc hib hlo hhi hf0 hf1 hmv htabs hnew hr hst

/-- **[R] `C02.full_almost_primal_infeasible_certifies_presolved`** — the same for
`AlmostPrimalInfeasible` (reduced tolerances, `reduced_tol_ktratio ≤ 1000`). -/
theorem full_almost_primal_infeasible_certifies_presolved {P : Csc ℝ} {q : Array ℝ} {A : Csc ℝ}
    {b : Array ℝ} {cones : List (ConeT ℝ)} {st : Solver.Settings ℝ} {perm : Array Nat} {S : Solver ℝ}
    {r : SolveResult ℝ} {keep : List Bool}
    (hin : InputOK P q A b cones) (hpe : st.presolveEnable = true)
    (hk : Presolve.keepFlags (Presolve.threshold st.infbound) (Cones.newCollapsed cones) b.toList = .ok keep)
    (hc : keep.count true < b.size)
    (hlo : 0 < st.equil.minScaling) (hhi : 0 < st.equil.maxScaling)
    (hf0 : 0 < st.maxStepFraction) (hf1 : st.maxStepFraction < 1) (hmv : 0 < st.maxValue)
    (htabs : 0 ≤ st.info.reduced.infeas_abs)
    (hgate : 1 ≤ (1 / st.info.reduced.ktratio) * 1000)
    (hnew : Solver.new P q A b cones st perm = .ok S) (hr : S.solve st = .ok r)
    (hst : r.S.solution.status = .almostPrimalInfeasible) :
    ∃ (c κ : ℝ), 0 < c ∧ 0 < κ ∧
      let bc := ProblemData.capB b st.infbound
      let z := vecFn r.S.solution.z A.m
      c * κ * dot (vecFn bc A.m) z < -st.info.reduced.infeas_abs
      ∧ dot (vecFn bc A.m) z < 0
      ∧ nrm (mulVT (matFn A A.m A.n) z)
          < st.info.reduced.infeas_rel * c * (-(dot (vecFn bc A.m) z)) * max 1 (κ * nrm z)
      ∧ (∀ i, InfoPresolve.keepFn keep A.m i = false → z i = 0)
      ∧ Equil.CompositeMem Equil.ConeMemDual (Cones.newCollapsed cones) r.S.solution.z.toList :=
  full_almost_primal_infeasible_presolved_chain hin hpe hk hc hlo hhi hf0 hf1 hmv htabs hgate hnew hr hst

/-- **[R] `C02.full_almost_dual_infeasible_certifies_presolved`** — the same for
`AlmostDualInfeasible`. -/
theorem full_almost_dual_infeasible_certifies_presolved {P : Csc ℝ} {q : Array ℝ} {A : Csc ℝ}
    {b : Array ℝ} {cones : List (ConeT ℝ)} {st : Solver.Settings ℝ} {perm : Array Nat} {S : Solver ℝ}
    {r : SolveResult ℝ} {keep : List Bool}
    (hin : InputOK P q A b cones) (hpe : st.presolveEnable = true)
    (hk : Presolve.keepFlags (Presolve.threshold st.infbound) (Cones.newCollapsed cones) b.toList = .ok keep)
    (hc : keep.count true < b.size) (hib : 0 ≤ st.infbound)
    (hlo : 0 < st.equil.minScaling) (hhi : 0 < st.equil.maxScaling)
    (hf0 : 0 < st.maxStepFraction) (hf1 : st.maxStepFraction < 1) (hmv : 0 < st.maxValue)
    (htabs : 0 ≤ st.info.reduced.infeas_abs)
    (hgate : 1 ≤ (1 / st.info.reduced.ktratio) * 1000)
    (hnew : Solver.new P q A b cones st perm = .ok S) (hr : S.solve st = .ok r)
    (hst : r.S.solution.status = .almostDualInfeasible) :
    ∃ (Pn : Csc ℝ) (c κ : ℝ), ProblemData.triuStep P = .ok Pn ∧ 0 < c ∧ 0 < κ ∧
      let x := vecFn r.S.solution.x A.n
      let sv := vecFn r.S.solution.s A.m
      let kp := InfoPresolve.keepFn keep A.m
      c * κ * dot (vecFn q A.n) x < -st.info.reduced.infeas_abs
      ∧ dot (vecFn q A.n) x < 0
      ∧ nrm (mulV (symFn Pn A.n) x)
          < st.info.reduced.infeas_rel * (-(dot (vecFn q A.n) x)) * max 1 (κ * nrm x)
      ∧ InfoPresolve.nrmKept kp (fun k => mulV (matFn A A.m A.n) x k + sv k)
          < st.info.reduced.infeas_rel * c * (-(dot (vecFn q A.n) x))
              * max 1 (κ * (nrm x + InfoPresolve.nrmKept kp sv))
      ∧ (∀ i, kp i = false → sv i = st.infbound)
      ∧ Equil.CompositeMem Equil.ConeMem (Cones.newCollapsed cones) r.S.solution.s.toList
      ∧ r.S.solution.x.size = A.n :=
  full_almost_dual_infeasible_presolved_chain hin hpe hk hc hib hlo hhi hf0 hf1 hmv htabs hgate hnew hr hst

/-- non-vacuity of the presolve hypotheses `hk`, `hc`, `hib` over `ℝ`: cones `[nonneg 2]`,
`b = (1, 2·10²⁰)`, infinity bound `10²⁰` — `make_reduction_map` drops row 1 (the run hypotheses: as
in `C09`'s non-vacuity example on the integer instance of `Lemmas/PresolveSolveTransparent.lean`) -/
example : Presolve.keepFlags (Presolve.threshold (1e20 : ℝ)) (Cones.newCollapsed [ConeT.nonneg 2])
      (#[1, 2e20] : Array ℝ).toList = .ok [true, false]
    ∧ [true, false].count true < (#[1, 2e20] : Array ℝ).size ∧ (0 : ℝ) ≤ 1e20 :=
  ⟨Solver.keepFlags_example, by decide, by norm_num⟩

end Clarabel.C02
