/-
  C04 — every solve terminates cleanly within its limits: the theorems about the FULL model
  (`ClarabelModel/Solver/Solve.lean`: `DefaultSolver::new` + `solve()` for zero / nonnegative /
  second-order cones with the QDLDL backend — the executable model the correspondence channels
  `solve.setup / solve.init / solve.full / solve.twice` of `harness/src/bin/solver.rs` compare
  bit for bit with the implementation).

  All theorems are class [S]: no arithmetic law of the scalar type is used, so they hold at
  `Float`, i.e. they are statements about the f64 computation as it runs.
  Helper lemmas: `ClarabelProofs/Lemmas/SolverModel{Loop,Run,Refine}.lean`.

  (A file of its own, imported by `Props/C04.lean`, so that the theorems about the composed
  model can also be built without the C09 / C16 import chain.)
-/
import ClarabelProofs.Lemmas.SolverModelRefine
import ClarabelProofs.Lemmas.SolverModelExample

namespace Clarabel.C04
open Clarabel Clarabel.Solver
open Clarabel.Info (SolverStatus InfoS)

set_option linter.unusedSectionVars false

section full
variable {α : Type} [Add α] [Sub α] [Mul α] [Div α] [Neg α] [OfNat α 0] [OfNat α 1] [OfNat α 2]
  [OfNat α 100] [OfNat α 1000] [LT α] [DecidableLT α] [LE α] [DecidableLE α] [BEq α] [FloatLike α]

/-- [S] `C04.full_refines_loop` (`solve_refines_loop`): the pass structure of `SolverSt.runSolve`
is an instance of the control skeleton `Loop.loop` (the subject of `C04.terminates`,
`C04.iter_le_max`, `C04.prev_saved_before_reset`, `C07.prefix_loop`, `C20.*`) for the oracle
sequence read off the model's own trajectory (`oracleOf` of every pass record: the residual dot
products, μ, the nine `info` scalars, the success flags of scaling / KKT solves, α_aff, σ, α).
Started from the abstraction `absInit` of the state after `info.reset` + `default_start()`
(which satisfies the skeleton's loop invariant `Loop.Inv`), the skeleton consumes exactly the
recorded oracles, leaves its loop through a `break` (`.done`) in the same pass, and its final
state agrees with the model's on every control field (`Sim`: iteration counter, α, σ, μ, all
`info` scalars including `status` and `iterations`, the two dot products, the pass count); what
the two report after the loop (`Loop.finish` / `finishInfo`: status after `post_process`,
iterations, passes) agrees as well.  Since the status after `check_termination` agrees in every
pass, so does the rollback decision (`reset_to_prev_iterate` ⇔ that status is
`InsufficientProgress`).

Hypotheses on the scalar type (true at `Float`): the literals `100`, `1000` are the values of
`usize as T`, and the skeleton's clock never exceeds its limit (`¬ tl < t0`; the model runs
without a time limit). -/
theorem full_refines_loop (S : SolverSt α) (st : Settings α) (tl t0 : α)
    (h100 : (100 : α) = FloatLike.ofNat 100) (h1000 : (1000 : α) = FloatLike.ofNat 1000)
    (htl : ¬ tl < t0) (sc : Loop.Scaling) {S' : SolverSt α} {L : LoopSt α}
    (hds : (resetInfo S).defaultStart st = .ok S') (hL : S.runSolve st = .ok L) :
    Loop.Inv (cfgOf st tl) (absInit sc t0 S')
    ∧ ∃ sf, Loop.loop (cfgOf st tl) (L.traj.map (oracleOf t0)) (absInit sc t0 S') = .done sf
      ∧ Sim sc t0 L sf
      ∧ (Loop.finish (cfgOf st tl) sf).status = absStatus (finishInfo st L).info.status
      ∧ (Loop.finish (cfgOf st tl) sf).iterations = (finishInfo st L).info.iterations
      ∧ (Loop.finish (cfgOf st tl) sf).passes = L.traj.length := by
  obtain ⟨sf, h1, h2⟩ := runSolve_refines_loop S st tl t0 h100 h1000 htl sc hds hL
  obtain ⟨f1, f2, f3⟩ := finish_sim st tl t0 h1000 sc h2
  have hfr := defaultStart_frame hds
  refine ⟨⟨Nat.zero_le _, ?_, ?_, Or.inr (Or.inl rfl), rfl⟩, sf, h1, h2, f1, f2, f3⟩
  · show absStatus S'.info.status = .Unsolved
    rw [hfr]; rfl
  · show S'.info.iterations ≤ 0
    rw [hfr]; exact Nat.le_refl _

/-- [S] `C04.full_terminates`: on the full model,
* the pass budget `max_iter + 2` that `runSolve` hands to its loop is never exhausted: `runSolve`
  is `runSolveO` (the same computation with "budget exhausted" observable as `none` instead of the
  `panic` of the `0` case) and `runSolveO` never returns `none` — an error of `runSolve` is an error
  of the numerics of some pass (`runLoopO_spec`), never the budget;
* when the loop is left, at least one and at most `max_iter + 1` passes have been made (one less
  than the skeleton's bound: symmetric cones never switch the scaling strategy), `iter ≤ max_iter`,
  and the status / iteration count reported after `info.post_process` are a terminal status
  (never `Unsolved`) and at most `max_iter`. -/
theorem full_terminates (S : SolverSt α) (st : Settings α) :
    S.runSolve st = S.runSolveO st >>= liftO ∧ S.runSolveO st ≠ .ok none
    ∧ ∀ L, S.runSolve st = .ok L →
        1 ≤ L.traj.length ∧ L.traj.length ≤ st.info.max_iter + 1 ∧ L.iter ≤ st.info.max_iter
        ∧ (finishInfo st L).info.status ≠ .unsolved
        ∧ (finishInfo st L).info.iterations ≤ st.info.max_iter := by
  refine ⟨runSolve_eq_runSolveO S st, ?_, fun L hL => ?_⟩
  · intro h
    have := runSolveO_spec S st
    rw [h] at this
    exact this
  · have hE := runSolve_exit hL
    have hf := finishInfo_spec hE
    refine ⟨hE.passes_pos, ?_, hE.iter_le, hf.1, hf.2.1⟩
    have := hE.iter_le
    rcases hE.passes with h | h <;> omega

/-- [S] `C04.full_terminates`, as seen by the caller of `solve()`: the returned `solution` carries
a terminal status (the one left in `info`), at most `max_iter` iterations, and the trajectory
has between `1` and `max_iter + 1` passes. -/
theorem full_solve_terminal {S : Solver α} {st : Settings α} {r : SolveResult α}
    (h : S.solve st = .ok r) :
    r.S.solution.status ≠ .unsolved ∧ r.S.solution.status = r.S.st.info.status
      ∧ r.S.solution.iterations ≤ st.info.max_iter
      ∧ 1 ≤ r.passes ∧ r.passes ≤ st.info.max_iter + 1 := by
  obtain ⟨L, hL, ht, hi, hs, hit, _⟩ := solve_inv h
  obtain ⟨h1, h2, _, h4, h5⟩ := (full_terminates S.st st).2.2 L hL
  unfold SolveResult.passes
  rw [hs, hit, hi, ht]
  exact ⟨h4, rfl, h5, h1, h2⟩

/-- [S] `C04.full_no_stale_prev`: `prev_vars` is never read back before it has been written in the
same solve.  When the loop of the full model ends with a rollback (the last pass record says
`isdone` with status `InsufficientProgress`, the only path on which `reset_to_prev_iterate`
runs), the trajectory has at least two passes and the iterate handed to post-processing is —
bit for bit — the iterate recorded at the top of the last pass but one, i.e. the one saved by
`save_prev_iterate` in this very solve (not a left-over of `DefaultSolver::new` or of a previous
`solve()`). -/
theorem full_no_stale_prev {S : SolverSt α} {st : Settings α} {L : LoopSt α}
    (hL : S.runSolve st = .ok L) (r : PassRec α) (hr : L.traj.getLast? = some r)
    (hd : r.isdone = true) (hs : r.status = .insufficientProgress) :
    ∃ pre r1, L.traj = pre ++ [r1, r] ∧ L.S.variables = r1.vars :=
  (runSolve_exit hL).rollback r hr hd hs

end full

/-! ### non-vacuity: a concrete run of the full model, evaluated by the kernel at `Int`
(`Lemmas/SolverModelExample.lean`) -/
namespace FullExamples
open Clarabel.Solver.Example
attribute [local instance] intFloatLike

/-- the hypotheses `… = .ok …` of the theorems above are satisfiable: the model runs to
`Solved` in one iteration / two passes with `max_iter = 3` … -/
example : (run 3).toOption.map (fun r => (r.passes, r.S.solution.status, r.S.solution.iterations))
    = some (2, .solved, 1) := run3
/-- … and to `MaxIterations` in one pass with `max_iter = 0` -/
example : (run 0).toOption.map (fun r => (r.passes, r.S.solution.status, r.S.solution.iterations))
    = some (1, .maxIterations, 0) := run0
/-- `default_start()` succeeds on the state after `info.reset` (hypothesis `hds`) -/
example : ((newSolver 3).bind fun S => (resetInfo S.st).defaultStart (st 3)).toOption.isSome = true := by
  decide +kernel
/-- the scalar hypotheses of `full_refines_loop` at `Int` -/
example : (100 : Int) = FloatLike.ofNat 100 ∧ (1000 : Int) = FloatLike.ofNat 1000 ∧ ¬ (5 : Int) < 0 := by
  decide

end FullExamples

end Clarabel.C04
