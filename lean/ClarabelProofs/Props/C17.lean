/-
  C17 — chordal analysis yields a valid clique tree that covers the sparsity pattern.

  Property theorems about the model in `ClarabelModel/Chordal/*` (all of class [S]:
  structural, no arithmetic law of a scalar type is used — they hold of the code as it runs
  on machine integers as long as no index reaches `usize::MAX`).  Proofs and helper lemmas
  live in `ClarabelProofs/Lemmas/Chordal{Dsu,PostOrder,TriIndex,Split,Reorder,MergePC}.lean`.

  Not carried by a theorem (checked by the correspondence + validity oracle on every run):
  the Pothen–Sun supernode construction, the merge loops as a whole and the clique-graph
  strategy (`pipeline`: elimination tree ⇒ clique tree with running intersection +
  coverage), the AMD ordering and the symbolic factorisation (inputs of the model).
-/
import ClarabelProofs.Lemmas.ChordalDsu
import ClarabelProofs.Lemmas.ChordalPostOrder
import ClarabelProofs.Lemmas.ChordalTriIndex
import ClarabelProofs.Lemmas.ChordalSplit
import ClarabelProofs.Lemmas.ChordalReorder
import ClarabelProofs.Lemmas.ChordalMergePC

namespace Clarabel.C17
open Clarabel Clarabel.Chordal

/-! ## union-find (`merge/disjoint_set_union.rs`, repaired by eed0111) -/

/-- [S] `root` terminates within its fuel on every well-formed structure, returns the
representative (the fixed point reached by following parent pointers), keeps the structure
well-formed and path halving does not change anybody's representative. -/
theorem dsu_root {d : Dsu} {n x : Nat} (h : Dsu.WF d n) (hx : x < n) :
    ∃ d' r, d.root x = .ok (d', r) ∧ Dsu.WF d' n ∧ d'.ranks = d.ranks ∧
      Dsu.RootOf d.parents x r ∧
      (∀ y r', y < n → (Dsu.RootOf d'.parents y r' ↔ Dsu.RootOf d.parents y r')) :=
  Dsu.root_spec h hx

/-- [S] `union x y` merges exactly the classes of `x` and `y`. -/
theorem dsu_union {d : Dsu} {n x y : Nat} (h : Dsu.WF d n) (hx : x < n) (hy : y < n) :
    ∃ d', d.union x y = .ok d' ∧ Dsu.WF d' n ∧
      ∀ a b, a < n → b < n →
        (Dsu.Same d' a b ↔
          (Dsu.Same d a b ∨ (Dsu.Same d a x ∧ Dsu.Same d y b) ∨ (Dsu.Same d a y ∧ Dsu.Same d x b))) :=
  Dsu.union_spec h hx hy

/-- [S] `in_same_set x y` answers whether `x` and `y` have the same representative and
leaves the partition unchanged. -/
theorem dsu_in_same_set {d : Dsu} {n x y : Nat} (h : Dsu.WF d n) (hx : x < n) (hy : y < n) :
    ∃ d' b, d.inSameSet x y = .ok (d', b) ∧ Dsu.WF d' n ∧ (b = true ↔ Dsu.Same d x y) ∧
      ∀ a c, a < n → c < n → (Dsu.Same d' a c ↔ Dsu.Same d a c) :=
  Dsu.inSameSet_spec h hx hy

/-- [S] **for every operation history** on `new n` (arguments in range): no panic, no
fuel exhaustion, and every answer is the one dictated by the equivalence relation generated
by the union pairs seen so far (`in_same_set` ⇔ equivalent; `root x` is equivalent to `x`). -/
theorem dsu (n : Nat) (ops : List Dsu.Op) (h : ∀ o ∈ ops, Dsu.InRange n o) :
    ∃ d outs, Dsu.runOps (Dsu.new n) ops = .ok (d, outs) ∧ Dsu.WF d n ∧
      Dsu.Answers (fun _ _ => False) ops outs :=
  Dsu.history_spec n ops h

/-- non-vacuity of `dsu`: the 8-element history below is in range … -/
example : ∀ o ∈ Dsu.counterHistory, Dsu.InRange 8 o := Dsu.counterHistory_inRange

/-- … and this is **what the theorem excludes**: the pre-fix `root` (one halving step,
returns the grandparent; `Dsu.rootOld`) answers `in_same_set 0 7 = false` after the seven
unions `0-1, 2-3, 4-5, 6-7, 1-3, 5-7, 3-7` (a depth-3 tree), although all eight elements are
in one class; those outputs are not `Answers`.  Replays on the implementation as the
finding recorded in `known_findings.json` (fixed by eed0111). -/
example : ¬ Dsu.Answers (fun _ _ => False) Dsu.counterHistory
    [none, none, none, none, none, none, none, some 0] :=
  Dsu.counterHistory_old_not_answers

example : (Dsu.runOpsOld (Dsu.new 8) Dsu.counterHistory).toOption.map (·.2) =
    some [none, none, none, none, none, none, none, some 0] := by rfl

example : (Dsu.runOps (Dsu.new 8) Dsu.counterHistory).toOption.map (·.2) =
    some [none, none, none, none, none, none, none, some 1] := by rfl

/-! ## `children_from_parent`, `post_order` (`supernode_tree.rs`) -/

/-- [S] `children_from_parent` lists for every vertex exactly its children, once. -/
theorem children_from_parent (parent : Array Nat)
    (hp : ∀ i, i < parent.size → parent.getD i 0 = noParent ∨ parent.getD i 0 < parent.size)
    (hn : parent.size < noParent) :
    ∃ ch, childrenFromParent parent = .ok ch ∧ ChildrenOf parent ch :=
  children_from_parent_spec parent hp hn

/-- [S] On a `children` structure that agrees with the `parent` array (each vertex is
listed exactly once, under its parent — in particular no vertex has two parents and the
walk from the root cannot meet a cycle), with at most `nc` vertices in the root's tree,
`post_order` terminates without panic (fuel `n+1` not exhausted, no counter underflow),
returns a duplicate-free list of `min nc n` vertices that contains the whole tree of the
root, and lists every vertex of that tree before its parent. -/
theorem post_order (parent : Array Nat) (children : Array VSet) (nc r : Nat)
    (hch : ChildrenOf parent children) (hn : parent.size < noParent) (hr : r < parent.size)
    (hfind : parent.toList.findIdx? (· == noParent) = some r)
    (hcount : ∀ l : List Nat, l.Nodup → (∀ v ∈ l, v < parent.size ∧ Reaches parent r v) →
      l.length ≤ nc) :
    ∃ post ch', postOrder parent children nc = .ok (post, ch') ∧
      post.toList.Nodup ∧ (∀ v ∈ post.toList, v < parent.size) ∧
      post.size = min nc parent.size ∧ ChildrenOf parent ch' ∧
      (∀ c v, c ∈ post.toList → v ∈ post.toList → Reaches parent r c → c ≠ r →
        parent.getD c 0 = v → List.Sublist [c, v] post.toList) ∧
      (∀ v, Reaches parent r v → v ∈ post.toList) :=
  post_order_spec parent children nc r hch hn hr hfind hcount

/-- [S] the case `nc = n` of the two calls in `SuperNodeTree::new`: the result is a
permutation of all vertices (duplicate-free, of full length). -/
theorem post_order_terminates (parent : Array Nat) (children : Array VSet) (r : Nat)
    (hch : ChildrenOf parent children) (hn : parent.size < noParent) (hr : r < parent.size)
    (hfind : parent.toList.findIdx? (· == noParent) = some r) :
    ∃ post ch', postOrder parent children parent.size = .ok (post, ch') ∧
      post.toList.Nodup ∧ (∀ v ∈ post.toList, v < parent.size) ∧
      post.size = parent.size ∧ ChildrenOf parent ch' ∧
      (∀ c v, c ∈ post.toList → v ∈ post.toList → Reaches parent r c → c ≠ r →
        parent.getD c 0 = v → List.Sublist [c, v] post.toList) ∧
      (∀ v, Reaches parent r v → v ∈ post.toList) :=
  post_order_spec_full parent children r hch hn hr hfind

/-- non-vacuity: the tree `0 → 2 ← 1` -/
example : ∃ ch, childrenFromParent #[2, 2, noParent] = .ok ch ∧ ChildrenOf #[2, 2, noParent] ch :=
  children_from_parent_spec _ (by
    intro i hi
    have : i = 0 ∨ i = 1 ∨ i = 2 := by simp at hi; omega
    rcases this with rfl | rfl | rfl <;> simp [noParent]) (by simp [noParent])

/-! ## packed-triangle index maps (`algebra/scalarmath.rs`) -/

/-- [S] coordinate ↦ index ↦ coordinate is the identity on the upper triangle. -/
theorem tri_index_coord {i j : Nat} (h : i ≤ j) :
    upperTriangularIndexToCoord (coordToUpperTriangularIndex (i, j)) = (i, j) :=
  coord_index_inv h

/-- [S] index ↦ coordinate ↦ index is the identity, and the coordinate is in the upper triangle. -/
theorem tri_index (k : Nat) :
    let rc := upperTriangularIndexToCoord k
    rc.1 ≤ rc.2 ∧ coordToUpperTriangularIndex rc = k :=
  index_coord_inv k

/-- [S] the index map is symmetric and stays inside the packed block of an `n × n` matrix. -/
theorem tri_index_range {i j n : Nat} (h : i ≤ j) (hj : j < n) :
    coordToUpperTriangularIndex (i, j) = coordToUpperTriangularIndex (j, i) ∧
    coordToUpperTriangularIndex (i, j) < triangularNumber n :=
  ⟨coord_index_symm i j, coord_index_lt h hj⟩

/-- [S] the `usize` subtractions of `upper_triangular_index_to_coord` never wrap. -/
theorem tri_index_no_underflow {k : Nat} (h : 0 < k) :
    let col := ((isqrt (8 * k + 1) + 1) / 2) - 1
    1 ≤ (isqrt (8 * k + 1) + 1) / 2 ∧ 1 ≤ col ∧ triangularIndex (col - 1) + 1 ≤ k :=
  index_to_coord_no_underflow h

example : upperTriangularIndexToCoord (coordToUpperTriangularIndex (2, 5)) = (2, 5) :=
  tri_index_coord (by decide)

/-! ## `split_cliques` (`merge/clique_graph.rs`) -/

/-- [S] along a post-order in which parents come after their children, `split_cliques`
does not panic and turns the clique sets `cl` into `separator = clique ∩ parent clique`
and `supernode = clique \ separator` for every non-root clique, leaving the others alone. -/
theorem split_cliques (cl seps : Array VSet) (parent post : Array Nat) (nc : Nat)
    (hsz : seps.size = cl.size) (hnd : post.toList.Nodup) (hnc : 1 ≤ nc)
    (hpost : nc - 1 ≤ post.size)
    (hpar : ∀ j, j < nc - 1 →
      post.getD j 0 < cl.size ∧ post.getD j 0 < parent.size ∧
      parent.getD (post.getD j 0) 0 < cl.size ∧
      ∀ i, i ≤ j → post.getD i 0 ≠ parent.getD (post.getD j 0) 0) :
    ∃ sn' sp', splitCliques cl seps parent post nc = .ok (sn', sp') ∧
      ∀ j, j < nc - 1 → ∀ v,
        let c := post.getD j 0
        let p := parent.getD c 0
        (v ∈ (sp'.getD c #[]).toList ↔ v ∈ (cl.getD c #[]).toList ∧ v ∈ (cl.getD p #[]).toList) ∧
        (v ∈ (sn'.getD c #[]).toList ↔ v ∈ (cl.getD c #[]).toList ∧ v ∉ (cl.getD p #[]).toList) :=
  split_cliques_mem cl seps parent post nc hsz hnd hnc hpost hpar

/-! ## `reorder_snode_consecutively`, `calculate_block_dimensions` (`supernode_tree.rs`) -/

/-- [S] `reorder`: on a tree whose supernodes (listed without repetition by `snode_post`)
partition `0..n` and whose separators are repetition-free subsets of `0..n`,
`reorder_snode_consecutively` does not panic (the assertions of `invperm` and of the
separator loop hold) and relabels with a permutation `p` (inverse `q`): `p` is the
concatenation of the sorted supernodes in post-order, the supernodes become the consecutive
ranges `k .. k+len` in post-order, separators are relabelled by `q`, the new `ordering` is
the old one composed with `p` — hence still a permutation — and nothing else changes
(all of this is the structure `ReorderSpec`). -/
theorem reorder (t : SuperNodeTree) (ordering : Array Nat)
    (hord : ordering.size = t.post.size)
    (hnd : t.snodePost.toList.Nodup)
    (hlt : ∀ c ∈ t.snodePost.toList, c < t.snode.size)
    (hpart : (t.snodePost.toList.flatMap (fun c => (t.snode.getD c #[]).toList)).Perm
      (List.range t.post.size))
    (hsep : ∀ sp ∈ t.separators.toList, ∀ x ∈ sp.toList, x < t.post.size)
    (hsepnd : ∀ sp ∈ t.separators.toList, sp.toList.Nodup) :
    ∃ (t' : SuperNodeTree) (ord' p q : Array Nat),
      t.reorderSnodeConsecutively ordering = .ok (t', ord') ∧
      ReorderSpec t ordering t' ord' p q :=
  reorder_spec_of_nodup t ordering hord hnd hlt hpart hsep hsepnd

/-- [S] consequences: the ordering stays a permutation of `0..n`, and the supernodes,
concatenated in post-order, are exactly `0, 1, …, n-1`. -/
theorem reorder_ordering_perm {t : SuperNodeTree} {ordering : Array Nat}
    {t' : SuperNodeTree} {ord' p q : Array Nat} (h : ReorderSpec t ordering t' ord' p q)
    (ho : ordering.toList.Perm (List.range t.post.size)) :
    ord'.toList.Perm (List.range t.post.size) ∧
    t.snodePost.toList.flatMap (fun c => (t'.snode.getD c #[]).toList) = List.range t.post.size :=
  ⟨h.ord_perm_range ho, h.snode_concat⟩

/-- [S] `nblk[i] = |separator| + |supernode|` of the `i`-th clique in post-order. -/
theorem block_dimensions (t : SuperNodeTree) (h1 : t.nCliques ≤ t.snodePost.size)
    (h2 : ∀ i, i < t.nCliques →
      t.snodePost.getD i 0 < t.snode.size ∧ t.snodePost.getD i 0 < t.separators.size) :
    ∃ nb, t.calculateBlockDimensions = .ok { t with nblk := some nb } ∧ nb.size = t.nCliques ∧
      ∀ i, i < t.nCliques → nb.getD i 0 =
        (t.separators.getD (t.snodePost.getD i 0) #[]).size +
        (t.snode.getD (t.snodePost.getD i 0) #[]).size :=
  block_dimensions_spec t h1 h2

/-- non-vacuity of `reorder` and its consequences: three vertices, supernodes `{2,0}` and
`{1}`, post-order `1, 0` -/
example : ∃ (t' : SuperNodeTree) (ord' : Array Nat),
    SuperNodeTree.reorderSnodeConsecutively
      { snode := #[#[2, 0], #[1]], snodePost := #[1, 0], snodeParent := #[0, 0],
        snodeChildren := #[#[1], #[]], post := #[0, 1, 2], separators := #[#[1], #[]],
        nblk := none, nCliques := 2 } #[2, 0, 1] = .ok (t', ord') ∧
    ord'.toList.Perm (List.range 3) ∧
    [1, 0].flatMap (fun c => (t'.snode.getD c #[]).toList) = [0, 1, 2] := by
  have hsep : ∀ sp ∈ [(#[1] : VSet), #[]], ∀ x ∈ sp.toList, x < 3 := by
    intro sp hsp x hx
    simp only [List.mem_cons, List.not_mem_nil, or_false] at hsp
    rcases hsp with rfl | rfl
    · have : x = 1 := by simpa using hx
      omega
    · simp at hx
  obtain ⟨t', ord', p, q, h, hs⟩ := reorder
    { snode := #[#[2, 0], #[1]], snodePost := #[1, 0], snodeParent := #[0, 0],
      snodeChildren := #[#[1], #[]], post := #[0, 1, 2], separators := #[#[1], #[]],
      nblk := none, nCliques := 2 } #[2, 0, 1] rfl (by decide) (by decide) (by decide) hsep
    (by
      intro sp hsp
      simp only [List.mem_cons, List.not_mem_nil, or_false] at hsp
      rcases hsp with rfl | rfl <;> decide)
  have := reorder_ordering_perm hs (by decide)
  exact ⟨t', ord', h, this.1, this.2⟩

/-! ## one step of the parent–child merge (`merge/parent_child.rs`) -/

/-- [S] `parent_child_merge`: on a tree satisfying the invariant `PCInv` (array sizes agree,
parents of live cliques are live, the children lists are the duplicate-free inverse of the
parent array, every separator lies inside the parent's clique), merging a live child `ch`
into its live parent `p` does not panic and yields a tree that satisfies `PCInv` again, in
which exactly `ch` is retired (emptied, marked inactive), `snode[p]` is the union of the two
supernodes and all other vertex sets are unchanged, the grandchildren are re-attached to
`p`, `n_cliques` drops by one, and every old clique is contained in a live new clique
(coverage of the sparsity pattern is preserved) — the structure `MergeSpec`. -/
theorem parent_child_merge (t : SuperNodeTree) (p ch : Nat)
    (hinv : PCInv t) (hp : Live t p) (hc : Live t ch) (hne : ch ≠ p)
    (hpar : t.snodeParent.getD ch 0 = p) (hn : 0 < t.nCliques) :
    ∃ t', PCStrategy.mergeTwoCliques t (p, ch) = .ok t' ∧ MergeSpec t p ch t' :=
  merge_two_cliques_spec t p ch hinv hp hc hne hpar hn

/-- non-vacuity: the chain `0 → 1 → 2` with cliques `{1,2|3}`, `{3|4}`, `{4,5}` -/
example : ∃ t', PCStrategy.mergeTwoCliques exTree (2, 1) = .ok t' ∧ PCInv t' ∧ ¬ Live t' 1 ∧
    ∀ v ∈ cliqueList exTree 1, v ∈ cliqueList t' 2 := by
  obtain ⟨t', h1, h2⟩ := parent_child_merge exTree 2 1 exTree_inv
    ((exTree_live 2).2 (by decide)) ((exTree_live 1).2 (by decide)) (by decide) (by decide)
    (by decide)
  exact ⟨t', h1, h2.inv, h2.dead, h2.cover_ch⟩

end Clarabel.C17
