/-
  C17 — chordal analysis yields a valid clique tree that covers the sparsity pattern.

  Property theorems about the model in `ClarabelModel/Chordal/*` (all of class [S]:
  structural, no arithmetic law of a scalar type is used — they hold of the code as it runs
  on machine integers as long as no index reaches `usize::MAX`).  Proofs and helper lemmas
  live in `ClarabelProofs/Lemmas/Chordal{Dsu,PostOrder,TriIndex,Split,Reorder,MergePC}.lean`.

  Round 3 adds (sections at the end of the file):
  * the readers of the symbolic factor and the Pothen–Sun supernodes on a filled pattern
    (`LPat.Filled`, decided by the executable `LPat.filledB` which the driver evaluates on every
    generated pattern): partition, chains of the elimination tree, separator = higher adjacency
    of the representative minus the supernode, clique + coverage, the supernodal parent
    structure, and `SuperNodeTree::new` as a whole (`Lemmas/Chordal{Etree,PothenSun,
    SupernodeTree,SnodeParent}.lean`);
  * the whole parent–child merge loop incl. `post_process_merge`, with separator = clique ∩
    parent clique and running intersection as consequences of the invariant `CTInv`
    (`Lemmas/ChordalMergePCLoop.lean`);
  * the pipelines `SparsityPattern::new(·, ·, "none" | "parent_child")` end to end, concluded in
    the terms of the harness oracle: `ValidCliqueTree`, decided by the executable
    `validCliqueTreeB` (`Lemmas/Chordal{Valid,Bridge}.lean`);
  * for the clique-graph strategy: `kruskal` marks a spanning tree and
    `determine_parent_cliques`/`assign_children` orient it (`Lemmas/ChordalKruskal.lean`).

  Follow-up of round 3 (last section): the FRONT HALF of the clique-graph strategy — the reduced
  clique graph contains the supernode tree, `new_from_triplets`/`set_entry`/`dropzeros`, the loop
  invariant `CGInv` established by `initialise` and preserved by every merge, termination, the
  hypotheses of the Kruskal stage at exit, `post_process_merge`, and the pipeline
  `SparsityPattern::new(·, ·, "clique_graph")` up to two tested links
  (`analysis_clique_graph_valid_partial`; `Lemmas/ChordalCG*.lean`).

  Junction-tree link (last section but one): the running-intersection property of Kruskal's spanning
  tree and the non-emptiness of the supernodes are no longer hypotheses of their own.  Proved:
  every maximum-weight forest of a graph that contains a junction tree is a junction tree
  (`junction_tree_of_max_weight`), `kruskal` is maximum-weight (`kruskal_maximum_weight`),
  contracting a junction-tree edge keeps a junction tree and the antichain property
  (`junction_tree_contract`), the graph after `initialise` contains the supernode tree and the
  initial cliques are maximal, one merge / the whole loop keep both, the exchange lemma for
  separating pairs; pipelines `analysis_clique_graph_valid_{exitjt,merges,sep}_partial`
  (`Lemmas/ChordalJunctionTree.lean`, `ChordalForestCount.lean`, `ChordalKruskalMax.lean`,
  `ChordalJTContract.lean`, `ChordalJTSwap.lean`, `ChordalCGJunction*.lean`,
  `ChordalCGInterWeights.lean`, `ChordalCGRipDisjoint.lean`, `ChordalCGAntichainInit.lean`).

  Last link (last section): THE EDGE MATRIX IS AT ALL TIMES EXACTLY THE REDUCED CLIQUE GRAPH OF THE
  CURRENT CLIQUES (`compute_reduced_clique_graph` emits exactly the separating pairs; a permissible
  merge keeps exactness; `traverse` returns permissible candidates only), hence every merge merges a
  separating pair, and `analysis_clique_graph_valid` holds WITHOUT ANY HYPOTHESIS ON THE RUN
  (`Lemmas/ChordalJTExact.lean`, `ChordalCGReducedExact.lean`, `ChordalCGExactInit.lean`,
  `ChordalCGTraversePerm.lean`, `ChordalCGExact{Loop,Final}.lean`).

  Not carried by a theorem: the AMD ordering and the symbolic factorisation (inputs of the model; the
  hypotheses of the pipeline theorems are evaluated on them at run time, channel `hyp.analysis`);
  see the note at the end.  The formerly tested links `cgRipB`, `cgNonemptyB` are theorems now and
  stay evaluated on every case (channel `cg.trace`).
-/
import ClarabelProofs.Lemmas.ChordalDsu
import ClarabelProofs.Lemmas.ChordalPostOrder
import ClarabelProofs.Lemmas.ChordalTriIndex
import ClarabelProofs.Lemmas.ChordalSplit
import ClarabelProofs.Lemmas.ChordalReorder
import ClarabelProofs.Lemmas.ChordalMergePC
import ClarabelProofs.Lemmas.ChordalSupernodeTree
import ClarabelProofs.Lemmas.ChordalMergePCLoop
import ClarabelProofs.Lemmas.ChordalSnodeParent
import ClarabelProofs.Lemmas.ChordalKruskal
import ClarabelProofs.Lemmas.ChordalValid
import ClarabelProofs.Lemmas.ChordalBridge
import ClarabelProofs.Lemmas.ChordalCGFinal
import ClarabelProofs.Lemmas.ChordalCGJunctionFinal
import ClarabelProofs.Lemmas.ChordalCGJunctionSep
import ClarabelProofs.Lemmas.ChordalCGExactFinal

namespace Clarabel.C17
open Clarabel Clarabel.Chordal

/-! ## union-find (`merge/disjoint_set_union.rs`, repaired by eed0111) -/

/-- [S] `root` terminates within its fuel on every well-formed structure, returns the
representative (the fixed point reached by following parent pointers), keeps the structure
well-formed and path halving does not change anybody's representative. -/
theorem dsu_root {d : Dsu} {n x : Nat} (h : Dsu.WF d n) (hx : x < n) :
    ∃ d' r, d.root x = .ok (d', r) ∧ Dsu.WF d' n ∧ d'.ranks = d.ranks ∧
      Dsu.RootOf d.parents x r ∧
      (∀ y r', y < n → (Dsu.RootOf d'.parents y r' ↔ Dsu.RootOf d.parents y r')) :=
  Dsu.root_spec h hx

/-- [S] `union x y` merges exactly the classes of `x` and `y`. -/
theorem dsu_union {d : Dsu} {n x y : Nat} (h : Dsu.WF d n) (hx : x < n) (hy : y < n) :
    ∃ d', d.union x y = .ok d' ∧ Dsu.WF d' n ∧
      ∀ a b, a < n → b < n →
        (Dsu.Same d' a b ↔
          (Dsu.Same d a b ∨ (Dsu.Same d a x ∧ Dsu.Same d y b) ∨ (Dsu.Same d a y ∧ Dsu.Same d x b))) :=
  Dsu.union_spec h hx hy

/-- [S] `in_same_set x y` answers whether `x` and `y` have the same representative and
leaves the partition unchanged. -/
theorem dsu_in_same_set {d : Dsu} {n x y : Nat} (h : Dsu.WF d n) (hx : x < n) (hy : y < n) :
    ∃ d' b, d.inSameSet x y = .ok (d', b) ∧ Dsu.WF d' n ∧ (b = true ↔ Dsu.Same d x y) ∧
      ∀ a c, a < n → c < n → (Dsu.Same d' a c ↔ Dsu.Same d a c) :=
  Dsu.inSameSet_spec h hx hy

/-- [S] **for every operation history** on `new n` (arguments in range): no panic, no
fuel exhaustion, and every answer is the one dictated by the equivalence relation generated
by the union pairs seen so far (`in_same_set` ⇔ equivalent; `root x` is equivalent to `x`). -/
theorem dsu (n : Nat) (ops : List Dsu.Op) (h : ∀ o ∈ ops, Dsu.InRange n o) :
    ∃ d outs, Dsu.runOps (Dsu.new n) ops = .ok (d, outs) ∧ Dsu.WF d n ∧
      Dsu.Answers (fun _ _ => False) ops outs :=
  Dsu.history_spec n ops h

/-- non-vacuity of `dsu`: the 8-element history below is in range … -/
example : ∀ o ∈ Dsu.counterHistory, Dsu.InRange 8 o := Dsu.counterHistory_inRange

/-- … and this is **what the theorem excludes**: the pre-fix `root` (one halving step,
returns the grandparent; `Dsu.rootOld`) answers `in_same_set 0 7 = false` after the seven
unions `0-1, 2-3, 4-5, 6-7, 1-3, 5-7, 3-7` (a depth-3 tree), although all eight elements are
in one class; those outputs are not `Answers`.  Replays on the implementation as the
finding recorded in `known_findings.json` (fixed by eed0111). -/
example : ¬ Dsu.Answers (fun _ _ => False) Dsu.counterHistory
    [none, none, none, none, none, none, none, some 0] :=
  Dsu.counterHistory_old_not_answers

example : (Dsu.runOpsOld (Dsu.new 8) Dsu.counterHistory).toOption.map (·.2) =
    some [none, none, none, none, none, none, none, some 0] := by rfl

example : (Dsu.runOps (Dsu.new 8) Dsu.counterHistory).toOption.map (·.2) =
    some [none, none, none, none, none, none, none, some 1] := by rfl

/-! ## `children_from_parent`, `post_order` (`supernode_tree.rs`) -/

/-- [S] `children_from_parent` lists for every vertex exactly its children, once. -/
theorem children_from_parent (parent : Array Nat)
    (hp : ∀ i, i < parent.size → parent.getD i 0 = noParent ∨ parent.getD i 0 < parent.size)
    (hn : parent.size < noParent) :
    ∃ ch, childrenFromParent parent = .ok ch ∧ ChildrenOf parent ch :=
  children_from_parent_spec parent hp hn

/-- [S] On a `children` structure that agrees with the `parent` array (each vertex is
listed exactly once, under its parent — in particular no vertex has two parents and the
walk from the root cannot meet a cycle), with at most `nc` vertices in the root's tree,
`post_order` terminates without panic (fuel `n+1` not exhausted, no counter underflow),
returns a duplicate-free list of `min nc n` vertices that contains the whole tree of the
root, and lists every vertex of that tree before its parent. -/
theorem post_order (parent : Array Nat) (children : Array VSet) (nc r : Nat)
    (hch : ChildrenOf parent children) (hn : parent.size < noParent) (hr : r < parent.size)
    (hfind : parent.toList.findIdx? (· == noParent) = some r)
    (hcount : ∀ l : List Nat, l.Nodup → (∀ v ∈ l, v < parent.size ∧ Reaches parent r v) →
      l.length ≤ nc) :
    ∃ post ch', postOrder parent children nc = .ok (post, ch') ∧
      post.toList.Nodup ∧ (∀ v ∈ post.toList, v < parent.size) ∧
      post.size = min nc parent.size ∧ ChildrenOf parent ch' ∧
      (∀ c v, c ∈ post.toList → v ∈ post.toList → Reaches parent r c → c ≠ r →
        parent.getD c 0 = v → List.Sublist [c, v] post.toList) ∧
      (∀ v, Reaches parent r v → v ∈ post.toList) :=
  post_order_spec parent children nc r hch hn hr hfind hcount

/-- [S] the case `nc = n` of the two calls in `SuperNodeTree::new`: the result is a
permutation of all vertices (duplicate-free, of full length). -/
theorem post_order_terminates (parent : Array Nat) (children : Array VSet) (r : Nat)
    (hch : ChildrenOf parent children) (hn : parent.size < noParent) (hr : r < parent.size)
    (hfind : parent.toList.findIdx? (· == noParent) = some r) :
    ∃ post ch', postOrder parent children parent.size = .ok (post, ch') ∧
      post.toList.Nodup ∧ (∀ v ∈ post.toList, v < parent.size) ∧
      post.size = parent.size ∧ ChildrenOf parent ch' ∧
      (∀ c v, c ∈ post.toList → v ∈ post.toList → Reaches parent r c → c ≠ r →
        parent.getD c 0 = v → List.Sublist [c, v] post.toList) ∧
      (∀ v, Reaches parent r v → v ∈ post.toList) :=
  post_order_spec_full parent children r hch hn hr hfind

/-- non-vacuity: the tree `0 → 2 ← 1` -/
example : ∃ ch, childrenFromParent #[2, 2, noParent] = .ok ch ∧ ChildrenOf #[2, 2, noParent] ch :=
  children_from_parent_spec _ (by
    intro i hi
    have : i = 0 ∨ i = 1 ∨ i = 2 := by simp at hi; omega
    rcases this with rfl | rfl | rfl <;> simp [noParent]) (by simp [noParent])

/-! ## packed-triangle index maps (`algebra/scalarmath.rs`) -/

/-- [S] coordinate ↦ index ↦ coordinate is the identity on the upper triangle. -/
theorem tri_index_coord {i j : Nat} (h : i ≤ j) :
    upperTriangularIndexToCoord (coordToUpperTriangularIndex (i, j)) = (i, j) :=
  coord_index_inv h

/-- [S] index ↦ coordinate ↦ index is the identity, and the coordinate is in the upper triangle. -/
theorem tri_index (k : Nat) :
    let rc := upperTriangularIndexToCoord k
    rc.1 ≤ rc.2 ∧ coordToUpperTriangularIndex rc = k :=
  index_coord_inv k

/-- [S] the index map is symmetric and stays inside the packed block of an `n × n` matrix. -/
theorem tri_index_range {i j n : Nat} (h : i ≤ j) (hj : j < n) :
    coordToUpperTriangularIndex (i, j) = coordToUpperTriangularIndex (j, i) ∧
    coordToUpperTriangularIndex (i, j) < triangularNumber n :=
  ⟨coord_index_symm i j, coord_index_lt h hj⟩

/-- [S] the `usize` subtractions of `upper_triangular_index_to_coord` never wrap. -/
theorem tri_index_no_underflow {k : Nat} (h : 0 < k) :
    let col := ((isqrt (8 * k + 1) + 1) / 2) - 1
    1 ≤ (isqrt (8 * k + 1) + 1) / 2 ∧ 1 ≤ col ∧ triangularIndex (col - 1) + 1 ≤ k :=
  index_to_coord_no_underflow h

example : upperTriangularIndexToCoord (coordToUpperTriangularIndex (2, 5)) = (2, 5) :=
  tri_index_coord (by decide)

/-! ## `split_cliques` (`merge/clique_graph.rs`) -/

/-- [S] along a post-order in which parents come after their children, `split_cliques`
does not panic and turns the clique sets `cl` into `separator = clique ∩ parent clique`
and `supernode = clique \ separator` for every non-root clique, leaving the others alone. -/
theorem split_cliques (cl seps : Array VSet) (parent post : Array Nat) (nc : Nat)
    (hsz : seps.size = cl.size) (hnd : post.toList.Nodup) (hnc : 1 ≤ nc)
    (hpost : nc - 1 ≤ post.size)
    (hpar : ∀ j, j < nc - 1 →
      post.getD j 0 < cl.size ∧ post.getD j 0 < parent.size ∧
      parent.getD (post.getD j 0) 0 < cl.size ∧
      ∀ i, i ≤ j → post.getD i 0 ≠ parent.getD (post.getD j 0) 0) :
    ∃ sn' sp', splitCliques cl seps parent post nc = .ok (sn', sp') ∧
      ∀ j, j < nc - 1 → ∀ v,
        let c := post.getD j 0
        let p := parent.getD c 0
        (v ∈ (sp'.getD c #[]).toList ↔ v ∈ (cl.getD c #[]).toList ∧ v ∈ (cl.getD p #[]).toList) ∧
        (v ∈ (sn'.getD c #[]).toList ↔ v ∈ (cl.getD c #[]).toList ∧ v ∉ (cl.getD p #[]).toList) :=
  split_cliques_mem cl seps parent post nc hsz hnd hnc hpost hpar

/-! ## `reorder_snode_consecutively`, `calculate_block_dimensions` (`supernode_tree.rs`) -/

/-- [S] `reorder`: on a tree whose supernodes (listed without repetition by `snode_post`)
partition `0..n` and whose separators are repetition-free subsets of `0..n`,
`reorder_snode_consecutively` does not panic (the assertions of `invperm` and of the
separator loop hold) and relabels with a permutation `p` (inverse `q`): `p` is the
concatenation of the sorted supernodes in post-order, the supernodes become the consecutive
ranges `k .. k+len` in post-order, separators are relabelled by `q`, the new `ordering` is
the old one composed with `p` — hence still a permutation — and nothing else changes
(all of this is the structure `ReorderSpec`). -/
theorem reorder (t : SuperNodeTree) (ordering : Array Nat)
    (hord : ordering.size = t.post.size)
    (hnd : t.snodePost.toList.Nodup)
    (hlt : ∀ c ∈ t.snodePost.toList, c < t.snode.size)
    (hpart : (t.snodePost.toList.flatMap (fun c => (t.snode.getD c #[]).toList)).Perm
      (List.range t.post.size))
    (hsep : ∀ sp ∈ t.separators.toList, ∀ x ∈ sp.toList, x < t.post.size)
    (hsepnd : ∀ sp ∈ t.separators.toList, sp.toList.Nodup) :
    ∃ (t' : SuperNodeTree) (ord' p q : Array Nat),
      t.reorderSnodeConsecutively ordering = .ok (t', ord') ∧
      ReorderSpec t ordering t' ord' p q :=
  reorder_spec_of_nodup t ordering hord hnd hlt hpart hsep hsepnd

/-- [S] consequences: the ordering stays a permutation of `0..n`, and the supernodes,
concatenated in post-order, are exactly `0, 1, …, n-1`. -/
theorem reorder_ordering_perm {t : SuperNodeTree} {ordering : Array Nat}
    {t' : SuperNodeTree} {ord' p q : Array Nat} (h : ReorderSpec t ordering t' ord' p q)
    (ho : ordering.toList.Perm (List.range t.post.size)) :
    ord'.toList.Perm (List.range t.post.size) ∧
    t.snodePost.toList.flatMap (fun c => (t'.snode.getD c #[]).toList) = List.range t.post.size :=
  ⟨h.ord_perm_range ho, h.snode_concat⟩

/-- [S] `nblk[i] = |separator| + |supernode|` of the `i`-th clique in post-order. -/
theorem block_dimensions (t : SuperNodeTree) (h1 : t.nCliques ≤ t.snodePost.size)
    (h2 : ∀ i, i < t.nCliques →
      t.snodePost.getD i 0 < t.snode.size ∧ t.snodePost.getD i 0 < t.separators.size) :
    ∃ nb, t.calculateBlockDimensions = .ok { t with nblk := some nb } ∧ nb.size = t.nCliques ∧
      ∀ i, i < t.nCliques → nb.getD i 0 =
        (t.separators.getD (t.snodePost.getD i 0) #[]).size +
        (t.snode.getD (t.snodePost.getD i 0) #[]).size :=
  block_dimensions_spec t h1 h2

/-- non-vacuity of `reorder` and its consequences: three vertices, supernodes `{2,0}` and
`{1}`, post-order `1, 0` -/
example : ∃ (t' : SuperNodeTree) (ord' : Array Nat),
    SuperNodeTree.reorderSnodeConsecutively
      { snode := #[#[2, 0], #[1]], snodePost := #[1, 0], snodeParent := #[0, 0],
        snodeChildren := #[#[1], #[]], post := #[0, 1, 2], separators := #[#[1], #[]],
        nblk := none, nCliques := 2 } #[2, 0, 1] = .ok (t', ord') ∧
    ord'.toList.Perm (List.range 3) ∧
    [1, 0].flatMap (fun c => (t'.snode.getD c #[]).toList) = [0, 1, 2] := by
  have hsep : ∀ sp ∈ [(#[1] : VSet), #[]], ∀ x ∈ sp.toList, x < 3 := by
    intro sp hsp x hx
    simp only [List.mem_cons, List.not_mem_nil, or_false] at hsp
    rcases hsp with rfl | rfl
    · have : x = 1 := by simpa using hx
      omega
    · simp at hx
  obtain ⟨t', ord', p, q, h, hs⟩ := reorder
    { snode := #[#[2, 0], #[1]], snodePost := #[1, 0], snodeParent := #[0, 0],
      snodeChildren := #[#[1], #[]], post := #[0, 1, 2], separators := #[#[1], #[]],
      nblk := none, nCliques := 2 } #[2, 0, 1] rfl (by decide) (by decide) (by decide) hsep
    (by
      intro sp hsp
      simp only [List.mem_cons, List.not_mem_nil, or_false] at hsp
      rcases hsp with rfl | rfl <;> decide)
  have := reorder_ordering_perm hs (by decide)
  exact ⟨t', ord', h, this.1, this.2⟩

/-! ## one step of the parent–child merge (`merge/parent_child.rs`) -/

/-- [S] `parent_child_merge`: on a tree satisfying the invariant `PCInv` (array sizes agree,
parents of live cliques are live, the children lists are the duplicate-free inverse of the
parent array, every separator lies inside the parent's clique), merging a live child `ch`
into its live parent `p` does not panic and yields a tree that satisfies `PCInv` again, in
which exactly `ch` is retired (emptied, marked inactive), `snode[p]` is the union of the two
supernodes and all other vertex sets are unchanged, the grandchildren are re-attached to
`p`, `n_cliques` drops by one, and every old clique is contained in a live new clique
(coverage of the sparsity pattern is preserved) — the structure `MergeSpec`. -/
theorem parent_child_merge (t : SuperNodeTree) (p ch : Nat)
    (hinv : PCInv t) (hp : Live t p) (hc : Live t ch) (hne : ch ≠ p)
    (hpar : t.snodeParent.getD ch 0 = p) (hn : 0 < t.nCliques) :
    ∃ t', PCStrategy.mergeTwoCliques t (p, ch) = .ok t' ∧ MergeSpec t p ch t' :=
  merge_two_cliques_spec t p ch hinv hp hc hne hpar hn

/-- non-vacuity: the chain `0 → 1 → 2` with cliques `{1,2|3}`, `{3|4}`, `{4,5}` -/
example : ∃ t', PCStrategy.mergeTwoCliques exTree (2, 1) = .ok t' ∧ PCInv t' ∧ ¬ Live t' 1 ∧
    ∀ v ∈ cliqueList exTree 1, v ∈ cliqueList t' 2 := by
  obtain ⟨t', h1, h2⟩ := parent_child_merge exTree 2 1 exTree_inv
    ((exTree_live 2).2 (by decide)) ((exTree_live 1).2 (by decide)) (by decide) (by decide)
    (by decide)
  exact ⟨t', h1, h2.inv, h2.dead, h2.cover_ch⟩

/-! ## the symbolic factor, the elimination tree and the Pothen–Sun supernodes
(`supernode_tree.rs`: `parent_from_L`, `higher_degree`, `pothen_sun`, `find_supernodes`,
`find_separators`, front half of `SuperNodeTree::new`) -/

/-- a filled pattern on 5 vertices (columns `{1,2}`, `{2,4}`, `{4}`, `{4}`, `∅`) whose supernodes
are `{0}`, `{1,2,4}`, `{3}` -/
def exL : LPat := { n := 5, colptr := #[0, 2, 4, 5, 6, 6], rowval := #[1, 2, 2, 4, 4, 4] }

/-- non-vacuity of every theorem below with the hypothesis `L.Filled` (`Filled` is decidable:
`LPat.filledB_iff`) -/
theorem exL_filled : exL.Filled := (LPat.filledB_iff _).1 (by decide)

/-- [S] the executable test run by the driver on every generated pattern decides the
hypothesis `LPat.Filled` of the theorems of this section. -/
theorem filled_test (L : LPat) : L.filledB = true ↔ L.Filled := L.filledB_iff

/-- [S] `parent_from_L` on a filled pattern: no panic; `parent[v]` is the first (= smallest) row
of column `v`, every vertex but the last has a larger parent, the last vertex is the only root
(so the elimination "tree" is a tree and every vertex reaches the root). -/
theorem parent_from_L {L : LPat} (h : L.Filled) :
    ∃ parent, parentFromL L = .ok parent ∧ EtreeParent parent L.n ∧
      (∀ v, v + 1 < L.n → parent.getD v 0 = L.par v) ∧
      parent.toList.findIdx? (· == noParent) = some (L.n - 1) ∧
      (∀ v, v < L.n → Reaches parent (L.n - 1) v) := by
  obtain ⟨parent, h1, h2, _, h4⟩ := parent_from_L_spec h
  exact ⟨parent, h1, h2, h4, h2.findIdx_root, h2.reaches_root⟩

/-- [S] `higher_degree` on a filled pattern: no panic (no `usize` underflow), `degree[v]` is the
number of entries of column `v` (`0` for the last vertex). -/
theorem higher_degree {L : LPat} (h : L.Filled) :
    ∃ deg, higherDegree L = .ok deg ∧ deg.size = L.n ∧
      (∀ v, v + 1 < L.n → deg.getD v 0 = (L.col v).length) ∧ deg.getD (L.n - 1) 0 = 0 :=
  higher_degree_spec h

/-- [S] `find_separators`: on non-empty supernodes of in-range vertices, no panic, and
`separator(sn)` = higher adjacency of the representative `min sn` minus the supernode, without
repetition. -/
theorem find_separators {L : LPat} (h : L.Filled) (snode : Array VSet)
    (hsn : ∀ sn ∈ snode.toList, sn.toList ≠ [] ∧ ∀ v ∈ sn.toList, v < L.n) :
    findSeparators L snode = .ok (snode.map (sepOf L)) ∧
    ∀ sn : VSet, (sepOf L sn).toList.Nodup ∧
      ∀ x, x ∈ (sepOf L sn).toList ↔ x ∈ L.col (minOf sn) ∧ x ∉ sn.toList :=
  ⟨find_separators_spec h snode hsn, fun sn => ⟨nodup_sepOf L sn, mem_sepOf L sn⟩⟩

/-- [S] `pothen_sun` on an elimination tree (`parent[v] > v`, single root `n-1`), positive
degrees of the non-roots and a post-order without repetition that lists children before
parents: no panic (all indices in range, `degree[v] - 1` does not underflow), and the returned
`snode_index` satisfies `PSCore`: a vertex `x` with `snode_index[x] = r ≥ 0` was claimed by a
child `c` with `degree[c] = degree[x] + 1` belonging to the same supernode, and `r` is a
representative (`snode_index[r] < 0`). -/
theorem pothen_sun {parent post degree : Array Nat} {n : Nat} (hpar : EtreeParent parent n)
    (hdsz : degree.size = n) (hdpos : ∀ v, v + 1 < n → 0 < degree.getD v 0)
    (hnd : post.toList.Nodup) (hlt : ∀ v ∈ post.toList, v < n)
    (hpw : post.toList.Pairwise (fun a b => parent.getD b 0 ≠ a)) :
    ∃ sp si, pothenSun parent post degree = .ok (sp, si) ∧ si.size = n ∧
      PSCore parent degree n post.toList.reverse si :=
  pothen_sun_spec hpar hdsz hdpos hnd hlt hpw

/-- [S] `find_supernodes` under the same hypotheses: no panic; the supernodes are non-empty,
repetition-free, PARTITION the vertices `0..n`, and every member of a supernode other than its
representative has a child inside the supernode whose degree is one larger (`Supernodes`). -/
theorem find_supernodes {parent post degree : Array Nat} {n : Nat} (hpar : EtreeParent parent n)
    (hdsz : degree.size = n) (hdpos : ∀ v, v + 1 < n → 0 < degree.getD v 0)
    (hnd : post.toList.Nodup) (hlt : ∀ v ∈ post.toList, v < n)
    (hpw : post.toList.Pairwise (fun a b => parent.getD b 0 ≠ a)) :
    ∃ snode sp, findSupernodes parent post degree = .ok (snode, sp) ∧
      Supernodes parent degree n snode :=
  find_supernodes_spec hpar hdsz hdpos hnd hlt hpw

/-- [S] a Pothen–Sun supernode of a filled pattern is a CHAIN of the elimination tree starting
at its smallest vertex: the representative is the minimum, reaches every member by parent
pointers, and every member's column is contained in the representative's column. -/
theorem supernode_chain {L : LPat} (h : L.Filled) {sn : List Nat} {rep : Nat}
    (hs : SnodeOf L sn rep) {parent : Array Nat} (hsz : parent.size = L.n)
    (hp : ∀ v, v + 1 < L.n → parent.getD v 0 = L.par v) :
    (∀ x ∈ sn, rep ≤ x) ∧ (∀ x ∈ sn, Reaches parent x rep) ∧
    (∀ x ∈ sn, ∀ r ∈ L.col x, r ∈ L.col rep) :=
  ⟨hs.rep_le h, hs.chain h hsz hp, hs.col_sub h⟩

/-- [S] in a filled pattern `{v} ∪ col v` is a clique: two rows `x < y` of one column are
adjacent. -/
theorem filled_col_clique {L : LPat} (h : L.Filled) {v : Nat} (hv : v < L.n) {x y : Nat}
    (hx : x ∈ L.col v) (hy : y ∈ L.col v) (hxy : x < y) : y ∈ L.col x :=
  h.col_clique v hv x hx y hy hxy

/-- [S] **front half of `SuperNodeTree::new`** on a filled pattern:
`parent_from_L ⇒ children_from_parent ⇒ post_order ⇒ higher_degree ⇒ find_supernodes ⇒
find_separators` run without panic (`post_order` within its fuel), `post` is a permutation of
the vertices, and the supernodes/separators satisfy `SnCover`: the supernodes partition the
vertices, each is a Pothen–Sun supernode (chain) with representative its minimum, and
`separators = snode.map (col(min sn) \ sn)`. -/
theorem supernode_front {L : LPat} (h : L.Filled) :
    ∃ parent children post children' degree snode sparent,
      parentFromL L = .ok parent ∧ childrenFromParent parent = .ok children ∧
      postOrder parent children parent.size = .ok (post, children') ∧
      higherDegree L = .ok degree ∧ findSupernodes parent post degree = .ok (snode, sparent) ∧
      findSeparators L snode = .ok (snode.map (sepOf L)) ∧
      EtreeParent parent L.n ∧ post.toList.Perm (List.range L.n) ∧
      SnCover L snode (snode.map (sepOf L)) :=
  sntree_front h

/-- [S] **coverage by the initial cliques**: whatever tree `SuperNodeTree::new` returns on a
filled pattern, its supernodes partition the vertices, `n_cliques = |snode|`, `post` is a
permutation, and for every clique `i`: (1) `separators[i]` = higher adjacency of the
representative minus the supernode, repetition-free; (2) `snode[i] ∪ separators[i]` contains the
whole column (every structural non-zero) of each vertex of `snode[i]`; (3) it is a clique of the
filled graph; and (4) every structural non-zero `(r, x)` of `L` lies in the clique whose
supernode contains `x`. -/
theorem supernode_cover {L : LPat} (h : L.Filled) {t : SuperNodeTree}
    (ht : SuperNodeTree.new L = .ok t) :
    (t.snode.toList.flatMap (fun sn => sn.toList)).Perm (List.range L.n) ∧
    t.nCliques = t.snode.size ∧ t.post.toList.Perm (List.range L.n) ∧
    (∀ i, i < t.snode.size →
      ((t.separators.getD i #[]).toList.Nodup ∧
        ∀ x, x ∈ (t.separators.getD i #[]).toList ↔
          x ∈ L.col (minOf (t.snode.getD i #[])) ∧ x ∉ (t.snode.getD i #[]).toList) ∧
      (∀ x ∈ (t.snode.getD i #[]).toList, ∀ r ∈ L.col x,
        r ∈ (t.snode.getD i #[]).toList ∨ r ∈ (t.separators.getD i #[]).toList) ∧
      (∀ x y, (x ∈ (t.snode.getD i #[]).toList ∨ x ∈ (t.separators.getD i #[]).toList) →
        (y ∈ (t.snode.getD i #[]).toList ∨ y ∈ (t.separators.getD i #[]).toList) → x < y →
        y ∈ L.col x)) ∧
    (∀ x, x < L.n → ∀ r ∈ L.col x, ∃ i, i < t.snode.size ∧ x ∈ (t.snode.getD i #[]).toList ∧
      (r ∈ (t.snode.getD i #[]).toList ∨ r ∈ (t.separators.getD i #[]).toList)) := by
  obtain ⟨hc, h2, h3, _⟩ := sntree_new_cover h ht
  exact ⟨hc.partition, h2, h3,
    fun i hi => ⟨hc.sep_spec i hi, hc.cover h i hi, hc.clique h i hi⟩, hc.cover_all h⟩

/-- non-vacuity: the front half runs on the filled pattern `exL` and yields supernodes and
separators satisfying `SnCover` -/
example : ∃ snode sparent parent post degree,
    findSupernodes parent post degree = .ok (snode, sparent) ∧
    findSeparators exL snode = .ok (snode.map (sepOf exL)) ∧
    SnCover exL snode (snode.map (sepOf exL)) := by
  obtain ⟨parent, _, post, _, degree, snode, sparent, _, _, _, _, h5, h6, _, _, h9⟩ :=
    supernode_front exL_filled
  exact ⟨snode, sparent, parent, post, degree, h5, h6, h9⟩

/-! ## the parent–child merge loop (`merge/mod.rs::merge_cliques`, `merge/parent_child.rs`) -/

/-- [S] one merge preserves the clique-tree invariant `CTInv` (= `PCInv` + repetition-free and
pairwise disjoint supernodes, repetition-free separators, a rank function growing towards the
root, roots without separator, retired cliques empty), with the same rank function. -/
theorem parent_child_merge_ct {t : SuperNodeTree} {ord : Nat → Nat} {p ch : Nat}
    (h : CTInv t ord) (hm : MergeHyp t p ch) : CTInv (mergedTree t p ch) ord :=
  h.merge hm

/-- [S] under `CTInv`: SEPARATOR = CLIQUE ∩ PARENT CLIQUE for every live non-root clique. -/
theorem separator_eq_inter {t : SuperNodeTree} {ord : Nat → Nat} (h : CTInv t ord) {c : Nat}
    (hl : Live t c) (hnp : t.snodeParent.getD c 0 ≠ noParent) (v : Nat) :
    v ∈ (t.separators.getD c #[]).toList ↔
      v ∈ cliqueList t c ∧ v ∈ cliqueList t (t.snodeParent.getD c 0) :=
  h.sep_eq_inter hl hnp v

/-- [S] under `CTInv`: RUNNING INTERSECTION in the form tested by the harness oracle — every
vertex of a live clique has exactly one "top" clique (a live clique containing it whose parent
clique does not) — and in the classical form: two live cliques containing `v` climb to the
same clique `x` (the one with `v` in its supernode) and `v` lies in every clique on both
chains. -/
theorem running_intersection {t : SuperNodeTree} {ord : Nat → Nat} (h : CTInv t ord) :
    RunInt t ∧
    ∀ v a b, Live t a → v ∈ cliqueList t a → Live t b → v ∈ cliqueList t b →
      ∃ x, Live t x ∧ v ∈ (t.snode.getD x #[]).toList ∧ Anc t a x ∧ Anc t b x ∧
        (∀ c, Anc t a c → Anc t c x → v ∈ cliqueList t c) ∧
        (∀ c, Anc t b c → Anc t c x → v ∈ cliqueList t c) :=
  ⟨h.runInt, fun _ _ _ h1 h2 h3 h4 => h.running_intersection h1 h2 h3 h4⟩

/-- [S] **the whole loop** of `merge_cliques` (parent–child strategy): from any state satisfying
the loop invariant, with fuel at least `clique_index + 2`, the loop returns (no panic, fuel not
exhausted, `fill_in` and `n_cliques -= 1` do not underflow) a tree that satisfies `CTInv` with
the same rank function and is related to the input by `PCLoopRel` (bookkeeping untouched,
cliques only retired, COVERAGE: every old live clique inside a new live clique, no vertex
invented, the clique counter drops by the number of retired cliques). -/
theorem parent_child_loop {ord : Nat → Nat} (fuel : Nat) (s : PCStrategy) (t : SuperNodeTree)
    (hinv : PCLoopInv t ord s) (hstop : s.stop = false) (hfuel : s.cliqueIndex + 2 ≤ fuel) :
    ∃ t', PCStrategy.loop fuel s t = .ok t' ∧ CTInv t' ord ∧ PCLoopRel t t' :=
  PCStrategy.loop_spec fuel s t hinv hstop hfuel

/-- [S] **`merge_cliques` (parent–child) as a whole**, from the state `PCInit` in which it is
entered (a clique tree with ≥ 2 cliques, all live, `snode_post` a post-order with the only root
last): the loop with the fuel the model hands out terminates, `post_process_merge`
(`post_order` on the parent array with `INACTIVE_NODE` markers) terminates; the result satisfies
`CTInv` (hence separator = clique ∩ parent and running intersection), covers every input
clique, `n_cliques` = number of live cliques = length of the new `snode_post`, which lists
exactly the live cliques, children before parents, the (unchanged, unique) root last. -/
theorem parent_child_merge_cliques {t : SuperNodeTree} {ord : Nat → Nat} (h : PCInit t ord) :
    ∃ t' post ch',
      PCStrategy.mergeCliques t = .ok { t' with snodePost := post, snodeChildren := ch' } ∧
      CTInv { t' with snodePost := post, snodeChildren := ch' } ord ∧ PCLoopRel t t' ∧
      t'.nCliques = liveCount t' ∧
      post.toList.Nodup ∧ post.size = t'.nCliques ∧ (∀ c, c ∈ post.toList ↔ Live t' c) ∧
      (∀ c, Live t' c → t'.snodeParent.getD c 0 ≠ noParent →
        List.Sublist [c, t'.snodeParent.getD c 0] post.toList) ∧
      (∀ c, Live t' c → (t'.snodeParent.getD c 0 = noParent ↔
        c = t.snodePost.getD (t.snode.size - 1) 0)) ∧
      post.toList.getLast? = some (t.snodePost.getD (t.snode.size - 1) 0) := by
  obtain ⟨t', post, ch', _, h2, _, h4, h5, h6, h7, h8, h9, h10, _, h12, h13⟩ :=
    PCStrategy.merge_cliques_pc_spec h
  exact ⟨t', post, ch', h2, h6, h4, h5, h7, h8, h9, h10, h12, h13⟩

/-- non-vacuity: the chain `0 → 1 → 2` with cliques `{1,2|3}`, `{3|4}`, `{4,5}` satisfies
`PCInit`, and the loop merges it into the single clique `{4,5,3,1,2}` -/
example : PCInit exTree (fun c => c) ∧
    PCStrategy.loop 4 { stop := false, cliqueIndex := 1 } exTree = .ok exTreeFinal :=
  ⟨exTree_init, exTree_loop⟩

/-! ## the analysis as a whole for the strategies `none` and `parent_child`
(`SuperNodeTree::new` incl. its back half, `SparsityPattern::new`) -/

/-- [S] the supernodal elimination tree returned by `find_supernodes` (`pothen_sun`'s
`snode_parent`): the supernode of the last vertex is the only root; every other supernode has a
largest vertex `w` and its parent is the (different) supernode containing `parent[w]`
(`SnParent`); together with `Supernodes` (partition into Pothen–Sun supernodes). -/
theorem find_supernodes_parent {parent post degree : Array Nat} {n : Nat}
    (hpar : EtreeParent parent n) (hdsz : degree.size = n)
    (hdpos : ∀ v, v + 1 < n → 0 < degree.getD v 0)
    (hnd : post.toList.Nodup) (hlt : ∀ v ∈ post.toList, v < n)
    (hpw : post.toList.Pairwise (fun a b => parent.getD b 0 ≠ a))
    (hall : ∀ v, v < n → v ∈ post.toList) (hlast : post.toList.getLast? = some (n - 1)) :
    ∃ snode sparent, findSupernodes parent post degree = .ok (snode, sparent) ∧
      Supernodes parent degree n snode ∧ SnParent parent n snode sparent :=
  find_supernodes_parent_spec hpar hdsz hdpos hnd hlt hpw hall hlast

/-- [S] **`SuperNodeTree::new` on a filled pattern** terminates without panic (incl.
`children_from_parent` / `post_order` on the supernodal tree) and returns a valid clique tree
(`SnTreeOk`): supernodes partition the vertices and are chains with
`separator = col(representative) \ supernode` (`SnCover`, hence coverage), the clique-tree
invariant `CTInv` (hence separator = clique ∩ parent clique and running intersection), all
cliques live, `snode_post` a permutation of the clique indices with children before parents and
the unique root (the clique of the last vertex) last; with ≥ 2 cliques it is a valid entry
state `PCInit` of the parent–child merge. -/
theorem supernode_tree_new {L : LPat} (h : L.Filled) :
    ∃ t, SuperNodeTree.new L = .ok t ∧ SnTreeOk L t ∧
      (2 ≤ t.snode.size → PCInit t (fun c => maxOf (t.snode.getD c #[]))) := by
  obtain ⟨t, h1, h2⟩ := sntree_new_ok h
  exact ⟨t, h1, h2, h2.pcinit⟩

/-- [S] **pipeline, strategy `none`**: for a filled pattern `L` and an `ordering` that is a
permutation of `0..n`, `SparsityPattern::new(L, ordering, "none")` returns (no panic) `(tf, ord')`
where `tf` is the clique tree `t0 = SuperNodeTree::new(L)` relabelled by a permutation `q`
(`AnalysisOk`: `CTInv tf` — separator = clique ∩ parent clique, running intersection —,
`snode_post` lists the live cliques once, `nblk[i] = |clique(snode_post[i])|`), `ord'` is a
permutation with `ord'[q[x]] = ordering[x]`, and every structural non-zero `(r, x)` of `L` is
covered by a live clique of `tf`. -/
theorem analysis_none {L : LPat} (h : L.Filled) (ordering : Array Nat)
    (ho : ordering.toList.Perm (List.range L.n)) :
    ∃ (t0 tf : SuperNodeTree) (ord' q : Array Nat),
      SuperNodeTree.new L = .ok t0 ∧ SnTreeOk L t0 ∧
      sparsityPatternNew L ordering "none" = .ok (tf, ord') ∧
      AnalysisOk L.n t0 q tf (fun c => maxOf (t0.snode.getD c #[])) ∧
      ord'.toList.Perm (List.range L.n) ∧
      (∀ x, x < L.n → ord'.getD (q.getD x 0) 0 = ordering.getD x 0) ∧
      (∀ x, x < L.n → ∀ r ∈ L.col x, ∃ c, Live tf c ∧
        q.getD x 0 ∈ cliqueList tf c ∧ q.getD r 0 ∈ cliqueList tf c) :=
  analysis_none_final h ordering ho

/-- [S] **pipeline, strategy `parent_child`**: the same for
`SparsityPattern::new(L, ordering, "parent_child")`, where `tf` is the MERGED tree `t1` (the
output of the whole merge loop + `post_process_merge`, `PreReorder`) relabelled by `q`. -/
theorem analysis_parent_child {L : LPat} (h : L.Filled) (ordering : Array Nat)
    (ho : ordering.toList.Perm (List.range L.n)) :
    ∃ (t0 t1 tf : SuperNodeTree) (ord' q : Array Nat),
      SuperNodeTree.new L = .ok t0 ∧ SnTreeOk L t0 ∧
      PreReorder L.n t1 (fun c => maxOf (t0.snode.getD c #[])) ∧
      sparsityPatternNew L ordering "parent_child" = .ok (tf, ord') ∧
      AnalysisOk L.n t1 q tf (fun c => maxOf (t0.snode.getD c #[])) ∧
      ord'.toList.Perm (List.range L.n) ∧
      (∀ x, x < L.n → ord'.getD (q.getD x 0) 0 = ordering.getD x 0) ∧
      (∀ x, x < L.n → ∀ r ∈ L.col x, ∃ c, Live tf c ∧
        q.getD x 0 ∈ cliqueList tf c ∧ q.getD r 0 ∈ cliqueList tf c) :=
  analysis_pc_final h ordering ho

/-- [S] what `AnalysisOk` gives about the returned tree: separator = clique ∩ parent clique for
every live non-root clique, running intersection (oracle form), `snode_post` duplicate-free
listing exactly the live cliques, `nblk[i] = |clique(snode_post[i])|`. -/
theorem analysis_ok_consequences {n : Nat} {t1 tf : SuperNodeTree} {q : Array Nat}
    {ord : Nat → Nat} (h : AnalysisOk n t1 q tf ord) :
    (∀ c, Live tf c → tf.snodeParent.getD c 0 ≠ noParent → ∀ v,
      (v ∈ (tf.separators.getD c #[]).toList ↔
        v ∈ cliqueList tf c ∧ v ∈ cliqueList tf (tf.snodeParent.getD c 0))) ∧
    RunInt tf ∧ tf.snodePost.toList.Nodup ∧ (∀ c, c ∈ tf.snodePost.toList ↔ Live tf c) ∧
    ∃ nb, tf.nblk = some nb ∧ nb.size = tf.nCliques ∧
      ∀ i, i < tf.nCliques → nb.getD i 0 = (cliqueList tf (tf.snodePost.getD i 0)).length :=
  ⟨fun _ hl hnp v => h.ct.sep_eq_inter hl hnp v, h.ct.runInt, h.post_nodup, h.post_live, h.nblk⟩

/-- non-vacuity: both pipelines run on the filled pattern `exL` with the identity ordering -/
example : (∃ tf ord', sparsityPatternNew exL #[0, 1, 2, 3, 4] "none" = .ok (tf, ord')) ∧
    (∃ tf ord', sparsityPatternNew exL #[0, 1, 2, 3, 4] "parent_child" = .ok (tf, ord')) := by
  obtain ⟨_, tf, ord', _, _, _, h1, _⟩ :=
    analysis_none exL_filled #[0, 1, 2, 3, 4] (List.Perm.refl _)
  obtain ⟨_, _, tf', ord'', _, _, _, _, h2, _⟩ :=
    analysis_parent_child exL_filled #[0, 1, 2, 3, 4] (List.Perm.refl _)
  exact ⟨⟨tf, ord', h1⟩, ⟨tf', ord'', h2⟩⟩

/-! ## the validity predicate of the harness oracle, machine-checked
(`ClarabelModel/Chordal/Valid.lean`: `validCliqueTreeB`, evaluated by the driver on the model's
output of every analysis case — response field `valid=` — and against `check_clique_tree` on
corrupted trees — channel `tree.valid`) -/

/-- [S] the executable checker decides the Prop-level validity statement `ValidCliqueTree`
(ordering a permutation, consistent sizes, and either the single-clique case or: `snode_post`
duplicate-free, dead cliques empty, supernodes = consecutive ranges partitioning `0..n`, clique
lists repetition-free and in range, exactly one root and it is last, parents live and later in
the post-order, separator = clique ∩ parent clique, root separator empty, children = inverse of
parents, running intersection, `nblk`, coverage of the pattern). -/
theorem valid_clique_tree_checker (n : Nat) (edges : List (Nat × Nat)) (t : SuperNodeTree)
    (ordering : Array Nat) :
    validCliqueTreeB n edges t ordering = true ↔ ValidCliqueTree n edges t ordering :=
  validCliqueTreeB_iff n edges t ordering

/-- [S] **C17 for the strategy `none`, in the oracle's own terms**: for a filled pattern `L`, an
`ordering` that is a permutation, and pattern entries `edges` (original coordinates) that are
entries of `L` at the positions of their endpoints in `ordering`,
`SparsityPattern::new(L, ordering, "none")` returns without panic a tree and an ordering that
satisfy `ValidCliqueTree` — every clause the harness oracle `check_clique_tree` tests. -/
theorem analysis_none_valid {L : LPat} (h : L.Filled) (ordering : Array Nat)
    (ho : ordering.toList.Perm (List.range L.n)) (edges : List (Nat × Nat))
    (hedges : ∀ e ∈ edges, ∃ a b, a < L.n ∧ b < L.n ∧ ordering[a]? = some e.1 ∧
        ordering[b]? = some e.2 ∧ (b ∈ L.col a ∨ a ∈ L.col b)) :
    ∃ tf ord', sparsityPatternNew L ordering "none" = .ok (tf, ord') ∧
      ValidCliqueTree L.n edges tf ord' ∧ validCliqueTreeB L.n edges tf ord' = true :=
  Clarabel.Chordal.analysis_none_valid h ordering ho edges hedges

/-- [S] **C17 for the strategy `parent_child`, in the oracle's own terms** (same statement; the
tree is the one after the whole merge loop, `post_process_merge`, the relabelling and
`calculate_block_dimensions`; it may consist of a single clique). -/
theorem analysis_parent_child_valid {L : LPat} (h : L.Filled) (ordering : Array Nat)
    (ho : ordering.toList.Perm (List.range L.n)) (edges : List (Nat × Nat))
    (hedges : ∀ e ∈ edges, ∃ a b, a < L.n ∧ b < L.n ∧ ordering[a]? = some e.1 ∧
        ordering[b]? = some e.2 ∧ (b ∈ L.col a ∨ a ∈ L.col b)) :
    ∃ tf ord', sparsityPatternNew L ordering "parent_child" = .ok (tf, ord') ∧
      ValidCliqueTree L.n edges tf ord' ∧ validCliqueTreeB L.n edges tf ord' = true :=
  Clarabel.Chordal.analysis_pc_valid h ordering ho edges hedges

/-- [S] the same, with the hypotheses in the executable form that the driver evaluates on every
generated case (channel `hyp.analysis`: `filled=1 perm=1 edges=1`): if the three tests pass on
`(L, ordering, edges)` then for both strategies the model's analysis succeeds and its output
passes the machine-checked validity checker. -/
theorem analysis_valid_of_tests (L : LPat) (ordering : Array Nat) (edges : List (Nat × Nat))
    (h1 : L.filledB = true) (h2 : clOrderingPerm L.n ordering = true)
    (h3 : L.edgesInB ordering edges = true) :
    (∃ tf ord', sparsityPatternNew L ordering "none" = .ok (tf, ord') ∧
      validCliqueTreeB L.n edges tf ord' = true) ∧
    (∃ tf ord', sparsityPatternNew L ordering "parent_child" = .ok (tf, ord') ∧
      validCliqueTreeB L.n edges tf ord' = true) := by
  have hf := (LPat.filledB_iff L).1 h1
  have ho := (clOrderingPerm_iff L.n ordering).1 h2
  have he := LPat.edgesInB_sound L ordering edges h3
  obtain ⟨tf, ord', a, _, b⟩ := analysis_none_valid hf ordering ho edges he
  obtain ⟨tf', ord'', a', _, b'⟩ := analysis_parent_child_valid hf ordering ho edges he
  exact ⟨⟨tf, ord', a, b⟩, ⟨tf', ord'', a', b'⟩⟩

/-- non-vacuity: the three tests pass on `exL` with the identity ordering and its six pattern
entries -/
example : exL.filledB = true ∧ clOrderingPerm exL.n #[0, 1, 2, 3, 4] = true ∧
    exL.edgesInB #[0, 1, 2, 3, 4] [(0, 1), (0, 2), (1, 2), (1, 4), (2, 4), (3, 4)] = true := by
  decide

/-! ## the clique-graph strategy: Kruskal's spanning tree and the parent assignment
(`merge/clique_graph.rs`: `kruskal`, `find_neighbors`, `assign_children`,
`determine_parent_cliques`) -/

/-- [S] `kruskal` on a well-formed edge matrix (`IMat.WFE`) with `0 < num_cliques`: no panic
(the union-find never exhausts its fuel), the pattern is kept and the values change only at the
marked positions, where they become `-1`. -/
theorem kruskal_ok {E : IMat} (h : E.WFE) {numCliques : Nat} (hnc : 0 < numCliques) :
    ∃ E', kruskal E numCliques = .ok E' ∧ E'.m = E.m ∧ E'.n = E.n ∧ E'.colptr = E.colptr ∧
      E'.rowval = E.rowval ∧ E'.nzval.size = E.nzval.size ∧
      ∀ k, E'.nzval.getD k 0 =
        if k ∈ (kruskalMarked E numCliques).map (·.1) then -1 else E.nzval.getD k 0 :=
  Clarabel.Chordal.kruskal_ok h hnc

/-- [S] the marked edges are ACYCLIC (each one joins two different connectivity classes of the
edges marked before it), the final union-find partition is their connectivity, and there are
`numEdgesFound ≤ max 1 (num_cliques - 1)` of them (`≤ num_cliques - 1` when `2 ≤ num_cliques`;
with `num_cliques = 1` the loop stops only after the first marked edge). -/
theorem kruskal_forest {E : IMat} (h : E.WFE) {numCliques : Nat} (hnc : 0 < numCliques) :
    (∀ (i : Nat) (hi : i < (kruskalTree E numCliques).length),
      ¬ Conn ((kruskalTree E numCliques).take i)
        (kruskalTree E numCliques)[i].1 (kruskalTree E numCliques)[i].2) ∧
    (∀ a b, a < E.n → b < E.n →
      (Dsu.Same (kruskalRes E numCliques).d a b ↔ Conn (kruskalTree E numCliques) a b)) ∧
    (kruskalTree E numCliques).length = (kruskalRes E numCliques).found ∧
    (kruskalTree E numCliques).length ≤ max 1 (numCliques - 1) ∧
    (2 ≤ numCliques → (kruskalTree E numCliques).length ≤ numCliques - 1) :=
  Clarabel.Chordal.kruskal_forest h hnc

/-- [S] **spanning tree**: if the `num_cliques` live cliques `Lv` carry all edges of `E` and are
connected by them, `kruskal` marks exactly `num_cliques - 1` edges of `E`, and they form a
spanning tree of `Lv` (acyclic and connecting all of `Lv`). -/
theorem kruskal_spanning {E : IMat} (h : E.WFE) {numCliques : Nat} (hnc : 0 < numCliques)
    {Lv : List Nat} (hLv : Lv.Nodup) (hlen : Lv.length = numCliques)
    (hedges : ∀ e ∈ E.edges, e.1 ∈ Lv ∧ e.2 ∈ Lv)
    (hconn : ∀ u ∈ Lv, ∀ v ∈ Lv, Conn E.edges u v) :
    (kruskalTree E numCliques).length = numCliques - 1 ∧
    ForestFrom [] (kruskalTree E numCliques) ∧
    (∀ e ∈ kruskalTree E numCliques, e ∈ E.edges) ∧
    (∀ u ∈ Lv, ∀ v ∈ Lv, Conn (kruskalTree E numCliques) u v) :=
  Clarabel.Chordal.kruskal_spanning h hnc hLv hlen hedges hconn

/-- [S] **`kruskal` + `determine_parent_cliques`** (the core of `clique_tree_from_graph`): under
the hypotheses of `kruskal_spanning`, for a strictly lower triangular `E` without weight `-1`,
both functions succeed (`assign_children` does not exhaust its fuel); the parent array orients
the spanning tree towards the root clique — every live non-root clique gets exactly one parent,
a tree neighbour; every tree edge is a parent link; every live clique climbs to the root
(`Oriented`); the root gets `NO_PARENT` when a clique contains `post.last()`; cliques outside
`Lv` keep their entry; the children lists gain exactly the inverse of the parent array on `Lv`,
without repetition. (`split_cliques`, proved above, then yields the separators.) -/
theorem kruskal_determine_parent_cliques {E : IMat} (h : E.WFE) (hl : E.Lower) {numCliques : Nat}
    (hnc : 0 < numCliques) (hw : ∀ k, k < E.nzval.size → E.nzval.getD k 0 ≠ -1)
    {Lv : List Nat} (hLv : Lv.Nodup) (hlen : Lv.length = numCliques)
    (hLlt : ∀ v ∈ Lv, v < E.n)
    (hedges : ∀ e ∈ E.edges, e.1 ∈ Lv ∧ e.2 ∈ Lv)
    (hconn : ∀ u ∈ Lv, ∀ v ∈ Lv, Conn E.edges u v)
    {par0 : Array Nat} {ch0 cliques : Array VSet} {post : Array Nat} {v0 : Nat}
    (hp : par0.size = E.n) (hc : ch0.size = E.n) (hpost : post.back? = some v0)
    (hroot : dpcRoot cliques v0 ∈ Lv)
    (hdead : ∀ v ∈ Lv, ∀ w ∈ Lv, par0.getD w 0 ≠ v) (hnp : ∀ v ∈ Lv, v ≠ noParent)
    (hch0 : ∀ c, c < E.n → (ch0.getD c #[]).toList.Nodup) :
    ∃ E' par' ch', kruskal E numCliques = .ok E' ∧
      determineParentCliques par0 ch0 cliques post E' = .ok (par', ch') ∧
      par'.size = E.n ∧ ch'.size = E.n ∧
      (kruskalTree E numCliques).length = numCliques - 1 ∧
      Oriented (kruskalTree E numCliques) Lv [dpcRoot cliques v0] (fun v => par'.getD v 0) ∧
      par'.getD (dpcRoot cliques v0) 0 =
        (if (cliques.findIdx? (fun clique => clique.contains v0)).isSome then noParent
         else par0.getD (dpcRoot cliques v0) 0) ∧
      (∀ v, v ∉ Lv → par'.getD v 0 = par0.getD v 0) ∧
      (∀ c, c < E.n → ∀ w, w ∈ (ch'.getD c #[]).toList ↔
        (w ∈ (ch0.getD c #[]).toList ∨
          (w ∈ Lv ∧ w ≠ dpcRoot cliques v0 ∧ par'.getD w 0 = c))) ∧
      (∀ c, c < E.n → (ch'.getD c #[]).toList.Nodup) :=
  kruskal_determineParentCliques h hl hnc hw hLv hlen hLlt hedges hconn hp hc hpost hroot hdead
    hnp hch0

/-- non-vacuity of the Kruskal theorems: the weighted triangle on the cliques `0,1,2` (clique `3`
dead): `kruskal` marks the two heaviest edges, which span `{0,1,2}` -/
example : KrEx.tri.WFE ∧ kruskalTree KrEx.tri 3 = [(1, 0), (2, 0)] ∧
    (kruskalTree KrEx.tri 3).length = 3 - 1 := by
  refine ⟨KrEx.tri_wfe, KrEx.tri_tree, ?_⟩
  rw [KrEx.tri_tree]; rfl

/-! ## the clique-graph strategy, front half (`merge/clique_graph.rs`: `compute_reduced_clique_graph`,
`compute_weights`, `new_from_triplets`, `compute_adjacency_table`, `initialise`, `traverse`,
`evaluate`, `merge_two_cliques`, `update_strategy`, the loop of `merge_cliques`,
`post_process_merge`) — `Lemmas/ChordalCG*.lean`

While this strategy runs the tree structure is given up: `snode[c]` is the whole clique and a
merged-away clique is the empty set (`CGLive`).  THE LOOP INVARIANT is `CGInv N nv s t`
(`Lemmas/ChordalCGDefs.lean`): the edge matrix is well-formed, square, strictly lower triangular
with sorted columns (`IMat.Good`) and stores no zero weight; its entries join live cliques only and
connect all of them; the adjacency table has exactly the live cliques as keys and
`b ∈ table[a] ↔ (a, b) is a stored entry` (so it is symmetric and never mentions a removed clique);
`n_cliques` counts the live cliques; `|nzval| ≤ |p|`; the clique sets are repetition-free subsets of
`0..nv`.  The harness evaluates the same invariant on the IMPLEMENTATION's state after every pass
(channel `cg.trace`, where the states of model and implementation are also compared). -/

/-- [S] `edge_metric` (cubic) does not panic and THE WEIGHT OF TWO NON-EMPTY CLIQUES IS NEVER `0`:
`|C₁|³ + |C₂|³ = |C₁ ∪ C₂|³` has no solution in positive integers (Fermat's last theorem for
exponent 3, Mathlib's `fermatLastTheoremThree`).  This is what keeps the graph intact: the weights
ARE the stored values, `set_entry` does not insert a `0` and `dropzeros` erases every stored `0`. -/
theorem edge_weight_ne_zero (ca cb : VSet) :
    ∃ w, edgeMetric ca cb = .ok w ∧ (ca ≠ #[] → cb ≠ #[] → w ≠ 0) :=
  edgeMetric_ok ca cb

/-- [S] `new_from_triplets` on in-range strictly lower triangular triplets (repetitions allowed):
no panic (none of the `usize` decrements of the consolidation pass underflows); the result is a
well-formed `n × n` strictly lower triangular matrix with strictly increasing rows in every column
(`IMat.Good` = `WFE` + `Lower` + `Sorted`), whose stored positions are exactly the triplet
positions, each value being the sum of the triplet values at that position. -/
theorem new_from_triplets (n : Nat) (I J : Array Nat) (V : Array Int) (hIJ : I.size = J.size)
    (hIV : I.size = V.size)
    (hlow : ∀ k, k < I.size → J.getD k 0 < I.getD k 0 ∧ I.getD k 0 < n) :
    ∃ E, IMat.newFromTriplets n n I J V = .ok E ∧ E.m = n ∧ E.n = n ∧ E.Good ∧
      (∀ r c, (E.entry r c).isSome = true ↔ ∃ k, k < I.size ∧ I.getD k 0 = r ∧ J.getD k 0 = c) ∧
      (∀ r c v, E.entry r c = some v →
        v = (((List.range I.size).filter (fun k => I.getD k 0 == r && J.getD k 0 == c)).map
              (fun k => V.getD k 0)).sum) :=
  newFromTriplets_spec n I J V hIJ hIV hlow

/-- non-vacuity: two triplets at `(1,0)` are consolidated -/
example : ∃ E, IMat.newFromTriplets 3 3 #[2, 1, 2, 1] #[1, 0, 0, 0] #[1, 5, 7, 2] = .ok E ∧ E.Good :=
  by
  obtain ⟨E, h, _, _, hg, _⟩ := new_from_triplets 3 #[2, 1, 2, 1] #[1, 0, 0, 0] #[1, 5, 7, 2] rfl rfl
    (by
      intro k hk
      have : k = 0 ∨ k = 1 ∨ k = 2 ∨ k = 3 := by simp at hk; omega
      rcases this with rfl | rfl | rfl | rfl <;> decide)
  exact ⟨E, h, hg⟩

/-- [S] `set_entry` at a strictly lower in-range position of a `Good` matrix: no panic, `Good` is
kept, exactly the addressed entry changes — a non-zero value is written or inserted, a zero is
written over an existing entry but never inserted. -/
theorem set_entry {E : IMat} (h : E.Good) {row col : Nat} (hlt : col < row) (hr : row < E.n)
    (v : Int) :
    ∃ E', E.setEntry row col v = .ok E' ∧ E'.Good ∧ E'.m = E.m ∧ E'.n = E.n ∧
      (∀ r c, E'.entry r c =
        if r = row ∧ c = col then
          (if v = 0 then (E.entry row col).map (fun _ => (0 : Int)) else some v)
        else E.entry r c) :=
  setEntry_spec E h row col hlt hr v

/-- [S] `dropzeros` on a `Good` matrix: no panic, `Good` is kept, exactly the entries with value
`0` disappear. -/
theorem dropzeros {E : IMat} (h : E.Good) :
    ∃ E', E.dropzeros = .ok E' ∧ E'.Good ∧ E'.m = E.m ∧ E'.n = E.n ∧
      (∀ r c, E'.entry r c = (E.entry r c).filter (fun v => v != 0)) :=
  dropzeros_spec E h

/-- non-vacuity of `set_entry` / `dropzeros`: the weighted triangle of the Kruskal examples -/
example : KrEx.tri.Good := KrEx.tri_good

/-- [S] `compute_reduced_clique_graph` NEVER PANICS, for any separators and clique sets (every
hash-map lookup hits, the recursion `DFS_hashtable` stays within the number of cliques containing
the separator, `is_unconnected` always finds a component); the separators come back permuted and
every emitted pair satisfies `cols[k] < rows[k] < |cliques|`. -/
theorem reduced_clique_graph_ok (separators cliques : Array VSet) :
    ∃ seps' rows cols, computeReducedCliqueGraph separators cliques = .ok (seps', rows, cols) ∧
      seps'.toList.Perm separators.toList ∧ rows.size = cols.size ∧
      (∀ k, k < rows.size → cols.getD k 0 < rows.getD k 0 ∧ rows.getD k 0 < cliques.size) :=
  reduced_ok separators cliques

/-- [S] THE EDGES OF A CLIQUE TREE ARE EDGES OF THE REDUCED CLIQUE GRAPH: if the separator `S` is
listed, `S = clique c ∩ clique p`, and the cliques fall into two sides (`c` on one, `p` on the other)
such that cliques on different sides meet inside `S` only (what running intersection gives for
the two components of the tree minus the edge `c — p`), then `compute_reduced_clique_graph` emits
the pair `(max c p, min c p)`. -/
theorem reduced_clique_graph_tree_edge {separators cliques seps' : Array VSet}
    {rows cols : Array Nat}
    (hrun : computeReducedCliqueGraph separators cliques = .ok (seps', rows, cols))
    (hnd : ∀ i, i < cliques.size → (cliques.getD i #[]).toList.Nodup)
    {c p : Nat} (hc : c < cliques.size) (hp : p < cliques.size)
    {S : VSet} (hS : S ∈ separators.toList) (hSnd : S.toList.Nodup)
    (hSeq : ∀ v, v ∈ S.toList ↔
      (v ∈ (cliques.getD c #[]).toList ∧ v ∈ (cliques.getD p #[]).toList))
    (side : Nat → Prop) (hsc : side c) (hsp : ¬ side p)
    (hcross : ∀ a b, a < cliques.size → b < cliques.size → side a → ¬ side b →
      ∀ v, v ∈ (cliques.getD a #[]).toList → v ∈ (cliques.getD b #[]).toList → v ∈ S.toList) :
    ∃ k, k < rows.size ∧ rows.getD k 0 = max c p ∧ cols.getD k 0 = min c p :=
  reduced_tree_edge separators cliques seps' rows cols hrun hnd c p hc hp S hS hSnd hSeq side hsc
    hsp hcross

/-- non-vacuity: the cliques `{0,1}`, `{1,2}` with the separator `{1}`: the pair `(1, 0)` is
emitted -/
example : ∃ seps' rows cols,
    computeReducedCliqueGraph #[#[1], #[]] #[#[0, 1], #[1, 2]] = .ok (seps', rows, cols) ∧
    ∃ k, k < rows.size ∧ rows.getD k 0 = 1 ∧ cols.getD k 0 = 0 := by
  obtain ⟨seps', rows, cols, hrun, _⟩ := reduced_clique_graph_ok #[#[1], #[]] #[#[0, 1], #[1, 2]]
  refine ⟨seps', rows, cols, hrun, ?_⟩
  have := reduced_clique_graph_tree_edge hrun
    (by
      intro i hi
      have : i = 0 ∨ i = 1 := by simp at hi; omega
      rcases this with rfl | rfl <;> decide)
    (c := 0) (p := 1) (by decide) (by decide) (S := #[1]) (by simp) (by decide)
    (by intro v; simp; omega) (fun a => a = 0) rfl (by decide)
    (by
      intro a b ha hb hsa hsb v hva hvb
      have hb' : b = 1 := by
        have : b = 0 ∨ b = 1 := by simp at hb; omega
        rcases this with rfl | rfl
        · exact absurd rfl hsb
        · rfl
      subst hsa; subst hb'
      have h1 : v = 0 ∨ v = 1 := by simpa using hva
      have h2 : v = 1 ∨ v = 2 := by simpa using hvb
      have : v = 1 := by omega
      simp [this])
  simpa using this

/-- [S] **`initialise` ESTABLISHES THE LOOP INVARIANT**: on the tree `t0` of `SuperNodeTree::new`
(filled pattern, ≥ 2 cliques) `initialise` does not panic; afterwards the supernodes are the whole
cliques, all parents are `INACTIVE_NODE`, the children lists are empty, the separators are only
permuted (`CGInitRel`), and `CGInv` holds: in particular the edge matrix is `Good`
(`IMat.WFE`/`IMat.Lower`), joins only live cliques, stores no zero weight, and EVERY PARENT–CHILD
PAIR OF THE SUPERNODE TREE IS A STORED ENTRY, so the cliques are connected. -/
theorem clique_graph_initialise {L : LPat} (h : L.Filled) {t0 : SuperNodeTree}
    (hok : SnTreeOk L t0) (h2 : 2 ≤ t0.snode.size) :
    ∃ s1 t1, CGStrategy.new.initialise t0 = .ok (s1, t1) ∧ s1.stop = false ∧
      CGInv t0.snode.size L.n s1 t1 ∧ CGInitRel t0 t1 :=
  initialise_ok L t0 h hok h2

/-- [S] the tree of `SuperNodeTree::new exL` has at least two cliques (`0` and `3` are not
adjacent) — non-vacuity of the hypotheses `SnTreeOk L t0`, `2 ≤ t0.snode.size` below -/
theorem exL_two_cliques : ∃ t0, SuperNodeTree.new exL = .ok t0 ∧ SnTreeOk exL t0 ∧
    2 ≤ t0.snode.size :=
  exFilledL_two_cliques

/-- non-vacuity of the invariant: `initialise` on the tree of `exL` yields a state satisfying
`CGInv` -/
example : ∃ N nv s t, CGInv N nv s t ∧ 2 ≤ t.nCliques := by
  obtain ⟨t0, _, hok, h2⟩ := exL_two_cliques
  obtain ⟨s1, t1, _, _, hinv, hrel⟩ := clique_graph_initialise exL_filled hok h2
  exact ⟨_, _, s1, t1, hinv, by rw [hrel.ncl, hok.ncl]; exact h2⟩

/-- [S] `traverse` under the invariant with ≥ 2 live cliques: no panic (`findmax` of a non-empty
weight vector, `max_elem`, every `ispermissible` lookup, the slice `p[0..nnz]`,
`index_to_coord`); only the workspace `p` changes, not its length; a returned candidate is a stored
entry of the edge matrix. -/
theorem clique_graph_traverse {N nv : Nat} {s : CGStrategy} {t : SuperNodeTree}
    (h : CGInv N nv s t) (h2 : 2 ≤ t.nCliques) :
    ∃ p' cand?, s.traverse t = .ok ({ s with p := p' }, cand?) ∧ p'.size = s.p.size ∧
      ∀ r c, cand? = some (r, c) → (s.edges.entry r c).isSome = true :=
  traverse_spec N nv s t h h2

/-- [S] `evaluate` on a stored entry: no panic (`get_entry(..).unwrap()`); merge iff the weight is
`≥ 0`, otherwise `stop`. -/
theorem clique_graph_evaluate {N nv : Nat} {s : CGStrategy} {t : SuperNodeTree}
    (h : CGInv N nv s t) {r c : Nat} {v : Int} (hv : s.edges.entry r c = some v) :
    s.evaluate t (r, c) = .ok (if v ≥ 0 then s else { s with stop := true }, decide (v ≥ 0)) :=
  evaluate_spec N nv s t h r c v hv

/-- [S] WHAT `update_strategy` DOES after `cr` was merged into `c1` (a stored entry `(c1, cr)`): no
panic; the new edge matrix is `Good`, without zero weight, and its graph is the old one with `cr`
contracted into `c1`; the adjacency table loses the key `cr`, NO SET MENTIONS `cr` ANY MORE, and
`c1` inherits the neighbours of `cr`. -/
theorem clique_graph_update_strategy {N nv : Nat} {s : CGStrategy} {t : SuperNodeTree}
    (h : CGInv N nv s t) {c1 cr : Nat} (he : (s.edges.entry c1 cr).isSome = true)
    {t' : SuperNodeTree} (hm : s.mergeTwoCliques t (c1, cr) = .ok t') :
    ∃ s', s.updateStrategy t' (c1, cr) true = .ok s' ∧ s'.stop = s.stop ∧ s'.p = s.p ∧
      s'.edges.Good ∧ s'.edges.m = N ∧ s'.edges.n = N ∧
      (∀ k, k < s'.edges.nzval.size → s'.edges.nzval.getD k 0 ≠ 0) ∧
      (∀ a b, s'.edges.Adj a b ↔ (a ≠ cr ∧ b ≠ cr ∧
        (s.edges.Adj a b ∨ (a = c1 ∧ s.edges.Adj cr b ∧ b ≠ c1) ∨
          (b = c1 ∧ s.edges.Adj cr a ∧ a ≠ c1)))) ∧
      (∀ a, s'.adjacencyTable.containsKey a = true ↔
        (s.adjacencyTable.containsKey a = true ∧ a ≠ cr)) ∧
      (∀ a b, a ≠ cr → s.adjacencyTable.containsKey a = true →
        (b ∈ (s'.adjacencyTable.nbrs a).toList ↔ (b ≠ cr ∧
          (b ∈ (s.adjacencyTable.nbrs a).toList ∨
            (a = c1 ∧ b ∈ (s.adjacencyTable.nbrs cr).toList ∧ b ≠ c1) ∨
            (b = c1 ∧ a ∈ (s.adjacencyTable.nbrs cr).toList ∧ a ≠ c1))))) ∧
      (∀ a, (s'.adjacencyTable.nbrs a).toList.Nodup) :=
  update_state_ok N nv s t h c1 cr he t' hm

/-- [S] **ONE MERGE PRESERVES THE LOOP INVARIANT**: `merge_two_cliques` + `update_strategy` on a
stored entry do not panic, `CGInv` holds again (contracting an edge keeps the live cliques
connected and does not increase the number of stored entries, so `p` stays long enough), exactly
one clique is retired, the other fields of the tree are untouched (`CGFrame`) and COVERAGE IS
MONOTONE (`CGCover`: merged cliques are unions). -/
theorem clique_graph_merge_invariant {N nv : Nat} {s : CGStrategy} {t : SuperNodeTree}
    (h : CGInv N nv s t) {r c : Nat} (he : (s.edges.entry r c).isSome = true) :
    ∃ t' s', s.mergeTwoCliques t (r, c) = .ok t' ∧ s.updateStrategy t' (r, c) true = .ok s' ∧
      CGInv N nv s' t' ∧ CGFrame t t' ∧ CGCover t t' ∧ t'.nCliques + 1 = t.nCliques ∧
      s'.stop = s.stop :=
  merge_update_ok N nv s t h r c he

/-- [S] under the invariant THE ADJACENCY TABLE NEVER MENTIONS A REMOVED CLIQUE and is symmetric:
a member `b` of the adjacency set of a live clique `a` is a live clique different from `a`, and
`a` is in the set of `b`.  (The seeded change C17-c — sweeping only the redirected neighbours —
breaks exactly this; the harness evaluates the invariant on the implementation's state after
every pass and reports the clause `adj-iff`.) -/
theorem clique_graph_adjacency_live {N nv : Nat} {s : CGStrategy} {t : SuperNodeTree}
    (h : CGInv N nv s t) {a b : Nat} (ha : CGLive t a)
    (hb : b ∈ (s.adjacencyTable.nbrs a).toList) :
    CGLive t b ∧ a ≠ b ∧ a ∈ (s.adjacencyTable.nbrs b).toList :=
  ⟨(h.nbrs_live ha hb).1, (h.nbrs_live ha hb).2, h.nbrs_symm ha hb⟩

/-- [S] **THE WHOLE LOOP** of `merge_cliques` (clique-graph strategy): from any state satisfying
`CGInv` with ≥ 2 live cliques and fuel at least `n_cliques + 1` (`1` if `stop` is already set) the
loop returns — no panic, fuel not exhausted — a state that satisfies `CGInv` again, with the
bookkeeping untouched, coverage monotone and at least one clique left. -/
theorem clique_graph_loop {N nv : Nat} (fuel : Nat) {s : CGStrategy} {t : SuperNodeTree}
    (hinv : CGInv N nv s t) (h2 : 2 ≤ t.nCliques)
    (hfuel : (if s.stop then 1 else t.nCliques + 1) ≤ fuel) :
    ∃ s' t', CGStrategy.loop fuel s t = .ok (s', t') ∧ CGInv N nv s' t' ∧ CGFrame t t' ∧
      CGCover t t' ∧ 1 ≤ t'.nCliques :=
  cg_loop_ok N nv fuel s t hinv h2 hfuel

/-- [S] **`initialise` + the loop on the tree of `SuperNodeTree::new`**, with the fuel the model
hands out (`|snode| + 2`): no panic, and AT EXIT THE HYPOTHESES OF THE KRUSKAL STAGE HOLD — they
are clauses of `CGInv`: the edge matrix is `WFE`/`Lower`, its entries join live cliques only, the
live cliques are connected, `n_cliques` is their number (and the root clique is live, see
`clique_graph_post_multi`). -/
theorem clique_graph_front {L : LPat} (h : L.Filled) {t0 : SuperNodeTree} (hok : SnTreeOk L t0)
    (h2 : 2 ≤ t0.snode.size) :
    ∃ s1 t1 s t, CGStrategy.new.initialise t0 = .ok (s1, t1) ∧
      CGStrategy.loop (t1.snode.size + 2) s1 t1 = .ok (s, t) ∧
      CGInitRel t0 t1 ∧ CGInv t0.snode.size L.n s1 t1 ∧
      CGInv t0.snode.size L.n s t ∧ CGFrame t1 t ∧ CGCover t1 t ∧ 1 ≤ t.nCliques :=
  cg_front_ok h hok h2

/-- [S] what `CGInv` gives to `kruskal_determine_parent_cliques`: `WFE`, `Lower`, the live list
is duplicate-free of length `n_cliques` with members `< n`, all edges inside it, and it is
connected. -/
theorem clique_graph_exit_kruskal_hyps {N nv : Nat} {s : CGStrategy} {t : SuperNodeTree}
    (h : CGInv N nv s t) :
    s.edges.WFE ∧ s.edges.Lower ∧ (cgLiveList t).Nodup ∧ (cgLiveList t).length = t.nCliques ∧
    (∀ v ∈ cgLiveList t, v < s.edges.n) ∧
    (∀ e ∈ s.edges.edges, e.1 ∈ cgLiveList t ∧ e.2 ∈ cgLiveList t) ∧
    (∀ u ∈ cgLiveList t, ∀ v ∈ cgLiveList t, Conn s.edges.edges u v) :=
  h.kruskal_hyps

/-- [S] `post_process_merge` + the tail of `SparsityPattern::new` WHEN EVERYTHING WAS MERGED INTO
ONE CLIQUE: no panic, the surviving clique is the whole vertex set, and the result satisfies the
oracle predicate (single-clique branch). -/
theorem clique_graph_post_single {L : LPat} (h : L.Filled) {t0 t1 t : SuperNodeTree}
    {s : CGStrategy} (hok : SnTreeOk L t0) (hrel : CGInitRel t0 t1) (hfr : CGFrame t1 t)
    (hcov : CGCover t1 t) (hinv : CGInv t0.snode.size L.n s t) (h1 : t.nCliques = 1)
    (ordering : Array Nat) (ho : ordering.toList.Perm (List.range L.n))
    (edges : List (Nat × Nat)) :
    ∃ s' t' tf ord', s.postProcessMerge t = .ok (s', t') ∧ spTail t' ordering = .ok (tf, ord') ∧
      ValidCliqueTree L.n edges tf ord' :=
  post_single_spec L t0 t1 t s h hok hrel hfr hcov hinv h1 ordering ho edges

/-- [S] `post_process_merge` WHEN AT LEAST TWO CLIQUES ARE LEFT: no panic
(`clique_intersections` — no weight is the `-1` sentinel afterwards —, `kruskal`,
`determine_parent_cliques` — THE ROOT CLIQUE IS LIVE —, `post_order`, `split_cliques`); and if the
supernodes of the result are pairwise disjoint (`snDisjointB`, the running-intersection property
of the spanning tree) and the live ones non-empty (`snLiveNonemptyB`: no live clique swallowed by
its tree parent; neither is a theorem, and without the second the statement is false — see
`Lemmas/ChordalCGPostMulti.lean`) the result is a clique tree in the state `BridgePre` in which
`SparsityPattern::new` relabels it: `CTInv` (separator = clique ∩ parent clique, children =
inverse of parents, …), `snode_post` lists exactly the live cliques, children before parents, the
unique root last, every structural non-zero of `L` inside a live clique. -/
theorem clique_graph_post_multi {L : LPat} (h : L.Filled) {t0 t1 t : SuperNodeTree}
    {s : CGStrategy} (hok : SnTreeOk L t0) (hrel : CGInitRel t0 t1) (hfr : CGFrame t1 t)
    (hcov : CGCover t1 t) (hinv : CGInv t0.snode.size L.n s t) (h2 : 2 ≤ t.nCliques) :
    ∃ s' t', s.postProcessMerge t = .ok (s', t') ∧
      (snDisjointB t' = true → snLiveNonemptyB t' = true →
        ∃ ord : Nat → Nat, BridgePre L t' ord) :=
  post_multi_spec L t0 t1 t s h hok hrel hfr hcov hinv h2

/-- [S] **`merge_cliques` (clique-graph strategy) NEVER PANICS** on the tree of a filled pattern
with ≥ 2 cliques: `initialise`, the loop within its fuel, `post_process_merge`. -/
theorem clique_graph_merge_cliques_no_panic {L : LPat} (h : L.Filled) {t0 : SuperNodeTree}
    (hok : SnTreeOk L t0) (h2 : 2 ≤ t0.snode.size) :
    ∃ t', CGStrategy.mergeCliques t0 = .ok t' :=
  merge_cliques_cg_no_panic h hok h2

/-- non-vacuity: `merge_cliques` runs on the tree of `exL` -/
example : ∃ t0 t', SuperNodeTree.new exL = .ok t0 ∧ CGStrategy.mergeCliques t0 = .ok t' := by
  obtain ⟨t0, hnew, hok, h2⟩ := exL_two_cliques
  obtain ⟨t', h⟩ := clique_graph_merge_cliques_no_panic exL_filled hok h2
  exact ⟨t0, t', hnew, h⟩

/-
  FULL STATEMENT (NOT PROVED AT THIS POINT OF THE FILE; PROVED AS `analysis_clique_graph_valid` IN THE LAST
  SECTION, the three missing ingredients listed here having been supplied):
    theorem analysis_clique_graph_valid {L : LPat} (h : L.Filled) (ordering : Array Nat)
        (ho : ordering.toList.Perm (List.range L.n)) (edges : List (Nat × Nat))
        (hedges : ∀ e ∈ edges, …) :
        ∃ tf ord', sparsityPatternNewCG L ordering = .ok (tf, ord') ∧
          ValidCliqueTree L.n edges tf ord'
  Missing link: RUNNING INTERSECTION of the spanning tree that `kruskal` picks in the merged clique
  graph, i.e. that the supernodes `clique \ parent clique` produced by `split_cliques` are pairwise
  disjoint — and, its companion, that none of them is empty (no live clique contained in the clique
  of its tree parent; true as long as the live cliques form an antichain,
  `CGPostDesc.nonempty_of_antichain`, which merging along a junction-tree edge preserves).  It needs (1) that `kruskal` returns a MAXIMUM-weight spanning tree (proved so far:
  a spanning tree), (2) that a maximum-weight spanning tree of a graph weighted by `|Cᵢ ∩ Cⱼ|` that
  contains a junction tree is a junction tree, and (3) that the merged graph still contains a
  junction tree of the merged cliques — the theorem of Garstka–Cannon–Goulart on permissible
  merges, for which the loop invariant would have to carry "every stored entry lies on a junction
  tree inside the graph".  In the partial theorem below the two links are the executable
  hypotheses `cgRipB L = true` and `cgNonemptyB L = true`, evaluated by the driver on every
  generated pattern (channel `cg.trace`, fields `rip`, `ne`) and, independently, on the
  implementation's tree by the harness.
-/

/-- [S] **C17 FOR THE STRATEGY `clique_graph`, up to two tested links** (`…_partial`): for a filled
pattern `L`, an `ordering` that is a permutation and pattern entries inside `L`, if the supernodes
of the tree returned by `merge_cliques` are pairwise disjoint (`cgRipB L`) and the live ones
non-empty (`cgNonemptyB L`), then
`SparsityPattern::new(L, ordering, "clique_graph")` returns WITHOUT PANIC a tree and an ordering
that satisfy `ValidCliqueTree` — every clause of the harness oracle — and the executable checker
accepts them.  Everything else is a theorem: the reduced clique graph contains the supernode tree,
the loop invariant, termination, the hypotheses of the Kruskal stage at exit, the parent
structure, the post-order, separator = clique ∩ parent clique, coverage (merged cliques are
unions, `CGCover`), the relabelling and the block sizes. -/
theorem analysis_clique_graph_valid_partial {L : LPat} (h : L.Filled) (ordering : Array Nat)
    (ho : ordering.toList.Perm (List.range L.n)) (edges : List (Nat × Nat))
    (hedges : ∀ e ∈ edges, ∃ a b, a < L.n ∧ b < L.n ∧ ordering[a]? = some e.1 ∧
        ordering[b]? = some e.2 ∧ (b ∈ L.col a ∨ a ∈ L.col b))
    (hrip : cgRipB L = true) (hne : cgNonemptyB L = true) :
    ∃ tf ord', sparsityPatternNewCG L ordering = .ok (tf, ord') ∧
      ValidCliqueTree L.n edges tf ord' ∧ validCliqueTreeB L.n edges tf ord' = true :=
  analysis_cg_valid_partial h ordering ho edges hedges hrip hne

/-- [S] the same with every hypothesis in the executable form the driver evaluates on each
generated case (`hyp.analysis`: `filled=1 perm=1 edges=1`; `cg.trace`: `rip=1 ne=1`). -/
theorem analysis_clique_graph_valid_of_tests (L : LPat) (ordering : Array Nat)
    (edges : List (Nat × Nat)) (h1 : L.filledB = true) (h2 : clOrderingPerm L.n ordering = true)
    (h3 : L.edgesInB ordering edges = true) (h4 : cgRipB L = true)
    (h5 : cgNonemptyB L = true) :
    ∃ tf ord', sparsityPatternNewCG L ordering = .ok (tf, ord') ∧
      validCliqueTreeB L.n edges tf ord' = true := by
  obtain ⟨tf, ord', a, _, b⟩ := analysis_clique_graph_valid_partial ((LPat.filledB_iff L).1 h1)
    ordering ((clOrderingPerm_iff L.n ordering).1 h2) edges (LPat.edgesInB_sound L ordering edges h3)
    h4 h5
  exact ⟨tf, ord', a, b⟩


/-! ## the clique-graph strategy, JUNCTION-TREE LINK (round 5 follow-up) — `Lemmas/ChordalJunctionTree.lean`,
`ChordalForestCount.lean`, `ChordalKruskalMax.lean`, `ChordalJTContract.lean`, `ChordalCGJunction*.lean`,
`ChordalCGInterWeights.lean`, `ChordalCGRipDisjoint.lean`, `ChordalCGAntichainInit.lean`

Vocabulary: cliques are indices from a duplicate-free list `L`, the family is the membership function
`cl c v`, graphs and forests are lists of pairs (`Conn`, `ForestFrom []`); `JT.RIP cl L T` is the
running-intersection property of the edge list `T` (for every vertex `v` the cliques containing `v`
are connected by the edges of `T` both of whose ends contain `v`), `JT.w cl nv e = |C_{e.1} ∩ C_{e.2}|`,
`JT.weight` the total weight, `JT.bound = Σ_v (|{c : v ∈ C_c}| − 1)`.  For the model, `cgCl t` is the
membership function of the clique sets of the running strategy, `CGHasJT s t J` says that `J` is a
junction tree of the live cliques made of stored entries of the edge matrix, `CGAntichain t` that no
live clique is contained in another one. -/

/-- [S] **EVERY FOREST ON THE CLIQUES WEIGHS AT MOST `Σ_v (|L_v| − 1)`** (for each vertex `v` the edges
both of whose ends contain `v` form a forest on the cliques containing `v`). -/
theorem junction_tree_weight_le_bound {cl : Nat → Nat → Bool} {L : List Nat} (hL : L.Nodup) (nv : Nat)
    {T : List (Nat × Nat)} (hT : ForestFrom [] T) (hTL : ∀ e ∈ T, e.1 ∈ L ∧ e.2 ∈ L) :
    JT.weight cl nv T ≤ JT.bound cl nv L :=
  JT.weight_le_bound hL nv hT hTL

/-- [S] **A FOREST HAS THE RUNNING-INTERSECTION PROPERTY IFF ITS WEIGHT IS `Σ_v (|L_v| − 1)`** (all
cliques inside the vertices `0..nv`). -/
theorem junction_tree_iff_weight {cl : Nat → Nat → Bool} {L : List Nat} (hL : L.Nodup) (nv : Nat)
    (hnv : ∀ c ∈ L, ∀ v, cl c v = true → v < nv) {T : List (Nat × Nat)}
    (hT : ForestFrom [] T) (hTL : ∀ e ∈ T, e.1 ∈ L ∧ e.2 ∈ L) :
    JT.RIP cl L T ↔ JT.weight cl nv T = JT.bound cl nv L :=
  JT.rip_iff_weight_eq hL nv hnv hT hTL

/-- non-vacuity: the path of three cliques `{0,1}`, `{1,2}`, `{2,3}` with the tree `1—0`, `2—1` -/
example : JT.weight JT.Ex.cl3 4 JT.Ex.J3 = JT.bound JT.Ex.cl3 4 [0, 1, 2] :=
  (junction_tree_iff_weight (by decide) 4 (by
    intro c _ v hv
    simp only [JT.Ex.cl3] at hv
    by_contra h
    have : ∀ k : Nat, k < 4 → (v == k) = false := fun k hk => by simp; omega
    simp [this 0, this 1, this 2, this 3] at hv) JT.Ex.J3_forest (by decide)).1 JT.Ex.J3_rip

/-- [S] **(Jensen–Jensen / Shibata) EVERY MAXIMUM-WEIGHT FOREST OF A GRAPH THAT CONTAINS A JUNCTION
TREE IS A JUNCTION TREE**: `G` any edge list (the clique graph), `J ⊆ G` an acyclic edge list with the
running-intersection property, `T` an acyclic edge list whose weight `Σ |Cᵢ ∩ Cⱼ|` is maximal among
the acyclic sublists of `G`; then `T` has the running-intersection property. -/
theorem junction_tree_of_max_weight {cl : Nat → Nat → Bool} {L : List Nat} (hL : L.Nodup) (nv : Nat)
    (hnv : ∀ c ∈ L, ∀ v, cl c v = true → v < nv) (G : List (Nat × Nat)) {J T : List (Nat × Nat)}
    (hJ : ForestFrom [] J) (hJL : ∀ e ∈ J, e.1 ∈ L ∧ e.2 ∈ L) (hJG : ∀ e ∈ J, e ∈ G)
    (hrip : JT.RIP cl L J)
    (hT : ForestFrom [] T) (hTL : ∀ e ∈ T, e.1 ∈ L ∧ e.2 ∈ L)
    (hmax : ∀ F, ForestFrom [] F → (∀ e ∈ F, e ∈ G) → JT.weight cl nv F ≤ JT.weight cl nv T) :
    JT.RIP cl L T :=
  JT.rip_of_max_weight hL nv hnv G hJ hJL hJG hrip hT hTL hmax

/-- non-vacuity: all hypotheses hold for the three-clique path inside the triangle `JT.Ex.G3`
(junction tree `J3`, the other listing `[(2,1), (1,0)]` as the maximum-weight forest) — see the
second `example` at the end of `Lemmas/ChordalJunctionTree.lean`; here the junction tree itself -/
example : JT.RIP JT.Ex.cl3 [0, 1, 2] JT.Ex.J3 := by
  have hnv : ∀ c ∈ [0, 1, 2], ∀ v, JT.Ex.cl3 c v = true → v < 4 := by
    intro c _ v hv
    simp only [JT.Ex.cl3] at hv
    by_contra h
    have : ∀ k : Nat, k < 4 → (v == k) = false := fun k hk => by simp; omega
    simp [this 0, this 1, this 2, this 3] at hv
  refine junction_tree_of_max_weight (by decide) 4 hnv JT.Ex.G3 JT.Ex.J3_forest (by decide)
    (by decide) JT.Ex.J3_rip JT.Ex.J3_forest (by decide) ?_
  intro F hF hFG
  have hb := junction_tree_weight_le_bound (cl := JT.Ex.cl3) (L := [0, 1, 2]) (by decide) 4 hF (by
    intro e he
    have := hFG e he
    simp only [JT.Ex.G3, List.mem_cons, List.not_mem_nil, or_false] at this
    rcases this with rfl | rfl | rfl <;> decide)
  have : JT.bound JT.Ex.cl3 4 [0, 1, 2] = JT.weight JT.Ex.cl3 4 JT.Ex.J3 := by decide
  omega

/-- [S] **ACYCLIC IFF `#classes + #edges = #vertices`** — acyclicity (`ForestFrom []`, defined along
the listing order) does not depend on the order in which the edges are listed. -/
theorem forest_iff_class_count {L : List Nat} (hL : L.Nodup) {ms : List (Nat × Nat)}
    (hin : ∀ e ∈ ms, e.1 ∈ L ∧ e.2 ∈ L) {reps : List Nat} (hr : Reps ms L reps) :
    ForestFrom [] ms ↔ reps.length + ms.length = L.length :=
  forest_iff_count hL hin hr

/-- non-vacuity: the path `1—0`, `2—1` has the single class `[0]` -/
example : ∃ reps, Reps [(1, 0), (2, 1)] [0, 1, 2] reps :=
  reps_exists (by decide) _ (by decide)

/-- [S] **`kruskal` RETURNS A MAXIMUM-WEIGHT SPANNING FOREST**: on a well-formed edge matrix whose
entries join the `numCliques` live cliques `Lv` and connect them, with stored weights `w(row, col)`,
every acyclic list of stored entries weighs at most as much as the marked tree `kruskalTree`.
(Underneath, `kruskal_heavy`: every stored entry is spanned by marked entries at least as heavy — the
greedy invariant, also across the early `break`.) -/
theorem kruskal_maximum_weight {E : IMat} (h : E.WFE) {numCliques : Nat} (hnc : 0 < numCliques)
    {Lv : List Nat} (hLv : Lv.Nodup) (hlen : Lv.length = numCliques)
    (hedges : ∀ e ∈ E.edges, e.1 ∈ Lv ∧ e.2 ∈ Lv)
    (hconn : ∀ u ∈ Lv, ∀ v ∈ Lv, Conn E.edges u v)
    (w : Nat × Nat → Nat)
    (hw : ∀ k, k < E.rowval.size →
      E.nzval.getD k 0 = Int.ofNat (w (E.rowval.getD k 0, E.colIdx.getD k 0))) :
    ∀ F, ForestFrom [] F → (∀ e ∈ F, e ∈ E.edges) →
      (F.map w).sum ≤ ((kruskalTree E numCliques).map w).sum :=
  kruskal_max_weight h hnc hLv hlen hedges hconn w hw

/-- non-vacuity: the weighted triangle (weights 3, 2, 1): the forest `[(2,1)]` weighs at most as
much as the tree `kruskal` marks -/
example : ([(2, 1)].map KrEx.triW).sum ≤ ((kruskalTree KrEx.tri 3).map KrEx.triW).sum := by
  obtain ⟨h1, h2, h3, h4, h5, h6, h7⟩ := KrEx.tri_hyps
  refine kruskal_maximum_weight h1 h2 h3 h4 h5 h6 KrEx.triW h7 [(2, 1)] ?_ ?_
  · exact ⟨fun h => by have := (conn_nil_iff _ _).1 h; omega, trivial⟩
  · rw [KrEx.tri_edges]; decide

/-- [S] **CONTRACTING AN EDGE OF A JUNCTION TREE GIVES A JUNCTION TREE OF THE MERGED FAMILY**: `J`
acyclic on `L` with the running-intersection property for `cl`, `{a, b}` an edge of `J`; then
`JT.contract a b J` (the edge removed, `b` renamed to `a`) is acyclic, lives on `L` without `b`, and
has the running-intersection property for the family in which `C_a ∪ C_b` replaces `C_a`, `C_b`. -/
theorem junction_tree_contract (cl : Nat → Nat → Bool) (L : List Nat) (J : List (Nat × Nat))
    (a b : Nat) (hL : L.Nodup) (hab : a ≠ b) (ha : a ∈ L) (hb : b ∈ L) (hJ : ForestFrom [] J)
    (hJL : ∀ e ∈ J, e.1 ∈ L ∧ e.2 ∈ L) (hrip : JT.RIP cl L J) (hedge : (a, b) ∈ J ∨ (b, a) ∈ J) :
    ForestFrom [] (JT.contract a b J) ∧
    (∀ e ∈ JT.contract a b J, e.1 ∈ L.erase b ∧ e.2 ∈ L.erase b) ∧
    JT.RIP (JT.mergeCl cl a b) (L.erase b) (JT.contract a b J) :=
  JT.contract_spec cl L J a b hL hab ha hb hJ hJL hrip hedge

/-- [S] **… AND THE MERGED FAMILY IS STILL AN ANTICHAIN** (no clique contained in another one). -/
theorem junction_tree_contract_antichain (cl : Nat → Nat → Bool) (L : List Nat)
    (J : List (Nat × Nat)) (a b : Nat) (hL : L.Nodup) (hab : a ≠ b) (ha : a ∈ L) (hb : b ∈ L)
    (hJ : ForestFrom [] J) (hJL : ∀ e ∈ J, e.1 ∈ L ∧ e.2 ∈ L) (hrip : JT.RIP cl L J)
    (hedge : (a, b) ∈ J ∨ (b, a) ∈ J) (hanti : JT.Antichain cl L) :
    JT.Antichain (JT.mergeCl cl a b) (L.erase b) :=
  JT.antichain_contract cl L J a b hL hab ha hb hJ hJL hrip hedge hanti

/-- non-vacuity: contracting `1—0` in the three-clique path leaves `2—1` on the cliques `[1, 2]` -/
example : JT.contract 1 0 JT.Ex.J3 = [(2, 1)] ∧
    JT.RIP (JT.mergeCl JT.Ex.cl3 1 0) [1, 2] (JT.contract 1 0 JT.Ex.J3) ∧
    JT.Antichain (JT.mergeCl JT.Ex.cl3 1 0) [1, 2] := by
  have h := junction_tree_contract JT.Ex.cl3 [0, 1, 2] JT.Ex.J3 1 0 (by decide) (by decide)
    (by decide) (by decide) JT.Ex.J3_forest (by decide) JT.Ex.J3_rip (.inl (by decide))
  exact ⟨by decide, h.2.2, junction_tree_contract_antichain JT.Ex.cl3 [0, 1, 2] JT.Ex.J3 1 0
    (by decide) (by decide) (by decide) (by decide) JT.Ex.J3_forest (by decide) JT.Ex.J3_rip
    (.inl (by decide)) JT.Ex.cl3_antichain⟩

/-- [S] `clique_intersections` WRITES `|C_row ∩ C_col|` at every stored entry (so the weights
`kruskal` sorts by are the junction-tree weights `JT.w (cgCl t) nv`), no panic, pattern kept. -/
theorem clique_intersections_weights {E : IMat} (h : E.WFE) {t : SuperNodeTree}
    (hsz : E.n ≤ t.snode.size) (nv : Nat) (hnd : ∀ c, (t.snode.getD c #[]).toList.Nodup)
    (hlt : ∀ c, ∀ v ∈ (t.snode.getD c #[]).toList, v < nv) :
    ∃ nz, cliqueIntersections E t.snode = .ok { E with nzval := nz } ∧ nz.size = E.rowval.size ∧
      (∀ k, k < nz.size → 0 ≤ nz.getD k 0) ∧
      ∀ k, k < E.rowval.size → nz.getD k 0 =
        Int.ofNat (JT.w (cgCl t) nv (E.rowval.getD k 0, E.colIdx.getD k 0)) :=
  cliqueIntersections_jtw h hsz nv hnd hlt

/-- non-vacuity: `intersect_dim` counts the common elements -/
example : intersectDim #[0, 1, 2] #[1, 2, 5] = 2 := by
  rw [intersectDim_eq_count #[0, 1, 2] #[1, 2, 5] (by decide) (by decide) 3 (by decide)]; rfl

/-- [S] **AFTER `initialise` THE EDGE MATRIX CONTAINS A JUNCTION TREE** — the supernode tree of
`SuperNodeTree::new`, as the stored entries `(max c p, min c p)` for every non-root clique `c` with
parent `p` — **AND THE CLIQUES FORM AN ANTICHAIN** (the supernodes of `pothen_sun` are maximal: a
representative vertex has no child in the elimination tree whose column count is one larger). -/
theorem clique_graph_initialise_junction_tree {L : LPat} (h : L.Filled) {t0 : SuperNodeTree}
    (hnew : SuperNodeTree.new L = .ok t0) (hok : SnTreeOk L t0) (h2 : 2 ≤ t0.snode.size) :
    ∃ s1 t1, CGStrategy.new.initialise t0 = .ok (s1, t1) ∧ CGHasJT s1 t1 (cgTreeEdges t0) ∧
      CGAntichain t1 := by
  obtain ⟨s1, t1, hi, hJ⟩ :=
    initialise_hasJT newFromTriplets_spec reduced_ok reduced_tree_edge h hok h2
  obtain ⟨s1', t1', hi', _, _, hrel⟩ := initialise_ok L t0 h hok h2
  rw [hi] at hi'
  obtain ⟨rfl, rfl⟩ := Prod.mk.inj (Except.ok.inj hi')
  exact ⟨s1, t1, hi, hJ, initialise_antichain h hnew hrel⟩

/-- non-vacuity: on the tree of `exL` — a state with a junction tree inside the graph -/
example : ∃ s t J, CGHasJT s t J ∧ CGAntichain t := by
  obtain ⟨t0, hnew, hok, h2⟩ := exL_two_cliques
  obtain ⟨s1, t1, _, hJ, ha⟩ := clique_graph_initialise_junction_tree exL_filled hnew hok h2
  exact ⟨s1, t1, _, hJ, ha⟩

/-- [S] **ONE MERGE ALONG A JUNCTION-TREE EDGE KEEPS A JUNCTION TREE INSIDE THE GRAPH AND THE
ANTICHAIN PROPERTY**: under the loop invariant, if the merged entry `(c1, cr)` belongs to a junction
tree `J` made of stored entries, then after `merge_two_cliques` + `update_strategy` the contraction
`JT.contract c1 cr J` is a junction tree of the new live cliques made of stored entries of the new
edge matrix, and the live cliques still form an antichain. -/
theorem clique_graph_merge_junction_tree {N nv : Nat} {s : CGStrategy} {t : SuperNodeTree}
    (hinv : CGInv N nv s t) {c1 cr : Nat} (he : (s.edges.entry c1 cr).isSome = true)
    {J : List (Nat × Nat)} (hJ : CGHasJT s t J) (hedge : (c1, cr) ∈ J)
    {t' : SuperNodeTree} {s' : CGStrategy} (hm : s.mergeTwoCliques t (c1, cr) = .ok t')
    (hu : s.updateStrategy t' (c1, cr) true = .ok s') :
    CGHasJT s' t' (JT.contract c1 cr J) ∧ (CGAntichain t → CGAntichain t') :=
  ⟨cg_merge_hasJT hinv he hJ hedge hm hu, fun ha => cg_merge_antichain hinv he hJ hedge ha hm⟩

/-- [S] **THE LOOP KEEPS A JUNCTION TREE INSIDE THE GRAPH** provided every merge it performs contracts
an edge lying on a junction tree inside the current graph (`CGStrategy.loopOnJT`: the loop of
`merge_cliques` with the condition `CGOnJT` collected at every accepted candidate): the returned
state has a junction tree inside its edge matrix, and the antichain property survives. -/
theorem clique_graph_loop_junction_tree {N nv : Nat} (fuel : Nat) {s : CGStrategy}
    {t : SuperNodeTree} (hinv : CGInv N nv s t) (h2 : 2 ≤ t.nCliques) (hJ : ∃ J, CGHasJT s t J)
    (hon : s.loopOnJT fuel t) {s' : CGStrategy} {t' : SuperNodeTree}
    (hl : CGStrategy.loop fuel s t = .ok (s', t')) :
    (∃ J', CGHasJT s' t' J') ∧ (CGAntichain t → CGAntichain t') :=
  cg_loop_hasJT traverse_spec evaluate_spec merge_update_ok merge_hasJT_ok merge_antichain_ok N nv
    fuel s t hinv h2 hJ hon s' t' hl

/-- non-vacuity: a stopped strategy returns at once; the junction tree of `initialise` on `exL` -/
example : ∃ N nv s t, CGInv N nv s t ∧ 2 ≤ t.nCliques ∧ (∃ J, CGHasJT s t J) ∧
    ({ s with stop := true } : CGStrategy).loopOnJT 3 t := by
  obtain ⟨t0, hnew, hok, h2⟩ := exL_two_cliques
  obtain ⟨s1, t1, hi, hJ, _⟩ := clique_graph_initialise_junction_tree exL_filled hnew hok h2
  obtain ⟨s1', t1', hi', _, hinv, hrel⟩ := clique_graph_initialise exL_filled hok h2
  rw [hi] at hi'
  obtain ⟨rfl, rfl⟩ := Prod.mk.inj (Except.ok.inj hi')
  exact ⟨_, _, s1, t1, hinv, by rw [hrel.ncl, hok.ncl]; exact h2, ⟨_, hJ⟩,
    CGStrategy.loopOnJT_of_stop _ _ _ rfl⟩

/-- [S] **KRUSKAL'S TREE HAS THE RUNNING-INTERSECTION PROPERTY WHEN THE GRAPH CONTAINS A JUNCTION
TREE** (`post_process_merge` with ≥ 2 cliques left): under the loop invariant, if the edge matrix
contains a junction tree of the live cliques, then `post_process_merge` returns without panic the
tree described by `CGPostDesc`, the spanning tree `kruskalTree` of the matrix re-weighted by
`clique_intersections` has the running-intersection property for the clique sets, and THE SUPERNODES
`clique \ parent clique` OF THE RESULT ARE PAIRWISE DISJOINT (`snDisjointB` — so far a tested link). -/
theorem clique_graph_kruskal_running_intersection {N nv : Nat} {s : CGStrategy} {t : SuperNodeTree}
    (hinv : CGInv N nv s t) (h2 : 2 ≤ t.nCliques) (hch : t.snodeChildren = Array.replicate N #[])
    (hsep : t.separators.size = N)
    {v0 c0 : Nat} (hpost : t.post.back? = some v0) (hv0 : v0 ∈ (t.snode.getD c0 #[]).toList)
    {J : List (Nat × Nat)} (hJ : CGHasJT s t J) :
    ∃ s' t' nz, s.postProcessMerge t = .ok (s', t') ∧
      CGPostDesc N t t' (dpcRoot t.snode v0) ∧
      cliqueIntersections s.edges t.snode = .ok { s.edges with nzval := nz } ∧
      JT.RIP (cgCl t) (cgLiveList t) (kruskalTree { s.edges with nzval := nz } t.nCliques) ∧
      snDisjointB t' = true :=
  kruskal_rip_of_hasJT hinv h2 hch hsep hpost hv0 hJ

/-- non-vacuity: the state after `initialise` on the tree of `exL` satisfies the hypotheses (loop
invariant, ≥ 2 cliques, no children, as many separators as cliques, the last vertex of the
post-order lies in a clique, a junction tree inside the graph); the conclusion for it -/
example : ∃ (s : CGStrategy) (t : SuperNodeTree) (s' : CGStrategy) (t' : SuperNodeTree),
    s.postProcessMerge t = .ok (s', t') ∧ snDisjointB t' = true := by
  obtain ⟨t0, hnew, hok, h2⟩ := exL_two_cliques
  obtain ⟨s1, t1, hi, hJ, _⟩ := clique_graph_initialise_junction_tree exL_filled hnew hok h2
  obtain ⟨s1', t1', hi', _, hinv, hrel⟩ := clique_graph_initialise exL_filled hok h2
  rw [hi] at hi'
  obtain ⟨rfl, rfl⟩ := Prod.mk.inj (Except.ok.inj hi')
  obtain ⟨s', t', _, hp, _, hd, _⟩ := post_multi_desc_jt exL t0 t1 t1 s1 exL_filled hok hrel
    (CGFrame.refl t1) (CGCover.refl t1) hinv (by rw [hrel.ncl, hok.ncl]; exact h2) hJ
  exact ⟨s1, t1, s', t', hp, hd⟩

/-
  FULL STATEMENT: `analysis_clique_graph_valid`, proved in the last section.  What the two theorems
  below leave open — and the last section supplies — is a single proposition about the run of the
  model: `CGMergesOnJT L` — EVERY MERGE
  THE LOOP PERFORMS CONTRACTS AN EDGE THAT LIES ON A JUNCTION TREE INSIDE THE CURRENT CLIQUE GRAPH, i.e.
  that `ispermissible` + "weight ≥ 0" only ever accept such edges (the theorem of Habib–Stacho /
  Garstka–Cannon–Goulart; note that `update_strategy` contracts the graph WITHOUT removing the edges
  that leave the reduced clique graph, so the statement needed is about the graph the code really
  keeps).  It holds trivially for patterns with at most two cliques (`clique_graph_merges_on_jt_of_two`).
-/

/-- [S] **C17 FOR THE STRATEGY `clique_graph`, `cgRipB` REPLACED BY A PROPOSITION ABOUT THE EXIT GRAPH**
(`…_partial`): for a filled pattern `L`, a permutation `ordering` and pattern entries inside `L`, if
at the exit of the merge loop the edge matrix contains a junction tree of the live cliques
(`CGExitJT L`) and the live supernodes of the returned tree are non-empty (`cgNonemptyB L`, the second
tested link), `SparsityPattern::new(L, ordering, "clique_graph")` returns WITHOUT PANIC a tree and an
ordering that satisfy `ValidCliqueTree`.  The running-intersection property of Kruskal's spanning tree
is now a consequence: `kruskal` is maximum-weight, a maximum-weight forest of a graph containing a
junction tree is a junction tree, running intersection makes the supernodes disjoint. -/
theorem analysis_clique_graph_valid_exitjt_partial {L : LPat} (h : L.Filled) (ordering : Array Nat)
    (ho : ordering.toList.Perm (List.range L.n)) (edges : List (Nat × Nat))
    (hedges : ∀ e ∈ edges, ∃ a b, a < L.n ∧ b < L.n ∧ ordering[a]? = some e.1 ∧
        ordering[b]? = some e.2 ∧ (b ∈ L.col a ∨ a ∈ L.col b))
    (hjt : CGExitJT L) (hne : cgNonemptyB L = true) :
    ∃ tf ord', sparsityPatternNewCG L ordering = .ok (tf, ord') ∧
      ValidCliqueTree L.n edges tf ord' ∧ validCliqueTreeB L.n edges tf ord' = true :=
  analysis_cg_valid_exitjt_partial h ordering ho edges hedges hjt hne

/-- [S] **C17 FOR THE STRATEGY `clique_graph` FROM A SINGLE HYPOTHESIS ON THE MERGES**
(`…_partial`): for a filled pattern `L`, a permutation `ordering` and pattern entries inside `L`, if
every merge the loop performs contracts an edge that lies on a junction tree inside the current
clique graph (`CGMergesOnJT L`), `SparsityPattern::new(L, ordering, "clique_graph")` returns WITHOUT
PANIC a tree and an ordering that satisfy `ValidCliqueTree`.  NEITHER TESTED LINK IS A HYPOTHESIS ANY
MORE: the reduced clique graph contains the supernode tree (a junction tree) and the initial cliques
are maximal; contracting a junction-tree edge keeps a junction tree inside the graph and the cliques
an antichain; at exit Kruskal's maximum-weight tree is a junction tree (disjoint supernodes) and in an
antichain no live clique is swallowed by its tree parent (non-empty supernodes). -/
theorem analysis_clique_graph_valid_merges_partial {L : LPat} (h : L.Filled) (ordering : Array Nat)
    (ho : ordering.toList.Perm (List.range L.n)) (edges : List (Nat × Nat))
    (hedges : ∀ e ∈ edges, ∃ a b, a < L.n ∧ b < L.n ∧ ordering[a]? = some e.1 ∧
        ordering[b]? = some e.2 ∧ (b ∈ L.col a ∨ a ∈ L.col b))
    (hm : CGMergesOnJT L) :
    ∃ tf ord', sparsityPatternNewCG L ordering = .ok (tf, ord') ∧
      ValidCliqueTree L.n edges tf ord' ∧ validCliqueTreeB L.n edges tf ord' = true :=
  analysis_cg_valid_merges_partial h ordering ho edges hedges hm

/-- [S] the two propositions about the run are linked: if every merge contracts a junction-tree
edge, the exit graph contains a junction tree and no live supernode of the result is empty -/
theorem clique_graph_exit_of_merges {L : LPat} (h : L.Filled) (hm : CGMergesOnJT L) :
    CGExitJT L ∧ CGExitNonempty L :=
  ⟨cg_exitJT_of_merges_ok h hm, cg_exitNonempty_of_merges h hm⟩

/-- [S] non-vacuity of `CGMergesOnJT` (hence of `CGExitJT`): it HOLDS for every filled pattern whose
supernode tree has at most two cliques — the only possible stored entry `(1, 0)` is the edge of the
supernode tree -/
theorem clique_graph_merges_on_jt_of_two {L : LPat} (h : L.Filled)
    (hsz : ∀ t0, SuperNodeTree.new L = .ok t0 → t0.snode.size ≤ 2) : CGMergesOnJT L :=
  cg_mergesOnJT_of_two h hsz

/-- non-vacuity of `CGMergesOnJT` on a concrete pattern: the path `0 — 1 — 2` (cliques `{0,1}`,
`{1,2}`; `exP3_size_le`: its supernode tree has at most two cliques because vertex `2` cannot be a
representative) -/
example : CGMergesOnJT exP3 := clique_graph_merges_on_jt_of_two exP3_filled exP3_size_le

/-- non-vacuity of `analysis_clique_graph_valid_merges_partial`: every hypothesis holds for the path
`0 — 1 — 2` with the identity ordering and the pattern entry `(0, 1)` -/
example : ∃ tf ord', sparsityPatternNewCG exP3 #[0, 1, 2] = .ok (tf, ord') ∧
    ValidCliqueTree exP3.n [(0, 1)] tf ord' := by
  obtain ⟨tf, ord', h1, h2, _⟩ := analysis_clique_graph_valid_merges_partial exP3_filled #[0, 1, 2]
    (List.Perm.refl _) [(0, 1)]
    (by
      intro e he
      simp only [List.mem_singleton] at he
      subst he
      exact ⟨0, 1, by decide, by decide, rfl, rfl, .inl (by decide)⟩)
    (clique_graph_merges_on_jt_of_two exP3_filled exP3_size_le)
  exact ⟨tf, ord', h1, h2⟩

/-- non-vacuity of `analysis_clique_graph_valid_exitjt_partial`: both hypotheses hold for the path
(`CGExitJT` and `cgNonemptyB` are consequences of `CGMergesOnJT`) -/
example : CGExitJT exP3 ∧ cgNonemptyB exP3 = true := by
  obtain ⟨h1, h2⟩ := clique_graph_exit_of_merges exP3_filled
    (clique_graph_merges_on_jt_of_two exP3_filled exP3_size_le)
  exact ⟨h1, cgNonemptyB_of_exit exP3_filled h2⟩


/-! ### the remaining hypothesis in terms of the cliques only: separating pairs

`JT.SepPair cl L a b`: no chain of cliques of `L` that all contain `S = C_a ∩ C_b`, consecutive ones
meeting in a vertex outside `S`, leads from `a` to `b` — the adjacency of the reduced clique graph
(Habib–Stacho) of the family. -/

/-- [S] **EXCHANGE LEMMA**: a separating pair `(a, b)` of a family that has a junction tree `J` is an
edge of a junction tree that otherwise uses edges of `J` only (proved without paths: greedy
maximum-weight forest of `J + (a, b)` with priority for `(a, b)`; in a forest the connection between
two vertices through two sub-forests goes through their intersection). -/
theorem separating_pair_exchange {cl : Nat → Nat → Bool} {L : List Nat} (hL : L.Nodup) (nv : Nat)
    (hnv : ∀ c ∈ L, ∀ v, cl c v = true → v < nv) {J : List (Nat × Nat)}
    (hJ : ForestFrom [] J) (hJL : ∀ e ∈ J, e.1 ∈ L ∧ e.2 ∈ L) (hrip : JT.RIP cl L J)
    {a b : Nat} (ha : a ∈ L) (hb : b ∈ L) (hab : a ≠ b) (hsep : JT.SepPair cl L a b) :
    ∃ J', ForestFrom [] J' ∧ (∀ e ∈ J', e ∈ J ∨ e = (a, b)) ∧ JT.RIP cl L J' ∧ (a, b) ∈ J' :=
  JT.swap_spec hL nv hnv hJ hJL hrip ha hb hab hsep

/-- [S] **… AND CONVERSELY AN EDGE OF A JUNCTION TREE IS A SEPARATING PAIR.** -/
theorem junction_tree_edge_separating {cl : Nat → Nat → Bool} {L : List Nat} (hL : L.Nodup)
    {J : List (Nat × Nat)} (hJ : ForestFrom [] J) (hJL : ∀ e ∈ J, e.1 ∈ L ∧ e.2 ∈ L)
    (hrip : JT.RIP cl L J) {a b : Nat} (hE : (a, b) ∈ J ∨ (b, a) ∈ J) : JT.SepPair cl L a b :=
  JT.sep_of_edge hL hJ hJL hrip hE

/-- non-vacuity: the star `{0,1}`, `{0,2}`, `{0,3}` with the tree `1—0`, `2—0`: the pair `(2, 1)` is
separating and not in the tree; the exchange produces a junction tree containing it -/
example : (2, 1) ∉ JT.Ex.Jstar ∧ ∃ J', ForestFrom [] J' ∧ JT.RIP JT.Ex.star [0, 1, 2] J' ∧
    (2, 1) ∈ J' ∧ JT.SepPair JT.Ex.star [0, 1, 2] 1 0 := by
  have hnv : ∀ c ∈ [0, 1, 2], ∀ v, JT.Ex.star c v = true → v < 4 := by
    intro c hc v hv
    simp only [List.mem_cons, List.not_mem_nil, or_false] at hc
    simp only [JT.Ex.star, Bool.or_eq_true, beq_iff_eq] at hv
    omega
  obtain ⟨J', h1, _, h3, h4⟩ := separating_pair_exchange (by decide) 4 hnv JT.Ex.Jstar_forest
    (by decide) JT.Ex.Jstar_rip (by decide) (by decide) (by decide) JT.Ex.star_sep
  exact ⟨by decide, J', h1, h3, h4, junction_tree_edge_separating (by decide) JT.Ex.Jstar_forest
    (by decide) JT.Ex.Jstar_rip (.inl (by decide))⟩

/-- [S] **A STORED ENTRY LIES ON A JUNCTION TREE INSIDE THE GRAPH IFF IT IS A SEPARATING PAIR OF THE
CURRENT CLIQUES**, as soon as the graph contains any junction tree (under the loop invariant). -/
theorem clique_graph_on_jt_iff_separating {N nv : Nat} {s : CGStrategy} {t : SuperNodeTree}
    (hinv : CGInv N nv s t) {J : List (Nat × Nat)} (hJ : CGHasJT s t J) {r c : Nat}
    (he : (s.edges.entry r c).isSome = true) : CGOnJT s t (r, c) ↔ CGSep t (r, c) :=
  ⟨cgSep_of_onJT hinv, cgOnJT_of_sep hinv hJ he⟩

/-- [S] the two formulations of the remaining hypothesis agree on every filled pattern: "every merge
contracts an edge of a junction tree inside the current graph" iff "every merge merges a separating
pair of the current cliques" -/
theorem clique_graph_merges_sep_iff_on_jt {L : LPat} (h : L.Filled) :
    CGMergesSep L ↔ CGMergesOnJT L :=
  cg_mergesSep_iff_onJT h

/-- [S] **C17 FOR THE STRATEGY `clique_graph` FROM "EVERY MERGE MERGES A SEPARATING PAIR"**
(`…_partial`): for a filled pattern `L`, a permutation `ordering` and pattern entries inside `L`, if
every pair of cliques the loop merges is a separating pair of the CURRENT cliques — an edge of their
reduced clique graph; a statement about the clique sets alone, not about the graph the code keeps —
(`CGMergesSep L`), `SparsityPattern::new(L, ordering, "clique_graph")` returns WITHOUT PANIC a tree and
an ordering that satisfy `ValidCliqueTree`. -/
theorem analysis_clique_graph_valid_sep_partial {L : LPat} (h : L.Filled) (ordering : Array Nat)
    (ho : ordering.toList.Perm (List.range L.n)) (edges : List (Nat × Nat))
    (hedges : ∀ e ∈ edges, ∃ a b, a < L.n ∧ b < L.n ∧ ordering[a]? = some e.1 ∧
        ordering[b]? = some e.2 ∧ (b ∈ L.col a ∨ a ∈ L.col b))
    (hm : CGMergesSep L) :
    ∃ tf ord', sparsityPatternNewCG L ordering = .ok (tf, ord') ∧
      ValidCliqueTree L.n edges tf ord' ∧ validCliqueTreeB L.n edges tf ord' = true :=
  analysis_cg_valid_sep_partial h ordering ho edges hedges hm

/-- non-vacuity: `CGMergesSep` holds for the path `0 — 1 — 2` -/
example : CGMergesSep exP3 := cg_mergesSep_of_two exP3_filled exP3_size_le


/-! ### the last link: THE EDGE MATRIX IS AT ALL TIMES EXACTLY THE REDUCED CLIQUE GRAPH OF THE CURRENT
CLIQUES — `Lemmas/ChordalJTExact.lean`, `ChordalCGReducedExact.lean`, `ChordalCGExactInit.lean`,
`ChordalCGTraversePerm.lean`, `ChordalCGExactLoop.lean`, `ChordalCGExactFinal.lean`

`JT.Exact cl L adj`: on `L`, `adj x y ↔ JT.SepPair cl L x y`; `CGExact s t`: the same for the stored
entries of the edge matrix and the clique sets of the running strategy. -/

/-- [S] **EXACTNESS SURVIVES A PERMISSIBLE MERGE** (abstract; Habib–Stacho, here WITHOUT removing any
edge after the contraction): a family with a junction tree, `adj` symmetric and exactly its
separating-pair relation, `a — b` an edge whose every common neighbour `n` has `C_a ∩ C_n = C_b ∩ C_n`
(`JT.Perm`); then the adjacency with `b` contracted into `a` is exactly the separating-pair relation
of the family in which `C_a ∪ C_b` replaces `C_a`, `C_b`.  (Permissibility isolates `a` and `b` at the
level `C_a ∩ C_b`; chains of the merged family are routed through `a` or `b` according to the side of
the junction-tree edge `a — b` they come from.) -/
theorem separating_pairs_exact_after_merge (cl : Nat → Nat → Bool) (L : List Nat) (nv : Nat)
    (J : List (Nat × Nat)) (adj : Nat → Nat → Prop) (a b : Nat) (hL : L.Nodup)
    (hnv : ∀ c ∈ L, ∀ v, cl c v = true → v < nv) (hJ : ForestFrom [] J)
    (hJL : ∀ e ∈ J, e.1 ∈ L ∧ e.2 ∈ L) (hrip : JT.RIP cl L J)
    (hsymm : ∀ x y, adj x y → adj y x) (hex : JT.Exact cl L adj) (ha : a ∈ L) (hb : b ∈ L)
    (hab : a ≠ b) (hadj : adj a b) (hperm : JT.Perm cl L adj a b) :
    JT.Exact (JT.mergeCl cl a b) (L.erase b) (JT.contractAdj adj a b) :=
  JT.exact_contract cl L nv J adj a b hL hnv hJ hJL hrip hsymm hex ha hb hab hadj hperm

/-- non-vacuity: the star `{0,1}`, `{0,2}`, `{0,3}` (every pair separating), merging `1` into `0` -/
example : JT.Exact (JT.mergeCl JT.Ex.star 0 1) ([0, 1, 2].erase 1)
    (JT.contractAdj JT.Ex.adjStar 0 1) := by
  refine separating_pairs_exact_after_merge JT.Ex.star [0, 1, 2] 4 JT.Ex.Jstar JT.Ex.adjStar 0 1
    (by decide) ?_ JT.Ex.Jstar_forest (by decide) JT.Ex.Jstar_rip ?_ JT.Ex.star_exact (by decide)
    (by decide) (by decide) ?_ JT.Ex.star_perm
  · intro c hc v hv
    simp only [List.mem_cons, List.not_mem_nil, or_false] at hc
    simp only [JT.Ex.star, Bool.or_eq_true, beq_iff_eq] at hv
    omega
  · intro x y h
    exact (JT.Ex.star_exact y (by
        have := h; unfold JT.Ex.adjStar at this; simp only [List.mem_cons, List.not_mem_nil, or_false]; omega)
      x (by have := h; unfold JT.Ex.adjStar at this; simp only [List.mem_cons, List.not_mem_nil, or_false]; omega)
      (by have := h; unfold JT.Ex.adjStar at this; omega)).2
      (JT.sepPair_symm ((JT.Ex.star_exact x (by
        have := h; unfold JT.Ex.adjStar at this; simp only [List.mem_cons, List.not_mem_nil, or_false]; omega)
      y (by have := h; unfold JT.Ex.adjStar at this; simp only [List.mem_cons, List.not_mem_nil, or_false]; omega)
      (by have := h; unfold JT.Ex.adjStar at this; omega)).1 h))
  · unfold JT.Ex.adjStar; omega

/-- [S] **`compute_reduced_clique_graph` / `initialise`: THE EDGE MATRIX IS EXACTLY THE REDUCED CLIQUE
GRAPH** of the cliques of `SuperNodeTree::new`: two cliques are joined by a stored entry IFF they form
a separating pair.  (Code level, `Lemmas/ChordalCGReducedExact.lean`: `inter_equal` decides
`s1 ∩ s2 = s3`; `separator_graph` lists exactly the pairs meeting outside the separator; the
components of `find_components` are closed under its edges — completeness of `DFS_hashtable` —;
`is_unconnected` answers `true` iff the two cliques are not connected; a pair is emitted iff it is
unconnected for some listed separator; and the intersection of a separating pair is the separator of
a supernode-tree edge.) -/
theorem clique_graph_initialise_exact {L : LPat} (h : L.Filled) {t0 : SuperNodeTree}
    (hok : SnTreeOk L t0) (h2 : 2 ≤ t0.snode.size) :
    ∃ s1 t1, CGStrategy.new.initialise t0 = .ok (s1, t1) ∧ CGExact s1 t1 :=
  initialise_exact_ok L t0 h hok h2

/-- non-vacuity: the state after `initialise` on the tree of `exL` -/
example : ∃ s t, CGExact s t := by
  obtain ⟨t0, _, hok, h2⟩ := exL_two_cliques
  obtain ⟨s1, t1, _, hex⟩ := clique_graph_initialise_exact exL_filled hok h2
  exact ⟨s1, t1, hex⟩

/-- [S] **A CANDIDATE RETURNED BY `traverse` IS PERMISSIBLE** at set level: `traverse` only returns an
edge after `ispermissible` answered `true` for it (on the unchanged adjacency table and clique sets),
and that answer means that every common neighbour — the adjacency table is the edge matrix, `CGInv` —
meets the two cliques in the same set (the Rust code compares the two intersections as sequences;
equal sequences have equal members). -/
theorem clique_graph_traverse_permissible {N nv : Nat} {s : CGStrategy} {t : SuperNodeTree}
    (hinv : CGInv N nv s t) (h2 : 2 ≤ t.nCliques) {s' : CGStrategy} {r c : Nat}
    (htr : s.traverse t = .ok (s', some (r, c))) : CGPermissible s t r c :=
  traverse_permissible N nv s t hinv h2 s' r c htr

/-- [S] **ONE PERMISSIBLE MERGE OF THE MODEL KEEPS THE EDGE MATRIX EXACT** (under the loop invariant,
with a junction tree inside the graph). -/
theorem clique_graph_merge_exact {N nv : Nat} {s : CGStrategy} {t : SuperNodeTree}
    (hinv : CGInv N nv s t) {J : List (Nat × Nat)} (hJ : CGHasJT s t J) (hex : CGExact s t)
    {c1 cr : Nat} (he : (s.edges.entry c1 cr).isSome = true) (hperm : CGPermissible s t c1 cr)
    {t' : SuperNodeTree} {s' : CGStrategy} (hm : s.mergeTwoCliques t (c1, cr) = .ok t')
    (hu : s.updateStrategy t' (c1, cr) true = .ok s') : CGExact s' t' :=
  cg_merge_exact JT.exact_contract hinv hJ hex he hperm hm hu

/-- non-vacuity of the hypotheses of `clique_graph_traverse_permissible` / `clique_graph_merge_exact`:
the state after `initialise` on the tree of `exL` satisfies the loop invariant, has a junction tree
inside its graph and an exact edge matrix -/
example : ∃ N nv s t J, CGInv N nv s t ∧ 2 ≤ t.nCliques ∧ CGHasJT s t J ∧ CGExact s t := by
  obtain ⟨t0, hnew, hok, h2⟩ := exL_two_cliques
  obtain ⟨s1, t1, hi, hJ, _⟩ := clique_graph_initialise_junction_tree exL_filled hnew hok h2
  obtain ⟨s1', t1', hi', _, hinv, hrel⟩ := clique_graph_initialise exL_filled hok h2
  rw [hi] at hi'
  obtain ⟨rfl, rfl⟩ := Prod.mk.inj (Except.ok.inj hi')
  obtain ⟨s1'', t1'', hi'', hex⟩ := clique_graph_initialise_exact exL_filled hok h2
  rw [hi] at hi''
  obtain ⟨rfl, rfl⟩ := Prod.mk.inj (Except.ok.inj hi'')
  exact ⟨_, _, s1, t1, _, hinv, by rw [hrel.ncl, hok.ncl]; exact h2, hJ, hex⟩

/-- [S] **EVERY MERGE OF THE CLIQUE-GRAPH LOOP MERGES A SEPARATING PAIR OF THE CURRENT CLIQUES, I.E.
CONTRACTS AN EDGE OF A JUNCTION TREE INSIDE THE CURRENT GRAPH** — for every filled pattern.  This was
the hypothesis of `analysis_clique_graph_valid_{sep,merges}_partial`. -/
theorem clique_graph_merges_separating {L : LPat} (h : L.Filled) :
    CGMergesSep L ∧ CGMergesOnJT L :=
  ⟨cg_mergesSep h, cg_mergesOnJT h⟩

/-- [S] **THE TWO FORMERLY TESTED LINKS ARE THEOREMS**: for every filled pattern the supernodes of
the tree returned by `merge_cliques` (clique-graph strategy) are pairwise disjoint (`cgRipB`) and
the live ones non-empty (`cgNonemptyB`).  (The driver and the harness keep evaluating both on every
generated pattern, on model and implementation.) -/
theorem clique_graph_tested_links_hold {L : LPat} (h : L.Filled) :
    cgRipB L = true ∧ cgNonemptyB L = true :=
  ⟨cgRipB_true h, cgNonemptyB_true h⟩

/-- [S] **C17 FOR THE STRATEGY `clique_graph`** (the FULL STATEMENT announced above): for every filled
pattern `L` (the symbolic factor of the permuted pattern), every `ordering` that is a permutation and
pattern entries inside `L`, `SparsityPattern::new(L, ordering, "clique_graph")` returns WITHOUT PANIC
a tree and an ordering that satisfy `ValidCliqueTree` — every clause of the harness oracle: coverage
of every pattern entry, single root last, parents later in the post-order, separator = clique ∩
parent clique, RUNNING INTERSECTION, children = inverse of parents, consecutive supernodes
partitioning `0..n`, `nblk = |clique|`, ordering a permutation — and the executable checker accepts
them.  No hypothesis on the run of the merge loop is left. -/
theorem analysis_clique_graph_valid {L : LPat} (h : L.Filled) (ordering : Array Nat)
    (ho : ordering.toList.Perm (List.range L.n)) (edges : List (Nat × Nat))
    (hedges : ∀ e ∈ edges, ∃ a b, a < L.n ∧ b < L.n ∧ ordering[a]? = some e.1 ∧
        ordering[b]? = some e.2 ∧ (b ∈ L.col a ∨ a ∈ L.col b)) :
    ∃ tf ord', sparsityPatternNewCG L ordering = .ok (tf, ord') ∧
      ValidCliqueTree L.n edges tf ord' ∧ validCliqueTreeB L.n edges tf ord' = true :=
  analysis_cg_valid h ordering ho edges hedges

/-- non-vacuity: `exL` with the identity ordering and the pattern entry `(0, 1)` -/
example : ∃ tf ord', sparsityPatternNewCG exL #[0, 1, 2, 3, 4] = .ok (tf, ord') ∧
    ValidCliqueTree exL.n [(0, 1)] tf ord' := by
  obtain ⟨tf, ord', h1, h2, _⟩ := analysis_clique_graph_valid exL_filled #[0, 1, 2, 3, 4]
    (List.Perm.refl _) [(0, 1)]
    (by
      intro e he
      simp only [List.mem_singleton] at he
      subst he
      exact ⟨0, 1, by decide, by decide, rfl, rfl, .inl (by decide)⟩)
  exact ⟨tf, ord', h1, h2⟩

/-- [S] the same with every hypothesis in the executable form the driver evaluates on each generated
case (`hyp.analysis`: `filled=1 perm=1 edges=1`) — the fields `rip`, `ne` of `cg.trace` are no longer
needed. -/
theorem analysis_clique_graph_valid_of_input_tests (L : LPat) (ordering : Array Nat)
    (edges : List (Nat × Nat)) (h1 : L.filledB = true) (h2 : clOrderingPerm L.n ordering = true)
    (h3 : L.edgesInB ordering edges = true) :
    ∃ tf ord', sparsityPatternNewCG L ordering = .ok (tf, ord') ∧
      validCliqueTreeB L.n edges tf ord' = true := by
  obtain ⟨tf, ord', a, _, b⟩ := analysis_clique_graph_valid ((LPat.filledB_iff L).1 h1)
    ordering ((clOrderingPerm_iff L.n ordering).1 h2) edges (LPat.edgesInB_sound L ordering edges h3)
  exact ⟨tf, ord', a, b⟩

/-!
Not carried by a theorem: the AMD ordering and QDLDL's symbolic factorisation are inputs (the
hypothesis `LPat.Filled` — and that the ordering is a permutation and the pattern lies inside the
factor — is evaluated on them by the driver on every run, channel `hyp.analysis`).  For all three
merge strategies everything downstream is now a theorem; for the clique-graph strategy the two
formerly tested links `cgRipB`, `cgNonemptyB` are theorems (`clique_graph_tested_links_hold`) and
stay evaluated by the driver on every generated pattern and by the harness on the implementation's
tree (channel `cg.trace`).
-/

end Clarabel.C17
