/-
  C17 — chordal analysis yields a valid clique tree that covers the sparsity pattern.

  Property theorems about the model in `ClarabelModel/Chordal/*` (all of class [S]:
  structural, no arithmetic law of a scalar type is used — they hold of the code as it runs
  on machine integers as long as no index reaches `usize::MAX`).  Proofs and helper lemmas
  live in `ClarabelProofs/Lemmas/Chordal{Dsu,PostOrder,TriIndex,Split,Reorder,MergePC}.lean`.

  Round 3 adds (sections at the end of the file):
  * the readers of the symbolic factor and the Pothen–Sun supernodes on a filled pattern
    (`LPat.Filled`, decided by the executable `LPat.filledB` which the driver evaluates on every
    generated pattern): partition, chains of the elimination tree, separator = higher adjacency
    of the representative minus the supernode, clique + coverage, the supernodal parent
    structure, and `SuperNodeTree::new` as a whole (`Lemmas/Chordal{Etree,PothenSun,
    SupernodeTree,SnodeParent}.lean`);
  * the whole parent–child merge loop incl. `post_process_merge`, with separator = clique ∩
    parent clique and running intersection as consequences of the invariant `CTInv`
    (`Lemmas/ChordalMergePCLoop.lean`);
  * the pipelines `SparsityPattern::new(·, ·, "none" | "parent_child")` end to end, concluded in
    the terms of the harness oracle: `ValidCliqueTree`, decided by the executable
    `validCliqueTreeB` (`Lemmas/Chordal{Valid,Bridge}.lean`);
  * for the clique-graph strategy: `kruskal` marks a spanning tree and
    `determine_parent_cliques`/`assign_children` orient it (`Lemmas/ChordalKruskal.lean`).

  Follow-up of round 3 (last section): the FRONT HALF of the clique-graph strategy — the reduced
  clique graph contains the supernode tree, `new_from_triplets`/`set_entry`/`dropzeros`, the loop
  invariant `CGInv` established by `initialise` and preserved by every merge, termination, the
  hypotheses of the Kruskal stage at exit, `post_process_merge`, and the pipeline
  `SparsityPattern::new(·, ·, "clique_graph")` up to two tested links
  (`analysis_clique_graph_valid_partial`; `Lemmas/ChordalCG*.lean`).

  Not carried by a theorem: the running-intersection property of Kruskal's spanning tree in the
  merged clique graph (tested hypotheses `cgRipB`, `cgNonemptyB`, channel `cg.trace`), the AMD ordering and the
  symbolic factorisation (inputs of the model; the hypotheses of the pipeline theorems are
  evaluated on them at run time, channel `hyp.analysis`); see the note at the end.
-/
import ClarabelProofs.Lemmas.ChordalDsu
import ClarabelProofs.Lemmas.ChordalPostOrder
import ClarabelProofs.Lemmas.ChordalTriIndex
import ClarabelProofs.Lemmas.ChordalSplit
import ClarabelProofs.Lemmas.ChordalReorder
import ClarabelProofs.Lemmas.ChordalMergePC
import ClarabelProofs.Lemmas.ChordalSupernodeTree
import ClarabelProofs.Lemmas.ChordalMergePCLoop
import ClarabelProofs.Lemmas.ChordalSnodeParent
import ClarabelProofs.Lemmas.ChordalKruskal
import ClarabelProofs.Lemmas.ChordalValid
import ClarabelProofs.Lemmas.ChordalBridge
import ClarabelProofs.Lemmas.ChordalCGFinal

namespace Clarabel.C17
open Clarabel Clarabel.Chordal

/-! ## union-find (`merge/disjoint_set_union.rs`, repaired by eed0111) -/

/-- [S] `root` terminates within its fuel on every well-formed structure, returns the
representative (the fixed point reached by following parent pointers), keeps the structure
well-formed and path halving does not change anybody's representative. -/
theorem dsu_root {d : Dsu} {n x : Nat} (h : Dsu.WF d n) (hx : x < n) :
    ∃ d' r, d.root x = .ok (d', r) ∧ Dsu.WF d' n ∧ d'.ranks = d.ranks ∧
      Dsu.RootOf d.parents x r ∧
      (∀ y r', y < n → (Dsu.RootOf d'.parents y r' ↔ Dsu.RootOf d.parents y r')) :=
  Dsu.root_spec h hx

/-- [S] `union x y` merges exactly the classes of `x` and `y`. -/
theorem dsu_union {d : Dsu} {n x y : Nat} (h : Dsu.WF d n) (hx : x < n) (hy : y < n) :
    ∃ d', d.union x y = .ok d' ∧ Dsu.WF d' n ∧
      ∀ a b, a < n → b < n →
        (Dsu.Same d' a b ↔
          (Dsu.Same d a b ∨ (Dsu.Same d a x ∧ Dsu.Same d y b) ∨ (Dsu.Same d a y ∧ Dsu.Same d x b))) :=
  Dsu.union_spec h hx hy

/-- [S] `in_same_set x y` answers whether `x` and `y` have the same representative and
leaves the partition unchanged. -/
theorem dsu_in_same_set {d : Dsu} {n x y : Nat} (h : Dsu.WF d n) (hx : x < n) (hy : y < n) :
    ∃ d' b, d.inSameSet x y = .ok (d', b) ∧ Dsu.WF d' n ∧ (b = true ↔ Dsu.Same d x y) ∧
      ∀ a c, a < n → c < n → (Dsu.Same d' a c ↔ Dsu.Same d a c) :=
  Dsu.inSameSet_spec h hx hy

/-- [S] **for every operation history** on `new n` (arguments in range): no panic, no
fuel exhaustion, and every answer is the one dictated by the equivalence relation generated
by the union pairs seen so far (`in_same_set` ⇔ equivalent; `root x` is equivalent to `x`). -/
theorem dsu (n : Nat) (ops : List Dsu.Op) (h : ∀ o ∈ ops, Dsu.InRange n o) :
    ∃ d outs, Dsu.runOps (Dsu.new n) ops = .ok (d, outs) ∧ Dsu.WF d n ∧
      Dsu.Answers (fun _ _ => False) ops outs :=
  Dsu.history_spec n ops h

/-- non-vacuity of `dsu`: the 8-element history below is in range … -/
example : ∀ o ∈ Dsu.counterHistory, Dsu.InRange 8 o := Dsu.counterHistory_inRange

/-- … and this is **what the theorem excludes**: the pre-fix `root` (one halving step,
returns the grandparent; `Dsu.rootOld`) answers `in_same_set 0 7 = false` after the seven
unions `0-1, 2-3, 4-5, 6-7, 1-3, 5-7, 3-7` (a depth-3 tree), although all eight elements are
in one class; those outputs are not `Answers`.  Replays on the implementation as the
finding recorded in `known_findings.json` (fixed by eed0111). -/
example : ¬ Dsu.Answers (fun _ _ => False) Dsu.counterHistory
    [none, none, none, none, none, none, none, some 0] :=
  Dsu.counterHistory_old_not_answers

example : (Dsu.runOpsOld (Dsu.new 8) Dsu.counterHistory).toOption.map (·.2) =
    some [none, none, none, none, none, none, none, some 0] := by rfl

example : (Dsu.runOps (Dsu.new 8) Dsu.counterHistory).toOption.map (·.2) =
    some [none, none, none, none, none, none, none, some 1] := by rfl

/-! ## `children_from_parent`, `post_order` (`supernode_tree.rs`) -/

/-- [S] `children_from_parent` lists for every vertex exactly its children, once. -/
theorem children_from_parent (parent : Array Nat)
    (hp : ∀ i, i < parent.size → parent.getD i 0 = noParent ∨ parent.getD i 0 < parent.size)
    (hn : parent.size < noParent) :
    ∃ ch, childrenFromParent parent = .ok ch ∧ ChildrenOf parent ch :=
  children_from_parent_spec parent hp hn

/-- [S] On a `children` structure that agrees with the `parent` array (each vertex is
listed exactly once, under its parent — in particular no vertex has two parents and the
walk from the root cannot meet a cycle), with at most `nc` vertices in the root's tree,
`post_order` terminates without panic (fuel `n+1` not exhausted, no counter underflow),
returns a duplicate-free list of `min nc n` vertices that contains the whole tree of the
root, and lists every vertex of that tree before its parent. -/
theorem post_order (parent : Array Nat) (children : Array VSet) (nc r : Nat)
    (hch : ChildrenOf parent children) (hn : parent.size < noParent) (hr : r < parent.size)
    (hfind : parent.toList.findIdx? (· == noParent) = some r)
    (hcount : ∀ l : List Nat, l.Nodup → (∀ v ∈ l, v < parent.size ∧ Reaches parent r v) →
      l.length ≤ nc) :
    ∃ post ch', postOrder parent children nc = .ok (post, ch') ∧
      post.toList.Nodup ∧ (∀ v ∈ post.toList, v < parent.size) ∧
      post.size = min nc parent.size ∧ ChildrenOf parent ch' ∧
      (∀ c v, c ∈ post.toList → v ∈ post.toList → Reaches parent r c → c ≠ r →
        parent.getD c 0 = v → List.Sublist [c, v] post.toList) ∧
      (∀ v, Reaches parent r v → v ∈ post.toList) :=
  post_order_spec parent children nc r hch hn hr hfind hcount

/-- [S] the case `nc = n` of the two calls in `SuperNodeTree::new`: the result is a
permutation of all vertices (duplicate-free, of full length). -/
theorem post_order_terminates (parent : Array Nat) (children : Array VSet) (r : Nat)
    (hch : ChildrenOf parent children) (hn : parent.size < noParent) (hr : r < parent.size)
    (hfind : parent.toList.findIdx? (· == noParent) = some r) :
    ∃ post ch', postOrder parent children parent.size = .ok (post, ch') ∧
      post.toList.Nodup ∧ (∀ v ∈ post.toList, v < parent.size) ∧
      post.size = parent.size ∧ ChildrenOf parent ch' ∧
      (∀ c v, c ∈ post.toList → v ∈ post.toList → Reaches parent r c → c ≠ r →
        parent.getD c 0 = v → List.Sublist [c, v] post.toList) ∧
      (∀ v, Reaches parent r v → v ∈ post.toList) :=
  post_order_spec_full parent children r hch hn hr hfind

/-- non-vacuity: the tree `0 → 2 ← 1` -/
example : ∃ ch, childrenFromParent #[2, 2, noParent] = .ok ch ∧ ChildrenOf #[2, 2, noParent] ch :=
  children_from_parent_spec _ (by
    intro i hi
    have : i = 0 ∨ i = 1 ∨ i = 2 := by simp at hi; omega
    rcases this with rfl | rfl | rfl <;> simp [noParent]) (by simp [noParent])

/-! ## packed-triangle index maps (`algebra/scalarmath.rs`) -/

/-- [S] coordinate ↦ index ↦ coordinate is the identity on the upper triangle. -/
theorem tri_index_coord {i j : Nat} (h : i ≤ j) :
    upperTriangularIndexToCoord (coordToUpperTriangularIndex (i, j)) = (i, j) :=
  coord_index_inv h

/-- [S] index ↦ coordinate ↦ index is the identity, and the coordinate is in the upper triangle. -/
theorem tri_index (k : Nat) :
    let rc := upperTriangularIndexToCoord k
    rc.1 ≤ rc.2 ∧ coordToUpperTriangularIndex rc = k :=
  index_coord_inv k

/-- [S] the index map is symmetric and stays inside the packed block of an `n × n` matrix. -/
theorem tri_index_range {i j n : Nat} (h : i ≤ j) (hj : j < n) :
    coordToUpperTriangularIndex (i, j) = coordToUpperTriangularIndex (j, i) ∧
    coordToUpperTriangularIndex (i, j) < triangularNumber n :=
  ⟨coord_index_symm i j, coord_index_lt h hj⟩

/-- [S] the `usize` subtractions of `upper_triangular_index_to_coord` never wrap. -/
theorem tri_index_no_underflow {k : Nat} (h : 0 < k) :
    let col := ((isqrt (8 * k + 1) + 1) / 2) - 1
    1 ≤ (isqrt (8 * k + 1) + 1) / 2 ∧ 1 ≤ col ∧ triangularIndex (col - 1) + 1 ≤ k :=
  index_to_coord_no_underflow h

example : upperTriangularIndexToCoord (coordToUpperTriangularIndex (2, 5)) = (2, 5) :=
  tri_index_coord (by decide)

/-! ## `split_cliques` (`merge/clique_graph.rs`) -/

/-- [S] along a post-order in which parents come after their children, `split_cliques`
does not panic and turns the clique sets `cl` into `separator = clique ∩ parent clique`
and `supernode = clique \ separator` for every non-root clique, leaving the others alone. -/
theorem split_cliques (cl seps : Array VSet) (parent post : Array Nat) (nc : Nat)
    (hsz : seps.size = cl.size) (hnd : post.toList.Nodup) (hnc : 1 ≤ nc)
    (hpost : nc - 1 ≤ post.size)
    (hpar : ∀ j, j < nc - 1 →
      post.getD j 0 < cl.size ∧ post.getD j 0 < parent.size ∧
      parent.getD (post.getD j 0) 0 < cl.size ∧
      ∀ i, i ≤ j → post.getD i 0 ≠ parent.getD (post.getD j 0) 0) :
    ∃ sn' sp', splitCliques cl seps parent post nc = .ok (sn', sp') ∧
      ∀ j, j < nc - 1 → ∀ v,
        let c := post.getD j 0
        let p := parent.getD c 0
        (v ∈ (sp'.getD c #[]).toList ↔ v ∈ (cl.getD c #[]).toList ∧ v ∈ (cl.getD p #[]).toList) ∧
        (v ∈ (sn'.getD c #[]).toList ↔ v ∈ (cl.getD c #[]).toList ∧ v ∉ (cl.getD p #[]).toList) :=
  split_cliques_mem cl seps parent post nc hsz hnd hnc hpost hpar

/-! ## `reorder_snode_consecutively`, `calculate_block_dimensions` (`supernode_tree.rs`) -/

/-- [S] `reorder`: on a tree whose supernodes (listed without repetition by `snode_post`)
partition `0..n` and whose separators are repetition-free subsets of `0..n`,
`reorder_snode_consecutively` does not panic (the assertions of `invperm` and of the
separator loop hold) and relabels with a permutation `p` (inverse `q`): `p` is the
concatenation of the sorted supernodes in post-order, the supernodes become the consecutive
ranges `k .. k+len` in post-order, separators are relabelled by `q`, the new `ordering` is
the old one composed with `p` — hence still a permutation — and nothing else changes
(all of this is the structure `ReorderSpec`). -/
theorem reorder (t : SuperNodeTree) (ordering : Array Nat)
    (hord : ordering.size = t.post.size)
    (hnd : t.snodePost.toList.Nodup)
    (hlt : ∀ c ∈ t.snodePost.toList, c < t.snode.size)
    (hpart : (t.snodePost.toList.flatMap (fun c => (t.snode.getD c #[]).toList)).Perm
      (List.range t.post.size))
    (hsep : ∀ sp ∈ t.separators.toList, ∀ x ∈ sp.toList, x < t.post.size)
    (hsepnd : ∀ sp ∈ t.separators.toList, sp.toList.Nodup) :
    ∃ (t' : SuperNodeTree) (ord' p q : Array Nat),
      t.reorderSnodeConsecutively ordering = .ok (t', ord') ∧
      ReorderSpec t ordering t' ord' p q :=
  reorder_spec_of_nodup t ordering hord hnd hlt hpart hsep hsepnd

/-- [S] consequences: the ordering stays a permutation of `0..n`, and the supernodes,
concatenated in post-order, are exactly `0, 1, …, n-1`. -/
theorem reorder_ordering_perm {t : SuperNodeTree} {ordering : Array Nat}
    {t' : SuperNodeTree} {ord' p q : Array Nat} (h : ReorderSpec t ordering t' ord' p q)
    (ho : ordering.toList.Perm (List.range t.post.size)) :
    ord'.toList.Perm (List.range t.post.size) ∧
    t.snodePost.toList.flatMap (fun c => (t'.snode.getD c #[]).toList) = List.range t.post.size :=
  ⟨h.ord_perm_range ho, h.snode_concat⟩

/-- [S] `nblk[i] = |separator| + |supernode|` of the `i`-th clique in post-order. -/
theorem block_dimensions (t : SuperNodeTree) (h1 : t.nCliques ≤ t.snodePost.size)
    (h2 : ∀ i, i < t.nCliques →
      t.snodePost.getD i 0 < t.snode.size ∧ t.snodePost.getD i 0 < t.separators.size) :
    ∃ nb, t.calculateBlockDimensions = .ok { t with nblk := some nb } ∧ nb.size = t.nCliques ∧
      ∀ i, i < t.nCliques → nb.getD i 0 =
        (t.separators.getD (t.snodePost.getD i 0) #[]).size +
        (t.snode.getD (t.snodePost.getD i 0) #[]).size :=
  block_dimensions_spec t h1 h2

/-- non-vacuity of `reorder` and its consequences: three vertices, supernodes `{2,0}` and
`{1}`, post-order `1, 0` -/
example : ∃ (t' : SuperNodeTree) (ord' : Array Nat),
    SuperNodeTree.reorderSnodeConsecutively
      { snode := #[#[2, 0], #[1]], snodePost := #[1, 0], snodeParent := #[0, 0],
        snodeChildren := #[#[1], #[]], post := #[0, 1, 2], separators := #[#[1], #[]],
        nblk := none, nCliques := 2 } #[2, 0, 1] = .ok (t', ord') ∧
    ord'.toList.Perm (List.range 3) ∧
    [1, 0].flatMap (fun c => (t'.snode.getD c #[]).toList) = [0, 1, 2] := by
  have hsep : ∀ sp ∈ [(#[1] : VSet), #[]], ∀ x ∈ sp.toList, x < 3 := by
    intro sp hsp x hx
    simp only [List.mem_cons, List.not_mem_nil, or_false] at hsp
    rcases hsp with rfl | rfl
    · have : x = 1 := by simpa using hx
      omega
    · simp at hx
  obtain ⟨t', ord', p, q, h, hs⟩ := reorder
    { snode := #[#[2, 0], #[1]], snodePost := #[1, 0], snodeParent := #[0, 0],
      snodeChildren := #[#[1], #[]], post := #[0, 1, 2], separators := #[#[1], #[]],
      nblk := none, nCliques := 2 } #[2, 0, 1] rfl (by decide) (by decide) (by decide) hsep
    (by
      intro sp hsp
      simp only [List.mem_cons, List.not_mem_nil, or_false] at hsp
      rcases hsp with rfl | rfl <;> decide)
  have := reorder_ordering_perm hs (by decide)
  exact ⟨t', ord', h, this.1, this.2⟩

/-! ## one step of the parent–child merge (`merge/parent_child.rs`) -/

/-- [S] `parent_child_merge`: on a tree satisfying the invariant `PCInv` (array sizes agree,
parents of live cliques are live, the children lists are the duplicate-free inverse of the
parent array, every separator lies inside the parent's clique), merging a live child `ch`
into its live parent `p` does not panic and yields a tree that satisfies `PCInv` again, in
which exactly `ch` is retired (emptied, marked inactive), `snode[p]` is the union of the two
supernodes and all other vertex sets are unchanged, the grandchildren are re-attached to
`p`, `n_cliques` drops by one, and every old clique is contained in a live new clique
(coverage of the sparsity pattern is preserved) — the structure `MergeSpec`. -/
theorem parent_child_merge (t : SuperNodeTree) (p ch : Nat)
    (hinv : PCInv t) (hp : Live t p) (hc : Live t ch) (hne : ch ≠ p)
    (hpar : t.snodeParent.getD ch 0 = p) (hn : 0 < t.nCliques) :
    ∃ t', PCStrategy.mergeTwoCliques t (p, ch) = .ok t' ∧ MergeSpec t p ch t' :=
  merge_two_cliques_spec t p ch hinv hp hc hne hpar hn

/-- non-vacuity: the chain `0 → 1 → 2` with cliques `{1,2|3}`, `{3|4}`, `{4,5}` -/
example : ∃ t', PCStrategy.mergeTwoCliques exTree (2, 1) = .ok t' ∧ PCInv t' ∧ ¬ Live t' 1 ∧
    ∀ v ∈ cliqueList exTree 1, v ∈ cliqueList t' 2 := by
  obtain ⟨t', h1, h2⟩ := parent_child_merge exTree 2 1 exTree_inv
    ((exTree_live 2).2 (by decide)) ((exTree_live 1).2 (by decide)) (by decide) (by decide)
    (by decide)
  exact ⟨t', h1, h2.inv, h2.dead, h2.cover_ch⟩

/-! ## the symbolic factor, the elimination tree and the Pothen–Sun supernodes
(`supernode_tree.rs`: `parent_from_L`, `higher_degree`, `pothen_sun`, `find_supernodes`,
`find_separators`, front half of `SuperNodeTree::new`) -/

/-- a filled pattern on 5 vertices (columns `{1,2}`, `{2,4}`, `{4}`, `{4}`, `∅`) whose supernodes
are `{0}`, `{1,2,4}`, `{3}` -/
def exL : LPat := { n := 5, colptr := #[0, 2, 4, 5, 6, 6], rowval := #[1, 2, 2, 4, 4, 4] }

/-- non-vacuity of every theorem below with the hypothesis `L.Filled` (`Filled` is decidable:
`LPat.filledB_iff`) -/
theorem exL_filled : exL.Filled := (LPat.filledB_iff _).1 (by decide)

/-- [S] the executable test run by the driver on every generated pattern decides the
hypothesis `LPat.Filled` of the theorems of this section. -/
theorem filled_test (L : LPat) : L.filledB = true ↔ L.Filled := L.filledB_iff

/-- [S] `parent_from_L` on a filled pattern: no panic; `parent[v]` is the first (= smallest) row
of column `v`, every vertex but the last has a larger parent, the last vertex is the only root
(so the elimination "tree" is a tree and every vertex reaches the root). -/
theorem parent_from_L {L : LPat} (h : L.Filled) :
    ∃ parent, parentFromL L = .ok parent ∧ EtreeParent parent L.n ∧
      (∀ v, v + 1 < L.n → parent.getD v 0 = L.par v) ∧
      parent.toList.findIdx? (· == noParent) = some (L.n - 1) ∧
      (∀ v, v < L.n → Reaches parent (L.n - 1) v) := by
  obtain ⟨parent, h1, h2, _, h4⟩ := parent_from_L_spec h
  exact ⟨parent, h1, h2, h4, h2.findIdx_root, h2.reaches_root⟩

/-- [S] `higher_degree` on a filled pattern: no panic (no `usize` underflow), `degree[v]` is the
number of entries of column `v` (`0` for the last vertex). -/
theorem higher_degree {L : LPat} (h : L.Filled) :
    ∃ deg, higherDegree L = .ok deg ∧ deg.size = L.n ∧
      (∀ v, v + 1 < L.n → deg.getD v 0 = (L.col v).length) ∧ deg.getD (L.n - 1) 0 = 0 :=
  higher_degree_spec h

/-- [S] `find_separators`: on non-empty supernodes of in-range vertices, no panic, and
`separator(sn)` = higher adjacency of the representative `min sn` minus the supernode, without
repetition. -/
theorem find_separators {L : LPat} (h : L.Filled) (snode : Array VSet)
    (hsn : ∀ sn ∈ snode.toList, sn.toList ≠ [] ∧ ∀ v ∈ sn.toList, v < L.n) :
    findSeparators L snode = .ok (snode.map (sepOf L)) ∧
    ∀ sn : VSet, (sepOf L sn).toList.Nodup ∧
      ∀ x, x ∈ (sepOf L sn).toList ↔ x ∈ L.col (minOf sn) ∧ x ∉ sn.toList :=
  ⟨find_separators_spec h snode hsn, fun sn => ⟨nodup_sepOf L sn, mem_sepOf L sn⟩⟩

/-- [S] `pothen_sun` on an elimination tree (`parent[v] > v`, single root `n-1`), positive
degrees of the non-roots and a post-order without repetition that lists children before
parents: no panic (all indices in range, `degree[v] - 1` does not underflow), and the returned
`snode_index` satisfies `PSCore`: a vertex `x` with `snode_index[x] = r ≥ 0` was claimed by a
child `c` with `degree[c] = degree[x] + 1` belonging to the same supernode, and `r` is a
representative (`snode_index[r] < 0`). -/
theorem pothen_sun {parent post degree : Array Nat} {n : Nat} (hpar : EtreeParent parent n)
    (hdsz : degree.size = n) (hdpos : ∀ v, v + 1 < n → 0 < degree.getD v 0)
    (hnd : post.toList.Nodup) (hlt : ∀ v ∈ post.toList, v < n)
    (hpw : post.toList.Pairwise (fun a b => parent.getD b 0 ≠ a)) :
    ∃ sp si, pothenSun parent post degree = .ok (sp, si) ∧ si.size = n ∧
      PSCore parent degree n post.toList.reverse si :=
  pothen_sun_spec hpar hdsz hdpos hnd hlt hpw

/-- [S] `find_supernodes` under the same hypotheses: no panic; the supernodes are non-empty,
repetition-free, PARTITION the vertices `0..n`, and every member of a supernode other than its
representative has a child inside the supernode whose degree is one larger (`Supernodes`). -/
theorem find_supernodes {parent post degree : Array Nat} {n : Nat} (hpar : EtreeParent parent n)
    (hdsz : degree.size = n) (hdpos : ∀ v, v + 1 < n → 0 < degree.getD v 0)
    (hnd : post.toList.Nodup) (hlt : ∀ v ∈ post.toList, v < n)
    (hpw : post.toList.Pairwise (fun a b => parent.getD b 0 ≠ a)) :
    ∃ snode sp, findSupernodes parent post degree = .ok (snode, sp) ∧
      Supernodes parent degree n snode :=
  find_supernodes_spec hpar hdsz hdpos hnd hlt hpw

/-- [S] a Pothen–Sun supernode of a filled pattern is a CHAIN of the elimination tree starting
at its smallest vertex: the representative is the minimum, reaches every member by parent
pointers, and every member's column is contained in the representative's column. -/
theorem supernode_chain {L : LPat} (h : L.Filled) {sn : List Nat} {rep : Nat}
    (hs : SnodeOf L sn rep) {parent : Array Nat} (hsz : parent.size = L.n)
    (hp : ∀ v, v + 1 < L.n → parent.getD v 0 = L.par v) :
    (∀ x ∈ sn, rep ≤ x) ∧ (∀ x ∈ sn, Reaches parent x rep) ∧
    (∀ x ∈ sn, ∀ r ∈ L.col x, r ∈ L.col rep) :=
  ⟨hs.rep_le h, hs.chain h hsz hp, hs.col_sub h⟩

/-- [S] in a filled pattern `{v} ∪ col v` is a clique: two rows `x < y` of one column are
adjacent. -/
theorem filled_col_clique {L : LPat} (h : L.Filled) {v : Nat} (hv : v < L.n) {x y : Nat}
    (hx : x ∈ L.col v) (hy : y ∈ L.col v) (hxy : x < y) : y ∈ L.col x :=
  h.col_clique v hv x hx y hy hxy

/-- [S] **front half of `SuperNodeTree::new`** on a filled pattern:
`parent_from_L ⇒ children_from_parent ⇒ post_order ⇒ higher_degree ⇒ find_supernodes ⇒
find_separators` run without panic (`post_order` within its fuel), `post` is a permutation of
the vertices, and the supernodes/separators satisfy `SnCover`: the supernodes partition the
vertices, each is a Pothen–Sun supernode (chain) with representative its minimum, and
`separators = snode.map (col(min sn) \ sn)`. -/
theorem supernode_front {L : LPat} (h : L.Filled) :
    ∃ parent children post children' degree snode sparent,
      parentFromL L = .ok parent ∧ childrenFromParent parent = .ok children ∧
      postOrder parent children parent.size = .ok (post, children') ∧
      higherDegree L = .ok degree ∧ findSupernodes parent post degree = .ok (snode, sparent) ∧
      findSeparators L snode = .ok (snode.map (sepOf L)) ∧
      EtreeParent parent L.n ∧ post.toList.Perm (List.range L.n) ∧
      SnCover L snode (snode.map (sepOf L)) :=
  sntree_front h

/-- [S] **coverage by the initial cliques**: whatever tree `SuperNodeTree::new` returns on a
filled pattern, its supernodes partition the vertices, `n_cliques = |snode|`, `post` is a
permutation, and for every clique `i`: (1) `separators[i]` = higher adjacency of the
representative minus the supernode, repetition-free; (2) `snode[i] ∪ separators[i]` contains the
whole column (every structural non-zero) of each vertex of `snode[i]`; (3) it is a clique of the
filled graph; and (4) every structural non-zero `(r, x)` of `L` lies in the clique whose
supernode contains `x`. -/
theorem supernode_cover {L : LPat} (h : L.Filled) {t : SuperNodeTree}
    (ht : SuperNodeTree.new L = .ok t) :
    (t.snode.toList.flatMap (fun sn => sn.toList)).Perm (List.range L.n) ∧
    t.nCliques = t.snode.size ∧ t.post.toList.Perm (List.range L.n) ∧
    (∀ i, i < t.snode.size →
      ((t.separators.getD i #[]).toList.Nodup ∧
        ∀ x, x ∈ (t.separators.getD i #[]).toList ↔
          x ∈ L.col (minOf (t.snode.getD i #[])) ∧ x ∉ (t.snode.getD i #[]).toList) ∧
      (∀ x ∈ (t.snode.getD i #[]).toList, ∀ r ∈ L.col x,
        r ∈ (t.snode.getD i #[]).toList ∨ r ∈ (t.separators.getD i #[]).toList) ∧
      (∀ x y, (x ∈ (t.snode.getD i #[]).toList ∨ x ∈ (t.separators.getD i #[]).toList) →
        (y ∈ (t.snode.getD i #[]).toList ∨ y ∈ (t.separators.getD i #[]).toList) → x < y →
        y ∈ L.col x)) ∧
    (∀ x, x < L.n → ∀ r ∈ L.col x, ∃ i, i < t.snode.size ∧ x ∈ (t.snode.getD i #[]).toList ∧
      (r ∈ (t.snode.getD i #[]).toList ∨ r ∈ (t.separators.getD i #[]).toList)) := by
  obtain ⟨hc, h2, h3, _⟩ := sntree_new_cover h ht
  exact ⟨hc.partition, h2, h3,
    fun i hi => ⟨hc.sep_spec i hi, hc.cover h i hi, hc.clique h i hi⟩, hc.cover_all h⟩

/-- non-vacuity: the front half runs on the filled pattern `exL` and yields supernodes and
separators satisfying `SnCover` -/
example : ∃ snode sparent parent post degree,
    findSupernodes parent post degree = .ok (snode, sparent) ∧
    findSeparators exL snode = .ok (snode.map (sepOf exL)) ∧
    SnCover exL snode (snode.map (sepOf exL)) := by
  obtain ⟨parent, _, post, _, degree, snode, sparent, _, _, _, _, h5, h6, _, _, h9⟩ :=
    supernode_front exL_filled
  exact ⟨snode, sparent, parent, post, degree, h5, h6, h9⟩

/-! ## the parent–child merge loop (`merge/mod.rs::merge_cliques`, `merge/parent_child.rs`) -/

/-- [S] one merge preserves the clique-tree invariant `CTInv` (= `PCInv` + repetition-free and
pairwise disjoint supernodes, repetition-free separators, a rank function growing towards the
root, roots without separator, retired cliques empty), with the same rank function. -/
theorem parent_child_merge_ct {t : SuperNodeTree} {ord : Nat → Nat} {p ch : Nat}
    (h : CTInv t ord) (hm : MergeHyp t p ch) : CTInv (mergedTree t p ch) ord :=
  h.merge hm

/-- [S] under `CTInv`: SEPARATOR = CLIQUE ∩ PARENT CLIQUE for every live non-root clique. -/
theorem separator_eq_inter {t : SuperNodeTree} {ord : Nat → Nat} (h : CTInv t ord) {c : Nat}
    (hl : Live t c) (hnp : t.snodeParent.getD c 0 ≠ noParent) (v : Nat) :
    v ∈ (t.separators.getD c #[]).toList ↔
      v ∈ cliqueList t c ∧ v ∈ cliqueList t (t.snodeParent.getD c 0) :=
  h.sep_eq_inter hl hnp v

/-- [S] under `CTInv`: RUNNING INTERSECTION in the form tested by the harness oracle — every
vertex of a live clique has exactly one "top" clique (a live clique containing it whose parent
clique does not) — and in the classical form: two live cliques containing `v` climb to the
same clique `x` (the one with `v` in its supernode) and `v` lies in every clique on both
chains. -/
theorem running_intersection {t : SuperNodeTree} {ord : Nat → Nat} (h : CTInv t ord) :
    RunInt t ∧
    ∀ v a b, Live t a → v ∈ cliqueList t a → Live t b → v ∈ cliqueList t b →
      ∃ x, Live t x ∧ v ∈ (t.snode.getD x #[]).toList ∧ Anc t a x ∧ Anc t b x ∧
        (∀ c, Anc t a c → Anc t c x → v ∈ cliqueList t c) ∧
        (∀ c, Anc t b c → Anc t c x → v ∈ cliqueList t c) :=
  ⟨h.runInt, fun _ _ _ h1 h2 h3 h4 => h.running_intersection h1 h2 h3 h4⟩

/-- [S] **the whole loop** of `merge_cliques` (parent–child strategy): from any state satisfying
the loop invariant, with fuel at least `clique_index + 2`, the loop returns (no panic, fuel not
exhausted, `fill_in` and `n_cliques -= 1` do not underflow) a tree that satisfies `CTInv` with
the same rank function and is related to the input by `PCLoopRel` (bookkeeping untouched,
cliques only retired, COVERAGE: every old live clique inside a new live clique, no vertex
invented, the clique counter drops by the number of retired cliques). -/
theorem parent_child_loop {ord : Nat → Nat} (fuel : Nat) (s : PCStrategy) (t : SuperNodeTree)
    (hinv : PCLoopInv t ord s) (hstop : s.stop = false) (hfuel : s.cliqueIndex + 2 ≤ fuel) :
    ∃ t', PCStrategy.loop fuel s t = .ok t' ∧ CTInv t' ord ∧ PCLoopRel t t' :=
  PCStrategy.loop_spec fuel s t hinv hstop hfuel

/-- [S] **`merge_cliques` (parent–child) as a whole**, from the state `PCInit` in which it is
entered (a clique tree with ≥ 2 cliques, all live, `snode_post` a post-order with the only root
last): the loop with the fuel the model hands out terminates, `post_process_merge`
(`post_order` on the parent array with `INACTIVE_NODE` markers) terminates; the result satisfies
`CTInv` (hence separator = clique ∩ parent and running intersection), covers every input
clique, `n_cliques` = number of live cliques = length of the new `snode_post`, which lists
exactly the live cliques, children before parents, the (unchanged, unique) root last. -/
theorem parent_child_merge_cliques {t : SuperNodeTree} {ord : Nat → Nat} (h : PCInit t ord) :
    ∃ t' post ch',
      PCStrategy.mergeCliques t = .ok { t' with snodePost := post, snodeChildren := ch' } ∧
      CTInv { t' with snodePost := post, snodeChildren := ch' } ord ∧ PCLoopRel t t' ∧
      t'.nCliques = liveCount t' ∧
      post.toList.Nodup ∧ post.size = t'.nCliques ∧ (∀ c, c ∈ post.toList ↔ Live t' c) ∧
      (∀ c, Live t' c → t'.snodeParent.getD c 0 ≠ noParent →
        List.Sublist [c, t'.snodeParent.getD c 0] post.toList) ∧
      (∀ c, Live t' c → (t'.snodeParent.getD c 0 = noParent ↔
        c = t.snodePost.getD (t.snode.size - 1) 0)) ∧
      post.toList.getLast? = some (t.snodePost.getD (t.snode.size - 1) 0) := by
  obtain ⟨t', post, ch', _, h2, _, h4, h5, h6, h7, h8, h9, h10, _, h12, h13⟩ :=
    PCStrategy.merge_cliques_pc_spec h
  exact ⟨t', post, ch', h2, h6, h4, h5, h7, h8, h9, h10, h12, h13⟩

/-- non-vacuity: the chain `0 → 1 → 2` with cliques `{1,2|3}`, `{3|4}`, `{4,5}` satisfies
`PCInit`, and the loop merges it into the single clique `{4,5,3,1,2}` -/
example : PCInit exTree (fun c => c) ∧
    PCStrategy.loop 4 { stop := false, cliqueIndex := 1 } exTree = .ok exTreeFinal :=
  ⟨exTree_init, exTree_loop⟩

/-! ## the analysis as a whole for the strategies `none` and `parent_child`
(`SuperNodeTree::new` incl. its back half, `SparsityPattern::new`) -/

/-- [S] the supernodal elimination tree returned by `find_supernodes` (`pothen_sun`'s
`snode_parent`): the supernode of the last vertex is the only root; every other supernode has a
largest vertex `w` and its parent is the (different) supernode containing `parent[w]`
(`SnParent`); together with `Supernodes` (partition into Pothen–Sun supernodes). -/
theorem find_supernodes_parent {parent post degree : Array Nat} {n : Nat}
    (hpar : EtreeParent parent n) (hdsz : degree.size = n)
    (hdpos : ∀ v, v + 1 < n → 0 < degree.getD v 0)
    (hnd : post.toList.Nodup) (hlt : ∀ v ∈ post.toList, v < n)
    (hpw : post.toList.Pairwise (fun a b => parent.getD b 0 ≠ a))
    (hall : ∀ v, v < n → v ∈ post.toList) (hlast : post.toList.getLast? = some (n - 1)) :
    ∃ snode sparent, findSupernodes parent post degree = .ok (snode, sparent) ∧
      Supernodes parent degree n snode ∧ SnParent parent n snode sparent :=
  find_supernodes_parent_spec hpar hdsz hdpos hnd hlt hpw hall hlast

/-- [S] **`SuperNodeTree::new` on a filled pattern** terminates without panic (incl.
`children_from_parent` / `post_order` on the supernodal tree) and returns a valid clique tree
(`SnTreeOk`): supernodes partition the vertices and are chains with
`separator = col(representative) \ supernode` (`SnCover`, hence coverage), the clique-tree
invariant `CTInv` (hence separator = clique ∩ parent clique and running intersection), all
cliques live, `snode_post` a permutation of the clique indices with children before parents and
the unique root (the clique of the last vertex) last; with ≥ 2 cliques it is a valid entry
state `PCInit` of the parent–child merge. -/
theorem supernode_tree_new {L : LPat} (h : L.Filled) :
    ∃ t, SuperNodeTree.new L = .ok t ∧ SnTreeOk L t ∧
      (2 ≤ t.snode.size → PCInit t (fun c => maxOf (t.snode.getD c #[]))) := by
  obtain ⟨t, h1, h2⟩ := sntree_new_ok h
  exact ⟨t, h1, h2, h2.pcinit⟩

/-- [S] **pipeline, strategy `none`**: for a filled pattern `L` and an `ordering` that is a
permutation of `0..n`, `SparsityPattern::new(L, ordering, "none")` returns (no panic) `(tf, ord')`
where `tf` is the clique tree `t0 = SuperNodeTree::new(L)` relabelled by a permutation `q`
(`AnalysisOk`: `CTInv tf` — separator = clique ∩ parent clique, running intersection —,
`snode_post` lists the live cliques once, `nblk[i] = |clique(snode_post[i])|`), `ord'` is a
permutation with `ord'[q[x]] = ordering[x]`, and every structural non-zero `(r, x)` of `L` is
covered by a live clique of `tf`. -/
theorem analysis_none {L : LPat} (h : L.Filled) (ordering : Array Nat)
    (ho : ordering.toList.Perm (List.range L.n)) :
    ∃ (t0 tf : SuperNodeTree) (ord' q : Array Nat),
      SuperNodeTree.new L = .ok t0 ∧ SnTreeOk L t0 ∧
      sparsityPatternNew L ordering "none" = .ok (tf, ord') ∧
      AnalysisOk L.n t0 q tf (fun c => maxOf (t0.snode.getD c #[])) ∧
      ord'.toList.Perm (List.range L.n) ∧
      (∀ x, x < L.n → ord'.getD (q.getD x 0) 0 = ordering.getD x 0) ∧
      (∀ x, x < L.n → ∀ r ∈ L.col x, ∃ c, Live tf c ∧
        q.getD x 0 ∈ cliqueList tf c ∧ q.getD r 0 ∈ cliqueList tf c) :=
  analysis_none_final h ordering ho

/-- [S] **pipeline, strategy `parent_child`**: the same for
`SparsityPattern::new(L, ordering, "parent_child")`, where `tf` is the MERGED tree `t1` (the
output of the whole merge loop + `post_process_merge`, `PreReorder`) relabelled by `q`. -/
theorem analysis_parent_child {L : LPat} (h : L.Filled) (ordering : Array Nat)
    (ho : ordering.toList.Perm (List.range L.n)) :
    ∃ (t0 t1 tf : SuperNodeTree) (ord' q : Array Nat),
      SuperNodeTree.new L = .ok t0 ∧ SnTreeOk L t0 ∧
      PreReorder L.n t1 (fun c => maxOf (t0.snode.getD c #[])) ∧
      sparsityPatternNew L ordering "parent_child" = .ok (tf, ord') ∧
      AnalysisOk L.n t1 q tf (fun c => maxOf (t0.snode.getD c #[])) ∧
      ord'.toList.Perm (List.range L.n) ∧
      (∀ x, x < L.n → ord'.getD (q.getD x 0) 0 = ordering.getD x 0) ∧
      (∀ x, x < L.n → ∀ r ∈ L.col x, ∃ c, Live tf c ∧
        q.getD x 0 ∈ cliqueList tf c ∧ q.getD r 0 ∈ cliqueList tf c) :=
  analysis_pc_final h ordering ho

/-- [S] what `AnalysisOk` gives about the returned tree: separator = clique ∩ parent clique for
every live non-root clique, running intersection (oracle form), `snode_post` duplicate-free
listing exactly the live cliques, `nblk[i] = |clique(snode_post[i])|`. -/
theorem analysis_ok_consequences {n : Nat} {t1 tf : SuperNodeTree} {q : Array Nat}
    {ord : Nat → Nat} (h : AnalysisOk n t1 q tf ord) :
    (∀ c, Live tf c → tf.snodeParent.getD c 0 ≠ noParent → ∀ v,
      (v ∈ (tf.separators.getD c #[]).toList ↔
        v ∈ cliqueList tf c ∧ v ∈ cliqueList tf (tf.snodeParent.getD c 0))) ∧
    RunInt tf ∧ tf.snodePost.toList.Nodup ∧ (∀ c, c ∈ tf.snodePost.toList ↔ Live tf c) ∧
    ∃ nb, tf.nblk = some nb ∧ nb.size = tf.nCliques ∧
      ∀ i, i < tf.nCliques → nb.getD i 0 = (cliqueList tf (tf.snodePost.getD i 0)).length :=
  ⟨fun _ hl hnp v => h.ct.sep_eq_inter hl hnp v, h.ct.runInt, h.post_nodup, h.post_live, h.nblk⟩

/-- non-vacuity: both pipelines run on the filled pattern `exL` with the identity ordering -/
example : (∃ tf ord', sparsityPatternNew exL #[0, 1, 2, 3, 4] "none" = .ok (tf, ord')) ∧
    (∃ tf ord', sparsityPatternNew exL #[0, 1, 2, 3, 4] "parent_child" = .ok (tf, ord')) := by
  obtain ⟨_, tf, ord', _, _, _, h1, _⟩ :=
    analysis_none exL_filled #[0, 1, 2, 3, 4] (List.Perm.refl _)
  obtain ⟨_, _, tf', ord'', _, _, _, _, h2, _⟩ :=
    analysis_parent_child exL_filled #[0, 1, 2, 3, 4] (List.Perm.refl _)
  exact ⟨⟨tf, ord', h1⟩, ⟨tf', ord'', h2⟩⟩

/-! ## the validity predicate of the harness oracle, machine-checked
(`ClarabelModel/Chordal/Valid.lean`: `validCliqueTreeB`, evaluated by the driver on the model's
output of every analysis case — response field `valid=` — and against `check_clique_tree` on
corrupted trees — channel `tree.valid`) -/

/-- [S] the executable checker decides the Prop-level validity statement `ValidCliqueTree`
(ordering a permutation, consistent sizes, and either the single-clique case or: `snode_post`
duplicate-free, dead cliques empty, supernodes = consecutive ranges partitioning `0..n`, clique
lists repetition-free and in range, exactly one root and it is last, parents live and later in
the post-order, separator = clique ∩ parent clique, root separator empty, children = inverse of
parents, running intersection, `nblk`, coverage of the pattern). -/
theorem valid_clique_tree_checker (n : Nat) (edges : List (Nat × Nat)) (t : SuperNodeTree)
    (ordering : Array Nat) :
    validCliqueTreeB n edges t ordering = true ↔ ValidCliqueTree n edges t ordering :=
  validCliqueTreeB_iff n edges t ordering

/-- [S] **C17 for the strategy `none`, in the oracle's own terms**: for a filled pattern `L`, an
`ordering` that is a permutation, and pattern entries `edges` (original coordinates) that are
entries of `L` at the positions of their endpoints in `ordering`,
`SparsityPattern::new(L, ordering, "none")` returns without panic a tree and an ordering that
satisfy `ValidCliqueTree` — every clause the harness oracle `check_clique_tree` tests. -/
theorem analysis_none_valid {L : LPat} (h : L.Filled) (ordering : Array Nat)
    (ho : ordering.toList.Perm (List.range L.n)) (edges : List (Nat × Nat))
    (hedges : ∀ e ∈ edges, ∃ a b, a < L.n ∧ b < L.n ∧ ordering[a]? = some e.1 ∧
        ordering[b]? = some e.2 ∧ (b ∈ L.col a ∨ a ∈ L.col b)) :
    ∃ tf ord', sparsityPatternNew L ordering "none" = .ok (tf, ord') ∧
      ValidCliqueTree L.n edges tf ord' ∧ validCliqueTreeB L.n edges tf ord' = true :=
  Clarabel.Chordal.analysis_none_valid h ordering ho edges hedges

/-- [S] **C17 for the strategy `parent_child`, in the oracle's own terms** (same statement; the
tree is the one after the whole merge loop, `post_process_merge`, the relabelling and
`calculate_block_dimensions`; it may consist of a single clique). -/
theorem analysis_parent_child_valid {L : LPat} (h : L.Filled) (ordering : Array Nat)
    (ho : ordering.toList.Perm (List.range L.n)) (edges : List (Nat × Nat))
    (hedges : ∀ e ∈ edges, ∃ a b, a < L.n ∧ b < L.n ∧ ordering[a]? = some e.1 ∧
        ordering[b]? = some e.2 ∧ (b ∈ L.col a ∨ a ∈ L.col b)) :
    ∃ tf ord', sparsityPatternNew L ordering "parent_child" = .ok (tf, ord') ∧
      ValidCliqueTree L.n edges tf ord' ∧ validCliqueTreeB L.n edges tf ord' = true :=
  Clarabel.Chordal.analysis_pc_valid h ordering ho edges hedges

/-- [S] the same, with the hypotheses in the executable form that the driver evaluates on every
generated case (channel `hyp.analysis`: `filled=1 perm=1 edges=1`): if the three tests pass on
`(L, ordering, edges)` then for both strategies the model's analysis succeeds and its output
passes the machine-checked validity checker. -/
theorem analysis_valid_of_tests (L : LPat) (ordering : Array Nat) (edges : List (Nat × Nat))
    (h1 : L.filledB = true) (h2 : clOrderingPerm L.n ordering = true)
    (h3 : L.edgesInB ordering edges = true) :
    (∃ tf ord', sparsityPatternNew L ordering "none" = .ok (tf, ord') ∧
      validCliqueTreeB L.n edges tf ord' = true) ∧
    (∃ tf ord', sparsityPatternNew L ordering "parent_child" = .ok (tf, ord') ∧
      validCliqueTreeB L.n edges tf ord' = true) := by
  have hf := (LPat.filledB_iff L).1 h1
  have ho := (clOrderingPerm_iff L.n ordering).1 h2
  have he := LPat.edgesInB_sound L ordering edges h3
  obtain ⟨tf, ord', a, _, b⟩ := analysis_none_valid hf ordering ho edges he
  obtain ⟨tf', ord'', a', _, b'⟩ := analysis_parent_child_valid hf ordering ho edges he
  exact ⟨⟨tf, ord', a, b⟩, ⟨tf', ord'', a', b'⟩⟩

/-- non-vacuity: the three tests pass on `exL` with the identity ordering and its six pattern
entries -/
example : exL.filledB = true ∧ clOrderingPerm exL.n #[0, 1, 2, 3, 4] = true ∧
    exL.edgesInB #[0, 1, 2, 3, 4] [(0, 1), (0, 2), (1, 2), (1, 4), (2, 4), (3, 4)] = true := by
  decide

/-! ## the clique-graph strategy: Kruskal's spanning tree and the parent assignment
(`merge/clique_graph.rs`: `kruskal`, `find_neighbors`, `assign_children`,
`determine_parent_cliques`) -/

/-- [S] `kruskal` on a well-formed edge matrix (`IMat.WFE`) with `0 < num_cliques`: no panic
(the union-find never exhausts its fuel), the pattern is kept and the values change only at the
marked positions, where they become `-1`. -/
theorem kruskal_ok {E : IMat} (h : E.WFE) {numCliques : Nat} (hnc : 0 < numCliques) :
    ∃ E', kruskal E numCliques = .ok E' ∧ E'.m = E.m ∧ E'.n = E.n ∧ E'.colptr = E.colptr ∧
      E'.rowval = E.rowval ∧ E'.nzval.size = E.nzval.size ∧
      ∀ k, E'.nzval.getD k 0 =
        if k ∈ (kruskalMarked E numCliques).map (·.1) then -1 else E.nzval.getD k 0 :=
  Clarabel.Chordal.kruskal_ok h hnc

/-- [S] the marked edges are ACYCLIC (each one joins two different connectivity classes of the
edges marked before it), the final union-find partition is their connectivity, and there are
`numEdgesFound ≤ max 1 (num_cliques - 1)` of them (`≤ num_cliques - 1` when `2 ≤ num_cliques`;
with `num_cliques = 1` the loop stops only after the first marked edge). -/
theorem kruskal_forest {E : IMat} (h : E.WFE) {numCliques : Nat} (hnc : 0 < numCliques) :
    (∀ (i : Nat) (hi : i < (kruskalTree E numCliques).length),
      ¬ Conn ((kruskalTree E numCliques).take i)
        (kruskalTree E numCliques)[i].1 (kruskalTree E numCliques)[i].2) ∧
    (∀ a b, a < E.n → b < E.n →
      (Dsu.Same (kruskalRes E numCliques).d a b ↔ Conn (kruskalTree E numCliques) a b)) ∧
    (kruskalTree E numCliques).length = (kruskalRes E numCliques).found ∧
    (kruskalTree E numCliques).length ≤ max 1 (numCliques - 1) ∧
    (2 ≤ numCliques → (kruskalTree E numCliques).length ≤ numCliques - 1) :=
  Clarabel.Chordal.kruskal_forest h hnc

/-- [S] **spanning tree**: if the `num_cliques` live cliques `Lv` carry all edges of `E` and are
connected by them, `kruskal` marks exactly `num_cliques - 1` edges of `E`, and they form a
spanning tree of `Lv` (acyclic and connecting all of `Lv`). -/
theorem kruskal_spanning {E : IMat} (h : E.WFE) {numCliques : Nat} (hnc : 0 < numCliques)
    {Lv : List Nat} (hLv : Lv.Nodup) (hlen : Lv.length = numCliques)
    (hedges : ∀ e ∈ E.edges, e.1 ∈ Lv ∧ e.2 ∈ Lv)
    (hconn : ∀ u ∈ Lv, ∀ v ∈ Lv, Conn E.edges u v) :
    (kruskalTree E numCliques).length = numCliques - 1 ∧
    ForestFrom [] (kruskalTree E numCliques) ∧
    (∀ e ∈ kruskalTree E numCliques, e ∈ E.edges) ∧
    (∀ u ∈ Lv, ∀ v ∈ Lv, Conn (kruskalTree E numCliques) u v) :=
  Clarabel.Chordal.kruskal_spanning h hnc hLv hlen hedges hconn

/-- [S] **`kruskal` + `determine_parent_cliques`** (the core of `clique_tree_from_graph`): under
the hypotheses of `kruskal_spanning`, for a strictly lower triangular `E` without weight `-1`,
both functions succeed (`assign_children` does not exhaust its fuel); the parent array orients
the spanning tree towards the root clique — every live non-root clique gets exactly one parent,
a tree neighbour; every tree edge is a parent link; every live clique climbs to the root
(`Oriented`); the root gets `NO_PARENT` when a clique contains `post.last()`; cliques outside
`Lv` keep their entry; the children lists gain exactly the inverse of the parent array on `Lv`,
without repetition. (`split_cliques`, proved above, then yields the separators.) -/
theorem kruskal_determine_parent_cliques {E : IMat} (h : E.WFE) (hl : E.Lower) {numCliques : Nat}
    (hnc : 0 < numCliques) (hw : ∀ k, k < E.nzval.size → E.nzval.getD k 0 ≠ -1)
    {Lv : List Nat} (hLv : Lv.Nodup) (hlen : Lv.length = numCliques)
    (hLlt : ∀ v ∈ Lv, v < E.n)
    (hedges : ∀ e ∈ E.edges, e.1 ∈ Lv ∧ e.2 ∈ Lv)
    (hconn : ∀ u ∈ Lv, ∀ v ∈ Lv, Conn E.edges u v)
    {par0 : Array Nat} {ch0 cliques : Array VSet} {post : Array Nat} {v0 : Nat}
    (hp : par0.size = E.n) (hc : ch0.size = E.n) (hpost : post.back? = some v0)
    (hroot : dpcRoot cliques v0 ∈ Lv)
    (hdead : ∀ v ∈ Lv, ∀ w ∈ Lv, par0.getD w 0 ≠ v) (hnp : ∀ v ∈ Lv, v ≠ noParent)
    (hch0 : ∀ c, c < E.n → (ch0.getD c #[]).toList.Nodup) :
    ∃ E' par' ch', kruskal E numCliques = .ok E' ∧
      determineParentCliques par0 ch0 cliques post E' = .ok (par', ch') ∧
      par'.size = E.n ∧ ch'.size = E.n ∧
      (kruskalTree E numCliques).length = numCliques - 1 ∧
      Oriented (kruskalTree E numCliques) Lv [dpcRoot cliques v0] (fun v => par'.getD v 0) ∧
      par'.getD (dpcRoot cliques v0) 0 =
        (if (cliques.findIdx? (fun clique => clique.contains v0)).isSome then noParent
         else par0.getD (dpcRoot cliques v0) 0) ∧
      (∀ v, v ∉ Lv → par'.getD v 0 = par0.getD v 0) ∧
      (∀ c, c < E.n → ∀ w, w ∈ (ch'.getD c #[]).toList ↔
        (w ∈ (ch0.getD c #[]).toList ∨
          (w ∈ Lv ∧ w ≠ dpcRoot cliques v0 ∧ par'.getD w 0 = c))) ∧
      (∀ c, c < E.n → (ch'.getD c #[]).toList.Nodup) :=
  kruskal_determineParentCliques h hl hnc hw hLv hlen hLlt hedges hconn hp hc hpost hroot hdead
    hnp hch0

/-- non-vacuity of the Kruskal theorems: the weighted triangle on the cliques `0,1,2` (clique `3`
dead): `kruskal` marks the two heaviest edges, which span `{0,1,2}` -/
example : KrEx.tri.WFE ∧ kruskalTree KrEx.tri 3 = [(1, 0), (2, 0)] ∧
    (kruskalTree KrEx.tri 3).length = 3 - 1 := by
  refine ⟨KrEx.tri_wfe, KrEx.tri_tree, ?_⟩
  rw [KrEx.tri_tree]; rfl

/-! ## the clique-graph strategy, front half (`merge/clique_graph.rs`: `compute_reduced_clique_graph`,
`compute_weights`, `new_from_triplets`, `compute_adjacency_table`, `initialise`, `traverse`,
`evaluate`, `merge_two_cliques`, `update_strategy`, the loop of `merge_cliques`,
`post_process_merge`) — `Lemmas/ChordalCG*.lean`

While this strategy runs the tree structure is given up: `snode[c]` is the whole clique and a
merged-away clique is the empty set (`CGLive`).  THE LOOP INVARIANT is `CGInv N nv s t`
(`Lemmas/ChordalCGDefs.lean`): the edge matrix is well-formed, square, strictly lower triangular
with sorted columns (`IMat.Good`) and stores no zero weight; its entries join live cliques only and
connect all of them; the adjacency table has exactly the live cliques as keys and
`b ∈ table[a] ↔ (a, b) is a stored entry` (so it is symmetric and never mentions a removed clique);
`n_cliques` counts the live cliques; `|nzval| ≤ |p|`; the clique sets are repetition-free subsets of
`0..nv`.  The harness evaluates the same invariant on the IMPLEMENTATION's state after every pass
(channel `cg.trace`, where the states of model and implementation are also compared). -/

/-- [S] `edge_metric` (cubic) does not panic and THE WEIGHT OF TWO NON-EMPTY CLIQUES IS NEVER `0`:
`|C₁|³ + |C₂|³ = |C₁ ∪ C₂|³` has no solution in positive integers (Fermat's last theorem for
exponent 3, Mathlib's `fermatLastTheoremThree`).  This is what keeps the graph intact: the weights
ARE the stored values, `set_entry` does not insert a `0` and `dropzeros` erases every stored `0`. -/
theorem edge_weight_ne_zero (ca cb : VSet) :
    ∃ w, edgeMetric ca cb = .ok w ∧ (ca ≠ #[] → cb ≠ #[] → w ≠ 0) :=
  edgeMetric_ok ca cb

/-- [S] `new_from_triplets` on in-range strictly lower triangular triplets (repetitions allowed):
no panic (none of the `usize` decrements of the consolidation pass underflows); the result is a
well-formed `n × n` strictly lower triangular matrix with strictly increasing rows in every column
(`IMat.Good` = `WFE` + `Lower` + `Sorted`), whose stored positions are exactly the triplet
positions, each value being the sum of the triplet values at that position. -/
theorem new_from_triplets (n : Nat) (I J : Array Nat) (V : Array Int) (hIJ : I.size = J.size)
    (hIV : I.size = V.size)
    (hlow : ∀ k, k < I.size → J.getD k 0 < I.getD k 0 ∧ I.getD k 0 < n) :
    ∃ E, IMat.newFromTriplets n n I J V = .ok E ∧ E.m = n ∧ E.n = n ∧ E.Good ∧
      (∀ r c, (E.entry r c).isSome = true ↔ ∃ k, k < I.size ∧ I.getD k 0 = r ∧ J.getD k 0 = c) ∧
      (∀ r c v, E.entry r c = some v →
        v = (((List.range I.size).filter (fun k => I.getD k 0 == r && J.getD k 0 == c)).map
              (fun k => V.getD k 0)).sum) :=
  newFromTriplets_spec n I J V hIJ hIV hlow

/-- non-vacuity: two triplets at `(1,0)` are consolidated -/
example : ∃ E, IMat.newFromTriplets 3 3 #[2, 1, 2, 1] #[1, 0, 0, 0] #[1, 5, 7, 2] = .ok E ∧ E.Good :=
  by
  obtain ⟨E, h, _, _, hg, _⟩ := new_from_triplets 3 #[2, 1, 2, 1] #[1, 0, 0, 0] #[1, 5, 7, 2] rfl rfl
    (by
      intro k hk
      have : k = 0 ∨ k = 1 ∨ k = 2 ∨ k = 3 := by simp at hk; omega
      rcases this with rfl | rfl | rfl | rfl <;> decide)
  exact ⟨E, h, hg⟩

/-- [S] `set_entry` at a strictly lower in-range position of a `Good` matrix: no panic, `Good` is
kept, exactly the addressed entry changes — a non-zero value is written or inserted, a zero is
written over an existing entry but never inserted. -/
theorem set_entry {E : IMat} (h : E.Good) {row col : Nat} (hlt : col < row) (hr : row < E.n)
    (v : Int) :
    ∃ E', E.setEntry row col v = .ok E' ∧ E'.Good ∧ E'.m = E.m ∧ E'.n = E.n ∧
      (∀ r c, E'.entry r c =
        if r = row ∧ c = col then
          (if v = 0 then (E.entry row col).map (fun _ => (0 : Int)) else some v)
        else E.entry r c) :=
  setEntry_spec E h row col hlt hr v

/-- [S] `dropzeros` on a `Good` matrix: no panic, `Good` is kept, exactly the entries with value
`0` disappear. -/
theorem dropzeros {E : IMat} (h : E.Good) :
    ∃ E', E.dropzeros = .ok E' ∧ E'.Good ∧ E'.m = E.m ∧ E'.n = E.n ∧
      (∀ r c, E'.entry r c = (E.entry r c).filter (fun v => v != 0)) :=
  dropzeros_spec E h

/-- non-vacuity of `set_entry` / `dropzeros`: the weighted triangle of the Kruskal examples -/
example : KrEx.tri.Good := KrEx.tri_good

/-- [S] `compute_reduced_clique_graph` NEVER PANICS, for any separators and clique sets (every
hash-map lookup hits, the recursion `DFS_hashtable` stays within the number of cliques containing
the separator, `is_unconnected` always finds a component); the separators come back permuted and
every emitted pair satisfies `cols[k] < rows[k] < |cliques|`. -/
theorem reduced_clique_graph_ok (separators cliques : Array VSet) :
    ∃ seps' rows cols, computeReducedCliqueGraph separators cliques = .ok (seps', rows, cols) ∧
      seps'.toList.Perm separators.toList ∧ rows.size = cols.size ∧
      (∀ k, k < rows.size → cols.getD k 0 < rows.getD k 0 ∧ rows.getD k 0 < cliques.size) :=
  reduced_ok separators cliques

/-- [S] THE EDGES OF A CLIQUE TREE ARE EDGES OF THE REDUCED CLIQUE GRAPH: if the separator `S` is
listed, `S = clique c ∩ clique p`, and the cliques fall into two sides (`c` on one, `p` on the other)
such that cliques on different sides meet inside `S` only (what running intersection gives for
the two components of the tree minus the edge `c — p`), then `compute_reduced_clique_graph` emits
the pair `(max c p, min c p)`. -/
theorem reduced_clique_graph_tree_edge {separators cliques seps' : Array VSet}
    {rows cols : Array Nat}
    (hrun : computeReducedCliqueGraph separators cliques = .ok (seps', rows, cols))
    (hnd : ∀ i, i < cliques.size → (cliques.getD i #[]).toList.Nodup)
    {c p : Nat} (hc : c < cliques.size) (hp : p < cliques.size)
    {S : VSet} (hS : S ∈ separators.toList) (hSnd : S.toList.Nodup)
    (hSeq : ∀ v, v ∈ S.toList ↔
      (v ∈ (cliques.getD c #[]).toList ∧ v ∈ (cliques.getD p #[]).toList))
    (side : Nat → Prop) (hsc : side c) (hsp : ¬ side p)
    (hcross : ∀ a b, a < cliques.size → b < cliques.size → side a → ¬ side b →
      ∀ v, v ∈ (cliques.getD a #[]).toList → v ∈ (cliques.getD b #[]).toList → v ∈ S.toList) :
    ∃ k, k < rows.size ∧ rows.getD k 0 = max c p ∧ cols.getD k 0 = min c p :=
  reduced_tree_edge separators cliques seps' rows cols hrun hnd c p hc hp S hS hSnd hSeq side hsc
    hsp hcross

/-- non-vacuity: the cliques `{0,1}`, `{1,2}` with the separator `{1}`: the pair `(1, 0)` is
emitted -/
example : ∃ seps' rows cols,
    computeReducedCliqueGraph #[#[1], #[]] #[#[0, 1], #[1, 2]] = .ok (seps', rows, cols) ∧
    ∃ k, k < rows.size ∧ rows.getD k 0 = 1 ∧ cols.getD k 0 = 0 := by
  obtain ⟨seps', rows, cols, hrun, _⟩ := reduced_clique_graph_ok #[#[1], #[]] #[#[0, 1], #[1, 2]]
  refine ⟨seps', rows, cols, hrun, ?_⟩
  have := reduced_clique_graph_tree_edge hrun
    (by
      intro i hi
      have : i = 0 ∨ i = 1 := by simp at hi; omega
      rcases this with rfl | rfl <;> decide)
    (c := 0) (p := 1) (by decide) (by decide) (S := #[1]) (by simp) (by decide)
    (by intro v; simp; omega) (fun a => a = 0) rfl (by decide)
    (by
      intro a b ha hb hsa hsb v hva hvb
      have hb' : b = 1 := by
        have : b = 0 ∨ b = 1 := by simp at hb; omega
        rcases this with rfl | rfl
        · exact absurd rfl hsb
        · rfl
      subst hsa; subst hb'
      have h1 : v = 0 ∨ v = 1 := by simpa using hva
      have h2 : v = 1 ∨ v = 2 := by simpa using hvb
      have : v = 1 := by omega
      simp [this])
  simpa using this

/-- [S] **`initialise` ESTABLISHES THE LOOP INVARIANT**: on the tree `t0` of `SuperNodeTree::new`
(filled pattern, ≥ 2 cliques) `initialise` does not panic; afterwards the supernodes are the whole
cliques, all parents are `INACTIVE_NODE`, the children lists are empty, the separators are only
permuted (`CGInitRel`), and `CGInv` holds: in particular the edge matrix is `Good`
(`IMat.WFE`/`IMat.Lower`), joins only live cliques, stores no zero weight, and EVERY PARENT–CHILD
PAIR OF THE SUPERNODE TREE IS A STORED ENTRY, so the cliques are connected. -/
theorem clique_graph_initialise {L : LPat} (h : L.Filled) {t0 : SuperNodeTree}
    (hok : SnTreeOk L t0) (h2 : 2 ≤ t0.snode.size) :
    ∃ s1 t1, CGStrategy.new.initialise t0 = .ok (s1, t1) ∧ s1.stop = false ∧
      CGInv t0.snode.size L.n s1 t1 ∧ CGInitRel t0 t1 :=
  initialise_ok L t0 h hok h2

/-- [S] the tree of `SuperNodeTree::new exL` has at least two cliques (`0` and `3` are not
adjacent) — non-vacuity of the hypotheses `SnTreeOk L t0`, `2 ≤ t0.snode.size` below -/
theorem exL_two_cliques : ∃ t0, SuperNodeTree.new exL = .ok t0 ∧ SnTreeOk exL t0 ∧
    2 ≤ t0.snode.size :=
  exFilledL_two_cliques

/-- non-vacuity of the invariant: `initialise` on the tree of `exL` yields a state satisfying
`CGInv` -/
example : ∃ N nv s t, CGInv N nv s t ∧ 2 ≤ t.nCliques := by
  obtain ⟨t0, _, hok, h2⟩ := exL_two_cliques
  obtain ⟨s1, t1, _, _, hinv, hrel⟩ := clique_graph_initialise exL_filled hok h2
  exact ⟨_, _, s1, t1, hinv, by rw [hrel.ncl, hok.ncl]; exact h2⟩

/-- [S] `traverse` under the invariant with ≥ 2 live cliques: no panic (`findmax` of a non-empty
weight vector, `max_elem`, every `ispermissible` lookup, the slice `p[0..nnz]`,
`index_to_coord`); only the workspace `p` changes, not its length; a returned candidate is a stored
entry of the edge matrix. -/
theorem clique_graph_traverse {N nv : Nat} {s : CGStrategy} {t : SuperNodeTree}
    (h : CGInv N nv s t) (h2 : 2 ≤ t.nCliques) :
    ∃ p' cand?, s.traverse t = .ok ({ s with p := p' }, cand?) ∧ p'.size = s.p.size ∧
      ∀ r c, cand? = some (r, c) → (s.edges.entry r c).isSome = true :=
  traverse_spec N nv s t h h2

/-- [S] `evaluate` on a stored entry: no panic (`get_entry(..).unwrap()`); merge iff the weight is
`≥ 0`, otherwise `stop`. -/
theorem clique_graph_evaluate {N nv : Nat} {s : CGStrategy} {t : SuperNodeTree}
    (h : CGInv N nv s t) {r c : Nat} {v : Int} (hv : s.edges.entry r c = some v) :
    s.evaluate t (r, c) = .ok (if v ≥ 0 then s else { s with stop := true }, decide (v ≥ 0)) :=
  evaluate_spec N nv s t h r c v hv

/-- [S] WHAT `update_strategy` DOES after `cr` was merged into `c1` (a stored entry `(c1, cr)`): no
panic; the new edge matrix is `Good`, without zero weight, and its graph is the old one with `cr`
contracted into `c1`; the adjacency table loses the key `cr`, NO SET MENTIONS `cr` ANY MORE, and
`c1` inherits the neighbours of `cr`. -/
theorem clique_graph_update_strategy {N nv : Nat} {s : CGStrategy} {t : SuperNodeTree}
    (h : CGInv N nv s t) {c1 cr : Nat} (he : (s.edges.entry c1 cr).isSome = true)
    {t' : SuperNodeTree} (hm : s.mergeTwoCliques t (c1, cr) = .ok t') :
    ∃ s', s.updateStrategy t' (c1, cr) true = .ok s' ∧ s'.stop = s.stop ∧ s'.p = s.p ∧
      s'.edges.Good ∧ s'.edges.m = N ∧ s'.edges.n = N ∧
      (∀ k, k < s'.edges.nzval.size → s'.edges.nzval.getD k 0 ≠ 0) ∧
      (∀ a b, s'.edges.Adj a b ↔ (a ≠ cr ∧ b ≠ cr ∧
        (s.edges.Adj a b ∨ (a = c1 ∧ s.edges.Adj cr b ∧ b ≠ c1) ∨
          (b = c1 ∧ s.edges.Adj cr a ∧ a ≠ c1)))) ∧
      (∀ a, s'.adjacencyTable.containsKey a = true ↔
        (s.adjacencyTable.containsKey a = true ∧ a ≠ cr)) ∧
      (∀ a b, a ≠ cr → s.adjacencyTable.containsKey a = true →
        (b ∈ (s'.adjacencyTable.nbrs a).toList ↔ (b ≠ cr ∧
          (b ∈ (s.adjacencyTable.nbrs a).toList ∨
            (a = c1 ∧ b ∈ (s.adjacencyTable.nbrs cr).toList ∧ b ≠ c1) ∨
            (b = c1 ∧ a ∈ (s.adjacencyTable.nbrs cr).toList ∧ a ≠ c1))))) ∧
      (∀ a, (s'.adjacencyTable.nbrs a).toList.Nodup) :=
  update_state_ok N nv s t h c1 cr he t' hm

/-- [S] **ONE MERGE PRESERVES THE LOOP INVARIANT**: `merge_two_cliques` + `update_strategy` on a
stored entry do not panic, `CGInv` holds again (contracting an edge keeps the live cliques
connected and does not increase the number of stored entries, so `p` stays long enough), exactly
one clique is retired, the other fields of the tree are untouched (`CGFrame`) and COVERAGE IS
MONOTONE (`CGCover`: merged cliques are unions). -/
theorem clique_graph_merge_invariant {N nv : Nat} {s : CGStrategy} {t : SuperNodeTree}
    (h : CGInv N nv s t) {r c : Nat} (he : (s.edges.entry r c).isSome = true) :
    ∃ t' s', s.mergeTwoCliques t (r, c) = .ok t' ∧ s.updateStrategy t' (r, c) true = .ok s' ∧
      CGInv N nv s' t' ∧ CGFrame t t' ∧ CGCover t t' ∧ t'.nCliques + 1 = t.nCliques ∧
      s'.stop = s.stop :=
  merge_update_ok N nv s t h r c he

/-- [S] under the invariant THE ADJACENCY TABLE NEVER MENTIONS A REMOVED CLIQUE and is symmetric:
a member `b` of the adjacency set of a live clique `a` is a live clique different from `a`, and
`a` is in the set of `b`.  (The seeded change C17-c — sweeping only the redirected neighbours —
breaks exactly this; the harness evaluates the invariant on the implementation's state after
every pass and reports the clause `adj-iff`.) -/
theorem clique_graph_adjacency_live {N nv : Nat} {s : CGStrategy} {t : SuperNodeTree}
    (h : CGInv N nv s t) {a b : Nat} (ha : CGLive t a)
    (hb : b ∈ (s.adjacencyTable.nbrs a).toList) :
    CGLive t b ∧ a ≠ b ∧ a ∈ (s.adjacencyTable.nbrs b).toList :=
  ⟨(h.nbrs_live ha hb).1, (h.nbrs_live ha hb).2, h.nbrs_symm ha hb⟩

/-- [S] **THE WHOLE LOOP** of `merge_cliques` (clique-graph strategy): from any state satisfying
`CGInv` with ≥ 2 live cliques and fuel at least `n_cliques + 1` (`1` if `stop` is already set) the
loop returns — no panic, fuel not exhausted — a state that satisfies `CGInv` again, with the
bookkeeping untouched, coverage monotone and at least one clique left. -/
theorem clique_graph_loop {N nv : Nat} (fuel : Nat) {s : CGStrategy} {t : SuperNodeTree}
    (hinv : CGInv N nv s t) (h2 : 2 ≤ t.nCliques)
    (hfuel : (if s.stop then 1 else t.nCliques + 1) ≤ fuel) :
    ∃ s' t', CGStrategy.loop fuel s t = .ok (s', t') ∧ CGInv N nv s' t' ∧ CGFrame t t' ∧
      CGCover t t' ∧ 1 ≤ t'.nCliques :=
  cg_loop_ok N nv fuel s t hinv h2 hfuel

/-- [S] **`initialise` + the loop on the tree of `SuperNodeTree::new`**, with the fuel the model
hands out (`|snode| + 2`): no panic, and AT EXIT THE HYPOTHESES OF THE KRUSKAL STAGE HOLD — they
are clauses of `CGInv`: the edge matrix is `WFE`/`Lower`, its entries join live cliques only, the
live cliques are connected, `n_cliques` is their number (and the root clique is live, see
`clique_graph_post_multi`). -/
theorem clique_graph_front {L : LPat} (h : L.Filled) {t0 : SuperNodeTree} (hok : SnTreeOk L t0)
    (h2 : 2 ≤ t0.snode.size) :
    ∃ s1 t1 s t, CGStrategy.new.initialise t0 = .ok (s1, t1) ∧
      CGStrategy.loop (t1.snode.size + 2) s1 t1 = .ok (s, t) ∧
      CGInitRel t0 t1 ∧ CGInv t0.snode.size L.n s1 t1 ∧
      CGInv t0.snode.size L.n s t ∧ CGFrame t1 t ∧ CGCover t1 t ∧ 1 ≤ t.nCliques :=
  cg_front_ok h hok h2

/-- [S] what `CGInv` gives to `kruskal_determine_parent_cliques`: `WFE`, `Lower`, the live list
is duplicate-free of length `n_cliques` with members `< n`, all edges inside it, and it is
connected. -/
theorem clique_graph_exit_kruskal_hyps {N nv : Nat} {s : CGStrategy} {t : SuperNodeTree}
    (h : CGInv N nv s t) :
    s.edges.WFE ∧ s.edges.Lower ∧ (cgLiveList t).Nodup ∧ (cgLiveList t).length = t.nCliques ∧
    (∀ v ∈ cgLiveList t, v < s.edges.n) ∧
    (∀ e ∈ s.edges.edges, e.1 ∈ cgLiveList t ∧ e.2 ∈ cgLiveList t) ∧
    (∀ u ∈ cgLiveList t, ∀ v ∈ cgLiveList t, Conn s.edges.edges u v) :=
  h.kruskal_hyps

/-- [S] `post_process_merge` + the tail of `SparsityPattern::new` WHEN EVERYTHING WAS MERGED INTO
ONE CLIQUE: no panic, the surviving clique is the whole vertex set, and the result satisfies the
oracle predicate (single-clique branch). -/
theorem clique_graph_post_single {L : LPat} (h : L.Filled) {t0 t1 t : SuperNodeTree}
    {s : CGStrategy} (hok : SnTreeOk L t0) (hrel : CGInitRel t0 t1) (hfr : CGFrame t1 t)
    (hcov : CGCover t1 t) (hinv : CGInv t0.snode.size L.n s t) (h1 : t.nCliques = 1)
    (ordering : Array Nat) (ho : ordering.toList.Perm (List.range L.n))
    (edges : List (Nat × Nat)) :
    ∃ s' t' tf ord', s.postProcessMerge t = .ok (s', t') ∧ spTail t' ordering = .ok (tf, ord') ∧
      ValidCliqueTree L.n edges tf ord' :=
  post_single_spec L t0 t1 t s h hok hrel hfr hcov hinv h1 ordering ho edges

/-- [S] `post_process_merge` WHEN AT LEAST TWO CLIQUES ARE LEFT: no panic
(`clique_intersections` — no weight is the `-1` sentinel afterwards —, `kruskal`,
`determine_parent_cliques` — THE ROOT CLIQUE IS LIVE —, `post_order`, `split_cliques`); and if the
supernodes of the result are pairwise disjoint (`snDisjointB`, the running-intersection property
of the spanning tree) and the live ones non-empty (`snLiveNonemptyB`: no live clique swallowed by
its tree parent; neither is a theorem, and without the second the statement is false — see
`Lemmas/ChordalCGPostMulti.lean`) the result is a clique tree in the state `BridgePre` in which
`SparsityPattern::new` relabels it: `CTInv` (separator = clique ∩ parent clique, children =
inverse of parents, …), `snode_post` lists exactly the live cliques, children before parents, the
unique root last, every structural non-zero of `L` inside a live clique. -/
theorem clique_graph_post_multi {L : LPat} (h : L.Filled) {t0 t1 t : SuperNodeTree}
    {s : CGStrategy} (hok : SnTreeOk L t0) (hrel : CGInitRel t0 t1) (hfr : CGFrame t1 t)
    (hcov : CGCover t1 t) (hinv : CGInv t0.snode.size L.n s t) (h2 : 2 ≤ t.nCliques) :
    ∃ s' t', s.postProcessMerge t = .ok (s', t') ∧
      (snDisjointB t' = true → snLiveNonemptyB t' = true →
        ∃ ord : Nat → Nat, BridgePre L t' ord) :=
  post_multi_spec L t0 t1 t s h hok hrel hfr hcov hinv h2

/-- [S] **`merge_cliques` (clique-graph strategy) NEVER PANICS** on the tree of a filled pattern
with ≥ 2 cliques: `initialise`, the loop within its fuel, `post_process_merge`. -/
theorem clique_graph_merge_cliques_no_panic {L : LPat} (h : L.Filled) {t0 : SuperNodeTree}
    (hok : SnTreeOk L t0) (h2 : 2 ≤ t0.snode.size) :
    ∃ t', CGStrategy.mergeCliques t0 = .ok t' :=
  merge_cliques_cg_no_panic h hok h2

/-- non-vacuity: `merge_cliques` runs on the tree of `exL` -/
example : ∃ t0 t', SuperNodeTree.new exL = .ok t0 ∧ CGStrategy.mergeCliques t0 = .ok t' := by
  obtain ⟨t0, hnew, hok, h2⟩ := exL_two_cliques
  obtain ⟨t', h⟩ := clique_graph_merge_cliques_no_panic exL_filled hok h2
  exact ⟨t0, t', hnew, h⟩

/-
  FULL STATEMENT (not proved):
    theorem analysis_clique_graph_valid {L : LPat} (h : L.Filled) (ordering : Array Nat)
        (ho : ordering.toList.Perm (List.range L.n)) (edges : List (Nat × Nat))
        (hedges : ∀ e ∈ edges, …) :
        ∃ tf ord', sparsityPatternNewCG L ordering = .ok (tf, ord') ∧
          ValidCliqueTree L.n edges tf ord'
  Missing link: RUNNING INTERSECTION of the spanning tree that `kruskal` picks in the merged clique
  graph, i.e. that the supernodes `clique \ parent clique` produced by `split_cliques` are pairwise
  disjoint — and, its companion, that none of them is empty (no live clique contained in the clique
  of its tree parent; true as long as the live cliques form an antichain,
  `CGPostDesc.nonempty_of_antichain`, which merging along a junction-tree edge preserves).  It needs (1) that `kruskal` returns a MAXIMUM-weight spanning tree (proved so far:
  a spanning tree), (2) that a maximum-weight spanning tree of a graph weighted by `|Cᵢ ∩ Cⱼ|` that
  contains a junction tree is a junction tree, and (3) that the merged graph still contains a
  junction tree of the merged cliques — the theorem of Garstka–Cannon–Goulart on permissible
  merges, for which the loop invariant would have to carry "every stored entry lies on a junction
  tree inside the graph".  In the partial theorem below the two links are the executable
  hypotheses `cgRipB L = true` and `cgNonemptyB L = true`, evaluated by the driver on every
  generated pattern (channel `cg.trace`, fields `rip`, `ne`) and, independently, on the
  implementation's tree by the harness.
-/

/-- [S] **C17 FOR THE STRATEGY `clique_graph`, up to two tested links** (`…_partial`): for a filled
pattern `L`, an `ordering` that is a permutation and pattern entries inside `L`, if the supernodes
of the tree returned by `merge_cliques` are pairwise disjoint (`cgRipB L`) and the live ones
non-empty (`cgNonemptyB L`), then
`SparsityPattern::new(L, ordering, "clique_graph")` returns WITHOUT PANIC a tree and an ordering
that satisfy `ValidCliqueTree` — every clause of the harness oracle — and the executable checker
accepts them.  Everything else is a theorem: the reduced clique graph contains the supernode tree,
the loop invariant, termination, the hypotheses of the Kruskal stage at exit, the parent
structure, the post-order, separator = clique ∩ parent clique, coverage (merged cliques are
unions, `CGCover`), the relabelling and the block sizes. -/
theorem analysis_clique_graph_valid_partial {L : LPat} (h : L.Filled) (ordering : Array Nat)
    (ho : ordering.toList.Perm (List.range L.n)) (edges : List (Nat × Nat))
    (hedges : ∀ e ∈ edges, ∃ a b, a < L.n ∧ b < L.n ∧ ordering[a]? = some e.1 ∧
        ordering[b]? = some e.2 ∧ (b ∈ L.col a ∨ a ∈ L.col b))
    (hrip : cgRipB L = true) (hne : cgNonemptyB L = true) :
    ∃ tf ord', sparsityPatternNewCG L ordering = .ok (tf, ord') ∧
      ValidCliqueTree L.n edges tf ord' ∧ validCliqueTreeB L.n edges tf ord' = true :=
  analysis_cg_valid_partial h ordering ho edges hedges hrip hne

/-- [S] the same with every hypothesis in the executable form the driver evaluates on each
generated case (`hyp.analysis`: `filled=1 perm=1 edges=1`; `cg.trace`: `rip=1 ne=1`). -/
theorem analysis_clique_graph_valid_of_tests (L : LPat) (ordering : Array Nat)
    (edges : List (Nat × Nat)) (h1 : L.filledB = true) (h2 : clOrderingPerm L.n ordering = true)
    (h3 : L.edgesInB ordering edges = true) (h4 : cgRipB L = true)
    (h5 : cgNonemptyB L = true) :
    ∃ tf ord', sparsityPatternNewCG L ordering = .ok (tf, ord') ∧
      validCliqueTreeB L.n edges tf ord' = true := by
  obtain ⟨tf, ord', a, _, b⟩ := analysis_clique_graph_valid_partial ((LPat.filledB_iff L).1 h1)
    ordering ((clOrderingPerm_iff L.n ordering).1 h2) edges (LPat.edgesInB_sound L ordering edges h3)
    h4 h5
  exact ⟨tf, ord', a, b⟩

/-!
Not carried by a theorem: for the clique-graph strategy, the RUNNING-INTERSECTION property of the
spanning tree chosen by `kruskal` in the merged clique graph and that no live clique is swallowed
by its tree parent (see the comment above `analysis_clique_graph_valid_partial`; they are the
tested hypotheses `cgRipB`, `cgNonemptyB`, evaluated by the driver on every generated pattern and
by the harness on the implementation's tree).  The AMD ordering and
QDLDL's symbolic factorisation are inputs (the hypothesis `LPat.Filled` is evaluated on them by
the driver on every run).
-/

end Clarabel.C17
