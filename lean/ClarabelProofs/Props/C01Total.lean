/-
  C01 ∘ C04 — the TOTAL form of `C01.full_solved_certifies` / `full_almost_solved_certifies`: the two
  run hypotheses `Solver.new … = .ok S`, `S.solve st = .ok r` of the end-to-end theorems are
  DISCHARGED by C04's panic-freedom (`C04.full_no_panic`, `Solver.solverNew_ok_of_modelled`), so that
  every hypothesis left is about the user's input and settings.

  What C04 needs, exactly: `InputOK` (already a hypothesis of the C01 theorem), every cone of the
  user's list zero / nonnegative / second-order (`ConeT.modelled`: the cone kinds of this model;
  otherwise `new` answers `.err`), `0 < n`, `PermFor` (the ordering handed to QDLDL is a permutation
  of the KKT dimension; AMD in the code), `PivotOK` (the dynamic regularisation never leaves an
  exactly zero pivot: `refactor().unwrap()`), `FmaxOK` (`¬ max(0, r) < 0`).  The statement is over `ℝ`
  (class [R], like the C01 theorem), where `FmaxOK ℝ` is a theorem (`Solver.fmaxOK_real`) — so it is
  not a hypothesis — and `PivotOK` follows from `dynamic_regularization_eps > 0`,
  `dynamic_regularization_delta ≠ 0` (`Solver.pivotOK_real`).

  A file of its own (imported by `Props/C01.lean`) because of its import chain (C04's no-panic chain
  and C01's composition chain could not be imported together before the rename
  `Solver.PInv → Solver.RecInv` in `Lemmas/SolverReport.lean`).
-/
import ClarabelProofs.Props.C01Full
import ClarabelProofs.Lemmas.SolverTotal

namespace Clarabel.C01
open Clarabel Clarabel.Solver Clarabel.InfoUser Clarabel.Dense

/-- **[R] `C01.full_solve_total`** — `DefaultSolver::new` + `solve()` RETURN, and a `Solved` /
`AlmostSolved` answer certifies the USER's problem: no run hypothesis left.

For well-formed input (`InputOK`) with zero / nonnegative / second-order cones, `n ≥ 1`, an ordering
`perm` that is a permutation of the KKT dimension (`PermFor`), regularisation parameters that never
leave a zero pivot (`PivotOK`), presolve off or dropping no row (`hpre`), positive equilibration
bounds, `0 < max_step_fraction < 1`, `T::max_value() > 0`:
`Solver.new P q A b cones st perm` returns a solver object `S`, `S.solve st` returns `r`, and IF
`r`'s status is `Solved` (then `tol` = the full tolerances) or `AlmostSolved` (then `tol` = the reduced
tolerances) THEN the returned `x, s, z` pass the documented termination test with `tol` on the user's
`P` (`P.to_triu()`), `q`, `A`, `b` (capped), `s ∈ K`, `z ∈ K*`, and `|x| = n`, `|s| = |z| = m` — the
conclusion of `full_solved_certifies` / `full_almost_solved_certifies` verbatim. -/
theorem full_solve_total {P : Csc ℝ} {q : Array ℝ} {A : Csc ℝ} {b : Array ℝ}
    {cones : List (ConeT ℝ)} {st : Solver.Settings ℝ} {perm : Array Nat}
    (hin : InputOK P q A b cones) (hm : ∀ c ∈ cones, ConeT.modelled c) (hn : 0 < P.n)
    (hperm : PermFor P q A b cones st perm) (hpiv : PivotOK st.lin)
    (hpre : st.presolveEnable = false ∨ ∃ keep,
      Presolve.keepFlags (Presolve.threshold st.infbound) (Cones.newCollapsed cones) b.toList = .ok keep
        ∧ keep.count true = b.size)
    (hlo : 0 < st.equil.minScaling) (hhi : 0 < st.equil.maxScaling)
    (hf0 : 0 < st.maxStepFraction) (hf1 : st.maxStepFraction < 1) (hmv : 0 < st.maxValue) :
    ∃ S r, Solver.new P q A b cones st perm = .ok S ∧ S.solve st = .ok r ∧
      ∀ tol : Info.Tols ℝ,
        (r.S.solution.status = .solved ∧ tol = st.info.full)
          ∨ (r.S.solution.status = .almostSolved ∧ tol = st.info.reduced) →
      ∃ Pn, ProblemData.triuStep P = .ok Pn ∧
        let bc := ProblemData.capB b st.infbound
        let p := problemOf Pn q A bc A.n A.m
        let x := vecFn r.S.solution.x A.n
        let sv := vecFn r.S.solution.s A.m
        let z := vecFn r.S.solution.z A.m
        let pobj := dot x (mulV p.P x) / 2 + dot p.q x
        let dobj := -dot p.b z - dot x (mulV p.P x) / 2
        nrm (fun k => mulV p.A x k + sv k - p.b k) / max 1 (Vec.normInf bc + nrm x + nrm sv) < tol.feas
        ∧ nrm (fun j => mulV p.P x j + mulVT p.A z j + p.q j) / max 1 (Vec.normInf q + nrm x + nrm z)
            < tol.feas
        ∧ (|pobj - dobj| < tol.gap_abs ∨ |pobj - dobj| / max 1 (min |pobj| |dobj|) < tol.gap_rel)
        ∧ Equil.CompositeMem Equil.ConeMem (Cones.newCollapsed cones) r.S.solution.s.toList
        ∧ Equil.CompositeMem Equil.ConeMemDual (Cones.newCollapsed cones) r.S.solution.z.toList
        ∧ r.S.solution.x.size = A.n ∧ r.S.solution.s.size = A.m ∧ r.S.solution.z.size = A.m := by
  obtain ⟨S, r, hnew, hr⟩ := run_total_real hin hm hn hperm hpiv
  refine ⟨S, r, hnew, hr, ?_⟩
  rintro tol (⟨hst, rfl⟩ | ⟨hst, rfl⟩)
  · exact full_solved_certifies hin hpre hlo hhi hf0 hf1 hmv hnew hr hst
  · obtain ⟨Pn, hP, h1, h2, h3, h4, h5⟩ :=
      full_almost_solved_certifies hin hpre hlo hhi hf0 hf1 hmv hnew hr hst
    obtain ⟨_, _, _, _, _, _, _, _, l1, l2, l3⟩ :=
      full_report_chain (interior_stepHyp st hf0 hf1 hmv) (interior_initHyp st)
        (fun _ _ h => h.pos.1) ⟨hin, hpre, hlo, hhi⟩ hnew hr (by rw [hst]; rfl)
    exact ⟨Pn, hP, h1, h2, h3, h4, h5, l1, l2, l3⟩

/-- **[R] `C01.full_solve_total_presolved`** — `full_solve_total` when presolve is enabled and DROPS
ROWS (`keep` = the keep vector of `make_reduction_map`, at least one flag `false`; with
`full_solve_total` — presolve off or nothing dropped — every case is covered): `new` returns, `solve()`
returns, and IF the status is `Solved` (`tol` = full tolerances) or `AlmostSolved` (`tol` = reduced
tolerances) THEN the conclusion of `full_solved_certifies_presolved` /
`full_almost_solved_certifies_presolved` holds: dual residual and gap tests verbatim on the user's
full data, the primal test over the kept rows, `(s, z) = (infbound, 0)` on the dropped rows; and for
`Solved` also `s ∈ K`, `z ∈ K*` for the full vectors and `|x| = n`. -/
theorem full_solve_total_presolved {P : Csc ℝ} {q : Array ℝ} {A : Csc ℝ} {b : Array ℝ}
    {cones : List (ConeT ℝ)} {st : Solver.Settings ℝ} {perm : Array Nat} {keep : List Bool}
    (hin : InputOK P q A b cones) (hm : ∀ c ∈ cones, ConeT.modelled c) (hn : 0 < P.n)
    (hperm : PermFor P q A b cones st perm) (hpiv : PivotOK st.lin)
    (hpe : st.presolveEnable = true)
    (hk : Presolve.keepFlags (Presolve.threshold st.infbound) (Cones.newCollapsed cones) b.toList = .ok keep)
    (hc : keep.count true < b.size) (hib : 0 ≤ st.infbound)
    (hlo : 0 < st.equil.minScaling) (hhi : 0 < st.equil.maxScaling)
    (hf0 : 0 < st.maxStepFraction) (hf1 : st.maxStepFraction < 1) (hmv : 0 < st.maxValue) :
    ∃ S r, Solver.new P q A b cones st perm = .ok S ∧ S.solve st = .ok r ∧
      (∀ tol : Info.Tols ℝ,
        (r.S.solution.status = .solved ∧ tol = st.info.full)
          ∨ (r.S.solution.status = .almostSolved ∧ tol = st.info.reduced) →
      ∃ Pn, ProblemData.triuStep P = .ok Pn ∧
        let n := A.n
        let m := A.m
        let bc := ProblemData.capB b st.infbound
        let Pd := symFn Pn n
        let qd := vecFn q n
        let x := vecFn r.S.solution.x n
        let s := vecFn r.S.solution.s m
        let z := vecFn r.S.solution.z m
        let kp := InfoPresolve.keepFn keep m
        let normb := Vec.normInf (ProblemData.capB (Vec.select b keep.toArray) st.infbound)
        let pobj := dot x (mulV Pd x) / 2 + dot qd x
        let dobj := -dot (vecFn bc m) z - dot x (mulV Pd x) / 2
        InfoPresolve.nrmKept kp (fun i => mulV (matFn A m n) x i + s i - vecFn bc m i)
            / max 1 (normb + nrm x + InfoPresolve.nrmKept kp s) < tol.feas
        ∧ nrm (fun j => mulV Pd x j + mulVT (matFn A m n) z j + qd j)
            / max 1 (Vec.normInf q + nrm x + nrm z) < tol.feas
        ∧ (|pobj - dobj| < tol.gap_abs ∨ |pobj - dobj| / max 1 (min |pobj| |dobj|) < tol.gap_rel)
        ∧ (∀ i, kp i = false → s i = st.infbound ∧ z i = 0))
      ∧ (r.S.solution.status = .solved →
          Equil.CompositeMem Equil.ConeMem (Cones.newCollapsed cones) r.S.solution.s.toList
          ∧ Equil.CompositeMem Equil.ConeMemDual (Cones.newCollapsed cones) r.S.solution.z.toList
          ∧ r.S.solution.x.size = A.n) := by
  obtain ⟨S, r, hnew, hr⟩ := run_total_real hin hm hn hperm hpiv
  refine ⟨S, r, hnew, hr, ?_, ?_⟩
  · rintro tol (⟨hst, rfl⟩ | ⟨hst, rfl⟩)
    · obtain ⟨Pn, hP, h1, h2, h3, h4, _⟩ :=
        full_solved_certifies_presolved hin hpe hk hc hib hlo hhi hf0 hf1 hmv hnew hr hst
      exact ⟨Pn, hP, h1, h2, h3, h4⟩
    · exact full_almost_solved_certifies_presolved hin hpe hk hc hlo hhi hf0 hf1 hmv hnew hr hst
  · intro hst
    obtain ⟨_, _, _, _, _, _, h5, h6, h7⟩ :=
      full_solved_certifies_presolved hin hpe hk hc hib hlo hhi hf0 hf1 hmv hnew hr hst
    exact ⟨h5, h6, h7⟩

/-! ### non-vacuity: over `ℝ` every hypothesis of `full_solve_total` holds on
`min x s.t. x + s = 1, s ≥ 0` with the defaults of `DefaultSettings` (`Lemmas/SolverTotal.lean`) -/

example : InputOK FullExample.P #[1] FullExample.A #[1] ([.nonneg 1] : List (ConeT ℝ)) :=
  FullExample.inputOK
example : ∀ c ∈ ([.nonneg 1] : List (ConeT ℝ)), ConeT.modelled c := FullExample.modelled
example : PermFor FullExample.P #[1] FullExample.A #[1] ([.nonneg 1] : List (ConeT ℝ))
    FullExample.stR #[0, 1] := FullExample.permFor _ rfl
example : PivotOK FullExample.stR.lin := FullExample.stR_pivotOK
/-- `FmaxOK` — the fifth hypothesis of `C04.full_no_panic` — is a theorem over `ℝ` -/
example : FmaxOK ℝ := fmaxOK_real
/-- … so the theorem applies: over `ℝ`, `new` returns a solver object on this instance, `solve()`
returns, and the certificate implication holds for what it returns -/
example : ∃ S r, Solver.new FullExample.P #[1] FullExample.A #[1] ([.nonneg 1] : List (ConeT ℝ))
      FullExample.stR #[0, 1] = .ok S ∧ S.solve FullExample.stR = .ok r := by
  obtain ⟨h0, h1, h2, h3, h4, h5, _⟩ := FullExample.stR_ok
  obtain ⟨S, r, a, b, _⟩ := full_solve_total FullExample.inputOK FullExample.modelled (by decide)
    (FullExample.permFor _ rfl) FullExample.stR_pivotOK (Or.inl h0) h1 h2 h3 h4 h5
  exact ⟨S, r, a, b⟩

end Clarabel.C01
