/-
  C13 — symmetric-cone scaling operators satisfy the Nesterov–Todd identities.
  Property theorems only; helper lemmas live in `ClarabelProofs/Lemmas/Cones*.lean`.
-/
import ClarabelProofs.Lemmas.ConesNN
import ClarabelProofs.Lemmas.ConesSocScaling
import ClarabelProofs.Lemmas.ConesPsd

namespace Clarabel.C13
open Clarabel

/-! ## Nonnegative cone -/
section NN
open Nonneg

/-- [R] `update_scaling` on the nonnegative cone always succeeds and stores
`w = √(s/z)`, `λ = √(s·z)` (`Nonneg.scaled`). -/
theorem nn_update_scaling (s z : Array ℝ) (h : s.size = z.size) :
    updateScaling (new s.size) s z = .ok (scaled s z) :=
  updateScaling_ok s z h

/-- [R] NN: `W z = λ` for interior `(s,z)`. -/
theorem nn_W_z_eq_lam (s z y : Array ℝ) (h : s.size = z.size) (hy : y.size = z.size)
    (hs : Pos s) (hz : Pos z) :
    mulW (scaled s z) y z 1 0 = .ok (scaled s z).lam := by
  have hw : (scaled s z).w.size = z.size := by simp [scaled, h]
  simp only [mulW, hy, hw, ne_eq, not_true_eq_false, ↓reduceIte]
  congr 1
  apply Array.ext
  · simp [scaled, h, hy]
  · intro i h1 h2
    have hi : i < z.size := by simp [scaled, h] at h2; omega
    simp only [scaled, Array.getElem_zipWith]
    rw [one_mul, zero_mul, add_zero]
    exact sqrt_div_mul (hs i (h ▸ hi)) (hz i hi)

/-- [R] NN: `W⁻¹ s = λ` (`W` is diagonal, so `W⁻ᵀ = W⁻¹`; the code ignores the shape). -/
theorem nn_Winv_s_eq_lam (s z y : Array ℝ) (h : s.size = z.size) (hy : y.size = z.size)
    (hs : Pos s) (hz : Pos z) :
    mulWinv (scaled s z) y s 1 0 = .ok (scaled s z).lam := by
  have hw : (scaled s z).w.size = s.size := by simp [scaled, h]
  simp only [mulWinv, hy, h, hw, ne_eq, not_true_eq_false, ↓reduceIte]
  congr 1
  apply Array.ext
  · simp [scaled, h, hy]
  · intro i h1 h2
    have hi : i < z.size := by simp [scaled, h] at h2; omega
    simp only [scaled, Array.getElem_zipWith]
    rw [one_mul, zero_mul, add_zero]
    exact div_sqrt_div (hs i (h ▸ hi)) (hz i hi)

/-- [R] NN: `(WᵀW) z = s`, with `WᵀW` applied by `mul_Hs`. -/
theorem nn_WtW_z_eq_s (s z : Array ℝ) (h : s.size = z.size) (hs : Pos s) (hz : Pos z) :
    mulHs (scaled s z) z = .ok s := by
  have hw : (scaled s z).w.size = z.size := by simp [scaled, h]
  simp only [mulHs, sizeGuard, hw, beq_self_eq_true, ↓reduceIte, bind, Except.bind, pure, Except.pure]
  congr 1
  apply Array.ext
  · simp [scaled, h]
  · intro i h1 h2
    have hi : i < z.size := by simp [scaled, h] at h1; omega
    simp only [scaled, Array.getElem_zipWith]
    exact sqrt_div_sq_mul (hs i (h ▸ hi)) (hz i hi)

/-- [R] NN: `mul_W` and `mul_Winv` are mutually inverse (`W W⁻¹ x = x`). -/
theorem nn_W_Winv (s z x y y' : Array ℝ) (h : s.size = z.size) (hx : x.size = z.size)
    (hy : y.size = z.size) (hy' : y'.size = z.size) (hs : Pos s) (hz : Pos z) :
    ∃ t, mulWinv (scaled s z) y x 1 0 = .ok t ∧ mulW (scaled s z) y' t 1 0 = .ok x := by
  have hw : (scaled s z).w.size = z.size := by simp [scaled, h]
  refine ⟨_, by simp only [mulWinv, hy, hx, hw, ne_eq, not_true_eq_false, ↓reduceIte]; rfl, ?_⟩
  simp only [mulW, hy', hw, Array.size_zipWith, hx, hy, h, min_self, ne_eq, not_true_eq_false,
    ↓reduceIte]
  congr 1
  apply Array.ext
  · simp [scaled, h, hx, hy, hy']
  · intro i h1 h2
    have hi : i < z.size := by omega
    simp only [scaled, Array.getElem_zipWith]
    have hp : 0 < Real.sqrt (s[i] / z[i]) :=
      Real.sqrt_pos.mpr (div_pos (hs i (h ▸ hi)) (hz i hi))
    field_simp
    ring

/-- [R] NN: the diagonal block written into the KKT matrix (`get_Hs`) is the operator
applied by `mul_Hs`: `(get_Hs)ᵢ · xᵢ = (mul_Hs x)ᵢ`. -/
theorem nn_getHs_eq_mulHs (K : Nonneg.Cone ℝ) (x : Array ℝ) (hx : x.size = K.w.size) :
    ∃ H y, getHs K K.w.size = .ok H ∧ mulHs K x = .ok y ∧ H.size = x.size ∧ y.size = x.size ∧
      ∀ i (h1 : i < H.size) (h2 : i < x.size) (h3 : i < y.size), H[i] * x[i] = y[i] := by
  refine ⟨K.w.map (fun wi => wi * wi), Array.zipWith (fun wi xi => wi * (wi * xi)) K.w x,
    by simp [getHs]; rfl, by simp [mulHs, sizeGuard, hx]; rfl, by simp [hx], by simp [hx], ?_⟩
  intro i h1 h2 h3
  simp only [Array.getElem_map, Array.getElem_zipWith]
  ring

/-- [R] NN Jordan algebra: `inv_circ_op y (circ_op y z) = z` when no entry of `y` vanishes
(in particular for interior `y`). -/
theorem nn_invCirc_circ (y z : Array ℝ) (h : y.size = z.size)
    (hy : ∀ i (h : i < y.size), y[i] ≠ 0) :
    ∃ t, circOp y z = .ok t ∧ invCircOp y t = .ok z := by
  refine ⟨_, by simp [circOp, sizeGuard, h]; rfl, ?_⟩
  simp only [invCircOp, sizeGuard, Array.size_zipWith, h, min_self, beq_self_eq_true, ↓reduceIte,
    bind, Except.bind, pure, Except.pure]
  congr 1
  apply Array.ext
  · simp [h]
  · intro i h1 h2
    simp only [Array.getElem_zipWith]
    have := hy i (by omega)
    field_simp

/-- [R] NN: `affine_ds = λ ∘ λ`. -/
theorem nn_affineDs_eq (K : Nonneg.Cone ℝ) :
    affineDs K K.lam.size = circOp K.lam K.lam := by
  simp only [affineDs, ne_eq, not_true_eq_false, ↓reduceIte, circOp, sizeGuard, beq_self_eq_true,
    bind, Except.bind, pure, Except.pure]
  congr 1
  apply Array.ext
  · simp
  · intro i h1 h2
    simp

/-- [R] NN: `Δs_from_Δz_offset = Wᵀ(λ \ ds)` for the scaling of interior `(s,z)`. -/
theorem nn_dsOffset_eq (s z ds y : Array ℝ) (h : s.size = z.size) (hd : ds.size = z.size)
    (hy : y.size = z.size) (hs : Pos s) (hz : Pos z) :
    ∃ q, lamInvCircOp (scaled s z) ds = .ok q ∧
      mulW (scaled s z) y q 1 0 = dsFromDzOffset ds z := by
  have hl : (scaled s z).lam.size = z.size := by simp [scaled, h]
  have hw : (scaled s z).w.size = z.size := by simp [scaled, h]
  refine ⟨_, by simp [lamInvCircOp, invCircOp, sizeGuard, hl, hd]; rfl, ?_⟩
  simp only [mulW, hy, Array.size_zipWith, hl, hd, min_self, hw, ne_eq, not_true_eq_false,
    ↓reduceIte, dsFromDzOffset, sizeGuard, beq_self_eq_true, bind, Except.bind, pure, Except.pure]
  congr 1
  apply Array.ext
  · simp [scaled, h, hd, hy]
  · intro i h1 h2
    have hi : i < z.size := by simp [hd] at h2; omega
    simp only [scaled, Array.getElem_zipWith]
    have hsi := hs i (h ▸ hi)
    have hzi := hz i hi
    rw [one_mul, zero_mul, add_zero, Real.sqrt_div hsi.le, Real.sqrt_mul hsi.le]
    have hq : Real.sqrt z[i] ≠ 0 := (Real.sqrt_pos.mpr hzi).ne'
    have hp : Real.sqrt s[i] ≠ 0 := (Real.sqrt_pos.mpr hsi).ne'
    have h1 : Real.sqrt z[i] ^ 2 = z[i] := Real.sq_sqrt hzi.le
    field_simp
    rw [h1]

/-- non-vacuity: `s = (4, 1)`, `z = (1, 1)` are interior and of equal length. -/
example : Pos #[4, 1] ∧ Pos #[1, 1] ∧ (#[4, 1] : Array ℝ).size = (#[1, 1] : Array ℝ).size := by
  refine ⟨?_, ?_, rfl⟩ <;> intro i h <;>
    (have : i = 0 ∨ i = 1 := by simp at h; omega) <;> rcases this with rfl | rfl <;> norm_num

end NN

/-! ## Second-order cone (vectors as `(x₀, x₁)` with `x₁ : List ℝ` of arbitrary length) -/
section SOC
open Soc

/-- [R] SOC: whenever `update_scaling` succeeds the stored `w` is normalised,
`w₀² − ‖w₁‖² = 1` with `w₀ > 0` (this is what the re-computation `w₀ = √(1+‖w₁‖²)`
enforces). -/
theorem soc_w_normalised (K K' : Soc.Cone ℝ) (s0 : ℝ) (s1 : List ℝ) (z0 : ℝ) (z1 : List ℝ)
    (h : updateScalingCore K s0 s1 z0 z1 = (true, K')) :
    ∃ w0 w1, K'.w = join w0 w1 ∧ w0 ^ 2 - dotL w1 w1 = 1 ∧ 0 < w0 :=
  updateScalingCore_normalised K K' s0 s1 z0 z1 h

/-- [R] SOC: `W W⁻¹ = I` — `mul_W` applied to the result of `mul_Winv` returns the argument,
for every normalised `w` and `η ≠ 0` (the buffers `y`, `y'` are overwritten: `β = 0`). -/
theorem soc_W_Winv (x0 : ℝ) (x1 : List ℝ) (w0 : ℝ) (w1 : List ℝ) (eta : ℝ) (y0 y0' : ℝ)
    (y1 y1' : List ℝ) (hw : w0 ^ 2 - dotL w1 w1 = 1) (hw0 : 0 < w0) (he : eta ≠ 0)
    (hx : x1.length = w1.length) (hy : y1.length = w1.length) (hy' : y1'.length = w1.length) :
    let u := mulWinvCore y0 y1 x0 x1 1 0 w0 w1 eta
    mulWCore y0' y1' u.1 u.2 1 0 w0 w1 eta = (x0, x1) :=
  mulW_mulWinv x0 x1 w0 w1 eta y0 y0' y1 y1' hw hw0 he hx hy hy'

/-- [R] SOC: `mul_Hs x = η²(2ww′ − J)x` with `J = diag(1, −I)`. -/
theorem soc_mulHs_eq (x0 : ℝ) (x1 : List ℝ) (w0 : ℝ) (w1 : List ℝ) (eta : ℝ)
    (hx : x1.length = w1.length) :
    mulHsCore x0 x1 w0 w1 eta =
      (eta ^ 2 * (2 * (w0 * x0 + dotL w1 x1) * w0 - x0),
       List.zipWith (fun wi xi => eta ^ 2 * (2 * (w0 * x0 + dotL w1 x1) * wi + xi)) w1 x1) :=
  mulHsCore_eq x0 x1 w0 w1 eta hx

/-- [R] SOC Jordan algebra: `circ_op` is the Jordan product
`y ∘ z = (⟨y,z⟩, y₀z₁ + z₀y₁)`, and it is commutative. -/
theorem soc_circ_is_jordan (y0 : ℝ) (y1 : List ℝ) (z0 : ℝ) (z1 : List ℝ)
    (h : y1.length = z1.length) :
    circOpCore y0 y1 z0 z1 =
      (y0 * z0 + dotL y1 z1, List.zipWith (fun yi zi => y0 * zi + z0 * yi) y1 z1) ∧
    circOpCore y0 y1 z0 z1 = circOpCore z0 z1 y0 y1 :=
  circOpCore_eq y0 y1 z0 z1 h

/-- [R] SOC Jordan algebra: `inv_circ_op y (y ∘ z) = z` whenever `y₀ ≠ 0` and
`y₀² ≠ ‖y₁‖²` — in particular for every interior `y`. -/
theorem soc_invCirc_circ (y0 : ℝ) (y1 : List ℝ) (z0 : ℝ) (z1 : List ℝ) (h : y1.length = z1.length)
    (hy0 : y0 ≠ 0) (hres : y0 ^ 2 - dotL y1 y1 ≠ 0) :
    let t := circOpCore y0 y1 z0 z1
    invCircOpCore y0 y1 t.1 t.2 = (z0, z1) :=
  invCirc_circ y0 y1 z0 z1 h hy0 hres

/-- non-vacuity: `w = (√2, (1))` is normalised (`2 − 1 = 1`) -/
example : (Real.sqrt 2) ^ 2 - dotL [1] [1] = 1 ∧ 0 < Real.sqrt 2 := by
  refine ⟨?_, Real.sqrt_pos.mpr (by norm_num)⟩
  rw [Real.sq_sqrt (by norm_num)]
  simp
  norm_num

/-- [R] SOC Nesterov–Todd identities, arbitrary dimension: for interior `s, z`, whenever
`update_scaling` succeeds, the stored `w`, `η` and the `λ` **the code computes** satisfy
`W z = λ` and `W⁻¹ s = λ` (`W` is symmetric, so `W⁻ᵀ = W⁻¹`), with `W`, `W⁻¹` applied by
`mul_W` / `mul_Winv` (`α = 1`, `β = 0`; `y` is the overwritten output buffer). -/
theorem soc_NT_identities (K K' : Soc.Cone ℝ) (s0 : ℝ) (s1 : List ℝ) (z0 : ℝ) (z1 : List ℝ)
    (y0 : ℝ) (y1 : List ℝ) (hs : Interior s0 s1) (hz : Interior z0 z1)
    (hlen : s1.length = z1.length) (hy : y1.length = z1.length)
    (h : updateScalingCore K s0 s1 z0 z1 = (true, K')) :
    ∃ w0 w1 l0 l1, K'.w = join w0 w1 ∧ K'.lam = join l0 l1 ∧
      mulWCore y0 y1 z0 z1 1 0 w0 w1 K'.eta = (l0, l1) ∧
      mulWinvCore y0 y1 s0 s1 1 0 w0 w1 K'.eta = (l0, l1) :=
  updateScalingCore_nt K K' s0 s1 z0 z1 y0 y1 hs hz hlen hy h

/-- [R] SOC: the "more stable" `Δs_from_Δz_offset` of `socone.rs` equals its definition
`Wᵀ(λ \ ds)` (`W` symmetric), for normalised `w`, `η ≠ 0`, `λ₀ ≠ 0`, `res(λ) ≠ 0` and
`z = W⁻¹λ` — which is the relation `λ = W z` of `soc_NT_identities`. -/
theorem soc_dsOffset_eq (ds0 : ℝ) (ds1 : List ℝ) (l0 : ℝ) (l1 : List ℝ) (w0 : ℝ) (w1 : List ℝ)
    (eta : ℝ) (y0 y0' : ℝ) (y1 y1' : List ℝ)
    (hw : w0 ^ 2 - dotL w1 w1 = 1) (hw0 : 0 < w0) (he : eta ≠ 0)
    (hl0 : l0 ≠ 0) (hres : l0 ^ 2 - dotL l1 l1 ≠ 0)
    (hl : l1.length = w1.length) (hd : ds1.length = w1.length)
    (hy : y1.length = w1.length) (hy' : y1'.length = w1.length) :
    let z := mulWinvCore y0 y1 l0 l1 1 0 w0 w1 eta
    let q := invCircOpCore l0 l1 ds0 ds1
    dsFromDzOffsetCore ds0 ds1 z.1 z.2 l0 l1 w0 w1 eta = mulWCore y0' y1' q.1 q.2 1 0 w0 w1 eta :=
  dsFromDzOffset_eq ds0 ds1 l0 l1 w0 w1 eta y0 y0' y1 y1' hw hw0 he hl0 hres hl hd hy hy'

/-- [R] SOC: `update_scaling` succeeds (returns `true`) for every interior pair `(s,z)`
(Cauchy–Schwarz gives `s₀z₀ + ⟨s₁,z₁⟩ > 0`, so the un-normalised `w` is interior). -/
theorem soc_update_succeeds (K : Soc.Cone ℝ) (s0 : ℝ) (s1 : List ℝ) (z0 : ℝ) (z1 : List ℝ)
    (hs : Interior s0 s1) (hz : Interior z0 z1) (hlen : s1.length = z1.length) :
    (updateScalingCore K s0 s1 z0 z1).1 = true :=
  updateScalingCore_succeeds K s0 s1 z0 z1 hs hz hlen

/-- [R] SOC: `(WᵀW) z = s` — `mul_Hs z = s` for the scaling of interior `(s,z)`
(corollary of `soc_NT_identities`, `soc_W_Winv` and `W·W = η²(2ww′ − J)`). -/
theorem soc_WtW_z_eq_s (K K' : Soc.Cone ℝ) (s0 : ℝ) (s1 : List ℝ) (z0 : ℝ) (z1 : List ℝ)
    (hs : Interior s0 s1) (hz : Interior z0 z1) (hlen : s1.length = z1.length)
    (h : updateScalingCore K s0 s1 z0 z1 = (true, K')) :
    ∃ w0 w1, K'.w = join w0 w1 ∧ mulHsCore z0 z1 w0 w1 K'.eta = (s0, s1) :=
  updateScalingCore_WtW K K' s0 s1 z0 z1 hs hz hlen h

/-- non-vacuity of `soc_NT_identities`: `s = (2,(1))`, `z = (3,(−1))` are interior. -/
example : Interior 2 [1] ∧ Interior 3 [-1] := by
  refine ⟨⟨by norm_num, ?_⟩, ⟨by norm_num, ?_⟩⟩ <;> simp <;> norm_num

/-
  Not proved (stated here in full; exercised on every run by the `soc.identities` oracle and
  the bit-exact correspondence of `update_scaling`, `Δs_from_Δz_offset`):

  * the converse of `soc_update_succeeds` (`false` iff the residual of `s`, `z` or `w` is not
    positive) — the `false` branches are read off the definition; not stated as a theorem.
  * `combined_ds_shift = W⁻¹Δs ∘ WΔz − σμe` is the model's definition (`Soc.combinedDsShift`
    composes `mulWinv`, `mulW`, `circOp`, `scaledUnitShift`), tied to the code by the channel.
-/

end SOC

/-! ## PSD cone (LAPACK results as hypotheses; matrices of arbitrary order `n`) -/
section PSD
open Matrix

/-- [F] PSD Nesterov–Todd scaling.  Given the LAPACK results that `update_scaling` relies on —
Cholesky factors `S = L₁L₁ᵀ`, `Z = L₂L₂ᵀ` and an SVD `L₂ᵀL₁ = UΣVᵀ` with `UᵀU = VᵀV = I` —
and `Λ^{-1/2} = diag d` with `dᵢ²σᵢ = 1`, the matrices the code assembles,
`R = L₁VΣ^{-1/2}` and `R⁻¹ = Σ^{-1/2}UᵀL₂ᵀ`, satisfy `RᵀZR = Σ` (`W z = λ`),
`R⁻¹SR⁻ᵀ = Σ` (`W⁻ᵀ s = λ`) and `R⁻¹R = RR⁻¹ = I`.  Pure matrix algebra over any field. -/
theorem psd_nt_scaling {n : ℕ} {K : Type} [Field K]
    (S Z L1 L2 U V : Matrix (Fin n) (Fin n) K) (σ d : Fin n → K)
    (hS : S = L1 * L1ᵀ) (hZ : Z = L2 * L2ᵀ)
    (hsvd : L2ᵀ * L1 = U * diagonal σ * Vᵀ)
    (hU : Uᵀ * U = 1) (hV : Vᵀ * V = 1) (hd : ∀ i, d i * d i * σ i = 1) :
    let R := L1 * V * diagonal d
    let Rinv := diagonal d * Uᵀ * L2ᵀ
    Rᵀ * Z * R = diagonal σ ∧ Rinv * S * Rinvᵀ = diagonal σ ∧ Rinv * R = 1 ∧ R * Rinv = 1 :=
  Psd.nt_scaling S Z L1 L2 U V σ d hS hZ hsvd hU hV hd

/-- [R] the code's `Λ^{-1/2} = 1/√λ` meets the hypothesis `dᵢ²σᵢ = 1` for positive singular
values (also the non-vacuity witness of `psd_nt_scaling`: `n = 1`, all matrices `1`). -/
theorem psd_isqrt_hyp {n : ℕ} (σ : Fin n → ℝ) (hσ : ∀ i, 0 < σ i) :
    ∀ i, (1 / Real.sqrt (σ i)) * (1 / Real.sqrt (σ i)) * σ i = 1 :=
  Psd.isqrt_hyp σ hσ

example : (1 : Matrix (Fin 1) (Fin 1) ℝ)ᵀ * 1 = 1 * diagonal (fun _ => (1 : ℝ)) * (1 : Matrix (Fin 1) (Fin 1) ℝ)ᵀ := by
  simp

end PSD

end Clarabel.C13
