/-
  C13 — symmetric-cone scaling operators satisfy the Nesterov–Todd identities.
  Property theorems only; helper lemmas live in `ClarabelProofs/Lemmas/Cones*.lean`.
-/
import ClarabelProofs.Lemmas.ConesNN
import ClarabelProofs.Lemmas.ConesSocScaling
import ClarabelProofs.Lemmas.ConesPsd
import ClarabelProofs.Lemmas.ConesPsdScaling
import ClarabelProofs.Lemmas.ConesSocConverse
import ClarabelProofs.Lemmas.ConesIdentityScaling
import ClarabelProofs.Lemmas.ConesPsdUpdate

namespace Clarabel.C13
open Clarabel

/-! ## Nonnegative cone -/
section NN
open Nonneg

/-- [R] `update_scaling` on the nonnegative cone always succeeds and stores
`w = √(s/z)`, `λ = √(s·z)` (`Nonneg.scaled`). -/
theorem nn_update_scaling (s z : Array ℝ) (h : s.size = z.size) :
    updateScaling (new s.size) s z = .ok (scaled s z) :=
  updateScaling_ok s z h

/-- [R] NN: `W z = λ` for interior `(s,z)`. -/
theorem nn_W_z_eq_lam (s z y : Array ℝ) (h : s.size = z.size) (hy : y.size = z.size)
    (hs : Pos s) (hz : Pos z) :
    mulW (scaled s z) y z 1 0 = .ok (scaled s z).lam := by
  have hw : (scaled s z).w.size = z.size := by simp [scaled, h]
  simp only [mulW, hy, hw, ne_eq, not_true_eq_false, ↓reduceIte]
  congr 1
  apply Array.ext
  · simp [scaled, h, hy]
  · intro i h1 h2
    have hi : i < z.size := by simp [scaled, h] at h2; omega
    simp only [scaled, Array.getElem_zipWith]
    rw [one_mul, zero_mul, add_zero]
    exact sqrt_div_mul (hs i (h ▸ hi)) (hz i hi)

/-- [R] NN: `W⁻¹ s = λ` (`W` is diagonal, so `W⁻ᵀ = W⁻¹`; the code ignores the shape). -/
theorem nn_Winv_s_eq_lam (s z y : Array ℝ) (h : s.size = z.size) (hy : y.size = z.size)
    (hs : Pos s) (hz : Pos z) :
    mulWinv (scaled s z) y s 1 0 = .ok (scaled s z).lam := by
  have hw : (scaled s z).w.size = s.size := by simp [scaled, h]
  simp only [mulWinv, hy, h, hw, ne_eq, not_true_eq_false, ↓reduceIte]
  congr 1
  apply Array.ext
  · simp [scaled, h, hy]
  · intro i h1 h2
    have hi : i < z.size := by simp [scaled, h] at h2; omega
    simp only [scaled, Array.getElem_zipWith]
    rw [one_mul, zero_mul, add_zero]
    exact div_sqrt_div (hs i (h ▸ hi)) (hz i hi)

/-- [R] NN: `(WᵀW) z = s`, with `WᵀW` applied by `mul_Hs`. -/
theorem nn_WtW_z_eq_s (s z : Array ℝ) (h : s.size = z.size) (hs : Pos s) (hz : Pos z) :
    mulHs (scaled s z) z = .ok s := by
  have hw : (scaled s z).w.size = z.size := by simp [scaled, h]
  simp only [mulHs, sizeGuard, hw, beq_self_eq_true, ↓reduceIte, bind, Except.bind, pure, Except.pure]
  congr 1
  apply Array.ext
  · simp [scaled, h]
  · intro i h1 h2
    have hi : i < z.size := by simp [scaled, h] at h1; omega
    simp only [scaled, Array.getElem_zipWith]
    exact sqrt_div_sq_mul (hs i (h ▸ hi)) (hz i hi)

/-- [R] NN: `mul_W` and `mul_Winv` are mutually inverse (`W W⁻¹ x = x`). -/
theorem nn_W_Winv (s z x y y' : Array ℝ) (h : s.size = z.size) (hx : x.size = z.size)
    (hy : y.size = z.size) (hy' : y'.size = z.size) (hs : Pos s) (hz : Pos z) :
    ∃ t, mulWinv (scaled s z) y x 1 0 = .ok t ∧ mulW (scaled s z) y' t 1 0 = .ok x := by
  have hw : (scaled s z).w.size = z.size := by simp [scaled, h]
  refine ⟨_, by simp only [mulWinv, hy, hx, hw, ne_eq, not_true_eq_false, ↓reduceIte]; rfl, ?_⟩
  simp only [mulW, hy', hw, Array.size_zipWith, hx, hy, h, min_self, ne_eq, not_true_eq_false,
    ↓reduceIte]
  congr 1
  apply Array.ext
  · simp [scaled, h, hx, hy, hy']
  · intro i h1 h2
    have hi : i < z.size := by omega
    simp only [scaled, Array.getElem_zipWith]
    have hp : 0 < Real.sqrt (s[i] / z[i]) :=
      Real.sqrt_pos.mpr (div_pos (hs i (h ▸ hi)) (hz i hi))
    field_simp
    ring

/-- [R] NN: the diagonal block written into the KKT matrix (`get_Hs`) is the operator
applied by `mul_Hs`: `(get_Hs)ᵢ · xᵢ = (mul_Hs x)ᵢ`. -/
theorem nn_getHs_eq_mulHs (K : Nonneg.Cone ℝ) (x : Array ℝ) (hx : x.size = K.w.size) :
    ∃ H y, getHs K K.w.size = .ok H ∧ mulHs K x = .ok y ∧ H.size = x.size ∧ y.size = x.size ∧
      ∀ i (h1 : i < H.size) (h2 : i < x.size) (h3 : i < y.size), H[i] * x[i] = y[i] := by
  refine ⟨K.w.map (fun wi => wi * wi), Array.zipWith (fun wi xi => wi * (wi * xi)) K.w x,
    by simp [getHs]; rfl, by simp [mulHs, sizeGuard, hx]; rfl, by simp [hx], by simp [hx], ?_⟩
  intro i h1 h2 h3
  simp only [Array.getElem_map, Array.getElem_zipWith]
  ring

/-- [R] NN Jordan algebra: `inv_circ_op y (circ_op y z) = z` when no entry of `y` vanishes
(in particular for interior `y`). -/
theorem nn_invCirc_circ (y z : Array ℝ) (h : y.size = z.size)
    (hy : ∀ i (h : i < y.size), y[i] ≠ 0) :
    ∃ t, circOp y z = .ok t ∧ invCircOp y t = .ok z := by
  refine ⟨_, by simp [circOp, sizeGuard, h]; rfl, ?_⟩
  simp only [invCircOp, sizeGuard, Array.size_zipWith, h, min_self, beq_self_eq_true, ↓reduceIte,
    bind, Except.bind, pure, Except.pure]
  congr 1
  apply Array.ext
  · simp [h]
  · intro i h1 h2
    simp only [Array.getElem_zipWith]
    have := hy i (by omega)
    field_simp

/-- [R] NN: `affine_ds = λ ∘ λ`. -/
theorem nn_affineDs_eq (K : Nonneg.Cone ℝ) :
    affineDs K K.lam.size = circOp K.lam K.lam := by
  simp only [affineDs, ne_eq, not_true_eq_false, ↓reduceIte, circOp, sizeGuard, beq_self_eq_true,
    bind, Except.bind, pure, Except.pure]
  congr 1
  apply Array.ext
  · simp
  · intro i h1 h2
    simp

/-- [R] NN: `Δs_from_Δz_offset = Wᵀ(λ \ ds)` for the scaling of interior `(s,z)`. -/
theorem nn_dsOffset_eq (s z ds y : Array ℝ) (h : s.size = z.size) (hd : ds.size = z.size)
    (hy : y.size = z.size) (hs : Pos s) (hz : Pos z) :
    ∃ q, lamInvCircOp (scaled s z) ds = .ok q ∧
      mulW (scaled s z) y q 1 0 = dsFromDzOffset ds z := by
  have hl : (scaled s z).lam.size = z.size := by simp [scaled, h]
  have hw : (scaled s z).w.size = z.size := by simp [scaled, h]
  refine ⟨_, by simp [lamInvCircOp, invCircOp, sizeGuard, hl, hd]; rfl, ?_⟩
  simp only [mulW, hy, Array.size_zipWith, hl, hd, min_self, hw, ne_eq, not_true_eq_false,
    ↓reduceIte, dsFromDzOffset, sizeGuard, beq_self_eq_true, bind, Except.bind, pure, Except.pure]
  congr 1
  apply Array.ext
  · simp [scaled, h, hd, hy]
  · intro i h1 h2
    have hi : i < z.size := by simp [hd] at h2; omega
    simp only [scaled, Array.getElem_zipWith]
    have hsi := hs i (h ▸ hi)
    have hzi := hz i hi
    rw [one_mul, zero_mul, add_zero, Real.sqrt_div hsi.le, Real.sqrt_mul hsi.le]
    have hq : Real.sqrt z[i] ≠ 0 := (Real.sqrt_pos.mpr hzi).ne'
    have hp : Real.sqrt s[i] ≠ 0 := (Real.sqrt_pos.mpr hsi).ne'
    have h1 : Real.sqrt z[i] ^ 2 = z[i] := Real.sq_sqrt hzi.le
    field_simp
    rw [h1]

/-- [R] NN: `combined_ds_shift` leaves `step_z = WΔz`, `step_s = W⁻¹Δs` and
`shift = (W⁻¹Δs) ∘ (WΔz) − σμ·e`, entry by entry: `shiftᵢ = (dsᵢ/wᵢ)(dzᵢ·wᵢ) − σμ`. -/
theorem nn_combinedDsShift_eq (K : Nonneg.Cone ℝ) (dz ds : Array ℝ) (sm : ℝ)
    (hz : dz.size = K.w.size) (hs : ds.size = K.w.size) :
    combinedDsShift K dz ds sm = .ok
      (Array.zipWith (fun a b => a * b + -sm) (Array.zipWith (fun x w => x / w) ds K.w)
          (Array.zipWith (fun x w => x * w) dz K.w),
        Array.zipWith (fun x w => x * w) dz K.w, Array.zipWith (fun x w => x / w) ds K.w) := by
  have e1 : mulW K dz dz 1 0 = .ok (Array.zipWith (fun x w => x * w) dz K.w) := by
    simp only [mulW, hz, ne_eq, not_true_eq_false, ↓reduceIte]
    congr 1
    apply Array.ext
    · simp [hz]
    · intro i h1 h2; simp
  have e2 : mulWinv K ds ds 1 0 = .ok (Array.zipWith (fun x w => x / w) ds K.w) := by
    simp only [mulWinv, hs, ne_eq, not_true_eq_false, ↓reduceIte]
    congr 1
    apply Array.ext
    · simp [hs]
    · intro i h1 h2; simp
  have e3 : circOp (Array.zipWith (fun x w => x / w) ds K.w) (Array.zipWith (fun x w => x * w) dz K.w)
      = .ok (Array.zipWith (fun a b => a * b) (Array.zipWith (fun x w => x / w) ds K.w)
          (Array.zipWith (fun x w => x * w) dz K.w)) := by
    simp [circOp, sizeGuard, hz, hs]; rfl
  simp only [combinedDsShift, e1, e2, e3, bind, Except.bind, pure, Except.pure, scaledUnitShift,
    Vec.translate]
  congr 2
  apply Array.ext
  · simp
  · intro i h1 h2; simp

/-- non-vacuity: `s = (4, 1)`, `z = (1, 1)` are interior and of equal length. -/
example : Pos #[4, 1] ∧ Pos #[1, 1] ∧ (#[4, 1] : Array ℝ).size = (#[1, 1] : Array ℝ).size := by
  refine ⟨?_, ?_, rfl⟩ <;> intro i h <;>
    (have : i = 0 ∨ i = 1 := by simp at h; omega) <;> rcases this with rfl | rfl <;> norm_num

end NN

/-! ## Second-order cone (vectors as `(x₀, x₁)` with `x₁ : List ℝ` of arbitrary length) -/
section SOC
open Soc

/-- [R] SOC: whenever `update_scaling` succeeds the stored `w` is normalised,
`w₀² − ‖w₁‖² = 1` with `w₀ > 0` (this is what the re-computation `w₀ = √(1+‖w₁‖²)`
enforces). -/
theorem soc_w_normalised (K K' : Soc.Cone ℝ) (s0 : ℝ) (s1 : List ℝ) (z0 : ℝ) (z1 : List ℝ)
    (h : updateScalingCore K s0 s1 z0 z1 = (true, K')) :
    ∃ w0 w1, K'.w = join w0 w1 ∧ w0 ^ 2 - dotL w1 w1 = 1 ∧ 0 < w0 :=
  updateScalingCore_normalised K K' s0 s1 z0 z1 h

/-- [R] SOC: `W W⁻¹ = I` — `mul_W` applied to the result of `mul_Winv` returns the argument,
for every normalised `w` and `η ≠ 0` (the buffers `y`, `y'` are overwritten: `β = 0`). -/
theorem soc_W_Winv (x0 : ℝ) (x1 : List ℝ) (w0 : ℝ) (w1 : List ℝ) (eta : ℝ) (y0 y0' : ℝ)
    (y1 y1' : List ℝ) (hw : w0 ^ 2 - dotL w1 w1 = 1) (hw0 : 0 < w0) (he : eta ≠ 0)
    (hx : x1.length = w1.length) (hy : y1.length = w1.length) (hy' : y1'.length = w1.length) :
    let u := mulWinvCore y0 y1 x0 x1 1 0 w0 w1 eta
    mulWCore y0' y1' u.1 u.2 1 0 w0 w1 eta = (x0, x1) :=
  mulW_mulWinv x0 x1 w0 w1 eta y0 y0' y1 y1' hw hw0 he hx hy hy'

/-- [R] SOC: `mul_Hs x = η²(2ww′ − J)x` with `J = diag(1, −I)`. -/
theorem soc_mulHs_eq (x0 : ℝ) (x1 : List ℝ) (w0 : ℝ) (w1 : List ℝ) (eta : ℝ)
    (hx : x1.length = w1.length) :
    mulHsCore x0 x1 w0 w1 eta =
      (eta ^ 2 * (2 * (w0 * x0 + dotL w1 x1) * w0 - x0),
       List.zipWith (fun wi xi => eta ^ 2 * (2 * (w0 * x0 + dotL w1 x1) * wi + xi)) w1 x1) :=
  mulHsCore_eq x0 x1 w0 w1 eta hx

/-- [R] SOC Jordan algebra: `circ_op` is the Jordan product
`y ∘ z = (⟨y,z⟩, y₀z₁ + z₀y₁)`, and it is commutative. -/
theorem soc_circ_is_jordan (y0 : ℝ) (y1 : List ℝ) (z0 : ℝ) (z1 : List ℝ)
    (h : y1.length = z1.length) :
    circOpCore y0 y1 z0 z1 =
      (y0 * z0 + dotL y1 z1, List.zipWith (fun yi zi => y0 * zi + z0 * yi) y1 z1) ∧
    circOpCore y0 y1 z0 z1 = circOpCore z0 z1 y0 y1 :=
  circOpCore_eq y0 y1 z0 z1 h

/-- [R] SOC Jordan algebra: `inv_circ_op y (y ∘ z) = z` whenever `y₀ ≠ 0` and
`y₀² ≠ ‖y₁‖²` — in particular for every interior `y`. -/
theorem soc_invCirc_circ (y0 : ℝ) (y1 : List ℝ) (z0 : ℝ) (z1 : List ℝ) (h : y1.length = z1.length)
    (hy0 : y0 ≠ 0) (hres : y0 ^ 2 - dotL y1 y1 ≠ 0) :
    let t := circOpCore y0 y1 z0 z1
    invCircOpCore y0 y1 t.1 t.2 = (z0, z1) :=
  invCirc_circ y0 y1 z0 z1 h hy0 hres

/-- non-vacuity: `w = (√2, (1))` is normalised (`2 − 1 = 1`) -/
example : (Real.sqrt 2) ^ 2 - dotL [1] [1] = 1 ∧ 0 < Real.sqrt 2 := by
  refine ⟨?_, Real.sqrt_pos.mpr (by norm_num)⟩
  rw [Real.sq_sqrt (by norm_num)]
  simp
  norm_num

/-- [R] SOC Nesterov–Todd identities, arbitrary dimension: for interior `s, z`, whenever
`update_scaling` succeeds, the stored `w`, `η` and the `λ` **the code computes** satisfy
`W z = λ` and `W⁻¹ s = λ` (`W` is symmetric, so `W⁻ᵀ = W⁻¹`), with `W`, `W⁻¹` applied by
`mul_W` / `mul_Winv` (`α = 1`, `β = 0`; `y` is the overwritten output buffer). -/
theorem soc_NT_identities (K K' : Soc.Cone ℝ) (s0 : ℝ) (s1 : List ℝ) (z0 : ℝ) (z1 : List ℝ)
    (y0 : ℝ) (y1 : List ℝ) (hs : Interior s0 s1) (hz : Interior z0 z1)
    (hlen : s1.length = z1.length) (hy : y1.length = z1.length)
    (h : updateScalingCore K s0 s1 z0 z1 = (true, K')) :
    ∃ w0 w1 l0 l1, K'.w = join w0 w1 ∧ K'.lam = join l0 l1 ∧
      mulWCore y0 y1 z0 z1 1 0 w0 w1 K'.eta = (l0, l1) ∧
      mulWinvCore y0 y1 s0 s1 1 0 w0 w1 K'.eta = (l0, l1) :=
  updateScalingCore_nt K K' s0 s1 z0 z1 y0 y1 hs hz hlen hy h

/-- [R] SOC: the "more stable" `Δs_from_Δz_offset` of `socone.rs` equals its definition
`Wᵀ(λ \ ds)` (`W` symmetric), for normalised `w`, `η ≠ 0`, `λ₀ ≠ 0`, `res(λ) ≠ 0` and
`z = W⁻¹λ` — which is the relation `λ = W z` of `soc_NT_identities`. -/
theorem soc_dsOffset_eq (ds0 : ℝ) (ds1 : List ℝ) (l0 : ℝ) (l1 : List ℝ) (w0 : ℝ) (w1 : List ℝ)
    (eta : ℝ) (y0 y0' : ℝ) (y1 y1' : List ℝ)
    (hw : w0 ^ 2 - dotL w1 w1 = 1) (hw0 : 0 < w0) (he : eta ≠ 0)
    (hl0 : l0 ≠ 0) (hres : l0 ^ 2 - dotL l1 l1 ≠ 0)
    (hl : l1.length = w1.length) (hd : ds1.length = w1.length)
    (hy : y1.length = w1.length) (hy' : y1'.length = w1.length) :
    let z := mulWinvCore y0 y1 l0 l1 1 0 w0 w1 eta
    let q := invCircOpCore l0 l1 ds0 ds1
    dsFromDzOffsetCore ds0 ds1 z.1 z.2 l0 l1 w0 w1 eta = mulWCore y0' y1' q.1 q.2 1 0 w0 w1 eta :=
  dsFromDzOffset_eq ds0 ds1 l0 l1 w0 w1 eta y0 y0' y1 y1' hw hw0 he hl0 hres hl hd hy hy'

/-- [R] SOC: `update_scaling` succeeds (returns `true`) for every interior pair `(s,z)`
(Cauchy–Schwarz gives `s₀z₀ + ⟨s₁,z₁⟩ > 0`, so the un-normalised `w` is interior). -/
theorem soc_update_succeeds (K : Soc.Cone ℝ) (s0 : ℝ) (s1 : List ℝ) (z0 : ℝ) (z1 : List ℝ)
    (hs : Interior s0 s1) (hz : Interior z0 z1) (hlen : s1.length = z1.length) :
    (updateScalingCore K s0 s1 z0 z1).1 = true :=
  updateScalingCore_succeeds K s0 s1 z0 z1 hs hz hlen

/-- [R] SOC: `(WᵀW) z = s` — `mul_Hs z = s` for the scaling of interior `(s,z)`
(corollary of `soc_NT_identities`, `soc_W_Winv` and `W·W = η²(2ww′ − J)`). -/
theorem soc_WtW_z_eq_s (K K' : Soc.Cone ℝ) (s0 : ℝ) (s1 : List ℝ) (z0 : ℝ) (z1 : List ℝ)
    (hs : Interior s0 s1) (hz : Interior z0 z1) (hlen : s1.length = z1.length)
    (h : updateScalingCore K s0 s1 z0 z1 = (true, K')) :
    ∃ w0 w1, K'.w = join w0 w1 ∧ mulHsCore z0 z1 w0 w1 K'.eta = (s0, s1) :=
  updateScalingCore_WtW K K' s0 s1 z0 z1 hs hz hlen h

/-- non-vacuity of `soc_NT_identities`: `s = (2,(1))`, `z = (3,(−1))` are interior. -/
example : Interior 2 [1] ∧ Interior 3 [-1] := by
  refine ⟨⟨by norm_num, ?_⟩, ⟨by norm_num, ?_⟩⟩ <;> simp <;> norm_num

/-- [R] SOC, **converse of `soc_update_succeeds`**, exact failure set: `update_scaling` returns
`false` iff the residual of `z` or of `s` is not positive, or (both positive)
`s₀z₀ + ⟨s₁,z₁⟩ + √res(s)·√res(z) ≤ 0` — the third case occurs only when `s`, `z` lie in opposite
nappes of the double cone (two points of `−int K` are *not* rejected by the code). -/
theorem soc_update_fails_iff (K : Soc.Cone ℝ) (s0 : ℝ) (s1 : List ℝ) (z0 : ℝ) (z1 : List ℝ)
    (hlen : s1.length = z1.length) :
    (updateScalingCore K s0 s1 z0 z1).1 = false ↔
      (¬ 0 < socResidual z0 z1 ∨ ¬ 0 < socResidual s0 s1 ∨
        s0 * z0 + dotL s1 z1 + sqrtSocResidual s0 s1 * sqrtSocResidual z0 z1 ≤ 0) :=
  updateScalingCore_false_iff K s0 s1 z0 z1 hlen

/-- [R] SOC: for `s₀ ≥ 0`, `z₀ ≥ 0` (every point of the cone), `update_scaling` returns `false`
**iff** one of the two residuals `s₀² − ‖s₁‖²`, `z₀² − ‖z₁‖²` is not positive, i.e. iff `(s,z)`
is not a pair of interior points. -/
theorem soc_update_fails_iff_residual (K : Soc.Cone ℝ) (s0 : ℝ) (s1 : List ℝ) (z0 : ℝ)
    (z1 : List ℝ) (hlen : s1.length = z1.length) (hs0 : 0 ≤ s0) (hz0 : 0 ≤ z0) :
    ((updateScalingCore K s0 s1 z0 z1).1 = false ↔
      (¬ 0 < socResidual s0 s1 ∨ ¬ 0 < socResidual z0 z1)) ∧
    ((updateScalingCore K s0 s1 z0 z1).1 = false ↔ ¬ (Interior s0 s1 ∧ Interior z0 z1)) :=
  updateScalingCore_false_iff_halfspace K s0 s1 z0 z1 hlen hs0 hz0

/-- non-vacuity: `s = (1,(1))` (on the boundary, residual `0`) and `z = (3,(−1))`. -/
example : [1].length = [(-1 : ℝ)].length ∧ (0 : ℝ) ≤ 1 ∧ (0 : ℝ) ≤ 3 ∧ ¬ 0 < socResidual (1 : ℝ) [1] := by
  refine ⟨rfl, by norm_num, by norm_num, ?_⟩
  rw [socResidual_eq]; simp

/-- [R] SOC: after a successful `update_scaling` of a sparse-expanded cone (`dim > 4`), the
stored `sparse_data` is `scalingSparse` of the stored normalised `w`. -/
theorem soc_update_sparse_data (K K' : Soc.Cone ℝ) (s0 : ℝ) (s1 : List ℝ) (z0 : ℝ) (z1 : List ℝ)
    (sp0 : Soc.Sparse ℝ) (hsp : K.sparse = some sp0)
    (h : updateScalingCore K s0 s1 z0 z1 = (true, K')) :
    ∃ w0 w1, K'.w = join w0 w1 ∧ w0 ^ 2 - dotL w1 w1 = 1 ∧ 0 < w0 ∧
      K'.sparse = some (scalingSparse w0 w1) :=
  updateScalingCore_sparse K K' s0 s1 z0 z1 sp0 hsp h

/-- [S] SOC, sparse form: `get_Hs` writes the diagonal `η²·D`, `D = diag(d, 1, …, 1)`. -/
theorem soc_sparse_getHs (K : Soc.Cone ℝ) (sp : Soc.Sparse ℝ) (n : Nat) (hsp : K.sparse = some sp)
    (hdim : K.dim = n + 1) :
    Soc.getHs K = .ok (join (K.eta * K.eta * sp.d) (List.replicate n (K.eta * K.eta))) := by
  simp only [Soc.getHs, hsp, hdim]
  rfl

/-- [R] **same operator, sparse-expanded (SOC) block**: for a normalised `w`, with the data
`(u, v, d)` of `scalingSparse` (what `update_scaling` stores) and `D = diag(d, 1, …, 1)`,
`η²(D + uuᵀ − vvᵀ)·x = mul_Hs x` for every `x`.  `u = (u0, u1·w₁)`, `v = (0, v1·w₁)` with
`(d, u0, u1, v1) = sparseScalars w`; the scalar identities are imported from
`Lemmas/KktExpansion.lean` (C11). -/
theorem soc_sparse_same_operator (w0 : ℝ) (w1 : List ℝ) (eta x0 : ℝ) (x1 : List ℝ)
    (hw : w0 ^ 2 - dotL w1 w1 = 1) (hx : x1.length = w1.length) :
    let sp := scalingSparse w0 w1
    let sc := sparseScalars w0 w1
    let ux := Vec.dot sp.u (join x0 x1)
    let vx := Vec.dot sp.v (join x0 x1)
    (sp.d = sc.1 ∧ sp.u = join sc.2.1 (w1.map (fun wi => sc.2.2.1 * wi)) ∧
      sp.v = join 0 (w1.map (fun wi => sc.2.2.2 * wi))) ∧
    mulHsCore x0 x1 w0 w1 eta =
      (eta * eta * sp.d * x0 + eta * eta * (sc.2.1 * ux - 0 * vx),
       List.zipWith (fun wi xi => eta * eta * xi
          + eta * eta * ((sc.2.2.1 * wi) * ux - (sc.2.2.2 * wi) * vx)) w1 x1) :=
  ⟨scalingSparse_eq w0 w1, sparse_rank2_eq_mulHs w0 w1 eta x0 x1 hw hx⟩

/-- [R] SOC, sparse form, as the KKT assembly uses it: eliminating the two auxiliary variables
`a`, `b` of the expanded block `[−η²D, −η²v, −η²u ; −η²vᵀ, −η², 0 ; −η²uᵀ, 0, η²]` (Schur
complement; rows 2 and 3 are the hypotheses) leaves `−mul_Hs x` in the first block row — the
block written into the KKT matrix is the operator applied when recovering the slack step. -/
theorem soc_sparse_schur (w0 : ℝ) (w1 : List ℝ) (eta x0 : ℝ) (x1 : List ℝ) (a b : ℝ)
    (hw : w0 ^ 2 - dotL w1 w1 = 1) (hx : x1.length = w1.length) (he : eta ≠ 0)
    (hv : -(eta * eta) * Vec.dot (scalingSparse w0 w1).v (join x0 x1) + -(eta * eta) * a = 0)
    (hu : -(eta * eta) * Vec.dot (scalingSparse w0 w1).u (join x0 x1) + (eta * eta) * b = 0) :
    let sp := scalingSparse w0 w1
    let sc := sparseScalars w0 w1
    (-(eta * eta * sp.d) * x0 + (-(eta * eta) * 0) * a + (-(eta * eta) * sc.2.1) * b,
      List.zipWith (fun wi xi => -(eta * eta) * xi + (-(eta * eta) * (sc.2.2.2 * wi)) * a
        + (-(eta * eta) * (sc.2.2.1 * wi)) * b) w1 x1)
      = (-(mulHsCore x0 x1 w0 w1 eta).1, (mulHsCore x0 x1 w0 w1 eta).2.map (fun v => -v)) :=
  sparse_schur_eq_mulHs w0 w1 eta x0 x1 a b hw hx he hv hu

/-- non-vacuity of `soc_sparse_schur`: `w = (1, (0))`, `η = 1`, `x = (1,(1))`; `a = −⟨v,x⟩`,
`b = ⟨u,x⟩` solve the two auxiliary rows. -/
example : ∃ a b : ℝ, (1 : ℝ) ^ 2 - dotL [0] [0] = 1 ∧ (1 : ℝ) ≠ 0 ∧
    -((1 : ℝ) * 1) * Vec.dot (scalingSparse (1 : ℝ) [0]).v (join 1 [1]) + -((1 : ℝ) * 1) * a = 0 ∧
    -((1 : ℝ) * 1) * Vec.dot (scalingSparse (1 : ℝ) [0]).u (join 1 [1]) + ((1 : ℝ) * 1) * b = 0 :=
  ⟨-Vec.dot (scalingSparse (1 : ℝ) [0]).v (join 1 [1]), Vec.dot (scalingSparse (1 : ℝ) [0]).u (join 1 [1]),
    by simp, one_ne_zero, by ring, by ring⟩

/-- [R] **same operator, dense SOC block** (`dim ≤ 4`, below the sparse-expansion threshold):
the packed upper triangle `get_Hs` writes, read as a symmetric matrix and applied to `x`, is
`mul_Hs x` (`PsdTri.symPackedMulVec` is the reference semantics of a packed symmetric block). -/
theorem soc_dense_getHs_eq_mulHs (K : Soc.Cone ℝ) (w0 : ℝ) (w1 : List ℝ) (x0 : ℝ) (x1 : List ℝ)
    (hsp : K.sparse = none) (hw : K.w = join w0 w1) (hdim : K.dim = w1.length + 1)
    (h2 : 2 ≤ K.dim) (h4 : K.dim ≤ 4) (hx : x1.length = w1.length) :
    ∃ H, Soc.getHs K = .ok H ∧ PsdTri.symPackedMulVec K.dim H (join x0 x1)
      = join (mulHsCore x0 x1 w0 w1 K.eta).1 (mulHsCore x0 x1 w0 w1 K.eta).2 :=
  Soc.getHs_dense_eq_mulHs K w0 w1 x0 x1 hsp hw hdim h2 h4 hx

/-- non-vacuity: a 3-dimensional cone with `w = (1,(0,0))`, no sparse data -/
example : ∃ K : Soc.Cone ℝ, K.sparse = none ∧ K.w = join 1 [0, 0] ∧ K.dim = [(0 : ℝ), 0].length + 1 ∧
    2 ≤ K.dim ∧ K.dim ≤ 4 :=
  ⟨⟨3, join 1 [0, 0], join 1 [0, 0], 1, none⟩, rfl, rfl, rfl, by decide, by decide⟩

/-- [S] SOC: `affine_ds = λ ∘ λ` (this is how the code computes it). -/
theorem soc_affineDs_eq (K : Soc.Cone ℝ) : Soc.affineDs K = Soc.circOp K.lam K.lam := rfl

/-- [R] SOC: `combined_ds_shift` leaves `step_z = WΔz`, `step_s = W⁻¹Δs` (`W` symmetric) and
`shift = (W⁻¹Δs) ∘ (WΔz) − σμ·e`, `e = (1, 0, …, 0)`. -/
theorem soc_combinedDsShift_eq (K : Soc.Cone ℝ) (w0 : ℝ) (w1 : List ℝ) (hw : K.w = join w0 w1)
    (hdim : K.dim = w1.length + 1) (z0 : ℝ) (z1 : List ℝ) (s0 : ℝ) (s1 : List ℝ)
    (hz : z1.length = w1.length) (hs : s1.length = w1.length) (sm : ℝ) :
    let wz := mulWCore z0 z1 z0 z1 1 0 w0 w1 K.eta
    let ws := mulWinvCore s0 s1 s0 s1 1 0 w0 w1 K.eta
    let c := circOpCore ws.1 ws.2 wz.1 wz.2
    Soc.combinedDsShift K (join z0 z1) (join s0 s1) sm
      = .ok (join (c.1 + -sm) c.2, join wz.1 wz.2, join ws.1 ws.2) :=
  Soc.combinedDsShift_eq K w0 w1 hw hdim z0 z1 s0 s1 hz hs sm

end SOC

/-! ## PSD cone (LAPACK results as hypotheses; matrices of arbitrary order `n`) -/
section PSD
open Matrix

/-- [F] PSD Nesterov–Todd scaling.  Given the LAPACK results that `update_scaling` relies on —
Cholesky factors `S = L₁L₁ᵀ`, `Z = L₂L₂ᵀ` and an SVD `L₂ᵀL₁ = UΣVᵀ` with `UᵀU = VᵀV = I` —
and `Λ^{-1/2} = diag d` with `dᵢ²σᵢ = 1`, the matrices the code assembles,
`R = L₁VΣ^{-1/2}` and `R⁻¹ = Σ^{-1/2}UᵀL₂ᵀ`, satisfy `RᵀZR = Σ` (`W z = λ`),
`R⁻¹SR⁻ᵀ = Σ` (`W⁻ᵀ s = λ`) and `R⁻¹R = RR⁻¹ = I`.  Pure matrix algebra over any field. -/
theorem psd_nt_scaling {n : ℕ} {K : Type} [Field K]
    (S Z L1 L2 U V : Matrix (Fin n) (Fin n) K) (σ d : Fin n → K)
    (hS : S = L1 * L1ᵀ) (hZ : Z = L2 * L2ᵀ)
    (hsvd : L2ᵀ * L1 = U * diagonal σ * Vᵀ)
    (hU : Uᵀ * U = 1) (hV : Vᵀ * V = 1) (hd : ∀ i, d i * d i * σ i = 1) :
    let R := L1 * V * diagonal d
    let Rinv := diagonal d * Uᵀ * L2ᵀ
    Rᵀ * Z * R = diagonal σ ∧ Rinv * S * Rinvᵀ = diagonal σ ∧ Rinv * R = 1 ∧ R * Rinv = 1 :=
  Psd.nt_scaling S Z L1 L2 U V σ d hS hZ hsvd hU hV hd

/-- [R] the code's `Λ^{-1/2} = 1/√λ` meets the hypothesis `dᵢ²σᵢ = 1` for positive singular
values (also the non-vacuity witness of `psd_nt_scaling`: `n = 1`, all matrices `1`). -/
theorem psd_isqrt_hyp {n : ℕ} (σ : Fin n → ℝ) (hσ : ∀ i, 0 < σ i) :
    ∀ i, (1 / Real.sqrt (σ i)) * (1 / Real.sqrt (σ i)) * σ i = 1 :=
  Psd.isqrt_hyp σ hσ

example : (1 : Matrix (Fin 1) (Fin 1) ℝ)ᵀ * 1 = 1 * diagonal (fun _ => (1 : ℝ)) * (1 : Matrix (Fin 1) (Fin 1) ℝ)ᵀ := by
  simp

end PSD

/-! ## PSD cone: the LAPACK-free code of `psdtrianglecone.rs` (model `PsdTri`), with `R`,
`R⁻¹`, `λ` — the LAPACK outputs — as inputs -/
section PSDModel
open Matrix PsdTri

/-- [R] `mat_to_svec ∘ svec_to_mat = id` on vectors of the cone's length `n(n+1)/2`. -/
theorem psd_svec_of_mat_id (n : Nat) (x : Array ℝ) (hx : x.size = PsdIndex.triangularNumber n) :
    matToSvec n (svecToMat x) = x :=
  matToSvec_svecToMat n x hx

/-- [R] `svec_to_mat ∘ mat_to_svec = id` on symmetric matrices (and `svec_to_mat` always
returns a symmetric matrix). -/
theorem psd_mat_of_svec_id (n : Nat) (M : MatFn ℝ) (hM : IsSymm n M) (x : Array ℝ) :
    (∀ i j, i < n → j < n → svecToMat (matToSvec n M) i j = M i j) ∧
    (∀ i j, svecToMat x i j = svecToMat x j i) :=
  ⟨fun i j hi hj => svecToMat_matToSvec n M hM i j hi hj, svecToMat_symm x⟩

/-- [R] `⟨svec A, svec B⟩ = tr(AB)` for symmetric `A`, `B` — why the off-diagonal entries
carry the factor `√2`. -/
theorem psd_svec_inner {n : Nat} (A B : Matrix (Fin n) (Fin n) ℝ) (hA : A.IsSymm) (hB : B.IsSymm) :
    Vec.dot (svecM A) (svecM B) = Matrix.trace (A * B) :=
  dot_svecM A B hA hB

/-- non-vacuity: a vector of length `3 = n(n+1)/2` for `n = 2`; the identity is symmetric -/
example : (#[1, 2, 3] : Array ℝ).size = PsdIndex.triangularNumber 2 ∧
    (1 : Matrix (Fin 2) (Fin 2) ℝ).IsSymm ∧ IsSymm 2 (svecToMat #[1, 2, 3]) :=
  ⟨rfl, Matrix.isSymm_one, svecToMat_isSymm 2 _⟩

/-- [R] `mul_W` / `mul_Winv` in matrix form: with `P = Rx` (shape `N`) or `P = Rxᵀ` (shape `T`),
`mul_Wx_inner` returns `svec(α·PᵀXP + β·Y)`; `Rx = R` for `mul_W`, `Rx = R⁻¹` for `mul_Winv`. -/
theorem psd_mulWx_matrix_form (t : Bool) (n : Nat) (Rx : MatFn ℝ) (y x : Array ℝ) (a b : ℝ) :
    mulWxInner t n Rx y x a b
      = svecM (a • ((shapeM t (toM n Rx))ᵀ * toM n (svecToMat x) * shapeM t (toM n Rx))
          + b • toM n (svecToMat y)) :=
  mulWxInner_eq t n Rx y x a b

/-- [R] `W W⁻¹ = I = W⁻¹ W` (either shape, so also `Wᵀ W⁻ᵀ = I`), given `R·R⁻¹ = I` — which is
the conclusion of `psd_nt_scaling` for the factors LAPACK delivers. -/
theorem psd_W_Winv (K : PsdTri.Cone ℝ) (t : Bool) (x y y' : Array ℝ)
    (hR : K.R.size = K.n * K.n) (hRi : K.Rinv.size = K.n * K.n)
    (hx : x.size = PsdIndex.triangularNumber K.n) (hy : y.size = PsdIndex.triangularNumber K.n)
    (hy' : y'.size = PsdIndex.triangularNumber K.n)
    (hinv : toM K.n (matOf K.n K.R) * toM K.n (matOf K.n K.Rinv) = 1) :
    (∃ u, mulWinv K t y x 1 0 = .ok u ∧ mulW K t y' u 1 0 = .ok x) ∧
    (∃ v, mulW K t y x 1 0 = .ok v ∧ mulWinv K t y' v 1 0 = .ok x) := by
  have hinv' := mul_eq_one_comm.mp hinv
  refine ⟨⟨_, mulWx_ok t K.n K.Rinv y x 1 0 hRi hx hy, ?_⟩, ⟨_, mulWx_ok t K.n K.R y x 1 0 hR hx hy, ?_⟩⟩
  · unfold mulW
    rw [mulWx_ok t K.n K.R y' _ 1 0 hR (size_mulWxInner _ _ _ _ _ _ _) hy']
    exact congrArg _ (mulWxInner_inverse t K.n _ _ y y' x hx hinv')
  · unfold mulWinv
    rw [mulWx_ok t K.n K.Rinv y' _ 1 0 hRi (size_mulWxInner _ _ _ _ _ _ _) hy']
    exact congrArg _ (mulWxInner_inverse t K.n _ _ y y' x hx hinv)

/-- [R] transpose consistency: `⟨W x, y⟩ = ⟨x, Wᵀ y⟩` for the shapes `N` / `T` of `mul_W`
(any `R`; the same statement holds for `mul_Winv` with `R⁻¹` in place of `R`). -/
theorem psd_W_adjoint (n : Nat) (R : MatFn ℝ) (b1 b2 x y : Array ℝ)
    (hx : x.size = PsdIndex.triangularNumber n) (hy : y.size = PsdIndex.triangularNumber n) :
    Vec.dot (mulWxInner false n R b1 x 1 0) y = Vec.dot x (mulWxInner true n R b2 y 1 0) :=
  mulWxInner_adjoint n R b1 b2 x y hx hy

/-- non-vacuity of `psd_W_Winv`: `n = 1`, `R = (2)`, `R⁻¹ = (1/2)` -/
example : ∃ K : PsdTri.Cone ℝ, K.R.size = K.n * K.n ∧ K.Rinv.size = K.n * K.n ∧
    (#[3] : Array ℝ).size = PsdIndex.triangularNumber K.n ∧
    toM K.n (matOf K.n K.R) * toM K.n (matOf K.n K.Rinv) = 1 := by
  refine ⟨⟨1, #[1], #[1], #[2], #[1 / 2], #[1]⟩, rfl, rfl, rfl, ?_⟩
  ext i j
  fin_cases i; fin_cases j
  simp [Matrix.mul_apply, toM, matOf]

/-- [R] `mul_Hs x = Wᵀ(W x) = svec(R(RᵀXR)Rᵀ)`. -/
theorem psd_mulHs_eq (K : PsdTri.Cone ℝ) (x : Array ℝ) (hR : K.R.size = K.n * K.n)
    (hx : x.size = PsdIndex.triangularNumber K.n) :
    mulHs K x = .ok (svecM (toM K.n (matOf K.n K.R)
      * ((toM K.n (matOf K.n K.R))ᵀ * toM K.n (svecToMat x) * toM K.n (matOf K.n K.R))
      * (toM K.n (matOf K.n K.R))ᵀ)) :=
  mulHs_eq K x hR hx

/-- [R] `skron`: the packed upper triangle of `A ⊗ₛ A` that `skron` + `pack_triu` produce,
read as a symmetric matrix of order `n(n+1)/2` and applied to `x`, is `svec(A·mat(x)·A)`
(for a symmetric `A`, which is what the `Symmetric` view passed to `skron` is). -/
theorem psd_skron_operator (n : Nat) (A : MatFn ℝ) (hA : GSymm A) (x : Array ℝ) :
    symPackedMulVec (PsdIndex.triangularNumber n) (skronPacked n A) x
      = svecM (toM n A * toM n (svecToMat x) * toM n A) := by
  rw [symPackedMulVec_skron n A hA x, matToSvec_axa]

/-- [R] **same operator, dense (PSD) block**: when `Hs = skron(A)` with `A = RRᵀ` — which is
what `update_scaling` stores, see `psd_assemble_spec` — the block `get_Hs` writes into the KKT
matrix acts on every `x` exactly as `mul_Hs`, the operator used to recover the slack step. -/
theorem psd_getHs_eq_mulHs (K : PsdTri.Cone ℝ) (A : MatFn ℝ) (x : Array ℝ)
    (hR : K.R.size = K.n * K.n) (hx : x.size = PsdIndex.triangularNumber K.n) (hA : GSymm A)
    (hHs : K.Hs = skronPacked K.n A)
    (hAR : toM K.n A = toM K.n (matOf K.n K.R) * (toM K.n (matOf K.n K.R))ᵀ) :
    ∃ H y, PsdTri.getHs K (PsdIndex.triangularNumber (PsdIndex.triangularNumber K.n)) = .ok H ∧ mulHs K x = .ok y ∧
      symPackedMulVec (PsdIndex.triangularNumber K.n) H x = y :=
  getHs_eq_mulHs K A x hR hx hA hHs hAR

/-- [R] the tail of `update_scaling` (after the LAPACK calls) stores `λ = σ`,
`R = L₁·Vtᵀ·Λ^{-1/2}`, `R⁻¹ = Λ^{-1/2}·Uᵀ·L₂ᵀ` (the matrices of `psd_nt_scaling` with `V = Vtᵀ`)
and `Hs = skron(A)` with `A` symmetric and `A = RRᵀ` — the hypotheses of `psd_getHs_eq_mulHs`. -/
theorem psd_assemble_spec (n : Nat) (L1 L2 U Vt sig : Array ℝ)
    (h1 : L1.size = n * n) (h2 : L2.size = n * n) (hU : U.size = n * n) (hV : Vt.size = n * n)
    (hs : sig.size = n) :
    ∃ K RRt A, assembleScaling n L1 L2 U Vt sig = .ok (K, RRt) ∧ K.n = n ∧ K.lam = sig ∧
      K.R.size = n * n ∧ K.Rinv.size = n * n ∧
      toM n (matOf n K.R)
        = toM n (matOf n L1) * (toM n (matOf n Vt))ᵀ * Matrix.diagonal (isqrtVec n sig) ∧
      toM n (matOf n K.Rinv)
        = Matrix.diagonal (isqrtVec n sig) * (toM n (matOf n U))ᵀ * (toM n (matOf n L2))ᵀ ∧
      K.Hs = skronPacked n A ∧ GSymm A ∧
      toM n A = toM n (matOf n K.R) * (toM n (matOf n K.R))ᵀ :=
  assembleScaling_spec n L1 L2 U Vt sig h1 h2 hU hV hs

/-- [R] **PSD Nesterov–Todd identities on the model's own operators**: if the LAPACK results
meet their contracts (`mat(s) = L₁L₁ᵀ`, `mat(z) = L₂L₂ᵀ`, `L₂ᵀL₁ = U·diag(σ)·Vt`,
`UᵀU = Vt·Vtᵀ = I`, `σ > 0`), then for the scaling `update_scaling` assembles,
`mul_W z = λ = mul_Winv(T) s` (as `svec(diag λ)`), `mul_Hs z = (WᵀW) z = s`, `R·R⁻¹ = I`. -/
theorem psd_assemble_nt (n : Nat) (L1 L2 U Vt sig s z y : Array ℝ)
    (h1 : L1.size = n * n) (h2 : L2.size = n * n) (hU : U.size = n * n) (hV : Vt.size = n * n)
    (hsg : sig.size = n) (hs : s.size = PsdIndex.triangularNumber n) (hz : z.size = PsdIndex.triangularNumber n)
    (hy : y.size = PsdIndex.triangularNumber n)
    (hS : toM n (svecToMat s) = toM n (matOf n L1) * (toM n (matOf n L1))ᵀ)
    (hZ : toM n (svecToMat z) = toM n (matOf n L2) * (toM n (matOf n L2))ᵀ)
    (hsvd : (toM n (matOf n L2))ᵀ * toM n (matOf n L1)
      = toM n (matOf n U) * Matrix.diagonal (fun i : Fin n => sig.getD i 0) * toM n (matOf n Vt))
    (hUo : (toM n (matOf n U))ᵀ * toM n (matOf n U) = 1)
    (hVo : toM n (matOf n Vt) * (toM n (matOf n Vt))ᵀ = 1)
    (hpos : ∀ i, i < n → 0 < sig.getD i 0) :
    ∃ K RRt, assembleScaling n L1 L2 U Vt sig = .ok (K, RRt) ∧
      mulW K false y z 1 0 = .ok (lamVec n K.lam) ∧
      mulWinv K true y s 1 0 = .ok (lamVec n K.lam) ∧
      mulHs K z = .ok s ∧
      toM n (matOf n K.R) * toM n (matOf n K.Rinv) = 1 :=
  assembleScaling_nt n L1 L2 U Vt sig s z y h1 h2 hU hV hsg hs hz hy hS hZ hsvd hUo hVo hpos

/-- non-vacuity of `psd_assemble_nt` / `psd_assemble_spec`: `n = 1`, `s = z = (4)`,
`L₁ = L₂ = (2)`, `U = Vt = (1)`, `σ = (4)`. -/
example : ∃ (L1 L2 U Vt sig s z : Array ℝ), L1.size = 1 * 1 ∧ sig.size = 1 ∧
    s.size = PsdIndex.triangularNumber 1 ∧
    toM 1 (svecToMat s) = toM 1 (matOf 1 L1) * (toM 1 (matOf 1 L1))ᵀ ∧
    toM 1 (svecToMat z) = toM 1 (matOf 1 L2) * (toM 1 (matOf 1 L2))ᵀ ∧
    (toM 1 (matOf 1 L2))ᵀ * toM 1 (matOf 1 L1)
      = toM 1 (matOf 1 U) * Matrix.diagonal (fun i : Fin 1 => sig.getD i 0) * toM 1 (matOf 1 Vt) ∧
    (toM 1 (matOf 1 U))ᵀ * toM 1 (matOf 1 U) = 1 ∧
    toM 1 (matOf 1 Vt) * (toM 1 (matOf 1 Vt))ᵀ = 1 ∧ (∀ i, i < 1 → 0 < sig.getD i 0) := by
  refine ⟨#[2], #[2], #[1], #[1], #[4], #[4], #[4], rfl, rfl, rfl, ?_, ?_, ?_, ?_, ?_, ?_⟩
  · ext i j; fin_cases i; fin_cases j
    simp [Matrix.mul_apply, toM, matOf, svecToMat, PsdIndex.triangularNumber]; norm_num
  · ext i j; fin_cases i; fin_cases j
    simp [Matrix.mul_apply, toM, matOf, svecToMat, PsdIndex.triangularNumber]; norm_num
  · ext i j; fin_cases i; fin_cases j
    simp [Matrix.mul_apply, toM, matOf]; norm_num
  · ext i j; fin_cases i; fin_cases j
    simp [Matrix.mul_apply, toM, matOf]
  · ext i j; fin_cases i; fin_cases j
    simp [Matrix.mul_apply, toM, matOf]
  · intro i hi
    have : i = 0 := by omega
    subst this; simp

/-- [R] PSD Jordan algebra: `circ_op` is the Jordan product `y ∘ z = svec(½(YZ + ZY))`, and it
is commutative. -/
theorem psd_circ_is_jordan (n : Nat) (y z : Array ℝ) (hy : y.size = PsdIndex.triangularNumber n)
    (hz : z.size = PsdIndex.triangularNumber n) :
    PsdTri.circOp n y z = .ok (svecM ((1 / 2 : ℝ) •
      (toM n (svecToMat y) * toM n (svecToMat z) + toM n (svecToMat z) * toM n (svecToMat y)))) ∧
    PsdTri.circOp n y z = PsdTri.circOp n z y :=
  ⟨circOp_eq n y z hy hz, circOp_comm n y z⟩

/-- [R] PSD: `affine_ds = λ ∘ λ`, with `λ` in the cone's vector form `svec(diag λ)`. -/
theorem psd_affineDs_eq (K : PsdTri.Cone ℝ) (hl : K.lam.size = K.n) :
    PsdTri.affineDs K (PsdIndex.triangularNumber K.n)
      = PsdTri.circOp K.n (lamVec K.n K.lam) (lamVec K.n K.lam) :=
  affineDs_eq K hl

/-- [R] PSD: `λ ∘ (λ \ z) = z` — `λ_inv_circ_op` inverts the Jordan product with the diagonal
`λ` — whenever no `λᵢ + λⱼ` vanishes (in particular for the positive singular values). -/
theorem psd_circ_lamInv (K : PsdTri.Cone ℝ) (z : Array ℝ) (hl : K.lam.size = K.n)
    (hz : z.size = PsdIndex.triangularNumber K.n)
    (hne : ∀ i j, i < K.n → j < K.n → K.lam.getD i 0 + K.lam.getD j 0 ≠ 0) :
    ∃ q, PsdTri.lamInvCircOp K z = .ok q ∧ PsdTri.circOp K.n (lamVec K.n K.lam) q = .ok z :=
  ⟨_, lamInvCircOp_ok K z hl hz, circ_lamInv K.n K.lam z hz hne⟩

/-- non-vacuity: `n = 2`, `λ = (2, 1)` -/
example : ∃ K : PsdTri.Cone ℝ, K.lam.size = K.n ∧ (#[1, 2, 3] : Array ℝ).size = PsdIndex.triangularNumber K.n ∧
    ∀ i j, i < K.n → j < K.n → K.lam.getD i 0 + K.lam.getD j 0 ≠ 0 := by
  refine ⟨⟨2, #[2, 1], #[], #[], #[], #[]⟩, rfl, rfl, ?_⟩
  intro i j hi hj
  have hi' : i = 0 ∨ i = 1 := by simp at hi; omega
  have hj' : j = 0 ∨ j = 1 := by simp at hj; omega
  rcases hi' with rfl | rfl <;> rcases hj' with rfl | rfl <;> simp <;> norm_num

/-- [R] PSD: `scaled_unit_shift z α = z + α·svec(I)` (`α` is added exactly at the packed
diagonal positions `triangular_index(k)`). -/
theorem psd_scaledUnitShift_eq (n : Nat) (z : Array ℝ) (a : ℝ) (hz : z.size = PsdIndex.triangularNumber n) :
    PsdIndex.scaledUnitShift n z a
      = .ok (packed n fun r c => z.getD (PsdIndex.triangularNumber c + r) 0 + if r = c then a else 0).toArray :=
  scaledUnitShift_eq n z a hz

/-- [R] PSD: `Δs_from_Δz_offset = Wᵀ(λ \ ds)`, which is `svec(R·(2DSᵢⱼ/(λᵢ+λⱼ))·Rᵀ)`. -/
theorem psd_dsOffset_eq (K : PsdTri.Cone ℝ) (ds : Array ℝ) (hR : K.R.size = K.n * K.n)
    (hl : K.lam.size = K.n) (hd : ds.size = PsdIndex.triangularNumber K.n) :
    ∃ q, PsdTri.lamInvCircOp K ds = .ok q ∧ PsdTri.dsFromDzOffset K ds = mulW K true q q 1 0 ∧
      PsdTri.dsFromDzOffset K ds = .ok (svecM (toM K.n (matOf K.n K.R)
        * lamInvM K.lam (toM K.n (svecToMat ds)) * (toM K.n (matOf K.n K.R))ᵀ)) :=
  dsFromDzOffset_eq K ds hR hl hd

/-- [R] PSD: `combined_ds_shift` leaves `step_z = WΔz = svec(RᵀDZ R)`,
`step_s = W⁻ᵀΔs = svec(R⁻¹DS R⁻ᵀ)` and `shift = (W⁻ᵀΔs) ∘ (WΔz) − σμ·e`, `e = svec(I)`. -/
theorem psd_combinedDsShift_eq (K : PsdTri.Cone ℝ) (dz ds : Array ℝ) (sm : ℝ)
    (hR : K.R.size = K.n * K.n) (hRi : K.Rinv.size = K.n * K.n)
    (hz : dz.size = PsdIndex.triangularNumber K.n) (hs : ds.size = PsdIndex.triangularNumber K.n) :
    ∃ wz ws c, mulW K false dz dz 1 0 = .ok wz ∧ mulWinv K true ds ds 1 0 = .ok ws ∧
      wz = svecM ((toM K.n (matOf K.n K.R))ᵀ * toM K.n (svecToMat dz) * toM K.n (matOf K.n K.R)) ∧
      ws = svecM (toM K.n (matOf K.n K.Rinv) * toM K.n (svecToMat ds)
        * (toM K.n (matOf K.n K.Rinv))ᵀ) ∧
      PsdTri.circOp K.n ws wz = .ok c ∧
      PsdTri.combinedDsShift K dz ds sm = .ok
        ((packed K.n fun r c' => c.getD (PsdIndex.triangularNumber c' + r) 0 + if r = c' then -sm else 0).toArray,
          wz, ws) :=
  combinedDsShift_eq K dz ds sm hR hRi hz hs

end PSDModel

/-! ## `set_identity_scaling`: the state it leaves depends on the cone's shape only -/
section IdentityScaling
variable {α : Type} [Add α] [Mul α] [Sub α] [Div α] [Neg α] [OfNat α 0] [OfNat α 1] [LT α]
  [DecidableLT α] [FloatLike α]

/-- [S] NN: after `set_identity_scaling` the scaling `w` (all that `get_Hs`, `mul_Hs`, `mul_W`,
`mul_Winv` read) is the same whatever the cone held before. -/
theorem nn_setIdentity_state (K1 K2 : Clarabel.Nonneg.Cone α) (h : K1.w.size = K2.w.size) :
    (Clarabel.Nonneg.setIdentityScaling K1).w = (Clarabel.Nonneg.setIdentityScaling K2).w :=
  Clarabel.Nonneg.setIdentityScaling_state K1 K2 h

/-- [S] SOC: after `set_identity_scaling` the scaling part of the state — `w`, `η` and the
sparse-expansion data `(u, v, d)` handed to the KKT assembly — is the same for any two cones of
the same shape, whatever `update_scaling` history they have behind them (valid at `Float`). -/
theorem soc_setIdentity_state (K1 K2 : Soc.Cone α) (h : Soc.SameShape K1 K2) :
    (Soc.setIdentityScaling K1).map Soc.scalingPart
      = (Soc.setIdentityScaling K2).map Soc.scalingPart :=
  Soc.setIdentityScaling_state K1 K2 h

/-- [S] PSD: after `set_identity_scaling`, `R`, `R⁻¹`, `Hs` depend on the order `n` only. -/
theorem psd_setIdentity_state (K1 K2 : PsdTri.Cone α) (h : K1.n = K2.n) :
    (PsdTri.setIdentityScaling K1).R = (PsdTri.setIdentityScaling K2).R ∧
    (PsdTri.setIdentityScaling K1).Rinv = (PsdTri.setIdentityScaling K2).Rinv ∧
    (PsdTri.setIdentityScaling K1).Hs = (PsdTri.setIdentityScaling K2).Hs :=
  PsdTri.setIdentityScaling_state K1 K2 h

/-- non-vacuity of `soc_setIdentity_state`: two sparse-expanded cones of dimension 5 with
different contents have the same shape -/
example : Soc.SameShape
    (⟨5, #[1, 2, 3, 4, 5], #[0, 0, 0, 0, 0], 7, some ⟨#[1, 1, 1, 1, 1], #[2, 2, 2, 2, 2], 3⟩⟩ : Soc.Cone Nat)
    ⟨5, #[0, 0, 0, 0, 0], #[9, 9, 9, 9, 9], 1, some ⟨#[0, 0, 0, 0, 0], #[0, 0, 0, 0, 0], 1⟩⟩ :=
  ⟨rfl, rfl, rfl⟩

end IdentityScaling

/-! ## round 5: PSD `update_scaling` as a whole — the LAPACK failure paths -/
section PsdUpdate
open PsdTri
variable {α : Type} [Add α] [Mul α] [Sub α] [Div α] [Neg α] [OfNat α 0] [OfNat α 1] [LT α]
  [DecidableLT α] [FloatLike α]

set_option linter.unusedSectionVars false

/-- [S] **PSD `update_scaling`, failure paths.**  The LAPACK results are a parameter
(`LapackOut`: for each of `chol1.factor(S)`, `chol2.factor(Z)`, `SVD.factor(L₂ᵀL₁)` either the
result or `none` = the call returned `Err`).  For a non-empty cone and svec-sized `s`, `z`: if the
Cholesky factorization of `S` **or** of `Z` **or** the SVD is reported as failed, the model of
`update_scaling` returns `is_scaling_success = false` and the scaling state `λ, Λisqrt, R, R⁻¹, Hs`
is **the one it started from** (every write to it comes after the last LAPACK call) — whatever
the other two calls returned.  Holds at `Float`.  (The solver then ends the solve with
`NumericalError`: C04's loop skeleton, `scaling_success = false`.) -/
theorem psd_update_scaling_failure (K : Cone α) (s z : Array α) (lap : LapackOut α)
    (hs : s.isEmpty = false) (hsz : SvecSized K s z)
    (hf : lap.chol1 = none ∨ lap.chol2 = none ∨ lap.svd = none) :
    updateScaling K s z lap = .ok (false, K) :=
  updateScaling_failed K s z lap hs hsz hf

/-- [S] **PSD `update_scaling`, the verdict.**  For svec-sized inputs: an empty cone returns
`true` untouched; with all three LAPACK results present the update is `assembleScaling` of them
(the function `psd_assemble_spec` / `psd_assemble_nt` are about) with flag `true`; and whenever a
result `(ok, K')` is returned, `ok = false` **iff** the cone is non-empty and some LAPACK call
failed. -/
theorem psd_update_scaling_verdict (K : Cone α) (s z : Array α) (lap : LapackOut α)
    (hsz : SvecSized K s z) :
    (s.isEmpty = true → updateScaling K s z lap = .ok (true, K)) ∧
    (s.isEmpty = false → ∀ L1 L2 U Vt sig, lap = ⟨some L1, some L2, some (U, Vt, sig)⟩ →
      updateScaling K s z lap = (assembleScaling K.n L1 L2 U Vt sig).map (fun r => (true, r.1))) ∧
    (∀ ok K', updateScaling K s z lap = .ok (ok, K') →
      (ok = false ↔ (s.isEmpty = false ∧ (lap.chol1 = none ∨ lap.chol2 = none ∨ lap.svd = none)))) :=
  ⟨updateScaling_empty K s z lap,
   fun hs L1 L2 U Vt sig hl => by subst hl; exact updateScaling_success K s z L1 L2 U Vt sig hs hsz,
   fun ok K' h => updateScaling_false_iff K K' s z lap hsz ok h⟩

/-- [S] **No panic, whatever LAPACK reports** (the C04 fix /repo e0ffbac, cone side): no input and
no combination of LAPACK outcomes makes the model of `update_scaling` return `.panic`; whereas the
code before the fix (`updateScalingOld`: `f.SVD.factor(tmp).expect("SVD error")`) panicked exactly
when both Cholesky factorizations succeeded and the SVD failed — reachable after a numerical
breakdown (non-finite factors) — and agreed with the fixed code on every other outcome. -/
theorem psd_update_scaling_no_panic (K : Cone α) (s z : Array α) (lap : LapackOut α) :
    (∀ site, updateScaling K s z lap ≠ .error (.panic site)) ∧
    (s.isEmpty = false → SvecSized K s z → ∀ L1 L2, lap = ⟨some L1, some L2, none⟩ →
      updateScalingOld K s z lap = .error (.panic "SVD error")) ∧
    ((¬ ∃ L1 L2, lap.chol1 = some L1 ∧ lap.chol2 = some L2 ∧ lap.svd = none) →
      updateScalingOld K s z lap = updateScaling K s z lap) :=
  ⟨updateScaling_noPanic K s z lap,
   fun hs hsz L1 L2 hl => by subst hl; exact updateScalingOld_panics K s z L1 L2 hs hsz,
   updateScalingOld_eq K s z lap⟩

/-- non-vacuity (the hypotheses are about sizes and options only, so any scalar type and any
entry `a` will do): a 1×1 cone, `s = z = (a)`, the Cholesky of `Z` reported as failed -/
example (K : Cone α) (hn : K.n = 1) (a : α) :
    updateScaling K #[a] #[a] ⟨some #[a], none, none⟩ = .ok (false, K) :=
  psd_update_scaling_failure K #[a] #[a] _ rfl
    ⟨by rw [hn]; rfl, by rw [hn]; rfl⟩ (Or.inr (Or.inl rfl))

/-- … and the pre-fix code on "both Cholesky factors, no SVD" -/
example (K : Cone α) (hn : K.n = 1) (a : α) :
    updateScalingOld K #[a] #[a] ⟨some #[a], some #[a], none⟩ = .error (.panic "SVD error") :=
  (psd_update_scaling_no_panic K #[a] #[a] _).2.1 rfl ⟨by rw [hn]; rfl, by rw [hn]; rfl⟩ _ _ rfl

end PsdUpdate

end Clarabel.C13
