/-
  C09 on the whole-solver model WITH NONSYMMETRIC CONES (`ClarabelModel/SolverNS/*.lean`: zero /
  nonnegative / second-order / exponential / power / generalised power cones, the
  `PrimalDual → Dual` strategy switch, barrier backtracking): `presolve_transparent_full` lifted.

  The presolver / `DefaultProblemData::new` stage is the SAME function in both whole-solver models
  (`ProblemData.new`, `Presolve.keepFlags`, `Presolve.handReduce`), so everything about it is
  reused; what is new is that the NS `default_start`, `pass`, loop and `finish` never read the
  `presolver` record (`Lemmas/SolverNSPresolveTransparent.lean`) and that the final `variables`
  keep the lengths of the reduced problem (`SolverNS.solve_sizedN`).
-/
import ClarabelProofs.Lemmas.SolverNSPresolveTransparentFull
import ClarabelProofs.Lemmas.SolverNSExample
import ClarabelProofs.Props.C16

namespace Clarabel.C09
open Clarabel Clarabel.Presolve Clarabel.Cones

section ns_transparent_full
variable {α : Type}
variable [Add α] [Sub α] [Mul α] [Div α] [Neg α] [LT α] [LE α] [DecidableLT α] [DecidableLE α]
  [BEq α] [OfNat α 0] [OfNat α 1] [OfNat α 2] [OfNat α 3] [OfNat α 4] [OfNat α 100] [OfNat α 1000]
  [OfScientific α] [FloatLike α]

/-- [S] **`C09.ns_presolve_transparent_full`** — `presolve_transparent_full` for the whole-solver
model with nonsymmetric cones.  Let `DefaultSolver::new(P, q, A, b, cones, settings)` succeed with
presolve ENABLED for a canonical `A` (any cone list: zero / nonnegative / second-order /
exponential / power / generalised power), let `keep` be the keep vector of `make_reduction_map` on
the collapsed cone list and suppose at least one row is dropped.  Then the user's hand-reduced
problem `(A', b', cones') = handReduce keep A b cones` is accepted by `DefaultSolver::new` with
presolve OFF (same `perm`), the two solver objects coincide except for the `presolver` record and
the length of the `solution` vectors, the row map `post_process` uses is `(keep, infbound)`, the
internal problem has `A'.m = #kept rows` rows, and every successful `solve()` of the former keeps
`|variables.s| = |variables.z| = A'.m` and is matched by a `solve()` of the latter with the SAME
trajectory (every pass record: iterate, μ, σ, step lengths, the strategy of the pass, the three
checkpoint answers, the number of barrier contractions), the same internal state up to the
`presolver` record, the same status / iterations / objective values / residuals / `x`, whose
`(s, z)` are the reduced ones — of which the presolve-on `(s, z)` is the `reverse_presolve` image:
kept row `k` ↦ entry `rank keep k`, dropped row ↦ `(infbound, 0)`.  Hypotheses: about the user's
input only (no length hypothesis). -/
theorem ns_presolve_transparent_full {P : Csc α} {q : Array α} {A : Csc α} {b : Array α}
    {cones : List (ConeT α)} {st : SolverNS.Settings α} {perm : Array Nat} {S : SolverNS.Solver α}
    {keep : List Bool}
    (hA : C16.Canonical A) (hpre : st.presolveEnable = true)
    (hnew : SolverNS.Solver.new P q A b cones st perm = .ok S)
    (hk : keepFlags (threshold st.infbound) (newCollapsed cones) b.toList = .ok keep)
    (hc : keep.count true < b.size) :
    ∃ (A' : Csc α) (b' : Array α) (cones' : List (ConeT α)) (S' : SolverNS.Solver α),
      handReduce keep A b cones = .ok (A', b', cones') ∧
      A'.m = keep.count true ∧ A'.n = A.n ∧
      SolverNS.Solver.new P q A' b' cones' { st with presolveEnable := false } perm = .ok S' ∧
      S'.st = S.st.setPre none ∧ S'.solution = Unscale.Solution.new A'.n A'.m ∧
      Solver.presolveMap S.st.data = some { keep := keep.toArray, infbound := st.infbound } ∧
      S.st.data.m = A'.m ∧
      ∀ r, S.solve st = .ok r →
        (r.S.st.variables.s.size = A'.m ∧ r.S.st.variables.z.size = A'.m) ∧
        ∃ r', S'.solve { st with presolveEnable := false } = .ok r' ∧
          r'.traj = r.traj ∧ r'.S.st = r.S.st.setPre none
          ∧ r'.S.solution.status = r.S.solution.status
          ∧ r'.S.solution.iterations = r.S.solution.iterations
          ∧ r'.S.solution.obj_val = r.S.solution.obj_val
          ∧ r'.S.solution.obj_val_dual = r.S.solution.obj_val_dual
          ∧ r'.S.solution.r_prim = r.S.solution.r_prim ∧ r'.S.solution.r_dual = r.S.solution.r_dual
          ∧ r'.S.solution.x = r.S.solution.x
          ∧ ∀ k, (hk : k < keep.length) →
            (keep[k] = true →
                r.S.solution.s[k]? = r'.S.solution.s[Unscale.rank keep k]?
                ∧ r.S.solution.z[k]? = r'.S.solution.z[Unscale.rank keep k]?
                ∧ (r'.S.solution.s[Unscale.rank keep k]?).isSome
                ∧ (r'.S.solution.z[Unscale.rank keep k]?).isSome)
            ∧ (keep[k] = false →
                r.S.solution.s[k]? = some st.infbound ∧ r.S.solution.z[k]? = some 0) := by
  obtain ⟨A', b', cones', S', h1, h2, h3, h4, h5, h6, h7, hm, h8⟩ :=
    SolverNS.presolve_transparent_model_fullN hA hpre hnew hk hc
  refine ⟨A', b', cones', S', h1, h2, h3, h4, h5, h6, h7, hm, ?_⟩
  intro r hr
  obtain ⟨hsz, r', hr', hrel⟩ := h8 r hr
  obtain ⟨e1, e2, e3, e4, e5, e6, e7, e8, e9, _, _, e12⟩ := hrel.explicit
  refine ⟨hsz, r', hr', e1, e2, e3, e4, e5, e6, e7, e8, e9, ?_⟩
  intro k hk
  have := e12 k (by simpa using hk)
  simpa using this

end ns_transparent_full

section ns_examples
open Clarabel.SolverNS.Example
attribute [local instance] intFloatLike intSci

/-- an instance WITH AN EXPONENTIAL CONE on which presolve drops a row: one variable, cones
`[nonneg 2, exp]`, `b = (1, 2·10⁶, 1, 1, 1)`, infinity bound `10⁶` -/
def nsA : Csc Int := { m := 5, n := 1, colptr := #[0, 2], rowval := #[0, 1], nzval := #[1, 1] }
def nsB : Array Int := #[1, 2000000, 1, 1, 1]
def nsSt : SolverNS.Settings Int := { SolverNS.Example.st 3 with presolveEnable := true }

/-- non-vacuity of `ns_presolve_transparent_full`: its hypotheses hold on that instance (`new`
evaluated by the kernel; the `solve()` is NOT evaluated in the build), and the theorem produces the
hand-reduced solver with 4 rows -/
example : ∃ (A' : Csc Int) (S' : SolverNS.Solver Int), A'.m = 4 ∧
    (∃ S, SolverNS.Solver.new SolverNS.Example.P #[1] nsA nsB [.nonneg 2, .exp] nsSt #[0, 1, 2, 3, 4]
      = .ok S ∧ S'.st = S.st.setPre none ∧ S.st.data.m = A'.m) := by
  have h : (SolverNS.Solver.new SolverNS.Example.P #[1] nsA nsB [.nonneg 2, .exp] nsSt
      #[0, 1, 2, 3, 4]).toOption.map (fun S => S.solution.x.size) = some 1 := by
    decide +kernel
  cases hS : SolverNS.Solver.new SolverNS.Example.P #[1] nsA nsB [.nonneg 2, .exp] nsSt
      #[0, 1, 2, 3, 4] with
  | error e => rw [hS] at h; cases h
  | ok S =>
    obtain ⟨A', b', cones', S', -, h2, -, -, h5, -, -, hm, -⟩ :=
      ns_presolve_transparent_full (keep := [true, false, true, true, true])
        (C16.check_format_canonical nsA (by rfl)) rfl hS (by rfl) (by decide)
    exact ⟨A', S', h2, S, rfl, h5, hm⟩

end ns_examples

end Clarabel.C09
