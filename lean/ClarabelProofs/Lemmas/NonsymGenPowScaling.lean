/-
  Generalised power cone (C14): the interior test of `update_scaling`, the line search that feeds
  it, and `combined_ds_shift`.

  `update_scaling` tests only `ζ = Π(zᵢ/αᵢ)^{2αᵢ} - ‖w‖² > 0`, not `u > 0`.
  * the test is exact on `u > 0` (`ζ > 0 ⇔ z ∈ int K*`);
  * without `u > 0` it is not: `α = (½,½)`, `z = (-1,-1,0)` gives `ζ = 4 > 0`, the update is accepted,
    `is_dual_feasible` says no;
  * the line search (`backtrack_search` with `is_dual_feasible`) only returns steps whose end point
    passes `is_dual_feasible`, and every such point passes the `ζ` test: inside `solve()` the missing
    `u > 0` test is not reachable.
-/
import ClarabelProofs.Lemmas.NonsymGenPow

namespace Clarabel.Nonsym
open Clarabel

section
variable {α : Type} [Add α] [Mul α] [LT α] [DecidableLT α] [OfNat α 0] [OfNat α 1]

/-- [S] (any scalar type, also `Float`) `backtrack_search` returns either `0` or a step whose end
point `q + a·dq` passed the cone test. -/
theorem backtrackSearch_post (dq q : Array α) (aMin step : α) (inCone : Array α → Bool) :
    ∀ (fuel : Nat) (aInit a : α), backtrackSearch dq q aInit aMin step inCone fuel = .ok a →
      a = 0 ∨ inCone (Vec.waxpby 1 q a dq) = true := by
  intro fuel
  induction fuel with
  | zero => intro aInit a h; simp [backtrackSearch, throw, throwThe, MonadExceptOf.throw] at h
  | succ n ih =>
    intro aInit a h
    unfold backtrackSearch at h
    simp only at h
    split at h
    · rename_i hin
      simp only [pure, Except.pure, Except.ok.injEq] at h
      subst h
      exact Or.inr hin
    · split at h
      · simp only [pure, Except.pure, Except.ok.injEq] at h
        exact Or.inl h.symm
      · exact ih _ _ h

end
end Clarabel.Nonsym

namespace Clarabel.GenPow
open Clarabel Nonsym

/-- `update_scaling` refuses exactly when `ζ ≤ 0` … -/
theorem updateScaling_refuse (al u w : List ℝ) (hlen : al.length = u.length) (st : State ℝ) (mu : ℝ)
    (hζ : ¬ 0 < prodPhi al u - sumSq w) :
    updateScaling al.toArray st (u ++ w).toArray mu = .ok (false, st) := by
  unfold updateScaling
  rw [split_ok al u w hlen]
  simp only [bind, Except.bind, pure, Except.pure]
  rw [phiDual_eq al u w hlen, sumsq_eq]
  simp [hζ]

/-- … and accepts (storing gradient/Hessian data, `μ` and `z`) exactly when `ζ > 0`. -/
theorem updateScaling_accept (al u w : List ℝ) (hlen : al.length = u.length) (st : State ℝ) (mu : ℝ)
    (hζ : 0 < prodPhi al u - sumSq w) :
    ∃ D, updateDualGradH al.toArray (u ++ w).toArray = .ok D ∧
      updateScaling al.toArray st (u ++ w).toArray mu = .ok (true, ⟨D, mu, (u ++ w).toArray⟩) := by
  obtain ⟨D, hD, -⟩ := updateDualGradH_grad al u w hlen hζ
  refine ⟨D, hD, ?_⟩
  unfold updateScaling
  rw [split_ok al u w hlen]
  simp only [bind, Except.bind, pure, Except.pure]
  rw [phiDual_eq al u w hlen, sumsq_eq, hD]
  simp [hζ]

/-- the value of the accept flag -/
theorem updateScaling_flag (al u w : List ℝ) (hlen : al.length = u.length) (st : State ℝ) (mu : ℝ) :
    (∃ st', updateScaling al.toArray st (u ++ w).toArray mu = .ok (true, st')) ↔
      0 < prodPhi al u - sumSq w := by
  constructor
  · rintro ⟨st', h⟩
    by_contra hζ
    rw [updateScaling_refuse al u w hlen st mu hζ] at h
    simp at h
  · intro hζ
    obtain ⟨D, -, h⟩ := updateScaling_accept al u w hlen st mu hζ
    exact ⟨_, h⟩

/-- [R] on `u > 0` the `ζ` test of `update_scaling` is exactly membership in the open dual cone -/
theorem updateScaling_sound (al u w : List ℝ) (hlen : al.length = u.length) (ha : AllPos al) (hu : AllPos u)
    (st : State ℝ) (mu : ℝ) :
    (∃ st', updateScaling al.toArray st (u ++ w).toArray mu = .ok (true, st')) ↔
      isDualFeasible al.toArray (u ++ w).toArray = .ok true := by
  rw [updateScaling_flag al u w hlen, isDualFeasible_iff al u w hlen ha]
  constructor
  · intro h; exact ⟨hu, by linarith⟩
  · rintro ⟨-, h⟩; linarith

/-- [R] counterexample without `u > 0`: `α = (½,½)`, `z = (-1,-1,0)` is accepted by `update_scaling`
(`ζ = (-2)¹·(-2)¹ - 0 = 4 > 0`) although it is not in the dual cone (`is_dual_feasible = false`). -/
theorem updateScaling_accepts_exterior (st : State ℝ) (mu : ℝ) :
    (∃ st', updateScaling #[1 / 2, 1 / 2] st #[-1, -1, 0] mu = .ok (true, st')) ∧
      isDualFeasible (#[1 / 2, 1 / 2] : Array ℝ) #[-1, -1, 0] = .ok false := by
  have hz : (#[-1, -1, 0] : Array ℝ) = (([-1, -1] : List ℝ) ++ [0]).toArray := rfl
  have ha : (#[1 / 2, 1 / 2] : Array ℝ) = ([1 / 2, 1 / 2] : List ℝ).toArray := rfl
  constructor
  · rw [hz, ha, updateScaling_flag [1 / 2, 1 / 2] [-1, -1] [0] rfl]
    unfold prodPhi sumSq
    norm_num
  · rw [hz, ha]
    unfold isDualFeasible
    rw [split_ok [1 / 2, 1 / 2] [-1, -1] [0] rfl]
    simp only [bind, Except.bind, pure, Except.pure]
    norm_num

/-- every array the dual membership test accepts has the form `u ++ w` with `|u| = |α|` -/
theorem isDualFeasible_shape (al z : Array ℝ) (h : isDualFeasible al z = .ok true) :
    ∃ u w : List ℝ, z = (u ++ w).toArray ∧ al.toList.length = u.length := by
  have hsz : al.size ≤ z.size := by
    by_contra hlt
    unfold isDualFeasible split at h
    simp [hlt, bind, Except.bind, throw, throwThe, MonadExceptOf.throw] at h
  refine ⟨z.toList.take al.size, z.toList.drop al.size, ?_, ?_⟩
  · simp
  · simp [hsz]

/-- [R] every point accepted by `is_dual_feasible` (hence every end point the line search returns)
passes the `ζ` test of `update_scaling`: the update is accepted and stores the point. -/
theorem updateScaling_of_dualFeasible (al z : Array ℝ) (ha : AllPos al.toList) (st : State ℝ) (mu : ℝ)
    (h : isDualFeasible al z = .ok true) :
    ∃ D, updateScaling al st z mu = .ok (true, ⟨D, mu, z⟩) := by
  obtain ⟨u, w, rfl, hlen⟩ := isDualFeasible_shape al z h
  obtain ⟨l⟩ := al
  simp only at hlen ha
  have h' := (isDualFeasible_iff l u w hlen ha).mp h
  obtain ⟨D, -, hD⟩ := updateScaling_accept l u w hlen st mu (by linarith [h'.2])
  exact ⟨D, hD⟩

/-- `inDual` is `is_dual_feasible = Ok(true)` -/
theorem inDual_iff (al x : Array ℝ) : inDual al x = true ↔ isDualFeasible al x = .ok true := by
  unfold inDual
  cases h : isDualFeasible al x with
  | ok b => cases b <;> simp
  | error e => simp

/-- [R] composite: a non-zero dual step returned by `step_length` ends at a point at which the next
`update_scaling` is accepted — the missing `u > 0` test cannot be reached through the line search. -/
theorem stepLength_then_updateScaling (al dz ds z s : Array ℝ) (step aMin aMax : ℝ) (fuel : Nat)
    (ha : AllPos al.toList) (az as : ℝ)
    (h : stepLength al dz ds z s step aMin aMax fuel = .ok (az, as)) (hne : az ≠ 0)
    (st : State ℝ) (mu : ℝ) :
    isDualFeasible al (Vec.waxpby 1 z az dz) = .ok true ∧
      ∃ D, updateScaling al st (Vec.waxpby 1 z az dz) mu = .ok (true, ⟨D, mu, Vec.waxpby 1 z az dz⟩) := by
  unfold stepLength at h
  cases h1 : backtrackSearch dz z aMax aMin step (inDual al) fuel with
  | error e => rw [h1] at h; simp [bind, Except.bind] at h
  | ok a1 =>
    rw [h1] at h
    cases h2 : backtrackSearch ds s aMax aMin step (inPrimal al) fuel with
    | error e => rw [h2] at h; simp [bind, Except.bind] at h
    | ok a2 =>
      rw [h2] at h
      simp only [bind, Except.bind, pure, Except.pure, Except.ok.injEq, Prod.mk.injEq] at h
      obtain ⟨rfl, rfl⟩ := h
      rcases backtrackSearch_post dz z aMin step (inDual al) fuel aMax a1 h1 with h0 | hin
      · exact absurd h0 hne
      · have hf := (inDual_iff al _).mp hin
        exact ⟨hf, updateScaling_of_dualFeasible al _ ha st mu hf⟩

end Clarabel.GenPow
