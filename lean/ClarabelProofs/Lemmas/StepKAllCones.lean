/-
  C07, round 4 (cone geometry): `calc_step_length` + `add_step` keep **every** cone kind strictly
  inside its cone, at full strength.

  * generalised power blocks: the stepped point `(z + a·dz, s + a·ds)` itself lies in
    `int K* × int K` (convexity of the open cone, `Lemmas/ConesGenPowConvex.lean`,
    `C15.genpow_step_safe_below`) — `StepKMixed.mixed_step` had this only "up to the accepted
    candidates";
  * PSD blocks: `mat(z + a·dz) ≻ 0`, `mat(s + a·ds) ≻ 0` in original coordinates (the congruence
    bridge, `Lemmas/ConesPsdCongruence.lean`) under the spectral contract and the Nesterov–Todd
    contract `NtOk` of the scaling in use;
  * trajectories: every iterate of every solve is interior, generalised power blocks included.
-/
import ClarabelProofs.Lemmas.StepKMixed

namespace Clarabel.StepK
open Clarabel Nonsym Loop.Step PsdStep PsdTri

/-! ## `add_step` on a slice -/

/-- `add_step` computes the line-search candidate `waxpby(1, z, a, dz)` -/
theorem addStepVec_eq_candidate (z dz : Array ℝ) (a : ℝ) :
    addStepVec z dz a = Backtrack.candidate z dz a := by
  simp only [addStepVec, Vec.axpby, Backtrack.candidate, Vec.waxpby]
  congr 1
  apply List.map_congr_left
  intro p _
  ring

theorem list_getD_zip_map (a : ℝ) : ∀ (x y : List ℝ), y.length = x.length → ∀ k,
    ((x.zip y).map (fun p => p.1 + a * p.2)).getD k 0 = x.getD k 0 + a * y.getD k 0 := by
  intro x
  induction x with
  | nil =>
    intro y hy k
    have : y = [] := List.length_eq_zero_iff.mp hy
    subst this
    simp
  | cons h t ih =>
    intro y hy k
    cases y with
    | nil => simp at hy
    | cons g u =>
      cases k with
      | zero => simp
      | succ k =>
        simp only [List.zip_cons_cons, List.map_cons, List.getD_cons_succ]
        exact ih u (by simpa using hy) k

/-- entries of the stepped slice (also outside the range: `0 = 0 + a·0`) -/
theorem addStepVec_getD (z dz : Array ℝ) (a : ℝ) (h : dz.size = z.size) (k : Nat) :
    (addStepVec z dz a).getD k 0 = z.getD k 0 + a * dz.getD k 0 := by
  have e : ∀ (x : Array ℝ), x.getD k 0 = x.toList.getD k 0 := by
    intro x
    simp [Array.getD_eq_getD_getElem?, List.getD_eq_getElem?_getD]
  rw [e, e z, e dz, addStepVec_toList]
  exact list_getD_zip_map a _ _ (by simp [h]) k

/-- `mat(z + a·dz) = mat z + a·mat dz`, entry by entry -/
theorem svecToMat_addStepVec (z dz : Array ℝ) (a : ℝ) (h : dz.size = z.size) (i j : Nat) :
    svecToMat (addStepVec z dz a) i j = unscaled z dz a i j := by
  unfold svecToMat unscaled svecToMat
  simp only [addStepVec_getD z dz a h]
  split_ifs <;> ring

theorem PosDef.of_congr {n : Nat} {A B : MatFn ℝ} (h : ∀ i j, i < n → j < n → A i j = B i j)
    (hA : PosDef n A) : PosDef n B := by
  intro v hv
  rw [← qform_congr n h v]
  exact hA v hv

/-- a step of at most `f·t`, `f < 1`, from a positive definite point stays positive definite -/
theorem stepSpecU_posDef {n : Nat} {z dz : Array ℝ} {amax t : ℝ} (hz : PosDef n (svecToMat z))
    (h : StepSpecU n z dz amax t) (a f : ℝ) (ha0 : 0 ≤ a) (hf1 : f < 1)
    (hle : a ≤ f * t) : PosDef n (unscaled z dz a) := by
  obtain ⟨t0, _, hpd, _, _⟩ := h
  by_cases ht : t = 0
  · have : a = 0 := by rw [ht] at hle; simp at hle; linarith
    rw [this]
    exact PosDef.of_congr (fun i j _ _ => by simp [unscaled]) hz
  · have htpos : 0 < t := lt_of_le_of_ne t0 (Ne.symm ht)
    exact hpd a ha0 (lt_of_le_of_lt hle ((mul_lt_iff_lt_one_left htpos).mpr hf1))

/-! ## interior points of all seven cone kinds -/

/-- `(z, s)` of a generalised power block lies in `int K* × int K`: positive exponents summing to
one, `z = uz ++ wz`, `s = us ++ ws` with `|uz| = |us| = |α|`, and C14's two membership predicates -/
def GenPowInterior (al z s : Array ℝ) : Prop :=
  (∀ a ∈ al.toList, 0 < a) ∧ al.toList.sum = 1 ∧
    ∃ uz wz us ws, z.toList = uz ++ wz ∧ al.toList.length = uz.length ∧ s.toList = us ++ ws ∧
      al.toList.length = us.length ∧ C14.GenPowDualInterior al.toList uz wz ∧
      C14.GenPowPrimalInterior al.toList us ws

/-- `Blk.Interior` extended to all cone kinds: generalised power blocks by `GenPowInterior`, PSD
blocks by `mat z ≻ 0`, `mat s ≻ 0` (original coordinates) -/
def Blk.InteriorAll : Blk ℝ → Prop
  | .genpow al z s _ _ => GenPowInterior al z s
  | .psd K _ _ z s _ _ => PosDef K.n (svecToMat z) ∧ PosDef K.n (svecToMat s)
  | b => b.Interior

/-- what the one-step theorem needs from a block: interior point and a direction of the right
shape; for a PSD block the spectral contract of the two LAPACK answers and the Nesterov–Todd
contract of the scaling `K` at the point `(z, s)` (which imply `mat z, mat s ≻ 0`) -/
def Blk.StepOkAll : Blk ℝ → Prop
  | .genpow al z s dz ds => GenPowInterior al z s ∧ dz.size = z.size ∧ ds.size = s.size
  | .psd K γz γs z s dz ds =>
    (∃ gz gs, γz = some gz ∧ γs = some gs ∧ PsdContract K gz gs dz ds) ∧ NtOk K z s ∧
      dz.size = z.size ∧ ds.size = s.size
  | b => b.Interior ∧ b.DirOk

theorem Blk.StepOkAll.stepOk {b : Blk ℝ} (h : b.StepOkAll) : b.StepOk := by
  cases b with
  | genpow al z s dz ds => trivial
  | psd K γz γs z s dz ds => exact h.1
  | zero z s dz ds => exact h
  | nn z s dz ds => exact h
  | soc z s dz ds => exact h
  | exp z s dz ds => exact h
  | pow a z s dz ds => exact h

theorem Blk.StepOkAll.interiorAll {b : Blk ℝ} (h : b.StepOkAll) : b.InteriorAll := by
  cases b with
  | genpow al z s dz ds => exact h.1
  | psd K γz γs z s dz ds =>
    obtain ⟨⟨gz, gs, _, _, _, hsc, _, _⟩, hnt, _, _⟩ := h
    exact NtOk.posDef K z s hnt hsc
  | zero z s dz ds => exact h.1
  | nn z s dz ds => exact h.1
  | soc z s dz ds => exact h.1
  | exp z s dz ds => exact h.1
  | pow a z s dz ds => exact h.1

/-- [R] one generalised power block: if the cone, asked with `a' ≥ 0`, answered `(αz, αs)`, every
step `0 ≤ a ≤ min(αz, αs)` moves `(z, s)` to a point of `int K* × int K` -/
theorem genpow_block_step (ls : LineSearch ℝ) (al z s dz ds : Array ℝ)
    (hI : GenPowInterior al z s) (hdz : dz.size = z.size) (hds : ds.size = s.size) (a' : ℝ)
    (rc : ℝ × ℝ) (h : GenPow.stepLength al dz ds z s ls.step ls.amin a' ls.fuel = .ok rc) (a : ℝ)
    (ha0 : 0 ≤ a) (g1 : a ≤ rc.1) (g2 : a ≤ rc.2) :
    GenPowInterior al (addStepVec z dz a) (addStepVec s ds a) := by
  obtain ⟨hal, hsum, uz, wz, us, ws, hzs, hzl, hss, hsl, hz, hs⟩ := hI
  have h' : GenPow.stepLength al.toList.toArray dz ds z s ls.step ls.amin a' ls.fuel
      = .ok (rc.1, rc.2) := by simpa using h
  obtain ⟨k1, k2⟩ := C15.genpow_step_safe_below al.toList hal hsum dz ds z s ls.step ls.amin a' ls.fuel
    rc.1 rc.2 h' hdz hds uz wz us ws hzs hzl hss hsl hz hs
  obtain ⟨c1, _, c3⟩ := GenPowConvex.candidate_split z dz hdz uz wz hzs a
  obtain ⟨d1, _, d3⟩ := GenPowConvex.candidate_split s ds hds us ws hss a
  refine ⟨hal, hsum, (uz.zip (dz.toList.take uz.length)).map (GenPowConvex.stepFn a),
    (wz.zip (dz.toList.drop uz.length)).map (GenPowConvex.stepFn a),
    (us.zip (ds.toList.take us.length)).map (GenPowConvex.stepFn a),
    (ws.zip (ds.toList.drop us.length)).map (GenPowConvex.stepFn a), ?_, ?_, ?_, ?_, ?_, ?_⟩
  · rw [addStepVec_eq_candidate]; exact c3
  · rw [GenPowConvex.length_zip_map a _ _ c1]; exact hzl
  · rw [addStepVec_eq_candidate]; exact d3
  · rw [GenPowConvex.length_zip_map a _ _ d1]; exact hsl
  · exact k1 a ha0 g1 _ _ c3 (by rw [GenPowConvex.length_zip_map a _ _ c1]; exact hzl)
  · exact k2 a ha0 g2 _ _ d3 (by rw [GenPowConvex.length_zip_map a _ _ d1]; exact hsl)

/-- [R] **one step over a composite of all seven cone kinds, at full strength.**  `τ, κ > 0`; every
block `StepOkAll`.  Then the value `α` of `calc_step_length(Combined)` (`0 < f < 1`) lies in
`[0, f·min(1, ατ, ακ)]`, and for every `0 ≤ a ≤ α`: `τ + a·dτ > 0`, `κ + a·dκ > 0`, and every block
after `add_step(a)` is interior (`InteriorAll`) — generalised power blocks in `int K* × int K`, PSD
blocks with `mat(z + a·dz) ≻ 0`, `mat(s + a·ds) ≻ 0` in original coordinates. -/
theorem all_step (maxValue : ℝ) (ls : LineSearch ℝ) (hs0 : 0 ≤ ls.step) (hs1 : ls.step ≤ 1)
    (hmax : 0 < maxValue) (p : Pt ℝ) (hτ : 0 < p.τ) (hκ : 0 < p.κ) (hok : ∀ b ∈ p.blks, b.StepOkAll)
    (f α : ℝ) (hf0 : 0 < f) (hf1 : f < 1) (h : calcStepLength maxValue ls p true f = .ok α) :
    0 ≤ α ∧ α ≤ f * alphaMax p.τ p.κ p.dτ p.dκ maxValue ∧
      (p.blks.all Blk.symmetric = false → α ≤ f * f) ∧
      ∀ a, 0 ≤ a → a ≤ α → 0 < addStepScalar p.τ p.dτ a ∧ 0 < addStepScalar p.κ p.dκ a ∧
        ∀ b ∈ p.blks, (b.addStep a).InteriorAll := by
  obtain ⟨hp, h1, hrt, hrk⟩ := alphaMax_bounds p.τ p.κ p.dτ p.dκ maxValue hτ hκ hmax
  obtain ⟨r, hr, hα⟩ := calcStepLength_ok maxValue ls p true f α h
  obtain ⟨e, g0, g1, g2, g3⟩ := coneStep_signed ls hs0 hs1 p.blks (fun b hb => (hok b hb).stepOk) f _
    hf0 (le_of_lt hp) r hr
  have hα' : α = f * r.1 := by
    rw [hα, ← e]; simp only [↓reduceIte, min_self]; ring
  have hαle : α ≤ f * alphaMax p.τ p.κ p.dτ p.dκ maxValue := by
    rw [hα']; exact mul_le_mul_of_nonneg_left g1 (le_of_lt hf0)
  refine ⟨by rw [hα']; exact mul_nonneg (le_of_lt hf0) g0, hαle, ?_, fun a ha0 ha => ⟨?_, ?_, ?_⟩⟩
  · intro hall
    rw [hα']; exact mul_le_mul_of_nonneg_left (g2 hall) (le_of_lt hf0)
  · exact scalar_pos p.τ p.dτ maxValue a f hτ ha0 hf1 hf0
      (le_trans ha (le_trans hαle (mul_le_mul_of_nonneg_left hrt (le_of_lt hf0))))
  · exact scalar_pos p.κ p.dκ maxValue a f hκ ha0 hf1 hf0
      (le_trans ha (le_trans hαle (mul_le_mul_of_nonneg_left hrk (le_of_lt hf0))))
  · intro b hb
    obtain ⟨a', rc, k0, _, k2, k3, k4⟩ := g3 b hb
    have ha1 : a ≤ f * rc.1 := le_trans ha (by rw [hα']; exact mul_le_mul_of_nonneg_left k3 (le_of_lt hf0))
    have ha2 : a ≤ f * rc.2 := le_trans ha (by rw [hα']; exact mul_le_mul_of_nonneg_left k4 (le_of_lt hf0))
    have hbok := hok b hb
    cases b with
    | zero z s dz ds => exact Blk.interior_step ls hs0 hs1 _ hbok.1 hbok.2 a' k0 rc k2 a f ha0 hf0 hf1 ha1 ha2
    | nn z s dz ds => exact Blk.interior_step ls hs0 hs1 _ hbok.1 hbok.2 a' k0 rc k2 a f ha0 hf0 hf1 ha1 ha2
    | soc z s dz ds => exact Blk.interior_step ls hs0 hs1 _ hbok.1 hbok.2 a' k0 rc k2 a f ha0 hf0 hf1 ha1 ha2
    | exp z s dz ds => exact Blk.interior_step ls hs0 hs1 _ hbok.1 hbok.2 a' k0 rc k2 a f ha0 hf0 hf1 ha1 ha2
    | pow al z s dz ds => exact Blk.interior_step ls hs0 hs1 _ hbok.1 hbok.2 a' k0 rc k2 a f ha0 hf0 hf1 ha1 ha2
    | genpow al z s dz ds =>
      obtain ⟨hI, hdz, hds⟩ := hbok
      simp only [Blk.coneFn] at k2
      have hnn := Blk.StepOk.stepNonneg ls hs0 hs1 (.genpow al z s dz ds) trivial a' k0 rc
        (by simpa only [Blk.coneFn] using k2)
      exact genpow_block_step ls al z s dz ds hI hdz hds a' rc k2 a ha0
        (le_trans ha1 (by nlinarith [hnn.1])) (le_trans ha2 (by nlinarith [hnn.2]))
    | psd K γz γs z s dz ds =>
      obtain ⟨⟨gz, gs, rfl, rfl, hn, hsc, hγz, hγs⟩, hnt, hdz, hds⟩ := hbok
      simp only [Blk.coneFn] at k2
      obtain ⟨q1, q2⟩ := stepLength_spec_unscaled K z s dz ds gz gs a' rc k2 hn hsc k0 hnt hγz hγs
      obtain ⟨pz, ps⟩ := NtOk.posDef K z s hnt hsc
      exact ⟨PosDef.of_congr (fun i j _ _ => (svecToMat_addStepVec z dz a hdz i j).symm)
          (stepSpecU_posDef pz q1 a f ha0 hf1 ha1),
        PosDef.of_congr (fun i j _ _ => (svecToMat_addStepVec s ds a hds i j).symm)
          (stepSpecU_posDef ps q2 a f ha0 hf1 ha2)⟩

/-! ## trajectories with generalised power blocks -/

/-- `Blk.Interior` extended by generalised power blocks (PSD blocks stay excluded: their contract
refers to the scaling recomputed in every pass) -/
def Blk.InteriorG : Blk ℝ → Prop
  | .genpow al z s _ _ => GenPowInterior al z s
  | b => b.Interior

def Pt.InteriorG (p : Pt ℝ) : Prop := 0 < p.τ ∧ 0 < p.κ ∧ ∀ b ∈ p.blks, b.InteriorG

theorem Blk.Interior.interiorG {b : Blk ℝ} (h : b.Interior) : b.InteriorG := by
  cases b with
  | genpow al z s dz ds => exact absurd h id
  | psd K γz γs z s dz ds => exact h
  | zero z s dz ds => exact h
  | nn z s dz ds => exact h
  | soc z s dz ds => exact h
  | exp z s dz ds => exact h
  | pow a z s dz ds => exact h

theorem Pt.Interior.interiorG {p : Pt ℝ} (h : p.Interior) : p.InteriorG :=
  ⟨h.1, h.2.1, fun b hb => (h.2.2 b hb).interiorG⟩

theorem Blk.InteriorG.stepOkAll {b : Blk ℝ} (hI : b.InteriorG) (hD : b.DirOk) : b.StepOkAll := by
  cases b with
  | genpow al z s dz ds => exact ⟨hI, hD.1, hD.2⟩
  | psd K γz γs z s dz ds => exact absurd hI id
  | zero z s dz ds => exact ⟨hI, hD⟩
  | nn z s dz ds => exact ⟨hI, hD⟩
  | soc z s dz ds => exact ⟨hI, hD⟩
  | exp z s dz ds => exact ⟨hI, hD⟩
  | pow a z s dz ds => exact ⟨hI, hD⟩

theorem Blk.InteriorAll.interiorG_of_step {b : Blk ℝ} (a : ℝ) (hI : b.InteriorG)
    (h : (b.addStep a).InteriorAll) : (b.addStep a).InteriorG := by
  cases b with
  | genpow al z s dz ds => exact h
  | psd K γz γs z s dz ds => exact absurd hI id
  | zero z s dz ds => exact h
  | nn z s dz ds => exact h
  | soc z s dz ds => exact h
  | exp z s dz ds => exact h
  | pow a z s dz ds => exact h

theorem Blk.SamePoint.interiorG {b b' : Blk ℝ} (h : Blk.SamePoint b b') (hI : b.InteriorG) :
    b'.InteriorG := by
  cases h <;> exact hI

theorem forall2_samePoint_interiorG {l l' : List (Blk ℝ)} (h : List.Forall₂ Blk.SamePoint l l')
    (hI : ∀ b ∈ l, b.InteriorG) : ∀ b ∈ l', b.InteriorG := by
  induction h with
  | nil => intro b hb; cases hb
  | cons hab _ ih =>
    intro b hb
    rcases List.mem_cons.mp hb with rfl | hb
    · exact hab.interiorG (hI _ List.mem_cons_self)
    · exact ih (fun c hc => hI c (List.mem_cons_of_mem _ hc)) b hb

theorem Pt.SamePoint.interiorG {p q : Pt ℝ} (h : Pt.SamePoint p q) (hI : p.InteriorG) :
    q.InteriorG := by
  obtain ⟨_, hτ, hκ, hb⟩ := h
  exact ⟨hτ ▸ hI.1, hκ ▸ hI.2.1, forall2_samePoint_interiorG hb hI.2.2⟩

/-- [R] one step preserves the interior, generalised power blocks included -/
theorem interior_stepG (maxValue : ℝ) (ls : LineSearch ℝ) (hs0 : 0 ≤ ls.step) (hs1 : ls.step ≤ 1)
    (hmax : 0 < maxValue) (p : Pt ℝ) (hI : p.InteriorG) (hD : p.DirOk) (f α : ℝ) (hf0 : 0 < f)
    (hf1 : f < 1) (h : calcStepLength maxValue ls p true f = .ok α) :
    0 ≤ α ∧ α ≤ f * alphaMax p.τ p.κ p.dτ p.dκ maxValue ∧
      (p.blks.all Blk.symmetric = false → α ≤ f * f) ∧
      ∀ a, 0 ≤ a → a ≤ α → (addStep p a).InteriorG := by
  obtain ⟨hτ, hκ, hB⟩ := hI
  obtain ⟨k0, k1, k2, k3⟩ := all_step maxValue ls hs0 hs1 hmax p hτ hκ
    (fun b hb => (hB b hb).stepOkAll (hD b hb)) f α hf0 hf1 h
  refine ⟨k0, k1, k2, fun a ha0 ha => ?_⟩
  obtain ⟨t1, t2, t3⟩ := k3 a ha0 ha
  refine ⟨t1, t2, fun b hb => ?_⟩
  obtain ⟨b0, hb0, rfl⟩ := List.mem_map.mp hb
  exact Blk.InteriorAll.interiorG_of_step a (hB b0 hb0) (t3 b0 hb0)

/-- [R] an accepted pass from an interior iterate (generalised power blocks included) -/
theorem AcceptedPass.interiorG {c : StepCfg} (hc : c.Ok) {cfg : Loop.Config ℝ} {sc : Loop.Scaling}
    {p p' : Pt ℝ} (h : AcceptedPass c cfg sc p p') (hI : p.InteriorG) :
    p'.InteriorG ∧ ∃ q α a, Pt.SamePoint p q ∧ p' = addStep q a ∧
      calcStepLength c.maxValue c.ls q true c.f = .ok α ∧
      0 < a ∧ cfg.minTerminateStepLength < a ∧ a ≤ α ∧
      α ≤ c.f * alphaMax q.τ q.κ q.dτ q.dκ c.maxValue ∧ α ≤ c.f ∧ a < 1 := by
  obtain ⟨hm, hs0, hs1, hf0, hf1, hb0, hb1⟩ := hc
  obtain ⟨q, α, a, hsp, hD, hcalc, hbt, hacc⟩ := h
  obtain ⟨hnu, rfl⟩ := acceptStep_some hacc
  have hIq := hsp.interiorG hI
  obtain ⟨k0, k1, _, k4⟩ := interior_stepG c.maxValue c.ls hs0 hs1 hm q hIq hD c.f α hf0 hf1 hcalc
  obtain ⟨b0, b1, _⟩ := hbt.le hb0 hb1 k0
  have hpos : 0 < a ∧ cfg.minTerminateStepLength < a := by
    unfold Loop.cpSmallStep at hnu
    split at hnu
    · cases hnu
    · split at hnu
      · cases hnu
      · rename_i hle
        have hle' : ¬ a ≤ max 0 cfg.minTerminateStepLength := hle
        have := not_le.mp hle'
        exact ⟨lt_of_le_of_lt (le_max_left _ _) this, lt_of_le_of_lt (le_max_right _ _) this⟩
  obtain ⟨_, h1, _, _⟩ := alphaMax_bounds q.τ q.κ q.dτ q.dκ c.maxValue hIq.1 hIq.2.1 hm
  have hαf : α ≤ c.f := le_trans k1 (by nlinarith)
  exact ⟨k4 a b0 b1, q, α, a, hsp, rfl, hcalc, hpos.1, hpos.2, b1, k1, hαf,
    lt_of_le_of_lt (le_trans b1 hαf) hf1⟩

/-- [R] **every iterate of every solve is interior**, generalised power blocks included -/
theorem Traj.interiorG {c : StepCfg} (hc : c.Ok) {cfg : Loop.Config ℝ} {p0 : Pt ℝ}
    (h0 : p0.InteriorG) {l : List (Pt ℝ)} (h : Traj c cfg p0 l) : ∀ p ∈ l, p.InteriorG := by
  induction h with
  | start => intro p hp; simp only [List.mem_singleton] at hp; exact hp ▸ h0
  | step sc _ hpass ih =>
    intro p hp
    rcases List.mem_cons.mp hp with rfl | hp
    · exact (hpass.interiorG hc (ih _ List.mem_cons_self)).1
    · exact ih p hp
  | rollback _ ih =>
    intro p hp
    rcases List.mem_cons.mp hp with rfl | hp
    · exact ih _ (List.mem_cons_of_mem _ List.mem_cons_self)
    · exact ih p hp

end Clarabel.StepK
