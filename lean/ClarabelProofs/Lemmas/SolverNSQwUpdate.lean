/-
  Solving twice on the whole-solver model WITH NONSYMMETRIC CONES (C05) — the linear-solver object:
  `KKTSolver::update` of `ClarabelModel/SolverNS/KktSolver.lean` (`kktSolverUpdate`, with the
  `csc_update_sparsecone` of the generalised power cones, `updateSparseGenpow`) on two objects.

  * `QB.updateSparseGenpow`, `QB.kktSolverUpdate`, `QB.toQWN`: `update` never reads the content of the
    four work vectors (the analogue of `Solver.QB.update`);
  * `QR.updateSparseGenpow`, `spStepN`, `kktSolverUpdate_eq`, `spFold_qrN`: the two-run lock-step
    version (the analogue of `KktQwRel.lean` / `KktQwUpdate.lean`);
  * `update_forgetsN`: two objects that differ only in what an `update` under `st` rewrites answer
    `update(cones, st)` alike for every cone list with at least as many map-consuming cones (sparse
    second-order cones, generalised power cones) as the object has expansion maps;
  * `BwN`, `kktSimN`: the instance of the simulation interface `KktSimN` of `SolverNSStaleDefs.lean`.

  All structural ([S]).
-/
import ClarabelProofs.Lemmas.SolverNSStaleDefs

namespace Clarabel.SolverNS
open Clarabel Info Residuals
open Clarabel.Solver (RelM KktSolver LinSettings QB QR Upd LdlInv foldlM_relM sparseIdx sparseRange
  slotsOfSet slotsOfIdx WK WL getE_ok_iff)

set_option linter.unusedSectionVars false
set_option linter.unusedVariables false

variable {α : Type} [Add α] [Sub α] [Mul α] [Div α] [Neg α] [LT α] [LE α] [DecidableLT α] [DecidableLE α]
  [BEq α] [OfNat α 0] [OfNat α 1] [OfNat α 2] [OfNat α 3] [OfNat α 4] [OfNat α 100] [OfNat α 1000]
  [OfScientific α] [FloatLike α]

/-! ### `update` does not read the four work vectors

The theorems about `QB` / `QR` (relations of namespace `Clarabel.Solver`) are declared as
`Clarabel.Solver.QB.…` / `Clarabel.Solver.QR.…` so that the dot notation `h.updateSparseGenpow`,
`h.toQWN` works; inside `namespace Clarabel.SolverNS` with `open Clarabel.Solver (QB QR)` they are also
reachable as `QB.updateSparseGenpow`, `QB.toQWN`, … -/

/-- [S] `csc_update_sparsecone` of a generalised power cone commutes with replacing the four work
vectors -/
theorem _root_.Clarabel.Solver.QB.updateSparseGenpow {K K' : KktSolver α} (h : QB K K') (mp : Kkt.SparseMap) (c : GenPow.State α) :
    RelM QB (updateSparseGenpow K mp c) (updateSparseGenpow K' mp c) := by
  unfold SolverNS.updateSparseGenpow
  split
  · refine RelM.bind (h.updateValues _ _) ?_
    intro K1 K1' h1
    refine RelM.bind (h1.updateValues _ _) ?_
    intro K2 K2' h2
    refine RelM.bind (h2.updateValues _ _) ?_
    intro K3 K3' h3
    refine RelM.bind (h3.scaleValues _ _) ?_
    intro K4 K4' h4
    refine RelM.bind (h4.scaleValues _ _) ?_
    intro K5 K5' h5
    refine RelM.bind (h5.scaleValues _ _) ?_
    intro K6 K6' h6
    exact h6.updateValues _ _
  · exact RelM.throw _

/-- [S] `KKTSolver::update` (model with nonsymmetric cones) commutes with replacing the four work
vectors -/
theorem _root_.Clarabel.Solver.QB.kktSolverUpdate {K K' : KktSolver α} (h : QB K K') (cones : List (ConeSt α)) (st : LinSettings α) :
    RelM (fun r r' => r.1 = r'.1 ∧ QB r.2 r'.2) (kktSolverUpdate K cones st) (kktSolverUpdate K' cones st) := by
  unfold SolverNS.kktSolverUpdate
  refine RelM.bind (RelM.refl_eq _) ?_
  intro hs _ e
  subst e
  rw [h.Hsblocks]
  refine RelM.ite (fun _ => RelM.throw _) (fun _ => ?_)
  dsimp only
  rw [show K.map.Hsblocks = K'.map.Hsblocks from congrArg _ h.map]
  have h0 : QB { K with Hsblocks := Vec.negate hs } { K' with Hsblocks := Vec.negate hs } :=
    { h with Hsblocks := rfl }
  refine RelM.bind (h0.updateValues _ _) ?_
  intro K1 K1' h1
  refine RelM.bind (R := fun (r : KktSolver α × Nat) (r' : KktSolver α × Nat) => QB r.1 r'.1 ∧ r.2 = r'.2) ?_ ?_
  · refine foldlM_relM _ _ ?_ cones _ _ ⟨h1, rfl⟩
    rintro ⟨Ka, i⟩ ⟨Ka', i'⟩ c ⟨ha, hi⟩
    dsimp only at ha hi ⊢
    subst hi
    cases c with
    | sym c =>
      cases c with
      | soc sc =>
        dsimp only
        refine RelM.ite (fun _ => ?_) (fun _ => ⟨ha, rfl⟩)
        rw [show Ka.map.sparse_maps = Ka'.map.sparse_maps from congrArg _ ha.map]
        refine RelM.bind (RelM.refl_eq _) ?_
        intro tm _ e
        subst e
        refine RelM.bind (ha.updateSparseSoc _ _) ?_
        intro K2 K2' h2
        exact ⟨h2, rfl⟩
      | _ => exact ⟨ha, rfl⟩
    | genpow al d2 ψ gc =>
      dsimp only
      rw [show Ka.map.sparse_maps = Ka'.map.sparse_maps from congrArg _ ha.map]
      refine RelM.bind (RelM.refl_eq _) ?_
      intro tm _ e
      subst e
      refine RelM.bind (ha.updateSparseGenpow _ _) ?_
      intro K2 K2' h2
      exact ⟨h2, rfl⟩
    | _ => exact ⟨ha, rfl⟩
  · rintro ⟨Ka, i⟩ ⟨Ka', i'⟩ ⟨ha, _⟩
    exact ha.regularizeAndRefactor st

/-- [S] `weaken`: objects that differ in the content of the four vectors only answer every `update`
alike -/
theorem _root_.Clarabel.Solver.QB.toQWN {st : LinSettings α} {K K' : KktSolver α} (h : QB K K') : QWN st K K' :=
  fun cones => h.kktSolverUpdate cones st

theorem QWN.rfl' (st : LinSettings α) (K : KktSolver α) : QWN st K K := (QB.rfl' K).toQWN

/-! ### two runs in lock-step -/

/-- [S] `csc_update_sparsecone` of a generalised power cone on both objects -/
theorem _root_.Clarabel.Solver.QR.updateSparseGenpow {M : Kkt.LDLDataMap} {mpA : Array Nat} {DR : α → α → Prop}
    {DK DL : Nat → Prop} {K K' : KktSolver α} (h : QR M mpA DR DK DL K K') (mp : Kkt.SparseMap)
    (c : GenPow.State α) :
    RelM (QR M mpA DR (fun i => DK i ∨ i ∈ sparseIdx mp) (fun j => DL j ∨ slotsOfIdx mpA (sparseIdx mp) j))
      (updateSparseGenpow K mp c) (updateSparseGenpow K' mp c) := by
  unfold SolverNS.updateSparseGenpow
  split
  · rename_i mpp mq mr mD
    refine RelM.bind (h.updateValues _ _) ?_
    intro K1 K1' h1
    refine RelM.bind (h1.updateValues _ _) ?_
    intro K2 K2' h2
    refine RelM.bind (h2.updateValues _ _) ?_
    intro K3 K3' h3
    refine RelM.bind (h3.scaleValues _ _) ?_
    intro K4 K4' h4
    refine RelM.bind (h4.scaleValues _ _) ?_
    intro K5 K5' h5
    refine RelM.bind (h5.scaleValues _ _) ?_
    intro K6 K6' h6
    refine (h6.updateValues _ _).mono ?_
    intro K7 K7' h7
    refine h7.mono ?_ ?_
    · intro i hi
      simp only [sparseIdx, List.mem_append] at hi
      rcases hi with hi | ((hi | hi) | hi) | hi
      · exact Or.inl (Or.inl (Or.inl (Or.inl hi)))
      · exact Or.inl (Or.inr hi)
      · exact Or.inl (Or.inl (Or.inl (Or.inr hi)))
      · exact Or.inl (Or.inl (Or.inr hi))
      · exact Or.inr hi
    · intro j hj
      rcases hj with hj | ⟨i, hi, hm⟩
      · exact Or.inl (Or.inl (Or.inl (Or.inl hj)))
      · simp only [sparseIdx, List.mem_append] at hi
        rcases hi with ((hi | hi) | hi) | hi
        · exact Or.inl (Or.inr ⟨i, hi, hm⟩)
        · exact Or.inl (Or.inl (Or.inl (Or.inr ⟨i, hi, hm⟩)))
        · exact Or.inl (Or.inl (Or.inr ⟨i, hi, hm⟩))
        · exact Or.inr ⟨i, hi, hm⟩
  · exact RelM.throw _

/-- the body of the cone loop of `KKTSolver::update`: sparse second-order cones and generalised
power cones consume an expansion map -/
def spStepN (st : KktSolver α × Nat) (c : ConeSt α) : MErr (KktSolver α × Nat) :=
  match c with
  | .sym (.soc sc) =>
    if sc.sparse.isSome then do
      let thismap ← getE st.1.map.sparse_maps st.2 "sparse_map_iter.next().unwrap()"
      let K ← st.1.updateSparseSoc thismap sc
      pure (K, st.2 + 1)
    else pure st
  | .genpow _ _ _ gc => do
    let thismap ← getE st.1.map.sparse_maps st.2 "sparse_map_iter.next().unwrap()"
    let K ← updateSparseGenpow st.1 thismap gc
    pure (K, st.2 + 1)
  | _ => pure st

/-- [S] `kktSolverUpdate` with its cone loop named -/
theorem kktSolverUpdate_eq (K : KktSolver α) (cones : List (ConeSt α)) (st : LinSettings α) :
    kktSolverUpdate K cones st = (do
      let hs ← getHs cones
      if hs.size != K.Hsblocks.size then throw (.panic "get_Hs: Hsblock range")
      let K1 ← ({ K with Hsblocks := Vec.negate hs } : KktSolver α).updateValues K.map.Hsblocks (Vec.negate hs)
      let r ← cones.foldlM spStepN (K1, 0)
      r.1.regularizeAndRefactor st) := rfl

/-- [S] the cone loop of `KKTSolver::update` on two objects in lock-step -/
theorem spFold_qrN {M : Kkt.LDLDataMap} {mpA : Array Nat} {DR : α → α → Prop} :
    ∀ (cones : List (ConeSt α)) {DK DL : Nat → Prop} {K K' : KktSolver α} (t : Nat),
      QR M mpA DR DK DL K K' →
      RelM (fun r r' => r.2 = r'.2 ∧ r.2 = t + nSpN cones ∧
          QR M mpA DR (fun i => DK i ∨ sparseRange M.sparse_maps t r.2 i)
            (fun j => DL j ∨ slotsOfSet mpA (sparseRange M.sparse_maps t r.2) j) r.1 r'.1)
        (cones.foldlM spStepN (K, t)) (cones.foldlM spStepN (K', t))
  | [], DK, DL, K, K', t, h => by
    show _ ∧ _ ∧ _
    refine ⟨rfl, rfl, h.mono ?_ ?_⟩
    · rintro i (hi | ⟨s, h1, h2, _⟩)
      · exact hi
      · exact absurd h2 (by dsimp only; omega)
    · rintro j (hj | ⟨i, ⟨s, h1, h2, _⟩, _⟩)
      · exact hj
      · exact absurd h2 (by dsimp only; omega)
  | c :: cs, DK, DL, K, K', t, h => by
    simp only [List.foldlM_cons]
    -- a cone that consumes the map number `t`
    have consume : ∀ (f : KktSolver α → Kkt.SparseMap → MErr (KktSolver α)),
        (∀ {DK DL : Nat → Prop} {Ka Ka' : KktSolver α} (mp : Kkt.SparseMap), QR M mpA DR DK DL Ka Ka' →
          RelM (QR M mpA DR (fun i => DK i ∨ i ∈ sparseIdx mp)
            (fun j => DL j ∨ slotsOfIdx mpA (sparseIdx mp) j)) (f Ka mp) (f Ka' mp)) →
        (∀ Ka : KktSolver α, spStepN (Ka, t) c = (do
            let thismap ← getE Ka.map.sparse_maps t "sparse_map_iter.next().unwrap()"
            let K ← f Ka thismap
            pure (K, t + 1))) →
        nSpN (c :: cs) = 1 + nSpN cs →
        RelM (fun r r' => r.2 = r'.2 ∧ r.2 = t + nSpN (c :: cs) ∧
          QR M mpA DR (fun i => DK i ∨ sparseRange M.sparse_maps t r.2 i)
            (fun j => DL j ∨ slotsOfSet mpA (sparseRange M.sparse_maps t r.2) j) r.1 r'.1)
          (spStepN (K, t) c >>= fun s => cs.foldlM spStepN s)
          (spStepN (K', t) c >>= fun s => cs.foldlM spStepN s) := by
      intro f hf e hn
      rw [e K, e K', ← h.map, h.mapL]
      simp only [bind_assoc]
      refine RelM.bind_ok (RelM.refl_eq _) ?_
      intro mp _ hmp _ e2
      subst e2
      have hmp' := getE_ok_iff.mp hmp
      refine RelM.bind (hf mp h) ?_
      intro K1 K1' h1
      simp only [pure_bind]
      refine (spFold_qrN cs (t + 1) h1).mono ?_
      rintro r r' ⟨g1, g2, g3⟩
      refine ⟨g1, ?_, g3.mono ?_ ?_⟩
      · rw [g2, hn]; omega
      · rintro i (hi | ⟨s, s1, s2, mp', hm', hi⟩)
        · exact Or.inl (Or.inl hi)
        · by_cases hs : s = t
          · subst hs
            rw [hmp'] at hm'
            cases hm'
            exact Or.inl (Or.inr hi)
          · exact Or.inr ⟨s, by omega, s2, mp', hm', hi⟩
      · rintro j (hj | ⟨i, ⟨s, s1, s2, mp', hm', hi⟩, hm⟩)
        · exact Or.inl (Or.inl hj)
        · by_cases hs : s = t
          · subst hs
            rw [hmp'] at hm'
            cases hm'
            exact Or.inl (Or.inr ⟨i, hi, hm⟩)
          · exact Or.inr ⟨i, ⟨s, by omega, s2, mp', hm', hi⟩, hm⟩
    -- a cone that does not
    have skip : (∀ Ka : KktSolver α, spStepN (Ka, t) c = pure (Ka, t)) → nSpN (c :: cs) = nSpN cs →
        RelM (fun r r' => r.2 = r'.2 ∧ r.2 = t + nSpN (c :: cs) ∧
          QR M mpA DR (fun i => DK i ∨ sparseRange M.sparse_maps t r.2 i)
            (fun j => DL j ∨ slotsOfSet mpA (sparseRange M.sparse_maps t r.2) j) r.1 r'.1)
          (spStepN (K, t) c >>= fun s => cs.foldlM spStepN s)
          (spStepN (K', t) c >>= fun s => cs.foldlM spStepN s) := by
      intro e hn
      rw [e K, e K']
      simp only [pure_bind]
      refine (spFold_qrN cs t h).mono ?_
      rintro r r' ⟨h1, h2, h3⟩
      exact ⟨h1, by rw [h2, hn], h3⟩
    cases c with
    | sym c =>
      cases c with
      | zero d => exact skip (fun _ => rfl) rfl
      | nonneg Kn => exact skip (fun _ => rfl) rfl
      | soc sc =>
        by_cases hsp : sc.sparse.isSome = true
        · refine consume (fun Ka mp => Ka.updateSparseSoc mp sc) (fun mp g => g.updateSparseSoc mp sc) ?_ ?_
          · intro Ka
            simp only [spStepN, hsp, if_true]
          · simp only [nSpN, hsp, if_true]
        · refine skip ?_ ?_
          · intro Ka
            simp only [spStepN, hsp, if_false, Bool.false_eq_true]
          · simp only [nSpN, hsp, if_false, Bool.false_eq_true]; omega
    | exp Ke => exact skip (fun _ => rfl) rfl
    | pow a Kp => exact skip (fun _ => rfl) rfl
    | genpow al d2 ψ gc =>
      exact consume (fun Ka mp => updateSparseGenpow Ka mp gc) (fun mp g => g.updateSparseGenpow mp gc)
        (fun _ => rfl) rfl

/-! ### `update` forgets -/

/-- [S] **`KKTSolver::update` forgets** (model with nonsymmetric cones): two objects that differ only
in what an `update` under `st` rewrites (`Solver.Upd`) — the left one built by
`QDLDLFactorisation::new` and since then only updated / refactored (`LdlInv`) — answer
`update(cones, st)` alike for every cone list with at least as many map-consuming cones (sparse
second-order cones, generalised power cones) as there are expansion maps: the same error, or the
same flag and objects that differ in the content of the work vectors `x, b, work1, work2` only. -/
theorem update_forgetsN {st : LinSettings α} {K K' : KktSolver α} (h : Upd st K K') (hI : LdlInv K.ldl)
    (cones : List (ConeSt α)) (hfit : K.map.sparse_maps.size ≤ nSpN cones) :
    RelM (fun r r' => r.1 = r'.1 ∧ QB r.2 r'.2) (kktSolverUpdate K cones st) (kktSolverUpdate K' cones st) := by
  rw [kktSolverUpdate_eq, kktSolverUpdate_eq]
  refine RelM.bind (RelM.refl_eq _) ?_
  intro hs _ e
  subst e
  rw [← h.hsz]
  refine RelM.ite (fun _ => RelM.throw _) (fun _ => ?_)
  have emap : K'.map.Hsblocks = K.map.Hsblocks := by rw [h.map]
  rw [emap]
  have h0 : QR K.map K.ldl.AtoPAPt (fun a b => st.staticRegEnable = false → a = b)
      (fun i => ¬ WK K.map i) (fun j => ¬ slotsOfSet K.ldl.AtoPAPt (WL st K.map) j)
      ({ K with Hsblocks := Vec.negate hs } : KktSolver α) ({ K' with Hsblocks := Vec.negate hs } : KktSolver α) :=
    { inv := hI, mapL := rfl, amapL := rfl, m := h.m, n := h.n, p := h.p, map := h.map, dsigns := h.dsigns,
      hsb := rfl, km := h.km, kn := h.kn, kcol := h.kcol, krow := h.krow, nz := h.nz, ldl := h.ldl, dr := h.dr,
      x := h.x, b := h.b, work1 := h.work1, work2 := h.work2 }
  refine RelM.bind (h0.updateValues K.map.Hsblocks (Vec.negate hs)) ?_
  intro K1 K1' h1
  refine RelM.bind (spFold_qrN cones 0 h1) ?_
  rintro ⟨K2, t⟩ ⟨K2', t'⟩ ⟨g1, g2, g3⟩
  dsimp only at g1 g2 g3 ⊢
  have ht : K.map.sparse_maps.size ≤ t := by omega
  refine QR.regularizeAndRefactor st (g3.mono (DK' := fun _ => True)
    (DL' := fun j => ¬ slotsOfIdx K.ldl.AtoPAPt K.map.diag_full.toList j ∨ st.staticRegEnable = false) ?_ ?_) ?_ g3.dr
  · intro i _
    by_cases hw : WK K.map i
    · rcases hw with hw | ⟨s, s1, s2, hr⟩
      · exact Or.inl (Or.inr hw)
      · exact Or.inr ⟨s, s1, by omega, hr⟩
    · exact Or.inl (Or.inl hw)
  · intro j hj
    by_cases hw : slotsOfSet K.ldl.AtoPAPt (WL st K.map) j
    · obtain ⟨i, hi, hm⟩ := hw
      rcases hi with (hi | ⟨s, s1, s2, hr⟩) | ⟨hst, hi⟩
      · exact Or.inl (Or.inr ⟨i, hi, hm⟩)
      · exact Or.inr ⟨i, ⟨s, s1, by omega, hr⟩, hm⟩
      · rcases hj with hj | hj
        · exact absurd ⟨i, hi, hm⟩ hj
        · rw [hj] at hst
          cases hst
    · exact Or.inl (Or.inl hw)
  · intro j
    by_cases hd : slotsOfIdx K.ldl.AtoPAPt K.map.diag_full.toList j
    · by_cases hst : st.staticRegEnable = true
      · exact Or.inr ⟨hst, hd⟩
      · exact Or.inl (Or.inr (by simpa using hst))
    · exact Or.inl (Or.inl hd)

/-! ### the simulation instance -/

/-- what `update` with a cone list of at least `k` map-consuming cones may meet: an object that
answers every `update` like the other one, or one that differs from it only in what `update`
rewrites (with C12's history invariant and at most `k` expansion maps) -/
def BwN (k : Nat) (st : LinSettings α) (K K' : KktSolver α) : Prop :=
  QWN st K K' ∨ (Upd st K K' ∧ LdlInv K.ldl ∧ K.map.sparse_maps.size ≤ k)

/-- [S] **the concrete linear-solver model satisfies the simulation interface of the model with
nonsymmetric cones** -/
theorem kktSimN (k : Nat) (st : LinSettings α) : KktSimN k st (BwN k st) where
  update := by
    intro K K' cones hk hB
    rcases hB with hq | ⟨hu, hI, hsz⟩
    · exact hq cones
    · exact update_forgetsN hu hI cones (Nat.le_trans hsz hk)
  weaken := fun h => Or.inl h.toQWN

theorem BwN.of_upd {k : Nat} {st : LinSettings α} {K K' : KktSolver α} (h : Upd st K K') (hI : LdlInv K.ldl)
    (hk : K.map.sparse_maps.size ≤ k) : BwN k st K K' := Or.inr ⟨h, hI, hk⟩

theorem BwN.rfl' (k : Nat) (st : LinSettings α) (K : KktSolver α) : BwN k st K K := Or.inl (QWN.rfl' st K)

/-- the interface is inhabited at the scalar type the driver runs (`Float`) -/
example (k : Nat) (st : LinSettings Float) : KktSimN k st (BwN k st) := kktSimN k st

end Clarabel.SolverNS
