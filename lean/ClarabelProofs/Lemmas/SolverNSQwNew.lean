/-
  C05 (iv) "`KKTSolver::update` forgets" on the whole-solver model WITH NONSYMMETRIC CONES —
  `DefaultSolver::new` establishes `KktOk` (NS counterpart of `KktQwNew.lean`).

  The linear-solver object `DirectLDLKKTSolver::new` (`kktSolverNew`) builds on well-formed data
  satisfies `KInv` (C12's history invariant for the QDLDL object: `Qdldl.new_logical` on the assembled
  KKT matrix, which is a valid QDLDL input by C11 `assembly_factsN`; four zero work vectors of one
  length) and has one expansion map per map-consuming cone (sparse second-order cones AND generalised
  power cones).  Hypotheses: those of `solverNew_invQ` without the scalar law `PivotOK`.

  All structural ([S]).
-/
import ClarabelProofs.Lemmas.SolverNSStaleDefs
import ClarabelProofs.Lemmas.SolverNSNoPanicFinal
import ClarabelProofs.Lemmas.KktQwNew

namespace Clarabel.SolverNS
open Clarabel Info Residuals
open Clarabel.Qdldl Clarabel.Kkt
open Clarabel.Lemmas.KktSpec (KktInputs)
open Clarabel.Lemmas.KktRun Clarabel.Lemmas.KktSlots Clarabel.Lemmas.KktFillMaps
open Clarabel.Lemmas.KktFillRun Clarabel.Lemmas.KktTotal
open Clarabel.Lemmas.KktFinal Clarabel.Lemmas.KktSpec Clarabel.Lemmas.KktDistinct
open Clarabel.Solver (KktSolver LinSettings DataOK KInv LdlInv KNewInv unwrapQdldl unwrapQdldl_ok
  bind_ok_inv bind_ok_of)

set_option linter.unusedSectionVars false
set_option linter.unusedVariables false

variable {α : Type}

section
variable [Add α] [Sub α] [Mul α] [Div α] [Neg α] [LT α] [LE α] [DecidableLT α] [DecidableLE α]
  [BEq α] [OfNat α 0] [OfNat α 1] [OfNat α 2] [OfNat α 3] [OfNat α 4] [OfNat α 100] [OfNat α 1000]
  [OfScientific α] [FloatLike α]

/-- [S] one expansion map per map-consuming cone: a sparse second-order cone (`dim > 4`) or a
generalised power cone; exponential / power / zero / nonnegative cones have none -/
theorem nSpN_eq_expansion : ∀ {K : List (ConeSt α)}, ConesFull K →
    nSpN K = ((K.map ConeSt.kktSpec).filterMap Kkt.expansionMap).length
  | [], _ => rfl
  | c :: cs, h => by
    have ih := nSpN_eq_expansion (ConesFull.tail h)
    have hc := ConesFull.head h
    cases c with
    | exp Ke =>
      show nSpN cs = ((ConeSpec.exp :: cs.map ConeSt.kktSpec).filterMap expansionMap).length
      rw [List.filterMap_cons_none (by rfl)]
      exact ih
    | pow a Kp =>
      show nSpN cs = ((ConeSpec.pow :: cs.map ConeSt.kktSpec).filterMap expansionMap).length
      rw [List.filterMap_cons_none (by rfl)]
      exact ih
    | genpow al d2 ψ Kg =>
      show 1 + nSpN cs =
        ((ConeSpec.genpow al.size d2 :: cs.map ConeSt.kktSpec).filterMap expansionMap).length
      have he : expansionMap (ConeSpec.genpow al.size d2) = some (.genpow
          (Array.replicate (al.size + d2) 0) (Array.replicate al.size 0) (Array.replicate d2 0)
          (Array.replicate 3 0)) := rfl
      rw [List.filterMap_cons_some he, List.length_cons, ih]
      omega
    | sym c0 =>
      cases c0 with
      | zero d =>
        show nSpN cs = ((ConeSpec.zero d :: cs.map ConeSt.kktSpec).filterMap expansionMap).length
        rw [List.filterMap_cons_none (by rfl)]
        exact ih
      | nonneg Kn =>
        show nSpN cs =
          ((ConeSpec.nonneg Kn.w.size :: cs.map ConeSt.kktSpec).filterMap expansionMap).length
        rw [List.filterMap_cons_none (by rfl)]
        exact ih
      | soc Ks =>
        obtain ⟨_, _, _, hsp, _⟩ := hc
        show (if Ks.sparse.isSome then 1 else 0) + nSpN cs =
          ((ConeSpec.soc Ks.dim :: cs.map ConeSt.kktSpec).filterMap expansionMap).length
        by_cases hd : Ks.dim > socNoExpansionMaxSize
        · have hs : Ks.sparse.isSome = true := by
            rw [hsp]; exact decide_eq_true hd
          have he : expansionMap (ConeSpec.soc Ks.dim) = some (.soc (Array.replicate Ks.dim 0)
              (Array.replicate Ks.dim 0) (Array.replicate 2 0)) := by
            simp only [expansionMap, hd, if_true]
          rw [List.filterMap_cons_some he, List.length_cons, ← ih, hs]
          simp only [if_true]
          omega
        · have hs : Ks.sparse.isSome = false := by
            rw [hsp]; exact decide_eq_false hd
          have he : expansionMap (ConeSpec.soc Ks.dim) = none := by
            simp only [expansionMap, hd, if_false]
          rw [List.filterMap_cons_none he, ← ih, hs]
          simp

/-- [S] **`DirectLDLKKTSolver::new` (`kktSolverNew`) establishes `KInv`** and builds one expansion
map per map-consuming cone — for composite cones with exponential / power / generalised power
cones; no `PivotOK` -/
theorem kktSolverNew_kinvN {d : ProblemData α} {K : List (ConeSt α)} {st : LinSettings α}
    {perm : Array Nat} {Ks : KktSolver α} (hin : KktInputs d.P d.A (K.map ConeSt.kktSpec)) (hd : DataOK d)
    (hps : perm.size = d.n + d.m + pdimAll (((K.map ConeSt.kktSpec).filterMap expansionMap).toArray))
    (hpos : 0 < d.n + d.m) (h : kktSolverNew d.P d.A K d.m d.n st perm = .ok Ks) :
    KNewInv (K.map ConeSt.kktSpec) d.n d.m Ks := by
  obtain ⟨KK, map, hasm, hKm, hKn, hcan, hhs, hhslt, hdg, hdglt, hmaps, hcols⟩ := assembly_factsN hin
  rw [hd.A_n, hd.A_m] at hKm hKn
  have hpd : pdimAll map.sparse_maps =
      pdimAll (((K.map ConeSt.kktSpec).filterMap expansionMap).toArray) := by
    unfold pdimAll
    exact pdim_foldl_of_forall₂N hmaps 0
  have hsigns := fillSigns_eq d.m d.n map.sparse_maps
  generalize hdsg : (List.replicate d.n (1 : Int) ++ List.replicate d.m (-1)
      ++ (map.sparse_maps.toList.map SparseMap.dsigns).flatten).toArray = dsg at hsigns
  have hdsz : dsg.size = d.n + d.m + pdimAll map.sparse_maps := by
    rw [← hdsg, pdimAll_eq]
    simp only [List.size_toArray, List.length_append, List.length_replicate]
  unfold kktSolverNew at h
  dsimp only at h
  rw [hasm] at h
  obtain ⟨x, hx, h⟩ := bind_ok_inv h
  cases hx
  dsimp only at h
  obtain ⟨ds, hds, h⟩ := bind_ok_inv h
  rw [hsigns] at hds
  cases hds
  split at h
  · obtain ⟨_, ht, _⟩ := bind_ok_inv h
    cases ht
  obtain ⟨F, hF, h⟩ := bind_ok_inv h
  cases h
  have hF' := unwrapQdldl_ok hF
  obtain ⟨hw, hc, hnd⟩ := Clarabel.Lemmas.KktQdldlInput.qdldl_input_of_canonical KK hcan (by rw [hKm, hKn]) hcols
  have hnew := hF'
  unfold Qdldl.new at hnew
  obtain ⟨_, _, hnew⟩ := bind_ok_inv hnew
  obtain ⟨iperm, hip, _⟩ := bind_ok_inv hnew
  obtain ⟨P, mp, Ds, es, S⟩ := stages_of KK hw hc hnd (by rw [hKn]; omega) perm iperm hip
    (by rw [hps, hKn, hpd]) (some dsg) (fun ds' h => by cases h; rw [hdsz, hKn])
  obtain ⟨F', hF'', _, _, _, _, _, _, _, _, _, _, _, _, _, _, hH⟩ := new_logical S true st.dynRegEps st.dynRegDelta
  rw [hF'] at hF''
  cases hF''
  refine ⟨⟨⟨KK, perm, iperm, some dsg, P, mp, Ds, es, _, true, KK.nzval, S, rfl, hH⟩, rfl, rfl, rfl⟩, ?_⟩
  show map.sparse_maps.size = _
  rw [← hmaps.length_eq]
  simp

/-- [S] **`DefaultSolver::new` establishes `KktOk`** (model with nonsymmetric cones): the structural
hypothesis of "the same solver solved twice" holds for every solver object `new` returns on
well-formed input.  No `PivotOK`. -/
theorem solverNew_kktOkN {P : Csc α} {q : Array α} {A : Csc α} {b : Array α}
    {cones : List (ConeT α)} {st : Settings α} {perm : Array Nat} (hin : InputOKN P q A b cones)
    (hn : 0 < P.n) (hperm : PermForN P q A b cones st perm)
    {S : Solver α} (h : Solver.new P q A b cones st perm = .ok S) : KktOk S.st := by
  have hI := solverNew_invN (KIw := KNewInv) hin (fun d K Ks hd hK hdok hfull hnum hKs => by
    have hdn : d.n = P.n := (internalData_dataOKN hin hd).2.1.trans hin.base.A_n
    exact kktSolverNew_kinvN (kktInputs_of_dataOKN hdok hnum) hdok (hperm d K hd hK).2 (by omega) hKs) h
  have hk := hI.st.shapes.kkt
  refine ⟨hk.1, ?_⟩
  rw [hk.2, nSpN_eq_expansion hI.st.shapes.cones]

end

end Clarabel.SolverNS
