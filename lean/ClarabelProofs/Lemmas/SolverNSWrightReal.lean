/-
  C04 (whole-solver model with nonsymmetric cones), over ℝ: the numerical-domain panic site
  `"argument not in supported range"` (`ExponentialCone::_wright_omega(z)`, `z < 0`) at the call
  sites of the model.

  CALL PATHS to `_wright_omega` in `solve()` (code and model agree):
    (a) `update_scaling` → `update_Hs` → `use_primal_dual_scaling` → `gradient_primal(s)`
        (`Exp.updateScaling … dual = false`; model: `SolverNS.updateScaling1 (.exp _)`, called from
        `scaleCones` with the CURRENT ITERATE `s` at the top of each pass);
    (b) `get_step_length` → `backtrack_step_to_barrier(α)` → `variables.barrier(step, α, cones)` →
        `cones.compute_barrier(z, s, dz, ds, α)` → `barrier_primal(s + α·ds)`
        (`Exp.computeBarrier`; model: `SolverNS.computeBarrier1 (.exp _)`), only on the combined step
        with `Dual` scaling and a nonsymmetric cone in the problem.
  NEITHER call site tests `is_primal_feasible` on the very point it evaluates:
    * (b) is evaluated at `s + α·ds` with `α = min over all cones (accepted step) · max_step_fraction
      · stepᵏ` — a SHORTER step than the `αs` at which `backtrack_search` accepted `s + αs·ds` for this
      cone (or `α = 0`, when some search gave up);
    * (a) is evaluated at the iterate `s ← s + α·ds` left by the previous pass (again the shortened
      `α`), or at the constants of `unit_initialization` on the first pass.
  What makes both safe over ℝ is CONVEXITY of the open exponential cone (`C15Convex.expPrimal_ray`):
  from an accepted iterate `s` and an accepted candidate `s + αs·ds` every `s + t·ds`, `0 ≤ t ≤ αs`,
  is accepted too.  This file proves the cone-level induction step of that invariant
  (`exp_step_keeps_wright_safe`) and the two call sites at the level of the solver's cone objects.
-/
import ClarabelProofs.Lemmas.SolverNSNoPanicFinal
import ClarabelProofs.Lemmas.ConesNonsymStep
import ClarabelProofs.Lemmas.ConesNonsymConvex

namespace Clarabel.SolverNS
open Clarabel Nonsym

/-- the segment point `s + t·ds` -/
def segPt (s ds : V3 ℝ) (t : ℝ) : V3 ℝ := (s.1 + t * ds.1, s.2.1 + t * ds.2.1, s.2.2 + t * ds.2.2)

/-- [R] the open exponential cone as the code tests it is convex along a ray: accepted at `0` and at
`α` ⇒ accepted on `[0, α]` -/
theorem exp_feasible_segment {s ds : V3 ℝ} {a t : ℝ}
    (hs : Exp.isPrimalFeasible s.1 s.2.1 s.2.2 = true)
    (ha : Exp.isPrimalFeasible (segPt s ds a).1 (segPt s ds a).2.1 (segPt s ds a).2.2 = true)
    (ht0 : 0 ≤ t) (ht : t ≤ a) :
    Exp.isPrimalFeasible (segPt s ds t).1 (segPt s ds t).2.1 (segPt s ds t).2.2 = true :=
  (C14.exp_isPrimalFeasible_iff _ _ _).mpr
    (C15Convex.expPrimal_ray ((C14.exp_isPrimalFeasible_iff _ _ _).mp hs)
      ((C14.exp_isPrimalFeasible_iff _ _ _).mp ha) ht0 ht)

/-- [R] **cone-level induction step.**  From an iterate `s` that `is_primal_feasible` accepts, after
`step_length` returned `(αz, αs)`, for EVERY shorter step `t ∈ [0, αs]` (the solver's final `α` is one:
`min` over the cones, times `max_step_fraction`, times `stepᵏ`; `t = 0` covers a search that gave up):
* `s + t·ds` is accepted again (so the next pass's iterate is),
* `compute_barrier(z, s, dz, ds, t)` returns — `_wright_omega`'s range check passes at call site (b),
* `update_scaling(s + t·ds, z', μ, strategy)` returns for every `z'`, `μ`, strategy — call site (a)
  of the next pass. -/
theorem exp_step_keeps_wright_safe (dz ds z s : V3 ℝ) (step amin amax : ℝ) (fuel : Nat) (az as : ℝ)
    (h : Exp.stepLength dz ds z s step amin amax fuel = .ok (az, as))
    (hs : Exp.isPrimalFeasible s.1 s.2.1 s.2.2 = true) (t : ℝ) (ht0 : 0 ≤ t) (ht : t ≤ as) :
    Exp.isPrimalFeasible (segPt s ds t).1 (segPt s ds t).2.1 (segPt s ds t).2.2 = true ∧
    (∃ b, Exp.computeBarrier z s dz ds t = .ok b) ∧
    (∀ (z' : V3 ℝ) (mu : ℝ) (dual : Bool), ∃ K, Exp.updateScaling (segPt s ds t) z' mu dual = .ok K) := by
  have hseg : Exp.isPrimalFeasible (segPt s ds t).1 (segPt s ds t).2.1 (segPt s ds t).2.2 = true := by
    obtain ⟨_, h2⟩ := Exp.stepLength_outcome dz ds z s step amin amax fuel az as h
    rcases h2.accepted with hp | h0
    · exact exp_feasible_segment hs
        ((C14.exp_isPrimalFeasible_iff _ _ _).mpr (Exp.inPrimal_candidate s ds as hp)) ht0 ht
    · have : t = 0 := by rw [h0] at ht; linarith
      subst this
      simpa [segPt] using hs
  exact ⟨hseg, Exp.computeBarrier_ok_of_feasible z s dz ds t hseg,
    fun z' mu dual => Exp.updateScaling_ok_of_feasible _ z' mu dual (Or.inr hseg)⟩

/-- [R] the first pass: the constants of `unit_initialization` pass `is_primal_feasible`, so call
site (a) returns on the starting point -/
theorem exp_unit_start_feasible :
    Exp.isPrimalFeasible (Exp.unitInitialization (α := ℝ)).1 (Exp.unitInitialization (α := ℝ)).2.1
      (Exp.unitInitialization (α := ℝ)).2.2 = true :=
  (C14.exp_isPrimalFeasible_iff _ _ _).mpr Exp.unitInit_primalInt

/-! ### the two call sites on the solver's cone objects -/

theorem v3E_of_some {a : Array ℝ} {v : V3 ℝ} (h : v3ofArray? a = some v) (site : String) :
    v3E a site = .ok v := by
  unfold v3E
  rw [h]
  rfl

/-- [R] call site (a): `update_scaling` of an exponential cone object on its slices returns when the
strategy is `Dual` or the `s` slice passes `is_primal_feasible` -/
theorem updateScaling1_exp_ok_real (K : Exp.State ℝ) {s z : Array ℝ} {sv zv : V3 ℝ}
    (hs : v3ofArray? s = some sv) (hz : v3ofArray? z = some zv) (mu : ℝ) (dual : Bool)
    (h : dual = true ∨ Exp.isPrimalFeasible sv.1 sv.2.1 sv.2.2 = true) :
    ∃ K', updateScaling1 (.exp K) s z mu dual = .ok (true, .exp K') := by
  obtain ⟨K', hK⟩ := Exp.updateScaling_ok_of_feasible sv zv mu dual h
  refine ⟨K', ?_⟩
  unfold updateScaling1
  simp only [v3E_of_some hs, v3E_of_some hz, bind, Except.bind, hK]
  rfl

/-- [R] call site (b): `compute_barrier` of an exponential cone object on its slices returns when the
candidate `s + α·ds` passes `is_primal_feasible` -/
theorem computeBarrier1_exp_ok_real (K : Exp.State ℝ) {z s dz ds : Array ℝ} {zv sv dzv dsv : V3 ℝ}
    (hz : v3ofArray? z = some zv) (hs : v3ofArray? s = some sv) (hdz : v3ofArray? dz = some dzv)
    (hds : v3ofArray? ds = some dsv) (a : ℝ)
    (h : Exp.isPrimalFeasible (segPt sv dsv a).1 (segPt sv dsv a).2.1 (segPt sv dsv a).2.2 = true) :
    ∃ b, computeBarrier1 (.exp K) z s dz ds a = .ok b := by
  obtain ⟨b, hb⟩ := Exp.computeBarrier_ok_of_feasible zv sv dzv dsv a h
  refine ⟨b, ?_⟩
  unfold computeBarrier1
  simp only [v3E_of_some hs, v3E_of_some hz, v3E_of_some hdz, v3E_of_some hds, bind, Except.bind, hb]

/-- [R] conversely: a panic of an exponential cone object's `update_scaling` / `compute_barrier` on
3-element slices at the Wright-omega site means the evaluated point is one `is_primal_feasible`
rejects -/
theorem exp_cone_wright_panic_rejected (K : Exp.State ℝ) {z s dz ds : Array ℝ} {zv sv dzv dsv : V3 ℝ}
    (hz : v3ofArray? z = some zv) (hs : v3ofArray? s = some sv) (hdz : v3ofArray? dz = some dzv)
    (hds : v3ofArray? ds = some dsv) (mu a : ℝ) (dual : Bool) (site : String) :
    (updateScaling1 (.exp K) s z mu dual = .error (.panic site) →
      dual = false ∧ Exp.isPrimalFeasible sv.1 sv.2.1 sv.2.2 = false) ∧
    (computeBarrier1 (.exp K) z s dz ds a = .error (.panic site) →
      Exp.isPrimalFeasible (segPt sv dsv a).1 (segPt sv dsv a).2.1 (segPt sv dsv a).2.2 = false) := by
  constructor
  · intro hp
    cases dual with
    | true =>
      obtain ⟨K', hK⟩ := updateScaling1_exp_ok_real K hs hz mu true (Or.inl rfl)
      rw [hK] at hp; cases hp
    | false =>
      refine ⟨rfl, ?_⟩
      cases hf : Exp.isPrimalFeasible sv.1 sv.2.1 sv.2.2 with
      | false => rfl
      | true =>
        obtain ⟨K', hK⟩ := updateScaling1_exp_ok_real K hs hz mu false (Or.inr hf)
        rw [hK] at hp; cases hp
  · intro hp
    cases hf : Exp.isPrimalFeasible (segPt sv dsv a).1 (segPt sv dsv a).2.1 (segPt sv dsv a).2.2 with
    | false => rfl
    | true =>
      obtain ⟨b, hb⟩ := computeBarrier1_exp_ok_real K hz hs hdz hds a hf
      rw [hb] at hp; cases hp

/-- the scalar law `FmaxOK` holds over `ℝ` (local copy of `Solver.fmaxOK_real`, to keep the import
closure of `Props/C04NS.lean` small) -/
theorem fmaxOK_real_ns : Clarabel.Solver.FmaxOK ℝ := fun r h => by
  change max (0 : ℝ) r < 0 at h
  exact absurd (le_max_left (0 : ℝ) r) (not_le.mpr h)

end Clarabel.SolverNS
