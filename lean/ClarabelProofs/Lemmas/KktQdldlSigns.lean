/-
  C11 ∘ C12: the sign vector recorded by `_fill_signs` IS the sign pattern of QDLDL's `D`.

  * `factorInner_ok_of_rule` [S]: `_factor_inner` cannot end in `ZeroPivot` when the pivot rule
    never returns zero (dynamic regularisation on, `eps > 0`, `delta ≠ 0`, signs `±1`) — a copy of
    the totality half of C12's `factorInner_loop` in which the error branch is refuted.
  * `new_ok_of_rule` [S/F]: hence `QDLDLFactorisation::new` returns a factorisation object.
  * `newSpec_signs` [F]: for a matrix `K` whose symmetric meaning is quasidefinite with margin `ε`
    (`KktInertiaList.QuasiDefGE`: the regularised KKT matrix of any cone list,
    `quasiDefGE_listKkt`) for the pattern `s`, `dsigns = ±1` according to `s`, ANY permutation and a
    dynamic threshold `eps ≤ ε`: the object returned by `new` has `sign D[r] = dsigns[perm r]`,
    `|D[r]| ≥ ε`, `regularize_count = 0` and `positive_inertia = #{i | s i}`.
-/
import ClarabelProofs.Lemmas.QdldlNew
import ClarabelProofs.Lemmas.KktLdlSigns

namespace Clarabel.Qdldl

section total
variable {α : Type} [Add α] [Sub α] [Mul α] [Div α] [Neg α] [OfNat α 0] [OfNat α 1] [LT α]
  [DecidableLT α] [BEq α] [FloatLike α]
variable {n : Nat} {Ap Ai : Array Nat} {etree : Array (Option Nat)} {Lnz : Array Nat}

/-- a loop whose every step succeeds, succeeds -/
theorem foldlM_range_total {β : Type} (f : β → Nat → MErr β) (P : Nat → β → Prop) (n : Nat) (x0 : β)
    (h0 : P 0 x0) (hstep : ∀ i, i < n → ∀ x, P i x → ∃ x', f x i = .ok x' ∧ P (i + 1) x') :
    ∃ xn, (List.range n).foldlM f x0 = .ok xn ∧ P n xn := by
  induction n with
  | zero => exact ⟨x0, rfl, h0⟩
  | succ m ih =>
    rw [List.range_succ, List.foldlM_append]
    obtain ⟨xm, hm, hP⟩ := ih (fun i hi x hx => hstep i (by omega) x hx)
    rw [hm]
    obtain ⟨x', hx', hP'⟩ := hstep m (by omega) xm hP
    exact ⟨x', by simp [bind, Except.bind, hx', pure, Except.pure], hP'⟩

theorem finishPivot_ok_of_rule (rp : RegParams α) (k : Nat) (s : FState α)
    (hD : k < s.D.size) (hS : rp.enable = true → k < rp.Dsigns.size) (hI : k < s.Dinv.size)
    (hnz : ∀ x : α,
      ((regularizePivot rp.enable rp.eps rp.delta (rp.Dsigns.getD k 0) x).1 == (0 : α)) = false) :
    finishPivot rp k s = .ok (pivotState rp k s) := by
  rcases finishPivot_cases rp k s hD hS hI with h | ⟨h, _⟩
  · exfalso
    rw [finishPivot_eq rp k s hD hS hI] at h
    simp only [hnz (s.D.getD k 0), Bool.false_eq_true, if_false] at h
    cases h
  · exact h

/-- [S] **`_factor_inner` does not end in `ZeroPivot` when the pivot rule never returns zero**
(every scalar type). -/
theorem factorInner_ok_of_rule (C : FCtx n Ap Ai etree Lnz) (Ax : Array α) (a : Nat → Nat → α)
    (hR : Represents n Ap Ai Ax a) (Li : Array Nat) (Lx D Dinv : Array α)
    (hLi : LpOf Lnz n ≤ Li.size) (hLx : Lx.size = Li.size) (hDs : D.size = n) (hDi : Dinv.size = n)
    (rp : RegParams α) (hsg : rp.enable = true → n ≤ rp.Dsigns.size)
    (hnz : ∀ k, k < n → ∀ x : α,
      ((regularizePivot rp.enable rp.eps rp.delta (rp.Dsigns.getD k 0) x).1 == (0 : α)) = false) :
    ∃ s, factorInner n Ap Ai Ax Li Lx D Dinv Lnz etree false rp = .ok s := by
  have hn := C.hn
  have hunfold := factorInner_unfold C Ax a hR Li Lx D Dinv hDs hDi rp
  have hI1 := rowInv_init C Li Lx Dinv hLx hDi rp (a 0 0)
  have hsz0 : 0 < (initState Lnz n Li Lx Dinv (a 0 0)).D.size := by
    show 0 < ((Array.replicate n (0 : α)).setIfInBounds 0 (a 0 0)).size
    simpa using hn
  have hpiv0 := finishPivot_ok_of_rule rp 0 (initState Lnz n Li Lx Dinv (a 0 0)) hsz0
    (fun h => by have := hsg h; omega) (by show 0 < Dinv.size; omega) (hnz 0 hn)
  have hrow : ∀ i, i < n - 1 → ∀ s, RowInv Ap Ai Lnz n (1 + i) Li.size s →
      ∃ s', factorRow n Ap Ai Ax etree false rp s (1 + i) = .ok s' ∧
        RowInv Ap Ai Lnz n (1 + (i + 1)) Li.size s' := by
    intro i hi s hI
    obtain ⟨s1, yIdx, hO, hP, hM0, hM2, hrun⟩ :=
      factorRow_eq C Ax a hR Li.size hLi rp (1 + i) (by omega) s hI
    rw [hrun]
    have h := finishPivot_ok_of_rule rp (1 + i) (yIdx.reverse.foldl (rowElimP (1 + i)) s1)
      (by rw [hM2.dsz]; omega) (fun h => by have := hsg h; omega) (by rw [hM2.disz]; omega)
      (hnz (1 + i) (by omega))
    refine ⟨_, h, ?_⟩
    rw [show 1 + (i + 1) = 1 + i + 1 by omega]
    exact rowInv_next (a := a) (etree := etree) Li.size (1 + i) (by omega) s hI s1 yIdx _ hO hP _
      hM2 _ _ _ _
  rw [hunfold, hpiv0]
  simp only [bind, Except.bind]
  obtain ⟨s, hs, _⟩ := foldlM_range_total (fun s i => factorRow n Ap Ai Ax etree false rp s (1 + i))
    (fun i s => RowInv Ap Ai Lnz n (1 + i) Li.size s) (n - 1) _ hI1 hrow
  exact ⟨s, hs⟩

/-- [S] hence **`QDLDLFactorisation::new` returns a factorisation object** on a canonical
upper-triangular `A` and a valid ordering whenever the pivot rule never returns zero. -/
theorem new_ok_of_rule (A : Csc α) (hw : wellFormed A = true) (hc : checkStructure A = .ok ())
    (hnd : NoDupCols A.colptr A.rowval) (hn : 0 < A.n) (perm iperm : Array Nat)
    (hip : Perm.invperm perm = .ok iperm) (hps : perm.size = A.n) (dsigns : Option (Array Int))
    (hds : ∀ ds, dsigns = some ds → A.n ≤ ds.size) (enable : Bool) (eps delta : α)
    (hnz : ∀ k, k < A.n → ∀ x : α,
      ((regularizePivot enable eps delta (signAt dsigns perm k) x).1 == (0 : α)) = false) :
    ∃ F, new A perm dsigns enable eps delta false = .ok F := by
  obtain ⟨P, map, Ds, es, hP, hDs, hes, hPm, hPn, hT, hI, hRep, hval, hDsz, hDv⟩ :=
    new_stages A hw hc hnd perm iperm hip hps dsigns hds
  have hA := InputOK.of_checks A hw hc
  have heq := new_eq A perm iperm dsigns enable eps delta false P map Ds es hc hip hP hDs hes
  rw [heq, factor_false_eq]
  have C : FCtx A.n P.colptr P.rowval es.etree es.Lnz := FCtx.of_etree hn hT hI
  have hsum : LpOf es.Lnz A.n = es.Lnz.toList.foldl (· + ·) 0 := by
    have := cumsum_last es.Lnz
    rw [C.lsz] at this
    exact this
  set rp : RegParams α := { Dsigns := Ds, enable := enable, eps := eps, delta := delta } with hrp
  have hcall : factorInner (freshObj A.m perm iperm P map es rp false).triuA.n
      (freshObj A.m perm iperm P map es rp false).triuA.colptr
      (freshObj A.m perm iperm P map es rp false).triuA.rowval
      (freshObj A.m perm iperm P map es rp false).triuA.nzval
      (freshObj A.m perm iperm P map es rp false).L.rowval
      (freshObj A.m perm iperm P map es rp false).L.nzval
      (freshObj A.m perm iperm P map es rp false).D
      (freshObj A.m perm iperm P map es rp false).Dinv
      (freshObj A.m perm iperm P map es rp false).Lnz
      (freshObj A.m perm iperm P map es rp false).etree false
      (freshObj A.m perm iperm P map es rp false).rp =
      factorInner A.n P.colptr P.rowval P.nzval (Array.replicate (es.Lnz.toList.foldl (· + ·) 0) 0)
        (Array.replicate (es.Lnz.toList.foldl (· + ·) 0) 0) (Array.replicate A.n 0) (Array.replicate A.n 0)
        es.Lnz es.etree false rp := by
    show factorInner P.n _ _ _ _ _ (Array.replicate A.m 0) (Array.replicate A.m 0) _ _ _ _ = _
    rw [hPn, hA.sq]
    rfl
  rw [hcall]
  have hLi : LpOf es.Lnz A.n ≤ (Array.replicate (es.Lnz.toList.foldl (· + ·) 0) (0 : Nat)).size := by
    rw [hsum]; simp
  have hsg : rp.enable = true → A.n ≤ rp.Dsigns.size := fun _ => by rw [hrp]; simp [hDsz]
  obtain ⟨s, hs⟩ := factorInner_ok_of_rule C P.nzval _ hRep
    (Array.replicate (es.Lnz.toList.foldl (· + ·) 0) 0)
    (Array.replicate (es.Lnz.toList.foldl (· + ·) 0) (0 : α)) (Array.replicate A.n 0)
    (Array.replicate A.n 0) hLi (by simp) (by simp) (by simp) rp hsg (by
      intro k hk x
      show ((regularizePivot enable eps delta (Ds.getD k 0) x).1 == (0 : α)) = false
      rw [hDv k hk]
      exact hnz k hk x)
  rw [hs]
  exact ⟨_, rfl⟩

end total

section signs
open Clarabel.Lemmas.KktInertia Clarabel.Lemmas.KktInertiaList Clarabel.Lemmas.KktLdlSigns

variable {α : Type} [Field α] [LinearOrder α] [IsStrictOrderedRing α] [FloatLike α]
  [LawfulFloatLike α]

/-- the rule of a regularised factorisation (`eps > 0`, `delta ≠ 0`, sign `±1`) never returns `0` -/
theorem rule_ne_zero (eps delta : α) (sg : Int) (hsg : sg = 1 ∨ sg = -1) (he : 0 < eps)
    (hd : delta ≠ 0) (x : α) : ((regularizePivot true eps delta sg x).1 == (0 : α)) = false := by
  have hs : (signT sg : α) = 1 ∨ (signT sg : α) = -1 := by
    rcases hsg with rfl | rfl
    · left; simp [signT, LawfulFloatLike.ofNat_eq]
    · right; simp [signT, LawfulFloatLike.ofNat_eq]
  have hne : (regularizePivot true eps delta sg x).1 ≠ 0 := by
    unfold regularizePivot
    simp only [if_true]
    by_cases hlt : x * signT sg < eps
    · rw [if_pos hlt]
      rcases hs with h | h <;> rw [h] <;> simpa using hd
    · rw [if_neg hlt]
      intro h0
      apply hlt
      have h0' : x = 0 := h0
      rw [h0', zero_mul]; exact he
  simpa using hne

/-- [F] **the recorded signs are the signs of QDLDL's `D`** (statement on `NewSpec`, the
description of the object returned by `QDLDLFactorisation::new` that C12 proves). -/
theorem newSpec_signs (K : Csc α) (perm iperm : Array Nat)
    (hip : Perm.invperm perm = .ok iperm) (hps : perm.size = K.n) (ds : Array Int)
    (enable : Bool) (eps delta ε : α) (s : Fin K.n → Bool)
    (hQ : QuasiDefGE (fun i j : Fin K.n => symOf K i.val j.val) s Finset.univ ε) (hε : 0 < ε)
    (heps : eps ≤ ε) (hds : ∀ i : Fin K.n, ds.getD i.val 0 = if s i then 1 else -1)
    (F : Factorisation α) (hF : NewSpec K perm (some ds) enable eps delta F) :
    (∀ r (hr : r < K.n), ∃ hpr : perm.getD r 0 < K.n,
      ds.getD (perm.getD r 0) 0 = (if s ⟨perm.getD r 0, hpr⟩ then 1 else -1) ∧
      if s ⟨perm.getD r 0, hpr⟩ then ε ≤ F.D.getD r 0 else F.D.getD r 0 ≤ -ε) ∧
    F.regularizeCount = 0 ∧
    F.positiveInertia = (Finset.univ.filter (fun i : Fin K.n => s i = true)).card := by
  obtain ⟨_, hinv⟩ := invperm_invPair perm iperm hip
  rw [hps] at hinv
  set e : Equiv.Perm (Fin K.n) := hinv.toEquiv with he
  have hQ' := QuasiDefGE.reindex e hQ
  set a : ℕ → ℕ → α := fun i j => symOf K (perm.getD i 0) (perm.getD j 0) with ha
  set ℓ : ℕ → ℕ → α := denseL F.L.colptr F.L.rowval F.L.nzval with hℓ
  set d : ℕ → α := fun j => F.D.getD j 0 with hd
  have hrule : ∀ r (hr : r < K.n) (x : α),
      (if s (e ⟨r, hr⟩) then ε ≤ x else x ≤ -ε) →
      regularizePivot enable eps delta (signAt (some ds) perm r) x = (x, false) := by
    intro r hr x hx
    exact rule_inactive enable eps delta _ (s (e ⟨r, hr⟩)) x ε (hds (e ⟨r, hr⟩)) heps hx
  have hsig := ldl_signs K.n a ℓ d (fun i => s (e i)) ε
    (fun r x => (regularizePivot enable eps delta (signAt (some ds) perm r) x).1)
    (fun i j => symOf_comm K _ _) hQ' hε
    (fun r hr x hx => by rw [hrule r hr x hx])
    hF.offdiag hF.diag
  refine ⟨?_, ?_, ?_⟩
  · intro r hr
    exact ⟨hinv.pm_lt r hr, hds (e ⟨r, hr⟩), (hsig r hr).2⟩
  · rw [hF.regcount]
    have : (List.range K.n).filter (fun r =>
        (regularizePivot enable eps delta (signAt (some ds) perm r)
          (symOf K (perm.getD r 0) (perm.getD r 0) - ∑ j ∈ Finset.range r,
            (denseL F.L.colptr F.L.rowval F.L.nzval r j * F.D.getD j 0) *
              denseL F.L.colptr F.L.rowval F.L.nzval r j)).2) = [] := by
      rw [List.filter_eq_nil_iff]
      intro r hr
      rw [List.mem_range] at hr
      obtain ⟨h1, h2⟩ := hsig r hr
      have h3 : (if s (e ⟨r, hr⟩) then ε ≤ rawPiv a ℓ d r else rawPiv a ℓ d r ≤ -ε) := by
        rw [← h1]; exact h2
      have := hrule r hr _ h3
      show ¬ (regularizePivot enable eps delta (signAt (some ds) perm r) (rawPiv a ℓ d r)).2 = true
      rw [this]
      simp
    rw [this]
    rfl
  · rw [hF.inertia]
    have := count_pos K.n d (fun i => s (e i)) ε hε (fun r hr => (hsig r hr).2)
    rw [this]
    exact Finset.card_equiv e (by intro i; simp)

end signs

end Clarabel.Qdldl
