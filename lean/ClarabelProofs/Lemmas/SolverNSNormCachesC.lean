/-
  `SolverNS.Solver.solveC` (`ClarabelModel/SolverNS/SolveC.lean`: the norm caches stored IN THE PASS, at
  `Info.update`, where the Rust code stores them) and `SolverNS.Solver.solve` (the caches stored once,
  in the returned object) are the same function — the port of `Lemmas/SolverNormCachesC.lean` to the
  model with nonsymmetric cones:

      theorem solveC_eq_solve : S.solveC st = S.solve st

  Ingredients: `pass_setNorms` / `runLoop_setNorms` / `finish_setNorms` of
  `Lemmas/SolverNSNormTransparent.lean`, and `fillNorms` is idempotent.  [S]: no scalar law.
-/
import ClarabelModel.SolverNS.SolveC
import ClarabelProofs.Lemmas.SolverNSNormTransparent
import ClarabelProofs.Lemmas.SolverNormCachesC

namespace Clarabel.SolverNS
open Clarabel Info
open Clarabel.Solver (NormsAgree fillNorms fillNorms_of normsAgree_filled fillNorms_filled)
set_option linter.unusedSectionVars false
set_option linter.unusedVariables false
set_option linter.dupNamespace false
variable {α : Type}
variable [Add α] [Sub α] [Mul α] [Div α] [Neg α] [LT α] [LE α] [DecidableLT α] [DecidableLE α]
  [BEq α] [OfNat α 0] [OfNat α 1] [OfNat α 2] [OfNat α 3] [OfNat α 4] [OfNat α 100] [OfNat α 1000]
  [OfScientific α] [FloatLike α]

private theorem bindInv {β γ : Type} {x : MErr β} {f : β → MErr γ} {c : γ}
    (h : (x >>= f) = .ok c) : ∃ a, x = .ok a ∧ f a = .ok c := by
  cases x with
  | error e => cases h
  | ok a => exact ⟨a, rfl, h⟩

/-- the loop state with the problem data replaced -/
def LoopSt.withData (L : LoopSt α) (d : ProblemData α) : LoopSt α :=
  { L with S := { L.S with data := d } }

/-- a pass that returned has read both norms -/
theorem pass_norms {st : Settings α} {L : LoopSt α} {r : Bool × LoopSt α} (h : pass st L = .ok r) :
    ∃ nq nb, Info.getNormq L.S.data.normq L.S.data.q L.S.data.equilibration.dinv
        L.S.data.equilibration.c = .ok nq
      ∧ Info.getNormb L.S.data.normb L.S.data.b L.S.data.equilibration.einv = .ok nb := by
  unfold pass at h
  obtain ⟨x, htop, _⟩ := bindInv h
  unfold topNumerics at htop
  dsimp only at htop
  obtain ⟨_, _, htop⟩ := bindInv htop
  obtain ⟨nq, hq, htop⟩ := bindInv htop
  obtain ⟨nb, hb, _⟩ := bindInv htop
  exact ⟨nq, nb, hq, hb⟩

/-- **one pass**: storing the caches in the pass = the pass, then the data with the caches filled -/
theorem passC_eq (st : Settings α) (L : LoopSt α) :
    passC st L = pass st L >>= fun r => (fillNorms L.S.data).map fun d => (r.1, r.2.withData d) := by
  cases hp : pass st L with
  | error e =>
    -- `pass` starts with `topNumerics`; `fillNorms` repeats two of its calls
    unfold passC
    cases htop : topNumerics L.S L.iter with
    | error e' =>
      have : pass st L = .error e' := by unfold pass; rw [htop]; rfl
      rw [hp] at this
      cases this
      rfl
    | ok x =>
      unfold topNumerics at htop
      dsimp only at htop
      obtain ⟨_, _, htop⟩ := bindInv htop
      obtain ⟨nq, hq, htop⟩ := bindInv htop
      obtain ⟨nb, hb, _⟩ := bindInv htop
      show (fillNorms L.S.data >>= fun data => pass st { L with S := { L.S with data := data } }) = _
      rw [fillNorms_of hq hb]
      show pass st (L.setNorms (some nq) (some nb)) = _
      rw [pass_setNorms st L _ _ (normsAgree_filled hq hb), hp]
      rfl
  | ok r =>
    obtain ⟨nq, nb, hq, hb⟩ := pass_norms hp
    have htop : ∃ x, topNumerics L.S L.iter = .ok x := by
      unfold pass at hp
      obtain ⟨x, htop, _⟩ := bindInv hp
      exact ⟨x, htop⟩
    obtain ⟨x, htop⟩ := htop
    unfold passC
    rw [htop]
    show (fillNorms L.S.data >>= fun data => pass st { L with S := { L.S with data := data } }) = _
    rw [fillNorms_of hq hb]
    show pass st (L.setNorms (some nq) (some nb)) = _
    rw [pass_setNorms st L _ _ (normsAgree_filled hq hb), hp]
    show Except.ok (r.1, r.2.setNorms (some nq) (some nb)) = Except.ok (r.1, r.2.withData _)
    have hd := pass_data' hp
    unfold LoopSt.setNorms SolverSt.setNorms LoopSt.withData
    rw [hd]

/-- **the loop** -/
theorem runLoopC_eq (st : Settings α) : ∀ (fuel : Nat) (L : LoopSt α),
    runLoopC st fuel L = runLoop st fuel L >>= fun Lf => (fillNorms L.S.data).map fun d => Lf.withData d
  | 0, _ => rfl
  | fuel + 1, L => by
    unfold runLoopC runLoop
    rw [passC_eq]
    cases hp : pass st L with
    | error e => rfl
    | ok r =>
      obtain ⟨nq, nb, hq, hb⟩ := pass_norms hp
      have hd := pass_data' hp
      show ((fillNorms L.S.data).map (fun d => (r.1, r.2.withData d)) >>= fun r' =>
          if r'.1 = true then runLoopC st fuel r'.2 else pure r'.2)
        = ((if r.1 = true then runLoop st fuel r.2 else pure r.2) >>= fun Lf =>
            (fillNorms L.S.data).map fun d => Lf.withData d)
      rw [fillNorms_of hq hb]
      show (if r.1 = true then runLoopC st fuel (r.2.withData _) else pure (r.2.withData _)) = _
      by_cases hc : r.1 = true
      · rw [if_pos hc, if_pos hc, runLoopC_eq st fuel]
        have e : r.2.withData (L.S.data.setNorms (some nq) (some nb)) = r.2.setNorms (some nq) (some nb) := by
          unfold LoopSt.setNorms SolverSt.setNorms LoopSt.withData
          rw [hd]
        rw [e, runLoop_setNorms st _ _ fuel r.2 ((normsAgree_filled hq hb).of_data_eq hd)]
        show ((runLoop st fuel r.2).map (·.setNorms (some nq) (some nb)) >>= fun Lf =>
            (fillNorms (r.2.S.data.setNorms (some nq) (some nb))).map fun d => Lf.withData d) = _
        rw [fillNorms_filled, hd]
        cases runLoop st fuel r.2 with
        | error e => rfl
        | ok Lf => rfl
      · rw [if_neg hc, if_neg hc]
        rfl

/-- the loop returned: both norms were read on the data at entry -/
theorem runLoop_norms {st : Settings α} : ∀ {fuel : Nat} {L Lf : LoopSt α}, runLoop st fuel L = .ok Lf →
    ∃ nq nb, Info.getNormq L.S.data.normq L.S.data.q L.S.data.equilibration.dinv
        L.S.data.equilibration.c = .ok nq
      ∧ Info.getNormb L.S.data.normb L.S.data.b L.S.data.equilibration.einv = .ok nb
  | 0, _, _, h => by cases h
  | fuel + 1, L, Lf, h => by
    unfold runLoop at h
    obtain ⟨r, hp, _⟩ := bindInv h
    exact pass_norms hp

/-- `info.reset`, `default_start()` and the loop -/
theorem runSolveC_eq (S : SolverSt α) (st : Settings α) :
    S.runSolveC st = S.runSolve st >>= fun L => (fillNorms S.data).map fun d => L.withData d := by
  have e1 : S.runSolveC st = (SolverSt.defaultStart
      ({ S with info := { S.info with status := .unsolved, iterations := 0 } } : SolverSt α) st >>= fun S0 =>
      runLoopC st (st.info.max_iter + 3) { S := S0, iter := 0, sigma := 1, alpha := 0, mu := 0, scaling := initScaling S0.cones, traj := [] }) := rfl
  have e2 : S.runSolve st = (SolverSt.defaultStart
      ({ S with info := { S.info with status := .unsolved, iterations := 0 } } : SolverSt α) st >>= fun S0 =>
      runLoop st (st.info.max_iter + 3) { S := S0, iter := 0, sigma := 1, alpha := 0, mu := 0, scaling := initScaling S0.cones, traj := [] }) := rfl
  rw [e1, e2]
  cases hds : SolverSt.defaultStart
      ({ S with info := { S.info with status := .unsolved, iterations := 0 } } : SolverSt α) st with
  | error e => rfl
  | ok S0 =>
    have hd0 : S0.data = S.data := defaultStart_data' (S := { S with info := { S.info with status := .unsolved, iterations := 0 } }) hds
    show runLoopC st (st.info.max_iter + 3)
        { S := S0, iter := 0, sigma := 1, alpha := 0, mu := 0, scaling := initScaling S0.cones, traj := [] }
      = (runLoop st (st.info.max_iter + 3)
        { S := S0, iter := 0, sigma := 1, alpha := 0, mu := 0, scaling := initScaling S0.cones, traj := [] } >>= fun L => _)
    rw [runLoopC_eq]
    show (_ >>= fun Lf : LoopSt α => (fillNorms S0.data).map fun d => Lf.withData d) = _
    rw [hd0]

/-- **[S] `solve()` with the norm caches stored in the pass, where the Rust code stores them, IS
`solve()` of the shared model** (which stores them once, in the object it returns): same error, or
same trajectory, same solution, same returned solver object — caches included. -/
theorem solveC_eq_solve (S : Solver α) (st : Settings α) : S.solveC st = S.solve st := by
  unfold Solver.solveC Solver.solve
  rw [runSolveC_eq]
  cases hl : S.st.runSolve st with
  | error e => rfl
  | ok L =>
    have hdL : L.S.data = S.st.data := runSolve_data' hl
    have hn : ∃ nq nb, Info.getNormq S.st.data.normq S.st.data.q S.st.data.equilibration.dinv
          S.st.data.equilibration.c = .ok nq
        ∧ Info.getNormb S.st.data.normb S.st.data.b S.st.data.equilibration.einv = .ok nb := by
      have e2 : S.st.runSolve st = (SolverSt.defaultStart
          ({ S.st with info := { S.st.info with status := .unsolved, iterations := 0 } } : SolverSt α) st
          >>= fun S0 => runLoop st (st.info.max_iter + 3)
            { S := S0, iter := 0, sigma := 1, alpha := 0, mu := 0, scaling := initScaling S0.cones, traj := [] }) := rfl
      rw [e2] at hl
      obtain ⟨S0, hds, hl⟩ := bindInv hl
      have hd0 : S0.data = S.st.data :=
        defaultStart_data' (S := { S.st with info := { S.st.info with status := .unsolved, iterations := 0 } }) hds
      have := runLoop_norms hl
      rw [show ({ S := S0, iter := 0, sigma := 1, alpha := 0, mu := 0, scaling := initScaling S0.cones, traj := [] } : LoopSt α).S.data
        = S.st.data from hd0] at this
      exact this
    obtain ⟨nq, nb, hq, hb⟩ := hn
    show ((fillNorms S.st.data).map (fun d => L.withData d) >>= fun L' =>
        finish st L' S.solution >>= fun r => pure _) = (finish st L S.solution >>= fun r => _)
    rw [fillNorms_of hq hb]
    have e : L.withData (S.st.data.setNorms (some nq) (some nb)) = L.setNorms (some nq) (some nb) := by
      unfold LoopSt.setNorms SolverSt.setNorms LoopSt.withData
      rw [hdL]
    show (finish st (L.withData (S.st.data.setNorms (some nq) (some nb))) S.solution >>= fun r => _) = _
    rw [e, finish_setNorms]
    cases hf : finish st L S.solution with
    | error e => rfl
    | ok r =>
      have hdr : r.1.data = S.st.data := (finish_data' hf).trans hdL
      show Except.ok _ = (fillNorms r.1.data >>= fun data => _)
      rw [hdr, fillNorms_of hq hb]
      show (Except.ok ({ S := { st := r.1.setNorms (some nq) (some nb), solution := r.2 }, traj := L.traj } :
        SolveResult α) : MErr _) = Except.ok _
      unfold SolverSt.setNorms
      rw [hdr]

end Clarabel.SolverNS
